#!/usr/bin/env python3
"""
rust2lean_guard -- translate the in-place conversion code of palette (C13) into Lean: family `guard`.

Sources re-read on every run (tokenizer / Pratt parser / `find_fn` / `impl_of` of tools/rust2lean.py, extended here by a parser subclass):
    convert/from_into_color_mut.rs, convert/from_into_color_unclamped_mut.rs
        `impl FromColorMut<U> for T`, `impl FromColorMut<[U]> for [T]`, the blanket `IntoColorMut`, every inherent method of the two guard
        structs, their `Deref`, `DerefMut`, `Drop` impls (and the same for the unclamped file)
    cast/array.rs
        `map_vec_in_place`, `map_slice_box_in_place`, and the owned-buffer casts they call (`into_array_vec`, `from_array_vec`,
        `into_array_slice_box`, `from_array_slice_box`, `into_array_slice_mut`, `from_array_slice_mut`)
Output: lean/PaletteModel/Gen/BodiesGuard.lean (namespace `Gen.BodyGuard`); lean/PaletteProofs/Tie_Guard.lean proves every translated body
equal to the function of the hand model PaletteModel/InPlace.lean (+ InPlaceForms.lean) that the driver executes.

Lowering (state passing; readings of std constructs in PaletteModel/BodyPrimGuard.lean):
  * a colour type parameter is a `Prim.Ty`; `[T]` is read as `T`; `Self` is resolved from the impl header.  In the impls *of a guard struct*
    the parameter `U` is read from the value (`self_.original`, the value-level shadow of `PhantomData<&'a mut U>`); `T` has no shadow
    (a body that needs it leaves the subset); method generics (`C`) are parameters.
  * a `&mut X` into the converted memory is represented by the static type of its referent; the contents of that memory are the state
    `m`, threaded through: `r.clone()` reads `m`, `*r = e` rebinds `m`, a callee that works on the memory takes and returns it.
    `for c in &mut *cs { .. }` is `Prim.forEachMut (fun m => ..; m) m` (the loop body works on one element's memory).
  * guard struct literals: `G { current: e, original: PhantomData }` -> `{ current := e, original := <U of the declared return type>,
    clamped := <G is FromColorMutGuard> }`; the literal's struct must be the declared return type.
  * trait-dispatched callees are parameters (dictionary passing, as in rust2lean_glue.py): `X::from_color_mut` / `X::from_color_unclamped_mut`
    -> `fromColorMut r ⟦X⟧ m` / `fromColorUnclampedMut r ⟦X⟧ m` (reference = source type, target type, memory); `.into_color()` /
    `.into_color_unclamped()` -> `intoColor` / `intoColorUnclamped`.  Both spellings are parameters of every body, so that using the wrong one is a
    wrong *term* (`broken[proof]`), not a body outside the subset.
  * `o.take()` on the field `current` of a `mut` guard local -> `let (t, c) := Prim.optTake g.current; let g := { g with current := c }`;
    `.map(f)` / `.and_then(f)` -> `Prim.optMapM` / `Prim.optAndThenM` (effectful `f`); `.as_ref()` / `.as_mut()` -> `Prim.optAsRef`.
  * **scope-end drops are inserted as the language defines them**: a by-value guard (`mut self`, a closure parameter `|mut guard|`, a `let`)
    that has not been moved (returned, passed to `core::mem::forget`) is dropped when its scope ends, innermost first:
    `let m := dropGlue fromColorMut fromColorUnclampedMut g m`, where `dropGlue` (emitted below the two translated `Drop::drop` bodies) calls the
    `Drop` impl of the struct the value is.  `&self` / `&mut self` are borrows: no drop.  `core::mem::forget(e)`: `e` is evaluated, nothing is dropped.
    A guard-valued *temporary* in statement position (it would be dropped at the `;`) is outside the subset.
  * `if let Some(x) = e { a } else { unreachable!() }` (tail position) -> `match e with | some x => some (..a..) | none => none`: a body that
    contains `unreachable!()` returns an `Option` (`none` = the panic).
  * results: value (if any), then the final `self_` for `&mut self` methods of a guard, then the final memory `m` (if the body is registered with memory).
  * cast/array.rs (mode `raw`): `Vec<T>` -> `Prim.VecV κ` (ptr, len, cap, contents), `Box<[T]>` / `&mut [T]` / `*mut [T]` -> `Prim.SliceV κ`, `*mut T` -> `Prim.RawPtr κ`;
    `ManuallyDrop::new/into_inner`, `as_mut_ptr`, `len`, `capacity`, `.cast::<_>()`, `Vec::from_raw_parts`, `slice::from_raw_parts_mut`, `Box::leak`,
    `Box::from_raw`, `ptr::read`, `ptr::write`, `into_array`, `from_array` -> the `Prim.*` of the same name; `unsafe { e }` -> `e`;
    `for item in &mut *values { .. }` -> `{ values with elems := Prim.forEachMut (fun item => ..; item) values.elems }`; the layout
    `assert_eq!(size_of/align_of::<X::Array>(), ..::<X>())` have no effect on values: their list is emitted as `<name>Asserts` and pinned by a tie.
Anything else raises `Untranslatable` (plugin: `die`, i.e. `broken[extraction]`); so does a translated body without `tie_` theorem.
"""
import re, os, sys
sys.path.insert(0, os.path.dirname(os.path.abspath(__file__)))
import rust2lean as R
from rust2lean import Untranslatable, fail, tokenize, find_fn, strip_comments, split_top, lname, impl_of

NS = "Gen.BodyGuard"

# ------------------------------------------------------------------------------------------------ parser: `if let`, `unsafe { }`, `unreachable!()`, `assert_eq!`
class GParser(R.Parser):
    def atom(self, no_struct):
        k, v = self.peek()
        if k == "id" and v == "unsafe" and self.at("{", 1):
            self.i += 1
            return ("unsafe", self.block())
        if k == "id" and v in ("unreachable", "assert_eq") and self.at("!", 1) and self.peek(2)[1] == "(":
            self.i += 2
            toks = self.balanced()
            if v == "unreachable":
                if toks: fail("unreachable!(..) with arguments")
                return ("unreachable",)
            q = GParser(toks); a = q.expr(); q.expect(","); b = q.expr(); q.eat(",")
            if q.peek()[0] != "eof": fail("assert_eq!: trailing tokens")
            return ("assert_eq", a, b)
        return super().atom(no_struct)

    def if_expr(self):
        if self.at("if") and self.at("let", 1):
            self.i += 2
            pat = self.match_pattern()
            self.expect("=")
            scrut = self.expr(0, True)
            th = self.block()
            el = None
            if self.eat("else"): el = self.if_expr() if self.at("if") else self.block()
            return ("iflet", pat, scrut, th, el)
        return super().if_expr()

    def block(self):
        b = super().block()
        return b

# ------------------------------------------------------------------------------------------------ lowering
GUARDS = {"FromColorMutGuard": "true", "FromColorUnclampedMutGuard": "false"}
CALLEES = {"from_color_mut": "fromColorMut", "from_color_unclamped_mut": "fromColorUnclampedMut"}
VALCONV = {"into_color": "intoColor", "into_color_unclamped": "intoColorUnclamped"}
CASTPAIRS = {("from_array_mut", "into_array_mut"), ("from_array_slice_mut", "into_array_slice_mut")}
KIND_TY = {"guard": "Prim.Guard", "ref": "Prim.Ty", "optref": "Option Prim.Ty", "optguard": "Option Prim.Guard", "val": "κ", "vec": "Prim.VecV κ",
           "slice": "Prim.SliceV κ", "ptr": "Prim.RawPtr κ", "nat": "Nat"}

class V:
    def __init__(self, code, kind, name=None):
        self.code, self.kind, self.name = code, kind, name     # name: the local variable this value is (a bare path), for move tracking

def nospace(t): return re.sub(r"\s+", "", re.sub(r"'\w+\s*,?", "", t))

def segs_of(e):
    return e[1] if e[0] == "path" else None

class GLower:
    def __init__(self, spec, registry):
        self.spec, self.registry = spec, registry
        self.n = 0
        self.tparams = dict(spec.get("tparams", []))
        self.self_ty = spec.get("self_ty")
        self.mode = spec.get("mode", "guard")
        self.can_panic = False
        self.moved = set()
        self.asserts = []
        self.cur_scope = "fn"
        self.ret_guard = None      # (struct name, first type arg, second type arg) of the declared return type

    def tmp(self, base="t"):
        self.n += 1
        return f"{base}{self.n - 1}"

    # ---- types
    def ty(self, text, what="type"):
        t = nospace(text)
        while True:
            m = re.fullmatch(r"\[(.*)\]", t)
            if m: t = m.group(1); continue
            m = re.fullmatch(r"&(?:mut)?(.*)", t)
            if m: t = m.group(1); continue
            break
        if t == "Self":
            if not self.self_ty: fail(f"{what}: `Self` in a body without registered self type")
            return self.ty(self.self_ty, what)
        if t in self.tparams:
            if self.tparams[t] is None: fail(f"{what}: the type parameter `{t}` has no value-level reading in this impl")
            return self.tparams[t]
        fail(f"{what}: type `{text}` is not a registered type parameter of this body")

    def dropglue(self, g):
        if not self.spec.get("mem"): fail("a guard goes out of scope in a body registered without memory")
        if self.spec.get("callee_mem", self.spec["mem"]) != self.spec["mem"]: fail("a guard goes out of scope where the callees work on another memory (element loop)")
        if "dropGlue" not in self.registry: fail("a guard goes out of scope before both `Drop::drop` bodies are translated")
        return f"let m := {NS}.dropGlue fromColorMut fromColorUnclampedMut {g} m"

    # ---- expressions
    def ex(self, e, env, L, expect=None):
        k = e[0]
        if k == "path": return self.path(e, env)
        if k == "unary":
            if e[1] in ("&", "*"): return self.ex(e[2], env, L, expect)
            fail(f"unary `{e[1]}` is outside the subset of the family guard")
        if k == "field":
            base = self.place_local(e[1], env)
            if env[base]["kind"] != "guard" or e[2] != "current": fail(f"field `.{e[2]}`: only `.current` of a guard is read")
            return V(f"{env[base]['code']}.current", "optref")
        if k == "mcall": return self.mcall(e, env, L)
        if k == "call": return self.call(e, env, L, expect)
        if k == "struct": return self.struct_lit(e, env, L)
        if k == "unsafe":
            b = e[1]
            if b[1] or b[2] is None: fail("`unsafe { .. }` with statements")
            return self.ex(b[2], env, L, expect)
        if k == "closure": fail("closure outside `.map(..)` / `.and_then(..)`")
        fail(f"expression kind {k!r} is outside the subset of the family guard")

    def place_local(self, e, env):
        while e[0] == "unary" and e[1] in "&*": e = e[2]
        s = segs_of(e)
        if s is None or len(s) != 1 or s[0] not in env: fail("expected a local variable")
        return s[0]

    def path(self, e, env):
        s = e[1]
        if len(s) == 1 and s[0] in env:
            d = env[s[0]]
            return V(d["code"], d["kind"], s[0])
        fail(f"path `{'::'.join(s)}` is neither a local nor a registered callee")

    def fnval(self, e, env, arg_kind):
        """a function passed to `.map` / `.and_then`: (lean code of `fun a m => (b, m)`, result kind)"""
        if e[0] == "path" and len(e[1]) == 2 and e[1][1] in CALLEES:
            if arg_kind != "ref": fail(f"`{'::'.join(e[1])}` applied to a value that is not a reference")
            return f"(fun r m => {CALLEES[e[1][1]]} r {self.ty(e[1][0])} m)", "guard"
        if e[0] == "closure":
            if len(e[1]) != 1 or e[1][0][0][0] != "pid": fail("closure: one plain parameter expected")
            pname, pmut = e[1][0][0][1], e[1][0][0][2]
            env2 = {n: dict(d) for n, d in env.items()}
            v = lname(pname)
            env2[pname] = dict(code=v, kind=arg_kind, mut=pmut, scope="closure")
            L2 = []
            body = e[2]
            outer, self.cur_scope = self.cur_scope, "closure"
            if body[0] == "block":
                self.stmts(body[1], env2, L2)
                if body[2] is None: fail("closure without value")
                r = self.ex(body[2], env2, L2)
            else:
                r = self.ex(body, env2, L2)
            if r.name: self.moved.add(r.name)
            for n in self.scope_guards(env2, "closure"):
                L2.append(self.dropglue(env2[n]["code"]))
            self.cur_scope = outer
            inner = "".join(f"      {l}\n" for l in L2)
            return f"(fun {v} m =>\n{inner}      ({r.code}, m))", r.kind
        fail("function argument: neither `X::from_color_mut` / `X::from_color_unclamped_mut` nor a closure")

    def scope_guards(self, env, scope):
        """by-value guards declared in `scope` that have not been moved, innermost (last declared) first"""
        names = [n for n, d in env.items() if d.get("scope") == scope and d["kind"] == "guard" and n not in self.moved]
        return list(reversed(names))

    def mcall(self, e, env, L):
        recv, m, args = e[1], e[2], e[3]
        if self.mode == "raw": return self.raw_mcall(e, env, L)
        if m == "take" and not args:
            if recv[0] != "field" or recv[2] != "current": fail("`.take()`: only on the field `current` of a guard")
            g = self.place_local(recv[1], env)
            if env[g]["kind"] != "guard": fail("`.take()`: the receiver is not a guard")
            if not env[g].get("mut"): fail(f"`.take()` on `{g}`, which is not declared `mut`")
            if env[g].get("borrow") == "shared": fail("`.take()` through `&self`")
            t, c = self.tmp("t"), self.tmp("c")
            gc = env[g]["code"]
            L.append(f"let ({t}, {c}) := Prim.optTake {gc}.current")
            L.append(f"let {gc} := {{ {gc} with current := {c} }}")
            return V(t, "optref")
        if m in ("as_ref", "as_mut") and not args:
            o = self.ex(recv, env, L)
            if o.kind != "optref" or recv[0] != "field": fail(f"`.{m}()`: only on the field `current` of a guard")
            return V(f"(Prim.optAsRef {o.code})", "optref")
        if m in ("map", "and_then") and len(args) == 1:
            o = self.ex(recv, env, L)
            if o.kind not in ("optref", "optguard"): fail(f"`.{m}(..)` on a value that is not an `Option` of a reference or guard")
            f, rk = self.fnval(args[0], env, o.kind[3:])
            t = self.tmp("t")
            if m == "map":
                if rk not in ("guard", "ref"): fail("`.map(f)`: `f` must return a guard or a reference")
                L.append(f"let ({t}, m) := Prim.optMapM {o.code} {f} m")
                return V(t, "opt" + rk)
            if rk not in ("optref", "optguard"): fail("`.and_then(f)`: `f` must return an `Option`")
            L.append(f"let ({t}, m) := Prim.optAndThenM {o.code} {f} m")
            return V(t, rk)
        if m == "clone" and not args:
            r = self.ex(recv, env, L)
            if r.kind != "ref": fail("`.clone()`: only of the referent of a reference into the converted memory")
            t = self.tmp("t")
            L.append(f"let {t} := m")
            return V(t, "val")
        if m in VALCONV and not args:
            x = self.ex(recv, env, L)
            if x.kind != "val": fail(f"`.{m}()` on something that is not a colour value")
            return V(f"({VALCONV[m]} {x.code})", "val")
        fail(f"method `.{m}()` is outside the subset of the family guard")

    def call(self, e, env, L, expect):
        f, args = e[1], e[2]
        s = segs_of(f)
        if s is None: fail("call of a computed function")
        key = "::".join(s)
        if self.mode == "raw": return self.raw_call(e, env, L)
        if key == "Some" and len(args) == 1:
            inner = None
            if expect:
                mm = re.fullmatch(r"Option<(.*)>", nospace(expect))
                inner = mm.group(1) if mm else None
            a = self.ex(args[0], env, L, inner)
            if a.name: self.moved.add(a.name)
            if a.kind not in ("ref", "guard"): fail("`Some(e)`: `e` must be a reference or a guard")
            return V(f"(some {a.code})", "opt" + a.kind)
        if key in ("core::mem::forget", "mem::forget", "std::mem::forget") and len(args) == 1:
            a = self.ex(args[0], env, L)
            if a.name: self.moved.add(a.name)
            L.append(f"-- core::mem::forget({a.code}): ownership ends here, no destructor runs")
            return V("()", "unit")
        if len(s) == 2 and s[1] in CALLEES and len(args) == 1:
            a = self.ex(args[0], env, L)
            if a.kind != "ref": fail(f"`{key}(..)`: the argument is not a reference into the converted memory")
            g = self.tmp("g")
            L.append(f"let ({g}, m) := {CALLEES[s[1]]} {a.code} {self.ty(s[0])} m")
            return V(g, "guard")
        if len(s) == 2 and s[0] == "cast" and len(args) == 1 and args[0][0] == "call" and segs_of(args[0][1]) and len(args[0][2]) == 1:
            inner = segs_of(args[0][1])
            if len(inner) == 2 and inner[0] == "cast" and (s[1], inner[1]) in CASTPAIRS:
                r = self.ex(args[0][2][0], env, L)
                if r.kind != "ref": fail("reference cast of something that is not a reference into the converted memory")
                if not expect: fail(f"`{key}(cast::{inner[1]}(..))`: the target type of the reference cast is not declared where it is used")
                return V(f"(Prim.castRef {self.ty(expect)} {r.code})", "ref")
        fail(f"call of `{key}` is outside the subset of the family guard")

    def struct_lit(self, e, env, L):
        name = e[1][1][-1]
        if name not in GUARDS: fail(f"struct literal of `{name}`")
        if e[3] is not None: fail("struct update syntax")
        if self.ret_guard is None or self.ret_guard[0] != name: fail(f"a `{name}` literal in a function that is not declared to return it")
        got = dict(e[2])
        if sorted(got) != ["current", "original"]: fail(f"`{name}` literal with fields {sorted(got)}")
        if segs_of(got["original"]) != ["PhantomData"]: fail("`original:` is not `PhantomData`")
        c = self.ex(got["current"], env, L, f"Option<&mut {self.ret_guard[1]}>")
        if c.kind != "optref": fail("`current:` is not an `Option` of a reference")
        return V(f"({{ current := {c.code}, original := {self.ty(self.ret_guard[2])}, clamped := {GUARDS[name]} }} : Prim.Guard)", "guard")

    # ---- cast/array.rs
    RAW_M = {("vec", "as_mut_ptr"): ("Prim.vecAsMutPtr", "ptr"), ("vec", "len"): ("Prim.vecLen", "nat"), ("vec", "capacity"): ("Prim.vecCapacity", "nat"),
             ("slice", "as_mut_ptr"): ("Prim.sliceAsMutPtr", "ptr"), ("slice", "len"): ("Prim.sliceLen", "nat"), ("ptr", "cast"): ("Prim.ptrCast", "ptr")}
    RAW_F = {"ManuallyDrop::new": ("Prim.manuallyDropNew", None, None), "ManuallyDrop::into_inner": ("Prim.manuallyDropIntoInner", None, None),
             "Vec::from_raw_parts": ("Prim.vecFromRawParts", ["ptr", "nat", "nat"], "vec"),
             "core::slice::from_raw_parts_mut": ("Prim.sliceFromRawPartsMut", ["ptr", "nat"], "slice"),
             "Box::leak": ("Prim.boxLeak", ["slice"], "slice"), "Box::from_raw": ("Prim.boxFromRaw", ["slice"], "slice"),
             "core::ptr::read": ("Prim.ptrRead", ["slot"], "val"),
             "into_array": ("Prim.intoArray", ["val"], "val"), "from_array": ("Prim.fromArray", ["val"], "val")}

    def raw_mcall(self, e, env, L):
        recv, m, args = e[1], e[2], e[3]
        r = self.ex(recv, env, L)
        if (r.kind, m) in self.RAW_M and not args:
            fn, k = self.RAW_M[(r.kind, m)]
            return V(f"({fn} {r.code})", k)
        fail(f"method `.{m}()` on a value of kind {r.kind} is outside the subset (cast/array.rs)")

    def raw_call(self, e, env, L):
        f, args = e[1], e[2]
        key = "::".join(segs_of(f))
        if len(segs_of(f)) == 1 and key in env and env[key]["kind"] == "fn":
            if len(args) != 1: fail(f"`{key}(..)`: one argument expected")
            a = self.ex(args[0], env, L)
            if a.kind != "val": fail(f"`{key}(..)`: the argument is not an element value")
            return V(f"({env[key]['code']} {a.code})", "val")
        if key in self.registry and "ret" in self.registry[key]:
            rec = self.registry[key]
            a = [self.ex(x, env, L) for x in args]
            if [x.kind for x in a] != rec["args"]: fail(f"`{key}(..)`: argument kinds {[x.kind for x in a]}, translated for {rec['args']}")
            return V("(" + " ".join([rec["lean"]] + [x.code for x in a]) + ")", rec["ret"])
        if key in self.RAW_F:
            fn, kinds, rk = self.RAW_F[key]
            a = [self.ex(x, env, L) for x in args]
            if kinds is None:
                if len(a) != 1: fail(f"`{key}(..)`: one argument expected")
                return V(f"({fn} {a[0].code})", a[0].kind)
            if [x.kind for x in a] != kinds: fail(f"`{key}(..)`: argument kinds {[x.kind for x in a]}, expected {kinds}")
            return V("(" + " ".join([fn] + [x.code for x in a]) + ")", rk)
        fail(f"call of `{key}` is outside the subset (cast/array.rs)")

    def layout_assert(self, e):
        def side(x):
            if x[0] != "call" or x[2] or segs_of(x[1]) is None or len(x[1][2]) != 1: return None
            s = segs_of(x[1])
            if s[:-1] != ["core", "mem"] or s[-1] not in ("size_of", "align_of"): return None
            return s[-1], nospace(x[1][2][0])
        a, b = side(e[1]), side(e[2])
        if a is None or b is None or a[0] != b[0] or a[1] != b[1] + "::Array":
            fail("assert_eq!: not a layout assert `assert_eq!(core::mem::size_of|align_of::<X::Array>(), ..::<X>())`")
        self.asserts.append((a[0], b[1]))

    # ---- statements
    def stmts(self, ss, env, L):
        for s in ss:
            if s[0] == "let":
                pat, ty, init = s[1], s[2], s[3]
                if pat[0] != "pid" or init is None: fail("let: only `let [mut] x [: T] = e;`")
                v = self.ex(init, env, L, ty)
                if v.name: self.moved.add(v.name)
                n = lname(pat[1])
                if v.code != n: L.append(f"let {n} := {v.code}")
                env[pat[1]] = dict(code=n, kind=v.kind, mut=pat[2], scope=self.cur_scope)
                self.moved.discard(pat[1])
            elif s[0] == "assign":
                place = s[1]
                if not (place[0] == "unary" and place[1] == "*"): fail("assignment: only `*reference = value;`")
                r = self.ex(place[2], env, L)
                if r.kind != "ref": fail("assignment through something that is not a reference into the converted memory")
                v = self.ex(s[2], env, L)
                if v.kind != "val": fail("assignment of something that is not a colour value")
                L.append(f"let m := {v.code}")
            elif s[0] == "expr":
                self.stmt_expr(s[1], env, L)
            else: fail(f"statement {s[0]!r}")

    def stmt_expr(self, e, env, L):
        if e[0] == "for": return self.for_loop(e, env, L)
        if e[0] == "assert_eq": return self.layout_assert(e)
        if self.mode == "raw":
            inner = e
            if inner[0] == "unsafe" and not inner[1][1] and inner[1][2] is not None: inner = inner[1][2]
            if inner[0] == "call" and segs_of(inner[1]) == ["core", "ptr", "write"] and len(inner[2]) == 2:
                slot = self.place_local(inner[2][0], env)
                if env[slot]["kind"] != "slot": fail("`ptr::write`: the destination is not the loop's slot")
                v = self.ex(inner[2][1], env, L)
                if v.kind != "val": fail("`ptr::write`: the source is not an element value")
                L.append(f"let {env[slot]['code']} := Prim.ptrWrite {env[slot]['code']} {v.code}")
                return
            fail("statement outside the subset (cast/array.rs)")
        v = self.ex(e, env, L)
        if v.kind in ("guard", "optguard"):
            fail("a guard-valued temporary in statement position is dropped at the `;` (its `Drop` converts back): outside the subset")
        if v.kind != "unit": fail("expression statement with an unused value")

    def for_loop(self, e, env, L):
        pat, it, body = e[1], e[2], e[3]
        if pat[0] != "pid": fail("for: the loop pattern must be one variable")
        if body[2] is not None and body[2][0] not in ("for",): fail("for: loop body with a value")
        x = lname(pat[1])
        src = self.place_local(it, env)
        if not (it[0] == "unary" and it[1] == "&"): fail("for: the iterator must be a reborrow `&mut *x`")
        env2 = {n: dict(d) for n, d in env.items()}
        L2 = []
        outer, self.cur_scope = self.cur_scope, "loop"
        try: self.for_body(pat, it, body, x, src, env, env2, L, L2)
        finally: self.cur_scope = outer

    def for_body(self, pat, it, body, x, src, env, env2, L, L2):
        if self.mode == "raw":
            d = env[src]
            if d["kind"] not in ("vec", "slice") or not d.get("mut"): fail("for: the iterated value must be a `mut` Vec / boxed slice local")
            env2[pat[1]] = dict(code=x, kind="slot", mut=True, scope="loop")
            self.stmts(body[1], env2, L2)
            inner = "".join(f"      {l}\n" for l in L2)
            t = self.tmp("e")
            L.append(f"let {t} := Prim.forEachMut (fun {x} =>\n{inner}      {x}) {d['code']}.elems")
            L.append(f"let {d['code']} := {{ {d['code']} with elems := {t} }}")
            return
        d = env[src]
        if d["kind"] != "ref" or not d.get("slice"): fail("for: the iterated value must be the `&mut [U]` parameter")
        env2[pat[1]] = dict(code=d["code"], kind="ref", mut=False, scope="loop")
        self.stmts(body[1], env2, L2)
        for n in self.scope_guards(env2, "loop"): L2.append(self.dropglue(env2[n]["code"]))
        inner = "".join(f"      {l}\n" for l in L2)
        L.append(f"let m := Prim.forEachMut (fun m =>\n{inner}      m) m")

    # ---- tail of the function body: value, scope-end drops, result tuple
    def finish(self, v, env, L):
        if v.name: self.moved.add(v.name)
        out = list(L)
        for n in self.scope_guards(env, "fn"): out.append(self.dropglue(env[n]["code"]))
        comps = []
        if v.kind != "unit": comps.append(v.code)
        if self.spec.get("self") == "mutref_guard": comps.append("self_")
        if self.spec.get("mem"): comps.append("m")
        res = comps[0] if len(comps) == 1 else "(" + ", ".join(comps) + ")"
        if self.can_panic: res = f"some {res}" if len(comps) > 1 or re.fullmatch(r"\w+", res) else f"some ({res})"
        return out, res, v.kind

    def tail(self, e, env, L, ind):
        """render the tail expression `e` of the function body (with the lines `L` before it) as Lean text at indentation `ind`"""
        pad = " " * ind
        if e is not None and e[0] == "iflet":
            pat, scrut, th, el = e[1], e[2], e[3], e[4]
            if pat[0] != "penum" or pat[1] != ["Some"] or pat[2] is None or len(pat[2]) != 1 or pat[2][0][0] != "pid" or el is None:
                fail("if let: only `if let Some(x) = e { .. } else { .. }`")
            s = self.ex(scrut, env, L)
            if s.kind not in ("optref", "optguard"): fail("if let Some(..): the scrutinee is not an `Option` of a reference or guard")
            if s.name: self.moved.add(s.name)
            x = lname(pat[2][0][1])
            env_t = {n: dict(d) for n, d in env.items()}
            env_t[pat[2][0][1]] = dict(code=x, kind=s.kind[3:], mut=pat[2][0][2], scope="fn")
            moved0 = set(self.moved)
            a, ka = self.tail_block(th, env_t, ind + 4)
            self.moved = set(moved0)
            b, kb = self.tail_block(el, {n: dict(d) for n, d in env.items()}, ind + 4)
            self.moved = moved0
            kinds = {k for k in (ka, kb) if k != "never"}
            if len(kinds) > 1: fail("if let: the branches have values of different kinds")
            text = "".join(f"{pad}{l}\n" for l in L) + f"{pad}match {s.code} with\n{pad}| some {x} =>\n{a}{pad}| none =>\n{b}"
            return text, (kinds.pop() if kinds else "never")
        if e is not None and e[0] == "unreachable":
            if not self.can_panic: fail("internal: unreachable!() not pre-scanned")
            return "".join(f"{pad}{l}\n" for l in L) + f"{pad}none\n", "never"
        if e is None: v = V("()", "unit")
        else: v = self.ex(e, env, L)
        out, res, kind = self.finish(v, env, L)
        return "".join(f"{pad}{l}\n" for l in out) + f"{pad}{res}\n", kind

    def tail_block(self, b, env, ind):
        L = []
        self.stmts(b[1], env, L)
        return self.tail(b[2], env, L, ind)

def param_list(text):
    out = []
    for p in split_top(text):
        p = p.strip()
        if not p: continue
        m = re.fullmatch(r"(&\s*(?:'\w+\s+)?)?(mut\s+)?self", p)
        if m:
            out.append(("self", "&mut" if (m.group(1) and m.group(2)) else "&" if m.group(1) else "mut" if m.group(2) else "val", None)); continue
        m = re.match(r"(mut\s+)?(\w+)\s*:\s*(.*)$", p, re.S)
        if not m: fail(f"parameter {p!r}")
        out.append((m.group(2), "mut" if m.group(1) else "val", m.group(3).strip()))
    return out

def translate(spec, read_src, registry):
    src = read_src(spec["file"])
    where, label = spec["where"] if spec["where"] else (None, "file scope")
    params, ret, body = find_fn(src, where, spec["fn"], spec.get("nth", 0))
    g = GLower(spec, registry)
    g.can_panic = bool(re.search(r"\bunreachable\s*!", body))
    ps = param_list(params)
    env = {}
    binders = [spec.get("binders", "")]
    dict_mem = spec.get("callee_mem", spec.get("mem"))
    if spec.get("mode", "guard") == "guard":
        if spec.get("valconv"):
            binders.append("(intoColor intoColorUnclamped : κ → κ)")
        if spec.get("callees"):
            binders.append(f"(fromColorMut fromColorUnclampedMut : Prim.Ty → Prim.Ty → {dict_mem} → Prim.Guard × {dict_mem})")
    binders.append(spec.get("tbinders", ""))
    want_self = spec.get("self")
    for (n, how, ty) in ps:
        if n == "self":
            if want_self == "guard":
                if how != "mut": fail(f"receiver `{how} self`, registered as a consumed guard (`mut self`)")
                env["self"] = dict(code="self_", kind="guard", mut=True, scope="fn")
            elif want_self == "ref_guard":
                if how != "&": fail(f"receiver `{how} self`, registered as `&self` of a guard")
                env["self"] = dict(code="self_", kind="guard", mut=False, scope="borrow", borrow="shared")
            elif want_self == "mutref_guard":
                if how != "&mut": fail(f"receiver `{how} self`, registered as `&mut self` of a guard")
                env["self"] = dict(code="self_", kind="guard", mut=True, scope="borrow")
            elif want_self == "ref":
                if how != "&mut": fail(f"receiver `{how} self`, registered as `&mut self` of the converted memory")
                env["self"] = dict(code=g.ty("Self"), kind="ref", mut=False, scope="borrow", slice=False)
            else: fail("a `self` receiver in a body registered without one")
            if want_self != "ref": binders.append("(self_ : Prim.Guard)")
            continue
        t = nospace(ty)
        if spec.get("mode") == "raw":
            if re.fullmatch(r"Vec<.*>", t): kind = "vec"
            elif re.fullmatch(r"Box<\[.*\]>|&mut\[.*\]", t): kind = "slice"
            elif t in spec.get("fn_params", []): kind = "fn"
            else: fail(f"parameter `{n}: {ty}` is outside the subset (cast/array.rs)")
            env[n] = dict(code=lname(n), kind=kind, mut=(how == "mut"), scope="fn")
            binders.append(f"({lname(n)} : {'κ → κ' if kind == 'fn' else KIND_TY[kind]})")
        else:
            m = re.fullmatch(r"&mut(.*)", t)
            if not m: fail(f"parameter `{n}: {ty}`: only `&mut X` parameters")
            env[n] = dict(code=g.ty(m.group(1)), kind="ref", mut=False, scope="borrow", slice=m.group(1).startswith("["))
    if want_self and "self" not in env: fail("no `self` receiver, registered with one")
    if spec.get("mem"): binders.append(f"(m : {spec['mem']})")
    # declared return type
    r = nospace(ret)
    mg = re.fullmatch(r"(\w+)<(.*)>", r)
    if mg and mg.group(1) in GUARDS:
        a = [x.strip() for x in split_top(mg.group(2))]
        if len(a) != 2: fail(f"return type `{ret}`: two type arguments expected")
        g.ret_guard = (mg.group(1), a[0], a[1]); rkind = "guard"
    elif r == "": rkind = "unit"
    elif spec.get("mode") == "raw" and re.fullmatch(r"&mut\[.*\]", r): rkind = "slice"
    elif r.startswith("&"): rkind = "ref"
    elif re.fullmatch(r"Vec<.*>", r): rkind = "vec"
    elif re.fullmatch(r"Box<\[.*\]>", r): rkind = "slice"
    else: fail(f"return type `{ret}` is outside the subset")
    p = GParser(tokenize(body))
    blk = p.block()
    if p.peek()[0] != "eof": fail("trailing tokens after the body")
    text, kind = g.tail_block(blk, env, 2)
    if kind not in (rkind, "never"): fail(f"the body's value has kind {kind}, the declared return type `{ret}` has kind {rkind}")
    comps = []
    if rkind != "unit": comps.append(KIND_TY[rkind])
    if want_self == "mutref_guard": comps.append("Prim.Guard")
    if spec.get("mem"): comps.append(spec["mem"])
    lean_ret = " × ".join(comps) if comps else "Unit"
    if g.can_panic: lean_ret = f"Option ({lean_ret})" if len(comps) > 1 else f"Option {lean_ret}"
    head = f"/-- `{spec['file']}`: `fn {spec['fn']}` of `{label}` -/\ndef {spec['name']} " + " ".join(b for b in binders if b) + f" : {lean_ret} :=\n"
    out = head + text
    if g.asserts:
        out += (f"\n/-- the layout asserts at the head of `{spec['fn']}` (what is asserted, for which type parameter), in source order -/\n"
                f"def {spec['name']}Asserts : List (String × String) := [" + ", ".join(f'("{a}", "{b}")' for a, b in g.asserts) + "]\n")
    rec = dict(lean=f"{NS}.{spec['name']}", asserts=g.asserts)
    if spec.get("mode") == "raw":
        rec.update(ret=rkind, args=[env[n]["kind"] for (n, _, _) in ps])
    return out, rec

def B(name, file, where, fn, model, **kw):
    d = dict(name=name, file=file, where=where, fn=fn, model=model)
    d.update(kw)
    return d

FM, FUM, ARR = "convert/from_into_color_mut.rs", "convert/from_into_color_unclamped_mut.rs", "cast/array.rs"
KB = "{κ : Type}"
MB = "{μ : Type}"

def file_bodies(p, file, tr, into_tr, G, conv_fn, into_fn, switch_fn):
    P = p[0].upper() + p[1:]
    gimpl = dict(binders=MB, callees=True, mem="μ", tparams=[("T", None), ("U", "self_.original")])
    inh = impl_of(f"{G}<'a, T, U>")
    return [
        B(f"{p}Drop", file, impl_of(f"Drop for {G}<'_, T, U>"), "drop", "InPlace.dropGuard", self="mutref_guard", **gimpl),
        B(f"{p}FromColorMut", file, impl_of(f"{tr}<U> for T"), conv_fn, "InPlace.fromColorMutElem", binders=KB, valconv=True, mem="κ",
          tbinders="(T U : Prim.Ty)", tparams=[("T", "T"), ("U", "U")], self_ty="T"),
        B(f"{p}FromColorMutSlice", file, impl_of(f"{tr}<[U]> for [T]"), conv_fn, "InPlace.fromColorMutSlice", binders=KB, callees=True, mem="List κ", callee_mem="κ",
          tbinders="(T U : Prim.Ty)", tparams=[("T", "T"), ("U", "U")], self_ty="[T]"),
        B(f"{p}IntoColorMut", file, impl_of(f"{into_tr}<T> for U"), into_fn, "InPlace.fromColorMut", binders=MB, callees=True, mem="μ",
          tbinders="(T U : Prim.Ty)", tparams=[("T", "T"), ("U", "U")], self_ty="U", self="ref"),
        B(f"{p}ThenIntoColorMut", file, inh, "then_into_color_mut", "InPlace.thenInto", self="guard", binders=MB, callees=True, mem="μ", tbinders="(C : Prim.Ty)",
          tparams=[("T", None), ("U", "self_.original"), ("C", "C")]),
        B(f"{p}ThenIntoColorUnclampedMut", file, inh, "then_into_color_unclamped_mut", "InPlace.thenInto", self="guard", binders=MB, callees=True, mem="μ",
          tbinders="(C : Prim.Ty)", tparams=[("T", None), ("U", "self_.original"), ("C", "C")]),
        B(f"{p}{R.camel(switch_fn)}", file, inh, switch_fn, "InPlace.switchGuard", self="guard", **gimpl),
        B(f"{p}Restore", file, inh, "restore", "InPlace.restore", self="guard", **gimpl),
        B(f"{p}Deref", file, impl_of(f"Deref for {G}<'_, T, U>"), "deref", "InPlace.derefGuard", self="ref_guard", tparams=[("T", None), ("U", "self_.original")]),
        B(f"{p}DerefMut", file, impl_of(f"DerefMut for {G}<'_, T, U>"), "deref_mut", "InPlace.derefMutGuard", self="mutref_guard",
          tparams=[("T", None), ("U", "self_.original")]),
    ]

RAW = dict(mode="raw", binders=KB)
BODIES = (
    file_bodies("clamped", FM, "FromColorMut", "IntoColorMut", "FromColorMutGuard", "from_color_mut", "into_color_mut", "into_unclamped_guard")
    + file_bodies("unclamped", FUM, "FromColorUnclampedMut", "IntoColorUnclampedMut", "FromColorUnclampedMutGuard", "from_color_unclamped_mut",
                  "into_color_unclamped_mut", "into_clamped_guard")
    + [
        B("intoArrayVec", ARR, None, "into_array_vec", "InPlace.vecCast", as_fn=["into_array_vec"], **RAW),
        B("fromArrayVec", ARR, None, "from_array_vec", "InPlace.vecCast", as_fn=["from_array_vec"], **RAW),
        B("intoArraySliceMut", ARR, None, "into_array_slice_mut", "InPlace.sliceCast", as_fn=["into_array_slice_mut"], **RAW),
        B("fromArraySliceMut", ARR, None, "from_array_slice_mut", "InPlace.sliceCast", as_fn=["from_array_slice_mut"], **RAW),
        B("intoArraySliceBox", ARR, None, "into_array_slice_box", "InPlace.sliceCast", as_fn=["into_array_slice_box"], **RAW),
        B("fromArraySliceBox", ARR, None, "from_array_slice_box", "InPlace.sliceCast", as_fn=["from_array_slice_box"], **RAW),
        B("mapVecInPlace", ARR, None, "map_vec_in_place", "InPlace.mapVec", fn_params=["F"], **RAW),
        B("mapSliceBoxInPlace", ARR, None, "map_slice_box_in_place", "InPlace.mapSliceBox", fn_params=["F"], **RAW),
    ])

DROPGLUE = f"""/-- drop glue (the Rust reference, "Destructors": when a value goes out of scope the `Drop::drop` of its type runs): the value is a
    `FromColorMutGuard` (`clamped = true`) or a `FromColorUnclampedMutGuard`; the final guard value is gone, the memory stays -/
def dropGlue {{μ : Type}} (fromColorMut fromColorUnclampedMut : Prim.Ty → Prim.Ty → μ → Prim.Guard × μ) (g : Prim.Guard) (m : μ) : μ :=
  if g.clamped then ({NS}.clampedDrop fromColorMut fromColorUnclampedMut g m).2 else ({NS}.unclampedDrop fromColorMut fromColorUnclampedMut g m).2
"""

UNTRANSLATED = [
    "which impl `X::from_color_mut` resolves to (`impl .. for T` for one colour, `impl .. for [T]` for slices): trait resolution, not text; the hand model's",
    "  `InPlace.fromColorMut` selects by `Form`, and `Tie.fromColorMut_single` / `fromColorMut_slice` state it in terms of the two translated bodies",
    "`cast::into_array_mut` / `from_array_mut` (by reference: `&mut *ptr.cast()`, read as `Prim.castRef`; C04's casts), `into_array` / `from_array` (by value: `transmute_copy`, read as the identity)",
    "panic paths (what the unwinding drops when a conversion panics inside these bodies): the hand model InPlacePanic.lean, correspondence only;",
    "  the translated order of `take()` before the conversion call is what that model relies on (Tie.*_takes_first)",
    "`FromColor for Vec<T>` / `Box<[T]>` (from_into_color.rs, from_into_color_unclamped.rs): tied in the family `convert` (Tie_Convert.lean: tie_fromColorVec, ..)",
    "the struct declarations (field list / PhantomData): checked here against `current`, `original`; the public surface: Gen/InPlace.lean",
]

def check_structs(read_src):
    for file, G in ((FM, "FromColorMutGuard"), (FUM, "FromColorUnclampedMutGuard")):
        src = read_src(file)
        if [f for f, _ in R.struct_fields(src, G)] != ["current"] or R.struct_phantoms(src, G) != ["original"]:
            fail(f"struct {G} ({file}): fields are not `current` + PhantomData `original`")
        f = dict(R.struct_fields(src, G))["current"]
        if nospace(f) != "Option<&mutT>": fail(f"struct {G}: `current: {f}`, read as `Option<&'a mut T>`")

def generate(read_src, tie_text):
    check_structs(read_src)
    registry, defs = {}, []
    for spec in BODIES:
        try:
            text, rec = translate(spec, read_src, registry)
        except Untranslatable as e:
            raise Untranslatable(f"body {spec['name']} ({spec['file']}: fn {spec['fn']}): {e}")
        defs.append(text)
        for k in spec.get("as_fn", []): registry[k] = rec
        if spec["name"].endswith("Drop"):
            registry[spec["name"]] = rec
            if "clampedDrop" in registry and "unclampedDrop" in registry and "dropGlue" not in registry:
                registry["dropGlue"] = True
                defs.append(DROPGLUE)
        names = [spec["name"]] + ([spec["name"] + "Asserts"] if rec["asserts"] else [])
        for nm in names:
            m = re.search(r"\btheorem\s+tie_" + nm + r"\b(.*?):=", tie_text, re.S)
            if not m:
                raise Untranslatable(f"body {nm} is translated but lean/PaletteProofs/Tie_Guard.lean has no theorem tie_{nm}")
            if not re.search(re.escape(NS + "." + nm) + r"\b", m.group(1)):
                raise Untranslatable(f"theorem tie_{nm} does not mention {NS}.{nm}")
            if nm == spec["name"] and not re.search(re.escape(spec["model"]) + r"(?![\w.])", m.group(1)):
                raise Untranslatable(f"theorem tie_{nm} does not state {NS}.{nm} = {spec['model']}")
    seq = defs
    head = ["/- GENERATED by tools/extract.py (plugin tools/extract_plugins/guard.py, translator tools/rust2lean_guard.py, family `guard`) from the function",
            "   bodies of palette/src -- do not edit",
            "",
            "  In-place conversion and its scope guards (C13): convert/from_into_color_mut.rs, convert/from_into_color_unclamped_mut.rs, and the in-place",
            "  maps / owned-buffer casts of cast/array.rs.  Each definition is the translation of the *current* text of one Rust function (named in its",
            "  doc comment); conventions in the header of tools/rust2lean_guard.py, readings of the std constructs in PaletteModel/BodyPrimGuard.lean.",
            "  `PaletteProofs/Tie_Guard.lean` proves (for every value of the dictionary parameters where they are not instantiated):"] + \
           ["    " + ", ".join(f"{s['name']} = {s['model']}" for s in BODIES[i:i + 3]) for i in range(0, len(BODIES), 3)] + \
           ["", "  NOT translated in this family:"] + ["    " + u for u in UNTRANSLATED] + ["-/",
            "import PaletteModel.BodyPrimGuard", "import PaletteModel.InPlaceForms", "",
            "set_option linter.unusedVariables false   -- every registered dictionary entry stays a parameter, used or not", "",
            f"namespace {NS}", "",
            "/-- names of the translated bodies of family `guard`, with the model function each is proved equal to (Tie_Guard.lean) -/",
            "def tiedGuard : List (String × String) := [\n" + ",\n".join("  " + ", ".join(f'("{s["name"]}", "{s["model"]}")' for s in BODIES[i:i + 3])
                                                                  for i in range(0, len(BODIES), 3)) + "]", ""]
    return "\n".join(head) + "\n" + "\n".join(seq) + f"\nend {NS}\n"

# `generate` translates the two Drop bodies first (they are first in their file's list only for `clamped`): make the order explicit
BODIES.sort(key=lambda s: 0 if s["name"].endswith("Drop") else 1)

if __name__ == "__main__":
    repo = os.environ.get("PALETTE_REPO", "/repo")
    def read_src(rel): return strip_comments(open(os.path.join(repo, "palette", "src", rel)).read())
    root = os.path.dirname(os.path.dirname(os.path.abspath(__file__)))
    tie = os.path.join(root, "lean", "PaletteProofs", "Tie_Guard.lean")
    try:
        if os.path.exists(tie) and "--no-tie" not in sys.argv: tt = open(tie).read()
        else: tt = "".join(f"theorem tie_{s['name']} : {NS}.{s['name']} = {s['model']} := \ntheorem tie_{s['name']}Asserts : {NS}.{s['name']}Asserts := " for s in BODIES)
        sys.stdout.write(generate(read_src, tt))
    except Untranslatable as e:
        print("FAILED:", e); sys.exit(1)
