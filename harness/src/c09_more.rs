//! C09, coverage audit (AUDIT_C09.md): the entry points, type families and type parameters inside the property's quantifier that
//! `c09.rs` does not drive.  Each is a separate `impl` block / macro invocation / default-method body in palette, so neither the
//! theorems nor the source-text tie can see a change to it unless it is executed:
//!   A. the deprecated `RelativeContrast` trait of the anchored file relative_contrast.rs (`get_contrast_ratio`, its five default
//!      predicates, two of which forward to another predicate) for each of its 18 implementing types, and the free function
//!      `contrast_ratio` (a `lazy_select!` on `luma1 > luma2` instead of `min_max`);
//!   B. the deprecated `ColorDifference::get_color_difference` for Lab and Lch (own impl blocks calling `get_ciede2000_difference`),
//!      and `Ciede2000` / `ImprovedCiede2000` / `ColorDifference` at a non-default white point (D50);
//!   C. `EuclideanDistance` for Yxy and Lms (the two `impl_euclidean_distance!` invocations that were never executed);
//!   D. `Wcag21RelativeContrast` for the non-default standards its bounds admit: Rgb<Rec709>, Rgb<Gamma<Srgb>>, Luma<Rec709>, Luma<Gamma<D65>>.
//! Every clause is the property's own predicate, with the tolerances of the sibling clause in `c09.rs` (same justification): the WCAG
//! ratio is symmetric, in [1, 21] for in-gamut colours, 1 for identical colours, its predicates ⇔ ratio ≥ threshold; CIEDE2000 = the
//! Sharma reference outside the property's exclusion, ≥ 0, symmetric, 0 on identical colours; Euclidean = closed form, symmetric, 0.
//! Helpers take computed scalars only; every palette call is instantiated at a concrete type by a macro (no trait bounds restated).
#![allow(deprecated)]
use crate::c09::{ref_de00, Tf, SHARMA};
use crate::common::*;
use palette::color_difference::{Ciede2000, EuclideanDistance, ImprovedCiede2000, Wcag21RelativeContrast};
use palette::convert::{FromColor, FromColorUnclamped};
use palette::lms::{BradfordLms, VonKriesLms};
use palette::rgb::Rgb;
use palette::white_point::{D50, D65};
use palette::{ColorDifference, RelativeContrast};
use palette::{GammaLuma, GammaSrgb, Hsl, Hsluv, Hsv, Hwb, Lab, Lch, Lchuv, LinLuma, LinSrgb, Luv, Okhsl, Okhwb, Oklab, Oklch, Srgb, SrgbLuma, Xyz, Yxy};

type Rec709Rgb<T> = Rgb<palette::encoding::Rec709, T>;
type Rec709Luma<T> = palette::luma::Luma<palette::encoding::Rec709, T>;

fn close_rel<T: Fl>(a: f64, b: f64, k: f64, floor: f64) -> bool { a.is_finite() && (a - b).abs() <= k * T::eps() * b.abs().max(floor) }

/// The WCAG clauses of the property on one pair, given what the implementation returned (`r` = ratio(c1, c2), `r21` the swapped call,
/// `r11` the colour with itself, `preds` the five predicates in the order text / large text / enhanced text / enhanced large text /
/// graphics, `y1`/`y2` the relative luminances the entry point documents it works on).  Also writes the `wcag` protocol line: the
/// model's ratio (0.05+max)/(0.05+min) and predicates do not depend on which trait produced the numbers.
fn contrast_clauses<T: Tf>(out: &mut Out, name: &str, dbg: &dyn Fn() -> String, y1: T, y2: T, r: T, r21: T, r11: T, preds: Option<[bool; 5]>, in_gamut: bool) {
    let tag = format!("{}:{}", name, T::TAG);
    out.count(&format!("cls:more-wcag-{}", name));
    let want = [r.to64() >= 4.5, r.to64() >= 3.0, r.to64() >= 7.0, r.to64() >= 4.5, r.to64() >= 3.0];
    let shown = preds.unwrap_or(want);
    out.case(&format!("wcag {} | {} {} | {} {}", name, y1.hx(), y2.hx(), r.hx(), shown.iter().map(|b| if *b { "1" } else { "0" }).collect::<Vec<_>>().join(" ")));
    out.check(r.to64() == r21.to64(), &format!("wcag-symmetric:{}", tag), || format!("{}: {:?} / {:?}", dbg(), r, r21));
    if in_gamut {
        out.check(y1.to64() >= 0.0 && y1.to64() <= 1.0 && y2.to64() >= 0.0 && y2.to64() <= 1.0, &format!("wcag-luminance-in-unit-range:{}", tag), || format!("{}: luminances {:?} {:?}", dbg(), y1, y2));
        // 21 = 1.05/0.05 is not exactly representable: one rounding of the quotient is granted at the top end (as in c09.rs)
        out.check(r.to64() >= 1.0 && r.to64() <= 21.0 * (1.0 + 2.0 * T::eps()), &format!("wcag-in-1-21:{}", tag), || format!("{}: {:?}", dbg(), r));
        out.maxi(&format!("wcag-max-ratio:{}", tag), r.to64());
    }
    let (lo, hi) = if y1.to64() > y2.to64() { (y2.to64(), y1.to64()) } else { (y1.to64(), y2.to64()) };
    out.check(close_rel::<T>(r.to64(), (0.05 + hi) / (0.05 + lo), 4.0, 1e-300), &format!("wcag-closed-form:{}", tag), || format!("{}: {:?}, (0.05+{})/(0.05+{})", dbg(), r, hi, lo));
    if let Some(p) = preds {
        out.check(p == want, &format!("wcag-predicates-agree-with-ratio:{}", tag), || format!("{}: ratio {:?}, predicates {:?}, ratio ≥ [4.5, 3, 7, 4.5, 3] = {:?}", dbg(), r, p, want));
        for (i, b) in p.iter().enumerate() { out.count(&format!("cls:more-wcag-pred{}-{}", i, b)); }
    }
    out.check(r11.to64() == 1.0, &format!("wcag-identity:{}", tag), || format!("{} (first colour with itself): {:?}", dbg(), r11));
}

/// one pair through one contrast trait at one concrete colour type: `$tr::$ratio` is `RelativeContrast::get_contrast_ratio` or
/// `Wcag21RelativeContrast::relative_contrast` (fully qualified: Rgb and Luma implement both traits and the predicate names coincide)
macro_rules! contrast_of { ($out:expr, $t:ty, $name:expr, $tr:ident :: $ratio:ident, $c1:expr, $c2:expr, $lum:expr, $in_gamut:expr) => {{
    let (c1, c2) = ($c1, $c2);
    let lum = $lum;
    let (y1, y2): ($t, $t) = (lum(c1), lum(c2));
    let (r, r21, r11): ($t, $t, $t) = ($tr::$ratio(c1, c2), $tr::$ratio(c2, c1), $tr::$ratio(c1, c1));
    let preds = [$tr::has_min_contrast_text(c1, c2), $tr::has_min_contrast_large_text(c1, c2), $tr::has_enhanced_contrast_text(c1, c2),
                 $tr::has_enhanced_contrast_large_text(c1, c2), $tr::has_min_contrast_graphics(c1, c2)];
    contrast_clauses::<$t>($out, $name, &|| format!("{:?} vs {:?}", c1, c2), y1, y2, r, r21, r11, Some(preds), $in_gamut);
}} }

/// the deprecated trait on a type whose impl reads the luminance as Y of the colour's CIE XYZ (`Xyz::from_color(self).y`, a clamped
/// conversion): the colours are made from two in-gamut sRGB colours by palette's own conversion
macro_rules! depr_via_xyz { ($out:expr, $t:ty, $name:expr, $ty:ty, $s1:expr, $s2:expr) => {
    contrast_of!($out, $t, $name, RelativeContrast::get_contrast_ratio, <$ty>::from_color($s1), <$ty>::from_color($s2), |c: $ty| Xyz::<D65, $t>::from_color(c).y, true)
} }

/// The CIEDE2000 clauses of the property for one more entry point (`form`), given its values on (c1,c2), (c2,c1), (c1,c1).
/// `p`, `q`: the L*a*b* coordinates (already rounded to T).  `polar`: the colours went Lab → Lch → (inside palette) Lab, so the
/// allowance is 4·de_tol and pairs within rounding of the formula's second jump (h1'+h2' = 360 on the wrap arm) are skipped, exactly as
/// `c09.rs` does for its Lch route.
fn de00_clauses<T: Tf>(out: &mut Out, form: &str, polar: bool, p: [f64; 3], q: [f64; 3], d12: T, d21: T, d11: T) {
    let tag = format!("{}:{}", form, T::TAG);
    let r = ref_de00(p[0], p[1], p[2], q[0], q[1], q[2]);
    let hd = (r.h2p - r.h1p).abs();
    let chromatic = r.c1p * r.c2p != 0.0;
    let near180 = chromatic && (hd - 180.0).abs() <= T::tol180();
    let near360 = chromatic && hd > 180.0 && (r.h1p + r.h2p - 360.0).abs() <= T::tol360();
    out.count(&format!("cls:more-de00-{}", form));
    if near180 { out.count("cls:more-excluded-near-180"); }
    if !near180 && !(polar && near360) {
        let err = (d12.to64() - r.de).abs();
        let err = if near360 { err.min((d12.to64() - r.de_other_mean_arm).abs()) } else { err };
        let tol = if polar { 4.0 * T::de_tol() } else { T::de_tol() };
        out.maxi(&format!("ciede2000-vs-reference:{}", tag), err);
        out.check(d12.to64().is_finite() && err <= tol, &format!("ciede2000-equals-reference:{}", tag),
            || format!("Lab{:?} vs Lab{:?}: {} gives {:?}, Sharma reference = {:.12} (h1'={:.9} h2'={:.9}), |err| = {:.3e}", p, q, form, d12, r.de, r.h1p, r.h2p, err));
    }
    out.check(d12.to64() >= 0.0 && d21.to64() >= 0.0, &format!("ciede2000-nonneg:{}", tag), || format!("Lab{:?} vs Lab{:?}: {:?} / {:?}", p, q, d12, d21));
    if !near180 { out.check((d12.to64() - d21.to64()).abs() <= 8.0 * T::eps() * d12.to64().abs().max(1.0), &format!("ciede2000-symmetric:{}", tag), || format!("Lab{:?} vs Lab{:?}: d12 {:?} d21 {:?}", p, q, d12, d21)); }
    out.check(d11.to64().abs() <= T::eps(), &format!("ciede2000-identity:{}", tag), || format!("Lab{:?} with itself: {:?}", p, d11));
}

/// one Lab pair at white point `$wp` through `$f` (a CIEDE2000 entry point given as a path, e.g. `ColorDifference::get_color_difference`),
/// on Lab and on the Lch palette converts it to
macro_rules! de00_of { ($out:expr, $t:ty, $wp:ty, $form:expr, $tr:ident :: $f:ident, $p:expr, $q:expr) => {{
    type T = $t;
    let (p, q): ([T; 3], [T; 3]) = ($p, $q);
    let (pf, qf) = ([p[0].to64(), p[1].to64(), p[2].to64()], [q[0].to64(), q[1].to64(), q[2].to64()]);
    let (c1, c2) = (Lab::<$wp, T>::new(p[0], p[1], p[2]), Lab::<$wp, T>::new(q[0], q[1], q[2]));
    let (d12, d21, d11): (T, T, T) = ($tr::$f(c1, c2), $tr::$f(c2, c1), $tr::$f(c1, c1));
    // the improved value in the protocol line is the (covered) blanket impl's; the model recomputes it from this entry point's `d12`
    $out.case(&format!("de00 lab | {} {} | {} {}", hx_list(&p), hx_list(&q), d12.hx(), ImprovedCiede2000::improved_difference(c1, c2).hx()));
    de00_clauses::<T>($out, &format!("lab-{}", $form), false, pf, qf, d12, d21, d11);
    let (l1, l2) = (Lch::<$wp, T>::from_color_unclamped(c1), Lch::<$wp, T>::from_color_unclamped(c2));
    let (e12, e21, e11): (T, T, T) = ($tr::$f(l1, l2), $tr::$f(l2, l1), $tr::$f(l1, l1));
    let (h1, h2): (T, T) = (l1.hue.into_inner(), l2.hue.into_inner());
    $out.case(&format!("de00 lch | {} {} {} {} {} {} | {} {}", l1.l.hx(), l1.chroma.hx(), h1.hx(), l2.l.hx(), l2.chroma.hx(), h2.hx(), e12.hx(), ImprovedCiede2000::improved_difference(l1, l2).hx()));
    de00_clauses::<T>($out, &format!("lch-{}", $form), true, pf, qf, e12, e21, e11);
}} }

/// `EuclideanDistance` of a three-component type: closed form, ≥ 0, symmetric, 0 on identical colours; `$key` is the `type@file` key of
/// the extracted `impl_euclidean_distance!` invocation table (the driver checks the invocation exists with three components)
macro_rules! euclid3_of { ($out:expr, $t:ty, $name:expr, $key:expr, $ty:ty, $p:expr, $q:expr) => {{
    type T = $t;
    let (p, q): ([T; 3], [T; 3]) = ($p, $q);
    let tag = format!("{}:{}", $name, T::TAG);
    let (c1, c2) = (<$ty>::new(p[0], p[1], p[2]), <$ty>::new(q[0], q[1], q[2]));
    let (dsq, d): (T, T) = (c1.distance_squared(c2), c1.distance(c2));
    $out.case(&format!("dist {} | {} {} | {} {}", $key, hx_list(&p), hx_list(&q), dsq.hx(), d.hx()));
    $out.count(&format!("cls:more-rect-{}", $name));
    let dsq_ref: f64 = (0..3).map(|i| (p[i].to64() - q[i].to64()) * (p[i].to64() - q[i].to64())).sum();
    $out.check(close_rel::<T>(dsq.to64(), dsq_ref, 8.0, 1e-300) && dsq.to64() >= 0.0, &format!("euclidean-closed-form:{}", tag), || format!("{:?} vs {:?}: distance_squared {:?}, Σ(Δ²) = {}", p, q, dsq, dsq_ref));
    $out.check(close_rel::<T>(d.to64(), dsq_ref.sqrt(), 8.0, 1e-150) && d.to64() >= 0.0, &format!("euclidean-closed-form:{}", tag), || format!("{:?} vs {:?}: distance {:?}, sqrt Σ(Δ²) = {}", p, q, d, dsq_ref.sqrt()));
    $out.check(c2.distance(c1).to64() == d.to64() && c2.distance_squared(c1).to64() == dsq.to64(), &format!("euclidean-symmetric:{}", tag), || format!("{:?} vs {:?}: {:?} / {:?}", p, q, d, c2.distance(c1)));
    $out.check(c1.distance(c1).to64() == 0.0 && c1.distance_squared(c1).to64() == 0.0, &format!("euclidean-identity:{}", tag), || format!("{:?}", p));
}} }

fn polar_lab(l: f64, c: f64, h: f64) -> [f64; 3] { let (s, co) = h.to_radians().sin_cos(); [l, c * co, c * s] }

macro_rules! more_t { ($out:expr, $rng:expr, $t:ty, $thorough:expr) => {{
    type T = $t;
    let (out, rng, thorough): (&mut Out, &mut Rng, bool) = ($out, $rng, $thorough);
    let cv = |v: [f64; 3]| -> [T; 3] { [v[0] as T, v[1] as T, v[2] as T] };
    let n = if thorough { 20 } else { 1 };

    // ================= B. CIEDE2000 through the deprecated trait, and every CIEDE2000 entry point at a second white point
    let mut labs: Vec<([f64; 3], [f64; 3])> = vec![];
    for row in SHARMA.iter() { labs.push(([row[0], row[1], row[2]], [row[3], row[4], row[5]])); labs.push(([row[3], row[4], row[5]], [row[0], row[1], row[2]])); }
    // the case boundaries of eq. (7), (10), (14): hues at 0/360, opposite, mirror images, zero and tiny chroma, signed zeros
    let mut st: Vec<[f64; 3]> = vec![];
    for &c in &[0.0, 1e-7, 2.5, 40.0, 110.0] { for &h in &[0.0, 1e-9, 45.0, 90.0, 179.99, 180.0, 180.01, 225.0, 275.0, 315.0, 359.999999] { st.push(polar_lab(if c == 40.0 { 62.0 } else { 50.0 }, c, h)); } }
    st.extend([[50.0, 30.0, -0.0], [50.0, -30.0, 0.0], [50.0, -0.0, 30.0], [50.0, 30.0, 30.0], [50.0, 30.0, -30.0], [50.0, -30.0, -30.0], [60.0, 9.0, 30.0], [60.0, 9.0, -30.0], [0.0, 0.0, 0.0], [100.0, 0.0, -0.0]]);
    for a in &st { for b in &st { labs.push((*a, *b)); } }
    for _ in 0..1200 * n { labs.push(([rng.edgy(0.0, 100.0), rng.edgy(-128.0, 127.0), rng.edgy(-128.0, 127.0)], [rng.edgy(0.0, 100.0), rng.edgy(-128.0, 127.0), rng.edgy(-128.0, 127.0)])); }
    for _ in 0..1200 * n {
        // hues on either side of 0/360, either order (the first colour may have the larger hue angle)
        let (h1, h2) = (rng.range(0.0, 179.0), rng.range(181.0, 360.0));
        let (p, q) = (polar_lab(rng.range(0.0, 100.0), rng.range(0.0, 128.0), h1), polar_lab(rng.range(0.0, 100.0), rng.range(0.0, 128.0), h2));
        labs.push(if rng.chance(0.5) { (p, q) } else { (q, p) });
    }
    for _ in 0..400 * n {
        let h1 = rng.range(0.0, 360.0); let d = 180.0 + *rng.pick(&[-1.0, 1.0]) * 10f64.powf(rng.range(-6.0, 0.5));
        labs.push((polar_lab(rng.range(0.0, 100.0), rng.range(0.01, 128.0), h1), polar_lab(rng.range(0.0, 100.0), rng.range(0.01, 128.0), h1 + d)));
    }
    for (p, q) in &labs {
        let (p, q) = (cv(*p), cv(*q));
        de00_of!(out, $t, D65, "deprecated-ColorDifference", ColorDifference::get_color_difference, p, q);
        de00_of!(out, $t, D50, "deprecated-ColorDifference-D50", ColorDifference::get_color_difference, p, q);
        de00_of!(out, $t, D50, "D50", Ciede2000::difference, p, q);
    }

    // ================= C. Euclidean distance of the two remaining `impl_euclidean_distance!` types
    for _ in 0..(800 * n + 4) {
        let p = [rng.edgy(0.0, 1.0), rng.edgy(0.0, 1.0), rng.edgy(0.0, 1.0)];
        let q = if rng.chance(0.2) { let e = 10f64.powf(rng.range(-7.0, -1.0)); [p[0] + e * rng.range(-1.0, 1.0), p[1] + e * rng.range(-1.0, 1.0), p[2] + e * rng.range(-1.0, 1.0)] }
                else { [rng.edgy(0.0, 1.0), rng.edgy(0.0, 1.0), rng.edgy(0.0, 1.0)] };
        let (p, q) = (cv(p), cv(q));
        euclid3_of!(out, $t, "Yxy", "Yxy@yxy.rs", Yxy<D65, T>, p, q);
        euclid3_of!(out, $t, "Yxy-D50", "Yxy@yxy.rs", Yxy<D50, T>, p, q);
        euclid3_of!(out, $t, "Lms-VonKries", "Lms@lms/lms.rs", VonKriesLms<D65, T>, p, q);
        euclid3_of!(out, $t, "Lms-Bradford", "Lms@lms/lms.rs", BradfordLms<D65, T>, p, q);
    }

    // ================= A. the deprecated RelativeContrast / contrast_ratio, D. Wcag21RelativeContrast at non-default standards
    let mut rgbs: Vec<[f64; 3]> = vec![];
    for r in [0.0, 0.5, 1.0] { for g in [0.0, 0.5, 1.0] { for b in [0.0, 1.0] { rgbs.push([r, g, b]); } } }
    // #600, #066, #9f9, #353535, #ddd of the suite, #777 against white (4.48:1, just under AA)
    rgbs.extend([[0.4, 0.0, 0.0], [0.0, 0.4, 0.4], [0.6, 1.0, 0.6], [0.20784314, 0.20784314, 0.20784314], [0.8666667, 0.8666667, 0.8666667], [0.46666667, 0.46666667, 0.46666667]]);
    let mut rgb_pairs: Vec<([f64; 3], [f64; 3])> = vec![];
    for a in &rgbs { for b in &rgbs { rgb_pairs.push((*a, *b)); } }
    for _ in 0..500 * n { rgb_pairs.push(([rng.edgy(0.0, 1.0), rng.edgy(0.0, 1.0), rng.edgy(0.0, 1.0)], [rng.edgy(0.0, 1.0), rng.edgy(0.0, 1.0), rng.edgy(0.0, 1.0)])); }
    for (p, q) in rgb_pairs {
        let (p, q) = (cv(p), cv(q));
        let (s1, s2) = (Srgb::<T>::new(p[0], p[1], p[2]), Srgb::<T>::new(q[0], q[1], q[2]));
        depr_via_xyz!(out, $t, "depr-Rgb", Srgb<T>, s1, s2);
        contrast_of!(out, $t, "depr-LinRgb", RelativeContrast::get_contrast_ratio, LinSrgb::<T>::new(p[0], p[1], p[2]), LinSrgb::<T>::new(q[0], q[1], q[2]), |c: LinSrgb<T>| Xyz::<D65, T>::from_color(c).y, true);
        depr_via_xyz!(out, $t, "depr-Lab", Lab<D65, T>, s1, s2); depr_via_xyz!(out, $t, "depr-Lch", Lch<D65, T>, s1, s2); depr_via_xyz!(out, $t, "depr-Luv", Luv<D65, T>, s1, s2); depr_via_xyz!(out, $t, "depr-Lchuv", Lchuv<D65, T>, s1, s2);
        depr_via_xyz!(out, $t, "depr-Hsluv", Hsluv<D65, T>, s1, s2); depr_via_xyz!(out, $t, "depr-Hsl", Hsl<palette::encoding::Srgb, T>, s1, s2); depr_via_xyz!(out, $t, "depr-Hsv", Hsv<palette::encoding::Srgb, T>, s1, s2);
        depr_via_xyz!(out, $t, "depr-Hwb", Hwb<palette::encoding::Srgb, T>, s1, s2); depr_via_xyz!(out, $t, "depr-Oklab", Oklab<T>, s1, s2); depr_via_xyz!(out, $t, "depr-Oklch", Oklch<T>, s1, s2); depr_via_xyz!(out, $t, "depr-Okhsl", Okhsl<T>, s1, s2); depr_via_xyz!(out, $t, "depr-Okhwb", Okhwb<T>, s1, s2);
        contrast_of!(out, $t, "depr-Xyz", RelativeContrast::get_contrast_ratio, Xyz::<D65, T>::from_color(s1), Xyz::<D65, T>::from_color(s2), |c: Xyz<D65, T>| c.y, true);
        contrast_of!(out, $t, "depr-Yxy", RelativeContrast::get_contrast_ratio, Yxy::<D65, T>::from_color(s1), Yxy::<D65, T>::from_color(s2), |c: Yxy<D65, T>| c.luma, true);
        // D. the current trait at the other standards with the sRGB primaries
        contrast_of!(out, $t, "Rgb-Rec709", Wcag21RelativeContrast::relative_contrast, Rec709Rgb::<T>::new(p[0], p[1], p[2]), Rec709Rgb::<T>::new(q[0], q[1], q[2]), |c: Rec709Rgb<T>| c.relative_luminance().luma, true);
        contrast_of!(out, $t, "Rgb-Gamma", Wcag21RelativeContrast::relative_contrast, GammaSrgb::<T>::new(p[0], p[1], p[2]), GammaSrgb::<T>::new(q[0], q[1], q[2]), |c: GammaSrgb<T>| c.relative_luminance().luma, true);
    }
    // grays aimed at the thresholds: for a dark luminance y, the light one that gives exactly ratio t, ± an ulp; plus exact hits
    // (0.05+0.85)/(0.05+0.15) = 4.5, 0.75/0.25 = 3, 0.7/0.1 = 7, 1.05/0.05 = 21
    let mut luma_pairs: Vec<(f64, f64)> = vec![(0.0, 1.0), (1.0, 0.0), (0.0, 0.0), (1.0, 1.0), (0.5, 0.5), (0.15, 0.85), (0.85, 0.15), (0.2, 0.7), (0.7, 0.2), (0.05, 0.65), (0.65, 0.05), (0.125, 0.7375), (0.25, 0.85)];
    for _ in 0..300 * n { for t in [3.0, 4.5, 7.0, 21.0, 1.0] {
        let y = rng.range(0.0, (1.05 / t - 0.05f64).max(0.0)); let hi = (t * (0.05 + y) - 0.05).min(1.0);
        luma_pairs.push((y, hi)); luma_pairs.push((T::of(hi).nudge(1).to64(), y)); luma_pairs.push((y, T::of(hi).nudge(-1).to64().max(0.0)));
    } }
    for _ in 0..600 * n { luma_pairs.push((rng.edgy(0.0, 1.0), rng.edgy(0.0, 1.0))); }
    for (x, y) in luma_pairs {
        let (x, y) = ((x as T).min(1.0), (y as T).min(1.0));
        contrast_of!(out, $t, "depr-LinLuma", RelativeContrast::get_contrast_ratio, LinLuma::<D65, T>::new(x), LinLuma::<D65, T>::new(y), |c: LinLuma<D65, T>| c.luma, true);
        contrast_of!(out, $t, "depr-Luma", RelativeContrast::get_contrast_ratio, SrgbLuma::<T>::new(x), SrgbLuma::<T>::new(y), |c: SrgbLuma<T>| c.into_linear::<T>().luma, true);
        contrast_of!(out, $t, "depr-Xyz", RelativeContrast::get_contrast_ratio, Xyz::<D65, T>::new(0.3, x, 0.3), Xyz::<D65, T>::new(0.9, y, 0.1), |c: Xyz<D65, T>| c.y, true);
        contrast_of!(out, $t, "depr-Yxy", RelativeContrast::get_contrast_ratio, Yxy::<D65, T>::new(0.3, 0.3, x), Yxy::<D65, T>::new(0.4, 0.2, y), |c: Yxy<D65, T>| c.luma, true);
        // the free function the deprecated impls end in
        let (r, r21, r11): (T, T, T) = (palette::contrast_ratio(x, y), palette::contrast_ratio(y, x), palette::contrast_ratio(x, x));
        contrast_clauses::<T>(out, "depr-contrast_ratio-fn", &|| format!("contrast_ratio({:?}, {:?})", x, y), x, y, r, r21, r11, None, true);
        contrast_of!(out, $t, "Luma-Rec709", Wcag21RelativeContrast::relative_contrast, Rec709Luma::<T>::new(x), Rec709Luma::<T>::new(y), |c: Rec709Luma<T>| c.relative_luminance().luma, true);
        contrast_of!(out, $t, "Luma-Gamma", Wcag21RelativeContrast::relative_contrast, GammaLuma::<T>::new(x), GammaLuma::<T>::new(y), |c: GammaLuma<T>| c.relative_luminance().luma, true);
        contrast_of!(out, $t, "Rgb-Rec709", Wcag21RelativeContrast::relative_contrast, Rec709Rgb::<T>::new(x, x, x), Rec709Rgb::<T>::new(y, y, y), |c: Rec709Rgb<T>| c.relative_luminance().luma, true);
    }
}} }

pub fn run_more(out: &mut Out, rng: &mut Rng, thorough: bool) {
    more_t!(out, rng, f64, thorough);
    more_t!(out, rng, f32, thorough);
}
