//! RGB family edges: Rgb<S> <-> Xyz<Wp>, Rgb<S1> -> Rgb<S2>, Rgb <-> Hsv / Hsl (scalar branch through f32/f64, mask-generic branch
//! through `wide::f32x4` / `wide::f64x2` lanes), Hsv <-> Hwb, Hsl <-> Hsv, the standard-changing Hsl/Hsv/Hwb edges, Luma edges.
#![allow(clippy::too_many_arguments)]
use crate::common::*;
use crate::conv_common::*;
use palette::encoding::{AdobeRgb, DciP3, DisplayP3, Linear, ProPhotoRgb, Rec2020, Rec709, Srgb};
use palette::luma::Luma;
use palette::rgb::Rgb;
use palette::white_point::{D50, D65};
use palette::{Hsl, Hsv, Hwb, Xyz, Yxy};

/// Independent f64 references written from the standards (not from palette).
pub mod spec {
    #[derive(Clone, Copy, PartialEq, Debug)]
    pub enum Tf { Srgb, Rec, Adobe, P3, ProPhoto, Linear }
    // ITU-R BT.2020-2 table 4: alpha and beta solve 4.5 b = a b^0.45 - (a-1), 4.5 = 0.45 a b^-0.55
    // (BT.709-6 prints the same numbers rounded to three decimals, 1.099 / 0.018).
    pub const ALPHA: f64 = 1.09929682680944;
    pub const BETA: f64 = 0.018053968510807;
    /// non-linear -> linear
    pub fn decode(tf: Tf, v: f64) -> f64 {
        match tf {
            Tf::Srgb => if v <= 0.04045 { v / 12.92 } else { ((v + 0.055) / 1.055).powf(2.4) },        // IEC 61966-2-1 5.2
            Tf::Rec => if v < 4.5 * BETA { v / 4.5 } else { ((v + (ALPHA - 1.0)) / ALPHA).powf(1.0 / 0.45) }, // inverse of the BT.709/2020 OETF
            Tf::Adobe => v.powf(2.19921875),                                                             // Adobe RGB (1998) 4.3.4.2: 563/256
            Tf::P3 => v.powf(2.6),                                                                       // SMPTE RP 431-2
            Tf::ProPhoto => if v < 16.0 / 512.0 { v / 16.0 } else { v.powf(1.8) },                        // ISO 22028-2 (ROMM), Et = 1/512
            Tf::Linear => v,
        }
    }
    /// linear -> non-linear
    pub fn encode(tf: Tf, l: f64) -> f64 {
        match tf {
            Tf::Srgb => if l <= 0.0031308 { 12.92 * l } else { 1.055 * l.powf(1.0 / 2.4) - 0.055 },
            Tf::Rec => if l < BETA { 4.5 * l } else { ALPHA * l.powf(0.45) - (ALPHA - 1.0) },
            Tf::Adobe => l.powf(1.0 / 2.19921875),
            Tf::P3 => l.powf(1.0 / 2.6),
            Tf::ProPhoto => if l < 1.0 / 512.0 { 16.0 * l } else { l.powf(1.0 / 1.8) },
            Tf::Linear => l,
        }
    }
    /// pure power laws are undefined (NaN in IEEE `pow`) for negative arguments
    pub fn power_law(tf: Tf) -> bool { matches!(tf, Tf::Adobe | Tf::P3) }

    pub type M = [[f64; 3]; 3];
    pub fn mul_v(m: &M, v: [f64; 3]) -> [f64; 3] { [m[0][0] * v[0] + m[0][1] * v[1] + m[0][2] * v[2], m[1][0] * v[0] + m[1][1] * v[1] + m[1][2] * v[2], m[2][0] * v[0] + m[2][1] * v[1] + m[2][2] * v[2]] }
    fn det(m: &M) -> f64 { m[0][0] * (m[1][1] * m[2][2] - m[1][2] * m[2][1]) - m[0][1] * (m[1][0] * m[2][2] - m[1][2] * m[2][0]) + m[0][2] * (m[1][0] * m[2][1] - m[1][1] * m[2][0]) }
    /// Cramer's rule
    pub fn solve(m: &M, w: [f64; 3]) -> [f64; 3] {
        let d = det(m);
        let mut s = [0.0; 3];
        for k in 0..3 { let mut c = *m; for r in 0..3 { c[r][k] = w[r]; } s[k] = det(&c) / d; }
        s
    }
    pub fn inverse(m: &M) -> M {
        let mut o = [[0.0; 3]; 3];
        for k in 0..3 { let mut e = [0.0; 3]; e[k] = 1.0; let col = solve(m, e); for r in 0..3 { o[r][k] = col[r]; } }
        o
    }
    /// Lindbloom, "RGB/XYZ Matrices": columns = primaries' XYZ at Y = 1, scaled so that (1,1,1) maps to the white point
    pub fn rgb_to_xyz(prim: [(f64, f64); 3], white: [f64; 3]) -> M {
        let col = |(x, y): (f64, f64)| [x / y, 1.0, (1.0 - x - y) / y];
        let (r, g, b) = (col(prim[0]), col(prim[1]), col(prim[2]));
        let p = [[r[0], g[0], b[0]], [r[1], g[1], b[1]], [r[2], g[2], b[2]]];
        let s = solve(&p, white);
        let mut m = p;
        for i in 0..3 { for j in 0..3 { m[i][j] *= s[j]; } }
        m
    }
    // ASTM E308 white points as tabulated by Lindbloom (2 degree observer); DCI white from its chromaticity (0.314, 0.351)
    pub const D65: [f64; 3] = [0.95047, 1.0, 1.08883];
    pub const D50: [f64; 3] = [0.96422, 1.0, 0.82521];
    pub fn dci_white() -> [f64; 3] { [0.314 / 0.351, 1.0, (1.0 - 0.314 - 0.351) / 0.351] }
    const P_709: [(f64, f64); 3] = [(0.64, 0.33), (0.30, 0.60), (0.15, 0.06)];          // BT.709 / IEC 61966-2-1
    const P_ADOBE: [(f64, f64); 3] = [(0.64, 0.33), (0.21, 0.71), (0.15, 0.06)];        // Adobe RGB (1998)
    const P_2020: [(f64, f64); 3] = [(0.708, 0.292), (0.170, 0.797), (0.131, 0.046)];   // BT.2020
    const P_P3: [(f64, f64); 3] = [(0.680, 0.320), (0.265, 0.690), (0.150, 0.060)];     // SMPTE RP 431-2 / Display P3
    const P_ROMM: [(f64, f64); 3] = [(0.7347, 0.2653), (0.1596, 0.8404), (0.0366, 0.0001)]; // ISO 22028-2
    #[derive(Clone, Debug)]
    pub struct Std { pub name: &'static str, pub space: &'static str, pub tf: Tf, pub white: [f64; 3], pub m: M, pub mi: M }
    pub fn std(name: &'static str) -> Std {
        let (space, prim, white, tf) = match name {
            "Srgb" => ("Srgb", P_709, D65, Tf::Srgb), "LinSrgb" => ("Srgb", P_709, D65, Tf::Linear), "Rec709" => ("Srgb", P_709, D65, Tf::Rec),
            "AdobeRgb" => ("AdobeRgb", P_ADOBE, D65, Tf::Adobe), "LinAdobeRgb" => ("AdobeRgb", P_ADOBE, D65, Tf::Linear),
            "Rec2020" => ("Rec2020", P_2020, D65, Tf::Rec), "LinRec2020" => ("Rec2020", P_2020, D65, Tf::Linear),
            "DisplayP3" => ("DisplayP3", P_P3, D65, Tf::Srgb), "LinDisplayP3" => ("DisplayP3", P_P3, D65, Tf::Linear),
            "DciP3" => ("DciP3", P_P3, dci_white(), Tf::P3), "LinDciP3" => ("DciP3", P_P3, dci_white(), Tf::Linear),
            "ProPhotoRgb" => ("ProPhotoRgb", P_ROMM, D50, Tf::ProPhoto), "LinProPhotoRgb" => ("ProPhotoRgb", P_ROMM, D50, Tf::Linear),
            _ => panic!("unknown standard {}", name),
        };
        let m = rgb_to_xyz(prim, white);
        Std { name, space, tf, white, m, mi: inverse(&m) }
    }
    pub fn lin(s: &Std, c: [f64; 3]) -> [f64; 3] { [decode(s.tf, c[0]), decode(s.tf, c[1]), decode(s.tf, c[2])] }

    // ---- hexcone models.  Smith, "Color gamut transform pairs", SIGGRAPH 1978 (HSV hexcone, HSL double hexcone / triangle as
    //      in Foley & van Dam); Smith & Lyons, "HWB - a more intuitive hue-based color model", 1996.
    fn hue_of(r: f64, g: f64, b: f64, mx: f64, c: f64) -> f64 {
        if c == 0.0 { 0.0 } else if mx == r { 60.0 * ((g - b) / c).rem_euclid(6.0) } else if mx == g { 60.0 * ((b - r) / c + 2.0) } else { 60.0 * ((r - g) / c + 4.0) }
    }
    pub fn rgb_to_hsv(c: [f64; 3]) -> [f64; 3] {
        let (r, g, b) = (c[0], c[1], c[2]);
        let (mx, mn) = (r.max(g).max(b), r.min(g).min(b));
        [hue_of(r, g, b, mx, mx - mn), if mx == 0.0 { 0.0 } else { (mx - mn) / mx }, mx]
    }
    pub fn hsv_to_rgb(c: [f64; 3]) -> [f64; 3] {
        let (h, s, v) = (c[0], c[1], c[2]);
        let h6 = (h / 60.0).rem_euclid(6.0);
        let i = h6.floor();
        let f = h6 - i;
        let (p, q, t) = (v * (1.0 - s), v * (1.0 - s * f), v * (1.0 - s * (1.0 - f)));
        match (i as i64).rem_euclid(6) { 0 => [v, t, p], 1 => [q, v, p], 2 => [p, v, t], 3 => [p, q, v], 4 => [t, p, v], _ => [v, p, q] }
    }
    pub fn rgb_to_hsl(c: [f64; 3]) -> [f64; 3] {
        let (r, g, b) = (c[0], c[1], c[2]);
        let (mx, mn) = (r.max(g).max(b), r.min(g).min(b));
        let l = (mx + mn) / 2.0;
        let ch = mx - mn;
        let s = if ch == 0.0 { 0.0 } else if l <= 0.5 { ch / (mx + mn) } else { ch / (2.0 - mx - mn) };
        [hue_of(r, g, b, mx, ch), s, l]
    }
    pub fn hsl_to_rgb(c: [f64; 3]) -> [f64; 3] {
        let (h, s, l) = (c[0] / 360.0, c[1], c[2]);
        let q = if l <= 0.5 { l * (1.0 + s) } else { l + s - l * s };
        let p = 2.0 * l - q;
        let f = |t: f64| { let t = t.rem_euclid(1.0); if t < 1.0 / 6.0 { p + (q - p) * 6.0 * t } else if t < 0.5 { q } else if t < 2.0 / 3.0 { p + (q - p) * (2.0 / 3.0 - t) * 6.0 } else { p } };
        [f(h + 1.0 / 3.0), f(h), f(h - 1.0 / 3.0)]
    }
    pub fn hsv_to_hwb(c: [f64; 3]) -> [f64; 3] { [c[0], (1.0 - c[1]) * c[2], 1.0 - c[2]] }
    pub fn hwb_to_hsv(c: [f64; 3]) -> [f64; 3] { let v = 1.0 - c[2]; [c[0], if v == 0.0 { 0.0 } else { 1.0 - c[1] / v }, v] }
    pub fn hsl_to_hsv(c: [f64; 3]) -> [f64; 3] { let (s, l) = (c[1], c[2]); let v = l + s * l.min(1.0 - l); [c[0], if v == 0.0 { 0.0 } else { 2.0 * (1.0 - l / v) }, v] }
    pub fn hsv_to_hsl(c: [f64; 3]) -> [f64; 3] { let (s, v) = (c[1], c[2]); let l = v * (1.0 - s / 2.0); [c[0], if l == 0.0 || l == 1.0 { 0.0 } else { (v - l) / l.min(1.0 - l) }, l] }
}
use spec::Tf;

/// rounding slack of an edge evaluated in `T`: a few hundred eps of the unit scale
fn slack<T: Fl>() -> f64 { 256.0 * T::eps() }
/// linear-light uncertainty of one hard-coded 7-digit matrix against the exact (derived) one: 3 entries x 0.5e-7 rounding,
/// proved <= 3 x 5e-7 in C02_Rgb (`hard_matrices_near_derived`); observed 1.5e-7.  Per unit of the input's max norm.
const MAT_TOL: f64 = 3e-7;

/// `got` (encoded by `tf`) must lie in the image of [lin-delta, lin+delta] under the published curve, +- rounding.
/// Returns None when the published curve says nothing (power law, lin - delta < 0 and the implementation produced NaN).
fn enc_ok(tf: Tf, lin: f64, delta: f64, got: f64, r: f64) -> Option<bool> {
    if spec::power_law(tf) && lin - delta < 0.0 {
        if got.is_nan() { return None; }
        if lin + delta < 0.0 { return None; }
        return Some(got >= -r && got <= spec::encode(tf, lin + delta) * (1.0 + r) + r);
    }
    let (lo, hi) = (spec::encode(tf, lin - delta), spec::encode(tf, lin + delta));
    Some(got >= lo - r * (1.0 + lo.abs()) && got <= hi + r * (1.0 + hi.abs()))
}

fn hue_grid<T: Fl>(rng: &mut Rng, n: usize) -> Vec<f64> {
    let mut v = vec![];
    for k in -6..=12 { let e = T::of(60.0 * k as f64); for d in [0i64, 1, -1, 2, -2, 16, -16] { v.push(e.nudge(d).to64()); } }
    for x in [180.0, -180.0, 360.0, -360.0, 720.0, 0.0, -0.0, 1e-9, -1e-9, 30.0, 90.0, 359.999999, 1e-30, -1e-30] { v.push(x); }
    for _ in 0..n { v.push(rng.range(-360.0, 720.0)); }
    v
}

/// (hue, a, b) inputs of a cylindrical space: hue grid x structured (a, b) + random
fn cyl_inputs<T: Fl>(rng: &mut Rng, n: usize, hwb: bool, extra: &[[f64; 2]]) -> Vec<[f64; 3]> {
    let mut v = vec![];
    let lat = [0.0, 1.0, 1e-9, 1.0 - 1e-9, 0.5, 0.25];
    let hues = hue_grid::<T>(rng, 8);
    for (i, h) in hues.iter().enumerate() {
        for &a in &lat { for &b in &lat { if (i + v.len()) % 3 == 0 || i < 24 { v.push([*h, a, b]); } } }
        for e in extra { v.push([*h, e[0], e[1]]); }
    }
    for _ in 0..n { v.push([rng.range(-360.0, 720.0), rng.edgy(0.0, 1.0), rng.edgy(0.0, 1.0)]); }
    for _ in 0..n { v.push([rng.range(0.0, 360.0), rng.unit(), rng.unit()]); }
    if hwb { v.retain(|c| c[1] + c[2] <= 1.0); }
    v
}

/// RGB cube + ties + exact sector edges + thresholds of the HSL `sum > 1` select
fn rgb_inputs<T: Fl>(rng: &mut Rng, n: usize, thresholds: &[f64]) -> Vec<[f64; 3]> {
    let mut v = rgb_cube(rng, n);
    for _ in 0..n / 4 { let (a, b) = (rng.unit(), rng.unit()); v.push([a, a, b]); v.push([a, b, a]); v.push([b, a, a]); v.push([a, b, b]); v.push([a, a, a]); }
    for k in 0..6 { for s in [1.0, 0.5, 1e-9] { for val in [1.0, 0.3] { v.push(spec::hsv_to_rgb([60.0 * k as f64, s, val])); v.push(spec::hsv_to_rgb([60.0 * k as f64 + 30.0, s, val])); } } }
    // max + min = 1 +- ulps
    for _ in 0..16 { let a = rng.unit() * 0.5; for d in [0i64, 1, -1, 2, -2, 16, -16] { let hi = T::of(1.0 - T::of(a).to64()).nudge(d).to64(); let mid = rng.range(a, 1.0 - a); v.push([hi, mid, a]); v.push([a, hi, mid]); v.push([mid, a, hi]); } }
    for &t in thresholds { for d in [0i64, 1, -1, 2, -2, 16, -16] { let x = T::of(t).nudge(d).to64(); v.push([x, x, x]); v.push([x, rng.unit(), rng.unit()]); v.push([rng.unit(), x, 0.0]); v.push([1.0, rng.unit(), x]); } }
    v
}

fn thresholds_enc(tf: Tf) -> Vec<f64> { match tf { Tf::Srgb => vec![0.04045], Tf::Rec => vec![4.5 * spec::BETA], Tf::ProPhoto => vec![0.03125], _ => vec![] } }
fn thresholds_lin(tf: Tf) -> Vec<f64> { match tf { Tf::Srgb => vec![0.0031308], Tf::Rec => vec![spec::BETA], Tf::ProPhoto => vec![0.001953125], _ => vec![] } }

fn fmt3(a: &[f64]) -> String { format!("{:?}", a) }

macro_rules! family { ($fname:ident, $t:ty, $simd:ty, $lanes:expr) => {
fn $fname(out: &mut Out, rng: &mut Rng, n: usize) {
    type T = $t;
    let tag = <T as Fl>::TAG;
    let r = slack::<T>();

    // ---------------------------------------------------------------- Rgb<S> <-> Xyz<Wp>
    macro_rules! rgb_xyz { ($S:ty, $sn:expr, $Wp:ty, $wpn:expr) => {{
        let sp = spec::std($sn);
        let xs = rgb_inputs::<T>(rng, n, &thresholds_enc(sp.tf));
        let res = edge::<Rgb<$S, T>, Xyz<$Wp, T>, T, 3, 3>(out, &format!("Rgb:{}", $sn), &format!("Xyz:{}", $wpn), &xs);
        for (a, d) in &res {
            let lin = spec::lin(&sp, to64(a));
            let want = spec::mul_v(&sp.m, lin);
            let got = to64(d);
            let ok = (0..3).all(|i| (got[i] - want[i]).abs() <= MAT_TOL + r);
            out.check(ok, &format!("def:Rgb->Xyz:{}:{}", $sn, tag), || format!("{} -> {}, primaries/white/curve of the standard give {}", fmt3(&to64(a)), fmt3(&got), fmt3(&want)));
            for i in 0..3 { out.maxi(&format!("dev:Rgb->Xyz:{}", tag), (got[i] - want[i]).abs()); }
        }
        // white: all components at maximum -> the white point (C14)
        let w = edge::<Rgb<$S, T>, Xyz<$Wp, T>, T, 3, 3>(out, &format!("Rgb:{}", $sn), &format!("Xyz:{}", $wpn), &[[1.0, 1.0, 1.0]]);
        let got = to64(&w[0].1);
        out.check((0..3).all(|i| (got[i] - sp.white[i]).abs() <= 1e-6 + r), &format!("white:Rgb->Xyz:{}:{}", $sn, tag), || format!("(1,1,1) -> {} but the white point is {}", fmt3(&got), fmt3(&sp.white)));
        // round trip Rgb -> Xyz -> Rgb (C01): exact up to the proved matrix-pair bound 3*eps*|x| (eps <= 3.5e-7 entrywise: 1.1e-6) in linear light
        let back = edge::<Xyz<$Wp, T>, Rgb<$S, T>, T, 3, 3>(out, &format!("Xyz:{}", $wpn), &format!("Rgb:{}", $sn), &res.iter().map(|(_, d)| to64(d)).collect::<Vec<_>>());
        for ((a, _), (x, b)) in res.iter().zip(&back) {
            let a64 = to64(a); let lin = spec::lin(&sp, a64); let got = to64(b);
            let scale = lin.iter().fold(1.0f64, |m, v| m.max(v.abs()));
            for i in 0..3 {
                if got[i].is_nan() {
                    out.count(&format!("cls:powlaw-nan:{}", $sn));
                    out.check(false, &format!("powlaw-nan:Rgb->Xyz->Rgb:{}:{}", $sn, tag), || format!("Rgb {} -> Xyz {} -> Rgb {}: in-gamut colour comes back NaN (component {} = {:e} recovered slightly negative by the non-inverse 7-digit matrices, pure power-law encoding)", fmt3(&a64), fmt3(&to64(x)), fmt3(&got), i, a64[i]));
                    continue;
                }
                match enc_ok(sp.tf, lin[i], 1.1e-6 * scale + r, got[i], r) {
                    Some(ok) => out.check(ok, &format!("rt:Rgb->Xyz->Rgb:{}:{}", $sn, tag), || format!("{} -> {} -> {} (component {})", fmt3(&a64), fmt3(&to64(x)), fmt3(&got), i)),
                    None => out.count("cls:rt-outside-published-curve"),
                }
                out.maxi(&format!("rt:Rgb->Xyz->Rgb:{}:{}", $sn, tag), (got[i] - a64[i]).abs());
            }
        }
        // Xyz (nominal box: 0..white point) -> Rgb
        let w = sp.white;
        let mut xs = box_inputs([(0.0, w[0]), (0.0, w[1]), (0.0, w[2])], rng, n, false);
        for g in 0..=32 { let y = g as f64 / 32.0; xs.push([w[0] * y, w[1] * y, w[2] * y]); }
        let res = edge::<Xyz<$Wp, T>, Rgb<$S, T>, T, 3, 3>(out, &format!("Xyz:{}", $wpn), &format!("Rgb:{}", $sn), &xs);
        for (a, d) in &res {
            let a64 = to64(a); let lin = spec::mul_v(&sp.mi, a64); let got = to64(d);
            let scale = a64.iter().fold(0.0f64, |m, v| m.max(v.abs()));
            // |M^-1| rows sum to < 5.3 for every space: MAT_TOL per unit of |xyz| for the table, 8*r for the cancellation in T
            let delta = MAT_TOL * scale * 3.0 + 8.0 * r * scale;
            for i in 0..3 {
                if got[i].is_nan() {
                    if lin[i] >= -delta {
                        out.check(false, &format!("powlaw-nan:Xyz->Rgb:{}:{}", $sn, tag), || format!("Xyz {} -> Rgb {}: exact linear component {} is {:e} (zero within the matrix tolerance) but the result is NaN", fmt3(&a64), fmt3(&got), i, lin[i]));
                    } else {
                        // out of the RGB gamut: the published power law is undefined for a negative base; palette returns NaN (C07 is the property that speaks about it)
                        out.count(&format!("cls:xyz-out-of-gamut-nan:{}", $sn));
                        out.check(false, &format!("powlaw-nan-out-of-gamut:Xyz->Rgb:{}:{}", $sn, tag), || format!("in-range Xyz {} (outside the {} gamut, linear component {} = {:e}) -> Rgb {}: NaN", fmt3(&a64), $sn, i, lin[i], fmt3(&got)));
                    }
                    continue;
                }
                match enc_ok(sp.tf, lin[i], delta, got[i], r) {
                    Some(ok) => out.check(ok, &format!("def:Xyz->Rgb:{}:{}", $sn, tag), || format!("{} -> {} (component {}), the standard gives encode({:e})", fmt3(&a64), fmt3(&got), i, lin[i])),
                    None => out.count("cls:def-outside-published-curve"),
                }
            }
        }
    }} }
    rgb_xyz!(Srgb, "Srgb", D65, "D65"); rgb_xyz!(Linear<Srgb>, "LinSrgb", D65, "D65"); rgb_xyz!(Rec709, "Rec709", D65, "D65");
    rgb_xyz!(AdobeRgb, "AdobeRgb", D65, "D65"); rgb_xyz!(Linear<AdobeRgb>, "LinAdobeRgb", D65, "D65");
    rgb_xyz!(Rec2020, "Rec2020", D65, "D65"); rgb_xyz!(Linear<Rec2020>, "LinRec2020", D65, "D65");
    rgb_xyz!(DisplayP3, "DisplayP3", D65, "D65"); rgb_xyz!(Linear<DisplayP3>, "LinDisplayP3", D65, "D65");
    rgb_xyz!(DciP3, "DciP3", DciP3, "DciP3"); rgb_xyz!(Linear<DciP3>, "LinDciP3", DciP3, "DciP3");
    rgb_xyz!(ProPhotoRgb, "ProPhotoRgb", D50, "D50"); rgb_xyz!(Linear<ProPhotoRgb>, "LinProPhotoRgb", D50, "D50");

    // ---------------------------------------------------------------- Rgb<S1> -> Rgb<S2>
    macro_rules! rgb_rgb { ($S1:ty, $n1:expr, $S2:ty, $n2:expr) => {{
        let (s1, s2) = (spec::std($n1), spec::std($n2));
        let xs = rgb_inputs::<T>(rng, n / 2, &thresholds_enc(s1.tf));
        let res = edge::<Rgb<$S1, T>, Rgb<$S2, T>, T, 3, 3>(out, &format!("Rgb:{}", $n1), &format!("Rgb:{}", $n2), &xs);
        for (a, d) in &res {
            let a64 = to64(a); let got = to64(d);
            if $n1 == $n2 { out.check(a64 == got, &format!("def:Rgb->Rgb:same:{}", tag), || format!("{} -> {}", fmt3(&a64), fmt3(&got))); continue; }
            let lin1 = spec::lin(&s1, a64);
            let (lin2, delta) = if s1.space == s2.space { (lin1, r) } else { (spec::mul_v(&s2.mi, spec::mul_v(&s1.m, lin1)), MAT_TOL * 4.0 + 8.0 * r) };
            for i in 0..3 {
                if got[i].is_nan() {
                    if lin2[i] >= -delta { out.check(false, &format!("powlaw-nan:Rgb->Rgb:{}->{}:{}", $n1, $n2, tag), || format!("Rgb<{}> {} -> Rgb<{}> {}: exact linear component {} is {:e} but the result is NaN", $n1, fmt3(&a64), $n2, fmt3(&got), i, lin2[i])); }
                    else { out.count("cls:rgb-out-of-gamut-nan"); out.check(false, &format!("powlaw-nan-out-of-gamut:Rgb->Rgb:{}->{}:{}", $n1, $n2, tag), || format!("Rgb<{}> {} -> Rgb<{}> {}: NaN (linear component {} = {:e})", $n1, fmt3(&a64), $n2, fmt3(&got), i, lin2[i])); }
                    continue;
                }
                match enc_ok(s2.tf, lin2[i], delta, got[i], r) {
                    Some(ok) => out.check(ok, &format!("def:Rgb->Rgb:{}->{}:{}", $n1, $n2, tag), || format!("{} -> {} (component {}), the standards give encode({:e})", fmt3(&a64), fmt3(&got), i, lin2[i])),
                    None => out.count("cls:def-outside-published-curve"),
                }
            }
        }
    }} }
    rgb_rgb!(Srgb, "Srgb", Srgb, "Srgb"); rgb_rgb!(Srgb, "Srgb", Linear<Srgb>, "LinSrgb"); rgb_rgb!(Linear<Srgb>, "LinSrgb", Srgb, "Srgb");
    rgb_rgb!(Srgb, "Srgb", Rec709, "Rec709"); rgb_rgb!(Rec709, "Rec709", Srgb, "Srgb");
    rgb_rgb!(Srgb, "Srgb", AdobeRgb, "AdobeRgb"); rgb_rgb!(AdobeRgb, "AdobeRgb", Srgb, "Srgb");
    rgb_rgb!(Srgb, "Srgb", Rec2020, "Rec2020"); rgb_rgb!(Rec2020, "Rec2020", DisplayP3, "DisplayP3"); rgb_rgb!(DisplayP3, "DisplayP3", Linear<Rec2020>, "LinRec2020");
    rgb_rgb!(DciP3, "DciP3", Linear<DciP3>, "LinDciP3"); rgb_rgb!(Linear<ProPhotoRgb>, "LinProPhotoRgb", ProPhotoRgb, "ProPhotoRgb");
    rgb_rgb!(Linear<AdobeRgb>, "LinAdobeRgb", Linear<DisplayP3>, "LinDisplayP3");

    // ---------------------------------------------------------------- Rgb <-> Hsv, Rgb <-> Hsl (scalar branch) and the mask-generic branch through SIMD lanes
    let htol = 360.0 * 64.0 * <T as Fl>::eps();
    let tol = 64.0 * <T as Fl>::eps();
    macro_rules! hexcone { ($S:ty, $sn:expr) => {{
        let xs = rgb_inputs::<T>(rng, n, &[]);
        // Rgb -> Hsv
        let res = edge::<Rgb<$S, T>, Hsv<$S, T>, T, 3, 3>(out, &format!("Rgb:{}", $sn), &format!("Hsv:{}", $sn), &xs);
        for (a, d) in &res {
            let (a64, got) = (to64(a), to64(d)); let want = spec::rgb_to_hsv(a64);
            out.check(hue_close(got[0], want[0], htol) && close(got[1], want[1], tol, 1.0) && close(got[2], want[2], tol, 1.0), &format!("def:Rgb->Hsv:{}", tag), || format!("{} -> {}, hexcone gives {}", fmt3(&a64), fmt3(&got), fmt3(&want)));
            out.check(got[1] >= 0.0 && got[1] <= 1.0 && got[2] >= 0.0 && got[2] <= 1.0, &format!("bounds:Rgb->Hsv:{}", tag), || format!("{} -> {}", fmt3(&a64), fmt3(&got)));
        }
        let back = edge::<Hsv<$S, T>, Rgb<$S, T>, T, 3, 3>(out, &format!("Hsv:{}", $sn), &format!("Rgb:{}", $sn), &res.iter().map(|(_, d)| to64(d)).collect::<Vec<_>>());
        for ((a, _), (h, b)) in res.iter().zip(&back) { out.check(close3(&to64(b), &to64(a), tol, &[1.0, 1.0, 1.0]), &format!("rt:Rgb->Hsv->Rgb:{}", tag), || format!("{} -> {} -> {}", fmt3(&to64(a)), fmt3(&to64(h)), fmt3(&to64(b)))); }
        // Rgb -> Hsl
        let res = edge::<Rgb<$S, T>, Hsl<$S, T>, T, 3, 3>(out, &format!("Rgb:{}", $sn), &format!("Hsl:{}", $sn), &xs);
        for (a, d) in &res {
            let (a64, got) = (to64(a), to64(d)); let want = spec::rgb_to_hsl(a64);
            // s = d / ((1 - max) + (1 - min)), i.e. d / (2 - sum) (hsl.rs since 4f36dd5; before: `2 - sum` on the rounded sum): the divisor
            // is a difference of O(1) quantities rounded in T
            let sum = a64.iter().cloned().fold(0.0, f64::max) + a64.iter().cloned().fold(1.0, f64::min);
            let stol = tol * (1.0 + if sum > 1.0 { 1.0 / (2.0 - sum).max(1e-300) } else { 0.0 });
            out.check(hue_close(got[0], want[0], htol) && (got[1] - want[1]).abs() <= stol && close(got[2], want[2], tol, 1.0), &format!("def:Rgb->Hsl:{}", tag), || format!("{} -> {}, double hexcone gives {}", fmt3(&a64), fmt3(&got), fmt3(&want)));
        }
        let back = edge::<Hsl<$S, T>, Rgb<$S, T>, T, 3, 3>(out, &format!("Hsl:{}", $sn), &format!("Rgb:{}", $sn), &res.iter().map(|(_, d)| to64(d)).collect::<Vec<_>>());
        for ((a, _), (h, b)) in res.iter().zip(&back) { out.check(close3(&to64(b), &to64(a), tol, &[1.0, 1.0, 1.0]), &format!("rt:Rgb->Hsl->Rgb:{}", tag), || format!("{} -> {} -> {}", fmt3(&to64(a)), fmt3(&to64(h)), fmt3(&to64(b)))); }
        // mask-generic branch, lane by lane; must agree with the scalar branch up to the unsigned normal form of the hue
        let mut k = 0;
        while k < xs.len() {
            let mut lanes = [[0.0 as T; $lanes]; 3];
            let cnt = (xs.len() - k).min($lanes);
            for j in 0..$lanes { let c = xs[(k + j).min(xs.len() - 1)]; for i in 0..3 { lanes[i][j] = <T as Fl>::of(c[i]); } }
            let rgb: Rgb<$S, $simd> = Rgb::new(<$simd>::from(lanes[0]), <$simd>::from(lanes[1]), <$simd>::from(lanes[2]));
            let hsv: Hsv<$S, $simd> = palette::convert::FromColorUnclamped::from_color_unclamped(rgb);
            let hsl: Hsl<$S, $simd> = palette::convert::FromColorUnclamped::from_color_unclamped(rgb);
            let (hv, hl) = ([hsv.hue.into_inner().to_array(), hsv.saturation.to_array(), hsv.value.to_array()], [hsl.hue.into_inner().to_array(), hsl.saturation.to_array(), hsl.lightness.to_array()]);
            for j in 0..cnt {
                let a = [lanes[0][j], lanes[1][j], lanes[2][j]];
                let (dv, dl) = ([hv[0][j], hv[1][j], hv[2][j]], [hl[0][j], hl[1][j], hl[2][j]]);
                out.case(&format!("conv Rgb:{} Hsv:{}+simd | {} | {}", $sn, $sn, hx_list(&a), hx_list(&dv)));
                out.case(&format!("conv Rgb:{} Hsl:{}+simd | {} | {}", $sn, $sn, hx_list(&a), hx_list(&dl)));
                let (a64, gv, gl) = (to64(&a), to64(&dv), to64(&dl));
                let (wv, wl) = (spec::rgb_to_hsv(a64), spec::rgb_to_hsl(a64));
                let sum = a64.iter().cloned().fold(0.0, f64::max) + a64.iter().cloned().fold(1.0, f64::min);
                let stol = tol * (1.0 + if sum > 1.0 { 1.0 / (2.0 - sum).max(1e-300) } else { 0.0 });
                out.check(hue_close(gv[0], wv[0], htol) && gv[0] >= 0.0 && gv[0] < 360.0 && close(gv[1], wv[1], tol, 1.0) && close(gv[2], wv[2], tol, 1.0), &format!("def:Rgb->Hsv:simd:{}", tag), || format!("{} -> {}, hexcone gives {}", fmt3(&a64), fmt3(&gv), fmt3(&wv)));
                out.check(hue_close(gl[0], wl[0], htol) && gl[0] >= 0.0 && gl[0] < 360.0 && (gl[1] - wl[1]).abs() <= stol && close(gl[2], wl[2], tol, 1.0), &format!("def:Rgb->Hsl:simd:{}", tag), || format!("{} -> {}, double hexcone gives {}", fmt3(&a64), fmt3(&gl), fmt3(&wl)));
            }
            k += $lanes;
        }
        // Hsv -> Rgb, Hsl -> Rgb on the cylinder
        let hs = cyl_inputs::<T>(rng, n, false, &[]);
        let res = edge::<Hsv<$S, T>, Rgb<$S, T>, T, 3, 3>(out, &format!("Hsv:{}", $sn), &format!("Rgb:{}", $sn), &hs);
        for (a, d) in &res {
            let (a64, got) = (to64(a), to64(d)); let want = spec::hsv_to_rgb(a64);
            // the hue enters through hue/60 mod 2: an error of eps*|hue|/60 in that quantity moves a component by chroma times it
            let t = tol * (1.0 + a64[0].abs() / 60.0);
            out.check((0..3).all(|i| (got[i] - want[i]).abs() <= t), &format!("def:Hsv->Rgb:{}", tag), || format!("{} -> {}, hexcone gives {}", fmt3(&a64), fmt3(&got), fmt3(&want)));
            out.check((0..3).all(|i| got[i] >= -t && got[i] <= 1.0 + t), &format!("gamut:Hsv->Rgb:{}", tag), || format!("{} -> {}", fmt3(&a64), fmt3(&got)));
        }
        // Hsv -> Rgb -> Hsv for s, v in (0,1]: hue modulo 360 (ill-conditioned as 1/(s v)), saturation as 1/v
        let back = edge::<Rgb<$S, T>, Hsv<$S, T>, T, 3, 3>(out, &format!("Rgb:{}", $sn), &format!("Hsv:{}", $sn), &res.iter().map(|(_, d)| to64(d)).collect::<Vec<_>>());
        for ((a, m), (_, b)) in res.iter().zip(&back) {
            let (a64, got) = (to64(a), to64(b));
            if !(a64[1] > 0.0 && a64[1] <= 1.0 && a64[2] > 0.0 && a64[2] <= 1.0) { continue; }
            let cond = 1.0 / (a64[1] * a64[2]);
            let ok = hue_close(got[0], a64[0], (htol * (1.0 + a64[0].abs() / 360.0)) * (1.0 + cond)) && (got[1] - a64[1]).abs() <= tol * (1.0 + a64[0].abs() / 60.0) * (1.0 + 1.0 / a64[2]) && close(got[2], a64[2], tol, 1.0);
            out.check(ok, &format!("rt:Hsv->Rgb->Hsv:{}", tag), || format!("{} -> {} -> {}", fmt3(&a64), fmt3(&to64(m)), fmt3(&got)));
        }
        let res = edge::<Hsl<$S, T>, Rgb<$S, T>, T, 3, 3>(out, &format!("Hsl:{}", $sn), &format!("Rgb:{}", $sn), &hs);
        for (a, d) in &res {
            let (a64, got) = (to64(a), to64(d)); let want = spec::hsl_to_rgb(a64);
            let t = tol * (1.0 + a64[0].abs() / 60.0);
            out.check((0..3).all(|i| (got[i] - want[i]).abs() <= t), &format!("def:Hsl->Rgb:{}", tag), || format!("{} -> {}, double hexcone gives {}", fmt3(&a64), fmt3(&got), fmt3(&want)));
            out.check((0..3).all(|i| got[i] >= -t && got[i] <= 1.0 + t), &format!("gamut:Hsl->Rgb:{}", tag), || format!("{} -> {}", fmt3(&a64), fmt3(&got)));
        }
        // Hsv <-> Hwb
        let res = edge::<Hsv<$S, T>, Hwb<$S, T>, T, 3, 3>(out, &format!("Hsv:{}", $sn), &format!("Hwb:{}", $sn), &hs);
        for (a, d) in &res { let (a64, got) = (to64(a), to64(d)); let want = spec::hsv_to_hwb(a64);
            out.check(got[0] == a64[0] && close(got[1], want[1], tol, 1.0) && close(got[2], want[2], tol, 1.0), &format!("def:Hsv->Hwb:{}", tag), || format!("{} -> {}, Smith & Lyons give {}", fmt3(&a64), fmt3(&got), fmt3(&want))); }
        let back = edge::<Hwb<$S, T>, Hsv<$S, T>, T, 3, 3>(out, &format!("Hwb:{}", $sn), &format!("Hsv:{}", $sn), &res.iter().map(|(_, d)| to64(d)).collect::<Vec<_>>());
        for ((a, m), (_, b)) in res.iter().zip(&back) { let (a64, got) = (to64(a), to64(b)); if a64[2] == 0.0 { continue; }
            // s = 1 - w/v: recovered with absolute error eps/v
            out.check(got[0] == a64[0] && (got[1] - a64[1]).abs() <= tol * (1.0 + 1.0 / a64[2]) && close(got[2], a64[2], tol, 1.0), &format!("rt:Hsv->Hwb->Hsv:{}", tag), || format!("{} -> {} -> {}", fmt3(&a64), fmt3(&to64(m)), fmt3(&got))); }
        let ws = cyl_inputs::<T>(rng, n, true, &[[0.0, 1.0], [1.0, 0.0], [0.5, 0.5], [0.3, 0.7]]);
        let res = edge::<Hwb<$S, T>, Hsv<$S, T>, T, 3, 3>(out, &format!("Hwb:{}", $sn), &format!("Hsv:{}", $sn), &ws);
        for (a, d) in &res { let (a64, got) = (to64(a), to64(d)); let want = spec::hwb_to_hsv(a64);
            let v = 1.0 - a64[2];
            // v = 1 - b is rounded in T (absolute error eps), s = 1 - w/v inherits w/v * eps/v
            out.check(got[0] == a64[0] && (got[1] - want[1]).abs() <= tol * (1.0 + if v > 0.0 { a64[1] / (v * v) } else { 0.0 }) && close(got[2], want[2], tol, 1.0), &format!("def:Hwb->Hsv:{}", tag), || format!("{} -> {}, Smith & Lyons give {}", fmt3(&a64), fmt3(&got), fmt3(&want))); }
        // Hsl <-> Hsv direct, with the thresholds of their selects (l = 0.5, (2-s)v = 1, v = 0, s = 0 & v = 1)
        let mut ls = cyl_inputs::<T>(rng, n, false, &[]);
        for d in [0i64, 1, -1, 2, -2, 16, -16] { let l = <T as Fl>::of(0.5).nudge(d).to64(); for s in [0.0, 0.3, 1.0] { ls.push([rng.range(0.0, 360.0), s, l]); } }
        let res = edge::<Hsl<$S, T>, Hsv<$S, T>, T, 3, 3>(out, &format!("Hsl:{}", $sn), &format!("Hsv:{}", $sn), &ls);
        for (a, d) in &res { let (a64, got) = (to64(a), to64(d)); let want = spec::hsl_to_hsv(a64);
            out.check(got[0] == a64[0] && close(got[1], want[1], tol, 1.0) && close(got[2], want[2], tol, 1.0), &format!("def:Hsl->Hsv:{}", tag), || format!("{} -> {}, definition gives {}", fmt3(&a64), fmt3(&got), fmt3(&want))); }
        let mut vs = cyl_inputs::<T>(rng, n, false, &[]);
        for d in [0i64, 1, -1, 2, -2, 16, -16] { for s in [0.0, 0.4, 1.0] { let v = <T as Fl>::of(1.0 / (2.0 - s)).nudge(d).to64(); vs.push([rng.range(0.0, 360.0), s, v]); } vs.push([10.0, <T as Fl>::of(0.0).nudge(d.abs()).to64(), 1.0]); vs.push([10.0, 0.5, <T as Fl>::of(0.0).nudge(d.abs()).to64()]); }
        let res = edge::<Hsv<$S, T>, Hsl<$S, T>, T, 3, 3>(out, &format!("Hsv:{}", $sn), &format!("Hsl:{}", $sn), &vs);
        for (a, d) in &res { let (a64, got) = (to64(a), to64(d)); let want = spec::hsv_to_hsl(a64);
            // s_l = s v / (2 - x), x = (2 - s) v rounded in T: the divisor carries an absolute error of 2 eps
            let x = (2.0 - a64[1]) * a64[2];
            let stol = tol * (1.0 + if x >= 1.0 { 2.0 / (2.0 - x).max(1e-300) } else { 0.0 });
            // `is_valid_divisor` is `is_normal`: a subnormal value/x counts as zero (saturation 0).  Such colours are black to 300 digits;
            // the definition's saturation there is not "within a small numerical tolerance" of anything -- counted, not judged.
            let sub = |z: f64| z != 0.0 && z.abs() < <T as Fl>::of(0.0).nudge(1).to64() * (2.0 / <T as Fl>::eps());
            if sub(a64[2]) || sub(<T as Fl>::of(x).to64()) || sub(<T as Fl>::of(2.0 - <T as Fl>::of(x).to64()).to64()) { out.count("cls:subnormal-divisor"); continue; }
            out.check(got[0] == a64[0] && (got[1] - want[1]).abs() <= stol && close(got[2], want[2], tol, 1.0), &format!("def:Hsv->Hsl:{}", tag), || format!("{} -> {}, definition gives {}", fmt3(&a64), fmt3(&got), fmt3(&want))); }
    }} }
    hexcone!(Srgb, "Srgb"); hexcone!(Linear<Srgb>, "LinSrgb");

    // ---------------------------------------------------------------- standard-changing Hsl -> Hsl, Hsv -> Hsv, Hwb -> Hwb
    macro_rules! cyl_std { ($C:ident, $cn:expr, $to_rgb:expr, $S1:ty, $n1:expr, $S2:ty, $n2:expr) => {{
        let (s1, s2) = (spec::std($n1), spec::std($n2));
        let hs = cyl_inputs::<T>(rng, n / 4, $cn == "Hwb", &[]);
        let res = edge::<$C<$S1, T>, $C<$S2, T>, T, 3, 3>(out, &format!("{}:{}", $cn, $n1), &format!("{}:{}", $cn, $n2), &hs);
        for (a, d) in &res {
            let (a64, got) = (to64(a), to64(d));
            if $n1 == $n2 { out.check(a64 == got || (a64[0].is_nan() && got[0].is_nan()), &format!("def:{}->{}:same:{}", $cn, $cn, tag), || format!("{} -> {}", fmt3(&a64), fmt3(&got))); continue; }
            // compared in RGB: the cylinder coordinates of near-grays are ill-conditioned by nature
            let f: fn([f64; 3]) -> [f64; 3] = $to_rgb;
            let lin1 = spec::lin(&s1, f(a64));
            let (lin2, delta) = if s1.space == s2.space { (lin1, 4.0 * r) } else { (spec::mul_v(&s2.mi, spec::mul_v(&s1.m, lin1)), MAT_TOL * 4.0 + 8.0 * r) };
            let mn = lin2.iter().cloned().fold(f64::INFINITY, f64::min);
            // the hexcone coordinates are defined for colours inside the target RGB cube only (palette clamps negative components to 0
            // before computing them): a source colour outside the target gamut has no prescribed value
            if mn < -delta && !got.iter().any(|x| x.is_nan()) { out.count(&format!("cls:{}-outside-target-gamut", $cn)); continue; }
            if got.iter().any(|x| x.is_infinite()) {
                // Rgb -> Hsl divides by `(1 - max) + (1 - min)` whenever `max != min` and `max + min > 1` (4f36dd5; before: `2 - (max + min)`,
                // which rounded to 0 for a white that arrives as (1 + 2 ulp, 1 - 3 ulp, 1 - ulp) after the change of standard). For max <= 1
                // the new divisor is never 0; for max > 1 it cancels exactly when max - 1 == 1 - min, where c404fc5 answers saturation 0.
                // Nothing lists this clause any more: an infinite component is a violation
                out.check(false, &format!("hsl-white-inf:{}->{}:{}->{}:{}", $cn, $cn, $n1, $n2, tag), || format!("{}<{}> {} -> {}<{}> {}: infinite component from a finite in-range colour", $cn, $n1, fmt3(&a64), $cn, $n2, fmt3(&got)));
                continue;
            }
            if got.iter().any(|x| x.is_nan()) {
                if mn >= -delta { out.check(false, &format!("powlaw-nan:{}->{}:{}->{}:{}", $cn, $cn, $n1, $n2, tag), || format!("{}<{}> {} -> {}<{}> {}: smallest exact linear component is {:e} but the result is NaN", $cn, $n1, fmt3(&a64), $cn, $n2, fmt3(&got), mn)); }
                else { out.count("cls:cyl-out-of-gamut-nan"); }
                continue;
            }
            let back = f(got);
            let t = r * (8.0 + a64[0].abs() / 60.0);
            for i in 0..3 { match enc_ok(s2.tf, lin2[i], delta, back[i], t) {
                Some(ok) => out.check(ok, &format!("def:{}->{}:{}->{}:{}", $cn, $cn, $n1, $n2, tag), || format!("{} -> {} = Rgb {} (component {}), the standards give encode({:e})", fmt3(&a64), fmt3(&got), fmt3(&back), i, lin2[i])),
                None => out.count("cls:def-outside-published-curve"),
            } }
        }
    }} }
    let hwb_rgb: fn([f64; 3]) -> [f64; 3] = |c| spec::hsv_to_rgb(spec::hwb_to_hsv(c));
    cyl_std!(Hsv, "Hsv", spec::hsv_to_rgb, Srgb, "Srgb", Srgb, "Srgb"); cyl_std!(Hsv, "Hsv", spec::hsv_to_rgb, Srgb, "Srgb", Rec709, "Rec709"); cyl_std!(Hsv, "Hsv", spec::hsv_to_rgb, Srgb, "Srgb", Rec2020, "Rec2020"); cyl_std!(Hsv, "Hsv", spec::hsv_to_rgb, Srgb, "Srgb", AdobeRgb, "AdobeRgb");
    cyl_std!(Hsl, "Hsl", spec::hsl_to_rgb, Srgb, "Srgb", Srgb, "Srgb"); cyl_std!(Hsl, "Hsl", spec::hsl_to_rgb, Srgb, "Srgb", Linear<Srgb>, "LinSrgb"); cyl_std!(Hsl, "Hsl", spec::hsl_to_rgb, DisplayP3, "DisplayP3", Srgb, "Srgb");
    cyl_std!(Hwb, "Hwb", hwb_rgb, Srgb, "Srgb", Srgb, "Srgb"); cyl_std!(Hwb, "Hwb", hwb_rgb, Srgb, "Srgb", Rec709, "Rec709"); cyl_std!(Hwb, "Hwb", hwb_rgb, Rec2020, "Rec2020", Srgb, "Srgb");

    // ---------------------------------------------------------------- Luma
    macro_rules! luma_edges { ($L:ty, $ln:expr, $Wp:ty, $wpn:expr) => {{
        let sp = spec::std($ln);
        let mut ls: Vec<[f64; 1]> = vec![];
        for i in 0..=64 { ls.push([i as f64 / 64.0]); }
        for x in [1e-9, 1.0 - 1e-9] { ls.push([x]); }
        for _ in 0..n / 2 { ls.push([rng.unit()]); }
        for t in thresholds_enc(sp.tf) { for d in [0i64, 1, -1, 2, -2, 16, -16] { ls.push([<T as Fl>::of(t).nudge(d).to64()]); } }
        // Luma -> Xyz: Y = decoded luma, chromaticity of the white point (CIE: a neutral has the white point's chromaticity)
        let res = edge::<Luma<$L, T>, Xyz<$Wp, T>, T, 1, 3>(out, &format!("Luma:{}", $ln), &format!("Xyz:{}", $wpn), &ls);
        for (a, d) in &res { let y = spec::decode(sp.tf, a[0].to64()); let want = [sp.white[0] * y, y, sp.white[2] * y]; let got = to64(d);
            out.check(close3(&got, &want, r, &[1.0, 1.0, 1.0]), &format!("def:Luma->Xyz:{}:{}", $ln, tag), || format!("{:?} -> {}, definition gives {}", a, fmt3(&got), fmt3(&want))); }
        let res = edge::<Luma<$L, T>, Yxy<$Wp, T>, T, 1, 3>(out, &format!("Luma:{}", $ln), &format!("Yxy:{}", $wpn), &ls);
        let ws = sp.white[0] + sp.white[1] + sp.white[2];
        for (a, d) in &res { let y = spec::decode(sp.tf, a[0].to64()); let want = [sp.white[0] / ws, sp.white[1] / ws, y]; let got = to64(d);
            out.check(close3(&got, &want, r, &[1.0, 1.0, 1.0]), &format!("def:Luma->Yxy:{}:{}", $ln, tag), || format!("{:?} -> {}, definition gives {}", a, fmt3(&got), fmt3(&want))); }
        // Xyz -> Luma, Yxy -> Luma: the encoded luminance
        let mut xs = box_inputs([(0.0, sp.white[0]), (0.0, 1.0), (0.0, sp.white[2])], rng, n / 4, false);
        for t in thresholds_lin(sp.tf) { for d in [0i64, 1, -1, 2, -2, 16, -16] { xs.push([0.3, <T as Fl>::of(t).nudge(d).to64(), 0.2]); } }
        let res = edge::<Xyz<$Wp, T>, Luma<$L, T>, T, 3, 1>(out, &format!("Xyz:{}", $wpn), &format!("Luma:{}", $ln), &xs);
        for (a, d) in &res { let want = spec::encode(sp.tf, a[1].to64()); out.check(close(d[0].to64(), want, r, 1.0), &format!("def:Xyz->Luma:{}:{}", $ln, tag), || format!("{:?} -> {:?}, definition gives {}", a, d, want)); }
        let mut ys = box_inputs(nominal_box("Yxy"), rng, n / 4, false);
        for t in thresholds_lin(sp.tf) { for d in [0i64, 1, -1, 2, -2, 16, -16] { ys.push([0.3, 0.3, <T as Fl>::of(t).nudge(d).to64()]); } }
        let res = edge::<Yxy<$Wp, T>, Luma<$L, T>, T, 3, 1>(out, &format!("Yxy:{}", $wpn), &format!("Luma:{}", $ln), &ys);
        for (a, d) in &res { let want = spec::encode(sp.tf, a[2].to64()); out.check(close(d[0].to64(), want, r, 1.0), &format!("def:Yxy->Luma:{}:{}", $ln, tag), || format!("{:?} -> {:?}, definition gives {}", a, d, want)); }
    }} }
    luma_edges!(Srgb, "Srgb", D65, "D65"); luma_edges!(Linear<D65>, "LinSrgb", D65, "D65"); luma_edges!(Rec709, "Rec709", D65, "D65"); luma_edges!(AdobeRgb, "AdobeRgb", D65, "D65");
    luma_edges!(DciP3, "DciP3", DciP3, "DciP3"); luma_edges!(ProPhotoRgb, "ProPhotoRgb", D50, "D50"); luma_edges!(Linear<D50>, "LinProPhotoRgb", D50, "D50");
    macro_rules! luma_to { ($L:ty, $ln:expr, $D:ty, $dty:expr, $dn:expr, $m:expr) => {{
        let (s1, s2) = (spec::std($ln), spec::std($dn));
        let mut ls: Vec<[f64; 1]> = vec![];
        for i in 0..=64 { ls.push([i as f64 / 64.0]); }
        for _ in 0..n / 4 { ls.push([rng.unit()]); }
        for t in thresholds_enc(s1.tf) { for d in [0i64, 1, -1, 2, -2, 16, -16] { ls.push([<T as Fl>::of(t).nudge(d).to64()]); } }
        let res = edge::<Luma<$L, T>, $D, T, 1, $m>(out, &format!("Luma:{}", $ln), &format!("{}:{}", $dty, $dn), &ls);
        for (a, d) in &res { let want = if s1.tf == s2.tf { a[0].to64() } else { spec::encode(s2.tf, spec::decode(s1.tf, a[0].to64())) };
            out.check(d.iter().all(|x| close(x.to64(), want, r, 1.0)), &format!("def:Luma->{}:{}->{}:{}", $dty, $ln, $dn, tag), || format!("{:?} -> {:?}, definition gives {}", a, d, want)); }
    }} }
    luma_to!(Srgb, "Srgb", Luma<Srgb, T>, "Luma", "Srgb", 1); luma_to!(Srgb, "Srgb", Luma<Linear<D65>, T>, "Luma", "LinSrgb", 1); luma_to!(Linear<D65>, "LinSrgb", Luma<Rec709, T>, "Luma", "Rec709", 1);
    luma_to!(AdobeRgb, "AdobeRgb", Luma<Srgb, T>, "Luma", "Srgb", 1); luma_to!(ProPhotoRgb, "ProPhotoRgb", Luma<Linear<D50>, T>, "Luma", "LinProPhotoRgb", 1);
    luma_to!(Srgb, "Srgb", Rgb<Srgb, T>, "Rgb", "Srgb", 3); luma_to!(Srgb, "Srgb", Rgb<DisplayP3, T>, "Rgb", "DisplayP3", 3); luma_to!(Srgb, "Srgb", Rgb<Linear<Srgb>, T>, "Rgb", "LinSrgb", 3);
    luma_to!(Linear<D65>, "LinSrgb", Rgb<AdobeRgb, T>, "Rgb", "AdobeRgb", 3); luma_to!(Rec709, "Rec709", Rgb<Rec2020, T>, "Rgb", "Rec2020", 3); luma_to!(DciP3, "DciP3", Rgb<Linear<DciP3>, T>, "Rgb", "LinDciP3", 3);
}
} }

family!(run_f32, f32, wide::f32x4, 4);
family!(run_f64, f64, wide::f64x2, 2);

pub fn run_family(out: &mut Out, rng: &mut Rng, tier: &str) {
    let n = if tier == "thorough" { 12_000 } else { 600 };
    run_f32(out, rng, n);
    run_f64(out, rng, n);
}
