//! C11 — hues behave as angles on a circle (`palette::hues`, `palette::angle`).
//!
//! Oracle tolerances (the property's wording, made precise; nothing below is a free parameter):
//!  * "to within the rounding error of the stored angle" = `tol(x) = ulp(x) + 360·η`, one unit in the last place of the
//!    stored angle `x` plus the underflow term of the standard model of IEEE arithmetic (`fl(a∘b) = (a∘b)(1+δ) + η`,
//!    `|η| ≤` half the least subnormal; the angle passes through `/360 … *360`, which scales η by 360).  The η term only
//!    matters for `|x| < 2^-140`; there `x/360` underflows to `-0` and the unsigned form returns `x` itself.
//!  * "congruent modulo 360": the returned float can only be congruent up to its own representation, so the residual
//!    `(norm(x) − x) mod 360` (computed exactly: TwoSum + fma) must be ≤ `max(ulp(x), ulp(norm x))` (+ the same η term).
//!  * "differ by more than rounding error modulo 360": circular distance (exact) `> ulp(x) + ulp(y) + ulp(360)`; the last
//!    term is the representation error of the two normal forms that `==` compares (they live in [0, 360]).
//!  * cartesian / degree-radian: DESIGN §2.2(c): exact identity at ℝ (theorems `C11.cartesian_direction`, `C11.radians_eq`)
//!    plus the rounding slack 2^-20 (f32) / 2^-40 (f64) of the component scale per edge of the route (two edges).
//!  * u8: `|code − 256·frac(x/360)| ≤ 1/2` on the circle of 256 codes, plus the rounding of the scaled angle
//!    (`256/360·tol(x) + 4·ulp(256)`).
use crate::common::*;
use palette::hues::{Cam16Hue, LabHue, LuvHue, OklabHue, RgbHue};

pub trait FlX: Fl + Send + Sync + std::ops::Neg<Output = Self> {
    fn ulp(self) -> f64;
    /// least positive subnormal
    fn tiny() -> f64;
    fn slack_edge() -> f64;
    fn is_nan_(self) -> bool;
    fn exact_from_f64(x: f64) -> Option<Self>;
}
impl FlX for f32 {
    fn ulp(self) -> f64 { let a = self.abs(); if !a.is_finite() { return f64::INFINITY; } f32::from_bits(a.to_bits() + 1) as f64 - a as f64 }
    fn tiny() -> f64 { f32::from_bits(1) as f64 }
    fn slack_edge() -> f64 { 1.0 / (1u64 << 20) as f64 }
    fn is_nan_(self) -> bool { self.is_nan() }
    fn exact_from_f64(x: f64) -> Option<f32> { let y = x as f32; if y as f64 == x { Some(y) } else { None } }
}
impl FlX for f64 {
    fn ulp(self) -> f64 { let a = self.abs(); if !a.is_finite() { return f64::INFINITY; } f64::from_bits(a.to_bits() + 1) - a }
    fn tiny() -> f64 { f64::from_bits(1) }
    fn slack_edge() -> f64 { 1.0 / (1u64 << 40) as f64 }
    fn is_nan_(self) -> bool { self.is_nan() }
    fn exact_from_f64(x: f64) -> Option<f64> { Some(x) }
}

/// The public surface of one hue type at one float type (the observation points the property names).
pub trait HueApi<T: FlX>: Copy + Send + 'static {
    const NAME: &'static str;
    fn new(x: T) -> Self;
    fn raw(self) -> T;
    fn deg(self) -> T; fn pos(self) -> T; fn rad(self) -> T; fn posrad(self) -> T; fn rawdeg(self) -> T; fn rawrad(self) -> T;
    fn from_rad(r: T) -> Self; fn from_deg(d: T) -> Self;
    fn from_cart(a: T, b: T) -> Self; fn cart(self) -> (T, T);
    fn heq(self, o: Self) -> bool; fn heq_t(self, o: T) -> bool;
    /// hue+hue, hue+T, T+hue, hue+=hue, hue+=T, hue-hue, hue-T, T-hue, hue-=hue, hue-=T (raw values)
    fn ops(self, o: T) -> [T; 10];
    fn to_u8(self) -> u8; fn of_u8(n: u8) -> Self;
    /// `From<Hue<T>> for T`
    fn into_t(self) -> T;
}
macro_rules! impl_hue_api { ($name:ident, $t:ty) => {
    impl HueApi<$t> for $name<$t> {
        const NAME: &'static str = stringify!($name);
        fn new(x: $t) -> Self { $name::new(x) }
        fn raw(self) -> $t { self.into_inner() }
        fn deg(self) -> $t { self.into_degrees() }
        fn pos(self) -> $t { self.into_positive_degrees() }
        fn rad(self) -> $t { self.into_radians() }
        fn posrad(self) -> $t { self.into_positive_radians() }
        fn rawdeg(self) -> $t { self.into_raw_degrees() }
        fn rawrad(self) -> $t { self.into_raw_radians() }
        fn from_rad(r: $t) -> Self { $name::from_radians(r) }
        fn from_deg(d: $t) -> Self { $name::from_degrees(d) }
        fn from_cart(a: $t, b: $t) -> Self { $name::from_cartesian(a, b) }
        fn cart(self) -> ($t, $t) { self.into_cartesian() }
        fn heq(self, o: Self) -> bool { self == o }
        fn heq_t(self, o: $t) -> bool { self == o }
        fn ops(self, o: $t) -> [$t; 10] {
            let oh = $name::new(o);
            let mut a1 = self; a1 += oh; let mut a2 = self; a2 += o;
            let mut s1 = self; s1 -= oh; let mut s2 = self; s2 -= o;
            [(self + oh).into_inner(), (self + o).into_inner(), <$t as std::ops::Add<$name<$t>>>::add(o, self).into_inner(), a1.into_inner(), a2.into_inner(),
             (self - oh).into_inner(), (self - o).into_inner(), <$t as std::ops::Sub<$name<$t>>>::sub(o, self).into_inner(), s1.into_inner(), s2.into_inner()]
        }
        fn to_u8(self) -> u8 { self.into_format::<u8>().into_inner() }
        fn of_u8(n: u8) -> Self { $name::<u8>::new(n).into_format::<$t>() }
        fn into_t(self) -> $t { self.into() }
    }
} }
macro_rules! impl_hue_apis { ($($name:ident),*) => { $( impl_hue_api!($name, f32); impl_hue_api!($name, f64); )* } }
impl_hue_apis!(RgbHue, LabHue, LuvHue, OklabHue, Cam16Hue);

/// `|(r − x) mod 360|` reduced to [0, 180], without rounding: TwoSum gives `r − x = s + e` exactly and
/// `s − 360·round(s/360)` is exact (fused multiply-add; |s| < 2^53).  Only the final `rem + e` rounds (relative 2^-53).
pub fn resid360(x: f64, r: f64) -> f64 {
    let b = -x;
    let s = r + b; let bb = s - r; let e = (r - (s - bb)) + (b - bb);
    let k = (s / 360.0).round();
    let rem = (-360.0f64).mul_add(k, s);
    (rem + e).abs()
}

pub(crate) fn tol<T: FlX>(x: T) -> f64 { x.ulp() + 360.0 * T::tiny() }

pub(crate) const LIMIT: f64 = 1048576.0; // 2^20 ("up to a million degrees in magnitude")

#[derive(Default, Clone)]
pub(crate) struct NormStats { n: u64, u_eq_360: u64, u_neg: u64, s_gt_180: u64, s_lt_m180: u64, s_eq_m180: u64, max_exc_ulps: f64, max_exc_ulps_underflow: f64, max_resid_ulps: f64, bad: u64 }
impl NormStats {
    fn merge(&mut self, o: &NormStats) {
        self.n += o.n; self.u_eq_360 += o.u_eq_360; self.u_neg += o.u_neg; self.s_gt_180 += o.s_gt_180; self.s_lt_m180 += o.s_lt_m180; self.s_eq_m180 += o.s_eq_m180;
        self.max_exc_ulps = self.max_exc_ulps.max(o.max_exc_ulps); self.max_exc_ulps_underflow = self.max_exc_ulps_underflow.max(o.max_exc_ulps_underflow);
        self.max_resid_ulps = self.max_resid_ulps.max(o.max_resid_ulps); self.bad += o.bad;
    }
    fn json(&self) -> String {
        format!("{{\"patterns\":{},\"unsigned_eq_360\":{},\"unsigned_negative\":{},\"signed_gt_180\":{},\"signed_lt_-180\":{},\"signed_eq_-180\":{},\"max_range_excursion_ulps_of_x\":{:e},\"max_range_excursion_ulps_of_x_underflow\":{:e},\"max_congruence_residual_ulps\":{:e},\"bad\":{}}}",
            self.n, self.u_eq_360, self.u_neg, self.s_gt_180, self.s_lt_m180, self.s_eq_m180, self.max_exc_ulps, self.max_exc_ulps_underflow, self.max_resid_ulps, self.bad)
    }
}

/// range + congruence clauses for one stored angle; returns a description of the first violated clause
#[inline]
pub(crate) fn norm_oracle<T: FlX>(x: T, s: T, u: T, st: &mut NormStats) -> Option<&'static str> {
    let (xf, sf, uf) = (x.to64(), s.to64(), u.to64());
    let t = tol(x);
    st.n += 1;
    if uf == 360.0 { st.u_eq_360 += 1; }
    if uf < 0.0 { st.u_neg += 1; }
    if sf > 180.0 { st.s_gt_180 += 1; }
    if sf < -180.0 { st.s_lt_m180 += 1; }
    if sf == -180.0 { st.s_eq_m180 += 1; }
    let exc = (-uf).max(uf - 360.0).max(sf - 180.0).max(-180.0 - sf).max(0.0);
    if exc > 0.0 { let e = exc / x.ulp(); if xf.abs() < 1e3 * 360.0 * T::tiny() { if e > st.max_exc_ulps_underflow { st.max_exc_ulps_underflow = e; } } else if e > st.max_exc_ulps { st.max_exc_ulps = e; } }
    let mut bad = None;
    if !(sf >= -180.0 - t && sf <= 180.0 + t) { bad = Some("signed-range"); }
    if !(uf >= -t && uf <= 360.0 + t) { bad = Some("unsigned-range"); }
    let (rs, ru) = (resid360(xf, sf), resid360(xf, uf));
    let (ts, tu) = (x.ulp().max(s.ulp()) + 360.0 * T::tiny(), x.ulp().max(u.ulp()) + 360.0 * T::tiny());
    let m = (rs / ts).max(ru / tu); if m > st.max_resid_ulps { st.max_resid_ulps = m; }
    if !(rs <= ts) { bad = Some("signed-congruent"); }
    if !(ru <= tu) { bad = Some("unsigned-congruent"); }
    if bad.is_some() { st.bad += 1; }
    bad
}

/// every f32 bit pattern with |x| ≤ 2^20 (both signs), 16 threads
fn scan_f32<H: HueApi<f32>>(out: &mut Out) -> NormStats {
    let top: u64 = (LIMIT as f32).to_bits() as u64 + 1; // magnitudes 0 ..= 2^20
    let threads = 16u64;
    let chunk = (top + threads - 1) / threads;
    let handles: Vec<_> = (0..threads).map(|t| std::thread::spawn(move || {
        let mut st = NormStats::default(); let mut bad: Vec<(u32, &'static str, f32, f32)> = vec![];
        for m in t * chunk..((t + 1) * chunk).min(top) {
            for sign in [0u32, 0x8000_0000] {
                let bits = m as u32 | sign;
                let x = f32::from_bits(bits);
                let h = H::new(x);
                let (s, u) = (h.deg(), h.pos());
                if let Some(c) = norm_oracle(x, s, u, &mut st) { if bad.len() < 3 { bad.push((bits, c, s, u)); } }
            }
        }
        (st, bad)
    })).collect();
    let mut tot = NormStats::default();
    for h in handles {
        let (st, bad) = h.join().unwrap(); tot.merge(&st);
        for (bits, c, s, u) in bad { out.check(false, &format!("exhaustive-{}:{}:f32", c, H::NAME), || format!("x{:08x} ({:e}) -> signed {:e} unsigned {:e}", bits, f32::from_bits(bits), s, u)); }
    }
    out.oracle_evals += 4 * tot.n;
    tot
}

/// structured angles: the case splits of the two formulas (k·360, k·360+180 ± ulps), the suite's own inputs, powers of
/// two, subnormals, integers, and random streams over bit patterns / ranges / magnitudes
pub(crate) fn angles<T: FlX>(rng: &mut Rng, n_rand: usize, kstep: usize) -> Vec<T> {
    let mut v: Vec<T> = vec![];
    let suite = [-1000.0, -900.0, -360.5, -360.0, -359.5, -240.0, -180.5, -180.0, -179.5, -90.0, -0.5, 0.0, 0.5, 90.0, 179.5, 180.0, 180.5, 240.0, 359.5, 360.0, 360.5, 900.0, 1000.0,
        -0.0, 540.0, -540.0, 720.0, -720.0, 1e6, -1e6, LIMIT, -LIMIT, 999999.9, -999999.9, 359.296875, 359.2968, 0.703125, 1.40625, 45.0, 1e-3, -1e-3, 1e-10, -1e-10, 1e-30, -1e-30];
    for s in suite { for d in -3..=3 { v.push(T::of(s).nudge(d)); } }
    let kmax = (LIMIT / 360.0) as i64;
    let mut k = -kmax;
    while k <= kmax {
        for base in [360.0 * k as f64, 360.0 * k as f64 + 180.0] { if base.abs() <= LIMIT { for d in -3..=3 { v.push(T::of(base).nudge(d)); } } }
        k += kstep as i64;
    }
    for e in -160..=20 { let p = 2f64.powi(e); for s in [1.0, -1.0] { let x = T::of(s * p); if x.to64() != 0.0 { for d in -1..=1 { v.push(x.nudge(d)); } } } }
    for e in [-1074, -1060, -1022, -1000, -500, -200] { for s in [1.0, -1.0] { v.push(T::of(s * 2f64.powi(e))); } }
    for j in 1..=400i64 { v.push(T::of(0.0).nudge(j)); v.push(T::of(-0.0).nudge(-j)); }
    for _ in 0..n_rand { v.push(T::of((rng.below(2 * LIMIT as u64 + 1) as f64) - LIMIT)); }                 // integers
    for _ in 0..n_rand { v.push(T::of(rng.range(-720.0, 720.0))); }
    for _ in 0..n_rand { v.push(T::of(rng.range(-LIMIT, LIMIT))); }
    for _ in 0..n_rand { let e = rng.range(-45.0, 6.02); let s = if rng.chance(0.5) { -1.0 } else { 1.0 }; v.push(T::of(s * 10f64.powf(e))); }
    for _ in 0..n_rand { let k = rng.below(2 * kmax as u64 + 1) as f64 - kmax as f64; let off = if rng.chance(0.5) { 0.0 } else { 180.0 }; v.push(T::of(360.0 * k + off).nudge(rng.below(9) as i64 - 4)); }
    for _ in 0..n_rand { v.push(T::of(rng.below(16 * 2 * 2000) as f64 / 16.0 - 2000.0)); }                    // dyadic
    v.retain(|x| x.to64().abs() <= LIMIT);
    v
}

fn b(x: bool) -> u8 { x as u8 }

fn run_cfg<T: FlX, H: HueApi<T>>(out: &mut Out, rng: &mut Rng, tier: &str) {
    let thorough = tier == "thorough";
    let cfg = format!("{} {}", H::NAME, T::TAG);
    let key = format!("{}:{}", H::NAME, T::TAG);
    let n_rand = if thorough { 40_000 } else { 3_000 };
    let xs: Vec<T> = angles::<T>(rng, n_rand, if thorough { 1 } else { 6 });
    let mut st = NormStats::default();

    // ---- normal forms: range, congruence, accessors; one correspondence line each
    for (i, &x) in xs.iter().enumerate() {
        let h = H::new(x);
        let (s, u, r, pr, rr, it) = (h.deg(), h.pos(), h.rad(), h.posrad(), h.rawrad(), h.into_t());
        if let Some(c) = norm_oracle(x, s, u, &mut st) {
            out.check(false, &format!("{}:{}", c, key), || format!("{} ({:e}) -> signed {} ({:e}) unsigned {} ({:e})", x.hx(), x.to64(), s.hx(), s.to64(), u.hx(), u.to64()));
        } else { out.oracle_evals += 4; }
        // the accessors are views of the same stored angle
        out.check(h.rawdeg().bits64() == x.bits64() && h.raw().bits64() == x.bits64() && H::from_deg(x).raw().bits64() == x.bits64(), &format!("raw-degrees:{}", key), || format!("{} stored as {}", x.hx(), h.rawdeg().hx()));
        out.check(it.bits64() == s.bits64(), &format!("from-hue-is-signed-form:{}", key), || format!("{}: From gives {} into_degrees {}", x.hx(), it.hx(), s.hx()));
        // degree and radian accessors are consistent: rad = deg·π/180 (4 eps relative: constant + one product rounding, and the f64 reference)
        for (nm, d, rd) in [("signed", s, r), ("positive", u, pr), ("raw", x, rr)] {
            let want = d.to64() * (std::f64::consts::PI / 180.0);
            let ok = (rd.to64() - want).abs() <= 4.0 * T::eps() * want.abs() + T::tiny();
            out.check(ok, &format!("radians-{}:{}", nm, key), || format!("{}: degrees {:e} radians {:e} (want {:e})", x.hx(), d.to64(), rd.to64(), want));
            out.maxi(&format!("radians-relerr-eps:{}", T::TAG), if want.abs() > 1e-30 { ((rd.to64() - want) / want).abs() / T::eps() } else { 0.0 });
        }
        // a hue equals its own normal forms whenever nothing was rounded away (normal form ≡ x exactly)
        if resid360(x.to64(), u.to64()) == 0.0 { out.check(h.heq(H::new(u)) && h.heq_t(u), &format!("equals-own-unsigned-form:{}", key), || format!("{} vs {}", x.hx(), u.hx())); }
        if resid360(x.to64(), s.to64()) == 0.0 { out.check(h.heq(H::new(s)), &format!("equals-own-signed-form:{}", key), || format!("{} vs {}", x.hx(), s.hx())); }
        out.check(h.heq(h) && h.heq_t(x), &format!("reflexive:{}", key), || x.hx());
        if i % 4 == 0 { out.case(&format!("hnorm {} | {} | {} {} {} {} {} {}", cfg, x.hx(), s.hx(), u.hx(), r.hx(), pr.hx(), rr.hx(), it.hx())); }
        let cls = if x.to64() == 0.0 { "zero" } else if x.to64().abs() < 360.0 * 1e3 * T::tiny() { "underflow" } else if x.to64().abs() < 180.0 { "inside" } else if x.to64().abs() <= 360.0 { "one-turn" } else if x.to64().abs() < 36000.0 { "turns" } else { "many-turns" };
        out.count(&format!("cls:norm:{}", cls));
    }
    out.maxi(&format!("range-excursion-ulps-of-x:{}", T::TAG), st.max_exc_ulps);
    out.maxi(&format!("range-excursion-ulps-of-x-underflow:{}", T::TAG), st.max_exc_ulps_underflow);
    out.maxi(&format!("congruence-residual-ulps:{}", T::TAG), st.max_resid_ulps);
    out.count_n(&format!("cls:unsigned-form-exactly-360:{}", T::TAG), st.u_eq_360);
    out.count_n(&format!("cls:unsigned-form-negative:{}", T::TAG), st.u_neg);
    out.count_n(&format!("cls:signed-form-exactly--180:{}", T::TAG), st.s_eq_m180);
    out.count_n(&format!("cls:signed-form-above-180:{}", T::TAG), st.s_gt_180);

    // ---- beyond the property's magnitude: correspondence only (no oracle)
    for _ in 0..n_rand / 4 {
        let e = rng.range(6.1, if T::TAG == "f32" { 30.0 } else { 200.0 }); let sg = if rng.chance(0.5) { -1.0 } else { 1.0 };
        let x = T::of(sg * 10f64.powf(e)); let h = H::new(x);
        out.case(&format!("hnorm {} | {} | {} {} {} {} {} {}", cfg, x.hx(), h.deg().hx(), h.pos().hx(), h.rad().hx(), h.posrad().hx(), h.rawrad().hx(), h.into_t().hx()));
        out.count("cls:norm:beyond-2^20(correspondence-only)");
    }
    for x in [f64::INFINITY, f64::NEG_INFINITY, f64::NAN, 3.0e38, -3.0e38] {
        let x = T::of(x); let h = H::new(x);
        out.case(&format!("hnorm {} | {} | {} {} {} {} {} {}", cfg, x.hx(), h.deg().hx(), h.pos().hx(), h.rad().hx(), h.posrad().hx(), h.rawrad().hx(), h.into_t().hx()));
    }

    // ---- equality: integer angles in ±100000 shifted by up to ±100 whole turns; unequal when the angle differs
    let int_step = if thorough { 1 } else { 7 };
    let mut xi: i64 = -100_000 + (rng.below(int_step as u64) as i64);
    let mut line_budget = if thorough { 60_000 } else { 12_000 };
    while xi <= 100_000 {
        let x = T::of(xi as f64); let hx = H::new(x);
        let ks: Vec<i64> = if thorough && xi % 16 == 0 { (-100..=100).collect() } else { vec![-100, -1, 1, 2, 100, rng.below(201) as i64 - 100, rng.below(201) as i64 - 100] };
        for k in ks {
            let y = T::of((xi + 360 * k) as f64); // integers below 2^24: exactly representable
            let (e1, e2, e3) = (hx.heq(H::new(y)), hx.heq_t(y), H::new(y).heq(hx));
            out.check(e1 && e2 && e3, &format!("equal-whole-turns:{}", key), || format!("{} vs {} + {} turns: {} {} {}", xi, xi, k, e1, e2, e3));
            // the same through the operators: hue + 360k, hue - 360k
            let t = T::of((360 * k) as f64);
            let o = hx.ops(t);
            out.check(H::new(o[0]).heq(hx) && H::new(o[1]).heq(hx) && H::new(o[5]).heq(hx) && H::new(o[6]).heq(hx), &format!("equal-after-add-sub-turns:{}", key), || format!("{} ± {}", xi, 360 * k));
            if line_budget > 0 && rng.chance(0.02) { line_budget -= 1; out.case(&format!("heq {} | {} {} | {} {}", cfg, x.hx(), y.hx(), b(e1), b(e2))); }
            // a different angle: off by d degrees (not a multiple of 360)
            let d = *rng.pick(&[1i64, -1, 2, 90, 180, -180, 359, -359, 361, 179, 7]);
            let z = T::of((xi + 360 * k + d) as f64);
            let (n1, n2) = (hx.heq(H::new(z)), hx.heq_t(z));
            out.check(!n1 && !n2, &format!("unequal-different-angle:{}", key), || format!("{} vs {} compare equal", xi, xi + 360 * k + d));
            if line_budget > 0 && rng.chance(0.01) { line_budget -= 1; out.case(&format!("heq {} | {} {} | {} {}", cfg, x.hx(), z.hx(), b(n1), b(n2))); }
        }
        out.count("cls:eq:integer-angle");
        xi += int_step;
    }
    if thorough {
        // the full product the property names: every integer angle in ±100000 × every shift in ±100 turns
        let mut nbad = 0u64;
        for xi in -100_000i64..=100_000 { let hx = H::new(T::of(xi as f64)); for k in -100i64..=100 {
            let y = T::of((xi + 360 * k) as f64);
            if !(hx.heq(H::new(y)) && hx.heq_t(y)) { nbad += 1; if nbad <= 3 { out.check(false, &format!("equal-whole-turns-all:{}", key), || format!("{} vs {} + {} turns", xi, xi, k)); } }
        } }
        out.oracle_evals += 200_001 * 201;
        out.count_n("cls:eq:integer-angle-x-turns(full product)", 200_001 * 201);
    }
    // the named identities
    for (a, c) in [(0.0, 360.0), (0.0, -360.0), (360.0, -360.0), (180.0, -180.0), (0.0, -0.0), (540.0, 180.0), (-540.0, 180.0)] {
        let (ha, hc) = (H::new(T::of(a)), H::new(T::of(c)));
        let (e1, e2) = (ha.heq(hc), hc.heq_t(T::of(a)));
        out.check(e1 && e2, &format!("equal-named:{}", key), || format!("{} vs {}", a, c));
        out.case(&format!("heq {} | {} {} | {} {}", cfg, T::of(a).hx(), T::of(c).hx(), b(e1), b(ha.heq_t(T::of(c)))));
    }
    // general pairs: exact circular distance decides which clause applies
    let pairs = if thorough { 200_000 } else { 20_000 };
    for i in 0..pairs {
        let x = *rng.pick(&xs);
        let k = rng.below(201) as f64 - 100.0;
        let y: T = match i % 6 {
            0 => match T::exact_from_f64(x.to64() + 360.0 * k) { Some(y) if (x.to64() + 360.0 * k) - 360.0 * k == x.to64() => y, _ => continue }, // exactly representable shift
            1 => T::of(x.to64() + 360.0 * k).nudge(rng.below(7) as i64 - 3),
            2 => T::of(x.to64() + 360.0 * k + rng.range(-1e-3, 1e-3)),
            3 => x.nudge(rng.below(5) as i64 - 2),
            4 => *rng.pick(&xs),
            _ => T::of(x.to64() + 360.0 * k + rng.range(-200.0, 200.0)),
        };
        if y.to64().abs() > LIMIT { continue; }
        let dist = resid360(x.to64(), y.to64());
        let (e1, e2) = (H::new(x).heq(H::new(y)), H::new(x).heq_t(y));
        if dist == 0.0 {
            out.check(e1 && e2, &format!("equal-exact-shift:{}", key), || format!("{} ({:e}) vs {} ({:e})", x.hx(), x.to64(), y.hx(), y.to64()));
            out.count("cls:eq:exactly-congruent");
        } else if dist > x.ulp() + y.ulp() + T::of(360.0).ulp() + 360.0 * T::tiny() {
            out.check(!e1 && !e2, &format!("unequal-beyond-rounding:{}", key), || format!("{} ({:e}) vs {} ({:e}) dist {:e}", x.hx(), x.to64(), y.hx(), y.to64(), dist));
            out.count("cls:eq:beyond-rounding");
        } else { out.count("cls:eq:within-rounding(no-claim)"); }
        out.check(e1 == e2 && e1 == H::new(y).heq(H::new(x)), &format!("eq-forms-agree:{}", key), || format!("{} vs {}", x.hx(), y.hx()));
        if i % 4 == 0 { out.case(&format!("heq {} | {} {} | {} {}", cfg, x.hx(), y.hx(), b(e1), b(e2))); }
    }
    // ---- Add / Sub in all their forms act on the stored angle
    for i in 0..(if thorough { 20_000 } else { 2_000 }) {
        let (x, y) = (*rng.pick(&xs), *rng.pick(&xs));
        let o = H::new(x).ops(y);
        let same = |a: T, c: T| a.bits64() == c.bits64() || (a.is_nan_() && c.is_nan_());
        out.check(same(o[0], o[1]) && same(o[0], o[3]) && same(o[0], o[4]) && same(o[5], o[6]) && same(o[5], o[8]) && same(o[5], o[9]), &format!("add-sub-forms-agree:{}", key), || format!("{} {}", x.hx(), y.hx()));
        if i % 2 == 0 { out.case(&format!("hops {} | {} {} | {}", cfg, x.hx(), y.hx(), hx_list(&o))); }
    }
    // ---- from_radians
    for _ in 0..(if thorough { 20_000 } else { 2_000 }) {
        let r = T::of(match rng.below(4) { 0 => rng.range(-7.0, 7.0), 1 => rng.range(-2e4, 2e4), 2 => std::f64::consts::PI * (rng.below(17) as f64 - 8.0) / 4.0, _ => 10f64.powf(rng.range(-30.0, 4.0)) });
        let h = H::from_rad(r); let d = h.rawdeg();
        let want = r.to64() * (180.0 / std::f64::consts::PI);
        out.check((d.to64() - want).abs() <= 4.0 * T::eps() * want.abs() + T::tiny(), &format!("from-radians:{}", key), || format!("{} ({:e}) -> {:e} want {:e}", r.hx(), r.to64(), d.to64(), want));
        let back = h.rawrad();
        out.check((back.to64() - r.to64()).abs() <= 4.0 * T::eps() * r.to64().abs() + T::tiny(), &format!("radians-roundtrip:{}", key), || format!("{} -> {} -> {}", r.hx(), d.hx(), back.hx()));
        out.case(&format!("hrad {} | {} | {}", cfg, r.hx(), d.hx()));
    }
    // ---- cartesian: direction -> hue -> unit vector
    let ndir = if thorough { 100_000 } else { 10_000 };
    let slack = 2.0 * T::slack_edge();
    for i in 0..ndir {
        let th = match i % 8 { 0 => (rng.below(16) as f64) * std::f64::consts::PI / 8.0, 1 => (rng.below(16) as f64) * std::f64::consts::PI / 8.0 + rng.range(-1e-6, 1e-6), _ => rng.range(-std::f64::consts::PI, std::f64::consts::PI) };
        let rad = match i % 5 { 0 => 1.0, 1 => 10f64.powf(rng.range(-6.0, 6.0)), 2 => 10f64.powf(rng.range(-20.0, 20.0)), 3 => 100.0 * rng.unit(), _ => 0.4 };
        let (mut a, mut bb) = (T::of(rad * th.cos()), T::of(rad * th.sin()));
        if i % 16 == 0 { match rng.below(4) { 0 => a = T::of(0.0), 1 => bb = T::of(0.0), 2 => a = T::of(-0.0), _ => bb = T::of(-0.0) } }
        let hyp = a.to64().hypot(bb.to64());
        let h = H::from_cart(a, bb);
        let (ca, cb) = h.cart();
        let hd = h.rawdeg().to64();
        if hyp > 0.0 && hyp.is_finite() {
            let (wa, wb) = (a.to64() / hyp, bb.to64() / hyp);
            let err = (ca.to64() - wa).abs().max((cb.to64() - wb).abs());
            out.check(err <= slack, &format!("cartesian-direction:{}", key), || format!("({:e}, {:e}) -> hue {:e} -> ({:e}, {:e}) want ({:e}, {:e})", a.to64(), bb.to64(), hd, ca.to64(), cb.to64(), wa, wb));
            out.maxi(&format!("cartesian-direction-err:{}", T::TAG), err);
            // documented: normalised to [0, 360] (the closed end is the rounding of 2π·180/π)
            out.check(hd >= 0.0 && hd <= 360.0 + T::of(360.0).ulp(), &format!("cartesian-hue-range:{}", key), || format!("({:e}, {:e}) -> hue {:e}", a.to64(), bb.to64(), hd));
            out.count("cls:cart:direction");
        } else { out.count("cls:cart:zero-vector(no-claim)"); }
        if i % 2 == 0 { out.case(&format!("hcart {} | {} {} | {} {} {}", cfg, a.hx(), bb.hx(), h.rawdeg().hx(), ca.hx(), cb.hx())); }
    }
    // hue -> unit vector -> hue (scaled by a radius): back on the same angle; measured, and checked at the theorem's
    // statement (C11.from_into_cartesian) with the route's slack expressed as an angle
    for i in 0..ndir / 4 {
        let x = if i % 2 == 0 { T::of(rng.range(-720.0, 720.0)) } else { *rng.pick(&xs) };
        let h = H::new(x); let (ca, cb) = h.cart();
        let rad = T::of(10f64.powf(rng.range(-3.0, 3.0)));
        let (a, bb) = (T::of(ca.to64() * rad.to64()), T::of(cb.to64() * rad.to64()));
        let back = H::from_cart(a, bb).rawdeg();
        let dist = resid360(x.to64(), back.to64());
        out.maxi(&format!("hue-cartesian-hue-err-over-tol:{}", T::TAG), dist / (2.0 * x.ulp() + 360.0 * slack));
        if x.to64().abs() <= 720.0 { out.check(dist <= 2.0 * x.ulp() + 360.0 * slack, &format!("hue-cartesian-hue:{}", key), || format!("{} ({:e}) -> ({:e},{:e}) -> {:e}", x.hx(), x.to64(), a.to64(), bb.to64(), back.to64())); }
        if i % 4 == 0 { out.case(&format!("hcart2 {} | {} | {} {}", cfg, x.hx(), ca.hx(), cb.hx())); }
    }
    // ---- u8: every 8-bit hue is reproduced; the circle maps onto 0..=255 with wrap-around
    let mut seen = [false; 256];
    for n in 0..=255u8 {
        let f = H::of_u8(n);
        let back = f.to_u8();
        out.check(back == n, &format!("u8-roundtrip:{}", key), || format!("{} -> {} ({:e}) -> {}", n, f.raw().hx(), f.raw().to64(), back));
        out.check((f.raw().to64() - n as f64 * 360.0 / 256.0).abs() == 0.0, &format!("u8-to-float-exact:{}", key), || format!("{} -> {:e}", n, f.raw().to64()));
        out.case(&format!("hu8 {} | {} | {}", cfg, n, f.raw().hx()));
        out.case(&format!("hfu8 {} | {} | {}", cfg, f.raw().hx(), back));
        // whole turns away (exactly representable: multiples of 2^-5 below 2^17)
        for k in [-3i64, -1, 1, 2, 100, -100] {
            let y = T::of(f.raw().to64() + 360.0 * k as f64);
            let c = H::new(y).to_u8();
            out.check(c == n, &format!("u8-wraps-whole-turns:{}", key), || format!("{} + {} turns ({:e}) -> {}", n, k, y.to64(), c));
        }
        seen[back as usize] = true;
    }
    out.check(seen.iter().all(|s| *s), &format!("u8-onto:{}", key), || "some code is never produced".to_string());
    let mut sorted: Vec<T> = vec![];
    for (i, &x) in xs.iter().enumerate() {
        let c = H::new(x).to_u8();
        let want = resid_code(x.to64());
        let d = { let d = (c as f64 - want).abs(); d.min(256.0 - d) };
        let sl = 256.0 / 360.0 * tol(x) + 4.0 * T::of(256.0).ulp();
        out.check(d <= 0.5 + sl, &format!("u8-nearest-code:{}", key), || format!("{} ({:e}) -> {} (256·frac(x/360) = {:e})", x.hx(), x.to64(), c, want));
        if c == 0 && want > 128.0 { out.count("cls:u8:wrap-256-to-0"); } else { out.count("cls:u8:plain"); }
        if i % 6 == 0 { out.case(&format!("hfu8 {} | {} | {}", cfg, x.hx(), c)); }
        if x.to64() >= 0.0 && x.to64() < 359.29 { sorted.push(x); }
    }
    for j in 0..=(if thorough { 200_000 } else { 20_000 }) { let x = T::of(359.29 * j as f64 / (if thorough { 200_000.0 } else { 20_000.0 })); sorted.push(x); }
    for n in 0..=255 { let edge = T::of((n as f64 + 0.5) * 360.0 / 256.0); for d in -2..=2 { let x = edge.nudge(d); if x.to64() < 359.29 { sorted.push(x); } let c = H::new(x).to_u8(); out.case(&format!("hfu8 {} | {} | {}", cfg, x.hx(), c)); } }
    sorted.sort_by(|p, q| p.to64().partial_cmp(&q.to64()).unwrap());
    let mut prev: Option<(T, u8)> = None;
    for x in sorted {
        let c = H::new(x).to_u8();
        if let Some((px, pc)) = prev { out.check(pc <= c, &format!("u8-monotone-below-wrap:{}", key), || format!("{:e} -> {} but {:e} -> {}", px.to64(), pc, x.to64(), c)); }
        prev = Some((x, c));
    }
    for x in [f64::NAN, f64::INFINITY, f64::NEG_INFINITY] { let x = T::of(x); out.case(&format!("hfu8 {} | {} | {}", cfg, x.hx(), H::new(x).to_u8())); }
}

/// 256·frac(x/360) in [0, 256), exact reduction first (fma), for the u8 clause
fn resid_code(x: f64) -> f64 {
    let k = (x / 360.0).floor();
    let mut r = (-360.0f64).mul_add(k, x);
    if r < 0.0 { r += 360.0; } if r >= 360.0 { r -= 360.0; }
    r * 256.0 / 360.0
}

/// `angle/wide.rs`: the SIMD angle types carry the same formulas lane-wise; the property's predicate is applied to every lane
/// (and lanes are compared with the scalar result: counted, a difference would be a different rounding, not a violation)
fn wide_lanes(out: &mut Out, rng: &mut Rng, n_rand: usize) {
    use palette::angle::{AngleEq, SignedAngle, UnsignedAngle};
    use wide::{f32x4, f32x8, f64x2, f64x4};
    let mut st = NormStats::default();
    macro_rules! lanes { ($vt:ident, $t:ty, $n:expr, $xs:expr) => { {
        let xs: &Vec<$t> = $xs;
        for chunk in xs.chunks_exact($n) {
            let arr: [$t; $n] = chunk.try_into().unwrap();
            let v = $vt::from(arr);
            let (s, u) = (RgbHue::new(v).into_degrees().to_array(), LabHue::new(v).into_positive_degrees().to_array());
            let (s2, u2) = (v.normalize_signed_angle().to_array(), v.normalize_unsigned_angle().to_array());
            // equality lane-wise: each lane against itself one turn on (exact for these lanes only when representable)
            let shifted: [$t; $n] = core::array::from_fn(|i| arr[i] + 360.0);
            let m = v.angle_eq(&$vt::from(shifted)).to_array();
            for i in 0..$n {
                if let Some(c) = norm_oracle(arr[i], s[i], u[i], &mut st) { out.check(false, &format!("{}:{}", c, stringify!($vt)), || format!("lane {} = {:e} -> signed {:e} unsigned {:e}", i, arr[i], s[i], u[i])); } else { out.oracle_evals += 4; }
                let same = s[i].to_bits() == RgbHue::new(arr[i]).into_degrees().to_bits() && u[i].to_bits() == RgbHue::new(arr[i]).into_positive_degrees().to_bits() && s2[i].to_bits() == s[i].to_bits() && u2[i].to_bits() == u[i].to_bits();
                out.count(if same { concat!("cls:wide:", stringify!($vt), ":lane=scalar") } else { concat!("cls:wide:", stringify!($vt), ":lane!=scalar") });
                // the shift is exact iff the TwoSum error term (in the lane's own precision) vanishes
                let (sx, xx) = (shifted[i], arr[i]); let bb = sx - xx; let err = (xx - (sx - bb)) + (360.0 - bb);
                if err == 0.0 && (arr[i] as f64).abs() <= LIMIT - 360.0 {
                    out.check(m[i].to_bits() != 0, concat!("equal-whole-turns:", stringify!($vt)), || format!("lane {} = {:e} vs +360", i, arr[i]));
                }
            }
        }
    } } }
    let x32: Vec<f32> = angles::<f32>(rng, n_rand, 41);
    let x64: Vec<f64> = angles::<f64>(rng, n_rand, 41);
    lanes!(f32x4, f32, 4, &x32); lanes!(f32x8, f32, 8, &x32); lanes!(f64x2, f64, 2, &x64); lanes!(f64x4, f64, 4, &x64);
}

macro_rules! fmt_lines { ($out:expr, $rng:expr, $n:expr, $($name:ident),*) => { $(
    for i in 0..$n {
        let x = if i % 2 == 0 { $rng.range(-1000.0, 1000.0) } else { f64::from_bits($rng.next()) };
        let x32 = x as f32;
        let w = $name::<f32>::new(x32).into_format::<f64>().into_inner();
        $out.check(w == x32 as f64 || (w.is_nan() && x32.is_nan()), concat!("into-format-f32-f64:", stringify!($name)), || format!("{:e} -> {:e}", x32, w));
        $out.case(&format!("hfmt {} f32 | {} | {}", stringify!($name), h32(x32), h64(w)));
        let n = $name::<f64>::new(x).into_format::<f32>().into_inner();
        $out.check(n.to_bits() == (x as f32).to_bits() || (n.is_nan() && x.is_nan()), concat!("into-format-f64-f32:", stringify!($name)), || format!("{:e} -> {:e}", x, n));
        $out.case(&format!("hfmt {} f64 | {} | {}", stringify!($name), h64(x), h32(n)));
        let back = $name::<f32>::from_format($name::<f64>::new(x32 as f64)).into_inner();
        $out.check(back.to_bits() == x32.to_bits() || x32.is_nan(), concat!("format-roundtrip:", stringify!($name)), || format!("{:e}", x32));
    }
    // u8 hues compare as integers
    for n in 0..=255u8 { let h = $name::<u8>::new(n); $out.check(h == $name::<u8>::new(n) && h != $name::<u8>::new(n.wrapping_add(1)) && h == n && u8::from(h) == n, concat!("u8-hue-eq:", stringify!($name)), || n.to_string()); }
)* } }

/// `f32::from(hue)` / `f64::from(hue)` for hues of either precision: the signed normal form of the STORED angle, then (for the cross-
/// precision pairs) converted to the other float type — congruent to the stored angle modulo 360 within the rounding error of the stored
/// angle plus one rounding of the result, and within [-180, 180] up to that rounding
macro_rules! plain_from { ($out:expr, $rng:expr, $n:expr, $($name:ident),*) => {{ $(
    let mut xs: Vec<f64> = vec![0.0, 180.0, -180.0, 360.0, -360.0, 179.99999999, -179.99999999, 540.0, 999_999.97, -999_999.97, 1_000_000.0, 123_456.789, 1e-30, -1e-30];
    for _ in 0..$n { xs.push($rng.range(-1_048_576.0, 1_048_576.0)); xs.push($rng.range(-720.0, 720.0)); }
    for &x in &xs {
        let x32 = x as f32;
        let cong = |r: f64, stored: f64, tol: f64| { let d = (r - stored) / 360.0; ((d - d.round()).abs() * 360.0) <= tol };
        // stored f64, read as f32 / f64
        let a: f32 = f32::from($name::<f64>::new(x)); let b: f64 = f64::from($name::<f64>::new(x));
        // stored f32, read as f64 / f32
        let c: f64 = f64::from($name::<f32>::new(x32)); let d: f32 = f32::from($name::<f32>::new(x32));
        let e64 = x.abs().max(360.0) * f64::EPSILON * 4.0; let e32s = (x32.abs().max(360.0) as f64) * (f32::EPSILON as f64) * 4.0; let r32 = 180.0 * (f32::EPSILON as f64);
        let name = stringify!($name);
        $out.check(cong(a as f64, x, e64 + r32) && (a as f64).abs() <= 180.0 + r32, &format!("plain-from:f64->f32:{}", name), || format!("f32::from({}::<f64>::new({:e})) = {:e}", name, x, a));
        $out.check(cong(b, x, e64) && b.abs() <= 180.0 + e64 && b == $name::<f64>::new(x).into_degrees(), &format!("plain-from:f64->f64:{}", name), || format!("f64::from({}::<f64>::new({:e})) = {:e}", name, x, b));
        $out.check(cong(c, x32 as f64, e32s) && c.abs() <= 180.0 + e32s && c == $name::<f32>::new(x32).into_degrees() as f64, &format!("plain-from:f32->f64:{}", name), || format!("f64::from({}::<f32>::new({:e})) = {:e}", name, x32, c));
        $out.check(d.to_bits() == $name::<f32>::new(x32).into_degrees().to_bits(), &format!("plain-from:f32->f32:{}", name), || format!("f32::from({}::<f32>::new({:e})) = {:e}", name, x32, d));
        $out.count("cls:plain-from");
    }
)* }} }

pub fn run(tier: &str, seed: u64, dir: &str) {
    let mut out = Out::new("C11", dir);
    let mut rng = Rng::new(seed);
    macro_rules! all { ($($name:ident),*) => { $( run_cfg::<f32, $name<f32>>(&mut out, &mut rng, tier); run_cfg::<f64, $name<f64>>(&mut out, &mut rng, tier); )* } }
    all!(RgbHue, LabHue, LuvHue, OklabHue, Cam16Hue);
    fmt_lines!(out, rng, if tier == "thorough" { 4000 } else { 400 }, RgbHue, LabHue, LuvHue, OklabHue, Cam16Hue);

    wide_lanes(&mut out, &mut rng, if tier == "thorough" { 20_000 } else { 2_000 });
    plain_from!(out, rng, if tier == "thorough" { 20_000 } else { 1_000 }, RgbHue, LabHue, LuvHue, OklabHue, Cam16Hue);
    // the rotation constants through the public API (cross-check of the extracted/modelled literals)
    {
        use palette::angle::{FullRotation, HalfRotation};
        for name in ["RgbHue", "LabHue", "LuvHue", "OklabHue", "Cam16Hue"] {
            out.case(&format!("hconst {} f32 | | {} {}", name, h32(<f32 as HalfRotation>::half_rotation()), h32(<f32 as FullRotation>::full_rotation())));
            out.case(&format!("hconst {} f64 | | {} {}", name, h64(<f64 as HalfRotation>::half_rotation()), h64(<f64 as FullRotation>::full_rotation())));
        }
        out.case(&format!("hconst u8 | | {}", <u8 as HalfRotation>::half_rotation()));
    }
    // the forms / entry points / SIMD component types not driven above (coverage audit): `c11_more.rs`.  Called last, so that the case stream above is unchanged.
    crate::c11_more::run_more(&mut out, &mut rng, tier);
    let mut extra = String::new();
    if tier == "thorough" {
        // every f32 bit pattern with |x| ≤ 2^20, each of the five hue types
        let mut parts = vec![];
        macro_rules! scan { ($($name:ident),*) => { $( let st = scan_f32::<$name<f32>>(&mut out); parts.push(format!("\"{}\":{}", stringify!($name), st.json())); )* } }
        scan!(RgbHue, LabHue, LuvHue, OklabHue, Cam16Hue);
        extra = format!("\"exhaustive\":{{{}}}", parts.join(","));
    }
    out.finish(dir, &extra);
}
