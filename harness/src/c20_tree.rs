//! C20 support: a `Serializer` that records serde's data model as a tree (exactly what a `Serialize` impl tells
//! the serializer, including declared lengths and struct names) and a `Deserializer` over hand-built generic input
//! (ordered map with string or integer identifiers / sequence / scalar), lenient like serde_json (a struct may come
//! as a sequence, a newtype struct is its content).  Neither knows anything about palette.
#![allow(dead_code)]
use crate::common::{h32, h64};
use ::serde::de::{self, DeserializeSeed, IntoDeserializer, MapAccess, SeqAccess, Visitor};
use ::serde::ser::{self, Serialize};
use std::fmt;

// ------------------------------------------------------------------------------------------------ recorded tree
#[derive(Clone, Debug, PartialEq)]
pub enum Node {
    Num(String),
    Newtype(&'static str, Box<Node>),
    Unit,
    UnitStruct(&'static str),
    Seq(Option<usize>, Vec<Node>),
    Tuple(usize, Vec<Node>),
    TupleStruct(&'static str, usize, Vec<Node>),
    Map(Option<usize>, Vec<(Node, Node)>),
    Struct(&'static str, usize, Vec<(&'static str, Node)>),
    Other(String),
}
fn len_s(l: &Option<usize>) -> String { l.map_or("?".to_string(), |n| n.to_string()) }
impl Node {
    /// one protocol token (no spaces)
    pub fn tok(&self) -> String {
        let list = |xs: &Vec<Node>| xs.iter().map(|x| x.tok()).collect::<Vec<_>>().join(",");
        match self {
            Node::Num(s) => s.clone(),
            Node::Newtype(n, v) => format!("N:{}({})", n, v.tok()),
            Node::Unit => "U".into(),
            Node::UnitStruct(n) => format!("US:{}", n),
            Node::Seq(l, xs) => format!("Q:{}[{}]", len_s(l), list(xs)),
            Node::Tuple(l, xs) => format!("T:{}[{}]", l, list(xs)),
            Node::TupleStruct(n, l, xs) => format!("TS:{}:{}[{}]", n, l, list(xs)),
            Node::Map(l, es) => format!("M:{}{{{}}}", len_s(l), es.iter().map(|(k, v)| format!("{}={}", k.tok(), v.tok())).collect::<Vec<_>>().join(",")),
            Node::Struct(n, l, fs) => format!("S:{}:{}{{{}}}", n, l, fs.iter().map(|(k, v)| format!("{}={}", k, v.tok())).collect::<Vec<_>>().join(",")),
            Node::Other(w) => format!("?{}", w),
        }
    }
}

#[derive(Debug)]
pub struct TErr(pub String);
impl fmt::Display for TErr { fn fmt(&self, f: &mut fmt::Formatter) -> fmt::Result { f.write_str(&self.0) } }
impl std::error::Error for TErr {}
impl ser::Error for TErr { fn custom<T: fmt::Display>(m: T) -> Self { TErr(m.to_string()) } }
impl de::Error for TErr { fn custom<T: fmt::Display>(m: T) -> Self { TErr(m.to_string()) } }

pub struct TreeSer;
pub fn record<T: Serialize + ?Sized>(v: &T) -> Result<Node, TErr> { v.serialize(TreeSer) }

pub struct SeqRec { kind: u8, name: &'static str, len: Option<usize>, xs: Vec<Node> }
pub struct MapRec { len: Option<usize>, es: Vec<(Node, Node)>, key: Option<Node> }
pub struct StructRec { name: &'static str, len: usize, fs: Vec<(&'static str, Node)> }

macro_rules! num { ($f:ident, $t:ty) => { fn $f(self, v: $t) -> Result<Node, TErr> { Ok(Node::Num(v.to_string())) } } }
impl ser::Serializer for TreeSer {
    type Ok = Node; type Error = TErr;
    type SerializeSeq = SeqRec; type SerializeTuple = SeqRec; type SerializeTupleStruct = SeqRec; type SerializeTupleVariant = SeqRec;
    type SerializeMap = MapRec; type SerializeStruct = StructRec; type SerializeStructVariant = StructRec;
    num!(serialize_i8, i8); num!(serialize_i16, i16); num!(serialize_i32, i32); num!(serialize_i64, i64);
    num!(serialize_u8, u8); num!(serialize_u16, u16); num!(serialize_u32, u32); num!(serialize_u64, u64); num!(serialize_u128, u128);
    fn serialize_f32(self, v: f32) -> Result<Node, TErr> { Ok(Node::Num(h32(v))) }
    fn serialize_f64(self, v: f64) -> Result<Node, TErr> { Ok(Node::Num(h64(v))) }
    fn serialize_bool(self, _: bool) -> Result<Node, TErr> { Ok(Node::Other("bool".into())) }
    fn serialize_char(self, _: char) -> Result<Node, TErr> { Ok(Node::Other("char".into())) }
    fn serialize_str(self, v: &str) -> Result<Node, TErr> { Ok(Node::Other(format!("str:{}", v))) }
    fn serialize_bytes(self, _: &[u8]) -> Result<Node, TErr> { Ok(Node::Other("bytes".into())) }
    fn serialize_none(self) -> Result<Node, TErr> { Ok(Node::Other("none".into())) }
    fn serialize_some<T: Serialize + ?Sized>(self, _: &T) -> Result<Node, TErr> { Ok(Node::Other("some".into())) }
    fn serialize_unit(self) -> Result<Node, TErr> { Ok(Node::Unit) }
    fn serialize_unit_struct(self, name: &'static str) -> Result<Node, TErr> { Ok(Node::UnitStruct(name)) }
    fn serialize_unit_variant(self, _: &'static str, _: u32, _: &'static str) -> Result<Node, TErr> { Ok(Node::Other("variant".into())) }
    fn serialize_newtype_struct<T: Serialize + ?Sized>(self, name: &'static str, v: &T) -> Result<Node, TErr> { Ok(Node::Newtype(name, Box::new(v.serialize(TreeSer)?))) }
    fn serialize_newtype_variant<T: Serialize + ?Sized>(self, _: &'static str, _: u32, _: &'static str, _: &T) -> Result<Node, TErr> { Ok(Node::Other("variant".into())) }
    fn serialize_seq(self, len: Option<usize>) -> Result<SeqRec, TErr> { Ok(SeqRec { kind: 0, name: "", len, xs: vec![] }) }
    fn serialize_tuple(self, len: usize) -> Result<SeqRec, TErr> { Ok(SeqRec { kind: 1, name: "", len: Some(len), xs: vec![] }) }
    fn serialize_tuple_struct(self, name: &'static str, len: usize) -> Result<SeqRec, TErr> { Ok(SeqRec { kind: 2, name, len: Some(len), xs: vec![] }) }
    fn serialize_tuple_variant(self, _: &'static str, _: u32, _: &'static str, len: usize) -> Result<SeqRec, TErr> { Ok(SeqRec { kind: 3, name: "", len: Some(len), xs: vec![] }) }
    fn serialize_map(self, len: Option<usize>) -> Result<MapRec, TErr> { Ok(MapRec { len, es: vec![], key: None }) }
    fn serialize_struct(self, name: &'static str, len: usize) -> Result<StructRec, TErr> { Ok(StructRec { name, len, fs: vec![] }) }
    fn serialize_struct_variant(self, name: &'static str, _: u32, _: &'static str, len: usize) -> Result<StructRec, TErr> { Ok(StructRec { name, len, fs: vec![] }) }
    fn is_human_readable(&self) -> bool { true }
}
impl SeqRec { fn fin(self) -> Node { match self.kind { 0 => Node::Seq(self.len, self.xs), 1 => Node::Tuple(self.len.unwrap(), self.xs), 2 => Node::TupleStruct(self.name, self.len.unwrap(), self.xs), _ => Node::Other("variant".into()) } } }
impl ser::SerializeSeq for SeqRec { type Ok = Node; type Error = TErr;
    fn serialize_element<T: Serialize + ?Sized>(&mut self, v: &T) -> Result<(), TErr> { self.xs.push(v.serialize(TreeSer)?); Ok(()) }
    fn end(self) -> Result<Node, TErr> { Ok(self.fin()) } }
impl ser::SerializeTuple for SeqRec { type Ok = Node; type Error = TErr;
    fn serialize_element<T: Serialize + ?Sized>(&mut self, v: &T) -> Result<(), TErr> { self.xs.push(v.serialize(TreeSer)?); Ok(()) }
    fn end(self) -> Result<Node, TErr> { Ok(self.fin()) } }
impl ser::SerializeTupleStruct for SeqRec { type Ok = Node; type Error = TErr;
    fn serialize_field<T: Serialize + ?Sized>(&mut self, v: &T) -> Result<(), TErr> { self.xs.push(v.serialize(TreeSer)?); Ok(()) }
    fn end(self) -> Result<Node, TErr> { Ok(self.fin()) } }
impl ser::SerializeTupleVariant for SeqRec { type Ok = Node; type Error = TErr;
    fn serialize_field<T: Serialize + ?Sized>(&mut self, v: &T) -> Result<(), TErr> { self.xs.push(v.serialize(TreeSer)?); Ok(()) }
    fn end(self) -> Result<Node, TErr> { Ok(self.fin()) } }
impl ser::SerializeMap for MapRec { type Ok = Node; type Error = TErr;
    fn serialize_key<T: Serialize + ?Sized>(&mut self, k: &T) -> Result<(), TErr> { self.key = Some(k.serialize(TreeSer)?); Ok(()) }
    fn serialize_value<T: Serialize + ?Sized>(&mut self, v: &T) -> Result<(), TErr> { let k = self.key.take().unwrap_or(Node::Other("nokey".into())); self.es.push((k, v.serialize(TreeSer)?)); Ok(()) }
    fn end(self) -> Result<Node, TErr> { Ok(Node::Map(self.len, self.es)) } }
impl ser::SerializeStruct for StructRec { type Ok = Node; type Error = TErr;
    fn serialize_field<T: Serialize + ?Sized>(&mut self, k: &'static str, v: &T) -> Result<(), TErr> { self.fs.push((k, v.serialize(TreeSer)?)); Ok(()) }
    fn end(self) -> Result<Node, TErr> { Ok(Node::Struct(self.name, self.len, self.fs)) } }
impl ser::SerializeStructVariant for StructRec { type Ok = Node; type Error = TErr;
    fn serialize_field<T: Serialize + ?Sized>(&mut self, k: &'static str, v: &T) -> Result<(), TErr> { self.fs.push((k, v.serialize(TreeSer)?)); Ok(()) }
    fn end(self) -> Result<Node, TErr> { Ok(Node::Other("variant".into())) } }

// ------------------------------------------------------------------------------------------------ generic input
#[derive(Clone, Debug, PartialEq)]
pub enum GV { F32(f32), F64(f64), U(u64), Wrapped(Box<GV>), Other }
#[derive(Clone, Debug, PartialEq)]
pub enum GK { Str(String), Idx(u64) }
#[derive(Clone, Debug, PartialEq)]
pub enum GIn { Val(GV), Seq(Vec<GV>), Map(Vec<(GK, GV)>) }

impl GV {
    pub fn tok(&self) -> String { match self { GV::F32(x) => h32(*x), GV::F64(x) => h64(*x), GV::U(n) => n.to_string(), GV::Wrapped(v) => format!("({})", v.tok()), GV::Other => "?x".into() } }
    pub fn json(&self) -> String { match self { GV::F32(x) => serde_json::to_string(x).unwrap(), GV::F64(x) => serde_json::to_string(x).unwrap(), GV::U(n) => n.to_string(), GV::Wrapped(v) => format!("[{}]", v.json()), GV::Other => "\"x\"".into() } }
    pub fn ron(&self) -> String { match self { GV::F32(x) => ron::to_string(x).unwrap(), GV::F64(x) => ron::to_string(x).unwrap(), GV::U(n) => n.to_string(), GV::Wrapped(v) => format!("({})", v.ron()), GV::Other => "\"x\"".into() } }
}
impl GK { pub fn tok(&self) -> String { match self { GK::Str(s) => s.clone(), GK::Idx(n) => format!("#{}", n) } } }
impl GIn {
    /// protocol tokens: `M k=v …` / `L v …` / `V v`
    pub fn toks(&self) -> String {
        match self {
            GIn::Val(v) => format!("V {}", v.tok()),
            GIn::Seq(xs) => std::iter::once("L".to_string()).chain(xs.iter().map(|x| x.tok())).collect::<Vec<_>>().join(" "),
            GIn::Map(es) => std::iter::once("M".to_string()).chain(es.iter().map(|(k, v)| format!("{}={}", k.tok(), v.tok()))).collect::<Vec<_>>().join(" "),
        }
    }
    pub fn json(&self) -> String {
        match self {
            GIn::Val(v) => v.json(),
            GIn::Seq(xs) => format!("[{}]", xs.iter().map(|x| x.json()).collect::<Vec<_>>().join(",")),
            GIn::Map(es) => format!("{{{}}}", es.iter().map(|(k, v)| format!("\"{}\":{}", k.tok(), v.json())).collect::<Vec<_>>().join(",")),
        }
    }
    pub fn ron(&self) -> String {
        match self {
            GIn::Val(v) => v.ron(),
            GIn::Seq(xs) => format!("({})", xs.iter().map(|x| x.ron()).collect::<Vec<_>>().join(",")),
            GIn::Map(es) => format!("({})", es.iter().map(|(k, v)| format!("{}:{}", k.tok(), v.ron())).collect::<Vec<_>>().join(",")),
        }
    }
    pub fn has_idx(&self) -> bool { matches!(self, GIn::Map(es) if es.iter().any(|(k, _)| matches!(k, GK::Idx(_)))) }
}

/// recorded data-model tree -> what a self-describing reader sees (struct -> map by name), its compact form (struct ->
/// sequence of values) and the by-index form (struct -> map keyed by position)
pub fn leaf(n: &Node) -> GV {
    match n {
        Node::Num(s) => if let Some(h) = s.strip_prefix('x') { GV::F32(f32::from_bits(u32::from_str_radix(h, 16).unwrap())) }
                        else if let Some(h) = s.strip_prefix('X') { GV::F64(f64::from_bits(u64::from_str_radix(h, 16).unwrap())) }
                        else { s.parse::<u64>().map(GV::U).unwrap_or(GV::Other) },
        Node::Newtype(_, v) => leaf(v),      // lenient reader: a newtype struct is its content
        _ => GV::Other,
    }
}
pub fn as_map(n: &Node) -> Option<GIn> { if let Node::Struct(_, _, fs) = n { Some(GIn::Map(fs.iter().map(|(k, v)| (GK::Str(k.to_string()), leaf(v))).collect())) } else { None } }
pub fn as_seq(n: &Node) -> Option<GIn> { if let Node::Struct(_, _, fs) = n { Some(GIn::Seq(fs.iter().map(|(_, v)| leaf(v)).collect())) } else { None } }
pub fn as_idx(n: &Node) -> Option<GIn> { if let Node::Struct(_, _, fs) = n { Some(GIn::Map(fs.iter().enumerate().map(|(i, (_, v))| (GK::Idx(i as u64), leaf(v))).collect())) } else { None } }

// ------------------------------------------------------------------------------------------------ deserializer
/// `bounded`: a struct/tuple read from a sequence sees exactly the announced number of elements (bincode/postcard
/// style); otherwise the whole sequence (serde_json style) and left-over elements are an error afterwards.
pub struct TreeDe<'a> { pub input: &'a GIn, pub bounded: bool }
struct ValDe<'a>(&'a GV);
struct KeyDe<'a>(&'a GK);
struct SeqAcc<'a> { xs: &'a [GV], i: usize, limit: usize }
struct MapAcc<'a> { es: &'a [(GK, GV)], i: usize }

impl<'de, 'a> SeqAccess<'de> for SeqAcc<'a> { type Error = TErr;
    fn next_element_seed<T: DeserializeSeed<'de>>(&mut self, seed: T) -> Result<Option<T::Value>, TErr> {
        if self.i >= self.xs.len() || self.i >= self.limit { return Ok(None); }
        self.i += 1; seed.deserialize(ValDe(&self.xs[self.i - 1])).map(Some) } }
impl<'de, 'a> MapAccess<'de> for MapAcc<'a> { type Error = TErr;
    fn next_key_seed<K: DeserializeSeed<'de>>(&mut self, seed: K) -> Result<Option<K::Value>, TErr> {
        if self.i >= self.es.len() { return Ok(None); }
        seed.deserialize(KeyDe(&self.es[self.i].0)).map(Some) }
    fn next_value_seed<V: DeserializeSeed<'de>>(&mut self, seed: V) -> Result<V::Value, TErr> { self.i += 1; seed.deserialize(ValDe(&self.es[self.i - 1].1)) } }

impl<'a> TreeDe<'a> {
    fn seq<'de, V: Visitor<'de>>(self, announced: Option<usize>, v: V) -> Result<V::Value, TErr> {
        match self.input {
            GIn::Seq(xs) => {
                let limit = if self.bounded { announced.unwrap_or(usize::MAX) } else { usize::MAX };
                let mut acc = SeqAcc { xs, i: 0, limit };
                let r = v.visit_seq(&mut acc)?;
                if acc.i < xs.len() { return Err(TErr("trailing characters".into())); }
                Ok(r)
            }
            _ => Err(TErr("invalid type: expected a sequence".into())),
        }
    }
}
impl<'de, 'a> de::Deserializer<'de> for TreeDe<'a> {
    type Error = TErr;
    fn deserialize_any<V: Visitor<'de>>(self, v: V) -> Result<V::Value, TErr> {
        match self.input { GIn::Val(x) => ValDe(x).deserialize_any(v), GIn::Seq(_) => self.seq(None, v), GIn::Map(es) => v.visit_map(MapAcc { es, i: 0 }) } }
    fn deserialize_struct<V: Visitor<'de>>(self, _: &'static str, fields: &'static [&'static str], v: V) -> Result<V::Value, TErr> {
        match self.input { GIn::Map(es) => v.visit_map(MapAcc { es, i: 0 }), GIn::Seq(_) => self.seq(Some(fields.len()), v), GIn::Val(_) => Err(TErr("invalid type: expected struct".into())) } }
    fn deserialize_map<V: Visitor<'de>>(self, v: V) -> Result<V::Value, TErr> {
        match self.input { GIn::Map(es) => v.visit_map(MapAcc { es, i: 0 }), _ => Err(TErr("invalid type: expected map".into())) } }
    fn deserialize_seq<V: Visitor<'de>>(self, v: V) -> Result<V::Value, TErr> { self.seq(None, v) }
    fn deserialize_tuple<V: Visitor<'de>>(self, len: usize, v: V) -> Result<V::Value, TErr> { self.seq(Some(len), v) }
    fn deserialize_tuple_struct<V: Visitor<'de>>(self, _: &'static str, len: usize, v: V) -> Result<V::Value, TErr> { self.seq(Some(len), v) }
    fn deserialize_newtype_struct<V: Visitor<'de>>(self, _: &'static str, v: V) -> Result<V::Value, TErr> { v.visit_newtype_struct(self) }
    fn deserialize_f32<V: Visitor<'de>>(self, v: V) -> Result<V::Value, TErr> { match self.input { GIn::Val(x) => ValDe(x).deserialize_any(v), _ => Err(TErr("invalid type: expected number".into())) } }
    fn deserialize_f64<V: Visitor<'de>>(self, v: V) -> Result<V::Value, TErr> { self.deserialize_f32(v) }
    fn deserialize_u8<V: Visitor<'de>>(self, v: V) -> Result<V::Value, TErr> { self.deserialize_f32(v) }
    fn deserialize_u16<V: Visitor<'de>>(self, v: V) -> Result<V::Value, TErr> { self.deserialize_f32(v) }
    fn deserialize_u32<V: Visitor<'de>>(self, v: V) -> Result<V::Value, TErr> { self.deserialize_f32(v) }
    fn deserialize_u64<V: Visitor<'de>>(self, v: V) -> Result<V::Value, TErr> { self.deserialize_f32(v) }
    ::serde::forward_to_deserialize_any! { bool i8 i16 i32 i64 i128 u128 char str string bytes byte_buf option unit unit_struct enum identifier ignored_any }
}
impl<'de, 'a> de::Deserializer<'de> for ValDe<'a> {
    type Error = TErr;
    fn deserialize_any<V: Visitor<'de>>(self, v: V) -> Result<V::Value, TErr> {
        match self.0 { GV::F32(x) => v.visit_f32(*x), GV::F64(x) => v.visit_f64(*x), GV::U(n) => v.visit_u64(*n),
            GV::Wrapped(inner) => { let xs = [(**inner).clone()]; let mut acc = SeqAcc { xs: &xs, i: 0, limit: usize::MAX }; let r = v.visit_seq(&mut acc)?; if acc.i < 1 { return Err(TErr("trailing characters".into())); } Ok(r) }
            GV::Other => v.visit_str("x") } }
    fn deserialize_newtype_struct<V: Visitor<'de>>(self, _: &'static str, v: V) -> Result<V::Value, TErr> { v.visit_newtype_struct(self) }
    ::serde::forward_to_deserialize_any! { bool i8 i16 i32 i64 i128 u8 u16 u32 u64 u128 f32 f64 char str string bytes byte_buf option unit unit_struct seq tuple tuple_struct map struct enum identifier ignored_any }
}
impl<'de, 'a> de::Deserializer<'de> for KeyDe<'a> {
    type Error = TErr;
    fn deserialize_any<V: Visitor<'de>>(self, v: V) -> Result<V::Value, TErr> { match self.0 { GK::Str(s) => v.visit_str(s), GK::Idx(n) => v.visit_u64(*n) } }
    ::serde::forward_to_deserialize_any! { bool i8 i16 i32 i64 i128 u8 u16 u32 u64 u128 f32 f64 char str string bytes byte_buf option unit unit_struct newtype_struct seq tuple tuple_struct map struct enum identifier ignored_any }
}
#[allow(unused)]
fn _unused() { let _ = 1u8.into_deserializer() as de::value::U8Deserializer<TErr>; }
