//! C18, second part (coverage audit, see AUDIT_C18.md): what lies inside the property's quantifier and is not executed by `c18.rs`.
//!
//!  1. READ / WRITE PATHS OF THE ITEMS (`macros/reference_component.rs`, `hues.rs:162-212`) — separate code, generated per colour type:
//!     the items of `get`, `get_mut`, `iter`, `iter_mut` and of a ranged `get(..).into_iter()` are colours of references (`Color<&T>`,
//!     `Color<&mut T>`, `Alpha<Color<&T>, &A>`, `Alpha<Color<&mut T>, &mut A>`).  `c18.rs` reads every one of them through `.copied()` and
//!     writes through `.set(..)`; the sibling functions `.cloned()` (four impl blocks per type), `.as_refs()` (two per type) and the hue's
//!     `cloned()` / `as_ref()` never ran.  Here the whole history language is interpreted a second time with the reads going through
//!     `cloned()` and `as_refs()`, for all 26 types x {plain, Alpha}: oracle `same-observations:cloned-reads:<cfg>` /
//!     `equal-lengths:cloned-reads:<cfg>` against `Vec<Color>` (the property's own predicate: the same items), `reads-agree:<path>:<cfg>`
//!     (uncovered read path = covered read path `copied()`, bit for bit, which names the path that broke), and the history with THESE
//!     observations goes to the Lean driver as an ordinary `soa` line (column model, list reference, nested Alpha model).
//!  2. TYPE PARAMETERS AND COMPONENT TYPES that `c18.rs` never instantiates: a non-default RGB standard (`Rgb<Linear<Srgb>>`), luma
//!     standard (`Luma<Linear<D65>>`), white point (`Lab<D50>`, `Lchuv<D50>`), LMS matrix (`Lms<VonKries>`), 16-bit integer components
//!     (`Rgb<_, u16>`), an integer HUE collection (`Hsv<_, u8>`: `RgbHue<Vec<u8>>`), `f64` for a CAM16 partial type.  The collection code is
//!     generic in all of these (the parameter is a `PhantomData` field), so this is one more monomorphisation of the same macro text, run
//!     through the complete treatment of `c18.rs` (`soa_type!`, boundary stream + random histories, shrinking, `soa` lines).
//!  3. LONG `extend` / `collect` (100 .. 300 colours at once; `c18.rs` hands over at most 8 at a time), through exact and inexact size hints,
//!     followed by a drain of a long window, on every configuration.
//!
//!  4. THE PROVIDED ITERATOR METHODS (`nth`, `nth_back`, `skip`, `step_by`, `last`, `count`, `fold`, `rfold`, `position`, `zip`, `rev().nth`, ..): std derives them
//!     from `next` / `next_back` unless the implementation overrides one; `c18.rs` calls `next`, `next_back`, `len`, `size_hint`, `count` only.  Every iterator
//!     the collections hand out (`iter`, `iter_mut`, `into_iter` of `&` / `&mut` / owned, `get(range)` / `get_mut(range)`, `drain(range)`; fresh and partially
//!     consumed) goes through 34 adapters, and so does the same iterator of `Vec<Color>`: `provided-methods:<form>:<cfg>` (same observations, exactly) and
//!     `provided-methods-left-behind:<form>:<cfg>` (same collection afterwards, equal component lengths); all 26 types x {plain, Alpha}, and `drain` of
//!     the mixed-alpha collections.
//!
//! No clause demands more than `c18.rs` does: each is the comparison with `Vec<Color>` subjected to the same history, tolerance 0.
#![allow(unused_mut, unused_assignments, unused_variables)]
use crate::c18::*;
use crate::common::*;
use palette::cam16::{Cam16Jch, Cam16Jmh, Cam16Jsh, Cam16Qch, Cam16Qmh, Cam16Qsh, Cam16UcsJab, Cam16UcsJmh};
use palette::encoding::{Linear, Srgb};
use palette::hues::{Cam16Hue, LabHue, LuvHue, OklabHue, RgbHue};
use palette::lms::matrix::VonKries;
use palette::lms::Lms;
use palette::luma::Luma;
use palette::rgb::Rgb;
use palette::white_point::{D50, D65};
use palette::{Alpha, Hsl, Hsluv, Hsv, Hwb, Lab, Lch, Lchuv, Luv, Okhsl, Okhsv, Okhwb, Oklab, Oklch, Xyz, Yxy};
use std::marker::PhantomData;
use std::panic::{catch_unwind, AssertUnwindSafe};

// ------------------------------------------------------------------------------------------------ 2. further configurations
type LinSrgb = Linear<Srgb>;
type LinD65 = Linear<D65>;
soa_type!(m_rgblin32, "Rgb", f32, Rgb<LinSrgb>, hue [], elems [red, green, blue], phantom [standard]);
soa_type!(m_rgb16, "Rgb", u16, Rgb<Srgb>, hue [], elems [red, green, blue], phantom [standard]);
soa_type!(m_hsv8, "Hsv", u8, Hsv<Srgb>, hue [RgbHue], elems [saturation, value], phantom [standard]);
soa_type!(m_hsllin64, "Hsl", f64, Hsl<LinSrgb>, hue [RgbHue], elems [saturation, lightness], phantom [standard]);
soa_type!(m_lumalin64, "Luma", f64, Luma<LinD65>, hue [], elems [luma], phantom [standard]);
soa_type!(m_lab50, "Lab", f64, Lab<D50>, hue [], elems [l, a, b], phantom [white_point]);
soa_type!(m_lchuv50, "Lchuv", f32, Lchuv<D50>, hue [LuvHue], elems [l, chroma], phantom [white_point]);
soa_type!(m_lmsvk, "Lms", f64, Lms<VonKries>, hue [], elems [long, medium, short], phantom [meta]);
soa_type!(m_cjch64, "Cam16Jch", f64, Cam16Jch<>, hue [Cam16Hue], elems [lightness, chroma], phantom []);

fn more_cfgs() -> Vec<(&'static str, Vec<Cfg>)> {
    vec![("Rgb<Linear<Srgb>,f32>", m_rgblin32::cfgs()), ("Rgb<Srgb,u16>", m_rgb16::cfgs()), ("Hsv<Srgb,u8>", m_hsv8::cfgs()), ("Hsl<Linear<Srgb>,f64>", m_hsllin64::cfgs()),
         ("Luma<Linear<D65>,f64>", m_lumalin64::cfgs()), ("Lab<D50,f64>", m_lab50::cfgs()), ("Lchuv<D50,f32>", m_lchuv50::cfgs()), ("Lms<VonKries,f64>", m_lmsvk::cfgs()),
         ("Cam16Jch<f64>", m_cjch64::cfgs())]
}

// ------------------------------------------------------------------------------------------------ 1. the other read paths
/// what the interpreter below returns: the observations (reads through `cloned()` / `as_refs()`), the component lengths, and every
/// disagreement between an uncovered read path and the covered one (`copied()`): (operation index, path, detail)
pub struct PTrace { pub tr: Trace, pub bad: Vec<(usize, &'static str, String)> }
pub struct PCfg { pub cfg: Cfg, pub run_paths: fn(&[Op]) -> PTrace, pub run_provided: fn(&mut Out, &mut Rng, usize, &str) }

fn agree<X: PartialEq + std::fmt::Debug>(bad: &mut Vec<(usize, &'static str, String)>, ix: usize, path: &'static str, covered: &X, x: &X) {
    if covered != x { bad.push((ix, path, format!("{:?} but the covered read path (copied()) gives {:?}", x, covered))); }
}

/// `write_script!` of c18.rs with the reads through `cloned()` (items left alone: `as_refs().cloned()`; items written: `cloned()` of the
/// `&mut` item, then `set`, then the written colour read back through `as_refs().copied()` -- it must be the colour just stored)
macro_rules! write_script_paths {
    ($it:expr, $sc:expr, $bad:expr, $ix:expr) => {{ let mut slot = Some($it); let mut out: Vec<SOb> = vec![];
        for s in $sc.iter() {
            if let St::C = s { if let Some(it) = slot.take() { out.push(SOb::Count(it.count())); } break; }
            let it = match slot.as_mut() { Some(it) => it, None => break };
            out.push(match s {
            St::N => SOb::Item(it.next().map(|c| row_of(&c.as_refs().cloned()))),
            St::B => SOb::Item(it.next_back().map(|c| row_of(&c.as_refs().cloned()))),
            St::NW(w) => SOb::Item(it.next().map(|mut c| { let old = row_of(&c.cloned()); c.set(mk(w)); agree($bad, $ix, "set;as_refs.copied", &row_of(&mk(w)), &row_of(&c.as_refs().copied())); old })),
            St::BW(w) => SOb::Item(it.next_back().map(|mut c| { let old = row_of(&c.cloned()); c.set(mk(w)); agree($bad, $ix, "set;as_refs.cloned", &row_of(&mk(w)), &row_of(&c.as_refs().cloned())); old })),
            St::L => SOb::Len(it.len()),
            St::H => { let (lo, hi) = it.size_hint(); SOb::Hint(lo, hi) }
            St::C => unreachable!() }); }
        out }};
}

/// The interpreter of c18.rs (`interp!`) on the `Vec` form, with every read of a borrowed item going through `cloned()` / `as_refs()`.
/// Expects in scope: types `V`, `I`; const `K`; fns `mk`, `row_of`, `col_lens`.
macro_rules! interp_paths {
    () => {
        pub fn run_paths(ops: &[Op]) -> PTrace {
            let mut v: V = V::with_capacity(0);
            let mut obs: Vec<Ob> = vec![]; let mut lens: Vec<Vec<usize>> = vec![]; let mut bad: Vec<(usize, &'static str, String)> = vec![];
            for (ix, op) in ops.iter().enumerate() {
                let ob = match op {
                    Op::Push(r) => { v.push(mk(r)); Ob::Unit }
                    Op::Pop => Ob::Item(v.pop().map(|c| row_of(&c))),
                    Op::Extend(rs) => { v.extend(rs.iter().map(mk)); Ob::Unit }
                    Op::Collect(rs) => { v = rs.iter().map(mk).collect(); Ob::Unit }
                    Op::New(c) => { v = V::with_capacity(*c); Ob::Unit }
                    Op::Clear => { v.clear(); Ob::Unit }
                    Op::Drain(rg, sc) => {
                        let res = catch_unwind(AssertUnwindSafe(|| { let d = with_range!(*rg, r => v.drain(r)); read_script!(d, sc, |c| row_of(&c)) }));
                        match res { Ok(s) => Ob::Steps(s), Err(_) => Ob::Panic }
                    }
                    Op::Forget(rg, sc) => {
                        let res = catch_unwind(AssertUnwindSafe(|| { let d = with_range!(*rg, r => v.drain(r)); forget_script!(d, sc, |c| row_of(&c)) }));
                        match res { Ok(s) => Ob::Steps(s), Err(_) => Ob::Panic }
                    }
                    Op::Get(i, _) => {
                        let covered = v.get(*i).map(|c| row_of(&c.copied()));
                        let x = v.get(*i).map(|c| row_of(&c.cloned()));
                        agree(&mut bad, ix, "get.cloned", &covered, &x);
                        agree(&mut bad, ix, "get_mut.cloned", &covered, &v.get_mut(*i).map(|c| row_of(&c.cloned())));
                        agree(&mut bad, ix, "get_mut.as_refs.copied", &covered, &v.get_mut(*i).map(|c| row_of(&c.as_refs().copied())));
                        agree(&mut bad, ix, "get_mut.as_refs.cloned", &covered, &v.get_mut(*i).map(|c| row_of(&c.as_refs().cloned())));
                        Ob::Item(x)
                    }
                    Op::GetR(rg, sc, _) => {
                        let covered = get_r!(v, rg, sc);
                        let x = match with_range!(*rg, r => v.get(r)) { Some(sub) => Ob::Steps(read_script!(sub.into_iter(), sc, |c| row_of(&c.cloned()))), None => Ob::NoSlice };
                        agree(&mut bad, ix, "get(range).cloned", &covered, &x);
                        // the same window through `get_mut(range)`, left unwritten, read through `as_refs()`
                        let y = match with_range!(*rg, r => v.get_mut(r)) { Some(sub) => Ob::Steps(read_script!(sub.into_iter(), sc, |c| row_of(&c.as_refs().cloned()))), None => Ob::NoSlice };
                        agree(&mut bad, ix, "get_mut(range).as_refs.cloned", &covered, &y);
                        x
                    }
                    Op::GetM(i, w, _) => {
                        let covered = v.get(*i).map(|c| row_of(&c.copied()));
                        let x = v.get_mut(*i).map(|mut c| { let old = row_of(&c.cloned()); c.set(mk(w)); (old, row_of(&c.as_refs().cloned()), row_of(&c.cloned())) });
                        agree(&mut bad, ix, "get_mut.cloned", &covered, &x.as_ref().map(|t| t.0.clone()));
                        agree(&mut bad, ix, "set;as_refs.cloned", &x.as_ref().map(|_| row_of(&mk(w))), &x.as_ref().map(|t| t.1.clone()));
                        agree(&mut bad, ix, "set;cloned", &x.as_ref().map(|_| row_of(&mk(w))), &x.as_ref().map(|t| t.2.clone()));
                        Ob::Item(x.map(|t| t.0))
                    }
                    Op::GetMR(rg, sc, _) => {
                        let covered = { let mut v0 = v.clone(); let x = get_mr!(v0, rg, sc); x };
                        let x = match with_range!(*rg, r => v.get_mut(r)) { Some(sub) => Ob::Steps(write_script_paths!(sub.into_iter(), sc, &mut bad, ix)), None => Ob::NoSlice };
                        agree(&mut bad, ix, "get_mut(range).cloned", &covered, &x);
                        x
                    }
                    Op::Iter(sc, _) => {
                        let covered = read_script!(v.iter(), sc, |c| row_of(&c.copied()));
                        let x = read_script!(v.iter(), sc, |c| row_of(&c.cloned()));
                        agree(&mut bad, ix, "iter.cloned", &covered, &x);
                        Ob::Steps(x)
                    }
                    Op::IterM(sc, _) => {
                        let covered = { let mut v0 = v.clone(); let x = write_script!(v0.iter_mut(), sc); x };
                        let x = write_script_paths!(v.iter_mut(), sc, &mut bad, ix);
                        agree(&mut bad, ix, "iter_mut.cloned", &covered, &x);
                        Ob::Steps(x)
                    }
                    Op::Rev(_) => {
                        let covered = until_none!(v.iter().rev(), |c| row_of(&c.copied()));
                        let x = until_none!(v.iter().rev(), |c| row_of(&c.cloned()));
                        agree(&mut bad, ix, "iter.rev.cloned", &covered, &x);
                        agree(&mut bad, ix, "iter_mut.rev.as_refs.cloned", &covered, &until_none!(v.iter_mut().rev(), |c| row_of(&c.as_refs().cloned())));
                        Ob::Steps(x)
                    }
                    Op::Into(_) => {
                        // the owned items, and once more every borrowed item
                        let x = until_none!(v.clone().into_iter(), |c| row_of(&c));
                        agree(&mut bad, ix, "iter.cloned", &x, &until_none!(v.iter(), |c| row_of(&c.cloned())));
                        agree(&mut bad, ix, "iter_mut.cloned", &x, &until_none!(v.iter_mut(), |c| row_of(&c.cloned())));
                        agree(&mut bad, ix, "iter_mut.as_refs.copied", &x, &until_none!(v.iter_mut(), |c| row_of(&c.as_refs().copied())));
                        Ob::Steps(x)
                    }
                    Op::Len => Ob::Lens(v.iter().len(), col_lens(&v)),
                };
                obs.push(ob); lens.push(col_lens(&v));
            }
            PTrace { tr: Trace { obs, lens }, bad }
        }
        pub fn run_soa(ops: &[Op]) -> Trace { run_paths(ops).tr }
        pub fn run_vec(ops: &[Op]) -> Trace { crate::c18::run_vec::<I>(ops, K, mk, row_of) }
    };
}


// ------------------------------------------------------------------------------------------------ 4. the PROVIDED iterator methods
// `Iterator` / `DoubleEndedIterator` have ~70 provided methods (`nth`, `nth_back`, `skip`, `step_by`, `last`, `count`, `fold`, `rfold`, `position`, `zip`, ..)
// that std derives from `next` / `next_back` -- unless the implementation OVERRIDES one.  `c18.rs` drives `next`, `next_back`, `len`, `size_hint`, `count` only,
// so an override (say an `nth` that advances the columns by different amounts) was executed by nothing.  Here every iterator the collections hand out
// (`iter()`, `iter_mut()`, `into_iter()` of `&`, `&mut` and the owned collection, `get(range)` / `get_mut(range)` `.into_iter()`, `drain(range)`), fresh or partially
// consumed, is put through the adapters below, and the SAME adapter is applied to the same iterator of the reference `Vec<Color>`: the two observation sequences
// must be equal, and so must the collections left behind (the property's own predicate: same items, same order forwards and backwards, same lengths, same
// removed items; tolerance 0).  The helper is generic over std's iterator traits only; the palette types are instantiated concretely by `provided_cfg!`.
#[derive(Clone, Debug, PartialEq)]
pub enum PO<R> { It(Option<R>), Num(Option<usize>) }
pub const N_ADAPT: usize = 34;
/// adapter number `which` applied to `it` after `pre.0` calls of `next()` and `pre.1` calls of `next_back()`; -> (adapter name, everything observed, in order)
pub fn provided_one<X, R: PartialEq + Clone, It: DoubleEndedIterator<Item = X> + ExactSizeIterator>(mut it: It, which: usize, pre: (usize, usize), k: usize, s: usize,
        target: Option<&R>, refs: &[R], rd: &dyn Fn(X) -> R) -> (&'static str, Vec<PO<R>>) {
    let mut o: Vec<PO<R>> = vec![];
    for _ in 0..pre.0 { o.push(PO::It(it.next().map(rd))); }
    for _ in 0..pre.1 { o.push(PO::It(it.next_back().map(rd))); }
    // everything an iterator still yields, then the `None` that ends it
    macro_rules! all { ($i:expr) => {{ for x in $i { o.push(PO::It(Some(rd(x)))); } o.push(PO::It(None)); }} }
    // the length an (exact size) iterator reports, then everything it still yields
    macro_rules! rest { ($i:expr) => {{ o.push(PO::Num(Some($i.len()))); let (lo, hi) = $i.size_hint(); o.push(PO::Num(Some(lo))); o.push(PO::Num(hi)); all!($i) }} }
    let is_t = |r: &R| Some(r) == target;
    let name = match which {
        0 => { let a = it.nth(k).map(rd); o.push(PO::It(a)); rest!(it); "nth(k);rest" }
        1 => { let a = it.nth_back(k).map(rd); o.push(PO::It(a)); rest!(it); "nth_back(k);rest" }
        2 => { all!(it.skip(k)); "skip(k)" }
        3 => { all!(it.step_by(s)); "step_by(s)" }
        4 => { o.push(PO::It(it.last().map(rd))); "last()" }
        5 => { o.push(PO::Num(Some(it.count()))); "count()" }
        6 => { let n = it.fold(0usize, |n, x| { o.push(PO::It(Some(rd(x)))); n + 1 }); o.push(PO::Num(Some(n))); "fold" }
        7 => { let mut r = it.rev(); let a = r.nth(k).map(rd); o.push(PO::It(a)); rest!(r); "rev().nth(k);rest" }
        8 => { all!(it.rev().skip(k)); "rev().skip(k)" }
        9 => { all!(it.take(k)); "take(k)" }
        10 => { all!(it.skip(k).rev()); "skip(k).rev()" }
        11 => { let p = it.position(|x| is_t(&rd(x))); o.push(PO::Num(p)); rest!(it); "position(item k);rest" }
        12 => { for (x, r) in it.zip(refs.iter()) { o.push(PO::It(Some(rd(x)))); o.push(PO::It(Some(r.clone()))); } o.push(PO::It(None)); "zip(reference)" }
        13 => { let a = it.nth(k).map(rd); o.push(PO::It(a)); let a = it.nth(k).map(rd); o.push(PO::It(a)); rest!(it); "nth(k);nth(k);rest" }
        14 => { all!(it.step_by(s).rev()); "step_by(s).rev()" }
        15 => { all!(it.skip(k).step_by(s)); "skip(k).step_by(s)" }
        16 => { let n = it.rfold(0usize, |n, x| { o.push(PO::It(Some(rd(x)))); n + 1 }); o.push(PO::Num(Some(n))); "rfold" }
        17 => { let p = it.rposition(|x| is_t(&rd(x))); o.push(PO::Num(p)); rest!(it); "rposition(item k);rest" }
        18 => { let b = it.all(|x| !is_t(&rd(x))); o.push(PO::Num(Some(b as usize))); rest!(it); "all(!= item k);rest" }
        19 => { all!(it.rev().step_by(s)); "rev().step_by(s)" }
        20 => { all!(it.take(k).rev()); "take(k).rev()" }
        21 => { o.push(PO::It(it.rev().last().map(rd))); "rev().last()" }
        22 => { let a = it.nth_back(k).map(rd); o.push(PO::It(a)); let a = it.nth(k).map(rd); o.push(PO::It(a)); rest!(it); "nth_back(k);nth(k);rest" }
        23 => { let mut t = it.step_by(s); let a = t.nth(k).map(rd); o.push(PO::It(a)); all!(t); "step_by(s).nth(k);rest" }
        24 => { let mut t = it.skip(k); let a = t.nth_back(s).map(rd); o.push(PO::It(a)); rest!(t); "skip(k).nth_back(s);rest" }
        25 => { for (r, x) in refs.iter().zip(it).rev() { o.push(PO::It(Some(rd(x)))); o.push(PO::It(Some(r.clone()))); } o.push(PO::It(None)); "reference.zip(..).rev()" }
        26 => { for (i, x) in it.enumerate().skip(k) { o.push(PO::Num(Some(i))); o.push(PO::It(Some(rd(x)))); } o.push(PO::It(None)); "enumerate().skip(k)" }
        27 => { let mut t = it.fuse(); let a = t.nth(k).map(rd); o.push(PO::It(a)); all!(t); "fuse().nth(k);rest" }
        28 => { let a = it.nth(k).map(rd); o.push(PO::It(a)); o.push(PO::Num(Some(it.count()))); "nth(k);count()" }
        29 => { { let t = it.by_ref().take(k); all!(t); } rest!(it); "by_ref().take(k);rest" }
        30 => { let a = it.nth(k).map(rd); o.push(PO::It(a)); drop(it); "nth(k);drop" }
        31 => { let a = it.nth_back(k).map(rd); o.push(PO::It(a)); drop(it); "nth_back(k);drop" }
        32 => { let mut t = it.peekable(); let a = t.nth(k).map(rd); o.push(PO::It(a)); all!(t); "peekable().nth(k);rest" }
        _ => { let a = it.by_ref().skip(k).next().map(rd); o.push(PO::It(a)); let b = it.by_ref().rev().skip(s).next().map(rd); o.push(PO::It(b)); rest!(it); "by_ref().skip(k).next();by_ref().rev().skip(s).next();rest" }
    };
    (name, o)
}

/// one form: the adapter on the collection's iterator and on the vector's, then the two collections left behind (`row_of`, `col_lens`, `I` of the calling module)
macro_rules! provided_form { ($out:expr, $tag:expr, $v:expr, $items:expr, $refs:expr, $n:expr, $k:expr, $s:expr, $pre:expr, $w:expr, $target:expr,
                              $form:expr, $win:expr, |$c:ident| $soa:expr, $rdx:expr, |$ic:ident| $vec:expr, $rdv:expr) => {{
    let (mut $c, mut $ic) = ($v.clone(), $items.clone());
    let (n, k, s, pre, w) = ($n, $k, $s, $pre, $w);
    let win: (usize, usize) = $win;
    let wrefs = &$refs[win.0..win.1];
    let wt = if $form.starts_with("drain") || $form.starts_with("get") { wrefs.get(k) } else { $target };
    let (name, got) = provided_one($soa, w, pre, k, s, wt, wrefs, &$rdx);
    let (_, want) = provided_one($vec, w, pre, k, s, wt, wrefs, &$rdv);
    $out.check(got == want, &format!("provided-methods:{}:{}", $form, $tag), || format!("{} colours {:?} (rows of component bit patterns), window {}..{}, k = {}, s = {}, after {} next() and {} next_back(): `{}` on the struct-of-arrays collection's iterator observes {:?} but on Vec<Color>'s iterator {:?}", n, $refs, win.0, win.1, k, s, pre.0, pre.1, name, got, want));
    let left: Vec<Row> = $c.iter().map(|x| row_of(&x.copied())).collect();
    let vleft: Vec<Row> = $ic.iter().map(row_of).collect();
    let lens = col_lens(&$c);
    $out.check(left == vleft && lens.iter().all(|&l| l == vleft.len()), &format!("provided-methods-left-behind:{}:{}", $form, $tag), || format!("{} colours {:?}, window {}..{}, k = {}, s = {}, after {} next() and {} next_back(): after `{}` the struct-of-arrays collection holds {:?} (component lengths {:?}) but Vec<Color> holds {:?}", n, $refs, win.0, win.1, k, s, pre.0, pre.1, name, left, lens, vleft));
}} }

/// The provided methods on one configuration.  Expects in scope: types `V`, `I`; const `K`; fns `mk`, `row_of`, `col_lens` (as `interp_paths!`).
macro_rules! provided_cfg {
    () => {
        pub fn run_provided(out: &mut Out, rng: &mut Rng, rounds: usize, tag: &str) {
            for round in 0..rounds {
                let n = match round % 6 { 0 => 3, 1 => 0, 2 => 1, 3 => 2, 4 => 6, _ => rng.below(13) as usize };
                let rows = long_rows(<T as Comp>::TAG, K, n, rng.below(1000));
                let items: Vec<I> = rows.iter().map(mk).collect();
                let refs: Vec<Row> = items.iter().map(row_of).collect();
                let v: V = items.iter().cloned().collect();
                let (k, s) = (if round % 3 == 0 { 1 } else { rng.below(n as u64 + 2) as usize }, 1 + rng.below(3) as usize);
                let pre = match rng.below(5) { 0 | 1 | 2 => (0, 0), 3 => (1, 0), _ => (1, 1) };
                let a = rng.below(n as u64 + 1) as usize; let b = a + rng.below((n - a) as u64 + 1) as usize;
                let target = refs.get(k);
                for w in 0..N_ADAPT {
                    provided_form!(out, tag, v, items, refs, n, k, s, pre, w, target, "iter", (0, n), |c| c.iter(), |x| row_of(&x.copied()), |ic| ic.iter(), |x: &I| row_of(x));
                    provided_form!(out, tag, v, items, refs, n, k, s, pre, w, target, "iter_mut", (0, n), |c| c.iter_mut(), |x| row_of(&x.cloned()), |ic| ic.iter_mut(), |x: &mut I| row_of(x));
                    provided_form!(out, tag, v, items, refs, n, k, s, pre, w, target, "ref.into_iter", (0, n), |c| (&c).into_iter(), |x| row_of(&x.cloned()), |ic| (&ic).into_iter(), |x: &I| row_of(x));
                    provided_form!(out, tag, v, items, refs, n, k, s, pre, w, target, "mut.into_iter", (0, n), |c| (&mut c).into_iter(), |x| row_of(&x.as_refs().copied()), |ic| (&mut ic).into_iter(), |x: &mut I| row_of(x));
                    provided_form!(out, tag, v, items, refs, n, k, s, pre, w, target, "owned.into_iter", (0, n), |c| c.clone().into_iter(), |x| row_of(&x), |ic| ic.clone().into_iter(), |x: I| row_of(&x));
                    provided_form!(out, tag, v, items, refs, n, k, s, pre, w, target, "drain(a..b)", (a, b), |c| c.drain(a..b), |x| row_of(&x), |ic| ic.drain(a..b), |x: I| row_of(&x));
                    provided_form!(out, tag, v, items, refs, n, k, s, pre, w, target, "drain(..)", (0, n), |c| c.drain(..), |x| row_of(&x), |ic| ic.drain(..), |x: I| row_of(&x));
                    provided_form!(out, tag, v, items, refs, n, k, s, pre, w, target, "get(a..b).into_iter", (a, b), |c| c.get(a..b).unwrap().into_iter(), |x| row_of(&x.copied()), |ic| ic[a..b].iter(), |x: &I| row_of(x));
                    provided_form!(out, tag, v, items, refs, n, k, s, pre, w, target, "get_mut(a..b).into_iter", (a, b), |c| c.get_mut(a..b).unwrap().into_iter(), |x| row_of(&x.as_refs().cloned()), |ic| ic[a..b].iter_mut(), |x: &mut I| row_of(x));
                }
                out.count("cls:more:provided-methods");
            }
        }
    };
}

/// `drain(range)` of a collection whose alpha column has another component type (the only iterator that form hands out: the `IntoIterator` impls want one type)
macro_rules! mixed_alpha_provided { ($out:expr, $rng:expr, $n:expr, $name:expr, $soa:ty, $item:ty, $mk:expr) => {{
    let mk: fn(f32, u8) -> $item = $mk;
    for round in 0..$n {
        let n = match round % 4 { 0 => 3, 1 => 1, _ => $rng.below(9) as usize };
        let items: Vec<$item> = (0..n).map(|i| mk(i as f32 * 0.5 + $rng.below(7) as f32, (i * 16 + $rng.below(16) as usize) as u8)).collect();
        let refs: Vec<String> = items.iter().map(|x| format!("{:?}", x)).collect();
        let v: $soa = items.iter().cloned().collect();
        let (k, s) = (if round % 3 == 0 { 1 } else { $rng.below(n as u64 + 2) as usize }, 1 + $rng.below(3) as usize);
        let pre = match $rng.below(4) { 0 | 1 => (0, 0), 2 => (1, 0), _ => (1, 1) };
        let a = $rng.below(n as u64 + 1) as usize; let b = a + $rng.below((n - a) as u64 + 1) as usize;
        for w in 0..N_ADAPT {
            let (mut c, mut ic) = (v.clone(), items.clone());
            let wrefs = &refs[a..b];
            let (name, got) = provided_one(c.drain(a..b), w, pre, k, s, wrefs.get(k), wrefs, &|x| format!("{:?}", x));
            let (_, want) = provided_one(ic.drain(a..b), w, pre, k, s, wrefs.get(k), wrefs, &|x: $item| format!("{:?}", x));
            $out.check(got == want, &format!("provided-methods:drain(a..b):mixed-alpha:{}", $name), || format!("{} colours {:?}, window {}..{}, k = {}, s = {}, after {} next() and {} next_back(): `{}` on the struct-of-arrays collection's drain observes {:?} but on Vec<Color>'s {:?}", n, refs, a, b, k, s, pre.0, pre.1, name, got, want));
            let left: Vec<String> = (0..n + 1).map(|i| format!("{:?}", c.get(i).map(|x| x.cloned()))).collect();
            let vleft: Vec<String> = (0..n + 1).map(|i| format!("{:?}", ic.get(i))).collect();
            $out.check(left == vleft, &format!("provided-methods-left-behind:drain(a..b):mixed-alpha:{}", $name), || format!("{} colours {:?}, window {}..{}, k = {}, s = {}: after `{}` on the drain the struct-of-arrays collection holds {:?} but Vec<Color> holds {:?}", n, refs, a, b, k, s, name, left, vleft));
        }
        $out.count("cls:more:provided-methods:mixed-alpha");
    }
}} }

/// One colour type (same argument grammar as `soa_type!`): the `plain` and `alpha` interpreters of the read paths.
macro_rules! paths_type {
    ($m:ident, $name:literal, $t:ty, $C:ident < $($P:ty),* >, hue [$($H:ident)?], elems [$($e:ident),+], phantom [$($ph:ident)?]) => {
        pub mod $m {
            use super::*;
            type T = $t;
            type CI = $C<$($P,)* T>;
            type CV = $C<$($P,)* Vec<T>>;
            const NE: usize = [$(stringify!($e)),+].len();
            const HUE: bool = [$(stringify!($H),)? ""].len() == 2;
            fn mk_c(it: &mut dyn Iterator<Item = u64>) -> CI {
                $C { $(hue: $H::new(T::fb(it.next().unwrap())),)? $($e: T::fb(it.next().unwrap()),)+ $($ph: PhantomData,)? }
            }
            fn row_c(c: &CI, r: &mut Row) { $(r.push($H::into_inner(c.hue).tb());)? $(r.push(c.$e.tb());)+ }
            fn lens_c(v: &CV, r: &mut Vec<usize>) { $(r.push({ let _ = stringify!($H); v.hue.iter().len() });)? $(r.push(v.$e.len());)+ }
            pub mod plain {
                use super::*;
                type V = CV; type I = CI;
                const K: usize = NE + HUE as usize;
                fn mk(r: &Row) -> I { mk_c(&mut r.iter().copied()) }
                fn row_of(c: &I) -> Row { let mut r = vec![]; row_c(c, &mut r); r }
                fn col_lens(v: &V) -> Vec<usize> { let mut r = vec![]; lens_c(v, &mut r); r }
                interp_paths!();
                provided_cfg!();
            }
            // ---- the hue column read and written on its own (`v.hue.iter()`, `.get(i)`, ... of hues.rs), on every form
            type CB = $C<$($P,)* Box<[T]>>;
            type CA<const N: usize> = $C<$($P,)* [T; N]>;
            fn box_c(v: &CV) -> CB { $C { $(hue: $H::from(v.hue.clone().into_inner().into_boxed_slice()),)? $($e: v.$e.clone().into_boxed_slice(),)+ $($ph: PhantomData,)? } }
            fn arr_c<const N: usize>(v: &CV) -> CA<N> { $C { $(hue: $H::from(<[T; N]>::try_from(&v.hue.clone().into_inner()[..]).unwrap()),)? $($e: <[T; N]>::try_from(&v.$e[..]).unwrap(),)+ $($ph: PhantomData,)? } }
            fn hue_bits(c: &CI) -> Option<u64> { let mut r = None; let _ = c; $( r = Some($H::into_inner(c.hue).tb()); )? r }
            /// (path, hues read, `None` where the read ends / misses) and (path, length reported); `.rev` paths read backwards
            fn hue_reads(v: &mut CV) -> (Vec<(&'static str, Vec<Option<u64>>)>, Vec<(&'static str, usize)>) {
                let mut items: Vec<(&'static str, Vec<Option<u64>>)> = vec![]; let mut lens: Vec<(&'static str, usize)> = vec![];
                let n = { let mut r = vec![]; lens_c(v, &mut r); *r.last().unwrap() }; // an element column's length
                let _ = (n, &mut items, &mut lens);
                $(
                fn b(h: $H<T>) -> u64 { $H::into_inner(h).tb() }
                fn fin(mut x: Vec<Option<u64>>) -> Vec<Option<u64>> { x.push(None); x }
                items.push(("vec:hue.iter", fin(v.hue.iter().map(|h| Some(b(h.copied()))).collect())));
                items.push(("vec:hue.iter.rev", fin(v.hue.iter().rev().map(|h| Some(b(h.cloned()))).collect())));
                items.push(("vec:hue.iter_mut", fin(v.hue.iter_mut().map(|h| Some(b(h.copied()))).collect())));
                items.push(("vec:hue.iter_mut.rev", fin(v.hue.iter_mut().rev().map(|h| Some(b(h.as_ref().copied()))).collect())));
                items.push(("vec:hue.get", (0..n + 1).map(|i| v.hue.get(i).map(|h| b(h.copied()))).collect()));
                items.push(("vec:hue.get_mut", (0..n + 1).map(|i| v.hue.get_mut(i).map(|h| b(h.cloned()))).collect()));
                items.push(("vec:hue.get(..).into_iter", fin(v.hue.get(..).unwrap().into_iter().map(|h| Some(b(h.copied()))).collect())));
                items.push(("vec:hue.into_iter", fin(v.hue.clone().into_iter().map(|h| Some(b(h))).collect())));
                lens.push(("vec:hue.iter.len", v.hue.iter().len())); lens.push(("vec:hue.iter_mut.len", v.hue.iter_mut().len()));
                lens.push(("vec:hue.iter.count", v.hue.iter().count())); lens.push(("vec:hue.iter.size_hint", v.hue.iter().size_hint().0));
                {
                    let s = v.get(..).unwrap();
                    items.push(("slice:hue.iter", fin(s.hue.iter().map(|h| Some(b(h.copied()))).collect())));
                    items.push(("slice:hue.iter.rev", fin(s.hue.iter().rev().map(|h| Some(b(h.copied()))).collect())));
                    items.push(("slice:hue.into_iter", fin(s.hue.into_iter().map(|h| Some(b(h.copied()))).collect())));
                    items.push(("slice:hue.get", (0..n + 1).map(|i| s.hue.get(i).map(|h| b(h.copied()))).collect()));
                    lens.push(("slice:hue.iter.len", s.hue.iter().len())); lens.push(("slice:hue.iter.count", s.hue.iter().count()));
                    lens.push(("slice:hue.iter.size_hint", s.hue.iter().size_hint().1.unwrap_or(usize::MAX)));
                }
                {
                    let mut m = v.get_mut(..).unwrap();
                    items.push(("mutslice:hue.iter", fin(m.hue.iter().map(|h| Some(b(h.copied()))).collect())));
                    items.push(("mutslice:hue.iter.rev", fin(m.hue.iter().rev().map(|h| Some(b(h.copied()))).collect())));
                    items.push(("mutslice:hue.iter_mut", fin(m.hue.iter_mut().map(|h| Some(b(h.copied()))).collect())));
                    items.push(("mutslice:hue.get", (0..n + 1).map(|i| m.hue.get(i).map(|h| b(h.copied()))).collect()));
                    items.push(("mutslice:hue.get_mut", (0..n + 1).map(|i| m.hue.get_mut(i).map(|h| b(h.copied()))).collect()));
                    lens.push(("mutslice:hue.iter.len", m.hue.iter().len())); lens.push(("mutslice:hue.iter_mut.len", m.hue.iter_mut().len()));
                    items.push(("mutslice:hue.into_iter", fin(m.hue.into_iter().map(|h| Some(b(h.copied()))).collect())));
                }
                {
                    let mut bx = box_c(v);
                    items.push(("box:hue.iter", fin(bx.hue.iter().map(|h| Some(b(h.copied()))).collect())));
                    items.push(("box:hue.iter.rev", fin(bx.hue.iter().rev().map(|h| Some(b(h.copied()))).collect())));
                    items.push(("box:hue.iter_mut", fin(bx.hue.iter_mut().map(|h| Some(b(h.copied()))).collect())));
                    items.push(("box:hue.get", (0..n + 1).map(|i| bx.hue.get(i).map(|h| b(h.copied()))).collect()));
                    items.push(("box:hue.get_mut", (0..n + 1).map(|i| bx.hue.get_mut(i).map(|h| b(h.copied()))).collect()));
                    lens.push(("box:hue.iter.len", bx.hue.iter().len())); lens.push(("box:hue.iter_mut.len", bx.hue.iter_mut().len()));
                }
                if n == 3 {
                    let mut a = arr_c::<3>(v);
                    items.push(("arr:hue.iter", fin(a.hue.iter().map(|h| Some(b(h.copied()))).collect())));
                    items.push(("arr:hue.iter.rev", fin(a.hue.iter().rev().map(|h| Some(b(h.copied()))).collect())));
                    items.push(("arr:hue.iter_mut", fin(a.hue.iter_mut().map(|h| Some(b(h.copied()))).collect())));
                    items.push(("arr:hue.get", (0..n + 1).map(|i| a.hue.get(i).map(|h| b(h.copied()))).collect()));
                    items.push(("arr:hue.get_mut", (0..n + 1).map(|i| a.hue.get_mut(i).map(|h| b(h.copied()))).collect()));
                    lens.push(("arr:hue.iter.len", a.hue.iter().len())); lens.push(("arr:hue.iter_mut.len", a.hue.iter_mut().len()));
                    items.push(("arr:hue.into_iter", fin(a.hue.into_iter().map(|h| Some(b(h))).collect())));
                }
                )?
                (items, lens)
            }
            /// store colour `j`'s hue at position `i` through the hue column alone (`hue.get_mut(i)` + `set`), on the collection and on the vector
            fn hue_write(v: &mut CV, items: &mut Vec<CI>, i: usize, j: usize) {
                let _ = (&v, &items, i, j);
                $( let w: $H<T> = items[j].hue; if let Some(mut h) = v.hue.get_mut(i) { h.set(w); } items[i].hue = w; )?
            }
            pub fn hue_column(out: &mut Out, rng: &mut Rng, n_rounds: usize) {
                if !HUE { return; }
                let tag = format!("{}<{}>", $name, <T as Comp>::TAG);
                let txt = |x: &Vec<Option<u64>>| x.iter().map(|o| o.map_or("Z".to_string(), |b| if <T as Comp>::TAG == "f32" { format!("x{:08x}", b) } else if <T as Comp>::TAG == "f64" { format!("X{:016x}", b) } else { b.to_string() })).collect::<Vec<_>>().join(" ");
                for round in 0..n_rounds {
                    let len = match round % 4 { 0 => 3, 1 => 0, 2 => 1, _ => rng.below(12) as usize };
                    let rows = long_rows(<T as Comp>::TAG, NE + 1, len, rng.below(1000));
                    let mut items: Vec<CI> = rows.iter().map(|r| mk_c(&mut r.iter().copied())).collect();
                    let cap = rng.below(5) as usize;
                    // from a colour whose hue column the hue type's own `with_capacity` made (an empty equal-length state)
                    let mut v: CV = $C { $(hue: $H::<Vec<T>>::with_capacity(cap),)? $($e: Vec::with_capacity(cap),)+ $($ph: PhantomData,)? };
                    let (_, l0) = hue_reads(&mut v);
                    for (p, l) in l0 { out.check(l == 0, &format!("equal-lengths:hue-column:{}:{}", p, tag), || format!("hue column made by with_capacity({}): reported length {} (the element columns are empty)", cap, l)); }
                    if round % 2 == 0 { for c in &items { v.push(*c); } } else { v.extend(items.iter().copied()); }
                    for pass in 0..2 {
                        let want: Vec<Option<u64>> = items.iter().map(hue_bits).chain(std::iter::once(None)).collect();
                        let want_rev: Vec<Option<u64>> = items.iter().rev().map(hue_bits).chain(std::iter::once(None)).collect();
                        let (reads, lens) = hue_reads(&mut v);
                        for (p, got) in reads {
                            let exp = if p.contains(".rev") { &want_rev } else { &want };
                            out.check(&got == exp, &format!("hue-column:{}:{}", p, tag), || format!("{} colours, Vec<Color> has the hues [{}] in this direction (pass {}): the hue column read on its own gives [{}]", len, txt(exp), pass, txt(&got)));
                        }
                        for (p, l) in lens { out.check(l == items.len(), &format!("equal-lengths:hue-column:{}:{}", p, tag), || format!("{} colours: the hue column reports length {}", items.len(), l)); }
                        if pass == 1 || len == 0 { break; }
                        // second pass after a write through the hue column alone; the colours must then be the vector's colours
                        let (i, j) = (rng.below(len as u64) as usize, rng.below(len as u64) as usize);
                        hue_write(&mut v, &mut items, i, j);
                        let got: Vec<Row> = v.iter().map(|c| { let mut r = vec![]; row_c(&c.copied(), &mut r); r }).collect();
                        let exp: Vec<Row> = items.iter().map(|c| { let mut r = vec![]; row_c(c, &mut r); r }).collect();
                        out.check(got == exp, &format!("hue-column:vec:hue.get_mut.set:{}", tag), || format!("hue {} stored at {} through hue.get_mut: colours {:?}, Vec<Color> {:?}", j, i, got, exp));
                    }
                    out.count("cls:more:hue-column");
                }
            }
            pub mod alpha {
                use super::*;
                type V = Alpha<CV, Vec<T>>; type I = Alpha<CI, T>;
                const K: usize = NE + HUE as usize + 1;
                fn mk(r: &Row) -> I { let mut it = r.iter().copied(); let color = mk_c(&mut it); Alpha { color, alpha: T::fb(it.next().unwrap()) } }
                fn row_of(c: &I) -> Row { let mut r = vec![]; row_c(&c.color, &mut r); r.push(c.alpha.tb()); r }
                fn col_lens(v: &V) -> Vec<usize> { let mut r = vec![]; lens_c(&v.color, &mut r); r.push(v.alpha.len()); r }
                interp_paths!();
                provided_cfg!();
            }
            pub fn cfgs() -> Vec<PCfg> { vec![
                PCfg { cfg: Cfg { name: $name, ty: <T as Comp>::TAG, hue: HUE, nelem: NE, alpha: false, run_soa: plain::run_soa, run_vec: plain::run_vec }, run_paths: plain::run_paths, run_provided: plain::run_provided },
                PCfg { cfg: Cfg { name: $name, ty: <T as Comp>::TAG, hue: HUE, nelem: NE, alpha: true, run_soa: alpha::run_soa, run_vec: alpha::run_vec }, run_paths: alpha::run_paths, run_provided: alpha::run_provided } ] }
        }
    };
}

// every macro invocation of palette (26 types; `run_more` compares this list with `all_cfgs()` of c18.rs, which the driver compares with the
// extracted table), each at one component type; integer components and a non-default parameter for the types that have them in c18.rs
paths_type!(p_rgb, "Rgb", f32, Rgb<Srgb>, hue [], elems [red, green, blue], phantom [standard]);
paths_type!(p_rgb8, "Rgb", u8, Rgb<LinSrgb>, hue [], elems [red, green, blue], phantom [standard]);
paths_type!(p_luma, "Luma", u16, Luma<Srgb>, hue [], elems [luma], phantom [standard]);
paths_type!(p_hsl, "Hsl", f32, Hsl<Srgb>, hue [RgbHue], elems [saturation, lightness], phantom [standard]);
paths_type!(p_hsv, "Hsv", f64, Hsv<Srgb>, hue [RgbHue], elems [saturation, value], phantom [standard]);
paths_type!(p_hwb, "Hwb", f32, Hwb<Srgb>, hue [RgbHue], elems [whiteness, blackness], phantom [standard]);
paths_type!(p_lab, "Lab", f32, Lab<D65>, hue [], elems [l, a, b], phantom [white_point]);
paths_type!(p_lch, "Lch", f32, Lch<D50>, hue [LabHue], elems [l, chroma], phantom [white_point]);
paths_type!(p_luv, "Luv", f32, Luv<D65>, hue [], elems [l, u, v], phantom [white_point]);
paths_type!(p_lchuv, "Lchuv", f32, Lchuv<D65>, hue [LuvHue], elems [l, chroma], phantom [white_point]);
paths_type!(p_hsluv, "Hsluv", f32, Hsluv<D65>, hue [LuvHue], elems [saturation, l], phantom [white_point]);
paths_type!(p_xyz, "Xyz", f32, Xyz<D65>, hue [], elems [x, y, z], phantom [white_point]);
paths_type!(p_yxy, "Yxy", f32, Yxy<D65>, hue [], elems [x, y, luma], phantom [white_point]);
paths_type!(p_lms, "Lms", f32, Lms<()>, hue [], elems [long, medium, short], phantom [meta]);
paths_type!(p_oklab, "Oklab", f32, Oklab<>, hue [], elems [l, a, b], phantom []);
paths_type!(p_oklch, "Oklch", f64, Oklch<>, hue [OklabHue], elems [l, chroma], phantom []);
paths_type!(p_okhsl, "Okhsl", f32, Okhsl<>, hue [OklabHue], elems [saturation, lightness], phantom []);
paths_type!(p_okhsv, "Okhsv", f32, Okhsv<>, hue [OklabHue], elems [saturation, value], phantom []);
paths_type!(p_okhwb, "Okhwb", f32, Okhwb<>, hue [OklabHue], elems [whiteness, blackness], phantom []);
paths_type!(p_jab, "Cam16UcsJab", f32, Cam16UcsJab<>, hue [], elems [lightness, a, b], phantom []);
paths_type!(p_jmh, "Cam16UcsJmh", f32, Cam16UcsJmh<>, hue [Cam16Hue], elems [lightness, colorfulness], phantom []);
paths_type!(p_cjch, "Cam16Jch", f32, Cam16Jch<>, hue [Cam16Hue], elems [lightness, chroma], phantom []);
paths_type!(p_cjmh, "Cam16Jmh", f32, Cam16Jmh<>, hue [Cam16Hue], elems [lightness, colorfulness], phantom []);
paths_type!(p_cjsh, "Cam16Jsh", f32, Cam16Jsh<>, hue [Cam16Hue], elems [lightness, saturation], phantom []);
paths_type!(p_cqch, "Cam16Qch", f32, Cam16Qch<>, hue [Cam16Hue], elems [brightness, chroma], phantom []);
paths_type!(p_cqmh, "Cam16Qmh", f32, Cam16Qmh<>, hue [Cam16Hue], elems [brightness, colorfulness], phantom []);
paths_type!(p_cqsh, "Cam16Qsh", f32, Cam16Qsh<>, hue [Cam16Hue], elems [brightness, saturation], phantom []);

fn path_cfgs() -> Vec<PCfg> {
    let mut v = vec![];
    for c in [p_rgb::cfgs(), p_rgb8::cfgs(), p_luma::cfgs(), p_hsl::cfgs(), p_hsv::cfgs(), p_hwb::cfgs(), p_lab::cfgs(), p_lch::cfgs(), p_luv::cfgs(), p_lchuv::cfgs(), p_hsluv::cfgs(),
              p_xyz::cfgs(), p_yxy::cfgs(), p_lms::cfgs(), p_oklab::cfgs(), p_oklch::cfgs(), p_okhsl::cfgs(), p_okhsv::cfgs(), p_okhwb::cfgs(), p_jab::cfgs(), p_jmh::cfgs(),
              p_cjch::cfgs(), p_cjmh::cfgs(), p_cjsh::cfgs(), p_cqch::cfgs(), p_cqmh::cfgs(), p_cqsh::cfgs()] { v.extend(c); }
    v
}

/// `Alpha<Color<&T>, &A>` / `Alpha<Color<&mut T>, &mut A>` with an alpha component type different from the colour's (the four functions are
/// generic in `A`): `cloned`, `as_refs`, `set` on the items of `get` / `get_mut` against the colours put in.
macro_rules! mixed_alpha_reads { ($out:expr, $rng:expr, $n:expr, $name:expr, $soa:ty, $item:ty, $mk:expr) => {{
    let mk: fn(f32, u8) -> $item = $mk;
    for _ in 0..$n {
        let n = $rng.below(5) as usize + 1;
        let items: Vec<$item> = (0..n).map(|i| mk(i as f32 * 0.5 + $rng.below(7) as f32, ($rng.below(256)) as u8)).collect();
        let mut c: $soa = items.iter().cloned().collect();
        for i in 0..n + 1 {
            let want = format!("{:?}", items.get(i));
            let got = [format!("{:?}", c.get(i).map(|x| x.cloned())), format!("{:?}", c.get_mut(i).map(|x| x.cloned())),
                       format!("{:?}", c.get_mut(i).map(|x| x.as_refs().copied())), format!("{:?}", c.get_mut(i).map(|x| x.as_refs().cloned()))];
            $out.check(got.iter().all(|g| *g == want), &format!("same-observations:cloned-reads:mixed-alpha:{}", $name),
                || format!("{} colours {:?}: item {} is {} but get.cloned / get_mut.cloned / get_mut.as_refs.copied / get_mut.as_refs.cloned give {:?}", n, items, i, want, got));
        }
        let (i, w) = ($rng.below(n as u64) as usize, mk(99.5, 7));
        let back = c.get_mut(i).map(|mut x| { x.set(w.clone()); format!("{:?}", x.as_refs().cloned()) });
        let stored = format!("{:?}", c.get(i).map(|x| x.cloned()));
        $out.check(back == Some(format!("{:?}", w)) && stored == format!("{:?}", Some(w.clone())), &format!("same-observations:cloned-reads:mixed-alpha:{}", $name),
            || format!("set({:?}) at {} of {} colours: read back {:?} through as_refs().cloned() and {} through get().cloned()", w, i, n, back, stored));
        $out.count("cls:more:mixed-alpha-reads");
    }
}} }

fn norm_forms(ops: &[Op]) -> Vec<Op> {
    ops.iter().map(|op| match op {
        Op::Get(i, _) => Op::Get(*i, Form::V), Op::GetR(r, s, _) => Op::GetR(*r, s.clone(), Form::V), Op::GetM(i, w, _) => Op::GetM(*i, w.clone(), Form::V),
        Op::GetMR(r, s, _) => Op::GetMR(*r, s.clone(), Form::V), Op::Iter(s, _) => Op::Iter(s.clone(), Form::V), Op::IterM(s, _) => Op::IterM(s.clone(), Form::V),
        Op::Rev(_) => Op::Rev(Form::V), Op::Into(_) => Op::Into(Form::V), o => o.clone() }).collect()
}

/// oracle + protocol line for one history on the read-path interpreter
fn run_paths_history(out: &mut Out, pc: &PCfg, ops: &[Op]) {
    let cfg = &pc.cfg;
    let tag = cfg.tag();
    let upto = |i: usize| hist_txt(cfg.ty, &ops[..=i.min(ops.len() - 1)]);
    let a = match catch_unwind(AssertUnwindSafe(|| (pc.run_paths)(ops))) {
        Ok(t) => t,
        Err(_) => { out.check(false, &format!("no-unexpected-panic:cloned-reads:{}", tag), || format!("panicked outside drain ;; history: {}", hist_txt(cfg.ty, ops))); return; }
    };
    let b = (cfg.run_vec)(ops);
    out.oracle_evals += ops.len() as u64 * 2;
    let mut ok = true;
    for i in 0..ops.len() {
        if a.tr.obs[i] != b.obs[i] {
            let (mut x, mut y, mut o) = (String::new(), String::new(), String::new());
            ob_txt(cfg.ty, &a.tr.obs[i], &mut x); ob_txt(cfg.ty, &b.obs[i], &mut y); op_txt(cfg.ty, &ops[i], &mut o);
            out.check(false, &format!("same-observations:cloned-reads:{}", tag), || format!("op #{} `{}`: read through cloned() / as_refs() the struct-of-arrays collection gives{} but Vec<Color> gives{} ;; history: {}", i, o, x, y, upto(i)));
            ok = false; break;
        }
        if a.tr.lens[i].iter().any(|&l| l != b.lens[i][0]) {
            out.check(false, &format!("equal-lengths:cloned-reads:{}", tag), || format!("after op #{}: component lengths {:?}, Vec<Color> length {} ;; history: {}", i, a.tr.lens[i], b.lens[i][0], upto(i)));
            ok = false; break;
        }
    }
    if ok { out.check(true, "history:cloned-reads", String::new); }
    let mut seen: Vec<&'static str> = vec![];
    for (ix, path, d) in &a.bad {
        if seen.contains(path) { continue; } seen.push(*path);
        let mut o = String::new(); op_txt(cfg.ty, &ops[*ix], &mut o);
        out.check(false, &format!("reads-agree:{}:{}", path, tag), || format!("op #{} `{}`: {} ;; history: {}", ix, o, d, upto(*ix)));
    }
    if a.bad.is_empty() { out.check(true, "reads-agree", String::new); }
    let mut line = format!("soa {} {} {} {} {} | {} |", cfg.name, cfg.ty, cfg.hue as u8, cfg.nelem, cfg.alpha as u8, hist_txt(cfg.ty, ops));
    for ob in &a.tr.obs { ob_txt(cfg.ty, ob, &mut line); }
    out.case(&line);
    out.count("cls:more:cloned-reads-history");
}

// ------------------------------------------------------------------------------------------------ 3. long extends and collects
fn long_rows(ty: &str, k: usize, n: usize, base: u64) -> Vec<Row> {
    (0..n as u64).map(|i| (0..k as u64).map(|j| { let x = base + i * 8 + j; match ty { "f32" => (x as f32 * 0.25).to_bits() as u64, "f64" => (x as f64 * 0.25).to_bits(), "u8" => x % 256, _ => x % 65536 } }).collect()).collect()
}
fn long_history(ty: &str, k: usize) -> Vec<Op> {
    // the row counts select all three iterator shapes of `Op::Extend` / `Op::Collect` in c18.rs (`len % 3`: exact size hint, `filter`, `take_while` / `skip_while`)
    vec![Op::Extend(long_rows(ty, k, 99, 0)), Op::Len, Op::Extend(long_rows(ty, k, 100, 1000)), Op::Extend(long_rows(ty, k, 101, 2000)), Op::Len,
         Op::Drain(Rg::R(17, 283), vec![St::N, St::B, St::L, St::H]), Op::Len, Op::Iter(vec![St::N, St::B, St::L], Form::V),
         Op::Collect(long_rows(ty, k, 300, 3000)), Op::Len, Op::Get(299, Form::V), Op::Get(300, Form::V), Op::Forget(Rg::F(290), vec![St::N]), Op::Len,
         Op::Collect(long_rows(ty, k, 256, 4000)), Op::Extend(long_rows(ty, k, 65, 5000)), Op::Collect(long_rows(ty, k, 257, 6000)), Op::Pop, Op::Len, Op::Rev(Form::V), Op::Into(Form::V)]
}

pub fn run_more(out: &mut Out, rng: &mut Rng, thorough: bool, dir: &str, n_shrunk: &mut usize) {
    // 2. further configurations, complete treatment of c18.rs
    let more = more_cfgs();
    for (label, cfgs) in &more {
        for cfg in cfgs {
            out.count(&format!("cls:more:cfg:{}{}", label, if cfg.alpha { "+alpha" } else { "" }));
            for h in audit_histories(rng.next(), cfg.k(), cfg.ty, if thorough { 600 } else { 40 }) { audit_history(out, cfg, &h, dir, n_shrunk); }
        }
    }
    // 3. long extends / collects on every configuration
    let all = all_cfgs();
    for cfg in all.iter().chain(more.iter().flat_map(|(_, c)| c.iter())) {
        audit_history(out, cfg, &long_history(cfg.ty, cfg.k()), dir, n_shrunk);
        out.count("cls:more:long-extend-collect");
    }
    // 1. the read paths `cloned()` / `as_refs()`, every type x {plain, Alpha}
    let pcs = path_cfgs();
    {
        let mut mine: Vec<&str> = pcs.iter().map(|p| p.cfg.name).collect(); mine.sort(); mine.dedup();
        let mut theirs: Vec<&str> = all.iter().map(|c| c.name).collect(); theirs.sort(); theirs.dedup();
        out.check(mine == theirs, "audit-type-list", || format!("c18_more.rs drives the read paths of {:?}, c18.rs (checked against the macro invocations by the driver) lists {:?}", mine, theirs));
    }
    for pc in &pcs {
        out.count(&format!("cls:more:cloned-reads:{}{}", if pc.cfg.hue { "hue" } else { "nohue" }, if pc.cfg.alpha { "+alpha" } else { "" }));
        for h in audit_histories(rng.next(), pc.cfg.k(), pc.cfg.ty, if thorough { 300 } else { 12 }) { run_paths_history(out, pc, &norm_forms(&h)); }
    }
    // the hue column on its own, every hue type, every form
    {
        let n = if thorough { 2000 } else { 60 };
        p_hsl::hue_column(out, rng, n); p_hsv::hue_column(out, rng, n); p_hwb::hue_column(out, rng, n); p_lch::hue_column(out, rng, n); p_lchuv::hue_column(out, rng, n);
        p_hsluv::hue_column(out, rng, n); p_oklch::hue_column(out, rng, n); p_okhsl::hue_column(out, rng, n); p_okhsv::hue_column(out, rng, n); p_okhwb::hue_column(out, rng, n);
        p_jmh::hue_column(out, rng, n); p_cjch::hue_column(out, rng, n); p_cjmh::hue_column(out, rng, n); p_cjsh::hue_column(out, rng, n); p_cqch::hue_column(out, rng, n);
        p_cqmh::hue_column(out, rng, n); p_cqsh::hue_column(out, rng, n);
        // no-ops (no hue column); called so that a type gaining a hue is noticed by the counter below
        p_rgb::hue_column(out, rng, n); p_lab::hue_column(out, rng, n);
    }
    {
        let n = if thorough { 5000 } else { 300 };
        mixed_alpha_reads!(out, rng, n, "Hsv<f32>+u8", Alpha<Hsv<Srgb, Vec<f32>>, Vec<u8>>, Alpha<Hsv<Srgb, f32>, u8>, |x, a| Alpha { color: Hsv::new_srgb(x * 10.0, x, x + 0.5), alpha: a });
        mixed_alpha_reads!(out, rng, n, "Lab<f32>+u8", Alpha<Lab<D65, Vec<f32>>, Vec<u8>>, Alpha<Lab<D65, f32>, u8>, |x, a| Alpha { color: Lab::new(x, x + 0.25, x - 0.5), alpha: a });
    }
    // 4. the provided iterator methods (`nth`, `nth_back`, `skip`, `step_by`, `last`, `fold`, `position`, `zip`, ..) of every iterator handed out, every type x {plain, Alpha},
    //    and `drain` of the mixed-alpha collections.  Last, so that the streams above are unchanged.
    for pc in &pcs {
        out.count(&format!("cls:more:provided-methods:{}{}", if pc.cfg.hue { "hue" } else { "nohue" }, if pc.cfg.alpha { "+alpha" } else { "" }));
        (pc.run_provided)(out, rng, if thorough { 400 } else { 18 }, &pc.cfg.tag());
    }
    {
        let n = if thorough { 2000 } else { 60 };
        mixed_alpha_provided!(out, rng, n, "Hsv<f32>+u8", Alpha<Hsv<Srgb, Vec<f32>>, Vec<u8>>, Alpha<Hsv<Srgb, f32>, u8>, |x, a| Alpha { color: Hsv::new_srgb(x * 10.0, x, x + 0.5), alpha: a });
        mixed_alpha_provided!(out, rng, n, "Lab<f32>+u8", Alpha<Lab<D65, Vec<f32>>, Vec<u8>>, Alpha<Lab<D65, f32>, u8>, |x, a| Alpha { color: Lab::new(x, x + 0.25, x - 0.5), alpha: a });
    }
}
