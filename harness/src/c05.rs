//! C05 — transfer functions and their lookup tables.
use crate::common::*;
use palette::encoding::{gamma::GammaFn, linear::LinearFn, AdobeRgb, F2p2, FromLinear, IntoLinear, P3Gamma, ProPhotoRgb, RecOetf, Srgb};

pub const ENCS: [&str; 4] = ["srgb", "rec", "adobe", "p3"];
pub const CURVES: [&str; 7] = ["srgb", "rec", "adobe", "p3", "prophoto", "gamma22", "linear"];

pub fn enc_u8_f32(e: &str, x: f32) -> u8 { match e { "srgb" => <Srgb as FromLinear<f32, u8>>::from_linear(x), "rec" => <RecOetf as FromLinear<f32, u8>>::from_linear(x), "adobe" => <AdobeRgb as FromLinear<f32, u8>>::from_linear(x), _ => <P3Gamma as FromLinear<f32, u8>>::from_linear(x) } }
pub fn enc_u8_f64(e: &str, x: f64) -> u8 { match e { "srgb" => <Srgb as FromLinear<f64, u8>>::from_linear(x), "rec" => <RecOetf as FromLinear<f64, u8>>::from_linear(x), "adobe" => <AdobeRgb as FromLinear<f64, u8>>::from_linear(x), _ => <P3Gamma as FromLinear<f64, u8>>::from_linear(x) } }
pub fn dec_u8_f32(e: &str, c: u8) -> f32 { match e { "srgb" => <Srgb as IntoLinear<f32, u8>>::into_linear(c), "rec" => <RecOetf as IntoLinear<f32, u8>>::into_linear(c), "adobe" => <AdobeRgb as IntoLinear<f32, u8>>::into_linear(c), _ => <P3Gamma as IntoLinear<f32, u8>>::into_linear(c) } }
pub fn dec_u8_f64(e: &str, c: u8) -> f64 { match e { "srgb" => <Srgb as IntoLinear<f64, u8>>::into_linear(c), "rec" => <RecOetf as IntoLinear<f64, u8>>::into_linear(c), "adobe" => <AdobeRgb as IntoLinear<f64, u8>>::into_linear(c), _ => <P3Gamma as IntoLinear<f64, u8>>::into_linear(c) } }

macro_rules! curve_impl { ($t:ty, $name:ident) => {
    pub fn $name(f: &str, into: bool, x: $t) -> $t {
        macro_rules! go { ($s:ty) => { if into { <$s as IntoLinear<$t, $t>>::into_linear(x) } else { <$s as FromLinear<$t, $t>>::from_linear(x) } } }
        match f { "srgb" => go!(Srgb), "rec" => go!(RecOetf), "adobe" => go!(AdobeRgb), "p3" => go!(P3Gamma), "prophoto" => go!(ProPhotoRgb), "gamma22" => go!(GammaFn<F2p2>), _ => go!(LinearFn) }
    } } }
curve_impl!(f32, curve32);
curve_impl!(f64, curve64);

/// the standard's curve, written independently from the published definition (f64), linear -> encoded
pub fn std_oetf(f: &str, l: f64) -> f64 {
    match f {
        "srgb" => if l <= 0.0031308 { 12.92 * l } else { 1.055 * l.powf(1.0 / 2.4) - 0.055 },
        "rec" => { let (a, b) = (1.09929682680944, 0.018053968510807); if l < b { 4.5 * l } else { a * l.powf(0.45) - (a - 1.0) } }
        "adobe" => l.powf(256.0 / 563.0),
        "p3" => l.powf(1.0 / 2.6),
        "prophoto" => if l < 1.0 / 512.0 { 16.0 * l } else { l.powf(1.0 / 1.8) },
        "gamma22" => l.powf(2.2), // palette's GammaFn<F2p2>::from_linear is x^2.2 (its into_linear is x^(1/2.2))
        _ => l,
    }
}
pub fn std_eotf(f: &str, e: f64) -> f64 {
    match f {
        "srgb" => if e <= 0.04045 { e / 12.92 } else { ((e + 0.055) / 1.055).powf(2.4) },
        "rec" => { let (a, b) = (1.09929682680944, 0.018053968510807); if e < 4.5 * b { e / 4.5 } else { ((e + (a - 1.0)) / a).powf(1.0 / 0.45) } }
        "adobe" => e.powf(563.0 / 256.0),
        "p3" => e.powf(2.6),
        "prophoto" => if e < 16.0 / 512.0 { e / 16.0 } else { e.powf(1.8) },
        "gamma22" => e.powf(1.0 / 2.2),
        _ => e,
    }
}

fn f32_inputs(rng: &mut Rng, n: usize) -> Vec<f32> {
    let mut v = vec![];
    let specials = [0.0f32, -0.0, 1.0, -1.0, 0.5, 2.0, 1e-9, -1e-9, f32::MIN_POSITIVE, f32::MAX, f32::MIN, f32::INFINITY, f32::NEG_INFINITY, f32::NAN, -f32::NAN,
        f32::from_bits(1), f32::from_bits(0x007fffff), f32::from_bits(0x3f7fffff), f32::from_bits(0x7fc00001), f32::from_bits(0xffffffff),
        0.0031308, 0.04045, 0.018053968510807, 0.0812428582986315, 0.001953125, 0.03125,
        f32::from_bits(956301312), f32::from_bits(964689920), f32::from_bits(897581056), f32::from_bits(864026624), f32::from_bits(989855744)];
    for s in specials { for k in [-2, -1, 0, 1, 2] { v.push(nudge32(s, k)); } }
    // every table cell boundary (cells are aligned to 2^20 in the bit pattern for the u8 tables, 2^16 for the u16 table) +- 1 ulp, and sub-cell steps
    let mut b = 0x33000000u32; while b <= 0x3f800000 { for k in [-1i32, 0, 1] { v.push(f32::from_bits((b as i32 + k) as u32)); } b += 1 << 20; }
    for _ in 0..n { let b = 0x33000000u32 + (rng.below((0x3f800000u64 - 0x33000000u64) >> 12) as u32) * (1 << 12); for k in [-1i32, 0] { v.push(f32::from_bits((b as i32 + k) as u32)); } }
    for _ in 0..n { v.push(rng.unit() as f32); }
    for _ in 0..n { v.push((rng.unit() * rng.unit() * rng.unit()) as f32); } // dense near zero
    for _ in 0..n / 2 { v.push(f32::from_bits(rng.next() as u32)); }
    for _ in 0..n / 4 { v.push(rng.range(-1.0, 2.0) as f32); }
    v
}

pub fn run(tier: &str, seed: u64, dir: &str) {
    let mut out = Out::new("C05", dir);
    let mut rng = Rng::new(seed);
    let n = if tier == "thorough" { 60_000 } else { 6_000 };
    let xs = f32_inputs(&mut rng, n);
    let mut sorted: Vec<f32> = xs.iter().cloned().filter(|x| !x.is_nan()).collect();
    sorted.sort_by(|a, b| a.partial_cmp(b).unwrap());

    for e in ENCS {
        // ---- decoders: every code, both float types; decode -> encode reproduces the code
        for c in 0..=255u8 {
            let (d32, d64) = (dec_u8_f32(e, c), dec_u8_f64(e, c));
            out.case(&format!("lutdec {} f32 | {} | {}", e, c, h32(d32)));
            out.case(&format!("lutdec {} f64 | {} | {}", e, c, h64(d64)));
            out.check(enc_u8_f32(e, d32) == c, &format!("dec-enc:{}:f32", e), || format!("code {} -> {:e} -> {}", c, d32, enc_u8_f32(e, d32)));
            out.check(enc_u8_f64(e, d64) == c, &format!("dec-enc:{}:f64", e), || format!("code {} -> {:e} -> {}", c, d64, enc_u8_f64(e, d64)));
            // decode table = the standard's inverse curve
            let want = std_eotf(e, c as f64 / 255.0);
            // tolerance 1e-6: the tables are generated from the curve with the continuity-preserving offset (codegen/src/lut.rs), which
            // differs from the published constants by the join step the property itself allows (< 1e-6); same bound as the crate's own test
            out.maxi(&format!("dec-curve-err:{}", e), (d64 - want).abs());
            out.check((d64 - want).abs() <= 1e-6, &format!("dec-curve:{}:f64", e), || format!("code {} -> {:e}, curve {:e}", c, d64, want));
            out.check((d32 as f64 - want).abs() <= 1e-6, &format!("dec-curve:{}:f32", e), || format!("code {} -> {:e}, curve {:e}", c, d32, want));
        }
        // ---- encoders
        for &x in &xs {
            let r = std::panic::catch_unwind(|| enc_u8_f32(e, x));
            match r {
                Ok(c) => {
                    out.case(&format!("lutenc {} | {} | {}", e, h32(x), c));
                    if x.is_nan() { out.count("cls:nan"); }
                    else if x <= 0.0 { out.check(c == 0, &format!("saturate-low:{}", e), || format!("{} -> {}", h32(x), c)); out.count("cls:<=0"); }
                    else if x >= 1.0 { out.check(c == 255, &format!("saturate-high:{}", e), || format!("{} -> {}", h32(x), c)); out.count("cls:>=1"); }
                    else {
                        let err = (c as f64 - 255.0 * std_oetf(e, x as f64)).abs();
                        out.maxi(&format!("enc-err:{}", e), err);
                        out.check(err < 0.6, &format!("faithful:{}", e), || format!("{} ({:e}) -> {} but 255*curve = {:.6}", h32(x), x, c, 255.0 * std_oetf(e, x as f64)));
                        out.count("cls:(0,1)");
                    }
                }
                Err(_) => out.check(false, &format!("total:{}", e), || format!("panic (table index out of bounds?) on {}", h32(x))),
            }
            let x64 = x as f64 + if x.is_finite() { (rng.unit() - 0.5) * 1e-9 * (x.abs() as f64) } else { 0.0 };
            match std::panic::catch_unwind(|| enc_u8_f64(e, x64)) {
                Ok(c) => { out.case(&format!("lutenc {} | {} | {}", e, h64(x64), c));
                    if x64 > 0.0 && x64 < 1.0 { let err = (c as f64 - 255.0 * std_oetf(e, x64)).abs(); out.check(err < 0.6, &format!("faithful64:{}", e), || format!("{} -> {}", h64(x64), c)); } }
                Err(_) => out.check(false, &format!("total:{}", e), || format!("panic on {}", h64(x64))),
            }
        }
        let mut prev: Option<(f32, u8)> = None;
        for &x in &sorted {
            let c = std::panic::catch_unwind(|| enc_u8_f32(e, x)).unwrap_or(0);
            if let Some((px, pc)) = prev { out.check(pc <= c, &format!("monotone:{}", e), || format!("{} -> {} but {} -> {}", h32(px), pc, h32(x), c)); }
            prev = Some((x, c));
        }
    }
    // ---- ProPhoto u16
    for c in (0..=65535u32).step_by(if tier == "thorough" { 1 } else { 257 }) {
        let c = c as u16;
        let d64 = <ProPhotoRgb as IntoLinear<f64, u16>>::into_linear(c);
        let d32 = <ProPhotoRgb as IntoLinear<f32, u16>>::into_linear(c);
        if c as u32 % 257 == 0 { out.case(&format!("lutdec16 prophoto | {} | {}", c, h64(d64))); }
        out.check(<ProPhotoRgb as FromLinear<f64, u16>>::from_linear(d64) == c, "dec-enc:prophoto:f64", || format!("code {} -> {:e} -> {}", c, d64, <ProPhotoRgb as FromLinear<f64, u16>>::from_linear(d64)));
        out.check(<ProPhotoRgb as FromLinear<f32, u16>>::from_linear(d32) == c, "dec-enc:prophoto:f32", || format!("code {} -> {:e} -> {}", c, d32, <ProPhotoRgb as FromLinear<f32, u16>>::from_linear(d32)));
        let want = std_eotf("prophoto", c as f64 / 65535.0);
        out.maxi("dec-curve-err:prophoto16", (d64 - want).abs());
        out.check((d64 - want).abs() <= 1e-6, "dec-curve:prophoto", || format!("code {} -> {:e}, curve {:e}", c, d64, want));
    }
    let mut prev: Option<(f32, u16)> = None;
    for &x in &sorted {
        match std::panic::catch_unwind(|| <ProPhotoRgb as FromLinear<f32, u16>>::from_linear(x)) {
            Ok(c) => {
                out.case(&format!("lutenc16 prophoto | {} | {}", h32(x), c));
                if x <= 0.0 { out.check(c == 0, "saturate-low:prophoto16", || format!("{} -> {}", h32(x), c)); }
                else if x >= 1.0 { out.check(c == 65535, "saturate-high:prophoto16", || format!("{} -> {}", h32(x), c)); }
                else { let err = (c as f64 - 65535.0 * std_oetf("prophoto", x as f64)).abs(); out.maxi("enc-err:prophoto16", err);
                       out.check(err < 0.6, "faithful:prophoto16", || format!("{} ({:e}) -> {} but 65535*curve = {:.6}", h32(x), x, c, 65535.0 * std_oetf("prophoto", x as f64))); }
                if let Some((px, pc)) = prev { out.check(pc <= c, "monotone:prophoto16", || format!("{} -> {} but {} -> {}", h32(px), pc, h32(x), c)); }
                prev = Some((x, c));
            }
            Err(_) => out.check(false, "total:prophoto16", || format!("panic on {}", h32(x))),
        }
    }
    for x in [f32::NAN, -f32::NAN] { if let Ok(c) = std::panic::catch_unwind(|| <ProPhotoRgb as FromLinear<f32, u16>>::from_linear(x)) { out.case(&format!("lutenc16 prophoto | {} | {}", h32(x), c)); } else { out.check(false, "total:prophoto16", || "panic on NaN".into()); } }

    // ---- generic float curves
    let mut grid: Vec<f64> = vec![];
    for i in 0..=(n as u64) { grid.push(i as f64 / n as f64); }
    for t in [0.0031308, 0.04045, 0.018053968510807, 4.5 * 0.018053968510807, 0.001953125, 0.03125] { for k in -3..=3 { grid.push(nudge64(t, k)); grid.push(nudge32(t as f32, k as i32) as f64); } }
    for _ in 0..n { let u = rng.unit(); grid.push(u * u * u); }
    grid.sort_by(|a, b| a.partial_cmp(b).unwrap());
    for f in CURVES {
        for into in [true, false] {
            let dirn = if into { "into" } else { "from" };
            let (mut p32, mut p64): (Option<(f32, f32)>, Option<(f64, f64)>) = (None, None);
            for &x in &grid {
                let y64 = curve64(f, into, x);
                let x32 = x as f32; let y32 = curve32(f, into, x32);
                out.case(&format!("curve {} {} | {} | {}", f, dirn, h64(x), h64(y64)));
                out.case(&format!("curve {} {} | {} | {}", f, dirn, h32(x32), h32(y32)));
                // = the standard's curve
                let want = if into { std_eotf(f, x) } else { std_oetf(f, x) };
                out.check((y64 - want).abs() <= 1e-12, &format!("curve-def:{}:{}:f64", f, dirn), || format!("{:e} -> {:e}, standard {:e}", x, y64, want));
                let want32 = if into { std_eotf(f, x32 as f64) } else { std_oetf(f, x32 as f64) };
                out.check((y32 as f64 - want32).abs() <= 4e-6 * want32.max(0.02), &format!("curve-def:{}:{}:f32", f, dirn), || format!("{:e} -> {:e}, standard {:e}", x32, y32, want32));
                // mutually inverse on [0,1]
                let back = curve64(f, !into, y64);
                out.maxi(&format!("inv-err:{}:{}", f, dirn), (back - x).abs());
                out.check((back - x).abs() <= 1e-6, &format!("inverse:{}:{}:f64", f, dirn), || format!("{:e} -> {:e} -> {:e}", x, y64, back));
                // monotone apart from a join step below 1e-6
                if let Some((px, py)) = p64 { if px < x { out.check(y64 >= py - 1e-6, &format!("monotone:{}:{}:f64", f, dirn), || format!("{:e} -> {:e} but {:e} -> {:e}", px, py, x, y64)); } }
                if let Some((px, py)) = p32 { if px < x32 { out.check(y32 as f64 >= py as f64 - 1e-6, &format!("monotone:{}:{}:f32", f, dirn), || format!("{:e} -> {:e} but {:e} -> {:e}", px, py, x32, y32)); } }
                p64 = Some((x, y64)); p32 = Some((x32, y32));
            }
        }
    }
    // ---- the standards: Rgb<S, T> / Luma<S, T>::{from,into}_linear go through the curve the standard's document prescribes
    // (third column: the published association, written here independently of palette's `type TransferFn = …` lines)
    {
        use palette::encoding::{Rec2020, Rec709, DciP3, DisplayP3, Linear};
        use palette::rgb::{Rgb, RgbStandard};
        use palette::luma::{Luma, LumaStandard};
        let mut sub: Vec<f64> = grid.iter().step_by((grid.len() / 300).max(1)).cloned().collect();
        for t in [0.0031308, 0.04045, 0.018053968510807, 4.5 * 0.018053968510807, 0.001953125, 0.03125] { for k in -2..=2 { sub.push(nudge64(t, k)); } }
        macro_rules! std_case { ($s:ty, $name:expr, $curve:expr) => {{
            type Sp = <$s as RgbStandard>::Space; type Wp = <$s as LumaStandard>::WhitePoint;
            for &x in &sub {
                let x32 = x as f32;
                let rf64 = Rgb::<$s, f64>::from_linear(Rgb::<Linear<Sp>, f64>::new(x, 0.0, 1.0)).red; let ri64 = Rgb::<$s, f64>::new(x, 0.0, 1.0).into_linear::<f64>().red;
                let lf64 = Luma::<$s, f64>::from_linear(Luma::<Linear<Wp>, f64>::new(x)).luma; let li64 = Luma::<$s, f64>::new(x).into_linear::<f64>().luma;
                let rf32 = Rgb::<$s, f32>::from_linear(Rgb::<Linear<Sp>, f32>::new(x32, 0.0, 1.0)).red; let ri32 = Rgb::<$s, f32>::new(x32, 0.0, 1.0).into_linear::<f32>().red;
                let lf32 = Luma::<$s, f32>::from_linear(Luma::<Linear<Wp>, f32>::new(x32)).luma; let li32 = Luma::<$s, f32>::new(x32).into_linear::<f32>().luma;
                for (kind, dirn, y64, y32) in [("rgb", "from", rf64, rf32), ("rgb", "into", ri64, ri32), ("luma", "from", lf64, lf32), ("luma", "into", li64, li32)] {
                    out.case(&format!("stdcurve {} {} {} | {} | {}", $name, kind, dirn, h64(x), h64(y64)));
                    out.case(&format!("stdcurve {} {} {} | {} | {}", $name, kind, dirn, h32(x32), h32(y32)));
                    let want = if dirn == "into" { std_eotf($curve, x) } else { std_oetf($curve, x) };
                    out.check((y64 - want).abs() <= 1e-12, &format!("standard-curve:{}:{}:{}:f64", $name, kind, dirn), || format!("{:e} -> {:e}, the standard's curve ({}) gives {:e}", x, y64, $curve, want));
                    let want32 = if dirn == "into" { std_eotf($curve, x32 as f64) } else { std_oetf($curve, x32 as f64) };
                    out.check((y32 as f64 - want32).abs() <= 4e-6 * want32.max(0.02), &format!("standard-curve:{}:{}:{}:f32", $name, kind, dirn), || format!("{:e} -> {:e}, the standard's curve ({}) gives {:e}", x32, y32, $curve, want32));
                }
                out.count("cls:standard-curve");
            }
        }} }
        // the 8-bit forms of the standards with a lookup table: same code / same value as the table of the published curve
        macro_rules! std_u8 { ($s:ty, $name:expr, $curve:expr) => {{
            type Sp = <$s as RgbStandard>::Space; type Wp = <$s as LumaStandard>::WhitePoint;
            for &x in sub.iter().step_by(3) {
                let x32 = x as f32;
                let r = Rgb::<$s, u8>::from_linear(Rgb::<Linear<Sp>, f32>::new(x32, 0.0, 1.0)).red; let l = Luma::<$s, u8>::from_linear(Luma::<Linear<Wp>, f32>::new(x32)).luma;
                out.check(r == enc_u8_f32($curve, x32) && l == r, &format!("standard-curve:{}:u8:from", $name), || format!("{:e}: Rgb {} Luma {} table of {} {}", x32, r, l, $curve, enc_u8_f32($curve, x32)));
            }
            for c in 0..=255u8 {
                let r: f32 = Rgb::<$s, u8>::new(c, 0, 255).into_linear::<f32>().red; let l: f32 = Luma::<$s, u8>::new(c).into_linear::<f32>().luma;
                out.check(r.to_bits() == dec_u8_f32($curve, c).to_bits() && l.to_bits() == r.to_bits(), &format!("standard-curve:{}:u8:into", $name), || format!("code {}: Rgb {:e} Luma {:e} table of {} {:e}", c, r, l, $curve, dec_u8_f32($curve, c)));
            }
        }} }
        std_case!(Srgb, "Srgb", "srgb"); std_case!(Rec709, "Rec709", "rec"); std_case!(Rec2020, "Rec2020", "rec"); std_case!(AdobeRgb, "AdobeRgb", "adobe");
        std_case!(DciP3, "DciP3", "p3"); std_case!(DisplayP3, "DisplayP3", "srgb"); std_case!(ProPhotoRgb, "ProPhotoRgb", "prophoto");
        std_u8!(Srgb, "Srgb", "srgb"); std_u8!(Rec709, "Rec709", "rec"); std_u8!(Rec2020, "Rec2020", "rec"); std_u8!(AdobeRgb, "AdobeRgb", "adobe");
        std_u8!(DciP3, "DciP3", "p3"); std_u8!(DisplayP3, "DisplayP3", "srgb");
    }
    // ---- exhaustive (thorough): every f32 bit pattern through every u8 encoder and the u16 encoder
    let mut extra = String::new();
    if tier == "thorough" {
        let mut parts = vec![];
        for e in ENCS { let (bps, bad, maxerr) = exhaustive_u8(&mut out, e); parts.push(format!("\"{}\":{{\"breakpoints\":{},\"bad\":{},\"max_err\":{:.6}}}", e, bps, bad, maxerr)); }
        let (bps, bad, maxerr) = exhaustive_u16(&mut out); parts.push(format!("\"prophoto16\":{{\"breakpoints\":{},\"bad\":{},\"max_err\":{:.6}}}", bps, bad, maxerr));
        extra = format!("\"exhaustive\":{{{}}}", parts.join(","));
    }
    // coverage audit: forms, entry points, component types and type parameters the clauses above do not drive (`c05_more.rs`).
    // Called last, so that the case stream above is unchanged.
    crate::c05_more::run_more(&mut out, &mut rng, tier);
    out.finish(dir, &extra);
}

fn exhaustive_u8(out: &mut Out, e: &'static str) -> (u64, u64, f64) {
    let threads = 16u64; let chunk = (1u64 << 32) / threads;
    let hs: Vec<_> = (0..threads).map(|t| std::thread::spawn(move || {
        let (mut bps, mut nbad, mut maxerr) = (0u64, 0u64, 0f64); let mut bad = vec![]; let mut prev: Option<(f32, u8)> = None;
        for b in t * chunk..(t + 1) * chunk {
            let x = f32::from_bits(b as u32);
            let c = match std::panic::catch_unwind(|| enc_u8_f32(e, x)) { Ok(c) => c, Err(_) => { nbad += 1; if bad.len() < 3 { bad.push(format!("panic x{:08x}", b)); } continue; } };
            let ok = if x.is_nan() { true } else if x <= 0.0 { c == 0 } else if x >= 1.0 { c == 255 } else { let err = (c as f64 - 255.0 * std_oetf(e, x as f64)).abs(); if err > maxerr { maxerr = err; } err < 0.6 };
            let mono = match prev { Some((px, pc)) if !x.is_nan() && !px.is_nan() && px.is_sign_negative() == x.is_sign_negative() => if x.is_sign_negative() { c <= pc } else { pc <= c }, _ => true };
            if let Some((_, pc)) = prev { if pc != c { bps += 1; } }
            if !(ok && mono) { nbad += 1; if bad.len() < 3 { bad.push(format!("x{:08x} ({:e}) -> {}", b, x, c)); } }
            prev = Some((x, c));
        }
        (bps, nbad, maxerr, bad)
    })).collect();
    let (mut bps, mut nbad, mut maxerr) = (0, 0, 0f64);
    for h in hs { let (b, n, m, bad) = h.join().unwrap(); bps += b; nbad += n; if m > maxerr { maxerr = m; } for d in bad { out.check(false, &format!("exhaustive:{}", e), || d); } }
    out.oracle_evals += 1u64 << 32;
    (bps, nbad, maxerr)
}
fn exhaustive_u16(out: &mut Out) -> (u64, u64, f64) {
    let threads = 16u64; let chunk = (1u64 << 32) / threads;
    let hs: Vec<_> = (0..threads).map(|t| std::thread::spawn(move || {
        let (mut bps, mut nbad, mut maxerr) = (0u64, 0u64, 0f64); let mut bad = vec![]; let mut prev: Option<(f32, u16)> = None;
        for b in t * chunk..(t + 1) * chunk {
            let x = f32::from_bits(b as u32);
            let c = match std::panic::catch_unwind(|| <ProPhotoRgb as FromLinear<f32, u16>>::from_linear(x)) { Ok(c) => c, Err(_) => { nbad += 1; if bad.len() < 3 { bad.push(format!("panic x{:08x}", b)); } continue; } };
            let ok = if x.is_nan() { true } else if x <= 0.0 { c == 0 } else if x >= 1.0 { c == 65535 } else { let err = (c as f64 - 65535.0 * std_oetf("prophoto", x as f64)).abs(); if err > maxerr { maxerr = err; } err < 0.6 };
            let mono = match prev { Some((px, pc)) if !x.is_nan() && !px.is_nan() && px.is_sign_negative() == x.is_sign_negative() => if x.is_sign_negative() { c <= pc } else { pc <= c }, _ => true };
            if let Some((_, pc)) = prev { if pc != c { bps += 1; } }
            if !(ok && mono) { nbad += 1; if bad.len() < 3 { bad.push(format!("x{:08x} ({:e}) -> {}", b, x, c)); } }
            prev = Some((x, c));
        }
        (bps, nbad, maxerr, bad)
    })).collect();
    let (mut bps, mut nbad, mut maxerr) = (0, 0, 0f64);
    for h in hs { let (b, n, m, bad) = h.join().unwrap(); bps += b; nbad += n; if m > maxerr { maxerr = m; } for d in bad { out.check(false, "exhaustive:prophoto16", || d); } }
    out.oracle_evals += 1u64 << 32;
    (bps, nbad, maxerr)
}
