//! C04 coverage audit (AUDIT_C04.md): the parts of the quantifier that have their own code (a separate impl block, a
//! macro instantiated for a second family, the derive) or their own instantiation, and that `types.rs` / `uints.rs`
//! never executed:
//!   1. the by-reference `From` / `TryFrom` sugar of `impl_array_casts!` (8 impls per colour type, macros/casting.rs),
//!      the slice traits on a `&mut` fixed-size array, a fixed-size component array that is not a multiple;
//!   2. Luma's hand-written `AsRef<T>` / `AsMut<T>` / `From<T>` and `impl_luma_cast_other!` (10 impls x u8..u128, f32, f64);
//!   3. the by-reference `From` sugar of `impl_uint_casts_self!` / `impl_uint_casts_other!` (Packed);
//!   4. `Alpha` around `Packed`, `Alpha`, `PreAlpha` (the links 4 -> 5 and 16 -> 17 of the `NextArray` chain), `Packed<O, [T; 16]>`;
//!   5. non-default type parameters (RGB standard, white point, luma standard, LMS matrix; other channel orders);
//!   6. `#[derive(ArrayCast)]` on types of the user (tuple struct, `repr(transparent)`, a zero-sized field in the middle,
//!      a wrapped field, no type parameter) - oracle only, the model's type table does not know them.
//! Every palette call sits in a macro instantiated at concrete types (no palette trait bound is restated in a generic
//! helper); the generic helpers only receive `fn` pointers.  Called at the end of `c04::run`: the earlier case stream is unchanged.
use super::*;
use core::marker::PhantomData;
use palette::cast::{self, ArrayCast, Packed};
use palette::encoding::{Linear, Srgb};
use palette::luma::Luma;
use palette::white_point::D65;

// ------------------------------------------------------------------------------------------------------------
// 1. single colours by reference: `From<&C> for &[T; N]`, `From<&[T; N]> for &C`, `From<&C> for &[T]`,
//    `TryFrom<&[T]> for &C` and the four `&mut` forms

pub struct RefSugar<C: 'static, T: Comp, const N: usize, const M: usize> {
    pub mk: fn([T; N]) -> C,
    pub rd: fn(&C) -> [T; N],
    pub into_ref: for<'a> fn(&'a C) -> &'a [T; N],
    pub from_ref: for<'a> fn(&'a [T; N]) -> &'a C,
    pub into_slice: for<'a> fn(&'a C) -> &'a [T],
    pub try_ref: for<'a> fn(&'a [T]) -> Option<&'a C>,
    pub into_mut: for<'a> fn(&'a mut C) -> &'a mut [T; N],
    pub from_mut: for<'a> fn(&'a mut [T; N]) -> &'a mut C,
    pub into_slice_mut: for<'a> fn(&'a mut C) -> &'a mut [T],
    pub try_mut: for<'a> fn(&'a mut [T]) -> Option<&'a mut C>,
    // the slice traits with a borrowed fixed-size array as owner (`M` = 2 N + 1 components)
    pub arr_mut_from: for<'a> fn(&'a mut [[T; N]; 2]) -> &'a mut [C],
    pub arr_mut_into: for<'a> fn(&'a mut [C; 2]) -> &'a mut [[T; N]],
    pub try_arr_as: for<'a> fn(&'a [T; M]) -> Option<&'a [C]>,
    pub try_arr_from: for<'a> fn(&'a [T; M]) -> Option<&'a [C]>,
    pub try_arr_as_mut: for<'a> fn(&'a mut [T; M]) -> Option<&'a mut [C]>,
    pub try_arr_from_mut: for<'a> fn(&'a mut [T; M]) -> Option<&'a mut [C]>,
}

/// `&[T] -> &C`: one colour.  Where the single-colour rule coincides with the buffer rule (exactly n components, or not a
/// multiple of n) the common line and clauses are used; a larger multiple of n cannot be viewed length-exactly by one colour.
fn try_single(cx: &mut Ctx, form: &str, api: &str, b: &Raw, r: Option<Raw>) {
    let n = cx.n;
    if b.len == n || b.len % n != 0 {
        cx.emit("tryFromComponents", form, api, b, None, match r { Some(r) => Res::Ok(r), None => Res::Err("slice", None) });
    } else {
        let len = b.len;
        cx.check(r.is_none(), &format!("len-scales:tryFromComponents/{}/{}", form, api), || format!("{} components viewed as one colour of {}", len, n));
    }
}

pub fn ref_sugar<C: 'static, T: Comp, const N: usize, const M: usize>(out: &mut Out, rng: &mut Rng, tier: &str, name: &str, f: RefSugar<C, T, N, M>) {
    let thorough = tier == "thorough";
    let mut cx = Ctx { out, ty: name.to_string(), comp: T::TAG, n: N, hexw: T::HEXW };
    let (mk, rd) = (f.mk, f.rd);
    let one = |c: &C| raw_c(core::slice::from_ref(c), 1, rd);
    let onea = |a: &[T; N]| raw_a(core::slice::from_ref(a), 1);
    for _ in 0..(if thorough { 16 } else { 2 }) {
        let s = rng.next();
        let arr: [T; N] = core::array::from_fn(|j| T::from_seed(s.wrapping_add(j as u64)));
        { let c = mk(arr); let b = one(&c);
          let a = (f.into_ref)(&c); cx.emit("intoArrays", "ref", "From<&C>", &b, None, Res::Ok(onea(a)));
          let c2 = (f.from_ref)(a); let r = one(c2); cx.emit("fromArrays", "ref", "From<&[T;N]>", &onea(a), None, Res::Ok(r.clone())); cx.round_trip("ref/From", &b, &r);
          let sl = (f.into_slice)(&c); cx.emit("intoComponents", "ref", "From<&C>for&[T]", &b, None, Res::Ok(raw_t(sl, sl.len()))); }
        { let mut c = mk(arr); let b = one(&c);
          let a = (f.into_mut)(&mut c); let ra = onea(a); a[N - 1] = T::from_seed(s ^ 0xABCD); let w = a[N - 1].bits();
          cx.emit("intoArrays", "mut", "From<&mut_C>", &b, None, Res::Ok(ra));
          cx.check(rd(&c)[N - 1].bits() == w, "write-through:From<&mut C>", || "write through &mut array not seen in the colour".into());
          let mut a2 = arr; let b2 = onea(&a2); let c2 = (f.from_mut)(&mut a2); let r2 = one(c2); cx.emit("fromArrays", "mut", "From<&mut_[T;N]>", &b2, None, Res::Ok(r2));
          let mut c3 = mk(arr); let b3 = one(&c3);
          let sl = (f.into_slice_mut)(&mut c3); let r3 = raw_t(sl, sl.len());
          let w0 = match sl.first_mut() { Some(x) => { *x = T::from_seed(s ^ 0x1357); Some(x.bits()) } None => None };
          cx.emit("intoComponents", "mut", "From<&mut_C>for&mut[T]", &b3, None, Res::Ok(r3));
          cx.check(w0 == Some(rd(&c3)[0].bits()), "write-through:From<&mut C> for &mut [T]", || "write through &mut [T] not seen in the colour".into()); }
        // component slices of every length up to 2 n + 1, and 3 n
        let mut lens: Vec<usize> = (0..=(2 * N + 1)).collect(); lens.push(3 * N);
        for len in lens {
            let v: Vec<T> = vec_with(len, len, |i| T::from_seed(s.wrapping_add(77 + i as u64))); let b = raw_t(&v, len);
            let r = (f.try_ref)(&v[..]).map(|c| one(c));
            try_single(&mut cx, "ref", "TryFrom<&[T]>", &b, r);
            let mut v2 = v.clone(); let b2 = raw_t(&v2, len);
            let r = (f.try_mut)(&mut v2[..]).map(|c| one(&*c));
            try_single(&mut cx, "mut", "TryFrom<&mut_[T]>", &b2, r);
            cx.check(raw_t(&v2, len) == b2 && raw_t(&v, len) == b, "rejected-unchanged:borrowed", || format!("len {}", len));
        }
        // `&mut [[T; N]; 2]` / `&mut [C; 2]` as owners of FromArrays / IntoArrays
        { let mut aa: [[T; N]; 2] = core::array::from_fn(|i| core::array::from_fn(|j| T::from_seed(s.wrapping_add(200 + (i * N + j) as u64)))); let b = raw_a(&aa, 2);
          let c: &[C] = (f.arr_mut_from)(&mut aa); let r = raw_c(c, c.len(), rd); cx.emit("fromArrays", "array&mut", "FromArrays", &b, None, Res::Ok(r));
          let mut cc: [C; 2] = core::array::from_fn(|i| mk(core::array::from_fn(|j| T::from_seed(s.wrapping_add(300 + (i * N + j) as u64))))); let b = raw_c(&cc, 2, rd);
          let a: &[[T; N]] = (f.arr_mut_into)(&mut cc); let r = raw_a(a, a.len()); cx.emit("intoArrays", "array&mut", "IntoArrays", &b, None, Res::Ok(r)); }
        // a borrowed component array of 2 n + 1 elements (a multiple only for n = 1)
        { let mut t: [T; M] = core::array::from_fn(|i| T::from_seed(s.wrapping_add(400 + i as u64))); let b = raw_t(&t, M);
          let res = |o: Option<Raw>| match o { Some(r) => Res::Ok(r), None => Res::Err("slice", None) };
          let r = (f.try_arr_as)(&t).map(|c| raw_c(c, c.len(), rd)); cx.emit("tryFromComponents", "array&", "TryComponentsAs", &b, None, res(r));
          let r = (f.try_arr_from)(&t).map(|c| raw_c(c, c.len(), rd)); cx.emit("tryFromComponents", "array&", "TryFromComponents", &b, None, res(r));
          let r = (f.try_arr_as_mut)(&mut t).map(|c| { let c: &[C] = c; raw_c(c, c.len(), rd) }); cx.emit("tryFromComponents", "array&mut", "TryComponentsAsMut", &b, None, res(r));
          let r = (f.try_arr_from_mut)(&mut t).map(|c| { let c: &[C] = c; raw_c(c, c.len(), rd) }); cx.emit("tryFromComponents", "array&mut", "TryFromComponents", &b, None, res(r));
          cx.check(raw_t(&t, M) == b, "rejected-unchanged:borrowed", || format!("array of {}", M)); }
    }
}

/// the type table of `body.rs` (`group1!` .. `group3!`), with `castable!` / `packed!` redefined so that each entry
/// instantiates the reference sugar at its concrete type instead of the generic `exercise`
#[allow(unused_imports, unused_macros, dead_code)]
mod tbl {
    include!("body.rs");

    macro_rules! sugar {
        ($out:ident, $rng:ident, $tier:ident, $name:expr, $C:ty, $T:ty, $n:literal, $mk:ident, $rd:ident) => {{
            fn f1<'a>(c: &'a $C) -> &'a [$T; $n] { <&'a [$T; $n]>::from(c) }
            fn f2<'a>(a: &'a [$T; $n]) -> &'a $C { <&'a $C>::from(a) }
            fn f3<'a>(c: &'a $C) -> &'a [$T] { <&'a [$T]>::from(c) }
            fn f4<'a>(s: &'a [$T]) -> Option<&'a $C> { <&'a $C>::try_from(s).ok() }
            fn g1<'a>(c: &'a mut $C) -> &'a mut [$T; $n] { <&'a mut [$T; $n]>::from(c) }
            fn g2<'a>(a: &'a mut [$T; $n]) -> &'a mut $C { <&'a mut $C>::from(a) }
            fn g3<'a>(c: &'a mut $C) -> &'a mut [$T] { <&'a mut [$T]>::from(c) }
            fn g4<'a>(s: &'a mut [$T]) -> Option<&'a mut $C> { <&'a mut $C>::try_from(s).ok() }
            fn h1<'a>(a: &'a mut [[$T; $n]; 2]) -> &'a mut [$C] { <&'a mut [$C]>::from_arrays(a) }
            fn h2<'a>(c: &'a mut [$C; 2]) -> &'a mut [[$T; $n]] { IntoArrays::<&'a mut [[$T; $n]]>::into_arrays(c) }
            fn h3<'a>(t: &'a [$T; 2 * $n + 1]) -> Option<&'a [$C]> { TryComponentsAs::<[$C]>::try_components_as(t).ok() }
            fn h4<'a>(t: &'a [$T; 2 * $n + 1]) -> Option<&'a [$C]> { <&'a [$C]>::try_from_components(t).ok() }
            fn h5<'a>(t: &'a mut [$T; 2 * $n + 1]) -> Option<&'a mut [$C]> { TryComponentsAsMut::<[$C]>::try_components_as_mut(t).ok() }
            fn h6<'a>(t: &'a mut [$T; 2 * $n + 1]) -> Option<&'a mut [$C]> { <&'a mut [$C]>::try_from_components(t).ok() }
            super::ref_sugar::<$C, $T, $n, { 2 * $n + 1 }>($out, $rng, $tier, $name, super::RefSugar {
                mk: $mk, rd: $rd, into_ref: f1, from_ref: f2, into_slice: f3, try_ref: f4, into_mut: g1, from_mut: g2, into_slice_mut: g3, try_mut: g4,
                arr_mut_from: h1, arr_mut_into: h2, try_arr_as: h3, try_arr_from: h4, try_arr_as_mut: h5, try_arr_from_mut: h6 });
        }};
    }

    macro_rules! castable {
        ($out:ident, $rng:ident, $tier:ident, $T:ty, $pre:tt, $name:literal, $ty:ty, $n:literal, $n1:literal, [$($fname:literal),+], |$a:ident| $mk:expr, |$c:ident| [$($rd:expr),+]) => {{
            fn mk0($a: [$T; $n]) -> $ty { $mk }
            fn rd0($c: &$ty) -> [$T; $n] { [$($rd),+] }
            fn mk1(b: [$T; $n1]) -> Alpha<$ty, $T> { Alpha { color: mk0(core::array::from_fn(|i| b[i])), alpha: b[$n] } }
            fn rd1(w: &Alpha<$ty, $T>) -> [$T; $n1] { let r = rd0(&w.color); core::array::from_fn(|i| if i < $n { r[i] } else { w.alpha }) }
            sugar!($out, $rng, $tier, $name, $ty, $T, $n, mk0, rd0);
            sugar!($out, $rng, $tier, concat!("Alpha<", $name, ">"), Alpha<$ty, $T>, $T, $n1, mk1, rd1);
            castable!(@pre $pre, $out, $rng, $tier, $T, $name, $ty, $n, $n1, mk0, rd0);
        }};
        (@pre no, $($rest:tt)*) => {};
        (@pre yes, $out:ident, $rng:ident, $tier:ident, $T:ty, $name:literal, $ty:ty, $n:literal, $n1:literal, $mk0:ident, $rd0:ident) => {{
            fn mk2(b: [$T; $n1]) -> PreAlpha<$ty> { PreAlpha { color: $mk0(core::array::from_fn(|i| b[i])), alpha: b[$n] } }
            fn rd2(w: &PreAlpha<$ty>) -> [$T; $n1] { let r = $rd0(&w.color); core::array::from_fn(|i| if i < $n { r[i] } else { w.alpha }) }
            sugar!($out, $rng, $tier, concat!("PreAlpha<", $name, ">"), PreAlpha<$ty>, $T, $n1, mk2, rd2);
        }};
    }

    macro_rules! packed {
        ($out:ident, $rng:ident, $tier:ident, $T:ty, $name:literal, $order:ty, $n:literal, [$($fname:literal),+]) => {{
            fn mk0(a: [$T; $n]) -> Packed<$order, [$T; $n]> { Packed { color: a, channel_order: PhantomData } }
            fn rd0(c: &Packed<$order, [$T; $n]>) -> [$T; $n] { c.color }
            sugar!($out, $rng, $tier, $name, Packed<$order, [$T; $n]>, $T, $n, mk0, rd0);
        }};
    }

    macro_rules! per_comp {
        ($($f1:ident $f2:ident $f3:ident $T:ty, $pre:tt);+) => {
            $( fn $f1(out: &mut Out, rng: &mut Rng, tier: &str) { group1!(out, rng, tier, $T, $pre); }
               fn $f2(out: &mut Out, rng: &mut Rng, tier: &str) { group2!(out, rng, tier, $T, $pre); }
               fn $f3(out: &mut Out, rng: &mut Rng, tier: &str) { group3!(out, rng, tier, $T, $pre); } )+
            pub fn sugar_all(out: &mut Out, rng: &mut Rng, tier: &str) { $( $f1(out, rng, tier); $f2(out, rng, tier); $f3(out, rng, tier); )+ }
        };
    }
    per_comp!(a1 a2 a3 u8, no; b1 b2 b3 u16, no; c1 c2 c3 u32, no; d1 d2 d3 f32, yes; e1 e2 e3 f64, yes);

    // ---- 4. wrappers around wrappers, wide `Packed`; 5. non-default type parameters: the whole generic exercise
    use palette::encoding::{AdobeRgb, Linear};
    use palette::lms::matrix::VonKries;
    use palette::white_point::D50;

    /// `$name` / `$ty` with `$n` channels and the same type inside `Alpha`
    macro_rules! full {
        ($out:ident, $rng:ident, $tier:ident, $T:ty, $name:literal, $ty:ty, $n:literal, $n1:literal, [$($fname:literal),+], |$a:ident| $mk:expr, |$c:ident| [$($rd:expr),+]) => {{
            fn mk0($a: [$T; $n]) -> $ty { $mk }
            fn rd0($c: &$ty) -> [$T; $n] { [$($rd),+] }
            fn mk1(b: [$T; $n1]) -> Alpha<$ty, $T> { Alpha { color: mk0(core::array::from_fn(|i| b[i])), alpha: b[$n] } }
            fn rd1(w: &Alpha<$ty, $T>) -> [$T; $n1] { let r = rd0(&w.color); core::array::from_fn(|i| if i < $n { r[i] } else { w.alpha }) }
            exercise::<$ty, $T, $n>($out, $rng, $tier, $name, &[$($fname),+], mk0, rd0);
            exercise::<Alpha<$ty, $T>, $T, $n1>($out, $rng, $tier, concat!("Alpha<", $name, ">"), &[$($fname,)+ "alpha"], mk1, rd1);
            array_forms::<Alpha<$ty, $T>, $T, $n1, 2, { 2 * $n1 }>($out, $rng, concat!("Alpha<", $name, ">"), mk1, rd1);
            array_min::<Alpha<$ty, $T>, $T, $n1, 2, { 2 * $n1 + 1 }>($out, $rng, concat!("Alpha<", $name, ">"), mk1, rd1);
        }};
    }

    macro_rules! nested {
        ($out:ident, $rng:ident, $tier:ident, $T:ty) => {
            full!($out, $rng, $tier, $T, "Packed<4>", Packed<palette::rgb::channels::Bgra, [$T; 4]>, 4, 5, ["0", "1", "2", "3"],
                |a| Packed { color: a, channel_order: PhantomData }, |c| [c.color[0], c.color[1], c.color[2], c.color[3]]);
            full!($out, $rng, $tier, $T, "Alpha<Rgb>", Alpha<Rgb<Srgb, $T>, $T>, 4, 5, ["red", "green", "blue", "alpha"],
                |a| Alpha { color: Rgb::new(a[0], a[1], a[2]), alpha: a[3] }, |c| [c.color.red, c.color.green, c.color.blue, c.alpha]);
            full!($out, $rng, $tier, $T, "Packed<16>", Packed<palette::rgb::channels::Rgba, [$T; 16]>, 16, 17, ["0", "1", "2", "3", "4", "5", "6", "7", "8", "9", "10", "11", "12", "13", "14", "15"],
                |a| Packed { color: a, channel_order: PhantomData }, |c| [c.color[0], c.color[1], c.color[2], c.color[3], c.color[4], c.color[5], c.color[6], c.color[7],
                    c.color[8], c.color[9], c.color[10], c.color[11], c.color[12], c.color[13], c.color[14], c.color[15]]);
        };
    }
    fn nested_u8(out: &mut Out, rng: &mut Rng, tier: &str) { nested!(out, rng, tier, u8); }
    fn nested_f32(out: &mut Out, rng: &mut Rng, tier: &str) {
        nested!(out, rng, tier, f32);
        full!(out, rng, tier, f32, "PreAlpha<Rgb>", PreAlpha<Rgb<Srgb, f32>>, 4, 5, ["red", "green", "blue", "alpha"],
            |a| PreAlpha { color: Rgb::new(a[0], a[1], a[2]), alpha: a[3] }, |c| [c.color.red, c.color.green, c.color.blue, c.alpha]);
    }
    fn params(out: &mut Out, rng: &mut Rng, tier: &str) {
        full!(out, rng, tier, f32, "Rgb", Rgb<Linear<Srgb>, f32>, 3, 4, ["red", "green", "blue"], |a| Rgb::new(a[0], a[1], a[2]), |c| [c.red, c.green, c.blue]);
        full!(out, rng, tier, u8, "Rgb", Rgb<AdobeRgb, u8>, 3, 4, ["red", "green", "blue"], |a| Rgb::new(a[0], a[1], a[2]), |c| [c.red, c.green, c.blue]);
        full!(out, rng, tier, u16, "Luma", Luma<Linear<D65>, u16>, 1, 2, ["luma"], |a| Luma::new(a[0]), |c| [c.luma]);
        full!(out, rng, tier, f64, "Xyz", Xyz<D50, f64>, 3, 4, ["x", "y", "z"], |a| Xyz::new(a[0], a[1], a[2]), |c| [c.x, c.y, c.z]);
        full!(out, rng, tier, f32, "Lms", Lms<VonKries, f32>, 3, 4, ["long", "medium", "short"], |a| Lms::new(a[0], a[1], a[2]), |c| [c.long, c.medium, c.short]);
        full!(out, rng, tier, u32, "Hsv", Hsv<AdobeRgb, u32>, 3, 4, ["hue", "saturation", "value"], |a| Hsv::new_const(RgbHue::new(a[0]), a[1], a[2]), |c| [c.hue.into_inner(), c.saturation, c.value]);
        full!(out, rng, tier, f64, "Lch", Lch<D50, f64>, 3, 4, ["l", "chroma", "hue"], |a| Lch::new_const(a[0], a[1], LabHue::new(a[2])), |c| [c.l, c.chroma, c.hue.into_inner()]);
        { fn mk2(b: [f32; 4]) -> PreAlpha<Rgb<Linear<Srgb>, f32>> { PreAlpha { color: Rgb::new(b[0], b[1], b[2]), alpha: b[3] } }
          fn rd2(w: &PreAlpha<Rgb<Linear<Srgb>, f32>>) -> [f32; 4] { [w.color.red, w.color.green, w.color.blue, w.alpha] }
          exercise::<PreAlpha<Rgb<Linear<Srgb>, f32>>, f32, 4>(out, rng, tier, "PreAlpha<Rgb>", &["red", "green", "blue", "alpha"], mk2, rd2); }
    }
    pub fn extra_types(out: &mut Out, rng: &mut Rng, tier: &str) { nested_u8(out, rng, tier); nested_f32(out, rng, tier); params(out, rng, tier); }
}

// ------------------------------------------------------------------------------------------------------------
// 2. Luma as its component: `AsRef<T>` / `AsMut<T>` / `From<T>` (hand-written) and `impl_luma_cast_other!`
//    (unsigned integers: the uint ops of the model; f32 / f64: the one-component array ops)
macro_rules! luma_std {
    ($out:ident, $rng:ident, $U:ty, $into:literal, $from:literal) => {{
        type L = Luma<Srgb, $U>;
        let mut cx = Ctx { out: &mut *$out, ty: "Luma".to_string(), comp: <$U as Comp>::TAG, n: 1, hexw: <$U as Comp>::HEXW };
        let one = |c: &L| Raw { ptr: c as *const L as usize, len: 1, cap: 1, mem: vec![c.luma.bits()] };
        let oneu = |u: &$U| raw_t(core::slice::from_ref(u), 1);
        for _ in 0..24 {
            let x = <$U as Comp>::from_seed($rng.next());
            { let c: L = Luma::new(x); let b = one(&c);
              let u: &$U = AsRef::<$U>::as_ref(&c); cx.emit($into, "ref", "Luma:AsRef<T>", &b, None, Res::Ok(oneu(u)));
              let c2: &L = AsRef::<L>::as_ref(u); let r = one(c2); cx.emit($from, "ref", "T:AsRef<Luma>", &oneu(u), None, Res::Ok(r.clone())); cx.round_trip("luma/AsRef", &b, &r);
              let u: &$U = <&$U>::from(&c); cx.emit($into, "ref", "From<&Luma>", &b, None, Res::Ok(oneu(u)));
              let c3: &L = <&L>::from(u); let r = one(c3); cx.emit($from, "ref", "From<&T>", &oneu(u), None, Res::Ok(r.clone())); cx.round_trip("luma/From<&>", &b, &r); }
            { let mut c: L = Luma::new(x); let b = one(&c);
              let u: &mut $U = AsMut::<$U>::as_mut(&mut c); let r = oneu(u); *u = <$U as Comp>::from_seed((x.bits() as u64) ^ 0x77); let w = u.bits();
              cx.emit($into, "mut", "Luma:AsMut<T>", &b, None, Res::Ok(r));
              cx.check(c.luma.bits() == w, "write-through:Luma AsMut<T>", || "write through &mut T not seen in the colour".into());
              let b = one(&c);
              let u: &mut $U = <&mut $U>::from(&mut c); let r = oneu(u); *u = x; cx.emit($into, "mut", "From<&mut_Luma>", &b, None, Res::Ok(r));
              cx.check(c.luma.bits() == x.bits(), "write-through:From<&mut Luma>", || "write through &mut T not seen in the colour".into());
              let mut y = x; let by = oneu(&y); let c4: &mut L = AsMut::<L>::as_mut(&mut y); let r = one(c4); cx.emit($from, "mut", "T:AsMut<Luma>", &by, None, Res::Ok(r));
              let mut y = x; let by = oneu(&y); let c5: &mut L = <&mut L>::from(&mut y); let r = one(c5); cx.emit($from, "mut", "From<&mut_T>", &by, None, Res::Ok(r)); }
            { let c: L = Luma::new(x); let b = one(&c);
              let u: $U = <$U>::from(c); cx.emit($into, "value", "From<Luma>", &b, None, Res::Ok(oneu(&u)));
              let c6: L = L::from(u); cx.emit($from, "value", "From<T>", &oneu(&u), None, Res::Ok(one(&c6)));
              cx.check(c6.luma.bits() == x.bits(), "round-trip:luma/From", || format!("{:x}", x.bits())); }
        }
    }};
}

// 3. `Packed<O, uN>` by reference: `From<&uN> for &Packed`, `From<&mut uN> for &mut Packed` (impl_uint_casts_self!),
//    `From<&Packed> for &uN`, `From<&mut Packed> for &mut uN` (impl_uint_casts_other!, one invocation per integer type)
macro_rules! packed_ref_std {
    ($out:ident, $rng:ident, $O:ty, $U:ty) => {{
        type P = Packed<$O, $U>;
        let mut cx = Ctx { out: &mut *$out, ty: "Packed".to_string(), comp: <$U as Comp>::TAG, n: 1, hexw: <$U as Comp>::HEXW };
        let one = |c: &P| Raw { ptr: c as *const P as usize, len: 1, cap: 1, mem: vec![c.color.bits()] };
        let oneu = |u: &$U| raw_t(core::slice::from_ref(u), 1);
        for _ in 0..24 {
            let x = <$U as Comp>::from_seed($rng.next());
            let mut c: P = Packed { color: x, channel_order: PhantomData }; let b = one(&c);
            { let u: &$U = <&$U>::from(&c); cx.emit("intoUints", "ref", "From<&Packed>", &b, None, Res::Ok(oneu(u)));
              let c2: &P = <&P>::from(u); let r = one(c2); cx.emit("fromUints", "ref", "From<&uint>", &oneu(u), None, Res::Ok(r.clone())); cx.round_trip("uint/From<&>", &b, &r); }
            { let u: &mut $U = <&mut $U>::from(&mut c); let r = oneu(u); *u = <$U as Comp>::from_seed((x.bits() as u64) ^ 0x99); let w = u.bits();
              cx.emit("intoUints", "mut", "From<&mut_Packed>", &b, None, Res::Ok(r));
              cx.check(c.color.bits() == w, "write-through:From<&mut Packed>", || "write through &mut uint not seen in the colour".into());
              let mut y = x; let by = oneu(&y); let c3: &mut P = <&mut P>::from(&mut y); let r = one(c3); cx.emit("fromUints", "mut", "From<&mut_uint>", &by, None, Res::Ok(r)); }
        }
    }};
}

// ------------------------------------------------------------------------------------------------------------
// 6. `#[derive(ArrayCast)]` on the user's own types (palette_derive/src/cast/array_cast.rs).  Nothing here names the
//    array length in a type: a miscounted channel number shows as a failing clause, not as a compile error.
#[derive(ArrayCast, Clone, Copy, Debug)]
#[repr(C)]
pub struct UTuple<S, T>(pub T, #[palette(unsafe_zero_sized)] pub PhantomData<S>, pub T);
#[derive(ArrayCast, Clone, Copy, Debug)]
#[repr(transparent)]
pub struct UOne<T>(pub T);
#[derive(ArrayCast, Clone, Copy, Debug)]
#[repr(C)]
pub struct UFive<T> { pub a: T, pub b: T, pub c: T, pub d: T, pub e: T }
#[derive(ArrayCast, Clone, Copy, Debug)]
#[repr(C)]
pub struct UHue<T> {
    #[palette(unsafe_same_layout_as = "T")]
    pub h: palette::RgbHue<T>,
    #[palette(unsafe_zero_sized)]
    pub m: PhantomData<u64>,
    pub x: T,
}
#[derive(ArrayCast, Clone, Copy, Debug)]
#[repr(C)]
pub struct UPlain { pub a: f32, pub b: f32 }

pub struct Light<U: 'static, T: Comp> {
    pub n: usize,                 // memory fields the struct declares
    pub length: usize,            // <<U as ArrayCast>::Array as ArrayExt>::LENGTH
    pub layout: [usize; 4],       // size_of / align_of of U, then of T
    pub mk: fn(&[T]) -> U,        // through the fields, in declared order
    pub rd: fn(&U) -> Vec<T>,
    pub into_slice: for<'a> fn(&'a [U]) -> &'a [T],
    pub try_slice: for<'a> fn(&'a [T]) -> Option<&'a [U]>,
    pub into_vec: fn(Vec<U>) -> Vec<T>,
    pub try_vec: fn(Vec<T>) -> Result<Vec<U>, (&'static str, Vec<T>)>,
    pub into_box: fn(Box<[U]>) -> Box<[T]>,
    pub try_box: fn(Box<[T]>) -> Result<Box<[U]>, Box<[T]>>,
}

pub fn light<U: 'static, T: Comp>(out: &mut Out, rng: &mut Rng, name: &str, f: Light<U, T>) {
    let n = f.n;
    let mut cx = Ctx { out, ty: name.to_string(), comp: T::TAG, n, hexw: T::HEXW };
    let (mk, rd) = (f.mk, f.rd);
    let ru = |s: &[U], cap: usize| Raw { ptr: s.as_ptr() as usize, len: s.len(), cap, mem: s.iter().flat_map(|u| rd(u)).map(|x| x.bits()).collect() };
    cx.check(f.length == n, "channel-count:derive", || format!("LENGTH {} for {} memory fields", f.length, n));
    let lay = f.layout;
    cx.check(lay[0] == n * lay[2] && lay[1] == lay[3], "layout:derive", || format!("size/align {:?}", lay));
    let build = |s: u64, cnt: usize, cap: usize| -> Vec<U> { vec_with(cnt, cap, |i| { let v: Vec<T> = (0..n).map(|j| T::from_seed(s.wrapping_add((i * n + j) as u64))).collect(); mk(&v) }) };
    for cnt in [0usize, 1, 2, 5] {
        let s = rng.next();
        { let v = build(s, cnt, cnt); let b = ru(&v, cnt);
          let r = match quiet(|| { let t = (f.into_slice)(&v); raw_t(t, t.len()) }) { Some(r) => Res::Ok(r), None => Res::Panic };
          cx.emit_opt(false, "intoComponents", "slice", "into_component_slice", &b, None, r); }
        { let v = build(s, cnt, cnt).into_boxed_slice(); let b = ru(&v, cnt);
          match quiet(move || (f.into_box)(v)) {
              Some(t) => { let rt = raw_t(&t, t.len()); cx.emit_opt(false, "intoComponents", "boxslice", "into_component_slice_box", &b, None, Res::Ok(rt.clone()));
                  match quiet(move || (f.try_box)(t)) {
                      Some(Ok(c)) => { let r = ru(&c, c.len()); cx.emit_opt(false, "tryFromComponents", "boxslice", "try_from_component_slice_box", &rt, None, Res::Ok(r.clone())); cx.round_trip("components/boxslice", &b, &r); }
                      Some(Err(e)) => { let l = e.len(); cx.emit_opt(false, "tryFromComponents", "boxslice", "try_from_component_slice_box", &rt, None, Res::Err("boxed", Some(raw_t(&e, l)))) }
                      None => cx.emit_opt(false, "tryFromComponents", "boxslice", "try_from_component_slice_box", &rt, None, Res::Panic) } }
              None => cx.emit_opt(false, "intoComponents", "boxslice", "into_component_slice_box", &b, None, Res::Panic) } }
        for cap in caps(cnt, n, false) {
            let v = build(s, cnt, cap); let b = ru(&v, v.capacity());
            match quiet(move || (f.into_vec)(v)) {
                Some(t) => { let rt = raw_t(&t, t.capacity()); cx.emit_opt(false, "intoComponents", "vec", "into_component_vec", &b, None, Res::Ok(rt.clone()));
                    match quiet(move || (f.try_vec)(t)) {
                        Some(Ok(c)) => { let r = ru(&c, c.capacity()); cx.emit_opt(false, "tryFromComponents", "vec", "try_from_component_vec", &rt, None, Res::Ok(r.clone())); cx.round_trip("components/vec", &b, &r); }
                        Some(Err((k, e))) => { let c = e.capacity(); cx.emit_opt(false, "tryFromComponents", "vec", "try_from_component_vec", &rt, None, Res::Err(k, Some(raw_t(&e, c)))) }
                        None => cx.emit_opt(false, "tryFromComponents", "vec", "try_from_component_vec", &rt, None, Res::Panic) } }
                None => cx.emit_opt(false, "intoComponents", "vec", "into_component_vec", &b, None, Res::Panic) }
        }
    }
    for len in 0..=(2 * n + 1) {
        let s = rng.next();
        let comps = |cap: usize| -> Vec<T> { vec_with(len, cap, |i| T::from_seed(s.wrapping_add(i as u64))) };
        { let v = comps(len); let b = raw_t(&v, len);
          let r = match quiet(|| (f.try_slice)(&v).map(|c| ru(c, c.len()))) { Some(Some(r)) => Res::Ok(r), Some(None) => Res::Err("slice", None), None => Res::Panic };
          cx.emit_opt(false, "tryFromComponents", "slice", "try_from_component_slice", &b, None, r); }
        { let v = comps(len).into_boxed_slice(); let b = raw_t(&v, len);
          let r = match quiet(move || (f.try_box)(v)) { Some(Ok(c)) => Res::Ok(ru(&c, c.len())), Some(Err(e)) => { let l = e.len(); Res::Err("boxed", Some(raw_t(&e, l))) } None => Res::Panic };
          cx.emit_opt(false, "tryFromComponents", "boxslice", "try_from_component_slice_box", &b, None, r); }
        for cap in caps(len, n, false) {
            let v = comps(cap); let b = raw_t(&v, v.capacity());
            let r = match quiet(move || (f.try_vec)(v)) { Some(Ok(c)) => Res::Ok(ru(&c, c.capacity())), Some(Err((k, e))) => { let c = e.capacity(); Res::Err(k, Some(raw_t(&e, c))) } None => Res::Panic };
            cx.emit_opt(false, "tryFromComponents", "vec", "try_from_component_vec", &b, None, r);
        }
    }
}

macro_rules! light {
    ($out:ident, $rng:ident, $name:expr, $U:ty, $T:ty, $n:expr, |$s:ident| $mk:expr, |$u:ident| [$($rd:expr),+]) => {{
        fn mk($s: &[$T]) -> $U { $mk }
        fn rd($u: &$U) -> Vec<$T> { vec![$($rd),+] }
        fn a1<'a>(v: &'a [$U]) -> &'a [$T] { cast::into_component_slice(v) }
        fn a2<'a>(t: &'a [$T]) -> Option<&'a [$U]> { cast::try_from_component_slice::<$U>(t).ok() }
        fn a3(v: Vec<$U>) -> Vec<$T> { cast::into_component_vec(v) }
        fn a4(t: Vec<$T>) -> Result<Vec<$U>, (&'static str, Vec<$T>)> {
            cast::try_from_component_vec::<$U>(t).map_err(|e| (match e.kind { cast::VecCastErrorKind::LengthMismatch => "length", cast::VecCastErrorKind::CapacityMismatch => "capacity" }, e.values))
        }
        fn a5(v: Box<[$U]>) -> Box<[$T]> { cast::into_component_slice_box(v) }
        fn a6(t: Box<[$T]>) -> Result<Box<[$U]>, Box<[$T]>> { cast::try_from_component_slice_box::<$U>(t).map_err(|e| e.values) }
        light::<$U, $T>($out, $rng, $name, Light { n: $n, length: <<$U as ArrayCast>::Array as palette::ArrayExt>::LENGTH,
            layout: [std::mem::size_of::<$U>(), std::mem::align_of::<$U>(), std::mem::size_of::<$T>(), std::mem::align_of::<$T>()],
            mk, rd, into_slice: a1, try_slice: a2, into_vec: a3, try_vec: a4, into_box: a5, try_box: a6 });
    }};
}

macro_rules! user_types {
    ($out:ident, $rng:ident, $($T:ty),+) => { $(
        light!($out, $rng, "user:UTuple", UTuple<u64, $T>, $T, 2, |s| UTuple(s[0], PhantomData, s[1]), |u| [u.0, u.2]);
        light!($out, $rng, "user:UOne", UOne<$T>, $T, 1, |s| UOne(s[0]), |u| [u.0]);
        light!($out, $rng, "user:UFive", UFive<$T>, $T, 5, |s| UFive { a: s[0], b: s[1], c: s[2], d: s[3], e: s[4] }, |u| [u.a, u.b, u.c, u.d, u.e]);
        light!($out, $rng, "user:UHue", UHue<$T>, $T, 2, |s| UHue { h: palette::RgbHue::new(s[0]), m: PhantomData, x: s[1] }, |u| [u.h.into_inner(), u.x]);
    )+ };
}

pub fn run_all(out: &mut Out, rng: &mut Rng, tier: &str) {
    tbl::sugar_all(out, rng, tier);
    tbl::extra_types(out, rng, tier);
    luma_std!(out, rng, u8, "intoUints", "fromUints");
    luma_std!(out, rng, u16, "intoUints", "fromUints");
    luma_std!(out, rng, u32, "intoUints", "fromUints");
    luma_std!(out, rng, u64, "intoUints", "fromUints");
    luma_std!(out, rng, u128, "intoUints", "fromUints");
    luma_std!(out, rng, f32, "intoArrays", "fromArrays");
    luma_std!(out, rng, f64, "intoArrays", "fromArrays");
    packed_ref_std!(out, rng, palette::rgb::channels::Argb, u8);
    packed_ref_std!(out, rng, palette::rgb::channels::Rgba, u16);
    packed_ref_std!(out, rng, palette::rgb::channels::Abgr, u32);
    packed_ref_std!(out, rng, palette::luma::channels::La, u64);
    packed_ref_std!(out, rng, palette::rgb::channels::Bgra, u128);
    packed_ref_std!(out, rng, palette::luma::channels::Al, u32);
    // the uint casts at other luma standards / channel orders (one generic `unsafe impl` each; other instantiation)
    { fn mk(x: u8) -> Luma<Linear<D65>, u8> { Luma::new(x) } fn rd(c: &Luma<Linear<D65>, u8>) -> u8 { c.luma }
      super::uints::exercise_uint::<Luma<Linear<D65>, u8>, u8>(out, rng, tier, "Luma", mk, rd); }
    { fn mk(x: u128) -> Luma<Linear<D65>, u128> { Luma::new(x) } fn rd(c: &Luma<Linear<D65>, u128>) -> u128 { c.luma }
      super::uints::exercise_uint::<Luma<Linear<D65>, u128>, u128>(out, rng, tier, "Luma", mk, rd); }
    { type P = Packed<palette::rgb::channels::Bgra, u32>;
      fn mk(x: u32) -> P { Packed { color: x, channel_order: PhantomData } } fn rd(c: &P) -> u32 { c.color }
      super::uints::exercise_uint::<P, u32>(out, rng, tier, "Packed", mk, rd); }
    user_types!(out, rng, u8, u16, u32, f32, f64);
    light!(out, rng, "user:UPlain", UPlain, f32, 2, |s| UPlain { a: s[0], b: s[1] }, |u| [u.a, u.b]);
}
