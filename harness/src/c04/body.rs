// every `ArrayCast` colour type x component type, through the free functions and the cast traits
use super::super::*;
use palette::cast::{self, ArrayCast};
use palette::cast::{ArraysAs, ArraysAsMut, ArraysFrom, ArraysInto, AsArrays, AsArraysMut, AsComponents, AsComponentsMut, ComponentsAs, ComponentsAsMut,
    ComponentsFrom, ComponentsInto, FromArrays, FromComponents, IntoArrays, IntoComponents, TryComponentsAs, TryComponentsAsMut, TryComponentsInto, TryFromComponents};

fn seq<T: Comp>(s: u64, len: usize) -> impl FnMut(usize) -> T { move |i| { let _ = len; T::from_seed(s.wrapping_add(i as u64)) } }
fn colors<C, T: Comp, const N: usize>(s: u64, count: usize, cap: usize, mk: fn([T; N]) -> C) -> Vec<C> {
    vec_with(count, cap, |i| mk(core::array::from_fn(|j| T::from_seed(s.wrapping_add((i * N + j) as u64)))))
}
fn vec_err<T: Comp>(e: cast::VecCastError<T>) -> Res {
    let k = match e.kind { cast::VecCastErrorKind::LengthMismatch => "length", cast::VecCastErrorKind::CapacityMismatch => "capacity" };
    let cap = e.values.capacity();
    Res::Err(k, Some(raw_t(&e.values, cap)))
}

pub fn exercise<C, T, const N: usize>(out: &mut Out, rng: &mut Rng, tier: &str, name: &str, names: &[&str], mk: fn([T; N]) -> C, rd: fn(&C) -> [T; N])
where
    T: Comp,
    C: ArrayCast<Array = [T; N]> + 'static + From<[T; N]> + Into<[T; N]> + AsRef<[T; N]> + AsMut<[T; N]> + AsRef<[T]> + AsMut<[T]>,
    [T; N]: AsRef<C> + AsMut<C>,
    Box<C>: From<Box<[T; N]>>,
    Box<[T; N]>: From<Box<C>>,
{
    let pl = plan(tier, N, rng);
    let mut cx = Ctx { out, ty: name.to_string(), comp: T::TAG, n: N, hexw: T::HEXW };
    let s0 = rng.next();
    let rc = |s: &[C], cap: usize| raw_c(s, cap, rd);

    // ---- field order and layout, as the running code reports them
    {
        let arr: [T; N] = core::array::from_fn(|j| T::from_seed(s0.wrapping_add(j as u64)));
        let c: C = cast::from_array(arr);
        let by_name = rd(&c);
        let pos: Vec<String> = by_name.iter().map(|v| arr.iter().position(|a| a.bits() == v.bits()).map_or("99".into(), |p| p.to_string())).collect();
        let len = <<C as ArrayCast>::Array as palette::ArrayExt>::LENGTH;
        cx.out.case(&format!("c04fields {} {} | {} | {} {}", name, T::TAG, names.join(" "), len, pos.join(" ")));
        cx.out.case(&format!("c04layout {} {} | {} {} | {} {} {} {} {}", name, T::TAG, std::mem::size_of::<T>(), std::mem::align_of::<T>(),
            std::mem::size_of::<C>(), std::mem::align_of::<C>(), std::mem::size_of::<[T; N]>(), std::mem::align_of::<[T; N]>(), len));
        // declared order: the positional constructor's arguments (alpha last) are the array, in order
        let a2 = cast::into_array(mk(arr));
        cx.check(a2.iter().zip(arr.iter()).all(|(x, y)| x.bits() == y.bits()), "declared-order:constructor->array", || format!("{:?} -> {:?}", arr, a2));
        cx.check(names.len() == N && len == N, "channel-count", || format!("LENGTH {} names {:?}", len, names));
        if name.starts_with("Alpha<") || name.starts_with("PreAlpha<") {
            cx.check(names.last() == Some(&"alpha") && pos.last().map(|p| p.as_str()) == Some(&(N - 1).to_string()[..]), "alpha-last", || format!("{:?} {:?}", names, pos));
        }
        cx.check(std::mem::size_of::<C>() == N * std::mem::size_of::<T>() && std::mem::align_of::<C>() == std::mem::align_of::<T>(), "layout", || "size/align".into());
    }

    // ---- a single colour: value, &, &mut, Box
    for rep in 0..(if pl.thorough { 16 } else { 3 }) {
        let s = s0.wrapping_add(1000 * (rep + 1));
        let arr: [T; N] = core::array::from_fn(|j| T::from_seed(s.wrapping_add(j as u64)));
        let one = |c: &C| rc(core::slice::from_ref(c), 1);
        let onea = |a: &[T; N]| raw_a(core::slice::from_ref(a), 1);
        // by value
        { let c = mk(arr); let b = one(&c); let a = cast::into_array(c); cx.emit("intoArrays", "value", "into_array", &b, None, Res::Ok(onea(&a)));
          let c2: C = cast::from_array(a); let r = one(&c2); cx.emit("fromArrays", "value", "from_array", &onea(&a), None, Res::Ok(r.clone()));
          cx.check(r.mem == b.mem, "round-trip:value", || format!("{:?}", arr)); }
        { let c = mk(arr); let b = one(&c); let a: [T; N] = c.into(); cx.emit("intoArrays", "value", "Into", &b, None, Res::Ok(onea(&a)));
          let c2 = C::from(a); cx.emit("fromArrays", "value", "From", &onea(&a), None, Res::Ok(one(&c2))); }
        // shared reference
        { let c = mk(arr); let b = one(&c);
          let a = cast::into_array_ref(&c); cx.emit("intoArrays", "ref", "into_array_ref", &b, None, Res::Ok(onea(a)));
          let c2: &C = cast::from_array_ref(a); cx.emit("fromArrays", "ref", "from_array_ref", &onea(a), None, Res::Ok(one(c2))); cx.round_trip("ref", &b, &one(c2));
          let a3: &[T; N] = c.as_ref(); cx.emit("intoArrays", "ref", "AsRef", &b, None, Res::Ok(onea(a3)));
          let c3: &C = a3.as_ref(); cx.emit("fromArrays", "ref", "AsRef", &onea(a3), None, Res::Ok(one(c3)));
          let sl: &[T] = c.as_ref(); cx.emit("intoComponents", "ref", "AsRef<[T]>", &b, None, Res::Ok(raw_t(sl, N))); }
        // mutable reference (and writing through it lands in the colour)
        { let mut c = mk(arr); let b = one(&c);
          let a = cast::into_array_mut(&mut c); let ra = onea(a); a[N - 1] = T::from_seed(s ^ 0xABCD); let w = a[N - 1].bits();
          cx.emit("intoArrays", "mut", "into_array_mut", &b, None, Res::Ok(ra));
          cx.check(rd(&c)[N - 1].bits() == w, "write-through:into_array_mut", || "write through &mut array not seen in the colour".into());
          let mut a2 = arr; let b2 = onea(&a2); let c2: &mut C = cast::from_array_mut(&mut a2); let r2 = one(c2); cx.emit("fromArrays", "mut", "from_array_mut", &b2, None, Res::Ok(r2));
          let mut c6 = mk(arr); let b6 = one(&c6); let a3: &mut [T; N] = c6.as_mut(); let r3 = onea(a3); cx.emit("intoArrays", "mut", "AsMut", &b6, None, Res::Ok(r3));
          let mut a4 = arr; let b4 = onea(&a4); let c4: &mut C = a4.as_mut(); let r4 = one(c4); cx.emit("fromArrays", "mut", "AsMut", &b4, None, Res::Ok(r4));
          let mut c5 = mk(arr); let b5 = one(&c5); let sl: &mut [T] = c5.as_mut(); let r5 = raw_t(sl, N); cx.emit("intoComponents", "mut", "AsMut<[T]>", &b5, None, Res::Ok(r5)); }
        // Box<C>
        { let bx = Box::new(mk(arr)); let b = one(&bx); let ab = cast::into_array_box(bx); let ra = onea(&ab); cx.emit("intoArrays", "box", "into_array_box", &b, None, Res::Ok(ra.clone()));
          let cb: Box<C> = cast::from_array_box(ab); let r = one(&cb); cx.emit("fromArrays", "box", "from_array_box", &ra, None, Res::Ok(r.clone())); cx.round_trip("box", &b, &r);
          let ab2: Box<[T; N]> = cb.into(); let ra2 = onea(&ab2); cx.emit("intoArrays", "box", "From<Box>", &r, None, Res::Ok(ra2.clone()));
          let cb2: Box<C> = ab2.into(); cx.emit("fromArrays", "box", "From<Box>", &ra2, None, Res::Ok(one(&cb2))); }
    }

    // ---- colour buffers -> arrays / components and back (free functions): every colour count up to the plan's maximum
    let counts: Vec<usize> = { let mut v: Vec<usize> = pl.comp_lens.iter().filter(|l| *l % N == 0).map(|l| l / N).collect(); v.sort(); v.dedup(); v };
    for &cnt in &counts {
        let s = rng.next();
        // slices
        { let v = colors(s, cnt, cnt, mk); let b = rc(&v, cnt);
          let a = cast::into_array_slice(&v[..]); let ra = raw_a(a, a.len()); cx.emit("intoArrays", "slice", "into_array_slice", &b, None, Res::Ok(ra.clone()));
          let c: &[C] = cast::from_array_slice(a); cx.emit("fromArrays", "slice", "from_array_slice", &ra, None, Res::Ok(rc(c, c.len()))); cx.round_trip("arrays/slice", &b, &rc(c, c.len()));
          let t = cast::into_component_slice(&v[..]); let rt = raw_t(t, t.len()); cx.emit("intoComponents", "slice", "into_component_slice", &b, None, Res::Ok(rt.clone()));
          match cast::try_from_component_slice::<C>(t) { Ok(c) => { cx.emit("tryFromComponents", "slice", "try_from_component_slice", &rt, None, Res::Ok(rc(c, c.len()))); cx.round_trip("components/slice", &b, &rc(c, c.len())); }
              Err(_) => cx.emit("tryFromComponents", "slice", "try_from_component_slice", &rt, None, Res::Err("slice", None)) } }
        // mutable slices
        { let mut v = colors(s, cnt, cnt, mk); let b = rc(&v, cnt);
          let a = cast::into_array_slice_mut(&mut v[..]); let ra = raw_a(a, a.len()); cx.emit("intoArrays", "slicemut", "into_array_slice_mut", &b, None, Res::Ok(ra.clone()));
          let c: &mut [C] = cast::from_array_slice_mut(a); let r = rc(c, c.len()); cx.emit("fromArrays", "slicemut", "from_array_slice_mut", &ra, None, Res::Ok(r.clone())); cx.round_trip("arrays/slicemut", &b, &r);
          let t = cast::into_component_slice_mut(&mut v[..]); let rt = raw_t(t, t.len());
          let wrote = if !t.is_empty() { let k = (s as usize) % t.len(); t[k] = T::from_seed(s ^ 0x5555); Some((k, t[k].bits())) } else { None };
          cx.emit("intoComponents", "slicemut", "into_component_slice_mut", &b, None, Res::Ok(rt));
          if let Some((k, w)) = wrote { cx.check(rd(&v[k / N])[k % N].bits() == w, "write-through:into_component_slice_mut", || format!("component {} of {}", k, cnt * N)); }
          let b = rc(&v, cnt);
          let t = cast::into_component_slice_mut(&mut v[..]); let rt = raw_t(t, t.len());
          match cast::try_from_component_slice_mut::<C>(t) { Ok(c) => { let r = rc(c, c.len()); cx.emit("tryFromComponents", "slicemut", "try_from_component_slice_mut", &rt, None, Res::Ok(r.clone())); cx.round_trip("components/slicemut", &b, &r); }
              Err(_) => cx.emit("tryFromComponents", "slicemut", "try_from_component_slice_mut", &rt, None, Res::Err("slice", None)) } }
        // boxed slices
        { let v = colors(s, cnt, cnt, mk).into_boxed_slice(); let b = rc(&v, cnt);
          let a = cast::into_array_slice_box(v); let ra = raw_a(&a, a.len()); cx.emit("intoArrays", "boxslice", "into_array_slice_box", &b, None, Res::Ok(ra.clone()));
          let c: Box<[C]> = cast::from_array_slice_box(a); let r = rc(&c, c.len()); cx.emit("fromArrays", "boxslice", "from_array_slice_box", &ra, None, Res::Ok(r.clone())); cx.round_trip("arrays/boxslice", &b, &r);
          let t = cast::into_component_slice_box(c); let rt = raw_t(&t, t.len()); cx.emit("intoComponents", "boxslice", "into_component_slice_box", &r, None, Res::Ok(rt.clone()));
          match cast::try_from_component_slice_box::<C>(t) { Ok(c) => { let r2 = rc(&c, c.len()); cx.emit("tryFromComponents", "boxslice", "try_from_component_slice_box", &rt, None, Res::Ok(r2.clone())); cx.round_trip("components/boxslice", &b, &r2); }
              Err(e) => { let l = e.values.len(); cx.emit("tryFromComponents", "boxslice", "try_from_component_slice_box", &rt, None, Res::Err("boxed", Some(raw_t(&e.values, l)))) } } }
        // vectors, with spare capacity
        for cap in caps(cnt, N, pl.thorough) {
            let v = colors(s, cnt, cap, mk); let cap = v.capacity(); let b = rc(&v, cap);
            let a = cast::into_array_vec(v); let ra = raw_a(&a, a.capacity()); cx.emit("intoArrays", "vec", "into_array_vec", &b, None, Res::Ok(ra.clone()));
            let c: Vec<C> = cast::from_array_vec(a); let r = rc(&c, c.capacity()); cx.emit("fromArrays", "vec", "from_array_vec", &ra, None, Res::Ok(r.clone())); cx.round_trip("arrays/vec", &b, &r);
            let t = cast::into_component_vec(c); let rt = raw_t(&t, t.capacity()); cx.emit("intoComponents", "vec", "into_component_vec", &r, None, Res::Ok(rt.clone()));
            match cast::try_from_component_vec::<C>(t) { Ok(c) => { let r2 = rc(&c, c.capacity()); cx.emit("tryFromComponents", "vec", "try_from_component_vec", &rt, None, Res::Ok(r2.clone())); cx.round_trip("components/vec", &b, &r2); }
                Err(e) => cx.emit("tryFromComponents", "vec", "try_from_component_vec", &rt, None, vec_err(e)) }
        }
    }

    // ---- component buffers of every length (multiples and non-multiples) -> colours
    for &len in &pl.comp_lens {
        let s = rng.next();
        // the `.unwrap()` variants only differ by the panic: a thinner set of lengths in the quick tier
        let untry = pl.thorough || len <= 2 * N + 1 || (64..=67).contains(&len);
        { let v: Vec<T> = vec_with(len, len, seq(s, len)); let b = raw_t(&v, len);
          let r = match cast::try_from_component_slice::<C>(&v) { Ok(c) => Res::Ok(rc(c, c.len())), Err(_) => Res::Err("slice", None) };
          cx.emit("tryFromComponents", "slice", "try_from_component_slice", &b, None, r);
          if untry { let r = match quiet(|| { let c = cast::from_component_slice::<C>(&v); rc(c, c.len()) }) { Some(r) => Res::Ok(r), None => Res::Panic };
          cx.emit("fromComponents", "slice", "from_component_slice", &b, None, r); }
          cx.check(raw_t(&v, len) == b, "rejected-unchanged:borrowed", || format!("len {}", len)); }
        { let mut v: Vec<T> = vec_with(len, len, seq(s, len)); let b = raw_t(&v, len);
          let r = match cast::try_from_component_slice_mut::<C>(&mut v) { Ok(c) => Res::Ok(rc(c, c.len())), Err(_) => Res::Err("slice", None) };
          cx.emit("tryFromComponents", "slicemut", "try_from_component_slice_mut", &b, None, r);
          if untry { let r = match quiet(|| { let c = cast::from_component_slice_mut::<C>(&mut v); rc(c, c.len()) }) { Some(r) => Res::Ok(r), None => Res::Panic };
          cx.emit("fromComponents", "slicemut", "from_component_slice_mut", &b, None, r); }
          cx.check(raw_t(&v, len) == b, "rejected-unchanged:borrowed", || format!("len {}", len)); }
        { let v: Box<[T]> = vec_with(len, len, seq(s, len)).into_boxed_slice(); let b = raw_t(&v, len);
          let r = match cast::try_from_component_slice_box::<C>(v) { Ok(c) => Res::Ok(rc(&c, c.len())), Err(e) => { let l = e.values.len(); Res::Err("boxed", Some(raw_t(&e.values, l))) } };
          cx.emit("tryFromComponents", "boxslice", "try_from_component_slice_box", &b, None, r);
          if untry { let v: Box<[T]> = vec_with(len, len, seq(s, len)).into_boxed_slice(); let b = raw_t(&v, len);
          let r = match quiet(move || { let c = cast::from_component_slice_box::<C>(v); rc(&c, c.len()) }) { Some(r) => Res::Ok(r), None => Res::Panic };
          cx.emit("fromComponents", "boxslice", "from_component_slice_box", &b, None, r); } }
        for cap in caps(len, N, pl.thorough) {
            let v: Vec<T> = vec_with(len, cap, seq(s, len)); let cap = v.capacity(); let b = raw_t(&v, cap);
            let r = match cast::try_from_component_vec::<C>(v) { Ok(c) => Res::Ok(rc(&c, c.capacity())), Err(e) => vec_err(e) };
            cx.emit("tryFromComponents", "vec", "try_from_component_vec", &b, None, r);
            if untry { let v: Vec<T> = vec_with(len, cap, seq(s, len)); let cap = v.capacity(); let b = raw_t(&v, cap);
            let r = match quiet(move || { let c = cast::from_component_vec::<C>(v); rc(&c, c.capacity()) }) { Some(r) => Res::Ok(r), None => Res::Panic };
            cx.emit("fromComponents", "vec", "from_component_vec", &b, None, r); }
        }
    }

    // ---- the cast traits, every owner kind
    for &len in &pl.trait_lens {
        let s = rng.next();
        let cnt = len / N;
        // colours -> arrays / components
        { let v = colors(s, cnt, cnt + 3, mk); let b = rc(&v, cnt);
          let a: &[[T; N]] = v.as_arrays(); cx.emit("intoArrays", "vec&", "AsArrays", &b, None, Res::Ok(raw_a(a, a.len())));
          let a: &[[T; N]] = v[..].as_arrays(); cx.emit("intoArrays", "slice", "AsArrays", &b, None, Res::Ok(raw_a(a, a.len())));
          let a: &[[T; N]] = (&v).into_arrays(); cx.emit("intoArrays", "vec&", "IntoArrays", &b, None, Res::Ok(raw_a(a, a.len())));
          let a: &[[T; N]] = (&v[..]).into_arrays(); cx.emit("intoArrays", "slice", "IntoArrays", &b, None, Res::Ok(raw_a(a, a.len())));
          let a = <&[[T; N]]>::arrays_from(&v[..]); cx.emit("intoArrays", "slice", "ArraysFrom", &b, None, Res::Ok(raw_a(a, a.len())));
          let t: &[T] = v.as_components(); cx.emit("intoComponents", "vec&", "AsComponents", &b, None, Res::Ok(raw_t(t, t.len())));
          let t: &[T] = v[..].as_components(); cx.emit("intoComponents", "slice", "AsComponents", &b, None, Res::Ok(raw_t(t, t.len())));
          let t: &[T] = (&v).into_components(); cx.emit("intoComponents", "vec&", "IntoComponents", &b, None, Res::Ok(raw_t(t, t.len())));
          let t: &[T] = (&v[..]).into_components(); cx.emit("intoComponents", "slice", "IntoComponents", &b, None, Res::Ok(raw_t(t, t.len())));
          let t = <&[T]>::components_from(&v[..]); cx.emit("intoComponents", "slice", "ComponentsFrom", &b, None, Res::Ok(raw_t(t, t.len()))); }
        { let mut v = colors(s, cnt, cnt + 3, mk); let b = rc(&v, cnt);
          let a: &mut [[T; N]] = v.as_arrays_mut(); let r = raw_a(a, a.len()); cx.emit("intoArrays", "vec&mut", "AsArraysMut", &b, None, Res::Ok(r));
          let a: &mut [[T; N]] = v[..].as_arrays_mut(); let r = raw_a(a, a.len()); cx.emit("intoArrays", "slicemut", "AsArraysMut", &b, None, Res::Ok(r));
          let a: &mut [[T; N]] = (&mut v).into_arrays(); let r = raw_a(a, a.len()); cx.emit("intoArrays", "vec&mut", "IntoArrays", &b, None, Res::Ok(r));
          let a: &mut [[T; N]] = (&mut v[..]).into_arrays(); let r = raw_a(a, a.len()); cx.emit("intoArrays", "slicemut", "IntoArrays", &b, None, Res::Ok(r));
          let t: &mut [T] = v.as_components_mut(); let r = raw_t(t, t.len()); cx.emit("intoComponents", "vec&mut", "AsComponentsMut", &b, None, Res::Ok(r));
          let t: &mut [T] = v[..].as_components_mut(); let r = raw_t(t, t.len()); cx.emit("intoComponents", "slicemut", "AsComponentsMut", &b, None, Res::Ok(r));
          let t: &mut [T] = (&mut v).into_components(); let r = raw_t(t, t.len()); cx.emit("intoComponents", "vec&mut", "IntoComponents", &b, None, Res::Ok(r));
          let t: &mut [T] = (&mut v[..]).into_components(); let r = raw_t(t, t.len()); cx.emit("intoComponents", "slicemut", "IntoComponents", &b, None, Res::Ok(r)); }
        { let mut v = colors(s, cnt, cnt, mk).into_boxed_slice(); let b = rc(&v, cnt);
          let a: &[[T; N]] = v.as_arrays(); cx.emit("intoArrays", "box&", "AsArrays", &b, None, Res::Ok(raw_a(a, a.len())));
          let a: &[[T; N]] = (&v).into_arrays(); cx.emit("intoArrays", "box&", "IntoArrays", &b, None, Res::Ok(raw_a(a, a.len())));
          let t: &[T] = v.as_components(); cx.emit("intoComponents", "box&", "AsComponents", &b, None, Res::Ok(raw_t(t, t.len())));
          let t: &[T] = (&v).into_components(); cx.emit("intoComponents", "box&", "IntoComponents", &b, None, Res::Ok(raw_t(t, t.len())));
          let a: &mut [[T; N]] = v.as_arrays_mut(); let r = raw_a(a, a.len()); cx.emit("intoArrays", "box&mut", "AsArraysMut", &b, None, Res::Ok(r));
          let a: &mut [[T; N]] = (&mut v).into_arrays(); let r = raw_a(a, a.len()); cx.emit("intoArrays", "box&mut", "IntoArrays", &b, None, Res::Ok(r));
          let t: &mut [T] = v.as_components_mut(); let r = raw_t(t, t.len()); cx.emit("intoComponents", "box&mut", "AsComponentsMut", &b, None, Res::Ok(r));
          let t: &mut [T] = (&mut v).into_components(); let r = raw_t(t, t.len()); cx.emit("intoComponents", "box&mut", "IntoComponents", &b, None, Res::Ok(r));
          let a: Box<[[T; N]]> = v.into_arrays(); let ra = raw_a(&a, a.len()); cx.emit("intoArrays", "boxslice", "IntoArrays", &b, None, Res::Ok(ra.clone()));
          let c: Box<[C]> = a.arrays_into(); let r = rc(&c, c.len()); cx.emit("fromArrays", "boxslice", "ArraysInto", &ra, None, Res::Ok(r.clone()));
          let a = Box::<[[T; N]]>::arrays_from(c); let ra = raw_a(&a, a.len()); cx.emit("intoArrays", "boxslice", "ArraysFrom", &r, None, Res::Ok(ra.clone()));
          let c = Box::<[C]>::from_arrays(a); let r = rc(&c, c.len()); cx.emit("fromArrays", "boxslice", "FromArrays", &ra, None, Res::Ok(r.clone())); cx.round_trip("arrays/boxslice/traits", &b, &r);
          let t: Box<[T]> = c.into_components(); let rt = raw_t(&t, t.len()); cx.emit("intoComponents", "boxslice", "IntoComponents", &r, None, Res::Ok(rt.clone()));
          let c = Box::<[C]>::from_components(t); let r2 = rc(&c, c.len()); cx.emit("fromComponents", "boxslice", "FromComponents", &rt, None, Res::Ok(r2.clone())); cx.round_trip("components/boxslice/traits", &b, &r2);
          let t = Box::<[T]>::components_from(c); let rt = raw_t(&t, t.len()); cx.emit("intoComponents", "boxslice", "ComponentsFrom", &r2, None, Res::Ok(rt.clone()));
          let c: Box<[C]> = t.components_into(); cx.emit("fromComponents", "boxslice", "ComponentsInto", &rt, None, Res::Ok(rc(&c, c.len()))); }
        for cap in [cnt, cnt + 1, cnt + N, cnt + 7] {
          let v = colors(s, cnt, cap, mk); let b = rc(&v, v.capacity());
          let a: Vec<[T; N]> = v.into_arrays(); let ra = raw_a(&a, a.capacity()); cx.emit("intoArrays", "vec", "IntoArrays", &b, None, Res::Ok(ra.clone()));
          let c: Vec<C> = a.arrays_into(); let r = rc(&c, c.capacity()); cx.emit("fromArrays", "vec", "ArraysInto", &ra, None, Res::Ok(r.clone()));
          let a = Vec::<[T; N]>::arrays_from(c); let ra = raw_a(&a, a.capacity()); cx.emit("intoArrays", "vec", "ArraysFrom", &r, None, Res::Ok(ra.clone()));
          let c = Vec::<C>::from_arrays(a); let r = rc(&c, c.capacity()); cx.emit("fromArrays", "vec", "FromArrays", &ra, None, Res::Ok(r.clone())); cx.round_trip("arrays/vec/traits", &b, &r);
          let t: Vec<T> = c.into_components(); let rt = raw_t(&t, t.capacity()); cx.emit("intoComponents", "vec", "IntoComponents", &r, None, Res::Ok(rt.clone()));
          let c = Vec::<C>::from_components(t); let r2 = rc(&c, c.capacity()); cx.emit("fromComponents", "vec", "FromComponents", &rt, None, Res::Ok(r2.clone())); cx.round_trip("components/vec/traits", &b, &r2);
          let t = Vec::<T>::components_from(c); let rt = raw_t(&t, t.capacity()); cx.emit("intoComponents", "vec", "ComponentsFrom", &r2, None, Res::Ok(rt.clone()));
          let c: Vec<C> = t.components_into(); cx.emit("fromComponents", "vec", "ComponentsInto", &rt, None, Res::Ok(rc(&c, c.capacity()))); }
        // arrays -> colours
        { let mut v: Vec<[T; N]> = vec_with(cnt, cnt + 2, |i| core::array::from_fn(|j| T::from_seed(s.wrapping_add((i * N + j) as u64)))); let b = raw_a(&v, cnt);
          let c: &[C] = v.arrays_as(); cx.emit("fromArrays", "vec&", "ArraysAs", &b, None, Res::Ok(rc(c, c.len())));
          let c: &[C] = v[..].arrays_as(); cx.emit("fromArrays", "slice", "ArraysAs", &b, None, Res::Ok(rc(c, c.len())));
          let c = <&[C]>::from_arrays(&v); cx.emit("fromArrays", "vec&", "FromArrays", &b, None, Res::Ok(rc(c, c.len())));
          let c = <&[C]>::from_arrays(&v[..]); cx.emit("fromArrays", "slice", "FromArrays", &b, None, Res::Ok(rc(c, c.len())));
          let c: &[C] = (&v[..]).arrays_into(); cx.emit("fromArrays", "slice", "ArraysInto", &b, None, Res::Ok(rc(c, c.len())));
          let c: &mut [C] = v.arrays_as_mut(); let r = rc(c, c.len()); cx.emit("fromArrays", "vec&mut", "ArraysAsMut", &b, None, Res::Ok(r));
          let c: &mut [C] = v[..].arrays_as_mut(); let r = rc(c, c.len()); cx.emit("fromArrays", "slicemut", "ArraysAsMut", &b, None, Res::Ok(r));
          let c = <&mut [C]>::from_arrays(&mut v); let r = rc(c, c.len()); cx.emit("fromArrays", "vec&mut", "FromArrays", &b, None, Res::Ok(r));
          let c = <&mut [C]>::from_arrays(&mut v[..]); let r = rc(c, c.len()); cx.emit("fromArrays", "slicemut", "FromArrays", &b, None, Res::Ok(r));
          let mut bx = v.into_boxed_slice(); let b = raw_a(&bx, cnt);
          let c: &[C] = bx.arrays_as(); cx.emit("fromArrays", "box&", "ArraysAs", &b, None, Res::Ok(rc(c, c.len())));
          let c = <&[C]>::from_arrays(&bx); cx.emit("fromArrays", "box&", "FromArrays", &b, None, Res::Ok(rc(c, c.len())));
          let c: &mut [C] = bx.arrays_as_mut(); let r = rc(c, c.len()); cx.emit("fromArrays", "box&mut", "ArraysAsMut", &b, None, Res::Ok(r));
          let c = <&mut [C]>::from_arrays(&mut bx); let r = rc(c, c.len()); cx.emit("fromArrays", "box&mut", "FromArrays", &b, None, Res::Ok(r)); }
        // components -> colours: multiples and non-multiples of n
        { let mut v: Vec<T> = vec_with(len, len + 5, seq(s, len)); let b = raw_t(&v, len);
          macro_rules! sl { ($b:expr, $form:expr, $api:expr, $e:expr) => {{ let r = match $e { Ok(c) => { let c: &[C] = &*c; Res::Ok(rc(c, c.len())) }, Err(_) => Res::Err("slice", None) }; cx.emit("tryFromComponents", $form, $api, $b, None, r); }} }
          macro_rules! pn { ($b:expr, $form:expr, $api:expr, $e:expr) => {{ let r = match quiet(|| { let c = $e; let c: &[C] = &*c; rc(c, c.len()) }) { Some(r) => Res::Ok(r), None => Res::Panic }; cx.emit("fromComponents", $form, $api, $b, None, r); }} }
          sl!(&b, "vec&", "TryComponentsAs", TryComponentsAs::<[C]>::try_components_as(&v));
          sl!(&b, "slice", "TryComponentsAs", TryComponentsAs::<[C]>::try_components_as(&v[..]));
          sl!(&b, "vec&", "TryFromComponents", <&[C]>::try_from_components(&v));
          sl!(&b, "slice", "TryFromComponents", <&[C]>::try_from_components(&v[..]));
          sl!(&b, "slice", "TryComponentsInto", TryComponentsInto::<&[C]>::try_components_into(&v[..]));
          sl!(&b, "vec&mut", "TryComponentsAsMut", TryComponentsAsMut::<[C]>::try_components_as_mut(&mut v));
          sl!(&b, "slicemut", "TryComponentsAsMut", TryComponentsAsMut::<[C]>::try_components_as_mut(&mut v[..]));
          sl!(&b, "vec&mut", "TryFromComponents", <&mut [C]>::try_from_components(&mut v));
          sl!(&b, "slicemut", "TryFromComponents", <&mut [C]>::try_from_components(&mut v[..]));
          pn!(&b, "vec&", "ComponentsAs", ComponentsAs::<[C]>::components_as(&v));
          pn!(&b, "slice", "ComponentsAs", ComponentsAs::<[C]>::components_as(&v[..]));
          pn!(&b, "slice", "FromComponents", <&[C]>::from_components(&v[..]));
          pn!(&b, "slice", "ComponentsInto", ComponentsInto::<&[C]>::components_into(&v[..]));
          pn!(&b, "vec&mut", "ComponentsAsMut", ComponentsAsMut::<[C]>::components_as_mut(&mut v));
          pn!(&b, "slicemut", "ComponentsAsMut", ComponentsAsMut::<[C]>::components_as_mut(&mut v[..]));
          pn!(&b, "slicemut", "FromComponents", <&mut [C]>::from_components(&mut v[..]));
          cx.check(raw_t(&v, len) == b, "rejected-unchanged:borrowed", || format!("len {}", len));
          let mut bx = v.into_boxed_slice(); let b = raw_t(&bx, len);
          sl!(&b, "box&", "TryComponentsAs", TryComponentsAs::<[C]>::try_components_as(&bx));
          sl!(&b, "box&", "TryFromComponents", <&[C]>::try_from_components(&bx));
          sl!(&b, "box&mut", "TryComponentsAsMut", TryComponentsAsMut::<[C]>::try_components_as_mut(&mut bx));
          sl!(&b, "box&mut", "TryFromComponents", <&mut [C]>::try_from_components(&mut bx));
          let r = match Box::<[C]>::try_from_components(bx) { Ok(c) => Res::Ok(rc(&c, c.len())), Err(e) => { let l = e.values.len(); Res::Err("boxed", Some(raw_t(&e.values, l))) } };
          cx.emit("tryFromComponents", "boxslice", "TryFromComponents", &b, None, r);
          let bx: Box<[T]> = vec_with(len, len, seq(s, len)).into_boxed_slice(); let b = raw_t(&bx, len);
          let r = match TryComponentsInto::<Box<[C]>>::try_components_into(bx) { Ok(c) => Res::Ok(rc(&c, c.len())), Err(e) => { let l = e.values.len(); Res::Err("boxed", Some(raw_t(&e.values, l))) } };
          cx.emit("tryFromComponents", "boxslice", "TryComponentsInto", &b, None, r); }
        for cap in [len, len + 1, len + N, len + 7] {
          let v: Vec<T> = vec_with(len, cap, seq(s, len)); let b = raw_t(&v, v.capacity());
          let r = match Vec::<C>::try_from_components(v) { Ok(c) => Res::Ok(rc(&c, c.capacity())), Err(e) => vec_err(e) };
          cx.emit("tryFromComponents", "vec", "TryFromComponents", &b, None, r);
          let v: Vec<T> = vec_with(len, cap, seq(s, len)); let b = raw_t(&v, v.capacity());
          let r = match TryComponentsInto::<Vec<C>>::try_components_into(v) { Ok(c) => Res::Ok(rc(&c, c.capacity())), Err(e) => vec_err(e) };
          cx.emit("tryFromComponents", "vec", "TryComponentsInto", &b, None, r);
          let v: Vec<T> = vec_with(len, cap, seq(s, len)); let b = raw_t(&v, v.capacity());
          let r = match quiet(move || { let c = Vec::<C>::from_components(v); rc(&c, c.capacity()) }) { Some(r) => Res::Ok(r), None => Res::Panic };
          cx.emit("fromComponents", "vec", "FromComponents", &b, None, r);
        }
    }

    // ---- in-place maps built on the casts keep the allocation
    for cnt in [0usize, 1, 5] {
        let s = rng.next();
        let v = colors(s, cnt, cnt + 2, mk); let b = rc(&v, v.capacity());
        let w: Vec<C> = cast::map_vec_in_place(v, |c: C| c); cx.round_trip("map_vec_in_place(identity)", &b, &rc(&w, w.capacity()));
        let v = colors(s, cnt, cnt, mk).into_boxed_slice(); let b = rc(&v, cnt);
        let w: Box<[C]> = cast::map_slice_box_in_place(v, |c: C| c); cx.round_trip("map_slice_box_in_place(identity)", &b, &rc(&w, cnt));
    }
}

/// fixed-size arrays by value: `[C; K]` <-> `[[T; N]; K]` <-> `[T; M]`
pub fn array_forms<C, T, const N: usize, const K: usize, const M: usize>(out: &mut Out, rng: &mut Rng, name: &str, mk: fn([T; N]) -> C, rd: fn(&C) -> [T; N])
where T: Comp, C: ArrayCast<Array = [T; N]> + 'static {
    let mut cx = Ctx { out, ty: name.to_string(), comp: T::TAG, n: N, hexw: T::HEXW };
    let s = rng.next();
    let build = || -> [C; K] { core::array::from_fn(|i| mk(core::array::from_fn(|j| T::from_seed(s.wrapping_add((i * N + j) as u64))))) };
    let rc = |x: &[C]| raw_c(x, x.len(), rd);
    { let v = build(); let b = rc(&v); let a: [[T; N]; K] = cast::into_array_array(v); let ra = raw_a(&a, K); cx.emit("intoArrays", "array", "into_array_array", &b, None, Res::Ok(ra.clone()));
      let c: [C; K] = cast::from_array_array(a); cx.emit("fromArrays", "array", "from_array_array", &ra, None, Res::Ok(rc(&c)));
      let a: [[T; N]; K] = c.into_arrays(); let ra = raw_a(&a, K); cx.emit("intoArrays", "array", "IntoArrays", &b, None, Res::Ok(ra.clone()));
      let c = <[C; K]>::from_arrays(a); cx.emit("fromArrays", "array", "FromArrays", &ra, None, Res::Ok(rc(&c)));
      let a = <[[T; N]; K]>::arrays_from(c); let c: [C; K] = a.arrays_into(); cx.check(rc(&c).mem == b.mem, "round-trip:array", || format!("K={}", K));
      // borrowed fixed-size arrays as owners of the slice traits
      let mut c = c; let bb = rc(&c);
      let a: &[[T; N]] = c.as_arrays(); cx.emit("intoArrays", "array&", "AsArrays", &bb, None, Res::Ok(raw_a(a, K)));
      let a: &[[T; N]] = (&c).into_arrays(); cx.emit("intoArrays", "array&", "IntoArrays", &bb, None, Res::Ok(raw_a(a, K)));
      let t: &[T] = c.as_components(); cx.emit("intoComponents", "array&", "AsComponents", &bb, None, Res::Ok(raw_t(t, t.len())));
      let t: &[T] = (&c).into_components(); cx.emit("intoComponents", "array&", "IntoComponents", &bb, None, Res::Ok(raw_t(t, t.len())));
      let a: &mut [[T; N]] = c.as_arrays_mut(); let r = raw_a(a, K); cx.emit("intoArrays", "array&mut", "AsArraysMut", &bb, None, Res::Ok(r));
      let t: &mut [T] = c.as_components_mut(); let r = raw_t(t, t.len()); cx.emit("intoComponents", "array&mut", "AsComponentsMut", &bb, None, Res::Ok(r));
      let t: &mut [T] = (&mut c).into_components(); let r = raw_t(t, t.len()); cx.emit("intoComponents", "array&mut", "IntoComponents", &bb, None, Res::Ok(r));
      let mut aa: [[T; N]; K] = cast::into_array_array(c); let ba = raw_a(&aa, K);
      let c: &[C] = aa.arrays_as(); cx.emit("fromArrays", "array&", "ArraysAs", &ba, None, Res::Ok(rc(c)));
      let c = <&[C]>::from_arrays(&aa); cx.emit("fromArrays", "array&", "FromArrays", &ba, None, Res::Ok(rc(c)));
      let c: &mut [C] = aa.arrays_as_mut(); let r = rc(c); cx.emit("fromArrays", "array&mut", "ArraysAsMut", &ba, None, Res::Ok(r)); }
    { let v = build(); let b = rc(&v);
      let r = match quiet(move || { let t: [T; M] = cast::into_component_array(v); raw_t(&t, M) }) { Some(r) => Res::Ok(r), None => Res::Panic };
      cx.emit("intoComponentArray", "array", "into_component_array", &b, Some((K, M)), r);
      let v = build();
      let r = match quiet(move || { let t: [T; M] = v.into_components(); raw_t(&t, M) }) { Some(r) => Res::Ok(r), None => Res::Panic };
      cx.emit("intoComponentArray", "array", "IntoComponents", &b, Some((K, M)), r); }
    { let t: [T; M] = core::array::from_fn(|i| T::from_seed(s.wrapping_add(i as u64))); let b = raw_t(&t, M);
      let r = match quiet(move || { let c: [C; K] = cast::from_component_array(t); rc(&c) }) { Some(r) => Res::Ok(r), None => Res::Panic };
      cx.emit("fromComponentArray", "array", "from_component_array", &b, Some((M, K)), r);
      let r = match quiet(move || { let c = <[C; K]>::from_components(t); rc(&c) }) { Some(r) => Res::Ok(r), None => Res::Panic };
      cx.emit("fromComponentArray", "array", "FromComponents", &b, Some((M, K)), r);
      let r = match quiet(move || { let c: [C; K] = t.components_into(); rc(&c) }) { Some(r) => Res::Ok(r), None => Res::Panic };
      cx.emit("fromComponentArray", "array", "ComponentsInto", &b, Some((M, K)), r);
      // a borrowed fixed-size component array as owner of the slice traits
      let mut t = t; let bt = raw_t(&t, M);
      let r = match TryComponentsAs::<[C]>::try_components_as(&t) { Ok(c) => Res::Ok(rc(c)), Err(_) => Res::Err("slice", None) }; cx.emit("tryFromComponents", "array&", "TryComponentsAs", &bt, None, r);
      let r = match <&[C]>::try_from_components(&t) { Ok(c) => Res::Ok(rc(c)), Err(_) => Res::Err("slice", None) }; cx.emit("tryFromComponents", "array&", "TryFromComponents", &bt, None, r);
      let r = match TryComponentsAsMut::<[C]>::try_components_as_mut(&mut t) { Ok(c) => Res::Ok(rc(c)), Err(_) => Res::Err("slice", None) }; cx.emit("tryFromComponents", "array&mut", "TryComponentsAsMut", &bt, None, r);
      let r = match <&mut [C]>::try_from_components(&mut t) { Ok(c) => Res::Ok(rc(c)), Err(_) => Res::Err("slice", None) }; cx.emit("tryFromComponents", "array&mut", "TryFromComponents", &bt, None, r); }
}

/// by-value component arrays only (used for the mismatching and the empty lengths)
pub fn array_min<C, T, const N: usize, const K: usize, const M: usize>(out: &mut Out, rng: &mut Rng, name: &str, mk: fn([T; N]) -> C, rd: fn(&C) -> [T; N])
where T: Comp, C: ArrayCast<Array = [T; N]> + 'static {
    let mut cx = Ctx { out, ty: name.to_string(), comp: T::TAG, n: N, hexw: T::HEXW };
    let s = rng.next();
    let build = || -> [C; K] { core::array::from_fn(|i| mk(core::array::from_fn(|j| T::from_seed(s.wrapping_add((i * N + j) as u64))))) };
    let rc = |x: &[C]| raw_c(x, x.len(), rd);
    { let v = build(); let b = rc(&v);
      let r = match quiet(move || { let t: [T; M] = cast::into_component_array(v); raw_t(&t, M) }) { Some(r) => Res::Ok(r), None => Res::Panic };
      cx.emit("intoComponentArray", "array", "into_component_array", &b, Some((K, M)), r);
      let v = build();
      let r = match quiet(move || { let t: [T; M] = v.into_components(); raw_t(&t, M) }) { Some(r) => Res::Ok(r), None => Res::Panic };
      cx.emit("intoComponentArray", "array", "IntoComponents", &b, Some((K, M)), r); }
    { let t: [T; M] = core::array::from_fn(|i| T::from_seed(s.wrapping_add(i as u64))); let b = raw_t(&t, M);
      let r = match quiet(move || { let c: [C; K] = cast::from_component_array(t); rc(&c) }) { Some(r) => Res::Ok(r), None => Res::Panic };
      cx.emit("fromComponentArray", "array", "from_component_array", &b, Some((M, K)), r);
      let r = match quiet(move || { let c = <[C; K]>::from_components(t); rc(&c) }) { Some(r) => Res::Ok(r), None => Res::Panic };
      cx.emit("fromComponentArray", "array", "FromComponents", &b, Some((M, K)), r);
      let r = match quiet(move || { let c: [C; K] = t.components_into(); rc(&c) }) { Some(r) => Res::Ok(r), None => Res::Panic };
      cx.emit("fromComponentArray", "array", "ComponentsInto", &b, Some((M, K)), r); }
}

// ------------------------------------------------------------------------------------------------------------
// the castable types.  Each entry: protocol name, type, channel count, field names in declared order, the positional
// ("named") constructor, and a reader through the named fields.  Alpha<..> (and PreAlpha<..>) are derived from it.
use core::marker::PhantomData;
use palette::blend::PreAlpha;
use palette::cam16::{Cam16Jch, Cam16Jmh, Cam16Jsh, Cam16Qch, Cam16Qmh, Cam16Qsh, Cam16UcsJab, Cam16UcsJmh};
use palette::cast::Packed;
use palette::encoding::Srgb;
use palette::hues::{Cam16Hue, LabHue, LuvHue, OklabHue, RgbHue};
use palette::lms::Lms;
use palette::luma::Luma;
use palette::rgb::Rgb;
use palette::white_point::D65;
use palette::{Alpha, Hsl, Hsluv, Hsv, Hwb, Lab, Lch, Lchuv, Luv, Okhsl, Okhsv, Okhwb, Oklab, Oklch, Xyz, Yxy};

macro_rules! arrays_of {
    ($out:ident, $rng:ident, $T:ty, $name:expr, $ty:ty, $n:literal, $mk:ident, $rd:ident) => {
        array_forms::<$ty, $T, $n, 2, { 2 * $n }>($out, $rng, $name, $mk, $rd);
        array_min::<$ty, $T, $n, 0, 0>($out, $rng, $name, $mk, $rd);
        array_min::<$ty, $T, $n, 2, { 2 * $n + 1 }>($out, $rng, $name, $mk, $rd);
        array_min::<$ty, $T, $n, 3, { 2 * $n }>($out, $rng, $name, $mk, $rd);
    };
}

macro_rules! castable {
    ($out:ident, $rng:ident, $tier:ident, $T:ty, $pre:tt, $name:literal, $ty:ty, $n:literal, $n1:literal, [$($fname:literal),+], |$a:ident| $mk:expr, |$c:ident| [$($rd:expr),+]) => {{
        fn mk0($a: [$T; $n]) -> $ty { $mk }
        fn rd0($c: &$ty) -> [$T; $n] { [$($rd),+] }
        fn mk1(b: [$T; $n1]) -> Alpha<$ty, $T> { Alpha { color: mk0(core::array::from_fn(|i| b[i])), alpha: b[$n] } }
        fn rd1(w: &Alpha<$ty, $T>) -> [$T; $n1] { let r = rd0(&w.color); core::array::from_fn(|i| if i < $n { r[i] } else { w.alpha }) }
        exercise::<$ty, $T, $n>($out, $rng, $tier, $name, &[$($fname),+], mk0, rd0);
        arrays_of!($out, $rng, $T, $name, $ty, $n, mk0, rd0);
        exercise::<Alpha<$ty, $T>, $T, $n1>($out, $rng, $tier, concat!("Alpha<", $name, ">"), &[$($fname,)+ "alpha"], mk1, rd1);
        arrays_of!($out, $rng, $T, concat!("Alpha<", $name, ">"), Alpha<$ty, $T>, $n1, mk1, rd1);
        castable!(@pre $pre, $out, $rng, $tier, $T, $name, $ty, $n, $n1, [$($fname),+], mk0, rd0);
    }};
    (@pre no, $($rest:tt)*) => {};
    (@pre yes, $out:ident, $rng:ident, $tier:ident, $T:ty, $name:literal, $ty:ty, $n:literal, $n1:literal, [$($fname:literal),+], $mk0:ident, $rd0:ident) => {{
        fn mk2(b: [$T; $n1]) -> PreAlpha<$ty> { PreAlpha { color: $mk0(core::array::from_fn(|i| b[i])), alpha: b[$n] } }
        fn rd2(w: &PreAlpha<$ty>) -> [$T; $n1] { let r = $rd0(&w.color); core::array::from_fn(|i| if i < $n { r[i] } else { w.alpha }) }
        exercise::<PreAlpha<$ty>, $T, $n1>($out, $rng, $tier, concat!("PreAlpha<", $name, ">"), &[$($fname,)+ "alpha"], mk2, rd2);
        arrays_of!($out, $rng, $T, concat!("PreAlpha<", $name, ">"), PreAlpha<$ty>, $n1, mk2, rd2);
    }};
}

macro_rules! packed {
    ($out:ident, $rng:ident, $tier:ident, $T:ty, $name:literal, $order:ty, $n:literal, [$($fname:literal),+]) => {{
        fn mk0(a: [$T; $n]) -> Packed<$order, [$T; $n]> { Packed { color: a, channel_order: PhantomData } }
        fn rd0(c: &Packed<$order, [$T; $n]>) -> [$T; $n] { c.color }
        exercise::<Packed<$order, [$T; $n]>, $T, $n>($out, $rng, $tier, $name, &[$($fname),+], mk0, rd0);
        arrays_of!($out, $rng, $T, $name, Packed<$order, [$T; $n]>, $n, mk0, rd0);
    }};
}

/// castable colour types, group 1; `$pre` = yes where `PreAlpha` exists (float components)
macro_rules! group1 {
    ($out:ident, $rng:ident, $tier:ident, $T:ty, $pre:tt) => {
        castable!($out, $rng, $tier, $T, $pre, "Rgb", Rgb<Srgb, $T>, 3, 4, ["red", "green", "blue"], |a| Rgb::new(a[0], a[1], a[2]), |c| [c.red, c.green, c.blue]);
        castable!($out, $rng, $tier, $T, $pre, "Luma", Luma<Srgb, $T>, 1, 2, ["luma"], |a| Luma::new(a[0]), |c| [c.luma]);
        castable!($out, $rng, $tier, $T, $pre, "Xyz", Xyz<D65, $T>, 3, 4, ["x", "y", "z"], |a| Xyz::new(a[0], a[1], a[2]), |c| [c.x, c.y, c.z]);
        castable!($out, $rng, $tier, $T, $pre, "Yxy", Yxy<D65, $T>, 3, 4, ["x", "y", "luma"], |a| Yxy::new(a[0], a[1], a[2]), |c| [c.x, c.y, c.luma]);
        castable!($out, $rng, $tier, $T, $pre, "Lab", Lab<D65, $T>, 3, 4, ["l", "a", "b"], |a| Lab::new(a[0], a[1], a[2]), |c| [c.l, c.a, c.b]);
        castable!($out, $rng, $tier, $T, $pre, "Luv", Luv<D65, $T>, 3, 4, ["l", "u", "v"], |a| Luv::new(a[0], a[1], a[2]), |c| [c.l, c.u, c.v]);
        castable!($out, $rng, $tier, $T, $pre, "Lms", Lms<(), $T>, 3, 4, ["long", "medium", "short"], |a| Lms::new(a[0], a[1], a[2]), |c| [c.long, c.medium, c.short]);
        castable!($out, $rng, $tier, $T, $pre, "Oklab", Oklab<$T>, 3, 4, ["l", "a", "b"], |a| Oklab::new(a[0], a[1], a[2]), |c| [c.l, c.a, c.b]);
        castable!($out, $rng, $tier, $T, $pre, "Cam16UcsJab", Cam16UcsJab<$T>, 3, 4, ["lightness", "a", "b"], |a| Cam16UcsJab::new(a[0], a[1], a[2]), |c| [c.lightness, c.a, c.b]);
    };
}
/// castable colour types, group 2; `$pre` = yes where `PreAlpha` exists (float components)
macro_rules! group2 {
    ($out:ident, $rng:ident, $tier:ident, $T:ty, $pre:tt) => {
        castable!($out, $rng, $tier, $T, no, "Hsl", Hsl<Srgb, $T>, 3, 4, ["hue", "saturation", "lightness"], |a| Hsl::new_const(RgbHue::new(a[0]), a[1], a[2]), |c| [c.hue.into_inner(), c.saturation, c.lightness]);
        castable!($out, $rng, $tier, $T, no, "Hsv", Hsv<Srgb, $T>, 3, 4, ["hue", "saturation", "value"], |a| Hsv::new_const(RgbHue::new(a[0]), a[1], a[2]), |c| [c.hue.into_inner(), c.saturation, c.value]);
        castable!($out, $rng, $tier, $T, no, "Hwb", Hwb<Srgb, $T>, 3, 4, ["hue", "whiteness", "blackness"], |a| Hwb::new_const(RgbHue::new(a[0]), a[1], a[2]), |c| [c.hue.into_inner(), c.whiteness, c.blackness]);
        castable!($out, $rng, $tier, $T, no, "Hsluv", Hsluv<D65, $T>, 3, 4, ["hue", "saturation", "l"], |a| Hsluv::new_const(LuvHue::new(a[0]), a[1], a[2]), |c| [c.hue.into_inner(), c.saturation, c.l]);
        castable!($out, $rng, $tier, $T, no, "Lch", Lch<D65, $T>, 3, 4, ["l", "chroma", "hue"], |a| Lch::new_const(a[0], a[1], LabHue::new(a[2])), |c| [c.l, c.chroma, c.hue.into_inner()]);
        castable!($out, $rng, $tier, $T, no, "Lchuv", Lchuv<D65, $T>, 3, 4, ["l", "chroma", "hue"], |a| Lchuv::new_const(a[0], a[1], LuvHue::new(a[2])), |c| [c.l, c.chroma, c.hue.into_inner()]);
        castable!($out, $rng, $tier, $T, no, "Okhsl", Okhsl<$T>, 3, 4, ["hue", "saturation", "lightness"], |a| Okhsl::new_const(OklabHue::new(a[0]), a[1], a[2]), |c| [c.hue.into_inner(), c.saturation, c.lightness]);
        castable!($out, $rng, $tier, $T, no, "Okhsv", Okhsv<$T>, 3, 4, ["hue", "saturation", "value"], |a| Okhsv::new_const(OklabHue::new(a[0]), a[1], a[2]), |c| [c.hue.into_inner(), c.saturation, c.value]);
        castable!($out, $rng, $tier, $T, no, "Okhwb", Okhwb<$T>, 3, 4, ["hue", "whiteness", "blackness"], |a| Okhwb::new_const(OklabHue::new(a[0]), a[1], a[2]), |c| [c.hue.into_inner(), c.whiteness, c.blackness]);
        castable!($out, $rng, $tier, $T, no, "Oklch", Oklch<$T>, 3, 4, ["l", "chroma", "hue"], |a| Oklch::new_const(a[0], a[1], OklabHue::new(a[2])), |c| [c.l, c.chroma, c.hue.into_inner()]);
    };
}
/// castable colour types, group 3; `$pre` = yes where `PreAlpha` exists (float components)
macro_rules! group3 {
    ($out:ident, $rng:ident, $tier:ident, $T:ty, $pre:tt) => {
        castable!($out, $rng, $tier, $T, no, "Cam16UcsJmh", Cam16UcsJmh<$T>, 3, 4, ["lightness", "colorfulness", "hue"], |a| Cam16UcsJmh::new_const(a[0], a[1], Cam16Hue::new(a[2])), |c| [c.lightness, c.colorfulness, c.hue.into_inner()]);
        castable!($out, $rng, $tier, $T, no, "Cam16Jch", Cam16Jch<$T>, 3, 4, ["lightness", "chroma", "hue"], |a| Cam16Jch::new_const(a[0], a[1], Cam16Hue::new(a[2])), |c| [c.lightness, c.chroma, c.hue.into_inner()]);
        castable!($out, $rng, $tier, $T, no, "Cam16Jmh", Cam16Jmh<$T>, 3, 4, ["lightness", "colorfulness", "hue"], |a| Cam16Jmh::new_const(a[0], a[1], Cam16Hue::new(a[2])), |c| [c.lightness, c.colorfulness, c.hue.into_inner()]);
        castable!($out, $rng, $tier, $T, no, "Cam16Jsh", Cam16Jsh<$T>, 3, 4, ["lightness", "saturation", "hue"], |a| Cam16Jsh::new_const(a[0], a[1], Cam16Hue::new(a[2])), |c| [c.lightness, c.saturation, c.hue.into_inner()]);
        castable!($out, $rng, $tier, $T, no, "Cam16Qch", Cam16Qch<$T>, 3, 4, ["brightness", "chroma", "hue"], |a| Cam16Qch::new_const(a[0], a[1], Cam16Hue::new(a[2])), |c| [c.brightness, c.chroma, c.hue.into_inner()]);
        castable!($out, $rng, $tier, $T, no, "Cam16Qmh", Cam16Qmh<$T>, 3, 4, ["brightness", "colorfulness", "hue"], |a| Cam16Qmh::new_const(a[0], a[1], Cam16Hue::new(a[2])), |c| [c.brightness, c.colorfulness, c.hue.into_inner()]);
        castable!($out, $rng, $tier, $T, no, "Cam16Qsh", Cam16Qsh<$T>, 3, 4, ["brightness", "saturation", "hue"], |a| Cam16Qsh::new_const(a[0], a[1], Cam16Hue::new(a[2])), |c| [c.brightness, c.saturation, c.hue.into_inner()]);
        packed!($out, $rng, $tier, $T, "Packed<4>", palette::rgb::channels::Rgba, 4, ["0", "1", "2", "3"]);
        packed!($out, $rng, $tier, $T, "Packed<4>", palette::rgb::channels::Abgr, 4, ["0", "1", "2", "3"]);
        packed!($out, $rng, $tier, $T, "Packed<2>", palette::luma::channels::La, 2, ["0", "1"]);
        packed!($out, $rng, $tier, $T, "Packed<3>", palette::rgb::channels::Argb, 3, ["0", "1", "2"]);
    };
}
