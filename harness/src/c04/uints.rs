//! `UintCast`: `Packed<O, uN>` and `Luma<S, uN>` as unsigned integers (u8 .. u128), free functions and traits
use super::*;
use core::marker::PhantomData;
use palette::cast::{self, AsUints, AsUintsMut, FromUints, IntoUints, Packed, UintCast, UintsAs, UintsAsMut, UintsFrom, UintsInto};
use palette::encoding::Srgb;
use palette::luma::Luma;

fn ru<C, U: Comp>(s: &[C], cap: usize, rd: fn(&C) -> U) -> Raw {
    Raw { ptr: s.as_ptr() as usize, len: s.len(), cap, mem: s.iter().map(|c| rd(c).bits()).collect() }
}

pub fn exercise_uint<C, U>(out: &mut Out, rng: &mut Rng, tier: &str, name: &str, mk: fn(U) -> C, rd: fn(&C) -> U)
where U: Comp, C: UintCast<Uint = U> + 'static {
    let thorough = tier == "thorough";
    let mut cx = Ctx { out, ty: name.to_string(), comp: U::TAG, n: 1, hexw: U::HEXW };
    cx.check(std::mem::size_of::<C>() == std::mem::size_of::<U>() && std::mem::align_of::<C>() == std::mem::align_of::<U>(), "layout:uint", || "size/align".into());
    let one = |c: &C| ru(core::slice::from_ref(c), 1, rd);
    let oneu = |u: &U| raw_t(core::slice::from_ref(u), 1);
    // single values; the extreme bit patterns first
    let mut singles: Vec<U> = (0..(if thorough { 4096 } else { 64 })).map(|_| U::from_seed(rng.next())).collect();
    singles.push(U::from_seed(0)); // arbitrary
    for x in singles {
        { let c = mk(x); let b = one(&c); let u = cast::into_uint(c); cx.emit("intoUints", "value", "into_uint", &b, None, Res::Ok(oneu(&u)));
          cx.check(u.bits() == x.bits(), "declared-order:constructor->uint", || format!("{:x} -> {:x}", x.bits(), u.bits()));
          let c2: C = cast::from_uint(u); cx.emit("fromUints", "value", "from_uint", &oneu(&u), None, Res::Ok(one(&c2)));
          cx.check(rd(&c2).bits() == x.bits(), "round-trip:uint/value", || format!("{:x}", x.bits())); }
        { let mut c = mk(x); let b = one(&c);
          let u = cast::into_uint_ref(&c); cx.emit("intoUints", "ref", "into_uint_ref", &b, None, Res::Ok(oneu(u)));
          let c2: &C = cast::from_uint_ref(u); cx.emit("fromUints", "ref", "from_uint_ref", &oneu(u), None, Res::Ok(one(c2))); cx.round_trip("uint/ref", &b, &one(c2));
          let u = cast::into_uint_mut(&mut c); let r = oneu(u); *u = U::from_seed(x.bits() as u64 ^ 0x77); let w = u.bits(); cx.emit("intoUints", "mut", "into_uint_mut", &b, None, Res::Ok(r));
          cx.check(rd(&c).bits() == w, "write-through:into_uint_mut", || "write through &mut uint not seen in the colour".into());
          let mut y = x; let by = oneu(&y); let c3: &mut C = cast::from_uint_mut(&mut y); let r = one(c3); cx.emit("fromUints", "mut", "from_uint_mut", &by, None, Res::Ok(r)); }
    }
    // fixed-size arrays by value
    { let s = rng.next(); let v: [C; 3] = core::array::from_fn(|i| mk(U::from_seed(s.wrapping_add(i as u64)))); let b = ru(&v, 3, rd);
      let u: [U; 3] = cast::into_uint_array(v); let rb = raw_t(&u, 3); cx.emit("intoUints", "array", "into_uint_array", &b, None, Res::Ok(rb.clone()));
      let c: [C; 3] = cast::from_uint_array(u); cx.emit("fromUints", "array", "from_uint_array", &rb, None, Res::Ok(ru(&c, 3, rd)));
      let u: [U; 3] = c.into_uints(); cx.emit("intoUints", "array", "IntoUints", &b, None, Res::Ok(raw_t(&u, 3)));
      let c = <[C; 3]>::from_uints(u); cx.emit("fromUints", "array", "FromUints", &rb, None, Res::Ok(ru(&c, 3, rd)));
      let u = <[U; 3]>::uints_from(c); let mut c: [C; 3] = u.uints_into(); cx.check(ru(&c, 3, rd).mem == b.mem, "round-trip:uint/array", || "".into());
      let bb = ru(&c, 3, rd);
      let u: &[U] = c.as_uints(); cx.emit("intoUints", "array&", "AsUints", &bb, None, Res::Ok(raw_t(u, 3)));
      let u: &[U] = (&c).into_uints(); cx.emit("intoUints", "array&", "IntoUints", &bb, None, Res::Ok(raw_t(u, 3)));
      let u: &mut [U] = c.as_uints_mut(); let r = raw_t(u, 3); cx.emit("intoUints", "array&mut", "AsUintsMut", &bb, None, Res::Ok(r));
      let u: &mut [U] = (&mut c).into_uints(); let r = raw_t(u, 3); cx.emit("intoUints", "array&mut", "IntoUints", &bb, None, Res::Ok(r));
      let mut uu: [U; 3] = cast::into_uint_array(c); let bu = raw_t(&uu, 3);
      let c: &[C] = uu.uints_as(); cx.emit("fromUints", "array&", "UintsAs", &bu, None, Res::Ok(ru(c, 3, rd)));
      let c = <&[C]>::from_uints(&uu); cx.emit("fromUints", "array&", "FromUints", &bu, None, Res::Ok(ru(c, 3, rd)));
      let c: &mut [C] = uu.uints_as_mut(); let r = ru(c, 3, rd); cx.emit("fromUints", "array&mut", "UintsAsMut", &bu, None, Res::Ok(r));
      let c = <&mut [C]>::from_uints(&mut uu); let r = ru(c, 3, rd); cx.emit("fromUints", "array&mut", "FromUints", &bu, None, Res::Ok(r)); }
    // buffers
    let mut lens: Vec<usize> = (0..=(if thorough { 67 } else { 12 })).collect();
    lens.push(67);
    for len in lens {
        let s = rng.next();
        let build = |cap: usize| -> Vec<C> { vec_with(len, cap, |i| mk(U::from_seed(s.wrapping_add(i as u64)))) };
        { let mut v = build(len + 2); let b = ru(&v, len, rd);
          let u = cast::into_uint_slice(&v[..]); let rb = raw_t(u, len); cx.emit("intoUints", "slice", "into_uint_slice", &b, None, Res::Ok(rb.clone()));
          let c: &[C] = cast::from_uint_slice(u); cx.emit("fromUints", "slice", "from_uint_slice", &rb, None, Res::Ok(ru(c, len, rd))); cx.round_trip("uint/slice", &b, &ru(c, len, rd));
          let u: &[U] = v.as_uints(); cx.emit("intoUints", "vec&", "AsUints", &b, None, Res::Ok(raw_t(u, len)));
          let u: &[U] = v[..].as_uints(); cx.emit("intoUints", "slice", "AsUints", &b, None, Res::Ok(raw_t(u, len)));
          let u: &[U] = (&v).into_uints(); cx.emit("intoUints", "vec&", "IntoUints", &b, None, Res::Ok(raw_t(u, len)));
          let u: &[U] = (&v[..]).into_uints(); cx.emit("intoUints", "slice", "IntoUints", &b, None, Res::Ok(raw_t(u, len)));
          let u = <&[U]>::uints_from(&v[..]); cx.emit("intoUints", "slice", "UintsFrom", &b, None, Res::Ok(raw_t(u, len)));
          let u = cast::into_uint_slice_mut(&mut v[..]); let rb = raw_t(u, len);
          let wrote = if len > 0 { let k = (s as usize) % len; u[k] = U::from_seed(s ^ 0x1234); Some((k, u[k].bits())) } else { None };
          cx.emit("intoUints", "slicemut", "into_uint_slice_mut", &b, None, Res::Ok(rb));
          if let Some((k, w)) = wrote { cx.check(rd(&v[k]).bits() == w, "write-through:into_uint_slice_mut", || format!("element {}", k)); }
          let b = ru(&v, len, rd);
          let u: &mut [U] = v.as_uints_mut(); let r = raw_t(u, len); cx.emit("intoUints", "vec&mut", "AsUintsMut", &b, None, Res::Ok(r));
          let u: &mut [U] = v[..].as_uints_mut(); let r = raw_t(u, len); cx.emit("intoUints", "slicemut", "AsUintsMut", &b, None, Res::Ok(r));
          let u: &mut [U] = (&mut v).into_uints(); let r = raw_t(u, len); cx.emit("intoUints", "vec&mut", "IntoUints", &b, None, Res::Ok(r));
          let u: &mut [U] = (&mut v[..]).into_uints(); let r = raw_t(u, len); cx.emit("intoUints", "slicemut", "IntoUints", &b, None, Res::Ok(r)); }
        { let mut w: Vec<U> = vec_with(len, len + 3, |i| U::from_seed(s.wrapping_add(i as u64))); let b = raw_t(&w, len);
          let c: &[C] = w.uints_as(); cx.emit("fromUints", "vec&", "UintsAs", &b, None, Res::Ok(ru(c, len, rd)));
          let c: &[C] = w[..].uints_as(); cx.emit("fromUints", "slice", "UintsAs", &b, None, Res::Ok(ru(c, len, rd)));
          let c = <&[C]>::from_uints(&w); cx.emit("fromUints", "vec&", "FromUints", &b, None, Res::Ok(ru(c, len, rd)));
          let c = <&[C]>::from_uints(&w[..]); cx.emit("fromUints", "slice", "FromUints", &b, None, Res::Ok(ru(c, len, rd)));
          let c: &[C] = (&w[..]).uints_into(); cx.emit("fromUints", "slice", "UintsInto", &b, None, Res::Ok(ru(c, len, rd)));
          let c = cast::from_uint_slice_mut::<C>(&mut w[..]); let r = ru(c, len, rd); cx.emit("fromUints", "slicemut", "from_uint_slice_mut", &b, None, Res::Ok(r));
          let c: &mut [C] = w.uints_as_mut(); let r = ru(c, len, rd); cx.emit("fromUints", "vec&mut", "UintsAsMut", &b, None, Res::Ok(r));
          let c: &mut [C] = w[..].uints_as_mut(); let r = ru(c, len, rd); cx.emit("fromUints", "slicemut", "UintsAsMut", &b, None, Res::Ok(r));
          let c = <&mut [C]>::from_uints(&mut w); let r = ru(c, len, rd); cx.emit("fromUints", "vec&mut", "FromUints", &b, None, Res::Ok(r));
          let c = <&mut [C]>::from_uints(&mut w[..]); let r = ru(c, len, rd); cx.emit("fromUints", "slicemut", "FromUints", &b, None, Res::Ok(r));
          let mut bx = w.into_boxed_slice(); let b = raw_t(&bx, len);
          let c: &[C] = bx.uints_as(); cx.emit("fromUints", "box&", "UintsAs", &b, None, Res::Ok(ru(c, len, rd)));
          let c = <&[C]>::from_uints(&bx); cx.emit("fromUints", "box&", "FromUints", &b, None, Res::Ok(ru(c, len, rd)));
          let c: &mut [C] = bx.uints_as_mut(); let r = ru(c, len, rd); cx.emit("fromUints", "box&mut", "UintsAsMut", &b, None, Res::Ok(r));
          let c = <&mut [C]>::from_uints(&mut bx); let r = ru(c, len, rd); cx.emit("fromUints", "box&mut", "FromUints", &b, None, Res::Ok(r)); }
        { let mut v = build(len).into_boxed_slice(); let b = ru(&v, len, rd);
          let u: &[U] = v.as_uints(); cx.emit("intoUints", "box&", "AsUints", &b, None, Res::Ok(raw_t(u, len)));
          let u: &[U] = (&v).into_uints(); cx.emit("intoUints", "box&", "IntoUints", &b, None, Res::Ok(raw_t(u, len)));
          let u: &mut [U] = v.as_uints_mut(); let r = raw_t(u, len); cx.emit("intoUints", "box&mut", "AsUintsMut", &b, None, Res::Ok(r));
          let u: &mut [U] = (&mut v).into_uints(); let r = raw_t(u, len); cx.emit("intoUints", "box&mut", "IntoUints", &b, None, Res::Ok(r));
          let u = cast::into_uint_slice_box(v); let rb = raw_t(&u, len); cx.emit("intoUints", "boxslice", "into_uint_slice_box", &b, None, Res::Ok(rb.clone()));
          let c: Box<[C]> = cast::from_uint_slice_box(u); let r = ru(&c, len, rd); cx.emit("fromUints", "boxslice", "from_uint_slice_box", &rb, None, Res::Ok(r.clone())); cx.round_trip("uint/boxslice", &b, &r);
          let u: Box<[U]> = c.into_uints(); let rb = raw_t(&u, len); cx.emit("intoUints", "boxslice", "IntoUints", &r, None, Res::Ok(rb.clone()));
          let c = Box::<[C]>::from_uints(u); let r = ru(&c, len, rd); cx.emit("fromUints", "boxslice", "FromUints", &rb, None, Res::Ok(r.clone()));
          let u = Box::<[U]>::uints_from(c); let rb = raw_t(&u, len); cx.emit("intoUints", "boxslice", "UintsFrom", &r, None, Res::Ok(rb.clone()));
          let c: Box<[C]> = u.uints_into(); cx.emit("fromUints", "boxslice", "UintsInto", &rb, None, Res::Ok(ru(&c, len, rd))); }
        for cap in caps(len, 3, thorough) {
          let v = build(cap); let b = ru(&v, v.capacity(), rd);
          let u = cast::into_uint_vec(v); let rb = raw_t(&u, u.capacity()); cx.emit("intoUints", "vec", "into_uint_vec", &b, None, Res::Ok(rb.clone()));
          let c: Vec<C> = cast::from_uint_vec(u); let r = ru(&c, c.capacity(), rd); cx.emit("fromUints", "vec", "from_uint_vec", &rb, None, Res::Ok(r.clone())); cx.round_trip("uint/vec", &b, &r);
          let u: Vec<U> = c.into_uints(); let rb = raw_t(&u, u.capacity()); cx.emit("intoUints", "vec", "IntoUints", &r, None, Res::Ok(rb.clone()));
          let c = Vec::<C>::from_uints(u); let r = ru(&c, c.capacity(), rd); cx.emit("fromUints", "vec", "FromUints", &rb, None, Res::Ok(r.clone()));
          let u = Vec::<U>::uints_from(c); let rb = raw_t(&u, u.capacity()); cx.emit("intoUints", "vec", "UintsFrom", &r, None, Res::Ok(rb.clone()));
          let c: Vec<C> = u.uints_into(); let r2 = ru(&c, c.capacity(), rd); cx.emit("fromUints", "vec", "UintsInto", &rb, None, Res::Ok(r2.clone())); cx.round_trip("uint/vec/traits", &b, &r2); }
    }
}

/// the `From`/`AsRef`/`AsMut` sugar of `impl_uint_casts_self!` / `impl_uint_casts_other!` (Packed only)
fn packed_std<O: 'static, U: Comp>(out: &mut Out, rng: &mut Rng)
where Packed<O, U>: UintCast<Uint = U> + From<U> + AsRef<U> + AsMut<U>, U: From<Packed<O, U>> + AsRef<Packed<O, U>> + AsMut<Packed<O, U>> {
    let mut cx = Ctx { out, ty: "Packed".to_string(), comp: U::TAG, n: 1, hexw: U::HEXW };
    let rd = |c: &Packed<O, U>| c.color;
    let one = |c: &Packed<O, U>| Raw { ptr: c as *const _ as usize, len: 1, cap: 1, mem: vec![rd(c).bits()] };
    let oneu = |u: &U| raw_t(core::slice::from_ref(u), 1);
    for _ in 0..32 {
        let x = U::from_seed(rng.next());
        let mut c: Packed<O, U> = Packed { color: x, channel_order: PhantomData }; let b = one(&c);
        let u: &U = c.as_ref(); cx.emit("intoUints", "ref", "AsRef", &b, None, Res::Ok(oneu(u)));
        let c2: &Packed<O, U> = u.as_ref(); cx.emit("fromUints", "ref", "AsRef", &oneu(u), None, Res::Ok(one(c2)));
        let u: &mut U = c.as_mut(); let r = oneu(u); cx.emit("intoUints", "mut", "AsMut", &b, None, Res::Ok(r));
        let mut y = x; let by = oneu(&y); let c3: &mut Packed<O, U> = y.as_mut(); let r = one(c3); cx.emit("fromUints", "mut", "AsMut", &by, None, Res::Ok(r));
        let u: U = c.into(); cx.emit("intoUints", "value", "From", &b, None, Res::Ok(oneu(&u)));
        let c4 = Packed::<O, U>::from(u); cx.emit("fromUints", "value", "From", &oneu(&u), None, Res::Ok(one(&c4)));
        cx.check(c4.color.bits() == x.bits(), "round-trip:uint/From", || format!("{:x}", x.bits()));
    }
}

macro_rules! uint_types {
    ($out:ident, $rng:ident, $tier:ident, $($U:ty),+) => { $(
        { fn mk(x: $U) -> Luma<Srgb, $U> { Luma::new(x) } fn rd(c: &Luma<Srgb, $U>) -> $U { c.luma }
          exercise_uint::<Luma<Srgb, $U>, $U>($out, $rng, $tier, "Luma", mk, rd); }
        { type P = Packed<palette::rgb::channels::Argb, $U>;
          fn mk(x: $U) -> P { Packed { color: x, channel_order: PhantomData } } fn rd(c: &P) -> $U { c.color }
          exercise_uint::<P, $U>($out, $rng, $tier, "Packed", mk, rd);
          packed_std::<palette::rgb::channels::Argb, $U>($out, $rng); }
        { type P = Packed<palette::luma::channels::La, $U>;
          fn mk(x: $U) -> P { Packed { color: x, channel_order: PhantomData } } fn rd(c: &P) -> $U { c.color }
          exercise_uint::<P, $U>($out, $rng, $tier, "Packed", mk, rd); }
    )+ };
}

pub fn run_all(out: &mut Out, rng: &mut Rng, tier: &str) {
    uint_types!(out, rng, tier, u8, u16, u32, u64, u128);
    // the packed value of a colour is the integer `into_uint` returns (byte order itself is C12's)
    let p: Packed<palette::rgb::channels::Rgba, u32> = Packed::pack(palette::Srgba::new(0x11u8, 0x22, 0x33, 0x44));
    out.check(cast::into_uint(p) == p.color, "declared-order:packed", || "into_uint(Packed) != .color".into());
}
