//! every `ArrayCast` colour type x component type.  The generic exercise code (`body.rs`) is included once per
//! (component type, type group) module so that rustc spreads the ~350 instantiations over its codegen units.
use super::*;

macro_rules! unit {
    ($m:ident, $T:ty, $pre:tt, $group:ident) => {
        #[allow(unused_imports, unused_macros, dead_code)]
        pub mod $m {
            include!("body.rs");
            pub fn run(out: &mut Out, rng: &mut Rng, tier: &str) { $group!(out, rng, tier, $T, $pre); }
        }
    };
}
unit!(u8_1, u8, no, group1);   unit!(u8_2, u8, no, group2);   unit!(u8_3, u8, no, group3);
unit!(u16_1, u16, no, group1); unit!(u16_2, u16, no, group2); unit!(u16_3, u16, no, group3);
unit!(u32_1, u32, no, group1); unit!(u32_2, u32, no, group2); unit!(u32_3, u32, no, group3);
unit!(f32_1, f32, yes, group1); unit!(f32_2, f32, no, group2); unit!(f32_3, f32, no, group3);
unit!(f64_1, f64, yes, group1); unit!(f64_2, f64, no, group2); unit!(f64_3, f64, no, group3);

pub fn run_all(out: &mut Out, rng: &mut Rng, tier: &str) {
    u8_1::run(out, rng, tier); u8_2::run(out, rng, tier); u8_3::run(out, rng, tier);
    u16_1::run(out, rng, tier); u16_2::run(out, rng, tier); u16_3::run(out, rng, tier);
    u32_1::run(out, rng, tier); u32_2::run(out, rng, tier); u32_3::run(out, rng, tier);
    f32_1::run(out, rng, tier); f32_2::run(out, rng, tier); f32_3::run(out, rng, tier);
    f64_1::run(out, rng, tier); f64_2::run(out, rng, tier); f64_3::run(out, rng, tier);
}
