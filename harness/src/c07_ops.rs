//! C07, second half: every colour operator, blend mode, compose operator, colour difference and the CAM16 conversions on the
//! boundary lattice (see `c07.rs` for the domain and the clauses).
#![allow(clippy::too_many_arguments, clippy::type_complexity)]
use crate::c07::*;
use crate::common::*;
use palette::blend::{Blend, Compose, PreAlpha, Premultiply};
use palette::cast::{self, ArrayCast};
use palette::color_difference::{Ciede2000, DeltaE, EuclideanDistance, HyAb, ImprovedCiede2000, ImprovedDeltaE, Wcag21RelativeContrast};
use palette::color_theory::{Analogous, Complementary, SplitComplementary, Tetradic, Triadic};
use palette::convert::FromColorUnclamped;
use palette::{Alpha, Clamp, Darken, Desaturate, IsWithinBounds, Lighten, Mix, Saturate, ShiftHue, WithHue};
use std::panic::{catch_unwind, AssertUnwindSafe};

fn guard<R>(f: impl FnOnce() -> R) -> Option<R> { catch_unwind(AssertUnwindSafe(f)).ok() }
fn arr<C: ArrayCast<Array = [T; N]>, T, const N: usize>(c: C) -> [T; N] { cast::into_array(c) }
fn mk<C: ArrayCast<Array = [T; N]>, T, const N: usize>(a: [T; N]) -> C { cast::from_array(a) }
fn show<T: F>(a: &[T]) -> String { format!("{:?}", a.iter().map(|x| x.to64()).collect::<Vec<_>>()) }

/// `no-panic` + `finite` for one guarded call (no listed finding applies to operators / blends / differences)
fn judge<T: F>(out: &mut Out, what: &str, r: Option<Vec<T>>, input: &dyn Fn() -> String) {
    match r {
        None => out.check(false, &format!("no-panic:{}:{}", what, T::TAG), || format!("{} panicked", input())),
        Some(v) => {
            out.check(true, &format!("no-panic:{}:{}", what, T::TAG), String::new);
            out.check(v.iter().all(|x| x.finite()), &format!("finite:{}:{}", what, T::TAG), || format!("{} -> {}", input(), show(&v)));
        }
    }
}

/// operator factors: the documented range [0, 1] on the lattice {0, 1e-9, 1/2, 1 - 1e-9, 1}
fn factors<T: F>() -> Vec<T> { [0.0, 1e-9, 0.5, 1.0 - 1e-9, 1.0].iter().map(|&x| T::of(x)).collect() }
/// hue amounts: sector edges, half and full turn
fn hue_amounts<T: F>() -> Vec<T> { [0.0, 3.6e-7, 60.0, 180.0, -180.0, 360.0].iter().map(|&x| T::of(x)).collect() }
/// in-range non-zero divisors
fn divisors<T: F>() -> Vec<T> { [1e-9, 0.5, 1.0].iter().map(|&x| T::of(x)).collect() }
fn alphas<T: F>() -> [T; 3] { [T::of(0.0), T::of(1e-9), T::of(1.0)] }

/// thorough tier: the full per-component lattice for operators, blends and differences too
static FULL: std::sync::atomic::AtomicBool = std::sync::atomic::AtomicBool::new(false);
fn box_of<const N: usize>(name: &str) -> [Comp; N] { let b = space_box(name); let mut o = [Comp::R(0.0, 0.0); N]; for i in 0..N { o[i] = b[i]; } o }
/// second pass (coverage audit, c07_more.rs A): the same clauses on the edge lattice only, every colour with a handful of partners
static EDGE: std::sync::atomic::AtomicBool = std::sync::atomic::AtomicBool::new(false);
fn edge_mode() -> bool { EDGE.load(std::sync::atomic::Ordering::Relaxed) }
fn cols<T: F, const N: usize>(name: &str) -> Vec<[T; N]> {
    if edge_mode() { return crate::c07_more::edge_colours::<T, N>(&box_of::<N>(name)); }
    let base = name.split(':').next().unwrap();
    let (small, sl) = (!FULL.load(std::sync::atomic::Ordering::Relaxed), None);
    with_interior(base, &box_of::<N>(name), small, sl, lattice_colours::<T, N>(&box_of::<N>(name), small, sl))
}

// ------------------------------------------------------------------------------------------------ operators

fn op_mix<C, T: F, const N: usize>(out: &mut Out, key: &str)
where C: ArrayCast<Array = [T; N]> + Clone + Mix<Scalar = T>, Alpha<C, T>: Mix<Scalar = T> {
    let cs = cols::<T, N>(key);
    for (a, b) in pairs_of(&cs) {
        {
            for f in factors::<T>() {
                judge(out, &format!("mix:{}", key), guard(|| arr(mk::<C, T, N>(a).mix(mk(b), f)).to_vec()), &|| format!("{}.mix({}, {:?})", show(&a), show(&b), f));
            }
            for al in alphas::<T>() {
                judge(out, &format!("mix:Alpha<{}>", key), guard(|| { let r = Alpha { color: mk::<C, T, N>(a), alpha: al }.mix(Alpha { color: mk(b), alpha: T::of(1.0) }, T::of(0.5)); let mut v = arr(r.color).to_vec(); v.push(r.alpha); v }), &|| format!("Alpha({}, {:?}).mix(Alpha({}, 1), 0.5)", show(&a), al, show(&b)));
            }
        }
    }
}

macro_rules! gen_unary_factor { ($fname:ident, $Tr:ident, $m:ident, $mf:ident, $name:expr) => {
fn $fname<C, T: F, const N: usize>(out: &mut Out, key: &str) where C: ArrayCast<Array = [T; N]> + Clone + $Tr<Scalar = T> {
    for a in cols::<T, N>(key) { for f in factors::<T>() {
        judge(out, &format!("{}:{}", $name, key), guard(|| arr(mk::<C, T, N>(a).$m(f)).to_vec()), &|| format!("{}.{}({:?})", show(&a), $name, f));
        judge(out, &format!("{}_fixed:{}", $name, key), guard(|| arr(mk::<C, T, N>(a).$mf(f)).to_vec()), &|| format!("{}.{}_fixed({:?})", show(&a), $name, f));
    } }
} } }
gen_unary_factor!(op_lighten, Lighten, lighten, lighten_fixed, "lighten");
gen_unary_factor!(op_darken, Darken, darken, darken_fixed, "darken");
gen_unary_factor!(op_saturate, Saturate, saturate, saturate_fixed, "saturate");
gen_unary_factor!(op_desaturate, Desaturate, desaturate, desaturate_fixed, "desaturate");

fn op_hue<C, T: F, const N: usize>(out: &mut Out, key: &str)
where C: ArrayCast<Array = [T; N]> + Clone + ShiftHue<Scalar = T> + WithHue<T> + Complementary + SplitComplementary + Analogous + Triadic + Tetradic {
    for a in cols::<T, N>(key) {
        for h in hue_amounts::<T>() {
            judge(out, &format!("shift_hue:{}", key), guard(|| arr(mk::<C, T, N>(a).shift_hue(h)).to_vec()), &|| format!("{}.shift_hue({:?})", show(&a), h));
            judge(out, &format!("with_hue:{}", key), guard(|| arr(mk::<C, T, N>(a).with_hue(h)).to_vec()), &|| format!("{}.with_hue({:?})", show(&a), h));
        }
        judge(out, &format!("color_theory:{}", key), guard(|| {
            let c = mk::<C, T, N>(a);
            let mut v = arr(c.clone().complementary()).to_vec();
            let (p, q) = c.clone().split_complementary(); v.extend(arr(p)); v.extend(arr(q));
            let (p, q) = c.clone().analogous(); v.extend(arr(p)); v.extend(arr(q));
            let (p, q) = c.clone().analogous_secondary(); v.extend(arr(p)); v.extend(arr(q));
            let (p, q) = c.clone().triadic(); v.extend(arr(p)); v.extend(arr(q));
            let (p, q, r) = c.tetradic(); v.extend(arr(p)); v.extend(arr(q)); v.extend(arr(r));
            v }), &|| format!("{}: complementary/split/analogous/triadic/tetradic", show(&a)));
    }
}

fn op_lab_theory<C, T: F, const N: usize>(out: &mut Out, key: &str) where C: ArrayCast<Array = [T; N]> + Clone + Complementary + Tetradic {
    for a in cols::<T, N>(key) {
        judge(out, &format!("color_theory:{}", key), guard(|| { let c = mk::<C, T, N>(a); let mut v = arr(c.clone().complementary()).to_vec(); let (p, q, r) = c.tetradic(); v.extend(arr(p)); v.extend(arr(q)); v.extend(arr(r)); v }), &|| format!("{}: complementary/tetradic", show(&a)));
    }
}

fn op_clamp<C, T: F, const N: usize>(out: &mut Out, key: &str) where C: ArrayCast<Array = [T; N]> + Clone + Clamp + IsWithinBounds<Mask = bool> {
    for a in cols::<T, N>(key) {
        judge(out, &format!("clamp:{}", key), guard(|| arr(mk::<C, T, N>(a).clamp()).to_vec()), &|| format!("{}.clamp()", show(&a)));
        let r = guard(|| mk::<C, T, N>(a).is_within_bounds());
        out.check(r.is_some(), &format!("no-panic:is_within_bounds:{}:{}", key, T::TAG), || format!("{} panicked", show(&a)));
    }
}

fn op_arith<C, T: F, const N: usize>(out: &mut Out, key: &str, muldiv: bool)
where C: ArrayCast<Array = [T; N]> + Clone + std::ops::Add<C, Output = C> + std::ops::Sub<C, Output = C> + std::ops::Add<T, Output = C> + std::ops::Sub<T, Output = C> {
    let cs = cols::<T, N>(key);
    for (i, a) in cs.iter().enumerate() {
        let (a, b) = (*a, cs[(i * 7 + 3) % cs.len()]);
        judge(out, &format!("add:{}", key), guard(|| arr(mk::<C, T, N>(a) + mk::<C, T, N>(b)).to_vec()), &|| format!("{} + {}", show(&a), show(&b)));
        judge(out, &format!("sub:{}", key), guard(|| arr(mk::<C, T, N>(a) - mk::<C, T, N>(b)).to_vec()), &|| format!("{} - {}", show(&a), show(&b)));
        for s in divisors::<T>() {
            judge(out, &format!("add-scalar:{}", key), guard(|| arr(mk::<C, T, N>(a) + s).to_vec()), &|| format!("{} + {:?}", show(&a), s));
            judge(out, &format!("sub-scalar:{}", key), guard(|| arr(mk::<C, T, N>(a) - s).to_vec()), &|| format!("{} - {:?}", show(&a), s));
        }
    }
    let _ = muldiv;
}
fn op_muldiv<C, T: F, const N: usize>(out: &mut Out, key: &str)
where C: ArrayCast<Array = [T; N]> + Clone + std::ops::Mul<C, Output = C> + std::ops::Div<C, Output = C> + std::ops::Mul<T, Output = C> + std::ops::Div<T, Output = C> {
    let cs = cols::<T, N>(key);
    for (i, a) in cs.iter().enumerate() {
        let (a, b) = (*a, cs[(i * 7 + 3) % cs.len()]);
        judge(out, &format!("mul:{}", key), guard(|| arr(mk::<C, T, N>(a) * mk::<C, T, N>(b)).to_vec()), &|| format!("{} * {}", show(&a), show(&b)));
        // division by a colour all of whose components are in range and non-zero
        if b.iter().all(|x| x.to64() != 0.0) { judge(out, &format!("div:{}", key), guard(|| arr(mk::<C, T, N>(a) / mk::<C, T, N>(b)).to_vec()), &|| format!("{} / {}", show(&a), show(&b))); }
        for s in divisors::<T>() {
            judge(out, &format!("mul-scalar:{}", key), guard(|| arr(mk::<C, T, N>(a) * s).to_vec()), &|| format!("{} * {:?}", show(&a), s));
            judge(out, &format!("div-scalar:{}", key), guard(|| arr(mk::<C, T, N>(a) / s).to_vec()), &|| format!("{} / {:?}", show(&a), s));
        }
    }
}

// ------------------------------------------------------------------------------------------------ blending, compositing

macro_rules! modes { ($m:ident) => { $m!(multiply); $m!(screen); $m!(overlay); $m!(darken); $m!(lighten); $m!(dodge); $m!(burn); $m!(hard_light); $m!(soft_light); $m!(difference); $m!(exclusion); } }
macro_rules! pd_ops { ($m:ident) => { $m!(over); $m!(inside); $m!(outside); $m!(atop); $m!(xor); $m!(plus); } }

fn pre_vec<C: ArrayCast<Array = [T; N]> + Premultiply<Scalar = T>, T: F, const N: usize>(p: PreAlpha<C>) -> Vec<T> { let mut v = arr(p.color).to_vec(); v.push(p.alpha); v }
fn al_vec<C: ArrayCast<Array = [T; N]>, T: F, const N: usize>(p: Alpha<C, T>) -> Vec<T> { let mut v = arr(p.color).to_vec(); v.push(p.alpha); v }

/// pairs of lattice colours: every colour with a rotating fifth of the others
fn pairs_of<T: F, const N: usize>(cs: &[[T; N]]) -> Vec<([T; N], [T; N])> {
    let mut v = vec![];
    if edge_mode() { let n = cs.len(); for (i, a) in cs.iter().enumerate() { for j in [i, (i * 7 + 3) % n, (i * 13 + n / 2) % n, n - 1 - i] { v.push((*a, cs[j])); } } return v; }
    for (i, a) in cs.iter().enumerate() { for b in cs.iter().skip(i % 5).step_by(5) { v.push((*a, *b)); } }
    v
}

fn run_blend<C, T: F, const N: usize>(out: &mut Out, key: &str)
where C: ArrayCast<Array = [T; N]> + Clone + Premultiply<Scalar = T> + Blend, Alpha<C, T>: Blend, PreAlpha<C>: Blend {
    let cs = cols::<T, N>(key);
    for (s, d) in pairs_of(&cs) {
        macro_rules! m { ($mode:ident) => {{
            judge(out, &format!("blend:{}:{}", stringify!($mode), key), guard(|| arr(mk::<C, T, N>(s).$mode(mk(d))).to_vec()), &|| format!("{}.{}({})", show(&s), stringify!($mode), show(&d)));
        }} }
        modes!(m);
    }
    // with transparency: alpha in {0, 1e-9, 1} on both sides, straight and premultiplied forms
    let sub: Vec<([T; N], [T; N])> = pairs_of(&cs).into_iter().step_by(3).collect();
    for (s, d) in sub {
        for sa in alphas::<T>() { for da in alphas::<T>() {
            macro_rules! m { ($mode:ident) => {{
                judge(out, &format!("blend:{}:Alpha<{}>", stringify!($mode), key), guard(|| al_vec(Alpha { color: mk::<C, T, N>(s), alpha: sa }.$mode(Alpha { color: mk(d), alpha: da }))), &|| format!("Alpha({}, {:?}).{}(Alpha({}, {:?}))", show(&s), sa, stringify!($mode), show(&d), da));
                judge(out, &format!("blend:{}:PreAlpha<{}>", stringify!($mode), key), guard(|| pre_vec(mk::<C, T, N>(s).premultiply(sa).$mode(mk::<C, T, N>(d).premultiply(da)))), &|| format!("{}.premultiply({:?}).{}({}.premultiply({:?}))", show(&s), sa, stringify!($mode), show(&d), da));
            }} }
            modes!(m);
        } }
    }
}

fn run_compose<C, T: F, const N: usize>(out: &mut Out, key: &str)
where C: ArrayCast<Array = [T; N]> + Clone + Premultiply<Scalar = T> + Compose, Alpha<C, T>: Compose, PreAlpha<C>: Compose {
    let cs = cols::<T, N>(key);
    for (s, d) in pairs_of(&cs) {
        macro_rules! m { ($op:ident) => {{
            judge(out, &format!("compose:{}:{}", stringify!($op), key), guard(|| arr(mk::<C, T, N>(s).$op(mk(d))).to_vec()), &|| format!("{}.{}({})", show(&s), stringify!($op), show(&d)));
        }} }
        pd_ops!(m);
    }
    let sub: Vec<([T; N], [T; N])> = pairs_of(&cs).into_iter().step_by(3).collect();
    for (s, d) in sub {
        for sa in alphas::<T>() { for da in alphas::<T>() {
            macro_rules! m { ($op:ident) => {{
                judge(out, &format!("compose:{}:Alpha<{}>", stringify!($op), key), guard(|| al_vec(Alpha { color: mk::<C, T, N>(s), alpha: sa }.$op(Alpha { color: mk(d), alpha: da }))), &|| format!("Alpha({}, {:?}).{}(Alpha({}, {:?}))", show(&s), sa, stringify!($op), show(&d), da));
                judge(out, &format!("compose:{}:PreAlpha<{}>", stringify!($op), key), guard(|| pre_vec(mk::<C, T, N>(s).premultiply(sa).$op(mk::<C, T, N>(d).premultiply(da)))), &|| format!("{}.premultiply({:?}).{}({}.premultiply({:?}))", show(&s), sa, stringify!($op), show(&d), da));
            }} }
            pd_ops!(m);
            // (un)premultiplication itself
            judge(out, &format!("unpremultiply:{}", key), guard(|| { let (c, a) = C::unpremultiply(mk::<C, T, N>(s).premultiply(sa)); let mut v = arr(c).to_vec(); v.push(a); v }), &|| format!("{}.premultiply({:?}).unpremultiply()", show(&s), sa));
        } }
    }
}

// ------------------------------------------------------------------------------------------------ colour differences

fn diff_loop<T: F, const N: usize>(out: &mut Out, key: &str, name: &str, full: bool, f: &dyn Fn([T; N], [T; N]) -> T) {
    let cs = if full { full_cols::<T, N>(key) } else { cols::<T, N>(key) };
    let step = if full { 11 } else { 3 };
    if edge_mode() {
        // edge pass: every edge colour against itself and three other edge colours, both orders; no interior stream
        for (a, b) in pairs_of(&cs) { for (a, b) in [(a, b), (b, a)] { judge(out, &format!("{}:{}", name, key), guard(|| vec![f(a, b)]), &|| format!("{}.{}({})", show(&a), name, show(&b))); } }
        return;
    }
    for (i, a) in cs.iter().enumerate() { for b in cs.iter().skip(i % step).step_by(step) {
        let (a, b) = (*a, *b);
        judge(out, &format!("{}:{}", name, key), guard(|| vec![f(a, b)]), &|| format!("{}.{}({})", show(&a), name, show(&b)));
    } }
    // "all in-range colours": interior colours, and for every colour its near-identical partners (a difference is a cancelling
    // expression exactly there): the colour itself, each component moved by a few ulps or by one billionth of its range, all at once
    let bx = box_of::<N>(key);
    let mut rng = Rng::new(0xC07D1FF ^ (key.len() as u64) << 8 ^ (name.len() as u64) << 16 ^ if T::TAG == "f32" { 1 } else { 2 });
    let range_of = |c: &Comp| match *c { Comp::R(lo, hi) => (lo, hi), Comp::Hue => (-180.0, 360.0) };
    let mut base: Vec<[T; N]> = cs.iter().step_by(if full { 7 } else { 3 }).cloned().collect();
    for _ in 0..(if full { 4000 } else { 300 }) {
        let mut a = [T::of(0.0); N]; let mut ok = true;
        for i in 0..N { let (lo, hi) = range_of(&bx[i]); let (lo2, hi2) = if let Comp::Hue = bx[i] { (0.0, 360.0) } else { (lo, hi) };
            a[i] = T::of(rng.range(lo2, hi2)); ok &= admissible(a[i].to64(), lo, hi); }
        let base_name = key.split(':').next().unwrap();
        if ok { base.push(a); }
    }
    let mut pair = |a: [T; N], b: [T; N], cls: &str| {
        for i in 0..N { let (lo, hi) = range_of(&bx[i]); if !admissible(b[i].to64(), lo, hi) { return; } }
        out.count(&format!("cls:diff-near:{}", cls));
        judge(out, &format!("{}:{}", name, key), guard(|| vec![f(a, b)]), &|| format!("{}.{}({})", show(&a), name, show(&b)));
        judge(out, &format!("{}:{}", name, key), guard(|| vec![f(b, a)]), &|| format!("{}.{}({})", show(&b), name, show(&a)));
    };
    for a in base {
        pair(a, a, "same");
        for i in 0..N {
            let (lo, hi) = range_of(&bx[i]);
            for k in [1i64, -1, 3, -7, 64] { let mut b = a; b[i] = a[i].nudge(k); pair(a, b, "ulps"); }
            for d in [1e-9 * (hi - lo), -1e-9 * (hi - lo), 1e-6 * (hi - lo)] { let mut b = a; b[i] = T::of(a[i].to64() + d); pair(a, b, "billionth"); }
        }
        let mut b = a; for i in 0..N { b[i] = a[i].nudge(if i % 2 == 0 { 2 } else { -3 }); } pair(a, b, "all-ulps");
    }
}

fn full_cols<T: F, const N: usize>(name: &str) -> Vec<[T; N]> { if edge_mode() { return crate::c07_more::edge_colours::<T, N>(&box_of::<N>(name)); } lattice_colours::<T, N>(&box_of::<N>(name), false, None) }

// ------------------------------------------------------------------------------------------------ everything, per component type

macro_rules! ops_for { ($out:expr, $t:ty, $th:expr) => {{
    use palette::encoding::{Linear, Srgb as S}; use palette::white_point::D65; use palette::lms::matrix::Bradford as Br;
    use palette::{Hsl, Hsv, Hwb, Lab, Lch, Luv, Lchuv, Hsluv, Xyz, Yxy, Oklab, Oklch, Okhsl, Okhsv, Okhwb};
    use palette::rgb::Rgb; use palette::luma::Luma; use palette::lms::Lms;
    use palette::cam16::{Cam16UcsJab, Cam16UcsJmh};
    type T = $t;
    let out: &mut Out = $out; let th: bool = $th;
    macro_rules! cart { ($ty:ty, $key:expr) => {{
        op_mix::<$ty, T, 3>(out, $key); op_arith::<$ty, T, 3>(out, $key, true); op_muldiv::<$ty, T, 3>(out, $key); op_clamp::<$ty, T, 3>(out, $key); op_lighten::<$ty, T, 3>(out, $key); op_darken::<$ty, T, 3>(out, $key);
    }} }
    macro_rules! cyl { ($ty:ty, $key:expr) => {{
        op_mix::<$ty, T, 3>(out, $key); op_arith::<$ty, T, 3>(out, $key, false); op_clamp::<$ty, T, 3>(out, $key); op_hue::<$ty, T, 3>(out, $key); op_lighten::<$ty, T, 3>(out, $key); op_darken::<$ty, T, 3>(out, $key);
    }} }
    macro_rules! sat { ($ty:ty, $key:expr) => {{ op_saturate::<$ty, T, 3>(out, $key); op_desaturate::<$ty, T, 3>(out, $key); }} }
    cart!(Rgb<S, T>, "Rgb"); cart!(Lab<D65, T>, "Lab"); cart!(Luv<D65, T>, "Luv"); cart!(Xyz<D65, T>, "Xyz"); cart!(Yxy<D65, T>, "Yxy"); cart!(Oklab<T>, "Oklab"); cart!(Cam16UcsJab<T>, "Cam16UcsJab");
    op_mix::<Lms<Br, T>, T, 3>(out, "Lms"); op_arith::<Lms<Br, T>, T, 3>(out, "Lms", true); op_muldiv::<Lms<Br, T>, T, 3>(out, "Lms"); op_clamp::<Lms<Br, T>, T, 3>(out, "Lms");
    op_mix::<Luma<S, T>, T, 1>(out, "Luma"); op_arith::<Luma<S, T>, T, 1>(out, "Luma", true); op_muldiv::<Luma<S, T>, T, 1>(out, "Luma"); op_clamp::<Luma<S, T>, T, 1>(out, "Luma"); op_lighten::<Luma<S, T>, T, 1>(out, "Luma"); op_darken::<Luma<S, T>, T, 1>(out, "Luma");
    cyl!(Hsl<S, T>, "Hsl"); sat!(Hsl<S, T>, "Hsl"); cyl!(Hsv<S, T>, "Hsv"); sat!(Hsv<S, T>, "Hsv"); cyl!(Hwb<S, T>, "Hwb");
    cyl!(Lch<D65, T>, "Lch"); sat!(Lch<D65, T>, "Lch"); cyl!(Lchuv<D65, T>, "Lchuv"); sat!(Lchuv<D65, T>, "Lchuv"); cyl!(Hsluv<D65, T>, "Hsluv"); sat!(Hsluv<D65, T>, "Hsluv");
    cyl!(Oklch<T>, "Oklch"); cyl!(Okhsl<T>, "Okhsl"); sat!(Okhsl<T>, "Okhsl"); cyl!(Okhsv<T>, "Okhsv"); sat!(Okhsv<T>, "Okhsv"); cyl!(Okhwb<T>, "Okhwb");
    cyl!(Cam16UcsJmh<T>, "Cam16UcsJmh"); sat!(Cam16UcsJmh<T>, "Cam16UcsJmh");
    op_lab_theory::<Lab<D65, T>, T, 3>(out, "Lab"); op_lab_theory::<Luv<D65, T>, T, 3>(out, "Luv"); op_lab_theory::<Oklab<T>, T, 3>(out, "Oklab"); op_lab_theory::<Cam16UcsJab<T>, T, 3>(out, "Cam16UcsJab");
    // blending (StimulusColor types) and compositing (Premultiply types)
    run_blend::<Rgb<Linear<S>, T>, T, 3>(out, "Rgb"); run_blend::<Rgb<S, T>, T, 3>(out, "Rgb"); run_blend::<Xyz<D65, T>, T, 3>(out, "Xyz"); run_blend::<Luma<Linear<D65>, T>, T, 1>(out, "Luma"); run_blend::<Lms<Br, T>, T, 3>(out, "Lms");
    run_compose::<Rgb<Linear<S>, T>, T, 3>(out, "Rgb"); run_compose::<Xyz<D65, T>, T, 3>(out, "Xyz"); run_compose::<Luma<Linear<D65>, T>, T, 1>(out, "Luma"); run_compose::<Lms<Br, T>, T, 3>(out, "Lms");
    run_compose::<Lab<D65, T>, T, 3>(out, "Lab"); run_compose::<Luv<D65, T>, T, 3>(out, "Luv"); run_compose::<Oklab<T>, T, 3>(out, "Oklab"); run_compose::<Yxy<D65, T>, T, 3>(out, "Yxy"); run_compose::<Cam16UcsJab<T>, T, 3>(out, "Cam16UcsJab");
    // differences
    diff_loop::<T, 3>(out, "Lab", "ciede2000", true, &|a, b| mk::<Lab<D65, T>, T, 3>(a).difference(mk::<Lab<D65, T>, T, 3>(b))); diff_loop::<T, 3>(out, "Lch", "ciede2000", th, &|a, b| mk::<Lch<D65, T>, T, 3>(a).difference(mk::<Lch<D65, T>, T, 3>(b))); diff_loop::<T, 3>(out, "Lab", "improved_ciede2000", th, &|a, b| mk::<Lab<D65, T>, T, 3>(a).improved_difference(mk::<Lab<D65, T>, T, 3>(b))); diff_loop::<T, 3>(out, "Lch", "improved_ciede2000", false, &|a, b| mk::<Lch<D65, T>, T, 3>(a).improved_difference(mk::<Lch<D65, T>, T, 3>(b)));
    diff_loop::<T, 3>(out, "Lab", "delta_e", th, &|a, b| mk::<Lab<D65, T>, T, 3>(a).delta_e(mk::<Lab<D65, T>, T, 3>(b))); diff_loop::<T, 3>(out, "Lch", "delta_e", false, &|a, b| mk::<Lch<D65, T>, T, 3>(a).delta_e(mk::<Lch<D65, T>, T, 3>(b))); diff_loop::<T, 3>(out, "Cam16UcsJab", "delta_e", false, &|a, b| mk::<Cam16UcsJab<T>, T, 3>(a).delta_e(mk::<Cam16UcsJab<T>, T, 3>(b))); diff_loop::<T, 3>(out, "Cam16UcsJmh", "delta_e", false, &|a, b| mk::<Cam16UcsJmh<T>, T, 3>(a).delta_e(mk::<Cam16UcsJmh<T>, T, 3>(b)));
    diff_loop::<T, 3>(out, "Lab", "improved_delta_e", th, &|a, b| mk::<Lab<D65, T>, T, 3>(a).improved_delta_e(mk::<Lab<D65, T>, T, 3>(b))); diff_loop::<T, 3>(out, "Lch", "improved_delta_e", false, &|a, b| mk::<Lch<D65, T>, T, 3>(a).improved_delta_e(mk::<Lch<D65, T>, T, 3>(b))); diff_loop::<T, 3>(out, "Cam16UcsJab", "improved_delta_e", false, &|a, b| mk::<Cam16UcsJab<T>, T, 3>(a).improved_delta_e(mk::<Cam16UcsJab<T>, T, 3>(b))); diff_loop::<T, 3>(out, "Cam16UcsJmh", "improved_delta_e", false, &|a, b| mk::<Cam16UcsJmh<T>, T, 3>(a).improved_delta_e(mk::<Cam16UcsJmh<T>, T, 3>(b)));
    diff_loop::<T, 3>(out, "Lab", "hyab", th, &|a, b| mk::<Lab<D65, T>, T, 3>(a).hybrid_distance(mk::<Lab<D65, T>, T, 3>(b))); diff_loop::<T, 3>(out, "Luv", "hyab", false, &|a, b| mk::<Luv<D65, T>, T, 3>(a).hybrid_distance(mk::<Luv<D65, T>, T, 3>(b))); diff_loop::<T, 3>(out, "Oklab", "hyab", false, &|a, b| mk::<Oklab<T>, T, 3>(a).hybrid_distance(mk::<Oklab<T>, T, 3>(b))); diff_loop::<T, 3>(out, "Cam16UcsJab", "hyab", false, &|a, b| mk::<Cam16UcsJab<T>, T, 3>(a).hybrid_distance(mk::<Cam16UcsJab<T>, T, 3>(b)));
    macro_rules! eu { ($ty:ty, $key:expr, $n:expr) => {{ diff_loop::<T, $n>(out, $key, "distance_squared", false, &|a, b| mk::<$ty, T, $n>(a).distance_squared(mk::<$ty, T, $n>(b))); diff_loop::<T, $n>(out, $key, "distance", false, &|a, b| mk::<$ty, T, $n>(a).distance(mk::<$ty, T, $n>(b))); }} }
    eu!(Rgb<S, T>, "Rgb", 3); eu!(Luma<S, T>, "Luma", 1); eu!(Lab<D65, T>, "Lab", 3); eu!(Luv<D65, T>, "Luv", 3); eu!(Oklab<T>, "Oklab", 3); eu!(Xyz<D65, T>, "Xyz", 3); eu!(Yxy<D65, T>, "Yxy", 3); eu!(Lms<Br, T>, "Lms", 3); eu!(Cam16UcsJab<T>, "Cam16UcsJab", 3);
    diff_loop::<T, 3>(out, "Rgb", "wcag21_relative_contrast", th, &|a, b| mk::<Rgb<S, T>, T, 3>(a).relative_contrast(mk::<Rgb<S, T>, T, 3>(b))); diff_loop::<T, 3>(out, "Rgb", "wcag21_relative_contrast", false, &|a, b| mk::<Rgb<Linear<S>, T>, T, 3>(a).relative_contrast(mk::<Rgb<Linear<S>, T>, T, 3>(b))); diff_loop::<T, 1>(out, "Luma", "wcag21_relative_contrast", true, &|a, b| mk::<Luma<S, T>, T, 1>(a).relative_contrast(mk::<Luma<S, T>, T, 1>(b)));
    cam16_for!(out);
}} }

// ------------------------------------------------------------------------------------------------ CAM16

/// CAM16's own domain (Li et al. 2017): the achromatic response `A = (2 R_a + G_a + 0.05 B_a − 0.305) N_bb` must be positive for
/// `J = 100 (A / A_w)^(c z)` to exist.  A source colour with `A ≤ 0` (saturated blues of very low luminance) is outside it; the
/// implementation returns NaN there.  Decided independently from the published equations (default viewing conditions).
fn cam16_achromatic_positive(xyz: [f64; 3], wp: [f64; 3], la: f64, yb: f64) -> bool {
    const M16: [[f64; 3]; 3] = [[0.401288, 0.650173, -0.051461], [-0.250268, 1.204414, 0.045854], [-0.002079, 0.048952, 0.953127]];
    let m = |v: [f64; 3]| [M16[0][0] * v[0] + M16[0][1] * v[1] + M16[0][2] * v[2], M16[1][0] * v[0] + M16[1][1] * v[1] + M16[1][2] * v[2], M16[2][0] * v[0] + M16[2][1] * v[1] + M16[2][2] * v[2]];
    let (f, _c, _nc) = (1.0, 0.69, 1.0);
    let rgb_w = m([wp[0] * 100.0, wp[1] * 100.0, wp[2] * 100.0]);
    let d = (f * (1.0 - (1.0 / 3.6) * ((-la - 42.0) / 92.0f64).exp())).clamp(0.0, 1.0);
    let k = 1.0 / (5.0 * la + 1.0);
    let fl = k.powi(4) * la + 0.1 * (1.0 - k.powi(4)).powi(2) * (5.0 * la).cbrt();
    let _ = yb;
    let rgb = m([xyz[0] * 100.0, xyz[1] * 100.0, xyz[2] * 100.0]);
    let yw = wp[1] * 100.0;
    let adapt = |c: f64, w: f64| { let dc = d * yw / w + 1.0 - d; let x = (fl * (dc * c).abs() / 100.0).powf(0.42); (dc * c).signum() * 400.0 * x / (x + 27.13) };
    let (ra, ga, ba) = (adapt(rgb[0], rgb_w[0]), adapt(rgb[1], rgb_w[1]), adapt(rgb[2], rgb_w[2]));
    2.0 * ra + ga + 0.05 * ba > 1e-9
}

macro_rules! cam16_for { ($out:expr) => {{
    use palette::cam16::{Cam16, Cam16Jch, Cam16Jmh, Cam16Jsh, Cam16Qch, Cam16Qmh, Cam16Qsh, Cam16UcsJab, Cam16UcsJmh, Parameters};
    let out: &mut Out = $out;
    let baked = Parameters::<palette::cam16::StaticWp<D65>, T>::default_static_wp(40.0 as T).bake();
    let wp = [0.95047, 1.0, 1.08883];
    for a in full_cols::<T, 3>("Xyz") {
        let xyz = Xyz::<D65, T>::new(a[0], a[1], a[2]);
        let in_domain = a.iter().all(|x| *x == 0.0) || cam16_achromatic_positive([a[0] as f64, a[1] as f64, a[2] as f64], wp, 40.0, 20.0);
        let r = guard(|| { let c = Cam16::from_xyz(xyz, baked); vec![c.lightness, c.chroma, c.hue.into_raw_degrees(), c.brightness, c.colorfulness, c.saturation] });
        let kn = |v: &[T]| -> Option<String> { if !in_domain && v.iter().any(|x| x.is_nan()) { Some("cam16-negative-achromatic".to_string()) } else { None } };
        crate::c07::judge_known(out, "cam16:Xyz->Cam16", r.clone(), &|| format!("Xyz{:?}", a), &kn);
        macro_rules! partial { ($P:ident, $name:expr, $l:ident, $c:ident) => {{
            let r = guard(|| { let p = $P::from_xyz(xyz, baked); vec![p.$l, p.$c, p.hue.into_raw_degrees()] });
            crate::c07::judge_known(out, &format!("cam16:Xyz->{}", $name), r, &|| format!("Xyz{:?}", a), &kn);
        }} }
        partial!(Cam16Jch, "Cam16Jch", lightness, chroma); partial!(Cam16Jmh, "Cam16Jmh", lightness, colorfulness); partial!(Cam16Jsh, "Cam16Jsh", lightness, saturation);
        partial!(Cam16Qch, "Cam16Qch", brightness, chroma); partial!(Cam16Qmh, "Cam16Qmh", brightness, colorfulness); partial!(Cam16Qsh, "Cam16Qsh", brightness, saturation);
        // full colour back to Xyz (for colours inside CAM16's domain)
        if let Some(v) = &r { if v.iter().all(|x| x.is_finite()) {
            let full = guard(|| Cam16::from_xyz(xyz, baked));
            if let Some(full) = full { judge(out, "cam16:Cam16->Xyz", guard(|| { let x: Xyz<D65, T> = full.into_xyz(baked); vec![x.x, x.y, x.z] }), &|| format!("Cam16 of Xyz{:?}", a)); }
        } }
    }
    // partial types in their own right: luminance / chromaticity attribute in [0, 100], hue lattice
    for a in full_cols::<T, 3>("Cam16P") {
        macro_rules! inv { ($P:ident, $name:expr) => {{
            judge(out, &format!("cam16:{}->Xyz", $name), guard(|| { let x: Xyz<D65, T> = $P::<T>::new(a[0], a[1], a[2]).into_xyz(baked); vec![x.x, x.y, x.z] }), &|| format!("{}{:?}", $name, a));
            judge(out, &format!("cam16:{}->Cam16", $name), guard(|| { let c = $P::<T>::new(a[0], a[1], a[2]).into_full(baked); vec![c.lightness, c.chroma, c.hue.into_raw_degrees(), c.brightness, c.colorfulness, c.saturation] }), &|| format!("{}{:?}", $name, a));
        }} }
        inv!(Cam16Jch, "Cam16Jch"); inv!(Cam16Jmh, "Cam16Jmh"); inv!(Cam16Jsh, "Cam16Jsh"); inv!(Cam16Qch, "Cam16Qch"); inv!(Cam16Qmh, "Cam16Qmh"); inv!(Cam16Qsh, "Cam16Qsh");
        // UCS
        judge(out, "cam16:Cam16Jmh->Cam16UcsJmh", guard(|| { let u = Cam16UcsJmh::from_color_unclamped(Cam16Jmh::<T>::new(a[0], a[1], a[2])); vec![u.lightness, u.colorfulness, u.hue.into_raw_degrees()] }), &|| format!("Cam16Jmh{:?}", a));
    }
    for a in full_cols::<T, 3>("Cam16UcsJmh") {
        judge(out, "cam16:Cam16UcsJmh->Cam16Jmh", guard(|| { let u = Cam16Jmh::from_color_unclamped(Cam16UcsJmh::<T>::new(a[0], a[1], a[2])); vec![u.lightness, u.colorfulness, u.hue.into_raw_degrees()] }), &|| format!("Cam16UcsJmh{:?}", a));
        judge(out, "cam16:Cam16UcsJmh->Cam16UcsJab", guard(|| { let u = Cam16UcsJab::from_color_unclamped(Cam16UcsJmh::<T>::new(a[0], a[1], a[2])); vec![u.lightness, u.a, u.b] }), &|| format!("Cam16UcsJmh{:?}", a));
    }
    for a in full_cols::<T, 3>("Cam16UcsJab") {
        judge(out, "cam16:Cam16UcsJab->Cam16UcsJmh", guard(|| { let u = Cam16UcsJmh::from_color_unclamped(Cam16UcsJab::<T>::new(a[0], a[1], a[2])); vec![u.lightness, u.colorfulness, u.hue.into_raw_degrees()] }), &|| format!("Cam16UcsJab{:?}", a));
    }
}} }

fn run_f32(out: &mut Out, th: bool) { ops_for!(out, f32, th); }
fn run_f64(out: &mut Out, th: bool) { ops_for!(out, f64, th); }

pub fn run_ops_edge(out: &mut Out, th: bool) {
    EDGE.store(true, std::sync::atomic::Ordering::Relaxed);
    run_f32(out, th);
    run_f64(out, th);
    EDGE.store(false, std::sync::atomic::Ordering::Relaxed);
}

pub fn run_ops(out: &mut Out, th: bool) {
    FULL.store(th, std::sync::atomic::Ordering::Relaxed);
    run_f32(out, th);
    run_f64(out, th);
}
