//! C10, coverage-audit additions (AUDIT_C10.md): forms, types and configurations inside the property's quantifier that the
//! streams of `c10.rs` do not reach.  Everything here is instantiated at CONCRETE palette types (macro_rules, no generic helper
//! restating palette's bounds beyond the trait being exercised).  Every clause is one of the property's own statements:
//!   * "the assigning form, the slice form and the form on a colour wrapped with alpha give exactly the same colour as the by-value
//!     form on the bare colour" (exact bits) for the forms `[Alpha<C, T>]` (slice of wrapped colours), `Alpha<C, A>` with an alpha of
//!     another component type, `with_hue` / `set_hue` given the hue TYPE instead of a number, the full `Cam16<T>` (its own
//!     `impl_clamp!` invocation, no array cast), darken on slices of the HWB family;
//!   * the algebra clauses of `c10.rs` (same predicates, same slack) on configurations it never generates: non-default RGB standard /
//!     white point / Lms matrix (suffix `:<param>` in the clause name), colours that are IN RANGE by the bounds contract but whose
//!     moved component lies ABOVE the operator's nominal maximum (`:above-max`: Lch chroma, Cam16UcsJmh colorfulness, Okhsv
//!     saturation / value, Oklch chroma and unbounded a/b as untouched components), hues written many whole turns away, Alpha mix
//!     with a first alpha different from 1.
use crate::c10::*;
use crate::common::*;
use palette::cast;
use palette::color_theory::{Analogous, Complementary, SplitComplementary, Tetradic, Triadic};
use palette::{Alpha, Clamp, ClampAssign, Darken, DarkenAssign, Desaturate, DesaturateAssign, Lighten, LightenAssign, Mix, MixAssign, Saturate, SaturateAssign, SetHue, ShiftHue, ShiftHueAssign, WithHue};
use std::ops::{Add, AddAssign, Div, DivAssign, Mul, MulAssign, Sub, SubAssign};

fn set_cfg(s: &'static str) { *CFG.lock().unwrap() = s; }
fn quiet(q: bool) { QUIET.store(q, std::sync::atomic::Ordering::Relaxed); }

/// `[Alpha<C, T>]` (and the same slice reached through `Vec` / `Box<[_]>`): every element = by-value form on the bare colour, alpha untouched.
/// `$scal` = the factors / amounts; pairs `by-value method = assigning method`.
macro_rules! alpha_slice { ($out:expr, $rng:expr, $T:ty, $C:ty, $N:expr, $key:expr, $bx:expr, $hue:expr, $scal:expr; $($op:literal : $m:ident = $ma:ident),+) => {{
    let cs = colors::<$T, $N>(&$bx, $hue, $rng, 2);
    let tag = tagof::<$T>($key);
    for &f in $scal.iter() {
        $( {
            let als: Vec<$T> = cs.iter().map(|_| <$T as Fl>::of($rng.unit())).collect();
            let want: Vec<[$T; $N]> = cs.iter().map(|c| arr(&mk::<$C, $T, $N>(*c).$m(f))).collect();
            let wrapped = || -> Vec<Alpha<$C, $T>> { cs.iter().zip(&als).map(|(c, a)| Alpha { color: mk::<$C, $T, $N>(*c), alpha: *a }).collect() };
            let mut sl = wrapped(); sl.as_mut_slice().$ma(f);
            let mut bx_: Box<[Alpha<$C, $T>]> = wrapped().into_boxed_slice(); bx_.$ma(f);
            let mut bare: Vec<$C> = cs.iter().map(|c| mk::<$C, $T, $N>(*c)).collect(); bare.$ma(f); // through Vec's deref
            for k in 0..cs.len() {
                $out.check(bits_eq(&arr(&sl[k].color), &want[k]) && sl[k].alpha.bits64() == als[k].bits64() && bits_eq(&arr(&bx_[k].color), &want[k]) && bx_[k].alpha.bits64() == als[k].bits64(),
                    &format!("{}:alpha-slice=value:{}", $op, tag), || format!("{} x {:?}: bare by-value {} slice-of-Alpha element {} alpha {:?} -> {:?}", dbg(&cs[k]), f, dbg(&want[k]), dbg(&arr(&sl[k].color)), als[k], sl[k].alpha));
                $out.check(bits_eq(&arr(&bare[k]), &want[k]), &format!("{}:vec=value:{}", $op, tag), || format!("{} x {:?}", dbg(&cs[k]), f));
            }
            $out.count("cls:alpha-slice");
        } )+
    }
}} }

/// Clamp on `[Alpha<C, T>]`: colour = by-value clamp of the bare colour (alpha: clamped to [0, 1] as in the sibling clause `clamp:alpha=value`)
macro_rules! alpha_slice_clamp { ($out:expr, $rng:expr, $T:ty, $C:ty, $N:expr, $key:expr, $bx:expr, $hue:expr) => {{
    let mut cs = colors::<$T, $N>(&$bx, $hue, $rng, 2);
    let extra: Vec<[$T; $N]> = cs.iter().take(30).map(|c| { let mut d = *c; for i in 0..$N { let (lo, hi) = $bx[i]; d[i] = <$T as Fl>::of(c[i].to64() + (hi - lo) * $rng.range(-1.5, 1.5)); } d }).collect();
    cs.extend(extra);
    let tag = tagof::<$T>($key);
    let als: Vec<$T> = cs.iter().map(|_| <$T as Fl>::of($rng.range(-0.5, 1.5))).collect();
    let want: Vec<[$T; $N]> = cs.iter().map(|c| arr(&mk::<$C, $T, $N>(*c).clamp())).collect();
    let mut sl: Vec<Alpha<$C, $T>> = cs.iter().zip(&als).map(|(c, a)| Alpha { color: mk::<$C, $T, $N>(*c), alpha: *a }).collect();
    sl.as_mut_slice().clamp_assign();
    for k in 0..cs.len() {
        $out.check(bits_eq(&arr(&sl[k].color), &want[k]) && sl[k].alpha == clamp01(als[k]), &format!("clamp:alpha-slice=value:{}", tag), || format!("{} alpha {:?}: bare by-value {} slice element {} alpha {:?}", dbg(&cs[k]), als[k], dbg(&want[k]), dbg(&arr(&sl[k].color)), sl[k].alpha));
    }
    $out.count("cls:alpha-slice-clamp");
}} }

/// hue operators and colour schemes on `Alpha<C, A>` with an alpha of ANOTHER component type: the colour is the by-value result on the bare colour, alpha untouched
macro_rules! other_alpha_hue { ($out:expr, $rng:expr, $T:ty, $A:ty, $C:ty, $N:expr, $key:expr, $cfg:literal, $bx:expr, $hue:expr, $alphas:expr) => {{
    let cs = colors::<$T, $N>(&$bx, Some($hue), $rng, 2);
    let tag = format!("{}:alpha-{}:{}", $key, $cfg, <$T as Fl>::TAG);
    let amounts: [$T; 6] = [<$T as Fl>::of(-180.0), <$T as Fl>::of(0.0), <$T as Fl>::of(30.0), <$T as Fl>::of(360.0), <$T as Fl>::of($rng.range(-720.0, 720.0)), <$T as Fl>::of($rng.range(-1.0, 2.0))];
    for (k, c) in cs.iter().enumerate() {
        let cc: $C = mk::<$C, $T, $N>(*c);
        let al: $A = $alphas[k % $alphas.len()];
        let w: Alpha<$C, $A> = Alpha { color: cc.clone(), alpha: al };
        for &x in &amounts {
            let v = arr(&cc.clone().shift_hue(x)); let s = arr(&cc.clone().with_hue(x));
            let (r1, r2) = (w.clone().shift_hue(x), w.clone().with_hue(x)); let (mut r3, mut r4) = (w.clone(), w.clone()); r3.shift_hue_assign(x); r4.set_hue(x);
            $out.check(bits_eq(&arr(&r1.color), &v) && bits_eq(&arr(&r2.color), &s) && bits_eq(&arr(&r3.color), &v) && bits_eq(&arr(&r4.color), &s) && r1.alpha == al && r2.alpha == al && r3.alpha == al && r4.alpha == al,
                &format!("hue:alpha=value:{}", tag), || format!("{} x {:?} alpha {:?}", dbg(c), x, al));
            let mut sl = vec![w.clone(), w.clone()]; sl.as_mut_slice().shift_hue_assign(x); let mut sl2 = vec![w.clone(), w.clone()]; sl2.as_mut_slice().set_hue(x);
            $out.check(bits_eq(&arr(&sl[1].color), &v) && bits_eq(&arr(&sl2[1].color), &s) && sl[1].alpha == al && sl2[1].alpha == al, &format!("hue:alpha-slice=value:{}", tag), || format!("{} x {:?} alpha {:?}", dbg(c), x, al));
        }
        let comp = arr(&cc.clone().complementary()); let wc = w.clone().complementary();
        let (s1, s2) = cc.clone().split_complementary(); let (w1, w2) = w.clone().split_complementary();
        let (a1, a2) = cc.clone().analogous(); let (wa1, wa2) = w.clone().analogous();
        let (b1, b2) = cc.clone().analogous_secondary(); let (wb1, wb2) = w.clone().analogous_secondary();
        let (t1, t2) = cc.clone().triadic(); let (wt1, wt2) = w.clone().triadic();
        let (q1, q2, q3) = cc.clone().tetradic(); let (wq1, wq2, wq3) = w.clone().tetradic();
        let pairs = [(arr(&wc.color), comp, wc.alpha), (arr(&w1.color), arr(&s1), w1.alpha), (arr(&w2.color), arr(&s2), w2.alpha), (arr(&wa1.color), arr(&a1), wa1.alpha), (arr(&wa2.color), arr(&a2), wa2.alpha),
            (arr(&wb1.color), arr(&b1), wb1.alpha), (arr(&wb2.color), arr(&b2), wb2.alpha), (arr(&wt1.color), arr(&t1), wt1.alpha), (arr(&wt2.color), arr(&t2), wt2.alpha),
            (arr(&wq1.color), arr(&q1), wq1.alpha), (arr(&wq2.color), arr(&q2), wq2.alpha), (arr(&wq3.color), arr(&q3), wq3.alpha)];
        for (j, (got, want, a)) in pairs.iter().enumerate() {
            $out.check(bits_eq(got, want) && *a == al, &format!("scheme:alpha=value:{}", tag), || format!("{} alpha {:?}: scheme colour #{} (complementary, split 1 2, analogous 1 2, secondary 1 2, triadic 1 2, tetradic 1 2 3): bare {} wrapped {} alpha {:?}", dbg(c), al, j, dbg(want), dbg(got), a));
        }
        $out.count("cls:other-alpha-hue");
    }
}} }

/// Lab-like schemes (the `Alpha<_, A>` arms of `impl_lab_color_schemes!`) with an alpha of another type
macro_rules! other_alpha_lab { ($out:expr, $rng:expr, $T:ty, $A:ty, $C:ty, $key:expr, $cfg:literal, $bx:expr, $alphas:expr) => {{
    let cs = colors::<$T, 3>(&$bx, None, $rng, 2);
    let tag = format!("{}:alpha-{}:{}", $key, $cfg, <$T as Fl>::TAG);
    for (k, c) in cs.iter().enumerate() {
        let cc: $C = mk::<$C, $T, 3>(*c);
        let al: $A = $alphas[k % $alphas.len()];
        let w: Alpha<$C, $A> = Alpha { color: cc.clone(), alpha: al };
        let comp = arr(&cc.clone().complementary()); let (t1, t2, t3) = cc.clone().tetradic();
        let wc = w.clone().complementary(); let (w1, w2, w3) = w.clone().tetradic();
        $out.check(bits_eq(&arr(&wc.color), &comp) && bits_eq(&arr(&w1.color), &arr(&t1)) && bits_eq(&arr(&w2.color), &arr(&t2)) && bits_eq(&arr(&w3.color), &arr(&t3)) && wc.alpha == al && w1.alpha == al && w2.alpha == al && w3.alpha == al,
            &format!("scheme:lab-alpha=value:{}", tag), || format!("{} alpha {:?}: bare tetradic {} {} {} wrapped {} {} {} alphas {:?} {:?} {:?} {:?}", dbg(c), al, dbg(&arr(&t1)), dbg(&arr(&t2)), dbg(&arr(&t3)), dbg(&arr(&w1.color)), dbg(&arr(&w2.color)), dbg(&arr(&w3.color)), wc.alpha, w1.alpha, w2.alpha, w3.alpha));
        $out.count("cls:other-alpha-lab");
    }
}} }

/// Clamp on `Alpha<C, A>`, alpha of another type: colour = by-value clamp of the bare colour; alpha (documented: clamped to [0, max_intensity]) given as (alpha, expected) pairs
macro_rules! other_alpha_clamp { ($out:expr, $rng:expr, $T:ty, $A:ty, $C:ty, $N:expr, $key:expr, $cfg:literal, $bx:expr, $hue:expr, $alphas:expr) => {{
    let mut cs = colors::<$T, $N>(&$bx, $hue, $rng, 2);
    let extra: Vec<[$T; $N]> = cs.iter().take(30).map(|c| { let mut d = *c; for i in 0..$N { let (lo, hi) = $bx[i]; d[i] = <$T as Fl>::of(c[i].to64() + (hi - lo) * $rng.range(-1.5, 1.5)); } d }).collect();
    cs.extend(extra);
    let tag = format!("{}:alpha-{}:{}", $key, $cfg, <$T as Fl>::TAG);
    for (k, c) in cs.iter().enumerate() {
        let cc: $C = mk::<$C, $T, $N>(*c);
        let (al, al_doc): ($A, $A) = $alphas[k % $alphas.len()];
        let w: Alpha<$C, $A> = Alpha { color: cc.clone(), alpha: al };
        let v = arr(&cc.clone().clamp());
        let r = w.clone().clamp(); let mut r2 = w.clone(); r2.clamp_assign(); let mut sl = vec![w.clone(), w.clone()]; sl.as_mut_slice().clamp_assign();
        $out.check(bits_eq(&arr(&r.color), &v) && bits_eq(&arr(&r2.color), &v) && bits_eq(&arr(&sl[1].color), &v) && r.alpha == al_doc && r2.alpha == al_doc && sl[1].alpha == al_doc,
            &format!("clamp:alpha=value:{}", tag), || format!("{} alpha {:?}: bare {} wrapped {} assign {} slice {} alphas {:?} {:?} {:?}", dbg(c), al, dbg(&v), dbg(&arr(&r.color)), dbg(&arr(&r2.color)), dbg(&arr(&sl[1].color)), r.alpha, r2.alpha, sl[1].alpha));
        $out.count("cls:other-alpha-clamp");
    }
}} }

/// component arithmetic on `Alpha<C, A>` with a float alpha of the other width (colour operand; the scalar operand exists only for A = T)
macro_rules! other_alpha_arith { ($out:expr, $rng:expr, $T:ty, $A:ty, $C:ty, $N:expr, $key:expr, $cfg:literal, $bx:expr, $hue:expr; $($Op:ident $OpA:ident $m:ident $ma:ident $line:literal),+) => {{
    let cs = colors::<$T, $N>(&$bx, $hue, $rng, 2);
    let tag = format!("{}:alpha-{}:{}", $key, $cfg, <$T as Fl>::TAG);
    for _ in 0..40 {
        let (a, b) = (*$rng.pick(&cs), *$rng.pick(&cs));
        let (ca, cb): ($C, $C) = (mk::<$C, $T, $N>(a), mk::<$C, $T, $N>(b));
        let (al1, al2): ($A, $A) = ($rng.unit() as $A, $rng.edgy(0.0, 1.0) as $A);
        let (wa, wb): (Alpha<$C, $A>, Alpha<$C, $A>) = (Alpha { color: ca.clone(), alpha: al1 }, Alpha { color: cb.clone(), alpha: al2 });
        $( {
            let r = arr(&$Op::$m(ca.clone(), cb.clone()));
            let w = $Op::$m(wa.clone(), wb.clone()); let mut wx = wa.clone(); $OpA::$ma(&mut wx, wb.clone());
            let ad: $A = $Op::$m(al1, al2);
            $out.check(bits_eq(&arr(&w.color), &r) && bits_eq(&arr(&wx.color), &r) && (w.alpha.to_bits() == ad.to_bits() || (w.alpha.is_nan() && ad.is_nan())) && (wx.alpha.to_bits() == ad.to_bits() || (wx.alpha.is_nan() && ad.is_nan())),
                &format!("arith:{}:alpha=value:{}", $line, tag), || format!("{} {} alphas {:?} {:?}: bare {} wrapped {} assign {} alpha {:?} {:?} want {:?}", dbg(&a), dbg(&b), al1, al2, dbg(&r), dbg(&arr(&w.color)), dbg(&arr(&wx.color)), w.alpha, wx.alpha, ad));
            $out.count("cls:other-alpha-arith");
        } )+
    }
}} }

/// `with_hue` / `set_hue` given the hue TYPE (`H = RgbHue<T>` ..., the identity `Into`) instead of a number: sets the hue, others untouched,
/// assign / slice / Alpha forms = by-value form
macro_rules! hue_typed { ($out:expr, $rng:expr, $T:ty, $C:ty, $H:ty, $N:expr, $key:expr, $bx:expr, $hue:expr) => {{
    let cs = colors::<$T, $N>(&$bx, Some($hue), $rng, 2);
    let tag = tagof::<$T>($key);
    let amounts: [$T; 5] = [<$T as Fl>::of(-270.25), <$T as Fl>::of(-0.0), <$T as Fl>::of(30.0), <$T as Fl>::of(540.5), <$T as Fl>::of($rng.range(-720.0, 720.0))];
    for c in cs.iter().take(40) {
        let cc: $C = mk::<$C, $T, $N>(*c);
        for &x in &amounts {
            let s = arr(&cc.clone().with_hue(<$H>::from_degrees(x)));
            let mut ok_set = s[$hue].bits64() == x.bits64(); for i in 0..$N { if i != $hue { ok_set = ok_set && s[i].bits64() == c[i].bits64(); } }
            $out.check(ok_set, &format!("hue:set-typed:{}", tag), || format!("{} with_hue({}({:?})) = {}", dbg(c), stringify!($H), x, dbg(&s)));
            let mut b = cc.clone(); b.set_hue(<$H>::from_degrees(x));
            let al = <$T as Fl>::of($rng.unit()); let w: Alpha<$C, $T> = Alpha { color: cc.clone(), alpha: al };
            let r2 = w.clone().with_hue(<$H>::from_degrees(x)); let mut r4 = w.clone(); r4.set_hue(<$H>::from_degrees(x));
            let mut sl = vec![cc.clone(), cc.clone()]; sl.as_mut_slice().set_hue(<$H>::from_degrees(x));
            $out.check(bits_eq(&arr(&b), &s) && bits_eq(&arr(&r2.color), &s) && bits_eq(&arr(&r4.color), &s) && bits_eq(&arr(&sl[1]), &s) && r2.alpha.bits64() == al.bits64() && r4.alpha.bits64() == al.bits64(),
                &format!("hue:typed-forms=value:{}", tag), || format!("{} x {:?}: by-value {} set_hue {} Alpha {} Alpha-set {} slice {}", dbg(c), x, dbg(&s), dbg(&arr(&b)), dbg(&arr(&r2.color)), dbg(&arr(&r4.color)), dbg(&arr(&sl[1]))));
        }
        $out.count("cls:hue-typed");
    }
}} }

/// Mix, additional inputs: Alpha-wrapped mix with BOTH alphas arbitrary (c10.rs: first alpha always 1), and - hue types - hues written
/// up to 100 whole turns away from each other (the shorter way is taken between the ANGLES; same predicates and slack as `run_mix`)
macro_rules! mix_more { ($out:expr, $rng:expr, $T:ty, $C:ty, $N:expr, $key:expr, $bx:expr, $hue:expr) => {{
    let cs = colors::<$T, $N>(&$bx, $hue, $rng, 2);
    let fs = factors::<$T>($rng, 2);
    let tag = tagof::<$T>($key);
    let hue: Option<usize> = $hue;
    for p in 0..24 {
        let (mut a, mut b) = (*$rng.pick(&cs), *$rng.pick(&cs));
        if let Some(h) = hue { if p % 2 == 0 {
            let (ka, kb) = ($rng.below(201) as f64 - 100.0, $rng.below(201) as f64 - 100.0);
            a[h] = <$T as Fl>::of(a[h].to64() + 360.0 * ka); b[h] = <$T as Fl>::of(b[h].to64() + 360.0 * kb);
        } }
        let (ca, cb): ($C, $C) = (mk::<$C, $T, $N>(a), mk::<$C, $T, $N>(b));
        let (al1, al2) = (<$T as Fl>::of($rng.edgy(0.0, 1.0)), <$T as Fl>::of($rng.edgy(0.0, 1.0)));
        for &f in &fs {
            let r = arr(&ca.clone().mix(cb.clone(), f));
            let mut m = ca.clone(); m.mix_assign(cb.clone(), f);
            $out.check(bits_eq(&arr(&m), &r), &format!("mix:assign=value:{}", tag), || format!("a {} b {} f {:?}: value {} assign {}", dbg(&a), dbg(&b), f, dbg(&r), dbg(&arr(&m))));
            let fc = clamp01(f);
            let al_doc = al1 + fc * (al2 - al1);
            let (wa, wb): (Alpha<$C, $T>, Alpha<$C, $T>) = (Alpha { color: ca.clone(), alpha: al1 }, Alpha { color: cb.clone(), alpha: al2 });
            let w = wa.clone().mix(wb.clone(), f); let mut w2 = wa.clone(); w2.mix_assign(wb.clone(), f);
            $out.check(bits_eq(&arr(&w.color), &r) && bits_eq(&[w.alpha], &[al_doc]) && bits_eq(&arr(&w2.color), &r) && bits_eq(&[w2.alpha], &[al_doc]), &format!("mix:alpha=value:{}", tag),
                || format!("a {} b {} alphas {:?} {:?} f {:?}: bare {} wrapped {} assign {} alpha {:?} {:?} want {:?}", dbg(&a), dbg(&b), al1, al2, f, dbg(&r), dbg(&arr(&w.color)), dbg(&arr(&w2.color)), w.alpha, w2.alpha, al_doc));
            let rc = arr(&ca.clone().mix(cb.clone(), fc));
            $out.check(bits_eq(&rc, &r), &format!("mix:factor-clamped:{}", tag), || format!("a {} b {} f {:?}: {} vs clamped {}", dbg(&a), dbg(&b), f, dbg(&r), dbg(&rc)));
            for i in 0..$N {
                let (x, y, z) = (a[i].to64(), b[i].to64(), r[i].to64());
                if Some(i) == hue {
                    let tol = <$T as F>::slack() * (360.0 + x.abs() + y.abs());
                    $out.check((z - x).abs() <= 180.0 * fc.to64() + tol, &format!("mix:hue-shorter-way:{}", tag), || format!("hue {} -> {} at f {:?} gives {}", x, y, f, z));
                    if fc == <$T as Fl>::of(0.0) { $out.check((z - x).abs() <= tol, &format!("mix:at-0-is-first:{}", tag), || format!("hue {} -> {}: {}", x, y, z)); }
                    if fc == <$T as Fl>::of(1.0) { let d = (z - y) / 360.0; $out.check((d - d.round()).abs() * 360.0 <= tol, &format!("mix:at-1-is-second:{}", tag), || format!("hue {} -> {}: {} (not the same angle)", x, y, z)); }
                } else {
                    let tol = <$T as F>::slack() * scale_of(&$bx[i]);
                    $out.check(x.min(y) - tol <= z && z <= x.max(y) + tol, &format!("mix:between:{}", tag), || format!("component {}: {} .. {} at f {:?} gives {}", i, x, y, f, z));
                }
            }
            $out.count("cls:mix-more");
        }
    }
}} }

/// the full `Cam16<T>`: its own `impl_clamp!` invocation (six fields, no array cast): assign / slice / Alpha forms = by-value form
macro_rules! cam16_full_clamp { ($out:expr, $rng:expr, $T:ty) => {{
    use palette::cam16::Cam16; use palette::hues::Cam16Hue;
    let tag = format!("Cam16:{}", <$T as Fl>::TAG);
    let flat = |c: &Cam16<$T>| -> [$T; 6] { [c.lightness, c.chroma, c.hue.into_raw_degrees(), c.brightness, c.colorfulness, c.saturation] };
    let mut items: Vec<[$T; 6]> = vec![];
    for k in 0..160u32 {
        let mut a = [<$T as Fl>::of(0.0); 6];
        for i in 0..6 { a[i] = <$T as Fl>::of(if i == 2 { $rng.range(-360.0, 720.0) } else if k < 64 { if (k >> (if i > 2 { i - 1 } else { i })) & 1 == 1 { -$rng.range(0.0, 50.0) } else { $rng.edgy(0.0, 100.0) } } else { $rng.range(-150.0, 250.0) }); }
        if k % 16 == 3 { a[(k as usize / 16) % 6] = <$T as Fl>::of(-0.0); }
        items.push(a);
    }
    let build = |a: &[$T; 6]| Cam16::<$T> { lightness: a[0], chroma: a[1], hue: Cam16Hue::from_degrees(a[2]), brightness: a[3], colorfulness: a[4], saturation: a[5] };
    let want: Vec<[$T; 6]> = items.iter().map(|a| flat(&build(a).clamp())).collect();
    let mut sl: Vec<Cam16<$T>> = items.iter().map(|a| build(a)).collect(); sl.as_mut_slice().clamp_assign();
    let als: Vec<$T> = items.iter().map(|_| <$T as Fl>::of($rng.range(-0.5, 1.5))).collect();
    let mut wsl: Vec<Alpha<Cam16<$T>, $T>> = items.iter().zip(&als).map(|(a, al)| Alpha { color: build(a), alpha: *al }).collect(); wsl.as_mut_slice().clamp_assign();
    for (k, a) in items.iter().enumerate() {
        let mut x = build(a); x.clamp_assign();
        $out.check(bits_eq(&flat(&x), &want[k]), &format!("clamp:assign=value:{}", tag), || format!("{}: value {} assign {}", dbg(a), dbg(&want[k]), dbg(&flat(&x))));
        $out.check(bits_eq(&flat(&sl[k]), &want[k]), &format!("clamp:slice=map:{}", tag), || format!("{}: value {} slice {}", dbg(a), dbg(&want[k]), dbg(&flat(&sl[k]))));
        let w = Alpha { color: build(a), alpha: als[k] };
        let r = w.clone().clamp(); let mut r2 = w.clone(); r2.clamp_assign();
        $out.check(bits_eq(&flat(&r.color), &want[k]) && bits_eq(&flat(&r2.color), &want[k]) && bits_eq(&flat(&wsl[k].color), &want[k]) && r.alpha == clamp01(als[k]) && r2.alpha == clamp01(als[k]) && wsl[k].alpha == clamp01(als[k]),
            &format!("clamp:alpha=value:{}", tag), || format!("{} alpha {:?}: bare {} wrapped {} assign {} slice {}", dbg(a), als[k], dbg(&want[k]), dbg(&flat(&r.color)), dbg(&flat(&r2.color)), dbg(&flat(&wsl[k].color))));
        $out.count("cls:cam16-full-clamp");
    }
}} }

/// darken / darken_fixed on slices of the HWB family (`run_lighten_hwb` drives only the lighten slice forms): the blanket `DarkenAssign for [T]`
macro_rules! hwb_darken_slice { ($out:expr, $rng:expr, $T:ty, $C:ty, $key:expr) => {{
    let tag = tagof::<$T>($key);
    let mut cs: Vec<[$T; 3]> = vec![];
    for _ in 0..40 { let w = $rng.edgy(0.0, 1.0); let b = $rng.edgy(0.0, 1.0 - w); cs.push([<$T as Fl>::of($rng.range(-360.0, 720.0)), <$T as Fl>::of(w), <$T as Fl>::of(b)]); }
    cs.retain(|c| c[1] + c[2] <= <$T as Fl>::of(1.0));
    for &f in factors::<$T>($rng, 1).iter() {
        let want: Vec<[$T; 3]> = cs.iter().map(|c| arr(&mk::<$C, $T, 3>(*c).darken(f))).collect();
        let wantf: Vec<[$T; 3]> = cs.iter().map(|c| arr(&mk::<$C, $T, 3>(*c).darken_fixed(f))).collect();
        let mut sl: Vec<$C> = cs.iter().map(|c| mk::<$C, $T, 3>(*c)).collect(); sl.as_mut_slice().darken_assign(f);
        let mut slf: Vec<$C> = cs.iter().map(|c| mk::<$C, $T, 3>(*c)).collect(); slf.as_mut_slice().darken_fixed_assign(f);
        for k in 0..cs.len() { $out.check(bits_eq(&arr(&sl[k]), &want[k]) && bits_eq(&arr(&slf[k]), &wantf[k]), &format!("darken:slice=map:{}", tag), || format!("{} f {:?}: by-value {} / {} slice {} / {}", dbg(&cs[k]), f, dbg(&want[k]), dbg(&wantf[k]), dbg(&arr(&sl[k])), dbg(&arr(&slf[k])))); }
        $out.count("cls:hwb-darken-slice");
    }
}} }

macro_rules! more_floats { ($out:expr, $rng:expr, $n:expr, $t:ty, $o:ty) => {{
    use palette::encoding::{Linear, Srgb as S, Rec2020}; use palette::white_point::{A as WpA, D50, D65}; use palette::lms::matrix::{Bradford as Br, VonKries};
    use palette::{Hsl, Hsv, Hwb, Lab, Lch, Luv, Lchuv, Hsluv, Xyz, Yxy, Oklab, Oklch, Okhsl, Okhsv, Okhwb, RgbHue, LabHue, LuvHue, OklabHue};
    use palette::rgb::Rgb; use palette::luma::Luma; use palette::lms::Lms; use palette::hues::Cam16Hue;
    use palette::cam16::{Cam16UcsJab, Cam16UcsJmh, Cam16Jch, Cam16Jmh, Cam16Jsh, Cam16Qch, Cam16Qmh, Cam16Qsh};
    type T = $t; type O = $o;
    let (out, rng, n): (&mut Out, &mut Rng, usize) = ($out, $rng, $n);
    let unit3 = [(0.0, 1.0); 3];
    let hsx = [(0.0, 360.0), (0.0, 1.0), (0.0, 1.0)];
    let hwbx = [(0.0, 360.0), (0.0, 0.5), (0.0, 0.5)];
    let labx = [(0.0, 100.0), (-128.0, 127.0), (-128.0, 127.0)];
    let lchx = [(0.0, 100.0), (0.0, 128.0), (0.0, 360.0)];
    let luvx = [(0.0, 100.0), (-84.0, 176.0), (-135.0, 108.0)];
    let lchuvx = [(0.0, 100.0), (0.0, 180.0), (0.0, 360.0)];
    let hsluvx = [(0.0, 360.0), (0.0, 100.0), (0.0, 100.0)];
    let oklabx = [(0.0, 1.0), (-0.5, 0.5), (-0.5, 0.5)];
    let oklchx = [(0.0, 1.0), (0.0, 0.5), (0.0, 360.0)];
    let jabx = [(0.0, 100.0), (-50.0, 50.0), (-50.0, 50.0)];
    let jmhx = [(0.0, 100.0), (0.0, 50.0), (0.0, 360.0)];
    let px = [(0.0, 100.0), (0.0, 100.0), (0.0, 360.0)];

    // ---------------------------------------------------------------- (1) colours in range by the bounds contract, moved component ABOVE the operator's nominal maximum
    // (IsWithinBounds / Clamp have no upper bound for Lch chroma, Cam16UcsJmh colorfulness, Oklch chroma; Okhsv allows 1 + 1e-6). With protocol lines.
    set_cfg(":above-max");
    {
        let bx = [(0.0, 100.0), (128.0, 384.0), (0.0, 360.0)];
        run_saturate::<Lch<D65, T>, T, 3>(out, rng, "Lch", &bx, Some(2), &[(1, Lch::<D65, T>::min_chroma(), Lch::<D65, T>::max_chroma())], n);
        run_lighten::<Lch<D65, T>, T, 3>(out, rng, "Lch", &bx, Some(2), &[(0, Lch::<D65, T>::min_l(), Lch::<D65, T>::max_l())], n);
        run_mix::<Lch<D65, T>, T, 3>(out, rng, "Lch", &bx, Some(2), n);
        let bx = [(0.0, 100.0), (50.0, 150.0), (0.0, 360.0)];
        run_saturate::<Cam16UcsJmh<T>, T, 3>(out, rng, "Cam16UcsJmh", &bx, Some(2), &[(1, Cam16UcsJmh::<T>::min_colorfulness(), Cam16UcsJmh::<T>::max_srgb_colorfulness())], n);
        run_lighten::<Cam16UcsJmh<T>, T, 3>(out, rng, "Cam16UcsJmh", &bx, Some(2), &[(0, Cam16UcsJmh::<T>::min_lightness(), Cam16UcsJmh::<T>::max_lightness())], n);
        run_mix::<Cam16UcsJmh<T>, T, 3>(out, rng, "Cam16UcsJmh", &bx, Some(2), n);
        // Okhsv: the bounds contract allows saturation and value up to 1 + 1e-6 (MAX_SRGB_SATURATION_INACCURACY)
        let bx = [(0.0, 360.0), (1.0, 1.000001), (1.0, 1.000001)];
        run_saturate::<Okhsv<T>, T, 3>(out, rng, "Okhsv", &bx, Some(0), &[(1, Okhsv::<T>::min_saturation(), Okhsv::<T>::max_saturation())], n);
        run_lighten::<Okhsv<T>, T, 3>(out, rng, "Okhsv", &bx, Some(0), &[(2, Okhsv::<T>::min_value(), Okhsv::<T>::max_value())], n);
        // components the operator leaves untouched, unbounded above: Oklch chroma, Oklab / Cam16UcsJab a, b
        run_lighten::<Oklch<T>, T, 3>(out, rng, "Oklch", &[(0.0, 1.0), (0.5, 1.5), (0.0, 360.0)], Some(2), &[(0, Oklch::<T>::min_l(), Oklch::<T>::max_l())], n);
        run_lighten::<Oklab<T>, T, 3>(out, rng, "Oklab", &[(0.0, 1.0), (0.5, 1.5), (-1.5, -0.5)], None, &[(0, Oklab::<T>::min_l(), Oklab::<T>::max_l())], n);
        run_lighten::<Cam16UcsJab<T>, T, 3>(out, rng, "Cam16UcsJab", &[(0.0, 100.0), (50.0, 150.0), (-150.0, -50.0)], None, &[(0, Cam16UcsJab::<T>::min_lightness(), Cam16UcsJab::<T>::max_lightness())], n);
    }

    // ---------------------------------------------------------------- (2) non-default type parameters (phantom for every operator except the Xyz limits, which come from the white point)
    set_cfg(":D50");
    {
        let hi = (Xyz::<D50, T>::max_x() as f64, Xyz::<D50, T>::max_y() as f64, Xyz::<D50, T>::max_z() as f64);
        let bx = [(0.0, hi.0), (0.0, hi.1), (0.0, hi.2)];
        run_lighten::<Xyz<D50, T>, T, 3>(out, rng, "Xyz", &bx, None, &[(0, Xyz::<D50, T>::min_x(), Xyz::<D50, T>::max_x()), (1, Xyz::<D50, T>::min_y(), Xyz::<D50, T>::max_y()), (2, Xyz::<D50, T>::min_z(), Xyz::<D50, T>::max_z())], n);
        run_clamp::<Xyz<D50, T>, T, 3>(out, rng, "Xyz", &bx, None, n);
        quiet(true);
        run_mix::<Xyz<D50, T>, T, 3>(out, rng, "Xyz", &bx, None, n); run_mix_pre::<Xyz<D50, T>, T, 3>(out, rng, "Xyz", &bx, n);
        run_addsub::<Xyz<D50, T>, T, 3>(out, rng, "Xyz", &bx, None, n); run_muldiv::<Xyz<D50, T>, T, 3>(out, rng, "Xyz", &bx, None, n); run_arith_pre::<Xyz<D50, T>, T, 3>(out, rng, "Xyz", &bx, n);
        run_mix::<Lab<D50, T>, T, 3>(out, rng, "Lab", &labx, None, n); run_mix_pre::<Lab<D50, T>, T, 3>(out, rng, "Lab", &labx, n);
        run_lighten::<Lab<D50, T>, T, 3>(out, rng, "Lab", &labx, None, &[(0, Lab::<D50, T>::min_l(), Lab::<D50, T>::max_l())], n);
        run_lab::<Lab<D50, T>, T, 3>(out, rng, "Lab", &labx, 1, 2, n); run_clamp::<Lab<D50, T>, T, 3>(out, rng, "Lab", &labx, None, n);
        run_mix::<Lch<D50, T>, T, 3>(out, rng, "Lch", &lchx, Some(2), n); run_hue::<Lch<D50, T>, T, 3>(out, rng, "Lch", &lchx, 2, n);
        run_lighten::<Lch<D50, T>, T, 3>(out, rng, "Lch", &lchx, Some(2), &[(0, Lch::<D50, T>::min_l(), Lch::<D50, T>::max_l())], n);
        run_saturate::<Lch<D50, T>, T, 3>(out, rng, "Lch", &lchx, Some(2), &[(1, Lch::<D50, T>::min_chroma(), Lch::<D50, T>::max_chroma())], n);
        run_mix::<Luv<D50, T>, T, 3>(out, rng, "Luv", &luvx, None, n); run_lab::<Luv<D50, T>, T, 3>(out, rng, "Luv", &luvx, 1, 2, n);
        run_lighten::<Luv<D50, T>, T, 3>(out, rng, "Luv", &luvx, None, &[(0, Luv::<D50, T>::min_l(), Luv::<D50, T>::max_l())], n);
        run_mix::<Lchuv<D50, T>, T, 3>(out, rng, "Lchuv", &lchuvx, Some(2), n);
        run_saturate::<Lchuv<D50, T>, T, 3>(out, rng, "Lchuv", &lchuvx, Some(2), &[(1, Lchuv::<D50, T>::min_chroma(), Lchuv::<D50, T>::max_chroma())], n);
        run_mix::<Hsluv<D50, T>, T, 3>(out, rng, "Hsluv", &hsluvx, Some(0), n);
        run_lighten::<Hsluv<D50, T>, T, 3>(out, rng, "Hsluv", &hsluvx, Some(0), &[(2, Hsluv::<D50, T>::min_l(), Hsluv::<D50, T>::max_l())], n);
        run_saturate::<Hsluv<D50, T>, T, 3>(out, rng, "Hsluv", &hsluvx, Some(0), &[(1, Hsluv::<D50, T>::min_saturation(), Hsluv::<D50, T>::max_saturation())], n);
        run_mix::<Yxy<D50, T>, T, 3>(out, rng, "Yxy", &unit3, None, n);
        run_lighten::<Yxy<D50, T>, T, 3>(out, rng, "Yxy", &unit3, None, &[(2, Yxy::<D50, T>::min_luma(), Yxy::<D50, T>::max_luma())], n);
        quiet(false);
    }
    set_cfg(":A");
    {
        let hi = (Xyz::<WpA, T>::max_x() as f64, Xyz::<WpA, T>::max_y() as f64, Xyz::<WpA, T>::max_z() as f64);
        let bx = [(0.0, hi.0), (0.0, hi.1), (0.0, hi.2)];
        run_lighten::<Xyz<WpA, T>, T, 3>(out, rng, "Xyz", &bx, None, &[(0, Xyz::<WpA, T>::min_x(), Xyz::<WpA, T>::max_x()), (1, Xyz::<WpA, T>::min_y(), Xyz::<WpA, T>::max_y()), (2, Xyz::<WpA, T>::min_z(), Xyz::<WpA, T>::max_z())], n);
        run_clamp::<Xyz<WpA, T>, T, 3>(out, rng, "Xyz", &bx, None, n);
    }
    quiet(true);
    set_cfg(":linear");
    {
        run_mix::<Rgb<Linear<S>, T>, T, 3>(out, rng, "Rgb", &unit3, None, n); run_mix_pre::<Rgb<Linear<S>, T>, T, 3>(out, rng, "Rgb", &unit3, n);
        run_addsub::<Rgb<Linear<S>, T>, T, 3>(out, rng, "Rgb", &unit3, None, n); run_muldiv::<Rgb<Linear<S>, T>, T, 3>(out, rng, "Rgb", &unit3, None, n);
        run_arith_pre::<Rgb<Linear<S>, T>, T, 3>(out, rng, "Rgb", &unit3, n); run_clamp::<Rgb<Linear<S>, T>, T, 3>(out, rng, "Rgb", &unit3, None, n);
        run_lighten::<Rgb<Linear<S>, T>, T, 3>(out, rng, "Rgb", &unit3, None, &[(0, Rgb::<Linear<S>, T>::min_red(), Rgb::<Linear<S>, T>::max_red()), (1, Rgb::<Linear<S>, T>::min_green(), Rgb::<Linear<S>, T>::max_green()), (2, Rgb::<Linear<S>, T>::min_blue(), Rgb::<Linear<S>, T>::max_blue())], n);
        let bx1 = [(0.0, 1.0)];
        run_mix::<Luma<Linear<D65>, T>, T, 1>(out, rng, "Luma", &bx1, None, n); run_mix_pre::<Luma<Linear<D65>, T>, T, 1>(out, rng, "Luma", &bx1, n);
        run_addsub::<Luma<Linear<D65>, T>, T, 1>(out, rng, "Luma", &bx1, None, n); run_muldiv::<Luma<Linear<D65>, T>, T, 1>(out, rng, "Luma", &bx1, None, n);
        run_lighten::<Luma<Linear<D65>, T>, T, 1>(out, rng, "Luma", &bx1, None, &[(0, Luma::<Linear<D65>, T>::min_luma(), Luma::<Linear<D65>, T>::max_luma())], n);
        run_clamp::<Luma<Linear<D65>, T>, T, 1>(out, rng, "Luma", &bx1, None, n);
        run_mix::<Hsl<Linear<S>, T>, T, 3>(out, rng, "Hsl", &hsx, Some(0), n); run_hue::<Hsl<Linear<S>, T>, T, 3>(out, rng, "Hsl", &hsx, 0, n);
        run_lighten::<Hsl<Linear<S>, T>, T, 3>(out, rng, "Hsl", &hsx, Some(0), &[(2, Hsl::<Linear<S>, T>::min_lightness(), Hsl::<Linear<S>, T>::max_lightness())], n);
        run_saturate::<Hsl<Linear<S>, T>, T, 3>(out, rng, "Hsl", &hsx, Some(0), &[(1, Hsl::<Linear<S>, T>::min_saturation(), Hsl::<Linear<S>, T>::max_saturation())], n);
        run_mix::<Hsv<Linear<S>, T>, T, 3>(out, rng, "Hsv", &hsx, Some(0), n);
        run_lighten::<Hsv<Linear<S>, T>, T, 3>(out, rng, "Hsv", &hsx, Some(0), &[(2, Hsv::<Linear<S>, T>::min_value(), Hsv::<Linear<S>, T>::max_value())], n);
        run_saturate::<Hsv<Linear<S>, T>, T, 3>(out, rng, "Hsv", &hsx, Some(0), &[(1, Hsv::<Linear<S>, T>::min_saturation(), Hsv::<Linear<S>, T>::max_saturation())], n);
        run_mix::<Hwb<Linear<S>, T>, T, 3>(out, rng, "Hwb", &hwbx, Some(0), n); run_clamp::<Hwb<Linear<S>, T>, T, 3>(out, rng, "Hwb", &hwbx, Some(0), n);
        run_lighten_hwb::<Hwb<Linear<S>, T>, T>(out, rng, "Hwb", [Hwb::<Linear<S>, T>::min_whiteness(), Hwb::<Linear<S>, T>::max_whiteness(), Hwb::<Linear<S>, T>::min_blackness(), Hwb::<Linear<S>, T>::max_blackness()], n);
    }
    set_cfg(":Rec2020");
    {
        run_mix::<Rgb<Rec2020, T>, T, 3>(out, rng, "Rgb", &unit3, None, n); run_clamp::<Rgb<Rec2020, T>, T, 3>(out, rng, "Rgb", &unit3, None, n);
        run_lighten::<Rgb<Rec2020, T>, T, 3>(out, rng, "Rgb", &unit3, None, &[(0, Rgb::<Rec2020, T>::min_red(), Rgb::<Rec2020, T>::max_red()), (1, Rgb::<Rec2020, T>::min_green(), Rgb::<Rec2020, T>::max_green()), (2, Rgb::<Rec2020, T>::min_blue(), Rgb::<Rec2020, T>::max_blue())], n);
        run_mix::<Hsv<Rec2020, T>, T, 3>(out, rng, "Hsv", &hsx, Some(0), n);
    }
    set_cfg(":VonKries");
    {
        run_mix::<Lms<VonKries, T>, T, 3>(out, rng, "Lms", &unit3, None, n); run_mix_pre::<Lms<VonKries, T>, T, 3>(out, rng, "Lms", &unit3, n);
        run_addsub::<Lms<VonKries, T>, T, 3>(out, rng, "Lms", &unit3, None, n); run_muldiv::<Lms<VonKries, T>, T, 3>(out, rng, "Lms", &unit3, None, n);
        run_clamp::<Lms<VonKries, T>, T, 3>(out, rng, "Lms", &unit3, None, n);
    }
    quiet(false);
    set_cfg("");

    // ---------------------------------------------------------------- (3) forms: slices of Alpha-wrapped colours (and Vec / Box<[_]>), every implementing type
    let fs = factors::<T>(rng, 1);
    let amounts: Vec<T> = [-360.0, -90.0, -0.0, 0.0, 30.0, 540.5, rng.range(-720.0, 720.0)].iter().map(|&x| T::of(x)).collect();
    macro_rules! sl_light { ($ty:ty, $N:expr, $key:expr, $bx:expr, $h:expr) => { alpha_slice!(out, rng, T, $ty, $N, $key, $bx, $h, fs; "lighten": lighten = lighten_assign, "lighten-fixed": lighten_fixed = lighten_fixed_assign, "darken": darken = darken_assign, "darken-fixed": darken_fixed = darken_fixed_assign) } }
    macro_rules! sl_sat { ($ty:ty, $key:expr, $bx:expr, $h:expr) => { alpha_slice!(out, rng, T, $ty, 3, $key, $bx, $h, fs; "saturate": saturate = saturate_assign, "saturate-fixed": saturate_fixed = saturate_fixed_assign, "desaturate": desaturate = desaturate_assign, "desaturate-fixed": desaturate_fixed = desaturate_fixed_assign) } }
    macro_rules! sl_hue { ($ty:ty, $H:ty, $key:expr, $bx:expr, $h:expr) => {{ alpha_slice!(out, rng, T, $ty, 3, $key, $bx, Some($h), amounts; "shift-hue": shift_hue = shift_hue_assign, "set-hue": with_hue = set_hue); hue_typed!(out, rng, T, $ty, $H, 3, $key, $bx, $h); }} }
    macro_rules! sl_clamp { ($ty:ty, $N:expr, $key:expr, $bx:expr, $h:expr) => { alpha_slice_clamp!(out, rng, T, $ty, $N, $key, $bx, $h) } }
    sl_light!(Rgb<S, T>, 3, "Rgb", unit3, None); sl_light!(Luma<S, T>, 1, "Luma", [(0.0, 1.0)], None);
    sl_light!(Hsl<S, T>, 3, "Hsl", hsx, Some(0)); sl_light!(Hsv<S, T>, 3, "Hsv", hsx, Some(0)); sl_light!(Hwb<S, T>, 3, "Hwb", hwbx, Some(0));
    sl_light!(Lab<D65, T>, 3, "Lab", labx, None); sl_light!(Lch<D65, T>, 3, "Lch", lchx, Some(2)); sl_light!(Luv<D65, T>, 3, "Luv", luvx, None);
    sl_light!(Lchuv<D65, T>, 3, "Lchuv", lchuvx, Some(2)); sl_light!(Hsluv<D65, T>, 3, "Hsluv", hsluvx, Some(0));
    sl_light!(Xyz<D65, T>, 3, "Xyz", unit3, None); sl_light!(Yxy<D65, T>, 3, "Yxy", unit3, None);
    sl_light!(Oklab<T>, 3, "Oklab", oklabx, None); sl_light!(Oklch<T>, 3, "Oklch", oklchx, Some(2)); sl_light!(Okhsl<T>, 3, "Okhsl", hsx, Some(0));
    sl_light!(Okhsv<T>, 3, "Okhsv", hsx, Some(0)); sl_light!(Okhwb<T>, 3, "Okhwb", hwbx, Some(0));
    sl_light!(Cam16UcsJab<T>, 3, "Cam16UcsJab", jabx, None); sl_light!(Cam16UcsJmh<T>, 3, "Cam16UcsJmh", jmhx, Some(2));
    sl_sat!(Hsl<S, T>, "Hsl", hsx, Some(0)); sl_sat!(Hsv<S, T>, "Hsv", hsx, Some(0)); sl_sat!(Lch<D65, T>, "Lch", lchx, Some(2)); sl_sat!(Lchuv<D65, T>, "Lchuv", lchuvx, Some(2));
    sl_sat!(Hsluv<D65, T>, "Hsluv", hsluvx, Some(0)); sl_sat!(Okhsl<T>, "Okhsl", hsx, Some(0)); sl_sat!(Okhsv<T>, "Okhsv", hsx, Some(0)); sl_sat!(Cam16UcsJmh<T>, "Cam16UcsJmh", jmhx, Some(2));
    sl_hue!(Hsl<S, T>, RgbHue<T>, "Hsl", hsx, 0); sl_hue!(Hsv<S, T>, RgbHue<T>, "Hsv", hsx, 0); sl_hue!(Hwb<S, T>, RgbHue<T>, "Hwb", hwbx, 0);
    sl_hue!(Lch<D65, T>, LabHue<T>, "Lch", lchx, 2); sl_hue!(Lchuv<D65, T>, LuvHue<T>, "Lchuv", lchuvx, 2); sl_hue!(Hsluv<D65, T>, LuvHue<T>, "Hsluv", hsluvx, 0);
    sl_hue!(Oklch<T>, OklabHue<T>, "Oklch", oklchx, 2); sl_hue!(Okhsl<T>, OklabHue<T>, "Okhsl", hsx, 0); sl_hue!(Okhsv<T>, OklabHue<T>, "Okhsv", hsx, 0); sl_hue!(Okhwb<T>, OklabHue<T>, "Okhwb", hwbx, 0);
    sl_hue!(Cam16UcsJmh<T>, Cam16Hue<T>, "Cam16UcsJmh", jmhx, 2);
    sl_hue!(Cam16Jch<T>, Cam16Hue<T>, "Cam16Jch", px, 2); sl_hue!(Cam16Jmh<T>, Cam16Hue<T>, "Cam16Jmh", px, 2); sl_hue!(Cam16Jsh<T>, Cam16Hue<T>, "Cam16Jsh", px, 2);
    sl_hue!(Cam16Qch<T>, Cam16Hue<T>, "Cam16Qch", px, 2); sl_hue!(Cam16Qmh<T>, Cam16Hue<T>, "Cam16Qmh", px, 2); sl_hue!(Cam16Qsh<T>, Cam16Hue<T>, "Cam16Qsh", px, 2);
    sl_clamp!(Rgb<S, T>, 3, "Rgb", unit3, None); sl_clamp!(Luma<S, T>, 1, "Luma", [(0.0, 1.0)], None); sl_clamp!(Hsl<S, T>, 3, "Hsl", hsx, Some(0)); sl_clamp!(Hsv<S, T>, 3, "Hsv", hsx, Some(0));
    sl_clamp!(Hwb<S, T>, 3, "Hwb", hwbx, Some(0)); sl_clamp!(Lab<D65, T>, 3, "Lab", labx, None); sl_clamp!(Lch<D65, T>, 3, "Lch", lchx, Some(2)); sl_clamp!(Luv<D65, T>, 3, "Luv", luvx, None);
    sl_clamp!(Lchuv<D65, T>, 3, "Lchuv", lchuvx, Some(2)); sl_clamp!(Hsluv<D65, T>, 3, "Hsluv", hsluvx, Some(0)); sl_clamp!(Xyz<D65, T>, 3, "Xyz", unit3, None); sl_clamp!(Yxy<D65, T>, 3, "Yxy", unit3, None);
    sl_clamp!(Oklab<T>, 3, "Oklab", oklabx, None); sl_clamp!(Oklch<T>, 3, "Oklch", oklchx, Some(2)); sl_clamp!(Okhsl<T>, 3, "Okhsl", hsx, Some(0)); sl_clamp!(Okhsv<T>, 3, "Okhsv", hsx, Some(0));
    sl_clamp!(Okhwb<T>, 3, "Okhwb", hwbx, Some(0)); sl_clamp!(Lms<Br, T>, 3, "Lms", unit3, None); sl_clamp!(Cam16UcsJab<T>, 3, "Cam16UcsJab", jabx, None); sl_clamp!(Cam16UcsJmh<T>, 3, "Cam16UcsJmh", jmhx, Some(2));
    sl_clamp!(Cam16Jch<T>, 3, "Cam16Jch", px, Some(2)); sl_clamp!(Cam16Qsh<T>, 3, "Cam16Qsh", px, Some(2));
    hwb_darken_slice!(out, rng, T, Hwb<S, T>, "Hwb"); hwb_darken_slice!(out, rng, T, Okhwb<T>, "Okhwb");
    cam16_full_clamp!(out, rng, T);

    // ---------------------------------------------------------------- (4) Mix: both alphas arbitrary, hues whole turns apart
    mix_more!(out, rng, T, Rgb<S, T>, 3, "Rgb", unit3, None); mix_more!(out, rng, T, Luma<S, T>, 1, "Luma", [(0.0, 1.0)], None); mix_more!(out, rng, T, Lab<D65, T>, 3, "Lab", labx, None);
    mix_more!(out, rng, T, Luv<D65, T>, 3, "Luv", luvx, None); mix_more!(out, rng, T, Xyz<D65, T>, 3, "Xyz", unit3, None); mix_more!(out, rng, T, Yxy<D65, T>, 3, "Yxy", unit3, None);
    mix_more!(out, rng, T, Oklab<T>, 3, "Oklab", oklabx, None); mix_more!(out, rng, T, Lms<Br, T>, 3, "Lms", unit3, None); mix_more!(out, rng, T, Cam16UcsJab<T>, 3, "Cam16UcsJab", jabx, None);
    mix_more!(out, rng, T, Hsl<S, T>, 3, "Hsl", hsx, Some(0)); mix_more!(out, rng, T, Hsv<S, T>, 3, "Hsv", hsx, Some(0)); mix_more!(out, rng, T, Hwb<S, T>, 3, "Hwb", hwbx, Some(0));
    mix_more!(out, rng, T, Lch<D65, T>, 3, "Lch", lchx, Some(2)); mix_more!(out, rng, T, Lchuv<D65, T>, 3, "Lchuv", lchuvx, Some(2)); mix_more!(out, rng, T, Hsluv<D65, T>, 3, "Hsluv", hsluvx, Some(0));
    mix_more!(out, rng, T, Oklch<T>, 3, "Oklch", oklchx, Some(2)); mix_more!(out, rng, T, Okhsl<T>, 3, "Okhsl", hsx, Some(0)); mix_more!(out, rng, T, Okhsv<T>, 3, "Okhsv", hsx, Some(0));
    mix_more!(out, rng, T, Okhwb<T>, 3, "Okhwb", hwbx, Some(0)); mix_more!(out, rng, T, Cam16UcsJmh<T>, 3, "Cam16UcsJmh", jmhx, Some(2));
    mix_more!(out, rng, T, Cam16Jch<T>, 3, "Cam16Jch", px, Some(2)); mix_more!(out, rng, T, Cam16Jmh<T>, 3, "Cam16Jmh", px, Some(2)); mix_more!(out, rng, T, Cam16Jsh<T>, 3, "Cam16Jsh", px, Some(2));
    mix_more!(out, rng, T, Cam16Qch<T>, 3, "Cam16Qch", px, Some(2)); mix_more!(out, rng, T, Cam16Qmh<T>, 3, "Cam16Qmh", px, Some(2)); mix_more!(out, rng, T, Cam16Qsh<T>, 3, "Cam16Qsh", px, Some(2));

    // ---------------------------------------------------------------- (5) Alpha<C, A> with an alpha of another component type (the other float width; u8)
    let fa: [O; 3] = [0.25 as O, 1.0 as O, rng.unit() as O];
    let ua: [u8; 3] = [0, 7, 255];
    other_alpha_hue!(out, rng, T, O, Hsl<S, T>, 3, "Hsl", "other-float", hsx, 0, fa); other_alpha_hue!(out, rng, T, u8, Hsv<S, T>, 3, "Hsv", "u8", hsx, 0, ua);
    other_alpha_hue!(out, rng, T, O, Lch<D65, T>, 3, "Lch", "other-float", lchx, 2, fa); other_alpha_hue!(out, rng, T, u8, Oklch<T>, 3, "Oklch", "u8", oklchx, 2, ua);
    other_alpha_hue!(out, rng, T, O, Cam16Jmh<T>, 3, "Cam16Jmh", "other-float", px, 2, fa); other_alpha_hue!(out, rng, T, u8, Hwb<S, T>, 3, "Hwb", "u8", hwbx, 0, ua);
    other_alpha_lab!(out, rng, T, O, Lab<D65, T>, "Lab", "other-float", labx, fa); other_alpha_lab!(out, rng, T, u8, Luv<D65, T>, "Luv", "u8", luvx, ua);
    other_alpha_lab!(out, rng, T, O, Oklab<T>, "Oklab", "other-float", oklabx, fa); other_alpha_lab!(out, rng, T, u8, Cam16UcsJab<T>, "Cam16UcsJab", "u8", jabx, ua);
    let fc: [(O, O); 4] = [(-0.5 as O, 0.0 as O), (0.25 as O, 0.25 as O), (1.5 as O, 1.0 as O), (1.0 as O, 1.0 as O)];
    let uc: [(u8, u8); 3] = [(0, 0), (7, 7), (255, 255)];
    other_alpha_clamp!(out, rng, T, O, Rgb<S, T>, 3, "Rgb", "other-float", unit3, None, fc); other_alpha_clamp!(out, rng, T, u8, Rgb<S, T>, 3, "Rgb", "u8", unit3, None, uc);
    other_alpha_clamp!(out, rng, T, O, Hwb<S, T>, 3, "Hwb", "other-float", hwbx, Some(0), fc); other_alpha_clamp!(out, rng, T, u8, Lch<D65, T>, 3, "Lch", "u8", lchx, Some(2), uc);
    other_alpha_arith!(out, rng, T, O, Rgb<S, T>, 3, "Rgb", "other-float", unit3, None; Add AddAssign add add_assign "add", Sub SubAssign sub sub_assign "sub", Mul MulAssign mul mul_assign "mul", Div DivAssign div div_assign "div");
    other_alpha_arith!(out, rng, T, O, Hsl<S, T>, 3, "Hsl", "other-float", hsx, Some(0); Add AddAssign add add_assign "add", Sub SubAssign sub sub_assign "sub");
    other_alpha_arith!(out, rng, T, O, Lab<D65, T>, 3, "Lab", "other-float", labx, None; Add AddAssign add add_assign "add", Sub SubAssign sub sub_assign "sub", Mul MulAssign mul mul_assign "mul", Div DivAssign div div_assign "div");
}} }

pub fn run_more(out: &mut Out, rng: &mut Rng, thorough: bool) {
    let n = if thorough { 24 } else { 1 };
    for _ in 0..(if thorough { 4 } else { 1 }) {
        more_floats!(out, rng, n, f32, f64);
        more_floats!(out, rng, n, f64, f32);
    }
}
