//! C20 — serialized colours deserialize to the same colour in a stable shape (`palette::serde`, `Alpha`, `PreAlpha`,
//! the derived `Serialize`/`Deserialize` of every colour type and of the hues), through serde_json, ron and the
//! harness's own data-model recorder / generic deserializer (`c20_tree.rs`).
use crate::c20_tree::*;
use crate::common::*;
use ::serde::de::DeserializeOwned;
use ::serde::{Deserialize, Deserializer, Serialize, Serializer};
use palette::blend::{PreAlpha, Premultiply};
use palette::cast::{self, ArrayCast, UintCast};
use palette::stimulus::Stimulus;
use palette::white_point::{D50, D65};
use palette::{encoding, Alpha};
use std::fmt::Debug;
use std::panic::{catch_unwind, AssertUnwindSafe};

mod ty {
    pub use palette::cam16::{Cam16UcsJab, Cam16UcsJmh};
    pub use palette::hues::{Cam16Hue, LabHue, LuvHue, OklabHue, RgbHue};
    pub use palette::lms::Lms;
    pub use palette::luma::Luma;
    pub use palette::rgb::Rgb;
    pub use palette::{Hsl, Hsluv, Hsv, Hwb, Lab, Lch, Lchuv, Luv, Okhsl, Okhsv, Okhwb, Oklab, Oklch, Xyz, Yxy};
}
// ------------------------------------------------------------------------------------------------ components
pub trait Comp: Copy + PartialEq + Debug + Serialize + DeserializeOwned + Stimulus + 'static {
    const TAG: &'static str;
    fn tok(self) -> String;
    fn gv(self) -> GV;
    /// a number of a generic value (`serde_json::Value`, `ron::Value`) read as this component type
    fn of_f64(x: f64) -> Option<Self>;
    fn of_i64(x: i64) -> Option<Self>;
    fn gen(rng: &mut Rng) -> Self;
}
const F32_SPECIALS: [f32; 24] = [0.0, -0.0, 1.0, -1.0, 0.5, 0.1, 0.2, 0.3, 1.0 / 3.0, 360.0, -180.0, 180.0, 100.0, 255.0, f32::MIN_POSITIVE, f32::MAX, f32::MIN,
    f32::EPSILON, 1.0e-45, 1.1754942e-38, 16777216.0, 16777217.0, 0.99999994, 1.0000001];
const F64_SPECIALS: [f64; 24] = [0.0, -0.0, 1.0, -1.0, 0.5, 0.1, 0.2, 0.3, 1.0 / 3.0, 360.0, -180.0, 180.0, 100.0, 255.0, f64::MIN_POSITIVE, f64::MAX, f64::MIN,
    f64::EPSILON, 5e-324, 2.225073858507201e-308, 9007199254740992.0, 9007199254740993.0, 0.9999999999999999, 1.0000000000000002];
impl Comp for f32 {
    const TAG: &'static str = "f32";
    fn tok(self) -> String { h32(self) }
    fn gv(self) -> GV { GV::F32(self) }
    fn of_f64(x: f64) -> Option<Self> { Some(x as f32) }
    fn of_i64(_: i64) -> Option<Self> { None }
    fn gen(rng: &mut Rng) -> Self {
        match rng.below(10) {
            0 | 1 => { let s = *rng.pick(&F32_SPECIALS); let x = nudge32(s, rng.below(5) as i32 - 2); if x.is_finite() { x } else { s } }
            2 => { let e = rng.range(-44.0, 38.0); let s = if rng.chance(0.5) { -1.0 } else { 1.0 }; let x = (s * 10f64.powf(e)) as f32; if x.is_finite() { x } else { 1.0 } }
            3 => loop { let x = f32::from_bits(rng.next() as u32); if x.is_finite() { break x; } },
            4 | 5 => rng.range(-400.0, 400.0) as f32,
            _ => rng.unit() as f32,
        }
    }
}
impl Comp for f64 {
    const TAG: &'static str = "f64";
    fn tok(self) -> String { h64(self) }
    fn gv(self) -> GV { GV::F64(self) }
    fn of_f64(x: f64) -> Option<Self> { Some(x) }
    fn of_i64(_: i64) -> Option<Self> { None }
    fn gen(rng: &mut Rng) -> Self {
        match rng.below(10) {
            0 | 1 => { let s = *rng.pick(&F64_SPECIALS); let x = nudge64(s, rng.below(5) as i64 - 2); if x.is_finite() { x } else { s } }
            2 => { let e = rng.range(-320.0, 308.0); let s = if rng.chance(0.5) { -1.0 } else { 1.0 }; let x = s * 10f64.powf(e); if x.is_finite() { x } else { 1.0 } }
            3 => loop { let x = f64::from_bits(rng.next()); if x.is_finite() { break x; } },
            4 | 5 => rng.range(-400.0, 400.0),
            _ => rng.unit(),
        }
    }
}
impl Comp for u8 {
    const TAG: &'static str = "u8";
    fn tok(self) -> String { self.to_string() }
    fn gv(self) -> GV { GV::U(self as u64) }
    fn of_f64(_: f64) -> Option<Self> { None }
    fn of_i64(x: i64) -> Option<Self> { u8::try_from(x).ok() }
    fn gen(rng: &mut Rng) -> Self { match rng.below(8) { 0 => 0, 1 => 255, 2 => 1, 3 => 128, _ => rng.below(256) as u8 } }
}
fn toks<T: Comp>(xs: &[T]) -> String { xs.iter().map(|x| x.tok()).collect::<Vec<_>>().join(" ") }

// ------------------------------------------------------------------------------------------------ generic values of text
/// canonical generic value of a text: `{k=v,…}` (keys in the order they appear in the text) / `[v,…]` / scalar;
/// a one-element sequence in value position is `(v)`.  `None` when the text is not what a colour may look like.
#[derive(Clone, Debug, PartialEq)]
pub enum G<T> { Num(T), Seq(Vec<G<T>>), Map(Vec<(String, G<T>)>), Other(String) }
impl<T: Comp> G<T> {
    fn val_tok(&self) -> String { match self { G::Num(x) => x.tok(), G::Seq(xs) if xs.len() == 1 => if let G::Num(x) = &xs[0] { format!("({})", x.tok()) } else { "?nested".into() }, G::Other(w) => format!("?{}", w), _ => "?nested".into() } }
    fn tok(&self) -> String {
        match self {
            G::Num(x) => x.tok(),
            G::Seq(xs) => format!("[{}]", xs.iter().map(|x| x.val_tok()).collect::<Vec<_>>().join(",")),
            G::Map(es) => format!("{{{}}}", es.iter().map(|(k, v)| format!("{}={}", k, v.val_tok())).collect::<Vec<_>>().join(",")),
            G::Other(w) => format!("?{}", w),
        }
    }
    fn is_num(&self) -> bool { matches!(self, G::Num(_)) }
}
fn order_by_text<T>(mut es: Vec<(String, G<T>)>, text: &str, pat: impl Fn(&str) -> Vec<String>) -> Vec<(String, G<T>)> {
    es.sort_by_key(|(k, _)| pat(k).iter().filter_map(|p| text.find(p.as_str())).min().unwrap_or(usize::MAX));
    es
}
fn g_json<T: Comp>(v: &serde_json::Value, text: &str) -> G<T> {
    match v {
        serde_json::Value::Number(n) => n.as_i64().and_then(T::of_i64).or_else(|| if n.is_f64() { n.as_f64().and_then(T::of_f64) } else { None }).map_or(G::Other("num".into()), G::Num),
        serde_json::Value::Array(xs) => G::Seq(xs.iter().map(|x| g_json(x, text)).collect()),
        serde_json::Value::Object(m) => G::Map(order_by_text(m.iter().map(|(k, x)| (k.clone(), g_json(x, text))).collect(), text, |k| vec![format!("\"{}\":", k)])),
        serde_json::Value::Null => G::Other("null".into()),
        _ => G::Other("x".into()),
    }
}
fn g_ron<T: Comp>(v: &ron::Value, text: &str) -> G<T> {
    match v {
        ron::Value::Number(ron::Number::Float(f)) => T::of_f64(f.get()).map_or(G::Other("num".into()), G::Num),
        ron::Value::Number(ron::Number::Integer(i)) => T::of_i64(*i).map_or(G::Other("num".into()), G::Num),
        ron::Value::Seq(xs) => G::Seq(xs.iter().map(|x| g_ron(x, text)).collect()),
        ron::Value::Map(m) => G::Map(order_by_text(m.iter().map(|(k, x)| (match k { ron::Value::String(s) => s.clone(), _ => "?".into() }, g_ron(x, text))).collect(), text,
            |k| vec![format!("({}:", k), format!(",{}:", k)])),
        ron::Value::Unit => G::Other("unit".into()),
        _ => G::Other("x".into()),
    }
}

fn classify(msg: &str) -> String {
    let tick = |p: &str| msg.find(p).map(|i| { let r = &msg[i + p.len()..]; r[..r.find('`').unwrap_or(r.len())].to_string() });
    if let Some(f) = tick("missing field `") { return format!("err:missing:{}", f); }
    if let Some(f) = tick("duplicate field `") { return format!("err:dup:{}", f); }
    if let Some(i) = msg.find("invalid length ") { let r = &msg[i + 15..]; let n: String = r.chars().take_while(|c| c.is_ascii_digit()).collect(); return format!("err:len:{}", n); }
    if msg.contains("trailing characters") { return "err:trailing".into(); }
    if msg.contains("invalid type") { return "err:type".into(); }
    "err".into()
}
fn classify_ron(e: &ron::error::SpannedError) -> String {
    match &e.code {
        ron::Error::MissingStructField { field, .. } => format!("err:missing:{}", field),
        ron::Error::DuplicateStructField { field, .. } => format!("err:dup:{}", field),
        ron::Error::Message(m) => classify(m),
        _ => "err".into(),
    }
}

// ------------------------------------------------------------------------------------------------ wrappers
pub trait Wrap<C, T>: Serialize + DeserializeOwned { const TAG: &'static str; fn mk(c: C, a: T) -> Self; fn parts(&self) -> (C, T); }
// the (de)serializability of the wrapper is demanded of the concrete type at each use, not derived here from restated library bounds
impl<C: Copy, T: Comp> Wrap<C, T> for Alpha<C, T> where Alpha<C, T>: Serialize + DeserializeOwned {
    const TAG: &'static str = "alpha";
    fn mk(color: C, alpha: T) -> Self { Alpha { color, alpha } }
    fn parts(&self) -> (C, T) { (self.color, self.alpha) }
}
impl<C: Premultiply<Scalar = T> + Copy, T: Comp> Wrap<C, T> for PreAlpha<C> where PreAlpha<C>: Serialize + DeserializeOwned {
    const TAG: &'static str = "prealpha";
    fn mk(color: C, alpha: T) -> Self { PreAlpha { color, alpha } }
    fn parts(&self) -> (C, T) { (self.color, self.alpha) }
}
/// `#[serde(deserialize_with = "palette::serde::deserialize_with_optional_alpha")]`
pub struct OptA<C, T>(Alpha<C, T>);
// one impl per component type, so that the helper's own trait bounds (not the harness's) decide what is callable
macro_rules! opt_a { ($($t:ty),*) => { $(impl<'de, C: Deserialize<'de>> Deserialize<'de> for OptA<C, $t> {
    fn deserialize<D: Deserializer<'de>>(d: D) -> Result<Self, D::Error> { palette::serde::deserialize_with_optional_alpha(d).map(OptA) }
})* } }
opt_a!(f32, f64, u8);
/// `#[serde(deserialize_with = "palette::serde::deserialize_with_optional_pre_alpha")]`
pub struct OptP<C: Premultiply, T>(PreAlpha<C>, std::marker::PhantomData<T>);
macro_rules! opt_p { ($($t:ty),*) => { $(impl<'de, C: Premultiply<Scalar = $t> + Deserialize<'de>> Deserialize<'de> for OptP<C, $t> {
    fn deserialize<D: Deserializer<'de>>(d: D) -> Result<Self, D::Error> { palette::serde::deserialize_with_optional_pre_alpha(d).map(|p| OptP(p, std::marker::PhantomData)) }
})* } }
opt_p!(f32, f64);
pub trait OptWrap<C, T>: DeserializeOwned { const TAG: &'static str; fn parts(self) -> (C, T); }
impl<C: DeserializeOwned, T: Comp> OptWrap<C, T> for OptA<C, T> where OptA<C, T>: DeserializeOwned { const TAG: &'static str = "optalpha"; fn parts(self) -> (C, T) { (self.0.color, self.0.alpha) } }
impl<C: Premultiply<Scalar = T> + DeserializeOwned, T: Comp> OptWrap<C, T> for OptP<C, T> where OptP<C, T>: DeserializeOwned { const TAG: &'static str = "optprealpha"; fn parts(self) -> (C, T) { (self.0.color, self.0.alpha) } }

/// `#[serde(with = "palette::serde::as_array")]` / `as_uint`
struct AsArr<X>(X);
// one impl per concrete type, so that the helper's own trait bounds (not the harness's) decide what is callable
macro_rules! as_arr { ($($x:ty),* $(,)?) => { $(
    impl Serialize for AsArr<$x> { fn serialize<S: Serializer>(&self, s: S) -> Result<S::Ok, S::Error> { palette::serde::as_array::serialize(&self.0, s) } }
    impl<'de> Deserialize<'de> for AsArr<$x> { fn deserialize<D: Deserializer<'de>>(d: D) -> Result<Self, D::Error> { palette::serde::as_array::deserialize(d).map(AsArr) } }
)* } }
as_arr!(palette::Srgb<f32>, palette::Srgba<f32>, palette::Hsva<palette::encoding::Srgb, f64>, palette::Lch<D65, f64>, palette::Srgba<u8>, palette::Hsl<palette::encoding::Srgb, u8>,
        PreAlpha<palette::LinSrgb<f32>>, palette::SrgbLumaa<f32>, palette::SrgbLuma<f64>);
struct AsUint<X>(X);
macro_rules! as_uint { ($($x:ty),* $(,)?) => { $(
    impl Serialize for AsUint<$x> { fn serialize<S: Serializer>(&self, s: S) -> Result<S::Ok, S::Error> { palette::serde::as_uint::serialize(&self.0, s) } }
    impl<'de> Deserialize<'de> for AsUint<$x> { fn deserialize<D: Deserializer<'de>>(d: D) -> Result<Self, D::Error> { palette::serde::as_uint::deserialize(d).map(AsUint) } }
)* } }
as_uint!(palette::rgb::PackedRgba, palette::rgb::PackedArgb, palette::rgb::PackedBgra, palette::rgb::PackedAbgr, palette::SrgbLuma<u8>, palette::SrgbLuma<u16>, palette::SrgbLuma<u32>);

// ------------------------------------------------------------------------------------------------ run context
pub struct Cx { out: Out, rng: Rng, n: usize, n_de: usize, types_seen: Vec<String>, bounded_alpha_missing: u64, flatten_missing: u64 }

fn guarded<R>(f: impl FnOnce() -> R) -> Option<R> { catch_unwind(AssertUnwindSafe(f)).ok() }

/// what the three text/tree routes give for one value: (data-model tree, json text, ron text)
fn texts<X: Serialize>(x: &X) -> (Option<Node>, Option<String>, Option<String>) {
    (guarded(|| record(x).ok()).flatten(), guarded(|| serde_json::to_string(x).ok()).flatten(), guarded(|| ron::to_string(x).ok()).flatten())
}
fn parse_json<T: Comp>(text: &str) -> Option<G<T>> { serde_json::from_str::<serde_json::Value>(text).ok().map(|v| g_json(&v, text)) }
fn parse_ron<T: Comp>(text: &str) -> Option<G<T>> { ron::from_str::<ron::Value>(text).ok().map(|v| g_ron(&v, text)) }

fn de_fmt<X: DeserializeOwned>(fmt: &str, input: &GIn) -> Result<X, String> {
    let r = guarded(|| match fmt {
        "json" => serde_json::from_str::<X>(&input.json()).map_err(|e| classify(&e.to_string())),
        "ron" => ron::from_str::<X>(&input.ron()).map_err(|e| classify_ron(&e)),
        _ => X::deserialize(TreeDe { input, bounded: false }).map_err(|e| classify(&e.0)),
    });
    r.unwrap_or(Err("panic".into()))
}

/// serialize one value all ways, emit `ser`/`shape` lines, evaluate round trip; returns the generic values (json, ron)
fn ser_all<X, T: Comp>(cx: &mut Cx, ty: &str, wrap: &str, x: &X, flat: &[T], same: impl Fn(&X) -> bool) -> (Option<G<T>>, Option<G<T>>)
where X: Serialize + DeserializeOwned {
    let cfg = format!("{} {} {}", ty, T::TAG, wrap);
    let key = format!("{}:{}:{}", ty, T::TAG, wrap);
    let inp = toks(flat);
    let (node, js, rn) = texts(x);
    cx.out.check(node.is_some() && js.is_some() && rn.is_some(), &format!("serialize-ok:{}", key), || format!("{} serialization failed or panicked (tree {} json {} ron {})", inp, node.is_some(), js.is_some(), rn.is_some()));
    let mut gj = None; let mut gr = None;
    if let Some(node) = &node {
        cx.out.case(&format!("ser {} | {} | {}", cfg, inp, node.tok()));
        // the data-model tree read back by the generic deserializer: self-describing, compact (sequence) and by-index forms
        for (form, gin) in [("tree-map", as_map(node)), ("tree-seq", as_seq(node)), ("tree-idx", as_idx(node))] {
            if let Some(gin) = gin {
                let back = guarded(|| X::deserialize(TreeDe { input: &gin, bounded: false }));
                cx.out.check(matches!(&back, Some(Ok(b)) if same(b)), &format!("roundtrip:{}:{}", form, key), || format!("{} -> {} -> {}", inp, gin.toks(), match &back { Some(Ok(_)) => "a different colour".to_string(), Some(Err(e)) => format!("error {}", e.0), None => "panic".into() }));
                if form == "tree-seq" && wrap != "plain" {
                    // informational only (not part of the property): length-bounded sequence readers (bincode/postcard style)
                    if !matches!(guarded(|| X::deserialize(TreeDe { input: &gin, bounded: true })), Some(Ok(_))) { cx.bounded_alpha_missing += 1; }
                }
            }
        }
    }
    if let Some(js) = &js {
        gj = parse_json::<T>(js);
        cx.out.check(gj.is_some(), &format!("valid-json:{}", key), || format!("{} -> {}", inp, js));
        if let Some(g) = &gj { cx.out.case(&format!("shape json {} | {} | {}", cfg, inp, g.tok())); }
        let back = guarded(|| serde_json::from_str::<X>(js));
        cx.out.check(matches!(&back, Some(Ok(b)) if same(b)), &format!("roundtrip:json:{}", key), || format!("{} -> {} -> {}", inp, js, match &back { Some(Ok(_)) => "a different colour".to_string(), Some(Err(e)) => format!("error {}", e), None => "panic".into() }));
    }
    if let Some(rn) = &rn {
        gr = parse_ron::<T>(rn);
        cx.out.check(gr.is_some(), &format!("valid-ron:{}", key), || format!("{} -> {}", inp, rn));
        if let Some(g) = &gr { cx.out.case(&format!("shape ron {} | {} | {}", cfg, inp, g.tok())); }
        let back = guarded(|| ron::from_str::<X>(rn));
        cx.out.check(matches!(&back, Some(Ok(b)) if same(b)), &format!("roundtrip:ron:{}", key), || format!("{} -> {} -> {}", inp, rn, match &back { Some(Ok(_)) => "a different colour".to_string(), Some(Err(e)) => format!("error {}", e), None => "panic".into() }));
    }
    (gj, gr)
}

/// shape clauses of the property on the generic value of a colour with `n` components (+ alpha)
fn shape_clauses<T: Comp>(cx: &mut Cx, fmt: &str, ty: &str, g: &G<T>, comps: &[T], alpha: Option<T>, plain: Option<&G<T>>) {
    let key = format!("{}:{}:{}", fmt, ty, T::TAG);
    let es = match g { G::Map(es) => es.clone(), _ => { cx.out.check(false, &format!("struct-shape:{}", key), || format!("not a map: {}", g.tok())); return; } };
    // hue: a bare number
    for (k, v) in &es { if k == "hue" { cx.out.check(v.is_num(), &format!("hue-bare:{}", key), || format!("hue is not a bare number in {}", g.tok())); } }
    // no metadata: exactly one entry per component (+ alpha), nothing else
    let want = comps.len() + alpha.is_some() as usize;
    cx.out.check(es.len() == want && !es.iter().any(|(k, _)| k == "standard" || k == "white_point" || k == "meta"), &format!("no-metadata:{}", key), || format!("{} entries for {} components: {}", es.len(), want, g.tok()));
    // the entries carry the components (whatever the hue's wrapping), in declaration order
    let leaf = |v: &G<T>| match v { G::Num(x) => Some(*x), G::Seq(xs) if xs.len() == 1 => if let G::Num(x) = xs[0] { Some(x) } else { None }, _ => None };
    let vals: Vec<Option<String>> = es.iter().map(|(_, v)| leaf(v).map(|x| x.tok())).collect();
    let mut wantv: Vec<Option<String>> = comps.iter().map(|x| Some(x.tok())).collect();
    if let (Some(a), Some(p)) = (alpha, plain) {
        // the colour's own fields plus an `alpha` field at the same level
        let pes = match p { G::Map(pes) => pes.clone(), _ => vec![] };
        let mut own: Vec<(String, G<T>)> = es.iter().filter(|(k, _)| k != "alpha").cloned().collect();
        let mut pl = pes.clone(); own.sort_by(|a, b| a.0.cmp(&b.0)); pl.sort_by(|a, b| a.0.cmp(&b.0));
        let al: Vec<&G<T>> = es.iter().filter(|(k, _)| k == "alpha").map(|(_, v)| v).collect();
        let ok = own == pl && al.len() == 1 && matches!(al[0], G::Num(x) if x.tok() == a.tok());
        cx.out.check(ok, &format!("alpha-flat:{}", key), || format!("with alpha {} vs plain {}", g.tok(), p.tok()));
        wantv.push(Some(a.tok()));
    }
    if alpha.is_none() || plain.is_some() {
        let (mut a, mut b) = (vals.clone(), wantv.clone()); a.sort(); b.sort();
        cx.out.check(a == b, &format!("values:{}", key), || format!("{} does not carry exactly the components {:?}", g.tok(), wantv));
    }
}

/// hand-built inputs around a good one
fn mutations<T: Comp>(rng: &mut Rng, names: &[String], comps: &[T], alpha: T) -> Vec<(&'static str, GIn)> {
    let n = names.len();
    let good: Vec<(GK, GV)> = names.iter().zip(comps).map(|(k, x)| (GK::Str(k.clone()), x.gv())).collect();
    let a = (GK::Str("alpha".into()), alpha.gv());
    let with = |pos: usize| { let mut v = good.clone(); v.insert(pos.min(n), a.clone()); v };
    let mut out: Vec<(&'static str, GIn)> = vec![];
    out.push(("no-alpha", GIn::Map(good.clone())));
    out.push(("alpha-last", GIn::Map(with(n))));
    out.push(("alpha-first", GIn::Map(with(0))));
    out.push(("alpha-mid", GIn::Map(with(1))));
    let mut sh = with(n); for i in (1..sh.len()).rev() { let j = rng.below(i as u64 + 1) as usize; sh.swap(i, j); }
    out.push(("shuffled", GIn::Map(sh)));
    let mut rev = with(n); rev.reverse(); out.push(("reversed", GIn::Map(rev)));
    let miss = rng.below(n as u64) as usize;
    let mut m = with(n); m.remove(miss); out.push(("missing-field", GIn::Map(m)));
    let mut m = good.clone(); m.remove(miss); out.push(("missing-field-and-alpha", GIn::Map(m)));
    let mut d = with(n); d.push(good[miss].clone()); out.push(("dup-field", GIn::Map(d)));
    let mut d = with(n); d.insert(miss, good[miss].clone()); out.push(("dup-field-early", GIn::Map(d)));
    let mut d = with(n); d.push(a.clone()); out.push(("dup-alpha", GIn::Map(d)));
    let mut d = with(0); d.push(a.clone()); out.push(("dup-alpha-spread", GIn::Map(d)));
    let mut e = with(n); e.insert(rng.below(n as u64 + 1) as usize, (GK::Str("extra".into()), alpha.gv())); out.push(("extra-field", GIn::Map(e)));
    let mut e = good.clone(); e.push((GK::Str("Alpha".into()), alpha.gv())); out.push(("wrong-case-alpha", GIn::Map(e)));
    let mut e = with(n); e.push((GK::Str("standard".into()), GV::Other)); out.push(("metadata-field", GIn::Map(e)));
    let mut w = with(n); w[miss].1 = GV::Other; out.push(("wrong-type", GIn::Map(w)));
    let mut w = with(n); w[n].1 = GV::Other; out.push(("wrong-type-alpha", GIn::Map(w)));
    let mut w = with(n); w[miss].1 = GV::Wrapped(Box::new(comps[miss].gv())); out.push(("wrapped-value", GIn::Map(w)));
    out.push(("empty-map", GIn::Map(vec![])));
    // sequences
    let seq: Vec<GV> = comps.iter().map(|x| x.gv()).collect();
    let mut s = seq.clone(); s.push(alpha.gv());
    out.push(("seq-with-alpha", GIn::Seq(s.clone())));
    out.push(("seq-no-alpha", GIn::Seq(seq.clone())));
    out.push(("seq-short", GIn::Seq(seq[..n - 1].to_vec())));
    let mut l = s.clone(); l.push(alpha.gv()); out.push(("seq-long", GIn::Seq(l.clone())));
    l.push(alpha.gv()); out.push(("seq-longer", GIn::Seq(l)));
    let mut w = s.clone(); w[miss] = GV::Other; out.push(("seq-wrong-type", GIn::Seq(w)));
    let mut w = s.clone(); w[n] = GV::Other; out.push(("seq-wrong-type-alpha", GIn::Seq(w)));
    out.push(("empty-seq", GIn::Seq(vec![])));
    out.push(("scalar", GIn::Val(alpha.gv())));
    // by-index identifiers (`visit_u64`): position n is the alpha
    let idx: Vec<(GK, GV)> = comps.iter().enumerate().map(|(i, x)| (GK::Idx(i as u64), x.gv())).collect();
    let mut i1 = idx.clone(); i1.push((GK::Idx(n as u64), alpha.gv())); out.push(("idx-with-alpha", GIn::Map(i1.clone())));
    out.push(("idx-no-alpha", GIn::Map(idx.clone())));
    let mut i2 = i1.clone(); i2.reverse(); out.push(("idx-reversed", GIn::Map(i2)));
    let mut i3 = i1.clone(); i3.push((GK::Idx(n as u64 + 1), alpha.gv())); out.push(("idx-beyond", GIn::Map(i3)));
    let mut i4 = i1.clone(); i4.push((GK::Idx(n as u64), alpha.gv())); out.push(("idx-dup-alpha", GIn::Map(i4)));
    let mut i5 = idx.clone(); i5.push(a.clone()); out.push(("idx-mixed", GIn::Map(i5)));
    out
}

fn de_lines<X: DeserializeOwned, T: Comp>(cx: &mut Cx, ty: &str, mode: &str, cls: &str, input: &GIn, show: impl Fn(X) -> String) -> Vec<(String, Result<String, String>)> {
    let mut res = vec![];
    for fmt in ["json", "ron", "tree"] {
        if input.has_idx() && fmt != "tree" { continue; }
        let r = de_fmt::<X>(fmt, input).map(&show);
        // RON has no sequence spelling of a struct: which error it reports for one is the format's business
        let o = match &r { Ok(s) => format!("ok {}", s), Err(e) => if fmt == "ron" && matches!(input, GIn::Seq(_)) { "err".to_string() } else { e.clone() } };
        cx.out.case(&format!("de {} {} {} {} | {} | {}", fmt, ty, T::TAG, mode, input.toks(), o));
        cx.out.count(&format!("cls:de:{}:{}", cls, if r.is_ok() { "ok" } else { "err" }));
        res.push((fmt.to_string(), r));
    }
    res
}

/// everything for one colour type at one component type
fn colour<C, T, W, O, const N: usize>(cx: &mut Cx, ty: &str)
where T: Comp, C: ArrayCast<Array = [T; N]> + Serialize + DeserializeOwned + Copy + 'static, W: Wrap<C, T>, O: OptWrap<C, T> {
    let same_c = |a: &C, b: &C| -> bool { let (x, y): ([T; N], [T; N]) = (cast::into_array(*a), cast::into_array(*b)); toks(&x) == toks(&y) };
    let mut names: Vec<String> = vec![];
    for it in 0..cx.n {
        let mut comps = [T::gen(&mut cx.rng); N];
        for c in comps.iter_mut() { *c = T::gen(&mut cx.rng); }
        let alpha = T::gen(&mut cx.rng);
        let c: C = cast::from_array(comps);
        // ---- plain colour
        let (gj, gr) = ser_all::<C, T>(cx, ty, "plain", &c, &comps, |b| same_c(b, &c));
        if it == 0 {
            if let Some(Node::Struct(_, _, fs)) = record(&c).ok() { names = fs.iter().map(|(k, _)| k.to_string()).collect(); }
            let phantom: Vec<&str> = vec![];
            cx.out.case(&format!("desc {} | {} | {}", ty, names.join(" "), phantom.join(" ")));
            if !cx.types_seen.iter().any(|t| t == ty) { cx.types_seen.push(ty.to_string()); }
        }
        if let Some(g) = &gj { shape_clauses(cx, "json", ty, g, &comps, None, None); }
        if let Some(g) = &gr { shape_clauses(cx, "ron", ty, g, &comps, None, None); }
        // ---- with alpha
        let w = W::mk(c, alpha);
        let mut flat: Vec<T> = comps.to_vec(); flat.push(alpha);
        let (gja, gra) = ser_all::<W, T>(cx, ty, W::TAG, &w, &flat, |b| { let (bc, ba) = b.parts(); same_c(&bc, &c) && ba.tok() == alpha.tok() });
        if let (Some(g), Some(p)) = (&gja, &gj) { shape_clauses(cx, "json", ty, g, &comps, Some(alpha), Some(p)); }
        if let (Some(g), Some(p)) = (&gra, &gr) { shape_clauses(cx, "ron", ty, g, &comps, Some(alpha), Some(p)); }
        cx.out.count(&format!("cls:value:{}", T::TAG));
        // ---- hand-built inputs
        if it < cx.n_de && names.len() == N {
            let show_c = |b: C| { let a: [T; N] = cast::into_array(b); toks(&a) };
            let muts = mutations(&mut cx.rng, &names, &comps, alpha);
            for (cls, input) in &muts {
                de_lines::<C, T>(cx, ty, "plain", cls, input, show_c);
                de_lines::<W, T>(cx, ty, W::TAG, cls, input, |b| { let (bc, ba) = b.parts(); format!("{} {}", show_c(bc), ba.tok()) });
                let r = de_lines::<O, T>(cx, ty, O::TAG, cls, input, |b| { let (bc, ba) = b.parts(); format!("{} {}", show_c(bc), ba.tok()) });
                // the property's clause: data without an alpha field gives full opacity (and the same colour)
                let want = match *cls {
                    "no-alpha" | "seq-no-alpha" | "idx-no-alpha" => Some(format!("{} {}", toks(&comps), T::max_intensity().tok())),
                    "alpha-last" | "alpha-first" | "alpha-mid" | "shuffled" | "reversed" | "seq-with-alpha" | "idx-with-alpha" => Some(format!("{} {}", toks(&comps), alpha.tok())),
                    _ => None };
                if let Some(want) = want {
                    for (fmt, got) in r {
                        // RON spells a struct with field names only, and (before `serde(transparent)`) a hue as `(v)`: its own
                        // output is covered by roundtrip:ron; hand-built RON is judged on struct-shaped input of hue-free types
                        if fmt == "ron" && (cls.starts_with("seq") || names.iter().any(|k| k == "hue")) { continue; }
                        cx.out.check(got.as_ref().ok() == Some(&want), &format!("optional-alpha:{}:{}:{}:{}", O::TAG, fmt, ty, T::TAG), || format!("{} [{}] -> {:?}, want {}", input.toks(), cls, got, want));
                    }
                }
            }
        }
    }
}

/// `palette::serde::as_array` on a value whose array form is `[T; M]`
fn array_helper<X, T: Comp, const M: usize>(cx: &mut Cx, what: &str, x: X)
where X: ArrayCast<Array = [T; M]> + Copy, AsArr<X>: Serialize + DeserializeOwned {
    let arr: [T; M] = cast::into_array(x);
    let inp = toks(&arr);
    let key = format!("{}:{}", what, T::TAG);
    let (node, js, rn) = texts(&AsArr(x));
    if let Some(n) = &node { cx.out.case(&format!("arr ser | {} | {}", inp, n.tok())); }
    // the serialized form is the sequence of exactly the values `cast::into_array` gives
    let flat = |g: Option<G<T>>| g.and_then(|g| if let G::Seq(xs) = g { xs.iter().map(|v| if let G::Num(x) = v { Some(x.tok()) } else { None }).collect::<Option<Vec<_>>>() } else { None });
    if let Some(js) = &js {
        let g = parse_json::<T>(js);
        if let Some(g) = &g { cx.out.case(&format!("arr json | {} | {}", inp, g.tok())); }
        cx.out.check(flat(g).map(|v| v.join(" ")) == Some(inp.clone()), &format!("as-array-values:json:{}", key), || format!("{} -> {}", inp, js));
        let back = guarded(|| serde_json::from_str::<AsArr<X>>(js).ok()).flatten().map(|b| toks(&cast::into_array(b.0)));
        cx.out.check(back.as_ref() == Some(&toks(&cast::into_array(cast::from_array::<X>(arr)))), &format!("as-array-roundtrip:json:{}", key), || format!("{} -> {} -> {:?}", inp, js, back));
    } else { cx.out.check(false, &format!("as-array-values:json:{}", key), || format!("{} failed to serialize", inp)); }
    if let Some(rn) = &rn {
        let g = parse_ron::<T>(rn);
        if let Some(g) = &g { cx.out.case(&format!("arr ron | {} | {}", inp, g.tok())); }
        cx.out.check(flat(g).map(|v| v.join(" ")) == Some(inp.clone()), &format!("as-array-values:ron:{}", key), || format!("{} -> {}", inp, rn));
        let back = guarded(|| ron::from_str::<AsArr<X>>(rn).ok()).flatten().map(|b| toks(&cast::into_array(b.0)));
        cx.out.check(back.as_ref() == Some(&inp), &format!("as-array-roundtrip:ron:{}", key), || format!("{} -> {} -> {:?}", inp, rn, back));
    } else { cx.out.check(false, &format!("as-array-values:ron:{}", key), || format!("{} failed to serialize", inp)); }
    // hand-built sequences of other lengths
    if cx.rng.chance(0.25) {
        for len in [M - 1, M, M + 1] {
            let mut xs: Vec<GV> = arr.iter().map(|v| v.gv()).collect(); xs.truncate(len); while xs.len() < len { xs.push(arr[0].gv()); }
            let input = GIn::Seq(xs);
            for fmt in ["json", "ron", "tree"] {
                let r = de_fmt::<AsArr<X>>(fmt, &input).map(|b| toks(&cast::into_array(b.0)));
                let o = match &r { Ok(s) => format!("ok {}", s), Err(e) => if fmt == "json" || fmt == "tree" { e.clone() } else { "err".into() } };
                cx.out.case(&format!("arrde {} {} | {} | {}", fmt, M, input.toks(), o));
                if len == M { cx.out.check(r.as_ref().ok() == Some(&inp), &format!("as-array-from-cast-values:{}:{}", fmt, key), || format!("{} -> {:?}", input.toks(), r)); }
            }
        }
    }
    cx.out.count("cls:as-array");
}

/// `palette::serde::as_uint`
fn uint_helper<X, U>(cx: &mut Cx, what: &str, x: X)
where X: UintCast<Uint = U> + Copy, U: Copy + Into<u64> + PartialEq + Debug, AsUint<X>: Serialize + DeserializeOwned {
    let u: U = cast::into_uint(x);
    let un: u64 = u.into();
    let (node, js, rn) = texts(&AsUint(x));
    if let Some(n) = &node { cx.out.case(&format!("uint ser | {} | {}", un, n.tok())); }
    for (fmt, text) in [("json", js), ("ron", rn)] {
        match text {
            Some(t) => {
                cx.out.case(&format!("uint {} | {} | {}", fmt, un, t));
                // the unsigned-integer form is the number `cast::into_uint` gives, and reads back through `cast::from_uint`
                cx.out.check(t == un.to_string(), &format!("as-uint-value:{}:{}", fmt, what), || format!("{} serialized as {}", un, t));
                let back = guarded(|| if fmt == "json" { serde_json::from_str::<AsUint<X>>(&t).ok() } else { ron::from_str::<AsUint<X>>(&t).ok() }).flatten().map(|b| cast::into_uint(b.0));
                cx.out.check(back == Some(cast::into_uint(cast::from_uint::<X>(u))), &format!("as-uint-roundtrip:{}:{}", fmt, what), || format!("{} -> {} -> {:?}", un, t, back));
            }
            None => cx.out.check(false, &format!("as-uint-value:{}:{}", fmt, what), || format!("{} failed to serialize", un)),
        }
    }
    if cx.rng.chance(0.1) {
        for input in [GIn::Val(GV::U(un)), GIn::Val(GV::Other), GIn::Seq(vec![GV::U(un)])] {
            for fmt in ["json", "tree"] {
                let r = de_fmt::<AsUint<X>>(fmt, &input).map(|b| { let v: u64 = cast::into_uint(b.0).into(); v.to_string() });
                cx.out.case(&format!("uintde {} | {} | {}", fmt, input.toks(), match &r { Ok(s) => format!("ok {}", s), Err(e) => e.clone() }));
            }
        }
    }
    cx.out.count("cls:as-uint");
}

/// a hue on its own
fn hue<H, T: Comp>(cx: &mut Cx, ty: &str, mk: impl Fn(T) -> H, get: impl Fn(&H) -> T)
where H: Serialize + DeserializeOwned {
    for it in 0..cx.n {
        let x = T::gen(&mut cx.rng);
        let h = mk(x);
        let (gj, gr) = ser_all::<H, T>(cx, ty, "plain", &h, &[x], |b| get(b).tok() == x.tok());
        for (fmt, g) in [("json", gj), ("ron", gr)] {
            if let Some(g) = g { cx.out.check(g.is_num(), &format!("hue-bare:{}:{}:{}", fmt, ty, T::TAG), || format!("{} serialized as {}", x.tok(), g.tok())); }
        }
        if it < cx.n_de {
            for input in [GIn::Val(x.gv()), GIn::Seq(vec![x.gv()]), GIn::Val(GV::Other), GIn::Seq(vec![x.gv(), x.gv()])] {
                for fmt in ["json", "ron", "tree"] {
                    let r = de_fmt::<H>(fmt, &input).map(|b| get(&b).tok());
                    cx.out.case(&format!("de {} {} {} plain | {} | {}", fmt, ty, T::TAG, input.toks(), match &r { Ok(s) => format!("ok {}", s), Err(_) => "err".into() }));
                    // a bare number is a hue
                    if matches!(input, GIn::Val(GV::F32(_)) | GIn::Val(GV::F64(_)) | GIn::Val(GV::U(_))) {
                        cx.out.check(r.as_ref().ok() == Some(&x.tok()), &format!("hue-from-bare-number:{}:{}:{}", fmt, ty, T::TAG), || format!("{} -> {:?}", input.toks(), r));
                    }
                }
            }
        }
    }
}

/// the type-level metadata is not part of the output: two types differing only in it give identical text
fn metadata_independent<A: Serialize, B: Serialize>(cx: &mut Cx, what: &str, a: &A, b: &B) {
    let (ta, tb) = (texts(a), texts(b));
    cx.out.check(ta.1.is_some() && ta.1 == tb.1 && ta.2.is_some() && ta.2 == tb.2 && ta.0.is_some() && ta.0 == tb.0, &format!("metadata-independent:{}", what), || format!("{:?} vs {:?}", ta.1, tb.1));
}

#[derive(Serialize, Deserialize)]
struct FlattenHost<C> { #[serde(flatten)] color: C, id: u8 }

macro_rules! floats { ($cx:expr, $name:literal, $ty:ident < $($p:ty),* >) => {
    colour::<ty::$ty<$($p,)* f32>, f32, Alpha<ty::$ty<$($p,)* f32>, f32>, OptA<ty::$ty<$($p,)* f32>, f32>, { <<ty::$ty<$($p,)* f32> as ArrayCast>::Array as Len>::N }>($cx, $name);
    colour::<ty::$ty<$($p,)* f64>, f64, Alpha<ty::$ty<$($p,)* f64>, f64>, OptA<ty::$ty<$($p,)* f64>, f64>, { <<ty::$ty<$($p,)* f64> as ArrayCast>::Array as Len>::N }>($cx, $name);
    colour::<ty::$ty<$($p,)* u8>, u8, Alpha<ty::$ty<$($p,)* u8>, u8>, OptA<ty::$ty<$($p,)* u8>, u8>, { <<ty::$ty<$($p,)* u8> as ArrayCast>::Array as Len>::N }>($cx, $name);
} }
macro_rules! pre { ($cx:expr, $name:literal, $ty:ident < $($p:ty),* >) => {
    colour::<ty::$ty<$($p,)* f32>, f32, PreAlpha<ty::$ty<$($p,)* f32>>, OptP<ty::$ty<$($p,)* f32>, f32>, { <<ty::$ty<$($p,)* f32> as ArrayCast>::Array as Len>::N }>($cx, $name);
    colour::<ty::$ty<$($p,)* f64>, f64, PreAlpha<ty::$ty<$($p,)* f64>>, OptP<ty::$ty<$($p,)* f64>, f64>, { <<ty::$ty<$($p,)* f64> as ArrayCast>::Array as Len>::N }>($cx, $name);
} }
trait Len { const N: usize; }
impl<T, const K: usize> Len for [T; K] { const N: usize = K; }

macro_rules! hues { ($cx:expr, $($h:ident),*) => { $(
    hue::<ty::$h<f32>, f32>($cx, stringify!($h), ty::$h::new, |h| h.into_inner());
    hue::<ty::$h<f64>, f64>($cx, stringify!($h), ty::$h::new, |h| h.into_inner());
    hue::<ty::$h<u8>, u8>($cx, stringify!($h), ty::$h::new, |h| h.into_inner());
)* } }

pub fn run(tier: &str, seed: u64, dir: &str) {
    let thorough = tier == "thorough";
    let mut cx = Cx { out: Out::new("C20", dir), rng: Rng::new(seed), n: if thorough { 1500 } else { 120 }, n_de: if thorough { 60 } else { 6 }, types_seen: vec![], bounded_alpha_missing: 0, flatten_missing: 0 };
    type S = encoding::Srgb;
    type M = palette::lms::matrix::VonKries;
    // every serializable colour type x {f32, f64, u8} x {plain, Alpha}, and PreAlpha where `Premultiply` exists (floats)
    floats!(&mut cx, "Rgb", Rgb<S>); floats!(&mut cx, "Luma", Luma<S>);
    floats!(&mut cx, "Hsl", Hsl<S>); floats!(&mut cx, "Hsv", Hsv<S>); floats!(&mut cx, "Hwb", Hwb<S>);
    floats!(&mut cx, "Xyz", Xyz<D65>); floats!(&mut cx, "Yxy", Yxy<D65>); floats!(&mut cx, "Lab", Lab<D65>); floats!(&mut cx, "Lch", Lch<D65>);
    floats!(&mut cx, "Luv", Luv<D65>); floats!(&mut cx, "Lchuv", Lchuv<D65>); floats!(&mut cx, "Hsluv", Hsluv<D65>);
    floats!(&mut cx, "Oklab", Oklab<>); floats!(&mut cx, "Oklch", Oklch<>); floats!(&mut cx, "Okhsl", Okhsl<>); floats!(&mut cx, "Okhsv", Okhsv<>); floats!(&mut cx, "Okhwb", Okhwb<>);
    floats!(&mut cx, "Lms", Lms<M>); floats!(&mut cx, "Cam16UcsJab", Cam16UcsJab<>); floats!(&mut cx, "Cam16UcsJmh", Cam16UcsJmh<>);
    let n_types = cx.types_seen.len();
    cx.out.case(&format!("ntypes | {} |", n_types));
    pre!(&mut cx, "Rgb", Rgb<encoding::Linear<S>>); pre!(&mut cx, "Luma", Luma<encoding::Linear<S>>); pre!(&mut cx, "Xyz", Xyz<D50>); pre!(&mut cx, "Yxy", Yxy<D65>);
    pre!(&mut cx, "Lab", Lab<D50>); pre!(&mut cx, "Luv", Luv<D65>); pre!(&mut cx, "Oklab", Oklab<>); pre!(&mut cx, "Lms", Lms<M>); pre!(&mut cx, "Cam16UcsJab", Cam16UcsJab<>);
    // other standards / white points through the plain + Alpha route as well
    floats!(&mut cx, "Rgb", Rgb<encoding::AdobeRgb>); floats!(&mut cx, "Lch", Lch<D50>); floats!(&mut cx, "Hsv", Hsv<encoding::Rec2020>);
    hues!(&mut cx, RgbHue, LabHue, LuvHue, OklabHue, Cam16Hue);
    for t in ["f32", "f64", "u8"] { let m = match t { "f32" => <f32 as Stimulus>::max_intensity().tok(), "f64" => <f64 as Stimulus>::max_intensity().tok(), _ => <u8 as Stimulus>::max_intensity().tok() }; cx.out.case(&format!("maxint {} | | {}", t, m)); }

    // ---- metadata independence + helpers
    let n = cx.n * 4;
    for _ in 0..n {
        let (r, g, b, a) = (f32::gen(&mut cx.rng), f32::gen(&mut cx.rng), f32::gen(&mut cx.rng), f32::gen(&mut cx.rng));
        metadata_independent(&mut cx, "Rgb<Srgb>~Rgb<AdobeRgb>", &ty::Rgb::<S, f32>::new(r, g, b), &ty::Rgb::<encoding::AdobeRgb, f32>::new(r, g, b));
        metadata_independent(&mut cx, "Rgba<Srgb>~Rgba<Linear>", &palette::Srgba::new(r, g, b, a), &palette::LinSrgba::new(r, g, b, a));
        metadata_independent(&mut cx, "Lab<D65>~Lab<D50>", &palette::Lab::<D65, f32>::new(r, g, b), &palette::Lab::<D50, f32>::new(r, g, b));
        metadata_independent(&mut cx, "Hsv<Srgb>~Hsv<Rec2020>", &palette::Hsv::<S, f32>::new(r, g, b), &palette::Hsv::<encoding::Rec2020, f32>::new(r, g, b));
        metadata_independent(&mut cx, "Luma<Srgb>~Luma<Linear>", &palette::SrgbLuma::new(r), &palette::LinLuma::<D65, f32>::new(r));
        let (rd, gd, bd, ad) = (f64::gen(&mut cx.rng), f64::gen(&mut cx.rng), f64::gen(&mut cx.rng), f64::gen(&mut cx.rng));
        let (r8, g8, b8, a8) = (u8::gen(&mut cx.rng), u8::gen(&mut cx.rng), u8::gen(&mut cx.rng), u8::gen(&mut cx.rng));
        array_helper::<_, f32, 3>(&mut cx, "Srgb", palette::Srgb::new(r, g, b));
        array_helper::<_, f32, 4>(&mut cx, "Srgba", palette::Srgba::new(r, g, b, a));
        array_helper::<_, f64, 4>(&mut cx, "Hsva", palette::Hsva::new_srgb(rd, gd, bd, ad));
        array_helper::<_, f64, 3>(&mut cx, "Lch", palette::Lch::<D65, f64>::new(rd, gd, bd));
        array_helper::<_, u8, 4>(&mut cx, "Srgba", palette::Srgba::new(r8, g8, b8, a8));
        array_helper::<_, u8, 3>(&mut cx, "Hsl", palette::Hsl::new_srgb(r8, g8, b8));
        array_helper::<_, f32, 4>(&mut cx, "PreAlpha<LinSrgb>", PreAlpha { color: palette::LinSrgb::new(r, g, b), alpha: a });
        array_helper::<_, f32, 2>(&mut cx, "Lumaa", palette::SrgbLumaa::new(r, a));
        array_helper::<_, f64, 1>(&mut cx, "Luma", palette::SrgbLuma::new(rd));
        let c8 = palette::Srgba::new(r8, g8, b8, a8);
        uint_helper::<palette::rgb::PackedRgba, u32>(&mut cx, "PackedRgba", c8.into());
        uint_helper::<palette::rgb::PackedArgb, u32>(&mut cx, "PackedArgb", c8.into());
        uint_helper::<palette::rgb::PackedBgra, u32>(&mut cx, "PackedBgra", c8.into());
        uint_helper::<palette::rgb::PackedAbgr, u32>(&mut cx, "PackedAbgr", c8.into());
        uint_helper::<palette::SrgbLuma<u8>, u8>(&mut cx, "Luma<u8>", palette::SrgbLuma::new(r8));
        uint_helper::<palette::SrgbLuma<u16>, u16>(&mut cx, "Luma<u16>", palette::SrgbLuma::new(u16::from(r8) << 8 | u16::from(g8)));
        let r32 = cx.rng.next() as u32;
        uint_helper::<palette::SrgbLuma<u32>, u32>(&mut cx, "Luma<u32>", palette::SrgbLuma::new(r32));
        // informational only: `#[serde(flatten)]` of a colour with alpha inside a user struct (outside the property's quantifier)
        let host = FlattenHost { color: palette::Srgba::new(r, g, b, a), id: 7 };
        if let Ok(js) = serde_json::to_string(&host) { if serde_json::from_str::<FlattenHost<palette::Srgba<f32>>>(&js).is_err() { cx.flatten_missing += 1; } }
    }
    // coverage audit: shapes, alpha types, helper names / types, format entry points and identifier kinds the clauses above do not drive
    // (`c20_more.rs`).  Called last, so that the case stream above is unchanged.
    crate::c20_more::run_more(&mut cx.out, &mut cx.rng, thorough);
    let extra = format!("\"info\":{{\"types\":{},\"bounded_sequence_reader_loses_alpha\":{},\"serde_flatten_host_loses_alpha\":{}}}", n_types, cx.bounded_alpha_missing, cx.flatten_missing);
    cx.out.finish(dir, &extra);
}
