//! C19 — coverage audit (AUDIT_C19.md): surfaces inside the property's quantifier that `c19.rs` does not drive.
//!
//!  * ENTRY POINTS of a uniform sampler other than `Uniform::new(lo, hi).sample(rng)` on owned ends: the trait methods
//!    `UniformSampler::sample_single` / `sample_single_inclusive` (rand gives them a forwarding default that an `impl` may replace),
//!    `Uniform::from(lo..hi)` / `from(lo..=hi)`, borrowed ends (`SampleBorrow` through `&C`), the sampler type used directly
//!    (`<C as SampleUniform>::Sampler`), an unsized generator (`&mut dyn RngCore`, the `?Sized` in every signature), `rng.sample(&s)` and
//!    `sample_iter`; of the standard distribution other than `rng.gen()`: `Standard.sample`, `rng.sample(Standard)`, `sample_iter`,
//!    `dyn RngCore`, arrays of colours.  Every sampled colour type x f32/f64 x plain/`Alpha`, and the five bare hue types.
//!  * TYPE PARAMETERS other than the defaults: RGB standards (linear sRGB, Adobe RGB, Rec. 2020, DCI-P3) for Rgb/Hsv/Hsl/Hwb,
//!    linear luma, white points D50 / A for Lab/Luv/Lch/Lchuv/Hsluv/Yxy/Xyz (Xyz: uniform sampler too, and its white point goes into the
//!    protocol line), the von Kries matrix for Lms; the four `*Degree10` white points for standard samples of Xyz.
//!  * `Alpha<C, A>` whose alpha type `A` differs from the colour's component type.
//!  * END POINTS outside the nominal range of a component (all low/high end points): heights below 0 and above the maximum, radii above
//!    the maximum, hues many turns away from [0, 360).
//!  * the volume clause as a JOINT statement: 4x4x4 bins of (height CDF, radius CDF, hue along the arc) - the marginal bins of `c19.rs`
//!    cannot see components that are individually right but drawn from one another - and the hue marginal of the cone/bicone colours.
//!
//! Oracle clauses are the property's own predicates of `c19.rs` (`check_uniform`, `check_standard`, `on_arc`) under a tag
//! `<type>:<float>:<surface>`; tolerances are those of the sibling clauses.  Bicone end points stay below 0.8 of the lightness scale here:
//! the listed finding `C19-bicone-apex-cancellation` is matched by clause name for the plain forms only, and it is a property of the
//! end points, not of the entry point.  Protocol lines: `smpuni` / `smpstd` exactly as in `c19.rs` (every surface here consumes the
//! generator like the plain form, and the model is generic in the phantom parameters).
use crate::c19::{check_standard, check_uniform, gen_ends, hue_pairs, n_draws, on_arc, real_rng, Ends, Fam, Flt, Sampled, Script};
#[allow(unused_imports)] use crate::c19::{getc, namec, sampled, xyz_white_points};
use crate::common::*;
use palette::convert::FromColorUnclamped;
use palette::white_point::{WhitePoint, D65};
use palette::{Alpha, IsWithinBounds};
use rand::distributions::uniform::{SampleUniform, Uniform, UniformSampler};
use rand::distributions::{Distribution, Standard};
use rand::{Rng as _, RngCore};
use std::panic::{catch_unwind, AssertUnwindSafe};

// ------------------------------------------------------------------------------------------------ entry points
pub const UFORMS: [&str; 7] = ["sample_single", "from-range", "borrowed-ends", "sampler-direct", "dyn-rng", "rng-sample-ref", "by-value"];
pub const SFORMS: [&str; 6] = ["Standard.sample", "rng.sample(Standard)", "sample_iter", "dyn-rng", "array", "rng.gen"];

/// `n` draws from the uniform sampler between `lo` and `hi`, reached through entry point `form`
fn draw_uniform<X: SampleUniform + Clone, R: RngCore>(form: usize, incl: bool, lo: &X, hi: &X, r: &mut R, n: usize) -> Vec<X> {
    match form {
        0 => (0..n).map(|_| if incl { <X::Sampler as UniformSampler>::sample_single_inclusive(lo.clone(), hi.clone(), r) } else { <X::Sampler as UniformSampler>::sample_single(lo.clone(), hi.clone(), r) }).collect(),
        1 => { let s: Uniform<X> = if incl { Uniform::from(lo.clone()..=hi.clone()) } else { Uniform::from(lo.clone()..hi.clone()) }; (0..n).map(|_| s.sample(r)).collect() }
        2 => { let s: Uniform<X> = if incl { Uniform::new_inclusive(lo, hi) } else { Uniform::new(lo, hi) }; (0..n).map(|_| s.sample(r)).collect() }
        3 => { let s: X::Sampler = if incl { <X::Sampler as UniformSampler>::new_inclusive(lo.clone(), hi.clone()) } else { <X::Sampler as UniformSampler>::new(lo.clone(), hi.clone()) }; (0..n).map(|_| UniformSampler::sample(&s, r)).collect() }
        4 => { let rr: &mut dyn RngCore = r; let s: Uniform<X> = if incl { Uniform::new_inclusive(lo.clone(), hi.clone()) } else { Uniform::new(lo.clone(), hi.clone()) }; (0..n).map(|_| s.sample(rr)).collect() }
        5 => { let s: Uniform<X> = if incl { Uniform::new_inclusive(lo.clone(), hi.clone()) } else { Uniform::new(lo.clone(), hi.clone()) };
               let mut v: Vec<X> = (0..(n + 1) / 2).map(|_| r.sample(&s)).collect(); v.extend((&s).sample_iter(&mut *r).take(n / 2)); v }
        _ => { let s: Uniform<X> = if incl { Uniform::new_inclusive(lo.clone(), hi.clone()) } else { Uniform::new(lo.clone(), hi.clone()) }; (0..n).map(|_| s.sample(r)).collect() }
    }
}

/// at least `n` draws from the standard distribution, reached through entry point `form` (in generator order)
fn draw_standard<X, R: RngCore>(form: usize, r: &mut R, n: usize) -> Vec<X> where Standard: Distribution<X> + Distribution<[X; 3]> {
    match form {
        0 => (0..n).map(|_| Standard.sample(r)).collect(),
        1 => (0..n).map(|_| r.sample(Standard)).collect(),
        2 => Standard.sample_iter(&mut *r).take(n).collect(),
        3 => { let rr: &mut dyn RngCore = r; (0..n).map(|_| rr.gen::<X>()).collect() }
        4 => { let mut v = Vec::new(); while v.len() < n { let a = r.gen::<[X; 3]>(); v.extend(a); } v }
        _ => (0..n).map(|_| r.gen::<X>()).collect(),
    }
}

/// keeps bicone lightness ends away from the upper apex (see the module comment)
fn apex_safe<T: Flt, C: Sampled<T>>(e: &mut Ends<T>, equal: bool, incl: bool) where Standard: Distribution<C> + Distribution<T> {
    if C::FAM != Fam::HslBicone { return; }
    let (l, h) = (T::of(e.lo[2].to64() * 0.8), T::of(e.hi[2].to64() * 0.8));
    if equal || l < h || (incl && l <= h) { e.lo[2] = l; e.hi[2] = h; } else { e.lo[2] = T::of(0.1 * C::HSCALE); e.hi[2] = T::of(0.7 * C::HSCALE); }
}

/// Every entry point of both distributions for one colour type; `label` names the type with its parameters, `w` is the white point that
/// the model is to use for Xyz (ignored by every other type).
fn drive<T: Flt, C: Sampled<T> + 'static>(out: &mut Out, rng: &mut Rng, deep: bool, label: &str, w: [T; 3], uforms: &[usize], sforms: &[usize])
where Standard: Distribution<C> + Distribution<T> + Distribution<Alpha<C, T>> + Distribution<[C; 3]> + Distribution<[Alpha<C, T>; 3]>, Alpha<C, T>: SampleUniform, T: Clone {
    let k = n_draws::<T, C>();
    let u01 = Uniform::<T>::new(T::of(0.0), T::of(1.0));
    // ---- Standard
    for &f in sforms {
        let tag = format!("{}:{}:{}", label, T::TAG, SFORMS[f]);
        for j in 0..(if deep { 12 } else { 3 }) {
            let mut sc = match j { 0 => Script::Mix(Rng::new(rng.next())), _ => Script::Count(rng.next(), rng.next() | 1) };
            let mut cl = sc.clone();
            let c: C = draw_standard::<C, _>(f, &mut sc, 1).swap_remove(0);
            let g: Vec<T> = (0..k).map(|_| cl.gen::<T>()).collect();
            out.case(&format!("smpstd {} {} plain | {} {} | {}", C::NAME, T::TAG, hx_list(&w), hx_list(&g), hx_list(&c.comps())));
            check_standard::<T, C>(out, &c, &tag);
            let mut sc = Script::Mix(Rng::new(rng.next()));
            let mut cl = sc.clone();
            let a: Alpha<C, T> = draw_standard::<Alpha<C, T>, _>(f, &mut sc, 1).swap_remove(0);
            let g: Vec<T> = (0..k + 1).map(|_| cl.gen::<T>()).collect();
            out.case(&format!("smpstd {} {} alpha | {} {} | {} {}", C::NAME, T::TAG, hx_list(&w), hx_list(&g), hx_list(&a.color.comps()), a.alpha.hx()));
            check_standard::<T, C>(out, &a.color, &tag);
        }
        let mut r = real_rng(f as u64, rng.next());
        let n = if deep { 4000 } else { 400 };
        for c in draw_standard::<C, _>(f, &mut r, n) { check_standard::<T, C>(out, &c, &tag); }
        for a in draw_standard::<Alpha<C, T>, _>(f, &mut r, n / 4) {
            check_standard::<T, C>(out, &a.color, &tag);
            out.check(T::of(0.0) <= a.alpha && a.alpha < T::of(1.0), &format!("standard-alpha-in-unit:{}", tag), || format!("alpha {:?}", a.alpha));
        }
        out.count_n(&format!("cls:more-standard:{}", SFORMS[f]), (n + n / 4) as u64);
    }
    // ---- Uniform
    for &f in uforms {
        let tag = format!("{}:{}:{}", label, T::TAG, UFORMS[f]);
        for j in 0..(if deep { 48 } else { 12 }) {
            let incl = j % 2 == 1;
            let equal = incl && j % 6 == 5;
            let mut e = gen_ends::<T, C>(rng, incl, equal);
            apex_safe::<T, C>(&mut e, equal, incl);
            let (lo, hi) = (C::make(&e.lo), C::make(&e.hi));
            let (alo, ahi) = (Alpha { color: lo.clone(), alpha: e.alo }, Alpha { color: hi.clone(), alpha: e.ahi });
            let ctx = format!("{} {} {:?}..{}{:?}", UFORMS[f], if incl { "inclusive" } else { "half-open" }, e.lo, if incl { "=" } else { "" }, e.hi);
            let kind = if incl { "incl" } else { "new" };
            // correspondence on scripted words
            let mut sc = if j % 3 == 0 { Script::Count(rng.next(), rng.next() | 1) } else { Script::Mix(Rng::new(rng.next())) };
            let mut sc2 = sc.clone();
            let mut cl = sc.clone();
            let us: Vec<T> = (0..k + 1).map(|_| u01.sample(&mut cl)).collect();
            let head = format!("smpuni {} {} {} plain | {} {} {} |", C::NAME, T::TAG, kind, hx_list(&e.lo), hx_list(&e.hi), hx_list(&us[..k]));
            match catch_unwind(AssertUnwindSafe(|| draw_uniform::<C, _>(f, incl, &lo, &hi, &mut sc, 1).swap_remove(0))) {
                Ok(c) => { out.case(&format!("{} {}", head, hx_list(&c.comps()))); check_uniform::<T, C>(out, &e, &c, &tag, &ctx); }
                Err(_) => { out.case(&format!("{} panic", head)); out.count("cls:more-scripted-rand-precondition-panic"); }
            }
            let head = format!("smpuni {} {} {} alpha | {} {} {} {} {} |", C::NAME, T::TAG, kind, hx_list(&e.lo), e.alo.hx(), hx_list(&e.hi), e.ahi.hx(), hx_list(&us));
            match catch_unwind(AssertUnwindSafe(|| draw_uniform::<Alpha<C, T>, _>(f, incl, &alo, &ahi, &mut sc2, 1).swap_remove(0))) {
                Ok(a) => { out.case(&format!("{} {} {}", head, hx_list(&a.color.comps()), a.alpha.hx())); check_uniform::<T, C>(out, &e, &a.color, &tag, &ctx);
                           out.check(e.alo <= a.alpha && a.alpha <= e.ahi, &format!("alpha-between-ends:{}", tag), || format!("{} alpha {:?} not in [{:?}, {:?}]", ctx, a.alpha, e.alo, e.ahi)); }
                Err(_) => { out.case(&format!("{} panic", head)); out.count("cls:more-scripted-rand-precondition-panic"); }
            }
            // oracle on real streams
            let mut r = real_rng(j as u64, rng.next());
            let n = if deep { 100 } else { 24 };
            match catch_unwind(AssertUnwindSafe(|| (draw_uniform::<C, _>(f, incl, &lo, &hi, &mut r, n), draw_uniform::<Alpha<C, T>, _>(f, incl, &alo, &ahi, &mut r, n / 3)))) {
                Ok((v, va)) => {
                    for c in &v { check_uniform::<T, C>(out, &e, c, &tag, &ctx); }
                    for a in &va { check_uniform::<T, C>(out, &e, &a.color, &tag, &ctx);
                        out.check(e.alo <= a.alpha && a.alpha <= e.ahi, &format!("alpha-between-ends:{}", tag), || format!("{} alpha {:?} not in [{:?}, {:?}]", ctx, a.alpha, e.alo, e.ahi)); }
                    out.count_n(&format!("cls:more-uniform:{}", UFORMS[f]), (v.len() + va.len()) as u64);
                }
                // ordered ends: rand's precondition holds, nothing may panic
                Err(_) => out.check(false, &format!("no-panic-on-ordered-ends:{}", tag), || ctx.clone()),
            }
        }
    }
}

// ------------------------------------------------------------------------------------------------ end points outside the nominal ranges
/// Ends whose heights lie below 0 / above the maximum, whose radii lie above the maximum and whose hues are written whole turns away.
/// HWB forms are left to `c19.rs` (their ends must satisfy w + b <= 1).  Bicone heights stay below 0.8 of the scale (module comment).
fn extended_ends<T: Flt, C: Sampled<T> + 'static>(out: &mut Out, rng: &mut Rng, deep: bool)
where Standard: Distribution<C> + Distribution<T>, T: Clone {
    if C::FAM == Fam::HwbCone { return; }
    let tag = format!("{}:{}:extended-ends", C::NAME, T::TAG);
    let names = C::names(); let ranges = C::ranges();
    let k = n_draws::<T, C>();
    let u01 = Uniform::<T>::new(T::of(0.0), T::of(1.0));
    for j in 0..(if deep { 600 } else { 100 }) {
        let incl = j % 2 == 1;
        let mut lo = vec![]; let mut hi = vec![];
        for i in 0..names.len() {
            let (rl, rh) = ranges[i]; let wd = rh - rl;
            if names[i] == "hue" {
                let (a, b) = hue_pairs(rng, incl);
                let (ta, tb) = if a == b { let t = rng.below(21) as f64 - 10.0; (t, t) } else { (-(rng.below(11) as f64), rng.below(11) as f64) };
                // the arc is the one from a to b; the representatives differ by whole turns (raw low < raw high is kept)
                lo.push(T::of(a + 360.0 * ta)); hi.push(T::of(b + 360.0 * tb));
                if !(lo[i] < hi[i]) && !(incl && lo[i] <= hi[i]) { lo[i] = T::of(a - 3600.0); hi[i] = T::of(a + 10.0 + 3600.0); }
                continue;
            }
            let radius = C::FAM != Fam::Cartesian && i == 1;
            let (xl, xh) = if radius { (0.0, 3.0 * rh) } else if C::FAM == Fam::HslBicone { (-0.5 * C::HSCALE, 0.8 * C::HSCALE) } else { (rl - 0.5 * wd, rh + 0.5 * wd) };
            let (a, b) = (rng.range(xl, xh), rng.range(xl, xh));
            let (a, b) = if (a - b).abs() < 1e-3 * wd { (xl, xh) } else if a < b { (a, b) } else { (b, a) };
            lo.push(T::of(a)); hi.push(T::of(b));
        }
        let e = Ends { lo, hi, alo: T::of(0.0), ahi: T::of(1.0) };
        let (l, h) = (C::make(&e.lo), C::make(&e.hi));
        let ctx = format!("{} {:?}..{}{:?}", if incl { "new_inclusive" } else { "new" }, e.lo, if incl { "=" } else { "" }, e.hi);
        let mut sc = Script::Mix(Rng::new(rng.next())); let mut cl = sc.clone();
        let us: Vec<T> = (0..k).map(|_| u01.sample(&mut cl)).collect();
        let head = format!("smpuni {} {} {} plain | {} {} {} |", C::NAME, T::TAG, if incl { "incl" } else { "new" }, hx_list(&e.lo), hx_list(&e.hi), hx_list(&us));
        match catch_unwind(AssertUnwindSafe(|| draw_uniform::<C, _>(6, incl, &l, &h, &mut sc, 1).swap_remove(0))) {
            Ok(c) => { out.case(&format!("{} {}", head, hx_list(&c.comps()))); check_uniform::<T, C>(out, &e, &c, &tag, &ctx); }
            Err(_) => { out.case(&format!("{} panic", head)); out.count("cls:more-scripted-rand-precondition-panic"); }
        }
        let mut r = real_rng(j as u64, rng.next());
        match catch_unwind(AssertUnwindSafe(|| draw_uniform::<C, _>(6, incl, &l, &h, &mut r, if deep { 100 } else { 40 }))) {
            Ok(v) => { for c in &v { check_uniform::<T, C>(out, &e, c, &tag, &ctx); } out.count_n("cls:more-extended-ends", v.len() as u64); }
            Err(_) => out.check(false, &format!("no-panic-on-ordered-ends:{}", tag), || ctx.clone()),
        }
    }
}

// ------------------------------------------------------------------------------------------------ joint volume bins
/// Cone / bicone colours: 4x4x4 bins of (height CDF, radius CDF, hue along the arc) and 12 bins of the hue alone.  SUPPORT ONLY, like the
/// marginal bins of `c19.rs`: 63 degrees of freedom have mean 63 and sigma 11.2, the alarm is at 200 (> 12 sigma); 11 d.o.f.: alarm at 70.
fn joint_volume<T: Flt, C: Sampled<T> + 'static>(out: &mut Out, rng: &mut Rng, deep: bool)
where Standard: Distribution<C> + Distribution<T>, T: Clone {
    if C::FAM == Fam::Cartesian || C::FAM == Fam::Cylinder { return; }
    let tag = format!("{}:{}", C::NAME, T::TAG);
    let n = if deep { 200_000 } else { 20_000 };
    let hs = C::HSCALE;
    let unit = |c: &C| -> (f64, f64, f64) { let x = c.comps(); match c.hsv_equiv() { Some((s, v)) => (s.to64(), v.to64(), x[0].to64()), None => (x[1].to64() / hs, x[2].to64() / hs, x[0].to64()) } };
    let cdf_h = |h: f64| -> f64 { if C::FAM == Fam::HslBicone { if h <= 0.5 { 4.0 * h * h * h } else { 1.0 - 4.0 * (1.0 - h).powi(3) } } else { h * h * h } };
    // (label, low (s, h, hue), high (s, h, hue))
    for (label, lo_u, hi_u) in [("standard", (0.0, 0.0, 0.0), (1.0, 1.0, 360.0)), ("uniform-sub", (0.2, 0.3, 300.0), (0.9, 0.8, 420.0))] {
        let mut r = real_rng(if label == "standard" { 0 } else { 1 }, rng.next());
        let sampler = if label == "standard" { None } else {
            let mk = |s: f64, h: f64, hue: f64| -> C { if C::FAM == Fam::HwbCone { C::make(&[T::of(hue), T::of((1.0 - s) * h), T::of(1.0 - h)]) } else { C::make(&[T::of(hue), T::of(s * hs), T::of(h * hs)]) } };
            Some(Uniform::new(mk(lo_u.0, lo_u.1, lo_u.2), mk(hi_u.0, hi_u.1, hi_u.2)))
        };
        let (f_lo, f_hi) = (cdf_h(lo_u.1), cdf_h(hi_u.1));
        let (g_lo, g_hi) = (lo_u.0 * lo_u.0, hi_u.0 * hi_u.0);
        let mut joint = [0u64; 64]; let mut hue_bins = [0u64; 12];
        for _ in 0..n {
            let c: C = match &sampler { None => r.gen(), Some(s) => s.sample(&mut r) };
            let (s, h, hue) = unit(&c);
            let ph = ((cdf_h(h) - f_lo) / (f_hi - f_lo)).clamp(0.0, 0.999999);
            let ps = ((s * s - g_lo) / (g_hi - g_lo)).clamp(0.0, 0.999999);
            let pt = ((hue - lo_u.2).rem_euclid(360.0) / (hi_u.2 - lo_u.2)).clamp(0.0, 0.999999);
            joint[(ph * 4.0) as usize * 16 + (ps * 4.0) as usize * 4 + (pt * 4.0) as usize] += 1;
            hue_bins[(pt * 12.0) as usize] += 1;
        }
        let chi = |bins: &[u64]| -> f64 { let exp = n as f64 / bins.len() as f64; bins.iter().map(|&b| { let d = b as f64 - exp; d * d / exp }).sum() };
        let (cj, ch) = (chi(&joint), chi(&hue_bins));
        out.maxi(&format!("support:chi2-63dof-joint:{}:{}", tag, label), cj);
        out.maxi(&format!("support:chi2-11dof-hue:{}:{}", tag, label), ch);
        out.check(cj < 200.0, &format!("support-volume-joint-bins-uniform:{}", tag), || format!("{} (height CDF x radius CDF x hue, 4x4x4) chi2 = {} bins {:?}", label, cj, joint));
        out.check(ch < 70.0, &format!("support-volume-hue-bins-uniform:{}", tag), || format!("{} hue chi2 = {} bins {:?}", label, ch, hue_bins));
    }
}

// ------------------------------------------------------------------------------------------------ other type parameters
type Lin = palette::encoding::Linear<palette::encoding::Srgb>;
type Adobe = palette::encoding::AdobeRgb;
type R2020 = palette::encoding::Rec2020;
type P3 = palette::encoding::DciP3;
type LinL = palette::encoding::Linear<D65>;
type D50 = palette::white_point::D50;
type WpA = palette::white_point::A;
type VonK = palette::lms::matrix::VonKries;

macro_rules! alt_types { ($t:ty) => {
    sampled!($t, palette::rgb::Rgb<Lin, $t>, "Rgb", Fam::Cartesian, 1.0, [c red, c green, c blue], |a| palette::rgb::Rgb::new(a[0], a[1], a[2]),
        bounds [(0, palette::rgb::Rgb::<Lin, $t>::min_red(), Some(palette::rgb::Rgb::<Lin, $t>::max_red())), (1, palette::rgb::Rgb::<Lin, $t>::min_green(), Some(palette::rgb::Rgb::<Lin, $t>::max_green())), (2, palette::rgb::Rgb::<Lin, $t>::min_blue(), Some(palette::rgb::Rgb::<Lin, $t>::max_blue()))],
        ranges [(0, 1), (0, 1), (0, 1)]);
    sampled!($t, palette::rgb::Rgb<Adobe, $t>, "Rgb", Fam::Cartesian, 1.0, [c red, c green, c blue], |a| palette::rgb::Rgb::new(a[0], a[1], a[2]),
        bounds [(0, palette::rgb::Rgb::<Adobe, $t>::min_red(), Some(palette::rgb::Rgb::<Adobe, $t>::max_red())), (1, palette::rgb::Rgb::<Adobe, $t>::min_green(), Some(palette::rgb::Rgb::<Adobe, $t>::max_green())), (2, palette::rgb::Rgb::<Adobe, $t>::min_blue(), Some(palette::rgb::Rgb::<Adobe, $t>::max_blue()))],
        ranges [(0, 1), (0, 1), (0, 1)]);
    sampled!($t, palette::luma::Luma<LinL, $t>, "Luma", Fam::Cartesian, 1.0, [c luma], |a| palette::luma::Luma::new(a[0]),
        bounds [(0, palette::luma::Luma::<LinL, $t>::min_luma(), Some(palette::luma::Luma::<LinL, $t>::max_luma()))], ranges [(0, 1)]);
    sampled!($t, palette::Lab<D50, $t>, "Lab", Fam::Cartesian, 100.0, [c l, c a, c b], |a| palette::Lab::new(a[0], a[1], a[2]),
        bounds [(0, palette::Lab::<D50, $t>::min_l(), Some(palette::Lab::<D50, $t>::max_l())), (1, palette::Lab::<D50, $t>::min_a(), Some(palette::Lab::<D50, $t>::max_a())), (2, palette::Lab::<D50, $t>::min_b(), Some(palette::Lab::<D50, $t>::max_b()))],
        ranges [(0, 100), (-128, 127), (-128, 127)]);
    sampled!($t, palette::Luv<D50, $t>, "Luv", Fam::Cartesian, 100.0, [c l, c u, c v], |a| palette::Luv::new(a[0], a[1], a[2]),
        bounds [(0, palette::Luv::<D50, $t>::min_l(), Some(palette::Luv::<D50, $t>::max_l())), (1, palette::Luv::<D50, $t>::min_u(), Some(palette::Luv::<D50, $t>::max_u())), (2, palette::Luv::<D50, $t>::min_v(), Some(palette::Luv::<D50, $t>::max_v()))],
        ranges [(0, 100), (-84, 176), (-135, 108)]);
    sampled!($t, palette::Xyz<D50, $t>, "Xyz", Fam::Cartesian, 1.0, [c x, c y, c z], |a| palette::Xyz::new(a[0], a[1], a[2]),
        bounds [(0, palette::Xyz::<D50, $t>::min_x(), Some(palette::Xyz::<D50, $t>::max_x())), (1, palette::Xyz::<D50, $t>::min_y(), Some(palette::Xyz::<D50, $t>::max_y())), (2, palette::Xyz::<D50, $t>::min_z(), Some(palette::Xyz::<D50, $t>::max_z()))],
        ranges [(0, 0.96), (0, 1), (0, 0.82)]);
    sampled!($t, palette::Xyz<WpA, $t>, "Xyz", Fam::Cartesian, 1.0, [c x, c y, c z], |a| palette::Xyz::new(a[0], a[1], a[2]),
        bounds [(0, palette::Xyz::<WpA, $t>::min_x(), Some(palette::Xyz::<WpA, $t>::max_x())), (1, palette::Xyz::<WpA, $t>::min_y(), Some(palette::Xyz::<WpA, $t>::max_y())), (2, palette::Xyz::<WpA, $t>::min_z(), Some(palette::Xyz::<WpA, $t>::max_z()))],
        ranges [(0, 1.09), (0, 1), (0, 0.35)]);
    sampled!($t, palette::Yxy<D50, $t>, "Yxy", Fam::Cartesian, 1.0, [c x, c y, c luma], |a| palette::Yxy::new(a[0], a[1], a[2]),
        bounds [(0, palette::Yxy::<D50, $t>::min_x(), Some(palette::Yxy::<D50, $t>::max_x())), (1, palette::Yxy::<D50, $t>::min_y(), Some(palette::Yxy::<D50, $t>::max_y())), (2, palette::Yxy::<D50, $t>::min_luma(), Some(palette::Yxy::<D50, $t>::max_luma()))],
        ranges [(0, 1), (0, 1), (0, 1)]);
    sampled!($t, palette::lms::Lms<VonK, $t>, "Lms", Fam::Cartesian, 1.0, [c long, c medium, c short], |a| palette::lms::Lms::new(a[0], a[1], a[2]),
        bounds [(0, palette::lms::Lms::<VonK, $t>::min_long(), None), (1, palette::lms::Lms::<VonK, $t>::min_medium(), None), (2, palette::lms::Lms::<VonK, $t>::min_short(), None)],
        ranges [(0, 1), (0, 1), (0, 1)]);
    sampled!($t, palette::Lch<D50, $t>, "Lch", Fam::Cylinder, 100.0, [c l, c chroma, h hue], |a| palette::Lch::new(a[0], a[1], a[2]),
        bounds [(0, palette::Lch::<D50, $t>::min_l(), Some(palette::Lch::<D50, $t>::max_l())), (1, palette::Lch::<D50, $t>::min_chroma(), None)], ranges [(0, 100), (0, 128), (0, 360)]);
    sampled!($t, palette::Lchuv<D50, $t>, "Lchuv", Fam::Cylinder, 100.0, [c l, c chroma, h hue], |a| palette::Lchuv::new(a[0], a[1], a[2]),
        bounds [(0, palette::Lchuv::<D50, $t>::min_l(), Some(palette::Lchuv::<D50, $t>::max_l())), (1, palette::Lchuv::<D50, $t>::min_chroma(), Some(palette::Lchuv::<D50, $t>::max_chroma()))], ranges [(0, 100), (0, 180), (0, 360)]);
    sampled!($t, palette::Hsv<Adobe, $t>, "Hsv", Fam::HsvCone, 1.0, [h hue, c saturation, c value], |a| palette::Hsv::new(a[0], a[1], a[2]),
        bounds [(1, palette::Hsv::<Adobe, $t>::min_saturation(), Some(palette::Hsv::<Adobe, $t>::max_saturation())), (2, palette::Hsv::<Adobe, $t>::min_value(), Some(palette::Hsv::<Adobe, $t>::max_value()))], ranges [(0, 360), (0, 1), (0, 1)]);
    sampled!($t, palette::Hsl<Lin, $t>, "Hsl", Fam::HslBicone, 1.0, [h hue, c saturation, c lightness], |a| palette::Hsl::new(a[0], a[1], a[2]),
        bounds [(1, palette::Hsl::<Lin, $t>::min_saturation(), Some(palette::Hsl::<Lin, $t>::max_saturation())), (2, palette::Hsl::<Lin, $t>::min_lightness(), Some(palette::Hsl::<Lin, $t>::max_lightness()))], ranges [(0, 360), (0, 1), (0, 1)]);
    sampled!($t, palette::Hsluv<D50, $t>, "Hsluv", Fam::HslBicone, 100.0, [h hue, c saturation, c l], |a| palette::Hsluv::new(a[0], a[1], a[2]),
        bounds [(1, palette::Hsluv::<D50, $t>::min_saturation(), Some(palette::Hsluv::<D50, $t>::max_saturation())), (2, palette::Hsluv::<D50, $t>::min_l(), Some(palette::Hsluv::<D50, $t>::max_l()))], ranges [(0, 360), (0, 100), (0, 100)]);
    sampled!($t, palette::Hwb<R2020, $t>, "Hwb", Fam::HwbCone, 1.0, [h hue, c whiteness, c blackness], |a| palette::Hwb::new(a[0], a[1], a[2]),
        bounds [], ranges [(0, 360), (0, 1), (0, 1)], hsv |me| { let h = palette::Hsv::<R2020, $t>::from_color_unclamped(me); (h.saturation, h.value) });
    sampled!($t, palette::Hwb<P3, $t>, "Hwb", Fam::HwbCone, 1.0, [h hue, c whiteness, c blackness], |a| palette::Hwb::new(a[0], a[1], a[2]),
        bounds [], ranges [(0, 360), (0, 1), (0, 1)], hsv |me| { let h = palette::Hsv::<P3, $t>::from_color_unclamped(me); (h.saturation, h.value) });
} }
alt_types!(f32);
alt_types!(f64);

fn wp_of<Wp: WhitePoint<T>, T: Flt>() -> [T; 3] where Standard: Distribution<T> { let w = Wp::get_xyz(); [w.x, w.y, w.z] }

type Brad = palette::lms::matrix::Bradford;
type S = palette::encoding::Srgb;

/// every sampled type under its default parameters: the entry points that `c19.rs` does not use (forms 0..=5 / 0..=4), the extended
/// end points and the joint bins; then the other type parameters through all entry points including the plain ones
macro_rules! run_more_all { ($out:expr, $rng:expr, $deep:expr, $t:ty) => {{
    let (out, rng, deep): (&mut Out, &mut Rng, bool) = ($out, $rng, $deep);
    let d65 = wp_of::<D65, $t>();
    macro_rules! dflt { ($c:ty) => {{
        drive::<$t, $c>(out, rng, deep, <$c as Sampled<$t>>::NAME, d65, &[0, 1, 2, 3, 4, 5], &[0, 1, 2, 3, 4]);
        extended_ends::<$t, $c>(out, rng, deep);
        joint_volume::<$t, $c>(out, rng, deep);
    }} }
    dflt!(palette::rgb::Rgb<S, $t>); dflt!(palette::luma::Luma<S, $t>); dflt!(palette::Lab<D65, $t>); dflt!(palette::Luv<D65, $t>);
    dflt!(palette::Xyz<D65, $t>); dflt!(palette::Yxy<D65, $t>); dflt!(palette::lms::Lms<Brad, $t>); dflt!(palette::Oklab<$t>);
    dflt!(palette::cam16::Cam16UcsJab<$t>); dflt!(palette::Lch<D65, $t>); dflt!(palette::Lchuv<D65, $t>); dflt!(palette::Oklch<$t>);
    dflt!(palette::cam16::Cam16UcsJmh<$t>); dflt!(palette::Hsv<S, $t>); dflt!(palette::Okhsv<$t>); dflt!(palette::Hsl<S, $t>);
    dflt!(palette::Okhsl<$t>); dflt!(palette::Hsluv<D65, $t>); dflt!(palette::Hwb<S, $t>); dflt!(palette::Okhwb<$t>);
    macro_rules! alt { ($c:ty, $label:expr, $w:expr) => {{
        drive::<$t, $c>(out, rng, deep, $label, $w, &[6, 0, 1], &[5, 0]);
        out.count("cls:more-type-parameter");
    }} }
    alt!(palette::rgb::Rgb<Lin, $t>, "Rgb<Linear<Srgb>>", d65); alt!(palette::rgb::Rgb<Adobe, $t>, "Rgb<AdobeRgb>", d65);
    alt!(palette::luma::Luma<LinL, $t>, "Luma<Linear<D65>>", d65); alt!(palette::Lab<D50, $t>, "Lab<D50>", d65); alt!(palette::Luv<D50, $t>, "Luv<D50>", d65);
    alt!(palette::Xyz<D50, $t>, "Xyz<D50>", wp_of::<D50, $t>()); alt!(palette::Xyz<WpA, $t>, "Xyz<A>", wp_of::<WpA, $t>());
    alt!(palette::Yxy<D50, $t>, "Yxy<D50>", d65); alt!(palette::lms::Lms<VonK, $t>, "Lms<VonKries>", d65);
    alt!(palette::Lch<D50, $t>, "Lch<D50>", d65); alt!(palette::Lchuv<D50, $t>, "Lchuv<D50>", d65);
    alt!(palette::Hsv<Adobe, $t>, "Hsv<AdobeRgb>", d65); alt!(palette::Hsl<Lin, $t>, "Hsl<Linear<Srgb>>", d65); alt!(palette::Hsluv<D50, $t>, "Hsluv<D50>", d65);
    alt!(palette::Hwb<R2020, $t>, "Hwb<Rec2020>", d65); alt!(palette::Hwb<P3, $t>, "Hwb<DciP3>", d65);
}} }

// ------------------------------------------------------------------------------------------------ alpha of another component type
/// `Alpha<C, A>` with `A` different from the component type of `C`: standard samples within bounds (alpha in [0, 1)), uniform samples
/// between the ends in every component and in alpha.  One colour type per sampler macro.
macro_rules! mixed_alpha { ($out:expr, $rng:expr, $deep:expr, $t:ty, $a:ty, [$($c:ty),+]) => {{
    let (out, rng, deep): (&mut Out, &mut Rng, bool) = ($out, $rng, $deep);
    $( {
        type C = $c;
        let tag = format!("{}:{}:alpha-{}", <C as Sampled<$t>>::NAME, <$t as Fl>::TAG, <$a as Fl>::TAG);
        let mut r = real_rng(0, rng.next());
        for _ in 0..(if deep { 4000 } else { 300 }) {
            let x: Alpha<C, $a> = r.gen();
            check_standard::<$t, C>(out, &x.color, &tag);
            out.check(0.0 <= x.alpha && x.alpha < 1.0, &format!("standard-alpha-in-unit:{}", tag), || format!("alpha {:?}", x.alpha));
        }
        for j in 0..(if deep { 200 } else { 48 }) {
            let incl = j % 2 == 1;
            let equal = incl && j % 8 == 7;
            let mut e = gen_ends::<$t, C>(rng, incl, equal);
            apex_safe::<$t, C>(&mut e, equal, incl);
            let (mut alo, mut ahi) = (e.alo.to64() as $a, e.ahi.to64() as $a);
            if !equal && !(alo < ahi) { alo = 0.0; ahi = 1.0; }
            let (lo, hi) = (Alpha { color: <C as Sampled<$t>>::make(&e.lo), alpha: alo }, Alpha { color: <C as Sampled<$t>>::make(&e.hi), alpha: ahi });
            let ctx = format!("{} {:?} alpha {:?}..{}{:?} alpha {:?}", if incl { "new_inclusive" } else { "new" }, e.lo, alo, if incl { "=" } else { "" }, e.hi, ahi);
            let mut r = real_rng(j as u64, rng.next());
            let f = [6usize, 0, 1][j % 3];
            match catch_unwind(AssertUnwindSafe(|| draw_uniform::<Alpha<C, $a>, _>(f, incl, &lo, &hi, &mut r, 30))) {
                Ok(v) => for x in &v {
                    check_uniform::<$t, C>(out, &e, &x.color, &tag, &ctx);
                    out.check(alo <= x.alpha && x.alpha <= ahi, &format!("alpha-between-ends:{}", tag), || format!("{} alpha {:?} not in [{:?}, {:?}]", ctx, x.alpha, alo, ahi));
                },
                Err(_) => out.check(false, &format!("no-panic-on-ordered-ends:{}", tag), || ctx.clone()),
            }
        }
        out.count("cls:more-mixed-alpha");
    } )+
}} }

// ------------------------------------------------------------------------------------------------ bare hue types
/// the entry points of the five hue samplers (`impl_uniform!` is its own `impl UniformSampler` per hue type) and of their standard
/// distribution: arc statement / hue in [0, 360]
macro_rules! hue_entry_points { ($out:expr, $rng:expr, $deep:expr, $t:ty, [$(($h:ty, $name:expr)),+]) => {{
    let (out, rng, deep): (&mut Out, &mut Rng, bool) = ($out, $rng, $deep);
    $( for f in 0..6usize {
        let tag = format!("{}:{}:{}", $name, <$t as Fl>::TAG, UFORMS[f]);
        for j in 0..(if deep { 400 } else { 40 }) {
            let incl = j % 2 == 1;
            let (a, b) = hue_pairs(rng, incl);
            let (a, b) = (a as $t, b as $t);
            if !(a < b) && !(incl && a <= b) { continue; }
            let mut r = real_rng(j as u64, rng.next());
            let (lo, hi) = (<$h>::from(a), <$h>::from(b));
            match catch_unwind(AssertUnwindSafe(|| draw_uniform::<$h, _>(f, incl, &lo, &hi, &mut r, 20))) {
                Ok(v) => for h in v { let h = h.into_raw_degrees(); let tol = <$t as Flt>::slack(360f64.max(a.to64().abs()).max(b.to64().abs()));
                    out.check(on_arc(a.to64(), b.to64(), h.to64(), tol), &format!("hue-on-arc:{}", tag), || format!("{} {} low hue {:?} high hue {:?} sampled hue {:?}", UFORMS[f], if incl { "inclusive" } else { "half-open" }, a, b, h)); },
                Err(_) => out.check(false, &format!("no-panic-on-ordered-ends:{}", tag), || format!("{} {:?} {:?}", UFORMS[f], a, b)),
            }
        }
    }
    for f in 0..5usize {
        let tag = format!("{}:{}:{}", $name, <$t as Fl>::TAG, SFORMS[f]);
        let mut r = real_rng(f as u64, rng.next());
        for h in draw_standard::<$h, _>(f, &mut r, if deep { 4000 } else { 300 }) { let d = h.into_raw_degrees().to64(); out.check(0.0 <= d && d <= 360.0, &format!("standard-hue-in-circle:{}", tag), || format!("hue {}", d)); }
    } )+
}} }

pub fn run_more(out: &mut Out, rng: &mut Rng, deep: bool) {
    run_more_all!(out, rng, deep, f32);
    run_more_all!(out, rng, deep, f64);
    mixed_alpha!(out, rng, deep, f32, f64, [palette::rgb::Rgb<S, f32>, palette::Lch<D65, f32>, palette::Hsv<S, f32>, palette::Hsl<S, f32>, palette::Hwb<S, f32>, palette::Okhwb<f32>]);
    mixed_alpha!(out, rng, deep, f64, f32, [palette::rgb::Rgb<S, f64>, palette::Oklch<f64>, palette::Okhsv<f64>, palette::Hsluv<D65, f64>, palette::Hwb<S, f64>, palette::Okhwb<f64>]);
    hue_entry_points!(out, rng, deep, f32, [(palette::RgbHue<f32>, "RgbHue"), (palette::LabHue<f32>, "LabHue"), (palette::LuvHue<f32>, "LuvHue"), (palette::OklabHue<f32>, "OklabHue"), (palette::hues::Cam16Hue<f32>, "Cam16Hue")]);
    hue_entry_points!(out, rng, deep, f64, [(palette::RgbHue<f64>, "RgbHue"), (palette::LabHue<f64>, "LabHue"), (palette::LuvHue<f64>, "LuvHue"), (palette::OklabHue<f64>, "OklabHue"), (palette::hues::Cam16Hue<f64>, "Cam16Hue")]);
    // the 10-degree-observer white points: `xyz_white_points!` of c19.rs covers the eleven 2-degree ones
    { let out = &mut *out; let rng = &mut *rng;
      xyz_white_points!(out, rng, deep, f32, [D50Degree10, D55Degree10, D65Degree10, D75Degree10]); xyz_white_points!(out, rng, deep, f64, [D50Degree10, D55Degree10, D65Degree10, D75Degree10]); }
}
