//! C15, second part (coverage audit, see AUDIT_C15.md): the configurations, forms and entry points inside the property's quantifier that
//! `c15.rs` does not drive.  Every clause is the property's own predicate evaluated on the implementation, with the tolerances of the
//! sibling clauses of `c15.rs` (nothing new is declared here), or a bit-for-bit comparison of an uncovered form with the covered one.
//!
//!  (1) **other RGB standards on the sRGB primaries** (the gamut the seven spaces are bounded by is the sRGB gamut whatever the transfer
//!      function): `Oklab <-> Rgb<S>` branches on `TypeId::of::<S::Space>() == TypeId::of::<Srgb>()`; `c15.rs` only ever takes the
//!      "direct" branch.  A standard assembled as `(Srgb, D65, Tf)` has `Space = (Srgb, D65)`: same primaries, same white point, same
//!      gamut, but the **via-XYZ branch** (and matrices computed from the primaries instead of the hard-coded tables).  Both directions
//!      of the property are evaluated by the very same code as in `c15.rs` (`forward` / `reverse`, i.e. the grid incl. the bounds, the
//!      sector edges, the primaries' hues, the corner neighbourhoods, the witness search and the round trip) for
//!        * Okhsv / Okhsl / Okhwb / Hsluv  ->  `Rgb<(Srgb, D65, Srgb)>`, `Rgb<(Srgb, D65, LinearFn)>`      (via XYZ, computed matrices)
//!        * Okhsv / Okhsl / Okhwb / Hsluv  ->  `Rgb<Rec709>` (direct branch, Rec.709 OETF), `Rgb<(Srgb, LinearFn)>` (direct branch,
//!          then `from_linear(into_linear(..))` instead of `reinterpret_as`)
//!        * Hsv / Hsl / Hwb over `Rec709` and `AdobeRgb` (one generic impl, the standard is a phantom: forwarding)
//!      Tolerances: exactly `tol_of` of `c15.rs` (4 eps / 2e-4 / 1e-3 in linear light).  The hard-coded and the computed sRGB matrices
//!      agree to 7 digits (C14), far below both constants; observed maxima are recorded under the same `gamut-excess:` keys.
//!      The edges that the Lean driver has under the same name are also written as `conv` lines (Okhsv -> Oklab, Oklab -> Xyz:D65,
//!      Oklab -> Rgb:Rec709, Xyz:D65 -> Rgb:Rec709, Hsv:AdobeRgb -> Rgb:AdobeRgb ..); the final hop into a tuple standard has no name in
//!      the model and is evaluated silently (it still takes part in `derived-route-is-edge-chain`).
//!  (2) **hues written whole turns away** (`all hue angles`): the 72 hues 1.25° + 5°·i displaced by -1000, -3, -2, -1, 1, 2, 3, 1000 turns
//!      through the same `forward_chunk` (spaces named `Hsv@turns` ..), 7-point component grids incl. the bounds.
//!  (3) **the documented bounds as the API reports them** (`min_saturation()` .. `max_blackness()`, `min_l()` ..): the forward predicate on
//!      the corners, edges and centre of the box the accessors span, so that the grid of `c15.rs` (which hard-codes 1 and 100) cannot drift
//!      away from what the crate documents.
//!  (4) **wrapper forms**: `Alpha<D, A>::from_color_unclamped(Alpha<S, A>)` (alpha.rs, one blanket impl through `WithAlpha::split`),
//!      `D::from_color_unclamped(Alpha<S, A>)` (derive-generated per destination type), `Alpha<D, A>::from_color_unclamped(S)`, with `A` the
//!      component type and `A = u8`: colour part bit for bit the plain conversion `c15.rs` judges, alpha carried unchanged (an in-gamut
//!      RGBA colour "converts back to the same colour" only if its alpha comes back too).
//!  (5) **entry points and collection forms**: `IntoColorUnclamped::into_color_unclamped`, `Vec<S> -> Vec<D>`, `Box<[S]> -> Box<[D]>`,
//!      the in-place forms `FromColorUnclampedMut` / `IntoColorUnclampedMut` for a single colour and for `[T]` (value seen through the
//!      guard = the plain conversion; value left behind when the guard is dropped = the plain conversion back, which is the property's
//!      "converts back to the same RGB colour" through that entry point) - all bit for bit against `from_color_unclamped` by value.
//!
//! Helpers that call palette are macros instantiated at concrete types (no trait bounds of palette are restated in generic code).
use crate::c15::{forward, forward_chunk, ident, known_fwd, lin_of, excess, one, parallel, reverse, same_bits, spaces_f32, spaces_f64, step, tol_of, Conv, Kind, Lines, Space, Target, TARGETS};
use crate::common::*;
use crate::conv_common::*;
use palette::cast;
use palette::convert::{FromColorUnclamped, FromColorUnclampedMut, IntoColorUnclamped, IntoColorUnclampedMut};
use palette::encoding::{self, linear::LinearFn, Linear};
use palette::rgb::Rgb;
use palette::white_point::D65;
use palette::{Alpha, Hsl, Hsluv, Hsv, Hwb, Lchuv, Luv, Okhsl, Okhsv, Okhwb, Oklab, Xyz};

// ------------------------------------------------------------------------------------------------------------------- (1) RGB standards

/// Rec. ITU-R BT.709 OETF and its inverse, f64 reference (constants of the recommendation at full precision, as in BT.2020 table 4)
const REC_ALPHA: f64 = 1.09929682680944;
const REC_BETA: f64 = 0.018053968510807;
fn rec_oetf(x: f64) -> f64 { if x < REC_BETA { 4.5 * x } else { REC_ALPHA * x.powf(0.45) - (REC_ALPHA - 1.0) } }
fn rec_eotf(x: f64) -> f64 { if x < 4.5 * REC_BETA { x / 4.5 } else { ((x + (REC_ALPHA - 1.0)) / REC_ALPHA).powf(1.0 / 0.45) } }

const T_TUPLE: [Target; 2] = [Target { name: "(Srgb,D65,Srgb)", eotf: crate::c15::srgb_eotf, oetf: crate::c15::srgb_oetf }, Target { name: "(Srgb,D65,LinearFn)", eotf: ident, oetf: ident }];
const T_REC: [Target; 2] = [Target { name: "Rec709", eotf: rec_eotf, oetf: rec_oetf }, Target { name: "(Srgb,LinearFn)", eotf: ident, oetf: ident }];
// hexcone spaces are judged in the target itself (`Kind::Hex`): the transfer functions are never applied
const T_HEX: [Target; 2] = [Target { name: "Rec709", eotf: ident, oetf: ident }, Target { name: "AdobeRgb", eotf: ident, oetf: ident }];

/// as `conv!` of `c15.rs`; an edge with an empty source name is evaluated without a protocol line (no model edge of that name)
macro_rules! convq {
    ($T:ty; $src:ty => $dst:ty; $( $S:ty => $D:ty : $sn:expr, $dn:expr );+ ) => {
        Box::new(|a: [$T; 3], lines: &mut Lines| -> ([$T; 3], bool) {
            let direct: [$T; 3] = one::<$src, $dst, $T>(a);
            if lines.is_some() {
                let mut cur = a;
                $( cur = if $sn == "" { one::<$S, $D, $T>(cur) } else { step::<$S, $D, $T>($sn, $dn, cur, lines) }; )+
                (direct, same_bits(&direct, &cur))
            } else { (direct, true) }
        }) as Conv<$T>
    };
}

/// the Ok spaces and Hsluv into one RGB standard `$R` whose `Oklab <-> Rgb` takes the via-XYZ branch
macro_rules! ok_via_xyz { ($T:ty, $R:ty, $C:ty, $cn:expr, to) => {
    convq!($T; $C => Rgb<$R, $T>; $C => Oklab<$T>: $cn, "Oklab"; Oklab<$T> => Xyz<D65, $T>: "Oklab", "Xyz:D65"; Xyz<D65, $T> => Rgb<$R, $T>: "", "")
}; ($T:ty, $R:ty, $C:ty, $cn:expr, from) => {
    convq!($T; Rgb<$R, $T> => $C; Rgb<$R, $T> => Xyz<D65, $T>: "", ""; Xyz<D65, $T> => Oklab<$T>: "Xyz:D65", "Oklab"; Oklab<$T> => $C: "Oklab", $cn)
} }
macro_rules! okhwb_via_xyz { ($T:ty, $R:ty, to) => {
    convq!($T; Okhwb<$T> => Rgb<$R, $T>; Okhwb<$T> => Okhsv<$T>: "Okhwb", "Okhsv"; Okhsv<$T> => Oklab<$T>: "Okhsv", "Oklab"; Oklab<$T> => Xyz<D65, $T>: "Oklab", "Xyz:D65"; Xyz<D65, $T> => Rgb<$R, $T>: "", "")
}; ($T:ty, $R:ty, from) => {
    convq!($T; Rgb<$R, $T> => Okhwb<$T>; Rgb<$R, $T> => Xyz<D65, $T>: "", ""; Xyz<D65, $T> => Oklab<$T>: "Xyz:D65", "Oklab"; Oklab<$T> => Okhsv<$T>: "Oklab", "Okhsv"; Okhsv<$T> => Okhwb<$T>: "Okhsv", "Okhwb")
} }
/// .. and the direct branch (`$rn` = the standard's name in the model, "" if it has none)
macro_rules! ok_direct { ($T:ty, $R:ty, $rn:expr, $C:ty, $cn:expr, to) => {
    convq!($T; $C => Rgb<$R, $T>; $C => Oklab<$T>: $cn, "Oklab"; Oklab<$T> => Rgb<$R, $T>: (if $rn == "" { "" } else { "Oklab" }), concat!("Rgb:", $rn))
}; ($T:ty, $R:ty, $rn:expr, $C:ty, $cn:expr, from) => {
    convq!($T; Rgb<$R, $T> => $C; Rgb<$R, $T> => Oklab<$T>: (if $rn == "" { "" } else { concat!("Rgb:", $rn) }), "Oklab"; Oklab<$T> => $C: "Oklab", $cn)
} }
macro_rules! okhwb_direct { ($T:ty, $R:ty, $rn:expr, to) => {
    convq!($T; Okhwb<$T> => Rgb<$R, $T>; Okhwb<$T> => Okhsv<$T>: "Okhwb", "Okhsv"; Okhsv<$T> => Oklab<$T>: "Okhsv", "Oklab"; Oklab<$T> => Rgb<$R, $T>: (if $rn == "" { "" } else { "Oklab" }), concat!("Rgb:", $rn))
}; ($T:ty, $R:ty, $rn:expr, from) => {
    convq!($T; Rgb<$R, $T> => Okhwb<$T>; Rgb<$R, $T> => Oklab<$T>: (if $rn == "" { "" } else { concat!("Rgb:", $rn) }), "Oklab"; Oklab<$T> => Okhsv<$T>: "Oklab", "Okhsv"; Okhsv<$T> => Okhwb<$T>: "Okhsv", "Okhwb")
} }
macro_rules! hsluv_std { ($T:ty, $R:ty, $rn:expr, to) => {
    convq!($T; Hsluv<D65, $T> => Rgb<$R, $T>; Hsluv<D65, $T> => Lchuv<D65, $T>: "Hsluv:D65", "Lchuv:D65"; Lchuv<D65, $T> => Luv<D65, $T>: "Lchuv:D65", "Luv:D65"; Luv<D65, $T> => Xyz<D65, $T>: "Luv:D65", "Xyz:D65"; Xyz<D65, $T> => Rgb<$R, $T>: (if $rn == "" { "" } else { "Xyz:D65" }), concat!("Rgb:", $rn))
}; ($T:ty, $R:ty, $rn:expr, from) => {
    convq!($T; Rgb<$R, $T> => Hsluv<D65, $T>; Rgb<$R, $T> => Xyz<D65, $T>: (if $rn == "" { "" } else { concat!("Rgb:", $rn) }), "Xyz:D65"; Xyz<D65, $T> => Luv<D65, $T>: "Xyz:D65", "Luv:D65"; Luv<D65, $T> => Lchuv<D65, $T>: "Luv:D65", "Lchuv:D65"; Lchuv<D65, $T> => Hsluv<D65, $T>: "Lchuv:D65", "Hsluv:D65")
} }
macro_rules! hex_std { ($T:ty, $R:ty, $rn:expr, Hwb, to) => {
    convq!($T; Hwb<$R, $T> => Rgb<$R, $T>; Hwb<$R, $T> => Hsv<$R, $T>: concat!("Hwb:", $rn), concat!("Hsv:", $rn); Hsv<$R, $T> => Rgb<$R, $T>: concat!("Hsv:", $rn), concat!("Rgb:", $rn))
}; ($T:ty, $R:ty, $rn:expr, Hwb, from) => {
    convq!($T; Rgb<$R, $T> => Hwb<$R, $T>; Rgb<$R, $T> => Hsv<$R, $T>: concat!("Rgb:", $rn), concat!("Hsv:", $rn); Hsv<$R, $T> => Hwb<$R, $T>: concat!("Hsv:", $rn), concat!("Hwb:", $rn))
}; ($T:ty, $R:ty, $rn:expr, $C:ident, to) => {
    convq!($T; $C<$R, $T> => Rgb<$R, $T>; $C<$R, $T> => Rgb<$R, $T>: concat!(stringify!($C), ":", $rn), concat!("Rgb:", $rn))
}; ($T:ty, $R:ty, $rn:expr, $C:ident, from) => {
    convq!($T; Rgb<$R, $T> => $C<$R, $T>; Rgb<$R, $T> => $C<$R, $T>: concat!("Rgb:", $rn), concat!(stringify!($C), ":", $rn))
} }

macro_rules! more_family { ($fname:ident, $t:ty) => {
fn $fname() -> Vec<Space<$t>> {
    type T = $t;
    type TS = (encoding::Srgb, D65, encoding::Srgb);
    type TL = (encoding::Srgb, D65, LinearFn);
    type R7 = encoding::Rec709;
    type SL = (encoding::Srgb, LinearFn);
    type AD = encoding::AdobeRgb;
    vec![
        // ---- via XYZ (`Space = (Srgb, D65)` is not `Srgb`), matrices computed from the primaries
        Space { name: "Okhsv@via-xyz", kind: Kind::Ok, scale: 1.0, hwb: false, slack: 1e-6, targets: T_TUPLE,
            to_rgb: [ok_via_xyz!(T, TS, Okhsv<T>, "Okhsv", to), ok_via_xyz!(T, TL, Okhsv<T>, "Okhsv", to)],
            from_rgb: [ok_via_xyz!(T, TS, Okhsv<T>, "Okhsv", from), ok_via_xyz!(T, TL, Okhsv<T>, "Okhsv", from)] },
        Space { name: "Okhsl@via-xyz", kind: Kind::Ok, scale: 1.0, hwb: false, slack: 0.0, targets: T_TUPLE,
            to_rgb: [ok_via_xyz!(T, TS, Okhsl<T>, "Okhsl", to), ok_via_xyz!(T, TL, Okhsl<T>, "Okhsl", to)],
            from_rgb: [ok_via_xyz!(T, TS, Okhsl<T>, "Okhsl", from), ok_via_xyz!(T, TL, Okhsl<T>, "Okhsl", from)] },
        Space { name: "Okhwb@via-xyz", kind: Kind::Ok, scale: 1.0, hwb: true, slack: 0.0, targets: T_TUPLE,
            to_rgb: [okhwb_via_xyz!(T, TS, to), okhwb_via_xyz!(T, TL, to)],
            from_rgb: [okhwb_via_xyz!(T, TS, from), okhwb_via_xyz!(T, TL, from)] },
        Space { name: "Hsluv@via-xyz", kind: Kind::Hsluv, scale: 100.0, hwb: false, slack: 0.0, targets: T_TUPLE,
            to_rgb: [hsluv_std!(T, TS, "", to), hsluv_std!(T, TL, "", to)],
            from_rgb: [hsluv_std!(T, TS, "", from), hsluv_std!(T, TL, "", from)] },
        // ---- direct branch, other transfer function / other hop from LinSrgb
        Space { name: "Okhsv@direct", kind: Kind::Ok, scale: 1.0, hwb: false, slack: 1e-6, targets: T_REC,
            to_rgb: [ok_direct!(T, R7, "Rec709", Okhsv<T>, "Okhsv", to), ok_direct!(T, SL, "", Okhsv<T>, "Okhsv", to)],
            from_rgb: [ok_direct!(T, R7, "Rec709", Okhsv<T>, "Okhsv", from), ok_direct!(T, SL, "", Okhsv<T>, "Okhsv", from)] },
        Space { name: "Okhsl@direct", kind: Kind::Ok, scale: 1.0, hwb: false, slack: 0.0, targets: T_REC,
            to_rgb: [ok_direct!(T, R7, "Rec709", Okhsl<T>, "Okhsl", to), ok_direct!(T, SL, "", Okhsl<T>, "Okhsl", to)],
            from_rgb: [ok_direct!(T, R7, "Rec709", Okhsl<T>, "Okhsl", from), ok_direct!(T, SL, "", Okhsl<T>, "Okhsl", from)] },
        Space { name: "Okhwb@direct", kind: Kind::Ok, scale: 1.0, hwb: true, slack: 0.0, targets: T_REC,
            to_rgb: [okhwb_direct!(T, R7, "Rec709", to), okhwb_direct!(T, SL, "", to)],
            from_rgb: [okhwb_direct!(T, R7, "Rec709", from), okhwb_direct!(T, SL, "", from)] },
        Space { name: "Hsluv@direct", kind: Kind::Hsluv, scale: 100.0, hwb: false, slack: 0.0, targets: T_REC,
            to_rgb: [hsluv_std!(T, R7, "Rec709", to), hsluv_std!(T, SL, "", to)],
            from_rgb: [hsluv_std!(T, R7, "Rec709", from), hsluv_std!(T, SL, "", from)] },
        // ---- hexcone spaces over other standards (phantom parameter)
        Space { name: "Hsv@std", kind: Kind::Hex, scale: 1.0, hwb: false, slack: 0.0, targets: T_HEX,
            to_rgb: [hex_std!(T, R7, "Rec709", Hsv, to), hex_std!(T, AD, "AdobeRgb", Hsv, to)],
            from_rgb: [hex_std!(T, R7, "Rec709", Hsv, from), hex_std!(T, AD, "AdobeRgb", Hsv, from)] },
        Space { name: "Hsl@std", kind: Kind::Hex, scale: 1.0, hwb: false, slack: 0.0, targets: T_HEX,
            to_rgb: [hex_std!(T, R7, "Rec709", Hsl, to), hex_std!(T, AD, "AdobeRgb", Hsl, to)],
            from_rgb: [hex_std!(T, R7, "Rec709", Hsl, from), hex_std!(T, AD, "AdobeRgb", Hsl, from)] },
        Space { name: "Hwb@std", kind: Kind::Hex, scale: 1.0, hwb: true, slack: 0.0, targets: T_HEX,
            to_rgb: [hex_std!(T, R7, "Rec709", Hwb, to), hex_std!(T, AD, "AdobeRgb", Hwb, to)],
            from_rgb: [hex_std!(T, R7, "Rec709", Hwb, from), hex_std!(T, AD, "AdobeRgb", Hwb, from)] },
    ]
}
}}
more_family!(more_spaces_f32, f32);
more_family!(more_spaces_f64, f64);

fn standards<T: Fl + Send + Sync>(out: &mut Out, spaces: &[Space<T>], srcs: &[[f64; 3]], tier: &str, threads: usize) {
    // a coarser sweep than `c15.rs` (the curve-fitting part of the code is the same; what is new is the last hop): hue every 4° (quick) /
    // 0.25° (thorough) + all the special hues of `hue_list`, 9- / 41-point component grids incl. the bounds + the boundary stream
    let (n_hues, g, stride_f, stride_r, every) = if tier == "thorough" { (1440, 40, 4999, 23, 4) } else { (90, 8, 199, 9, 4) };
    let sub: Vec<[f64; 3]> = srcs.iter().enumerate().filter(|(i, _)| i % every == 0).map(|(_, c)| *c).collect();
    for sp in spaces {
        out.count(&format!("cls:standard:{}:{}|{}:{}", sp.name, sp.targets[0].name, sp.targets[1].name, T::TAG));
        forward(out, sp, n_hues, g, stride_f, threads);
        reverse(out, sp, &sub, stride_r, threads);
    }
}

// ------------------------------------------------------------------------------------------------------------------- (2) whole turns

fn turns<T: Fl + Send + Sync>(out: &mut Out, mut spaces: Vec<Space<T>>, threads: usize) {
    for sp in spaces.iter_mut() {
        sp.name = match sp.name { "Hsv" => "Hsv@turns", "Hsl" => "Hsl@turns", "Hwb" => "Hwb@turns", "Okhsv" => "Okhsv@turns", "Okhsl" => "Okhsl@turns", "Okhwb" => "Okhwb@turns", _ => "Hsluv@turns" };
        // base hues 1.25° + 5°·i: none within 2° of the blue primary's Ok hue (264.05°), whose 1e-9 rad gap (finding D7) is classified from the
        // f64 reading of the hue while an f32 hue 1000 turns away carries 5e-4 rad of rounding
        let mut hues: Vec<T> = vec![];
        for k in [-1000i32, -3, -2, -1, 1, 2, 3, 1000] { for i in 0..72 { hues.push(T::of(1.25 + 5.0 * i as f64 + 360.0 * k as f64)); } }
        // the sector edges themselves, whole turns away (exact in f32 and f64)
        for k in [-1000i32, -2, 2, 1000] { for e in 0..6 { hues.push(T::of(60.0 * e as f64 + 360.0 * k as f64)); } }
        out.count_n(&format!("cls:hues-turns-away:{}:{}", sp.name, T::TAG), hues.len() as u64);
        // indices from 1 and stride usize::MAX: no protocol lines (C01 replays displaced hues through the model)
        let items: Vec<(usize, T)> = hues.into_iter().enumerate().map(|(i, h)| (i + 1, h)).collect();
        let sp_ref: &Space<T> = sp;
        for acc in parallel(&items, threads, |c| forward_chunk(sp_ref, c, 6, usize::MAX)) { acc.merge_into(out); }
    }
}

// ------------------------------------------------------------------------------------------------------------------- (3) API bounds

/// [min s-like, max s-like, min l-like, max l-like] as the crate's accessors report them
macro_rules! api_bounds { ($fname:ident, $t:ty) => {
fn $fname(name: &str) -> [f64; 4] {
    type T = $t; type S = encoding::Srgb;
    match name {
        "Hsv" => [Hsv::<S, T>::min_saturation() as f64, Hsv::<S, T>::max_saturation() as f64, Hsv::<S, T>::min_value() as f64, Hsv::<S, T>::max_value() as f64],
        "Hsl" => [Hsl::<S, T>::min_saturation() as f64, Hsl::<S, T>::max_saturation() as f64, Hsl::<S, T>::min_lightness() as f64, Hsl::<S, T>::max_lightness() as f64],
        "Hwb" => [Hwb::<S, T>::min_whiteness() as f64, Hwb::<S, T>::max_whiteness() as f64, Hwb::<S, T>::min_blackness() as f64, Hwb::<S, T>::max_blackness() as f64],
        "Okhsv" => [Okhsv::<T>::min_saturation() as f64, Okhsv::<T>::max_saturation() as f64, Okhsv::<T>::min_value() as f64, Okhsv::<T>::max_value() as f64],
        "Okhsl" => [Okhsl::<T>::min_saturation() as f64, Okhsl::<T>::max_saturation() as f64, Okhsl::<T>::min_lightness() as f64, Okhsl::<T>::max_lightness() as f64],
        "Okhwb" => [Okhwb::<T>::min_whiteness() as f64, Okhwb::<T>::max_whiteness() as f64, Okhwb::<T>::min_blackness() as f64, Okhwb::<T>::max_blackness() as f64],
        _ => [Hsluv::<D65, T>::min_saturation() as f64, Hsluv::<D65, T>::max_saturation() as f64, Hsluv::<D65, T>::min_l() as f64, Hsluv::<D65, T>::max_l() as f64],
    }
}
}}
api_bounds!(api_bounds_f32, f32);
api_bounds!(api_bounds_f64, f64);

fn at_api_bounds<T: Fl + Send + Sync>(out: &mut Out, spaces: &[Space<T>], bounds: fn(&str) -> [f64; 4]) {
    for sp in spaces {
        let b = bounds(sp.name);
        let tol = tol_of::<T>(sp.kind);
        let (ra, rb) = (b[1] - b[0], b[3] - b[2]);
        // both ends, the centre, and the ends approached from inside (Hsluv: its two ends are the poles of finding D5, judged by `c15.rs`)
        let ax = |lo: f64, r: f64| [lo, lo + 1e-6 * r, lo + 0.25 * r, lo + 0.5 * r, lo + r - 1e-6 * r, lo + r];
        let mut worst = [f64::NEG_INFINITY; 2];
        for ih in 0..144 { for &a in &ax(b[0], ra) { for &l in &ax(b[2], rb) {
            if sp.hwb && !(a + l <= b[1].min(b[3])) { continue; }
            let x: [T; 3] = [T::of(2.5 * ih as f64 + 0.625), T::of(a), T::of(l)];
            if known_fwd(sp, &to64(&x)).is_some() { continue; }
            for t in 0..2 {
                let (rgb, _) = (sp.to_rgb[t])(x, &mut None);
                let r64 = to64(&rgb);
                let ex = if sp.kind == Kind::Hex { excess(&r64) } else { excess(&lin_of(&sp.targets[t], &r64)) };
                if ex > worst[t] || ex.is_nan() { worst[t] = ex; }
                out.check(ex <= tol, &format!("gamut-at-api-bounds:{}->{}:{}", sp.name, sp.targets[t].name, T::TAG), || format!("{}{:?} (accessors report [{}, {}] x [{}, {}]) -> {} {:?} (excess {:e}, tolerance {:e})", sp.name, x, b[0], b[1], b[2], b[3], sp.targets[t].name, rgb, ex, tol));
            }
        } } }
        for t in 0..2 { out.maxi(&format!("gamut-excess-at-api-bounds:{}->{}:{}", sp.name, sp.targets[t].name, T::TAG), worst[t]); }
        out.count(&format!("cls:api-bounds:{}:{}", sp.name, T::TAG));
    }
}

// ------------------------------------------------------------------------------------------------------------------- (4), (5) forms

/// in-bounds cylindrical colours (hue also outside one turn) and in-gamut RGB colours for the form comparisons
fn form_inputs(rng: &mut Rng, srcs: &[[f64; 3]], scale: f64, hwb: bool, n: usize) -> (Vec<[f64; 3]>, Vec<[f64; 3]>) {
    let mut cyl = vec![];
    let lat = [0.0, 1e-9, 0.25, 0.5, 0.75, 1.0 - 1e-9, 1.0];
    for &a in &lat { for &b in &lat { if hwb && a + b > 1.0 { continue; } cyl.push([rng.range(-720.0, 1080.0), scale * a, scale * b]); } }
    for _ in 0..n { let a = rng.unit(); let b = if hwb { rng.unit() * (1.0 - a) } else { rng.unit() }; cyl.push([rng.range(0.0, 360.0), scale * a, scale * b]); }
    for h in [0.0, 60.0, 120.0, 180.0, 240.0, 300.0, 360.0, -60.0] { cyl.push([h, if hwb { 0.0 } else { scale }, if hwb { 0.0 } else { scale * 0.5 }]); }
    let step = (srcs.len() / n.max(1)).max(1);
    let rgbs: Vec<[f64; 3]> = srcs.iter().step_by(step).cloned().collect();
    (cyl, rgbs)
}

fn bits_eq<T: Fl>(a: T, b: T) -> bool { a.bits64() == b.bits64() || (a.to64().is_nan() && b.to64().is_nan()) }

/// all forms of one conversion `$S -> $D` (both `ArrayCast` to `[T; 3]`), compared with `$D::from_color_unclamped($S)` by value.
/// `$back`: what the in-place forms leave behind when the guard goes away (the conversion back).
macro_rules! forms_one { ($out:expr, $T:ty, $S:ty, $D:ty, $tag:expr, $inputs:expr) => {{
    let out: &mut Out = $out;
    let tag: String = $tag;
    let ins: Vec<[$T; 3]> = $inputs.iter().map(|c| arr_of::<$T, 3>(*c)).collect();
    let plain: Vec<[$T; 3]> = ins.iter().map(|a| one::<$S, $D, $T>(*a)).collect();
    let back: Vec<[$T; 3]> = plain.iter().map(|a| one::<$D, $S, $T>(*a)).collect();
    let show = |i: usize, got: &[$T; 3]| format!("{:?}: {:?}, from_color_unclamped by value {:?}", ins[i], got, plain[i]);
    for (i, a) in ins.iter().enumerate() {
        let alpha: $T = <$T as Fl>::of(((i * 37) % 101) as f64 / 100.0);
        let s: $S = cast::from_array(*a);
        // ---- (5) the source-side entry point
        let d: $D = IntoColorUnclamped::<$D>::into_color_unclamped(s);
        let d: [$T; 3] = cast::into_array(d);
        out.check(same_bits(&d, &plain[i]), &format!("into-color-unclamped=from-color-unclamped:{}", tag), || show(i, &d));
        // ---- (4) Alpha -> Alpha, alpha of the component type (alpha.rs: blanket impl over `WithAlpha::split`)
        let s: $S = cast::from_array(*a);
        let r: Alpha<$D, $T> = Alpha::<$D, $T>::from_color_unclamped(Alpha { color: s, alpha });
        let (rc, ra): ([$T; 3], $T) = (cast::into_array(r.color), r.alpha);
        out.check(same_bits(&rc, &plain[i]), &format!("alpha->alpha:colour=plain:{}", tag), || show(i, &rc));
        out.check(bits_eq(ra, alpha), &format!("alpha->alpha:alpha-kept:{}", tag), || format!("{:?} alpha {:?} -> alpha {:?}", a, alpha, ra));
        // ---- Alpha -> Alpha, alpha of another type
        let s: $S = cast::from_array(*a);
        let a8 = (i * 29 % 256) as u8;
        let r: Alpha<$D, u8> = Alpha::<$D, u8>::from_color_unclamped(Alpha { color: s, alpha: a8 });
        let (rc, ra): ([$T; 3], u8) = (cast::into_array(r.color), r.alpha);
        out.check(same_bits(&rc, &plain[i]) && ra == a8, &format!("alpha(u8)->alpha(u8)=plain:{}", tag), || format!("{} (alpha {} -> {})", show(i, &rc), a8, ra));
        // ---- Alpha -> plain (derive-generated for every destination type)
        let s: $S = cast::from_array(*a);
        let r: $D = <$D>::from_color_unclamped(Alpha { color: s, alpha });
        let rc: [$T; 3] = cast::into_array(r);
        out.check(same_bits(&rc, &plain[i]), &format!("alpha->plain=plain:{}", tag), || show(i, &rc));
        // ---- plain -> Alpha: the colour is the plain conversion, the alpha a valid (in-gamut) alpha
        let s: $S = cast::from_array(*a);
        let r: Alpha<$D, $T> = Alpha::<$D, $T>::from_color_unclamped(s);
        let (rc, ra): ([$T; 3], $T) = (cast::into_array(r.color), r.alpha);
        out.check(same_bits(&rc, &plain[i]) && ra.to64() >= 0.0 && ra.to64() <= 1.0, &format!("plain->alpha=plain:{}", tag), || format!("{} (alpha {:?})", show(i, &rc), ra));
        // ---- (5) in place, single colour: through the guard, and what is left behind
        let mut s: $S = cast::from_array(*a);
        { let g = <$D as FromColorUnclampedMut<$S>>::from_color_unclamped_mut(&mut s); let seen: [$T; 3] = cast::into_array(*g);
          out.check(same_bits(&seen, &plain[i]), &format!("from-color-unclamped-mut=by-value:{}", tag), || show(i, &seen)); }
        let left: [$T; 3] = cast::into_array(s);
        out.check(same_bits(&left, &back[i]), &format!("from-color-unclamped-mut-restored=converted-back:{}", tag), || format!("{:?}: left behind {:?}, the conversion back by value gives {:?}", a, left, back[i]));
    }
    // ---- (5) collections
    let srcs_v: Vec<$S> = ins.iter().map(|a| cast::from_array::<$S>(*a)).collect();
    let v: Vec<$D> = Vec::<$D>::from_color_unclamped(srcs_v.clone());
    out.check(v.len() == plain.len(), &format!("vec=elementwise:{}", tag), || format!("length {} from {}", v.len(), plain.len()));
    for (i, d) in v.iter().enumerate().take(plain.len()) { let d: [$T; 3] = cast::into_array(*d); out.check(same_bits(&d, &plain[i]), &format!("vec=elementwise:{}", tag), || format!("element {} {}", i, show(i, &d))); }
    let bx: Box<[$D]> = Box::<[$D]>::from_color_unclamped(srcs_v.clone().into_boxed_slice());
    out.check(bx.len() == plain.len(), &format!("box=elementwise:{}", tag), || format!("length {} from {}", bx.len(), plain.len()));
    for (i, d) in bx.iter().enumerate().take(plain.len()) { let d: [$T; 3] = cast::into_array(*d); out.check(same_bits(&d, &plain[i]), &format!("box=elementwise:{}", tag), || format!("element {} {}", i, show(i, &d))); }
    let v2: Vec<$D> = IntoColorUnclamped::<Vec<$D>>::into_color_unclamped(srcs_v.clone());
    for (i, d) in v2.iter().enumerate().take(plain.len()) { let d: [$T; 3] = cast::into_array(*d); out.check(same_bits(&d, &plain[i]), &format!("vec-into=elementwise:{}", tag), || format!("element {} {}", i, show(i, &d))); }
    // in place, slice: `<[D]>::from_color_unclamped_mut(&mut [S])` and the source-side `into_color_unclamped_mut`
    for via in 0..2 {
        let mut work: Vec<$S> = srcs_v.clone();
        {
            let seen: Vec<[$T; 3]> = if via == 0 { let g = <[$D] as FromColorUnclampedMut<[$S]>>::from_color_unclamped_mut(&mut work[..]); g.iter().map(|d| cast::into_array(*d)).collect() }
                                     else { let g = IntoColorUnclampedMut::<[$D]>::into_color_unclamped_mut(&mut work[..]); g.iter().map(|d| cast::into_array(*d)).collect() };
            let name = if via == 0 { "slice-from-color-unclamped-mut=elementwise" } else { "slice-into-color-unclamped-mut=elementwise" };
            out.check(seen.len() == plain.len(), &format!("{}:{}", name, tag), || format!("length {} from {}", seen.len(), plain.len()));
            for (i, d) in seen.iter().enumerate().take(plain.len()) { out.check(same_bits(d, &plain[i]), &format!("{}:{}", name, tag), || format!("element {} {}", i, show(i, d))); }
        }
        for (i, s) in work.iter().enumerate() { let left: [$T; 3] = cast::into_array(*s);
            out.check(same_bits(&left, &back[i]), &format!("slice-unclamped-mut-restored=converted-back:{}", tag), || format!("element {} {:?}: left behind {:?}, the conversion back by value gives {:?}", i, ins[i], left, back[i])); }
    }
    out.count_n(&format!("cls:forms:{}", tag), ins.len() as u64);
}} }

/// one cylindrical space `$C` against one RGB type `$R`, both directions
macro_rules! forms_pair { ($out:expr, $T:ty, $C:ty, $R:ty, $cn:expr, $rn:expr, $cyl:expr, $rgbs:expr) => {
    forms_one!($out, $T, $C, $R, format!("{}->{}:{}", $cn, $rn, <$T as Fl>::TAG), $cyl);
    forms_one!($out, $T, $R, $C, format!("{}->{}:{}", $rn, $cn, <$T as Fl>::TAG), $rgbs);
} }

macro_rules! forms_family { ($fname:ident, $t:ty) => {
fn $fname(out: &mut Out, rng: &mut Rng, srcs: &[[f64; 3]], n: usize) {
    type T = $t; type S = encoding::Srgb; type L = Linear<encoding::Srgb>;
    let (c1, rgbs) = form_inputs(rng, srcs, 1.0, false, n);
    let (cw, _) = form_inputs(rng, srcs, 1.0, true, n);
    let (c100, _) = form_inputs(rng, srcs, 100.0, false, n);
    forms_pair!(out, T, Hsv<S, T>, Rgb<S, T>, "Hsv", "Srgb", &c1, &rgbs);       forms_pair!(out, T, Hsv<L, T>, Rgb<L, T>, "Hsv", "LinSrgb", &c1, &rgbs);
    forms_pair!(out, T, Hsl<S, T>, Rgb<S, T>, "Hsl", "Srgb", &c1, &rgbs);       forms_pair!(out, T, Hsl<L, T>, Rgb<L, T>, "Hsl", "LinSrgb", &c1, &rgbs);
    forms_pair!(out, T, Hwb<S, T>, Rgb<S, T>, "Hwb", "Srgb", &cw, &rgbs);       forms_pair!(out, T, Hwb<L, T>, Rgb<L, T>, "Hwb", "LinSrgb", &cw, &rgbs);
    forms_pair!(out, T, Okhsv<T>, Rgb<S, T>, "Okhsv", "Srgb", &c1, &rgbs);      forms_pair!(out, T, Okhsv<T>, Rgb<L, T>, "Okhsv", "LinSrgb", &c1, &rgbs);
    forms_pair!(out, T, Okhsl<T>, Rgb<S, T>, "Okhsl", "Srgb", &c1, &rgbs);      forms_pair!(out, T, Okhsl<T>, Rgb<L, T>, "Okhsl", "LinSrgb", &c1, &rgbs);
    forms_pair!(out, T, Okhwb<T>, Rgb<S, T>, "Okhwb", "Srgb", &cw, &rgbs);      forms_pair!(out, T, Okhwb<T>, Rgb<L, T>, "Okhwb", "LinSrgb", &cw, &rgbs);
    forms_pair!(out, T, Hsluv<D65, T>, Rgb<S, T>, "Hsluv", "Srgb", &c100, &rgbs); forms_pair!(out, T, Hsluv<D65, T>, Rgb<L, T>, "Hsluv", "LinSrgb", &c100, &rgbs);
}
}}
forms_family!(forms_f32, f32);
forms_family!(forms_f64, f64);

pub fn run_more(out: &mut Out, rng: &mut Rng, srcs: &[[f64; 3]], tier: &str, threads: usize) {
    let _ = TARGETS;
    standards::<f32>(out, &more_spaces_f32(), srcs, tier, threads);
    standards::<f64>(out, &more_spaces_f64(), srcs, tier, threads);
    at_api_bounds::<f32>(out, &spaces_f32(), api_bounds_f32);
    at_api_bounds::<f64>(out, &spaces_f64(), api_bounds_f64);
    turns::<f32>(out, spaces_f32(), threads);
    turns::<f64>(out, spaces_f64(), threads);
    let n = if tier == "thorough" { 2000 } else { 150 };
    forms_f32(out, rng, srcs, n);
    forms_f64(out, rng, srcs, n);
}
