//! C14, coverage audit (AUDIT_C14.md): the forms, configurations and entry points inside the property's quantifier that `c14.rs` did not drive.
//!  A. the deprecated adaptation API (`Method`, `TransformMatrix::generate_transform_matrix`, `AdaptFrom` / `AdaptInto`): its own code path
//!     (no `Matrix3`, no `TypeId` shortcut), every ordered pair of the 16 white points (the DCI white included: it has no `HasXyzMeta`, so this
//!     API and dynamic white points are the only ways to adapt from / to it) x Bradford / von Kries / XYZ scaling x f32 / f64
//!  B. the new API: trait entry points for every pair (not a 5 x 5 subset), identity for every white point and method, DCI and scaled
//!     whites as dynamic white points, one-sided dynamic white points (`Some(..), None`)
//!  C. every white point under Lab / Luv / Lch / Lchuv in both directions (the linear toe 0 < L* <= 8 of the way back in particular) and on to an
//!     RGB space with that white point, `(Srgb primaries, W)`
//!  D. the RGB standards c14.rs leaves out (DciP3Plus<F> has its own matrix pair; Gamma<S>, tuple standards, Linear<S> of every space)
//!  E. integer components: "all components at maximum" for u8 / u16 through the look-up-table transfer functions
//!  F. the matrices themselves through `Xyz::matrix_from_rgb`, `Rgb::matrix_from_xyz`, `Matrix3::{then, invert, identity, convert, convert_once}`
//!  G. Oklab of white and of grays for every D65 standard (not only sRGB's shortcut), f32 and f64
//!  H. CAM16 lightness of the adopted white (every white point, static and dynamic, every surround / discounting)
#![allow(deprecated)]
use crate::common::*;
use crate::conv_common::*;
use palette::cam16::{Cam16, Discounting, Parameters, StaticWp, Surround};
use palette::cast::{from_array, into_array};
use palette::chromatic_adaptation::{adaptation_matrix, AdaptFrom, AdaptFromUnclamped, AdaptInto, AdaptIntoUnclamped, Method, TransformMatrix};
use palette::convert::{Convert, ConvertOnce, FromColorUnclamped, Matrix3};
use palette::encoding::{self, DciP3, Linear};
use palette::lms::matrix::{Bradford, UnitMatrix, VonKries};
use palette::rgb::{Rgb, RgbSpace, RgbStandard};
use palette::white_point::*;
use palette::{Hsl, Hsv, Lab, Lch, Lchuv, Luv, Oklab, Oklch, Xyz};

/// `$mac!($args, W, "W")` for each of the 16 white point types of the crate
macro_rules! for_wps { ($mac:ident; $args:tt) => {
    $mac!($args, A, "A"); $mac!($args, B, "B"); $mac!($args, C, "C"); $mac!($args, D50, "D50"); $mac!($args, D55, "D55"); $mac!($args, D65, "D65"); $mac!($args, D75, "D75");
    $mac!($args, E, "E"); $mac!($args, F2, "F2"); $mac!($args, F7, "F7"); $mac!($args, F11, "F11"); $mac!($args, D50Degree10, "D50Degree10"); $mac!($args, D55Degree10, "D55Degree10");
    $mac!($args, D65Degree10, "D65Degree10"); $mac!($args, D75Degree10, "D75Degree10"); $mac!($args, DciP3, "DciP3");
} }
macro_rules! for_pairs { ($mac:ident; $args:tt; [$($a:ident),*]; $bs:tt) => { $( for_pairs!(@inner $mac; $args; $a; $bs); )* };
    (@inner $mac:ident; $args:tt; $a:ident; [$($b:ident),*]) => { $( $mac!($args, $a, $b); )* }; }

macro_rules! wp_push { ( ($v:ident, $t:ty), $w:ty, $n:expr ) => { $v.push(($n, into_array(<$w as WhitePoint<$t>>::get_xyz()))); } }
macro_rules! wp_table { ($f:ident, $t:ty) => {
    fn $f() -> Vec<(&'static str, [$t; 3])> {
        let mut v: Vec<(&'static str, [$t; 3])> = vec![];
        for_wps!(wp_push; (v, $t));
        v
    }
} }
wp_table!(wps_f32, f32);
wp_table!(wps_f64, f64);

fn mv<T: Fl>(m: &[T; 9], v: &[f64; 3]) -> [f64; 3] { let e = |k: usize| m[k].to64(); [e(0) * v[0] + e(1) * v[1] + e(2) * v[2], e(3) * v[0] + e(4) * v[1] + e(5) * v[2], e(6) * v[0] + e(7) * v[1] + e(8) * v[2]] }
fn maxdiff(a: &[f64; 3], b: &[f64; 3]) -> f64 { (0..3).map(|k| (a[k] - b[k]).abs()).fold(0.0, f64::max) }
fn method(k: usize) -> Method { match k { 0 => Method::Bradford, 1 => Method::VonKries, _ => Method::XyzScaling } }
const MNAMES: [&str; 3] = ["Bradford", "VonKries", "UnitMatrix"];

// ---------------------------------------------------------------------------------------------------------------------------------------
// A. deprecated API, the matrices: white points are run-time values here, so one loop covers all 16 x 16 x 3
macro_rules! deprecated_matrices { ($f:ident, $t:ty, $wps:ident) => {
    #[inline(never)] fn $f(out: &mut Out, rng: &mut Rng) {
        let wps = $wps();
        let tag = <$t as Fl>::TAG;
        // tolerances of the sibling clauses of c14.rs (adapt-white, adapt-roundtrip); identity between equal white points: this API has no shortcut,
        // the matrix is M^-1 * diag(1) * M of the 7-digit cone matrix pairs, within 2e-7 of the identity in exact arithmetic (C14_White), f32 adds rounding
        let (tol, tol_rt, tol_id) = if tag == "f32" { (4e-6, 2e-5, 4e-6) } else { (2e-7, 2e-6, 4e-7) };
        for k in 0..3 {
            let mname = MNAMES[k];
            let gen = |a: [$t; 3], b: [$t; 3]| -> [$t; 9] { <Method as TransformMatrix<$t>>::generate_transform_matrix(&method(k), from_array::<Xyz<Any, $t>>(a), from_array::<Xyz<Any, $t>>(b)) };
            let cone = <Method as TransformMatrix<$t>>::get_cone_response(&method(k));
            // the cone matrix pair this method hands out is a mutual inverse pair (what makes white land on white)
            {
                let (ma, inv): ([$t; 9], [$t; 9]) = (cone.ma, cone.inv_ma);
                for x in [[1.0, 0.0, 0.0], [0.0, 1.0, 0.0], [0.0, 0.0, 1.0]] {
                    let y = mv(&inv, &mv(&ma, &x));
                    out.check(maxdiff(&y, &x) <= if tag == "f32" { 2e-6 } else { 4e-7 }, &format!("deprecated-cone-pair-inverse:{}:{}", mname, tag), || format!("inv_ma * ma * {:?} = {:?}", x, y));
                }
            }
            for (iname, wi) in &wps { for (oname, wo) in &wps {
                let m = gen(*wi, *wo);
                let back = gen(*wo, *wi);
                out.case(&format!("adapt {} {} {} | | {}", iname, oname, mname, hx_list(&m)));
                let (wi64, wo64) = (to64(wi), to64(wo));
                let mapped = mv(&m, &wi64);
                let e = maxdiff(&mapped, &wo64);
                out.maxi(&format!("deprecated-adapt-white-err:{}", tag), e);
                out.check(e <= tol, &format!("deprecated-adapt-white:{}:{}", mname, tag), || format!("Method::{}.generate_transform_matrix({}, {}): white {:?} maps to {:?}, want {:?}", mname, iname, oname, wi, mapped, wo));
                if iname == oname {
                    let id = [1.0, 0.0, 0.0, 0.0, 1.0, 0.0, 0.0, 0.0, 1.0];
                    let e = (0..9).map(|j| (m[j].to64() - id[j]).abs()).fold(0.0, f64::max);
                    out.maxi(&format!("deprecated-adapt-identity-err:{}", tag), e);
                    out.check(e <= tol_id, &format!("deprecated-adapt-identity:{}:{}", mname, tag), || format!("Method::{}.generate_transform_matrix({}, {}) = {:?}", mname, iname, oname, m));
                }
                for _ in 0..2 {
                    let x = [rng.range(0.0, 1.2), rng.range(0.0, 1.2), rng.range(0.0, 1.2)];
                    let z = mv(&back, &mv(&m, &x));
                    let e = maxdiff(&z, &x);
                    out.maxi(&format!("deprecated-adapt-roundtrip-err:{}", tag), e);
                    out.check(e <= tol_rt, &format!("deprecated-adapt-roundtrip:{}:{}", mname, tag), || format!("{} -> {} -> {}: {:?} came back as {:?}", iname, oname, iname, x, z));
                }
                out.count("cls:deprecated-pair");
            } }
        }
    }
} }
deprecated_matrices!(deprecated_matrices_f32, f32, wps_f32);
deprecated_matrices!(deprecated_matrices_f64, f64, wps_f64);

// A. deprecated API, the trait entry points (static white point types: one instantiation per pair)
macro_rules! dep_entry_one { ($t:ty, $i:ty, $o:ty, $out:expr, $iname:expr, $oname:expr) => {{
    #[inline(never)] fn one(out: &mut Out, iname: &str, oname: &str) {
        let tag = <$t as Fl>::TAG;
        let wi: [$t; 3] = into_array(<$i as WhitePoint<$t>>::get_xyz());
        let wo: [$t; 3] = into_array(<$o as WhitePoint<$t>>::get_xyz());
        let tol = if tag == "f32" { 4e-6 } else { 2e-7 };
        let cols: [[$t; 3]; 3] = [wi, arr_of([0.3, 0.4, 0.2]), arr_of([0.9, 0.1, 0.6])];
        for k in 0..3 {
            let m: [$t; 9] = <Method as TransformMatrix<$t>>::generate_transform_matrix(&method(k), from_array::<Xyz<Any, $t>>(wi), from_array::<Xyz<Any, $t>>(wo));
            for (ci, c) in cols.iter().enumerate() {
                let want = mv(&m, &to64(c));
                let a: [$t; 3] = into_array(<Xyz<$o, $t> as AdaptFrom<Xyz<$i, $t>, $i, $o, $t>>::adapt_from_using(from_array::<Xyz<$i, $t>>(*c), method(k)));
                let b: [$t; 3] = into_array(<Xyz<$i, $t> as AdaptInto<Xyz<$o, $t>, $i, $o, $t>>::adapt_into_using(from_array::<Xyz<$i, $t>>(*c), method(k)));
                // the matrix applied in T against the same matrix applied in f64: three products and two sums of terms <= ~2
                let close = |p: &[$t; 3]| (0..3).all(|j| (p[j].to64() - want[j]).abs() <= 16.0 * <$t as Fl>::eps() * (1.0 + want[j].abs()));
                out.check(close(&a) && close(&b), &format!("deprecated-entry-points:{}:{}", MNAMES[k], tag), || format!("{} -> {}: {:?}: matrix {:?}, adapt_from_using {:?}, adapt_into_using {:?}", iname, oname, c, want, a, b));
                if k == 0 {
                    let d: [$t; 3] = into_array(<Xyz<$o, $t> as AdaptFrom<Xyz<$i, $t>, $i, $o, $t>>::adapt_from(from_array::<Xyz<$i, $t>>(*c)));
                    let e: [$t; 3] = into_array(<Xyz<$i, $t> as AdaptInto<Xyz<$o, $t>, $i, $o, $t>>::adapt_into(from_array::<Xyz<$i, $t>>(*c)));
                    out.check(close(&d) && close(&e), &format!("deprecated-entry-points-default:{}", tag), || format!("{} -> {}: {:?}: Bradford matrix {:?}, adapt_from {:?}, adapt_into {:?}", iname, oname, c, want, d, e));
                }
                if ci == 0 {
                    // the property itself at the entry point: the source white lands on the destination white
                    let e = (0..3).map(|j| (a[j].to64() - wo[j].to64()).abs().max((b[j].to64() - wo[j].to64()).abs())).fold(0.0, f64::max);
                    out.check(e <= tol, &format!("deprecated-entry-white:{}:{}", MNAMES[k], tag), || format!("{} -> {}: white {:?} -> adapt_from_using {:?}, adapt_into_using {:?}, want {:?}", iname, oname, wi, a, b, wo));
                }
            }
        }
        out.count("cls:deprecated-entry-pair");
    }
    one($out, $iname, $oname);
}} }

// B. new API, trait entry points for every pair and every method; identity (exact bits) between equal white points
macro_rules! new_entry_m { ($t:ty, $i:ty, $o:ty, $m:ty, $mname:expr, $out:expr, $iname:expr, $oname:expr) => {{
    let tag = <$t as Fl>::TAG;
    let wi: [$t; 3] = into_array(<$i as WhitePoint<$t>>::get_xyz());
    let cols: [[$t; 3]; 3] = [wi, arr_of([0.3, 0.4, 0.2]), arr_of([0.9, 0.1, 0.6])];
    for c in cols {
        let a: [$t; 3] = into_array(<Xyz<$o, $t> as AdaptFromUnclamped<Xyz<$i, $t>>>::adapt_from_unclamped_with::<$m>(from_array::<Xyz<$i, $t>>(c)));
        let b: [$t; 3] = into_array(<Xyz<$i, $t> as AdaptIntoUnclamped<Xyz<$o, $t>>>::adapt_into_unclamped_with::<$m>(from_array::<Xyz<$i, $t>>(c)));
        let (d, e): ([$t; 3], [$t; 3]) = if $mname == "Bradford" {
            (into_array(<Xyz<$o, $t> as AdaptFromUnclamped<Xyz<$i, $t>>>::adapt_from_unclamped(from_array::<Xyz<$i, $t>>(c))), into_array(<Xyz<$i, $t> as AdaptIntoUnclamped<Xyz<$o, $t>>>::adapt_into_unclamped(from_array::<Xyz<$i, $t>>(c))))
        } else { (a, b) };
        if $iname == $oname {
            let same = |p: &[$t; 3]| p.iter().zip(c.iter()).all(|(x, y)| x.to_bits() == y.to_bits());
            $out.check(same(&a) && same(&b) && same(&d) && same(&e), &format!("adapt-identity-all:{}:{}", $mname, tag), || format!("{} -> {}: {:?} -> adapt_from_unclamped_with {:?}, adapt_into_unclamped_with {:?}, default {:?} {:?}", $iname, $oname, c, a, b, d, e));
        } else {
            let fwd = adaptation_matrix::<$t, $i, $o, $m>(None, None);
            let want: [$t; 3] = into_array(fwd.convert(from_array::<Xyz<$i, $t>>(c)));
            let close = |p: &[$t; 3]| (0..3).all(|k| (p[k].to64() - want[k].to64()).abs() <= 8.0 * <$t as Fl>::eps() * (1.0 + want[k].to64().abs()));
            $out.check(close(&a) && close(&b) && close(&d) && close(&e), &format!("adapt-entry-points-all:{}:{}", $mname, tag), || format!("{} -> {}: {:?}: matrix {:?}, adapt_from_unclamped_with {:?}, adapt_into_unclamped_with {:?}, default {:?} {:?}", $iname, $oname, c, want, a, b, d, e));
        }
    }
}} }
macro_rules! new_entry_one { ($t:ty, $i:ty, $o:ty, $out:expr, $iname:expr, $oname:expr) => {{
    #[inline(never)] fn one(out: &mut Out, iname: &str, oname: &str) {
        new_entry_m!($t, $i, $o, Bradford, "Bradford", out, iname, oname);
        new_entry_m!($t, $i, $o, VonKries, "VonKries", out, iname, oname);
        new_entry_m!($t, $i, $o, UnitMatrix, "UnitMatrix", out, iname, oname);
        out.count("cls:entry-pair");
    }
    one($out, $iname, $oname);
}} }

// B. dynamic white points: DCI (no static form), whites given at another luminance, one-sided `Some(..), None`
macro_rules! dyn_per_m { ($t:ty, $m:ty, $mname:expr, $out:ident, $rng:ident, $wps:ident, $tag:ident, $tol:ident, $tol_rt:ident) => {
    for (iname, wi) in &$wps { for (oname, wo) in &$wps {
        let x = |a: [$t; 3]| from_array::<Xyz<D65, $t>>(a);
        let dynm = adaptation_matrix::<$t, D65, D65, $m>(Some(x(*wi)), Some(x(*wo)));
        if *iname == "DciP3" || *oname == "DciP3" {
            let back = adaptation_matrix::<$t, D65, D65, $m>(Some(x(*wo)), Some(x(*wi)));
            $out.case(&format!("adapt {} {} {} | | {}", iname, oname, $mname, hx_list(&dynm.into_array())));
            let mapped: [$t; 3] = into_array(dynm.convert(x(*wi)));
            let e = maxdiff(&to64(&mapped), &to64(wo));
            $out.check(e <= $tol, &format!("adapt-white-dci:{}:{}", $mname, $tag), || format!("adaptation_matrix(Some({}), Some({})): white {:?} maps to {:?}, want {:?}", iname, oname, wi, mapped, wo));
            for _ in 0..2 {
                let c: [$t; 3] = arr_of([$rng.range(0.0, 1.2), $rng.range(0.0, 1.2), $rng.range(0.0, 1.2)]);
                let z: [$t; 3] = into_array(back.convert(dynm.convert(x(c))));
                $out.check(maxdiff(&to64(&z), &to64(&c)) <= $tol_rt, &format!("adapt-roundtrip-dci:{}:{}", $mname, $tag), || format!("{} -> {} -> {}: {:?} came back as {:?}", iname, oname, iname, c, z));
            }
            $out.count("cls:adapt-pair-dci");
        }
        // a white point is a chromaticity: the same whites at four times the luminance (a power of two: `normalize` is exact) give the same matrix
        let s = |a: &[$t; 3]| x([a[0] * 4.0, a[1] * 4.0, a[2] * 4.0]);
        let scaled = adaptation_matrix::<$t, D65, D65, $m>(Some(s(wi)), Some(s(wo)));
        let (p, q) = (scaled.into_array(), dynm.into_array());
        $out.check(p.iter().zip(q.iter()).all(|(a, b)| a.to_bits() == b.to_bits()), &format!("adapt-dynamic-scaled-white:{}:{}", $mname, $tag), || format!("{} -> {}: whites x4 give {:?}, whites at Y = 1 give {:?}", iname, oname, p, q));
    } }
} }
macro_rules! dynamic_more { ($f:ident, $t:ty, $wps:ident) => {
    #[inline(never)] fn $f(out: &mut Out, rng: &mut Rng) {
        let wps = $wps();
        let tag = <$t as Fl>::TAG;
        let (tol, tol_rt) = if tag == "f32" { (4e-6, 2e-5) } else { (2e-7, 2e-6) };
        dyn_per_m!($t, Bradford, "Bradford", out, rng, wps, tag, tol, tol_rt);
        dyn_per_m!($t, VonKries, "VonKries", out, rng, wps, tag, tol, tol_rt);
        dyn_per_m!($t, UnitMatrix, "UnitMatrix", out, rng, wps, tag, tol, tol_rt);
    }
} }
dynamic_more!(dynamic_more_f32, f32, wps_f32);
dynamic_more!(dynamic_more_f64, f64, wps_f64);

/// one-sided dynamic white points: `adaptation_matrix::<T, D65, W, M>(Some(src), None)` and `::<T, W, D65, M>(None, Some(dst))` are the matrices
/// of the two-sided dynamic form (covered by c14.rs against the static pair), bit for bit
macro_rules! one_sided_m { ($t:ty, $w:ty, $wname:expr, $m:ty, $mname:expr, $out:ident, $wps:ident, $ww:ident, $tag:ident) => {
    for (vname, v) in &$wps {
        let a = adaptation_matrix::<$t, D65, $w, $m>(Some(from_array::<Xyz<D65, $t>>(*v)), None).into_array();
        let a2 = adaptation_matrix::<$t, D65, D65, $m>(Some(from_array::<Xyz<D65, $t>>(*v)), Some(from_array::<Xyz<D65, $t>>($ww))).into_array();
        let b = adaptation_matrix::<$t, $w, D65, $m>(None, Some(from_array::<Xyz<D65, $t>>(*v))).into_array();
        let b2 = adaptation_matrix::<$t, D65, D65, $m>(Some(from_array::<Xyz<D65, $t>>($ww)), Some(from_array::<Xyz<D65, $t>>(*v))).into_array();
        let same = |p: &[$t; 9], q: &[$t; 9]| p.iter().zip(q.iter()).all(|(x, y)| x.to_bits() == y.to_bits());
        $out.check(same(&a, &a2) && same(&b, &b2), &format!("adapt-one-sided-dynamic:{}:{}", $mname, $tag), || format!("white {} as value, {} as type: (Some, None) {:?} vs (Some, Some) {:?}; (None, Some) {:?} vs (Some, Some) {:?}", vname, $wname, a, a2, b, b2));
    }
} }
macro_rules! one_sided { ( ($out:ident, $t:ty, $wps:ident), $w:ty, $wname:expr ) => {{
    #[inline(never)] fn one(out: &mut Out) {
        let wps = $wps();
        let tag = <$t as Fl>::TAG;
        let ww: [$t; 3] = into_array(<$w as WhitePoint<$t>>::get_xyz());
        one_sided_m!($t, $w, $wname, Bradford, "Bradford", out, wps, ww, tag);
        one_sided_m!($t, $w, $wname, VonKries, "VonKries", out, wps, ww, tag);
        one_sided_m!($t, $w, $wname, UnitMatrix, "UnitMatrix", out, wps, ww, tag);
    }
    one($out);
}} }

// A. the deprecated traits on colours other than Xyz (the blanket impl converts through Xyz on both sides): RGB white -> RGB white of a space with
// another white point (the repo's own test does this for D50 only), L* = 100 stays L* = 100 with zero a*, b*
macro_rules! dep_colors { ( ($out:ident, $t:ty), $w:ty, $wname:expr ) => {{
    #[inline(never)] fn one(out: &mut Out) {
        let tag = format!("{}:{}", $wname, <$t as Fl>::TAG);
        type Dst = Rgb<Linear<(encoding::Srgb, $w)>, $t>;
        type Src = Rgb<Linear<encoding::Srgb>, $t>;
        // sRGB's 7-digit matrix misses D65 by <= 6e-7, the adaptation lands within 1e-7, the derived inverse matrix of (Srgb, W) has norm <= 6
        let tol = if <$t as Fl>::TAG == "f32" { 2e-5 } else { 6e-6 };
        for k in 0..3 {
            let a: [$t; 3] = into_array(<Dst as AdaptFrom<Src, D65, $w, $t>>::adapt_from_using(from_array::<Src>(arr_of([1.0, 1.0, 1.0])), method(k)));
            let b: [$t; 3] = into_array(<Src as AdaptInto<Dst, D65, $w, $t>>::adapt_into_using(from_array::<Src>(arr_of([1.0, 1.0, 1.0])), method(k)));
            let e = a.iter().chain(b.iter()).map(|v| (v.to64() - 1.0).abs()).fold(0.0, f64::max);
            out.maxi(&format!("deprecated-rgb-white-err:{}", <$t as Fl>::TAG), e);
            out.check(e <= tol, &format!("deprecated-rgb-white-to-white:{}:{}", MNAMES[k], tag), || format!("linear sRGB white adapted to (Srgb, {}): adapt_from_using {:?}, adapt_into_using {:?}", $wname, a, b));
            let tol_ab = if <$t as Fl>::TAG == "f32" { 4e-3 } else { 2e-4 };
            let tol_l = if <$t as Fl>::TAG == "f32" { 2e-4 } else { 1e-4 };
            for l in [100.0, 50.0, 5.0] {
                let lab: [$t; 3] = into_array(<Lab<$w, $t> as AdaptFrom<Lab<D65, $t>, D65, $w, $t>>::adapt_from_using(from_array::<Lab<D65, $t>>(arr_of([l, 0.0, 0.0])), method(k)));
                out.check(lab[1].to64().abs() <= tol_ab && lab[2].to64().abs() <= tol_ab && (lab[0].to64() - l).abs() <= tol_l, &format!("deprecated-lab-neutral-stays-neutral:{}:{}", MNAMES[k], tag), || format!("Lab<D65> ({}, 0, 0) adapted to {}: {:?}", l, $wname, lab));
            }
        }
    }
    one($out);
}} }

// ---------------------------------------------------------------------------------------------------------------------------------------
// C. every white point under Lab / Luv / Lch / Lchuv, both directions, and on to an RGB space that has this white point
macro_rules! wp_cie { ( ($out:ident, $tier:ident, $t:ty), $w:ty, $wname:expr ) => {{
    #[inline(never)] fn one(out: &mut Out, tier: &str) {
        let t_tag = <$t as Fl>::TAG;
        let tag = format!("{}:{}", $wname, t_tag);
        let eps = <$t as Fl>::eps();
        let w: [$t; 3] = into_array(<$w as WhitePoint<$t>>::get_xyz());
        let w64 = to64(&w);
        type Sp = Linear<(encoding::Srgb, $w)>;
        // forward: g * w has ratios x/xn = y/yn = z/zn = g up to one rounding each.  a* = 500 (f(x/xn) - f(y/yn)): 500 * 7.787 * 2 ulp(g) on the toe, 500/3 * g^(-2/3) * 2 ulp(g)
        // in the cube root branch, both <= 8e3 * eps; u* = 13 L* (u' - u'n) with u', u'n a few roundings apart: 1300 * 8 eps.  L*(white) = 116 * cbrt(1) - 16.
        let (tol_ab, tol_uv, tol_l) = (8e3 * eps, 2e4 * eps, 4e2 * eps);
        let n = if tier == "thorough" { 4096 } else { 256 };
        for i in 0..=(n + 64) {
            // 64 extra levels on the toe: Y <= 0.008856 (L* <= 8)
            let g = if i <= n { i as f64 / n as f64 } else { 0.0089 * (i - n) as f64 / 64.0 };
            let xa: [$t; 3] = arr_of([g * w64[0], g * w64[1], g * w64[2]]);
            let lab: [$t; 3] = into_array(Lab::<$w, $t>::from_color_unclamped(from_array::<Xyz<$w, $t>>(xa)));
            let luv: [$t; 3] = into_array(Luv::<$w, $t>::from_color_unclamped(from_array::<Xyz<$w, $t>>(xa)));
            let lch: [$t; 3] = into_array(Lch::<$w, $t>::from_color_unclamped(from_array::<Xyz<$w, $t>>(xa)));
            let lchuv: [$t; 3] = into_array(Lchuv::<$w, $t>::from_color_unclamped(from_array::<Xyz<$w, $t>>(xa)));
            out.maxi(&format!("wp-gray-lab-ab:{}", t_tag), lab[1].to64().abs().max(lab[2].to64().abs()));
            out.maxi(&format!("wp-gray-luv-uv:{}", t_tag), luv[1].to64().abs().max(luv[2].to64().abs()));
            out.check(lab[1].to64().abs() <= tol_ab && lab[2].to64().abs() <= tol_ab && lch[1].to64().abs() <= 1.5 * tol_ab, &format!("wp-gray-neutral-lab:{}", tag), || format!("{} * white {:?} = {:?} -> Lab {:?}, Lch {:?}", g, w, xa, lab, lch));
            out.check(luv[1].to64().abs() <= tol_uv && luv[2].to64().abs() <= tol_uv && lchuv[1].to64().abs() <= 1.5 * tol_uv, &format!("wp-gray-neutral-luv:{}", tag), || format!("{} * white {:?} = {:?} -> Luv {:?}, Lchuv {:?}", g, w, xa, luv, lchuv));
            if i == n {
                out.maxi(&format!("wp-white-L-err:{}", t_tag), (lab[0].to64() - 100.0).abs().max((luv[0].to64() - 100.0).abs()));
                out.check((lab[0].to64() - 100.0).abs() <= tol_l && (luv[0].to64() - 100.0).abs() <= tol_l, &format!("wp-white-L-100:{}", tag), || format!("white {:?} -> Lab {:?}, Luv {:?}", w, lab, luv));
            }
            out.count("cls:wp-gray");
        }
        // back: the exact neutral (L, 0, 0) / (L, 0, any hue) is a multiple of the white point, and equal components in an RGB space with this white
        // point.  Lab: x = y = z before the white point multiplies, so X/xn = Y/yn exactly up to the final products.  Luv: u' = u'n, v' = v'n, then
        // X = Y * 2.25 u'/v', Z = Y (3 - 0.75 u' - 5 v')/v' where the bracket is 9 zn/(xn + 15 yn + 3 zn) >= 0.18 of terms <= 3: ~20 roundings of relative size.
        let (tol_lab_back, tol_luv_back) = (8.0 * eps, 128.0 * eps);
        // the matrices of (Srgb, W) are derived in T and inverted in T (no table): white -> (1,1,1) up to the conditioning of the primaries matrix (<= ~10 per entry)
        let tol_rgb = 256.0 * eps;
        let mut ls: Vec<f64> = vec![1e-7, 9e-6, 1e-5, 1.1e-5, 1e-3, 7.9999, 8.0, 8.0001, 100.0];
        let nb = if tier == "thorough" { 2048 } else { 128 };
        for i in 1..=nb { ls.push(8.0 * i as f64 / nb as f64); ls.push(8.0 + 92.0 * i as f64 / nb as f64); }
        for l in ls {
            let lt = <$t as Fl>::of(l);
            let zero = <$t as Fl>::of(0.0);
            let hue = <$t as Fl>::of(123.0);
            let from_lab: [$t; 3] = into_array(Xyz::<$w, $t>::from_color_unclamped(from_array::<Lab<$w, $t>>([lt, zero, zero])));
            let from_lch: [$t; 3] = into_array(Xyz::<$w, $t>::from_color_unclamped(from_array::<Lch<$w, $t>>([lt, zero, hue])));
            let from_luv: [$t; 3] = into_array(Xyz::<$w, $t>::from_color_unclamped(from_array::<Luv<$w, $t>>([lt, zero, zero])));
            let from_lchuv: [$t; 3] = into_array(Xyz::<$w, $t>::from_color_unclamped(from_array::<Lchuv<$w, $t>>([lt, zero, hue])));
            // distance from Y * w, relative to Y
            let off = |x: &[$t; 3]| { let y = x[1].to64(); (0..3).map(|k| (x[k].to64() - y * w64[k] / w64[1]).abs()).fold(0.0, f64::max) / y.abs().max(1e-300) };
            let black = |x: &[$t; 3]| x.iter().all(|v| v.to64() == 0.0);
            let (e1, e2, e3, e4) = (off(&from_lab), off(&from_lch), off(&from_luv), off(&from_lchuv));
            out.maxi(&format!("wp-neutral-lab-back-off:{}", t_tag), e1.max(e2));
            out.maxi(&format!("wp-neutral-luv-back-off:{}", t_tag), if black(&from_luv) { 0.0 } else { e3 }.max(if black(&from_lchuv) { 0.0 } else { e4 }));
            out.check(e1 <= tol_lab_back && e2 <= tol_lab_back, &format!("wp-neutral-lab-back-is-scaled-white:{}", tag), || format!("Lab ({}, 0, 0) -> Xyz {:?}, Lch ({}, 0, 123) -> Xyz {:?}, white {:?}", l, from_lab, l, from_lch, w));
            out.check((black(&from_luv) || e3 <= tol_luv_back) && (black(&from_lchuv) || e4 <= tol_luv_back), &format!("wp-neutral-luv-back-is-scaled-white:{}", tag), || format!("Luv ({}, 0, 0) -> Xyz {:?}, Lchuv ({}, 0, 123) -> Xyz {:?}, white {:?}", l, from_luv, l, from_lchuv, w));
            for (sn, x) in [("Lab", from_lab), ("Luv", from_luv)] {
                let rgb: [$t; 3] = into_array(Rgb::<Sp, $t>::from_color_unclamped(from_array::<Xyz<$w, $t>>(x)));
                let m = rgb.iter().map(|v| v.to64().abs()).fold(0.0, f64::max);
                let spread = rgb.iter().map(|v| v.to64()).fold(f64::MIN, f64::max) - rgb.iter().map(|v| v.to64()).fold(f64::MAX, f64::min);
                out.maxi(&format!("wp-neutral-back-rgb-spread:{}", t_tag), spread / m.max(1e-300));
                out.check(spread <= tol_rgb * m, &format!("wp-neutral-back-equal-rgb:{}:{}", sn, tag), || format!("{} ({}, 0, 0) -> Xyz {:?} -> linear (Srgb, {}) {:?}", sn, l, x, $wname, rgb));
            }
            out.count("cls:wp-neutral-back");
        }
        // and the whole way: gray of the RGB space with this white point -> Xyz -> Lab / Luv -> Xyz -> RGB
        for i in 0..=64 {
            let g = if i <= 48 { i as f64 / 48.0 } else { 0.0089 * (i - 48) as f64 / 16.0 };
            let xa: [$t; 3] = into_array(Xyz::<$w, $t>::from_color_unclamped(from_array::<Rgb<Sp, $t>>(arr_of([g, g, g]))));
            let lab: [$t; 3] = into_array(Lab::<$w, $t>::from_color_unclamped(from_array::<Xyz<$w, $t>>(xa)));
            let luv: [$t; 3] = into_array(Luv::<$w, $t>::from_color_unclamped(from_array::<Xyz<$w, $t>>(xa)));
            // the derived matrix sends (1,1,1) to the white point up to its own rounding (a few hundred eps through the inverse of the primaries matrix)
            out.check(lab[1].to64().abs() <= 40.0 * tol_ab && lab[2].to64().abs() <= 40.0 * tol_ab && luv[1].to64().abs() <= 40.0 * tol_uv && luv[2].to64().abs() <= 40.0 * tol_uv, &format!("wp-rgb-gray-neutral:{}", tag), || format!("gray {} of (Srgb, {}) -> Xyz {:?} -> Lab {:?}, Luv {:?}", g, $wname, xa, lab, luv));
            let b1: [$t; 3] = into_array(Rgb::<Sp, $t>::from_color_unclamped(Xyz::<$w, $t>::from_color_unclamped(from_array::<Lab<$w, $t>>(lab))));
            let b2: [$t; 3] = into_array(Rgb::<Sp, $t>::from_color_unclamped(Xyz::<$w, $t>::from_color_unclamped(from_array::<Luv<$w, $t>>(luv))));
            let spread = |v: &[$t; 3]| v.iter().map(|x| x.to64()).fold(f64::MIN, f64::max) - v.iter().map(|x| x.to64()).fold(f64::MAX, f64::min);
            // a*, b* of size 40 tol_ab come back as a relative channel difference of about that / 100
            let tol_back = 40.0 * tol_uv / 100.0 * (g + 1e-3) + tol_rgb;
            out.maxi(&format!("wp-rgb-gray-roundtrip-spread:{}", t_tag), spread(&b1).max(spread(&b2)) / (g + 1e-3));
            out.check(spread(&b1) <= tol_back && (black3(&b2) || spread(&b2) <= tol_back), &format!("wp-rgb-gray-back-equal:{}", tag), || format!("gray {} of (Srgb, {}) -> Lab {:?} -> {:?}; -> Luv {:?} -> {:?}", g, $wname, lab, b1, luv, b2));
        }
    }
    one($out, $tier);
}} }
fn black3<T: Fl>(v: &[T; 3]) -> bool { v.iter().all(|x| x.to64() == 0.0) }

// ---------------------------------------------------------------------------------------------------------------------------------------
// D / F. further RGB standards; the matrix pair through the Matrix3 API
macro_rules! std_more { ($out:expr, $grays:expr, $S:ty, $name:expr, $line:expr, $t:ty) => {{
    type Space = <$S as RgbStandard>::Space;
    type Wp = <Space as RgbSpace>::WhitePoint;
    type Pr = <Space as RgbSpace>::Primaries;
    type LinS = Linear<Space>;
    let t_tag = <$t as Fl>::TAG;
    let tag = format!("{}:{}", $name, t_tag);
    let wp: [f64; 3] = into_array(<Wp as WhitePoint<f64>>::get_xyz());
    // tolerances: those of c14.rs `standard_one` (7-digit tables)
    let tol_w = if t_tag == "f32" { 3e-6 } else { 1e-6 };
    let white: [$t; 3] = into_array(Xyz::<Wp, $t>::from_color_unclamped(from_array::<Rgb<$S, $t>>(arr_of([1.0, 1.0, 1.0]))));
    let e = maxdiff(&to64(&white), &wp);
    $out.maxi(&format!("rgb-white-err:{}", t_tag), e);
    $out.check(e <= tol_w, &format!("rgb-white-is-whitepoint:{}", tag), || format!("white -> {:?}, white point {:?}", white, wp));
    // the clamping entry points (`FromColor` / `IntoColor`: the blanket impl clamps to `Xyz::max_x() ..`, which are read from the white point again; Lab / Luv clamp L* to 100)
    {
        use palette::{FromColor, IntoColor};
        let c1: [$t; 3] = into_array(Xyz::<Wp, $t>::from_color(from_array::<Rgb<$S, $t>>(arr_of([1.0, 1.0, 1.0]))));
        let c2: Xyz<Wp, $t> = from_array::<Rgb<$S, $t>>(arr_of([1.0, 1.0, 1.0])).into_color();
        let c2: [$t; 3] = into_array(c2);
        $out.check(maxdiff(&to64(&c1), &wp) <= tol_w && maxdiff(&to64(&c2), &wp) <= tol_w, &format!("rgb-white-is-whitepoint:clamped:{}", tag), || format!("white -> from_color {:?}, into_color {:?}, white point {:?}", c1, c2, wp));
        let (tol_ab, tol_uv, tol_l) = if t_tag == "f32" { (4e-3, 2e-2, 2e-4) } else { (2e-4, 1.5e-3, 1e-4) };
        let lab: [$t; 3] = into_array(Lab::<Wp, $t>::from_color(from_array::<Xyz<Wp, $t>>(white)));
        let luv: [$t; 3] = into_array(Luv::<Wp, $t>::from_color(from_array::<Xyz<Wp, $t>>(white)));
        $out.check((lab[0].to64() - 100.0).abs() <= tol_l && (luv[0].to64() - 100.0).abs() <= tol_l && lab[1].to64().abs() <= tol_ab && lab[2].to64().abs() <= tol_ab && luv[1].to64().abs() <= tol_uv && luv[2].to64().abs() <= tol_uv,
            &format!("white-L-100:clamped:{}", tag), || format!("white -> Lab::from_color {:?}, Luv::from_color {:?}", lab, luv));
    }
    let line: Option<&str> = $line;   // the name the model driver knows this standard (or its space) by
    if let Some(n) = line { $out.case(&format!("rgbwhite {} | | {}", n, hx_list(&white))); }
    let (tol_ab, tol_uv, tol_l) = if t_tag == "f32" { (4e-3, 2e-2, 2e-4) } else { (2e-4, 1.5e-3, 1e-4) };
    for i in 0..=$grays {
        let g = i as f64 / $grays as f64;
        let xa: [$t; 3] = into_array(Xyz::<Wp, $t>::from_color_unclamped(from_array::<Rgb<$S, $t>>(arr_of([g, g, g]))));
        let lab: [$t; 3] = into_array(Lab::<Wp, $t>::from_color_unclamped(from_array::<Xyz<Wp, $t>>(xa)));
        let luv: [$t; 3] = into_array(Luv::<Wp, $t>::from_color_unclamped(from_array::<Xyz<Wp, $t>>(xa)));
        let lch: [$t; 3] = into_array(Lch::<Wp, $t>::from_color_unclamped(from_array::<Xyz<Wp, $t>>(xa)));
        let lchuv: [$t; 3] = into_array(Lchuv::<Wp, $t>::from_color_unclamped(from_array::<Xyz<Wp, $t>>(xa)));
        $out.check(lab[1].to64().abs() <= tol_ab && lab[2].to64().abs() <= tol_ab && lch[1].to64().abs() <= 1.5 * tol_ab, &format!("gray-neutral-lab:{}", tag), || format!("gray {} -> Lab {:?}, Lch {:?}", g, lab, lch));
        $out.check(luv[1].to64().abs() <= tol_uv && luv[2].to64().abs() <= tol_uv && lchuv[1].to64().abs() <= 1.5 * tol_uv, &format!("gray-neutral-luv:{}", tag), || format!("gray {} -> Luv {:?}, Lchuv {:?}", g, luv, lchuv));
        if i == $grays { $out.check((lab[0].to64() - 100.0).abs() <= tol_l && (luv[0].to64() - 100.0).abs() <= tol_l, &format!("white-L-100:{}", tag), || format!("white -> Lab {:?}, Luv {:?}", lab, luv)); }
        let hsv: [$t; 3] = into_array(Hsv::<$S, $t>::from_color_unclamped(from_array::<Rgb<$S, $t>>(arr_of([g, g, g]))));
        let hsl: [$t; 3] = into_array(Hsl::<$S, $t>::from_color_unclamped(from_array::<Rgb<$S, $t>>(arr_of([g, g, g]))));
        $out.check(hsv[1].to64() == 0.0 && hsl[1].to64() == 0.0, &format!("gray-neutral-hsv-hsl:{}", tag), || format!("gray {} -> Hsv {:?}, Hsl {:?}", g, hsv, hsl));
        let back: [$t; 3] = into_array(Rgb::<$S, $t>::from_color_unclamped(from_array::<Xyz<Wp, $t>>(xa)));
        if back.iter().all(|v| v.finite()) {
            let spread = back.iter().map(|v| v.to64()).fold(f64::MIN, f64::max) - back.iter().map(|v| v.to64()).fold(f64::MAX, f64::min);
            $out.check(spread <= 4e-3, &format!("gray-back-equal:{}", tag), || format!("gray {} -> {:?} -> {:?}", g, xa, back));
            // in linear light the way back is a matrix: tight
            let lin: [$t; 3] = into_array(Rgb::<LinS, $t>::from_color_unclamped(from_array::<Xyz<Wp, $t>>(xa)));
            let spread = lin.iter().map(|v| v.to64()).fold(f64::MIN, f64::max) - lin.iter().map(|v| v.to64()).fold(f64::MAX, f64::min);
            let m = lin.iter().map(|v| v.to64().abs()).fold(0.0, f64::max);
            $out.check(spread <= (if t_tag == "f32" { 2e-5 } else { 2e-6 }) * (m + 1e-3), &format!("gray-back-equal-linear:{}", tag), || format!("gray {} -> {:?} -> linear {:?}", g, xa, lin));
        } else { $out.count("cls:gray-back-nonfinite(C07)"); }
        $out.count("cls:gray-more");
    }
    // F. the matrices themselves
    let f: Matrix3<Rgb<LinS, $t>, Xyz<Wp, $t>> = Xyz::<Wp, $t>::matrix_from_rgb::<LinS>();
    let b: Matrix3<Xyz<Wp, $t>, Rgb<LinS, $t>> = Rgb::<LinS, $t>::matrix_from_xyz();
    let (fa, ba): ([$t; 9], [$t; 9]) = (f.into_array(), b.into_array());
    let id = [1.0, 0.0, 0.0, 0.0, 1.0, 0.0, 0.0, 0.0, 1.0];
    let dist = |p: &[$t; 9], q: &[f64; 9]| (0..9).map(|k| (p[k].to64() - q[k]).abs()).fold(0.0, f64::max);
    // mutual inverses: decided <= 1e-6 in exact arithmetic for the tables (C14_White), f32 adds the rounding of entries up to 3.2
    let tol_inv = if t_tag == "f32" { 4e-6 } else { 1.2e-6 };
    let (fb, bf): ([$t; 9], [$t; 9]) = (f.then(b).into_array(), b.then(f).into_array());
    $out.maxi(&format!("rgb-matrix-pair-err:{}", t_tag), dist(&fb, &id).max(dist(&bf, &id)));
    $out.check(dist(&fb, &id) <= tol_inv && dist(&bf, &id) <= tol_inv, &format!("rgb-matrices-inverse:then:{}", tag), || format!("rgb->xyz then xyz->rgb = {:?}, xyz->rgb then rgb->xyz = {:?}", fb, bf));
    // |inv(F) - B| <= |B| |I - F B|: entries of B are <= 3.3
    let (fi, bi): ([$t; 9], [$t; 9]) = (f.invert().into_array(), b.invert().into_array());
    let tol_invert = if t_tag == "f32" { 4e-5 } else { 1.2e-5 };
    $out.maxi(&format!("rgb-matrix-invert-err:{}", t_tag), dist(&fi, &to64(&ba)).max(dist(&bi, &to64(&fa))));
    $out.check(dist(&fi, &to64(&ba)) <= tol_invert && dist(&bi, &to64(&fa)) <= tol_invert, &format!("rgb-matrices-inverse:invert:{}", tag), || format!("invert(rgb->xyz) = {:?} vs xyz->rgb {:?}; invert(xyz->rgb) = {:?} vs rgb->xyz {:?}", fi, ba, bi, fa));
    // agree with the matrix derived from the primaries and the white point (the tuple space has no table): decided <= 5e-7 for rgb->xyz (C02); the inverse direction
    // amplifies by |B|^2
    let fd: [$t; 9] = Xyz::<Wp, $t>::matrix_from_rgb::<Linear<(Pr, Wp)>>().into_array();
    let bd: [$t; 9] = Rgb::<Linear<(Pr, Wp)>, $t>::matrix_from_xyz().into_array();
    let (tol_d, tol_db) = if t_tag == "f32" { (2e-6, 2e-5) } else { (6e-7, 6e-6) };
    $out.maxi(&format!("rgb-matrix-vs-derived:{}", t_tag), dist(&fa, &to64(&fd)));
    $out.maxi(&format!("rgb-matrix-back-vs-derived:{}", t_tag), dist(&ba, &to64(&bd)));
    $out.check(dist(&fa, &to64(&fd)) <= tol_d && dist(&ba, &to64(&bd)) <= tol_db, &format!("rgb-matrices-agree-with-derived:{}", tag), || format!("rgb->xyz {:?} derived {:?}; xyz->rgb {:?} derived {:?}", fa, fd, ba, bd));
    // the conversions are these matrices: `convert`, `convert_once`, the FromColorUnclamped edge, bit for bit; the identity matrix changes nothing
    for c in [[1.0, 1.0, 1.0], [0.5, 0.5, 0.5], [1.0, 0.0, 0.0], [0.0, 1.0, 0.0], [0.0, 0.0, 1.0], [0.2, 0.5, 0.8]] {
        let ct: [$t; 3] = arr_of(c);
        let x1: [$t; 3] = into_array(f.convert(from_array::<Rgb<LinS, $t>>(ct)));
        let x2: [$t; 3] = into_array(f.convert_once(from_array::<Rgb<LinS, $t>>(ct)));
        let x3: [$t; 3] = into_array(Xyz::<Wp, $t>::from_color_unclamped(from_array::<Rgb<LinS, $t>>(ct)));
        let r1: [$t; 3] = into_array(b.convert(from_array::<Xyz<Wp, $t>>(x1)));
        let r2: [$t; 3] = into_array(b.convert_once(from_array::<Xyz<Wp, $t>>(x1)));
        let r3: [$t; 3] = into_array(Rgb::<LinS, $t>::from_color_unclamped(from_array::<Xyz<Wp, $t>>(x1)));
        let same = |p: &[$t; 3], q: &[$t; 3]| p.iter().zip(q.iter()).all(|(a, b)| a.to_bits() == b.to_bits());
        $out.check(same(&x1, &x2) && same(&x1, &x3) && same(&r1, &r2) && same(&r1, &r3), &format!("rgb-matrix=conversion:{}", tag), || format!("{:?}: convert {:?} convert_once {:?} from_color_unclamped {:?}; back {:?} {:?} {:?}", c, x1, x2, x3, r1, r2, r3));
        let e = (0..3).map(|k| (r1[k].to64() - c[k]).abs()).fold(0.0, f64::max);
        $out.check(e <= 10.0 * tol_inv, &format!("rgb-matrices-inverse:colour:{}", tag), || format!("{:?} -> Xyz {:?} -> {:?}", c, x1, r1));
        let i1: [$t; 3] = into_array(Matrix3::<Xyz<Wp, $t>, Xyz<Wp, $t>>::identity().convert(from_array::<Xyz<Wp, $t>>(x1)));
        let fid: [$t; 9] = f.then(Matrix3::<Xyz<Wp, $t>, Xyz<Wp, $t>>::identity()).into_array();
        $out.check(same(&i1, &x1) && (0..9).all(|k| fid[k] == fa[k]), &format!("matrix3-identity:{}", tag), || format!("identity * {:?} = {:?}; M.then(identity) = {:?}, M = {:?}", x1, i1, fid, fa));
    }
    $out.count("cls:standard-more");
}} }

// E. integer components: all components at maximum is white (through the look-up tables), integer grays are neutral and come back as equal components
macro_rules! int_std { ($out:expr, $S:ty, $name:expr, $u:ty, $step:expr, $t:ty) => {{
    type Space = <$S as RgbStandard>::Space;
    type Wp = <Space as RgbSpace>::WhitePoint;
    let t_tag = <$t as Fl>::TAG;
    let tag = format!("{}:{}->{}", $name, stringify!($u), t_tag);
    let wp: [f64; 3] = into_array(<Wp as WhitePoint<f64>>::get_xyz());
    let max = <$u>::MAX;
    let lin: [$t; 3] = into_array(Rgb::<$S, $u>::new(max, max, max).into_linear::<$t>());
    let white: [$t; 3] = into_array(Xyz::<Wp, $t>::from_color_unclamped(from_array::<Rgb<Linear<Space>, $t>>(lin)));
    let tol_w = if t_tag == "f32" { 3e-6 } else { 1e-6 };
    $out.check(lin.iter().all(|v| v.to64() == 1.0) && maxdiff(&to64(&white), &wp) <= tol_w, &format!("rgb-white-is-whitepoint:{}", tag), || format!("({}, {}, {}) -> linear {:?} -> Xyz {:?}, white point {:?}", max, max, max, lin, white, wp));
    let (tol_ab, tol_uv) = if t_tag == "f32" { (4e-3, 2e-2) } else { (2e-4, 1.5e-3) };
    let mut v: u32 = 0;
    while v <= max as u32 {
        let g = v as $u;
        let lin: [$t; 3] = into_array(Rgb::<$S, $u>::new(g, g, g).into_linear::<$t>());
        let xa: [$t; 3] = into_array(Xyz::<Wp, $t>::from_color_unclamped(from_array::<Rgb<Linear<Space>, $t>>(lin)));
        let lab: [$t; 3] = into_array(Lab::<Wp, $t>::from_color_unclamped(from_array::<Xyz<Wp, $t>>(xa)));
        let luv: [$t; 3] = into_array(Luv::<Wp, $t>::from_color_unclamped(from_array::<Xyz<Wp, $t>>(xa)));
        $out.check(lin[0] == lin[1] && lin[1] == lin[2] && lab[1].to64().abs() <= tol_ab && lab[2].to64().abs() <= tol_ab && luv[1].to64().abs() <= tol_uv && luv[2].to64().abs() <= tol_uv,
            &format!("gray-neutral-int:{}", tag), || format!("gray {} -> linear {:?} -> Xyz {:?} -> Lab {:?}, Luv {:?}", g, lin, xa, lab, luv));
        // back to integer components: equal, as the property says (the linear channels agree to ~1e-6; none of these levels sits that close to a rounding boundary)
        let back_lin = Rgb::<Linear<Space>, $t>::from_color_unclamped(from_array::<Xyz<Wp, $t>>(xa));
        let back: [$u; 3] = into_array(Rgb::<$S, $u>::from_linear(back_lin));
        let (hi, lo) = (*back.iter().max().unwrap(), *back.iter().min().unwrap());
        $out.check(hi == lo && (hi as i64 - g as i64).abs() <= 1, &format!("gray-back-equal-int:{}", tag), || format!("gray {} -> Xyz {:?} -> {:?}", g, xa, back));
        $out.count("cls:gray-int");
        v += $step;
    }
}} }

// G. Oklab of white / grays of every D65 standard
macro_rules! ok_std { ($out:expr, $S:ty, $name:expr, $t:ty) => {{
    let t_tag = <$t as Fl>::TAG;
    let tag = format!("{}:{}", $name, t_tag);
    // "Oklab (1, 0, 0) for D65" holds to 4e-5 and no better (C14_GrayOk: the crate's 5-digit D65 is not the white Ottosson's M1 normalises); c14.rs checks 1e-4
    // (f64) and 1e-4 for f32 grays; f32 white adds the rounding of the matrices
    let tol = if t_tag == "f32" { 1.2e-4 } else { 1e-4 };
    for i in 0..=64 {
        let g = i as f64 / 64.0;
        let lab: [$t; 3] = into_array(Oklab::<$t>::from_color_unclamped(from_array::<Rgb<$S, $t>>(arr_of([g, g, g]))));
        let lch: [$t; 3] = into_array(Oklch::<$t>::from_color_unclamped(from_array::<Rgb<$S, $t>>(arr_of([g, g, g]))));
        $out.maxi(&format!("gray-oklab-ab-std:{}", t_tag), lab[1].to64().abs().max(lab[2].to64().abs()));
        $out.check(lab[1].to64().abs() <= tol && lab[2].to64().abs() <= tol && lch[1].to64().abs() <= 1.5 * tol, &format!("gray-neutral-oklab:{}", tag), || format!("gray {} -> Oklab {:?}, Oklch {:?}", g, lab, lch));
        {
            let hsl: [$t; 3] = into_array(palette::Okhsl::<$t>::from_color_unclamped(from_array::<Rgb<$S, $t>>(arr_of([g, g, g]))));
            let hsv: [$t; 3] = into_array(palette::Okhsv::<$t>::from_color_unclamped(from_array::<Rgb<$S, $t>>(arr_of([g, g, g]))));
            // Okhsv saturation of a gray: the Oklab chroma (<= 4e-5 by C14_GrayOkRgb, checked to 1e-4 above) over a denominator that stays above ~0.3 on the gray
            // axis: observed <= 1.25e-4 for every standard and level, white included; 5e-4 is a searched constant like the f32 tolerances.  Okhsl (and HSLuv) saturation
            // is recorded only: it divides by the distance to the white pole and reaches 0.56 .. 0.98 (HSLuv: 254 of 100) AT white, see AUDIT_C14.md, open gap 1.
            $out.check(hsv[1].finite() && hsv[1].to64().abs() <= 5e-4, &format!("gray-neutral-okhsv:{}", tag), || format!("gray {} -> Okhsv {:?}", g, hsv));
            if hsl[1].finite() && hsv[1].finite() { $out.maxi(&format!("gray-okhsl-saturation(info):{}", tag), hsl[1].to64().abs()); $out.maxi(&format!("gray-okhsv-saturation(info):{}", tag), hsv[1].to64().abs()); }
            else { $out.count("cls:gray-okhs-nonfinite(info)"); }
        }
        if i == 64 { $out.check((lab[0].to64() - 1.0).abs() <= tol, &format!("oklab-white:{}", tag), || format!("white -> Oklab {:?}", lab)); }
    }
}} }

// H. CAM16: the adopted white has lightness 100
macro_rules! cam_white { ( ($out:ident, $t:ty), $w:ty, $wname:expr ) => {{
    #[inline(never)] fn one(out: &mut Out) {
        let t_tag = <$t as Fl>::TAG;
        let w: [$t; 3] = into_array(<$w as WhitePoint<$t>>::get_xyz());
        // J = 100 (A/A_w)^(c z) where A is computed from the white by the same expressions as A_w: a few roundings of a power <= 2 of a ratio ~1
        let tol = 2e3 * <$t as Fl>::eps();
        for la in [0.5, 40.0, 1000.0] { for yb in [0.05, 0.2, 0.9] { for s in 0..5 { for d in 0..3 {
            let sur = |s: usize| match s { 0 => Surround::Dark, 1 => Surround::Dim, 2 => Surround::Average, 3 => Surround::Percent(<$t as Fl>::of(3.7)), _ => Surround::Percent(<$t as Fl>::of(8.9)) };
            let dis = |d: usize| match d { 0 => Discounting::Auto, 1 => Discounting::Custom(<$t as Fl>::of(1.0)), _ => Discounting::Custom(<$t as Fl>::of(0.35)) };
            let mut p = Parameters::<StaticWp<$w>, $t>::default_static_wp(<$t as Fl>::of(la));
            p.background_luminance = <$t as Fl>::of(yb); p.surround = sur(s); p.discounting = dis(d);
            let j1 = Cam16::<$t>::from_xyz(from_array::<Xyz<$w, $t>>(w), p.bake()).lightness;
            let mut q = Parameters::default_dynamic_wp(from_array::<Xyz<Any, $t>>(w), <$t as Fl>::of(la));
            q.background_luminance = <$t as Fl>::of(yb); q.surround = sur(s); q.discounting = dis(d);
            let j2 = Cam16::<$t>::from_xyz(from_array::<Xyz<Any, $t>>(w), q.bake()).lightness;
            // the same white at another luminance scale (Y_w = 100), as a dynamic white point
            let w100 = [w[0] * 100.0, w[1] * 100.0, w[2] * 100.0];
            let mut r = Parameters::default_dynamic_wp(from_array::<Xyz<Any, $t>>(w100), <$t as Fl>::of(la));
            r.background_luminance = <$t as Fl>::of(yb * 100.0); r.surround = sur(s); r.discounting = dis(d);
            let j3 = Cam16::<$t>::from_xyz(from_array::<Xyz<Any, $t>>(w100), r.bake()).lightness;
            out.maxi(&format!("cam16-white-J-err:{}", t_tag), (j1.to64() - 100.0).abs().max((j2.to64() - 100.0).abs()).max((j3.to64() - 100.0).abs()));
            out.check((j1.to64() - 100.0).abs() <= tol && (j2.to64() - 100.0).abs() <= tol && (j3.to64() - 100.0).abs() <= tol, &format!("cam16-adopted-white-J-100:{}:{}", $wname, t_tag),
                || format!("white {:?}, L_A {}, Y_b {}, surround #{}, discounting #{}: J = {:?} (static), {:?} (dynamic), {:?} (dynamic, Y_w = 100)", w, la, yb, s, d, j1, j2, j3));
            out.count("cls:cam16-white");
        } } } }
    }
    one($out);
}} }
/// RGB white of a standard under viewing conditions whose adopted white is the standard's white point: J = 100 up to the 7-digit matrix (6e-7 relative in XYZ,
/// times 100 c z / 2 <= 1e2)
macro_rules! cam_rgb_white { ($out:expr, $S:ty, $name:expr, $t:ty) => {{
    type Wp = <<$S as RgbStandard>::Space as RgbSpace>::WhitePoint;
    let t_tag = <$t as Fl>::TAG;
    let white = Xyz::<Wp, $t>::from_color_unclamped(from_array::<Rgb<$S, $t>>(arr_of([1.0, 1.0, 1.0])));
    for s in 0..3 {
        let mut p = Parameters::<StaticWp<Wp>, $t>::default_static_wp(<$t as Fl>::of(40.0));
        p.surround = match s { 0 => Surround::Dark, 1 => Surround::Dim, _ => Surround::Average };
        let j = Cam16::<$t>::from_xyz(white, p.bake()).lightness;
        $out.maxi(&format!("cam16-rgb-white-J-err:{}", t_tag), (j.to64() - 100.0).abs());
        $out.check((j.to64() - 100.0).abs() <= if t_tag == "f32" { 4e-4 } else { 1e-4 }, &format!("cam16-rgb-white-J-100:{}:{}", $name, t_tag), || format!("RGB white -> Xyz {:?} -> J {:?} (surround #{})", white, j, s));
    }
}} }

pub fn run_more(out: &mut Out, rng: &mut Rng, tier: &str) {
    crate::wp_published::run(out, "C14");   // constants of white_point.rs against the published table (witness for a wrong literal)
    // A
    deprecated_matrices_f32(out, rng);
    deprecated_matrices_f64(out, rng);
    {
        macro_rules! dep_case { ( ($out:ident), $i:ident, $o:ident ) => {{
            dep_entry_one!(f32, $i, $o, $out, stringify!($i), stringify!($o)); dep_entry_one!(f64, $i, $o, $out, stringify!($i), stringify!($o));
        }} }
        for_pairs!(dep_case; (out); [A, B, C, D50, D55, D65, D75, E, F2, F7, F11, D50Degree10, D55Degree10, D65Degree10, D75Degree10, DciP3]; [A, B, C, D50, D55, D65, D75, E, F2, F7, F11, D50Degree10, D55Degree10, D65Degree10, D75Degree10, DciP3]);
        for_wps!(dep_colors; (out, f32)); for_wps!(dep_colors; (out, f64));
    }
    // B
    {
        macro_rules! entry_case { ( ($out:ident), $i:ident, $o:ident ) => {{
            new_entry_one!(f32, $i, $o, $out, stringify!($i), stringify!($o)); new_entry_one!(f64, $i, $o, $out, stringify!($i), stringify!($o));
        }} }
        for_pairs!(entry_case; (out); [A, B, C, D50, D55, D65, D75, E, F2, F7, F11, D50Degree10, D55Degree10, D65Degree10, D75Degree10]; [A, B, C, D50, D55, D65, D75, E, F2, F7, F11, D50Degree10, D55Degree10, D65Degree10, D75Degree10]);
        dynamic_more_f32(out, rng);
        dynamic_more_f64(out, rng);
        macro_rules! one_sided_static { ($args:tt, DciP3, $n:expr) => {}; ($args:tt, $w:ident, $n:expr) => { one_sided!($args, $w, $n); } }
        for_wps!(one_sided_static; (out, f32, wps_f32)); for_wps!(one_sided_static; (out, f64, wps_f64));
    }
    // C
    for_wps!(wp_cie; (out, tier, f32)); for_wps!(wp_cie; (out, tier, f64));
    // D, F
    {
        let grays = if tier == "thorough" { 4096 } else { 256 };
        macro_rules! both { ($S:ty, $n:expr, $line:expr) => { std_more!(out, grays, $S, $n, $line, f32); std_more!(out, grays, $S, $n, $line, f64); } }
        both!(encoding::p3::DciP3Plus<encoding::p3::P3Gamma>, "DciP3Plus", Some("DciP3Plus"));
        both!(encoding::p3::DciP3Plus<encoding::linear::LinearFn>, "DciP3Plus<LinearFn>", None);
        both!(Linear<encoding::p3::DciP3Plus<encoding::p3::P3Gamma>>, "Linear<DciP3Plus>", Some("DciP3Plus"));
        both!(encoding::gamma::Gamma<encoding::Srgb>, "Gamma<Srgb>", Some("GammaSrgb"));
        both!(encoding::gamma::Gamma<encoding::AdobeRgb>, "Gamma<AdobeRgb>", None);
        both!((encoding::Rec2020, encoding::Srgb), "(Rec2020, Srgb fn)", None);
        both!((encoding::Srgb, D65, encoding::Srgb), "(Srgb, D65, Srgb fn)", None);
        both!((encoding::DisplayP3, D50, encoding::linear::LinearFn), "(DisplayP3, D50, LinearFn)", None);
        both!(Linear<encoding::AdobeRgb>, "Linear<AdobeRgb>", Some("LinAdobeRgb"));
        both!(Linear<encoding::Rec2020>, "Linear<Rec2020>", Some("LinRec2020"));
        both!(Linear<encoding::DisplayP3>, "Linear<DisplayP3>", Some("LinDisplayP3"));
        both!(Linear<encoding::DciP3>, "Linear<DciP3>", Some("LinDciP3"));
        both!(Linear<encoding::ProPhotoRgb>, "Linear<ProPhotoRgb>", Some("LinProPhotoRgb"));
        // the matrix API of the eight standards c14.rs drives through the conversions only (few grays: their ramp is c14.rs's)
        macro_rules! mat { ($S:ty, $n:expr) => { std_more!(out, 16, $S, $n, None, f32); std_more!(out, 16, $S, $n, None, f64); } }
        mat!(encoding::Srgb, "Srgb"); mat!(Linear<encoding::Srgb>, "LinSrgb"); mat!(encoding::AdobeRgb, "AdobeRgb"); mat!(encoding::Rec709, "Rec709");
        mat!(encoding::Rec2020, "Rec2020"); mat!(encoding::DisplayP3, "DisplayP3"); mat!(encoding::DciP3, "DciP3"); mat!(encoding::ProPhotoRgb, "ProPhotoRgb");
    }
    // E
    {
        macro_rules! ints { ($S:ty, $n:expr, $u:ty, $step:expr) => { int_std!(out, $S, $n, $u, $step, f32); int_std!(out, $S, $n, $u, $step, f64); } }
        ints!(encoding::Srgb, "Srgb", u8, 1); ints!(encoding::AdobeRgb, "AdobeRgb", u8, 1); ints!(encoding::Rec709, "Rec709", u8, 1); ints!(encoding::Rec2020, "Rec2020", u8, 1);
        ints!(encoding::DisplayP3, "DisplayP3", u8, 1); ints!(encoding::DciP3, "DciP3", u8, 1); ints!(encoding::p3::DciP3Plus<encoding::p3::P3Gamma>, "DciP3Plus", u8, 1);
        ints!(encoding::ProPhotoRgb, "ProPhotoRgb", u16, if tier == "thorough" { 1 } else { 51 });
    }
    // G
    {
        macro_rules! ok { ($S:ty, $n:expr) => { ok_std!(out, $S, $n, f32); ok_std!(out, $S, $n, f64); } }
        ok!(encoding::Srgb, "Srgb"); ok!(Linear<encoding::Srgb>, "LinSrgb"); ok!(encoding::Rec709, "Rec709"); ok!(encoding::AdobeRgb, "AdobeRgb"); ok!(encoding::Rec2020, "Rec2020"); ok!(encoding::DisplayP3, "DisplayP3");
        let w: [f32; 3] = into_array(Oklab::<f32>::from_color_unclamped(<D65 as WhitePoint<f32>>::get_xyz().with_white_point::<D65>()));
        out.check((w[0] as f64 - 1.0).abs() <= 1.2e-4 && (w[1] as f64).abs() <= 1.2e-4 && (w[2] as f64).abs() <= 1.2e-4, "oklab-white:f32", || format!("D65 -> Oklab {:?}", w));
    }
    // H
    for_wps!(cam_white; (out, f32)); for_wps!(cam_white; (out, f64));
    {
        macro_rules! cw { ($S:ty, $n:expr) => { cam_rgb_white!(out, $S, $n, f32); cam_rgb_white!(out, $S, $n, f64); } }
        cw!(encoding::Srgb, "Srgb"); cw!(encoding::AdobeRgb, "AdobeRgb"); cw!(encoding::Rec709, "Rec709"); cw!(encoding::Rec2020, "Rec2020"); cw!(encoding::DisplayP3, "DisplayP3");
        cw!(encoding::DciP3, "DciP3"); cw!(encoding::p3::DciP3Plus<encoding::p3::P3Gamma>, "DciP3Plus"); cw!(encoding::ProPhotoRgb, "ProPhotoRgb");
    }
}
