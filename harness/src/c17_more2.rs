//! C17, third part (coverage audit, table in AUDIT_C17.md).  Oracle: implementation against implementation, lane i of the SIMD result —
//! values AND masks — against the scalar result on lane i's input, with the tolerance class of the sibling clause (`exact` / `approx` /
//! `cond`, see c17.rs and c17_more.rs).  Nothing here demands more than those.
//!
//! 1. LANE PATTERNS (`pattern_groups`, `pattern_op_groups`; called from `edge4!`/`op4!`/`within4!` of c17.rs and `more4!` of c17_more.rs, i.e.
//!    for EVERY conversion edge and operation those files drive): two inputs X, Y that take different branches / hold a special value are
//!    placed into the lanes according to every one of the 2^N assignments (N = 2, 4: all; N = 8: all 256 for the first pairs, and the
//!    half/half, single-lane, all-but-one, alternating, pairwise patterns for the rest).  The groups of c17.rs are random: a change that
//!    misbehaves for one particular mask pattern of one wide type (`f32x8` with exactly lanes 0-3 true) was only hit by chance.
//!    X ranges over the special values of the space (black, -0, subnormal, the exact thresholds of the piecewise formulas, white, hue sector
//!    ends, zero chroma), over operand ties / swapped operands / the ends of the per-lane parameter, Y over generic colours.
//!    Clause names: those of the sibling clause with `pat:` in front of the operation name.
//! 2. `vmask` patterns: every one of the 2^N masks through compare / select / lazy_select / & | ^ ! / is_true / is_false, with special
//!    payloads (NaN, infinities, -0, subnormal) in the selected values; protocol lines for the model (op `vmask`).
//! 3. the numeric traits of `num/wide.rs` with a special operand (0, -0, subnormal, MIN_POSITIVE, 1, thresholds) in ONE lane at every lane
//!    position, generic operands in the others; `from_array` / `into_array` / `from_scalar` against `wide`'s own array conversion.
//! 4. packing: the `PreAlpha` arms of `impl_simd_array_conversion!` (never executed before), and the 13 colour types whose invocation of
//!    the macro was not driven (Luma, Okhsl, Okhsv, Okhwb, Cam16, Cam16UcsJab, Cam16UcsJmh, the six partial CAM16 types), non-default
//!    type parameters; `simdpack` protocol lines where the driver's table has the type with three components.
//! 5. slice forms on SIMD colours: `[C<V>]: IsWithinBounds` (the `&=` loop whose early exit is a whole-vector `is_false()`), `[C<V>]: ClampAssign`.
//! 6. the five hue types (one macro, five instantiations; only LabHue / RgbHue were driven), Alpha / PreAlpha wrapper forms of the
//!    operators and conversions, a second set of CAM16 viewing conditions.
//! 7. f32 against f64 for the operations (c17.rs checks it for the 30 conversion edges only): `prec_op`, the rule of `prec_edge`.
use crate::c17::{class_of, lane_cmp, Cmp};
use crate::c17_more::{cmp1, Tol};
use crate::common::*;
use palette::blend::{PreAlpha, Premultiply};
use palette::bool_mask::{BoolMask, LazySelect, Select};
use palette::cam16::{Cam16, Cam16Jch, Cam16Jmh, Cam16Jsh, Cam16Qch, Cam16Qmh, Cam16Qsh, Cam16UcsJab, Cam16UcsJmh};
use palette::cast::{self, ArrayCast};
use palette::encoding::{Linear, Srgb};
use palette::num::{FromScalar, FromScalarArray, IntoScalarArray, IsValidDivisor, PartialCmp};
use palette::rgb::Rgb;
use palette::white_point::{D50, D65};
use palette::{Alpha, ClampAssign, Hsl, Hsluv, Hsv, Hwb, IsWithinBounds, Lab, Lch, Lchuv, Luv, Okhsl, Okhsv, Okhwb, Oklab, Oklch, Xyz, Yxy};
use std::collections::BTreeMap;
use std::panic::{catch_unwind, AssertUnwindSafe};
use wide::{f32x4, f32x8, f64x2, f64x4};

pub type Groups = Vec<(Vec<[f64; 3]>, Vec<[f64; 3]>, Vec<f64>)>;

// ------------------------------------------------------------------------------------------------------------------
// 1. lane patterns
// ------------------------------------------------------------------------------------------------------------------

/// the lane assignments: bit i set = lane i holds X.  `all` = every one of the 2^n; otherwise (n = 8) the structured ones
pub fn patterns(n: usize, all: bool) -> Vec<u32> {
    if n < 8 || all { return (0..(1u32 << n)).collect(); }
    let mut v: Vec<u32> = vec![0x00, 0xff, 0x0f, 0xf0, 0x55, 0xaa, 0x33, 0xcc, 0x3c, 0xc3, 0x03, 0xc0, 0x3f, 0xfc, 0x99, 0x66, 0x1e, 0x78];
    for i in 0..8 { v.push(1 << i); v.push(0xff ^ (1 << i)); }
    v.sort(); v.dedup(); v
}

/// in-gamut special values of a space: black, -0, subnormal, the exact thresholds of the piecewise formulas, white, sector ends, zero chroma
pub fn specials(space: &str) -> Vec<[f64; 3]> {
    let sp = space.strip_prefix("W:").unwrap_or(space);
    let e = 216.0 / 24389.0;
    match sp {
        "Rgb" | "RgbL" => { let t = if sp == "Rgb" { 0.04045 } else { 0.0031308 };
            vec![[0.0, 0.0, 0.0], [-0.0, -0.0, -0.0], [1.0, 1.0, 1.0], [t, t, t], [t, 0.5, 0.9], [nudge64(t, 1), 0.0, t], [nudge32(t as f32, 1) as f64, t, nudge32(t as f32, -1) as f64], [1e-40, 1e-40, 1e-40], [1e-310, 0.0, 1e-310],
                 [1.0, 0.0, 0.0], [0.0, 0.0, 1.0], [0.5, 0.5, 0.5], [0.5, 0.5, 0.0], [1.0, 0.0, 1.0], [0.75, 0.25, 0.25], [0.25, 0.75, 0.75], [1.17549435e-38, 0.0, 0.0]] }
        "Hsv" | "Hsl" | "Hwb" | "Okhsl" | "Okhsv" | "Okhwb" => { let w = sp == "Hwb" || sp == "Okhwb";
            let mut v = vec![[0.0, 0.0, 0.0], [-0.0, -0.0, -0.0], [0.0, 0.0, 1.0], [60.0, 1.0, 1.0], [120.0, 1.0, 0.5], [180.0, 0.0, 0.5], [240.0, 0.5, 0.5], [300.0, 1.0, 0.25], [360.0, 1.0, 0.5], [-60.0, 0.5, 0.75], [359.99999999999994, 1.0, 1.0],
                 [30.0, 1e-40, 1e-40], [90.0, 1.0, 1e-310], [0.0, 1.0, 0.0], [420.0, 0.25, 0.5]];
            if w { for c in v.iter_mut() { c[1] *= 0.5; c[2] *= 0.5; } v.push([10.0, 0.5, 0.5]); v.push([10.0, 1.0, 0.0]); v.push([10.0, 0.0, 1.0]); }
            v }
        "Xyz" => vec![[0.0, 0.0, 0.0], [-0.0, -0.0, -0.0], [0.95047, 1.0, 1.08883], [e * 0.95047, e, e * 1.08883], [0.3, e, 0.2], [0.3, nudge64(e, 1), 0.2], [0.3, nudge32(e as f32, -1) as f64, 0.2], [1e-40, 1e-40, 1e-40], [1e-310, 1e-310, 1e-310],
                      [0.0, 0.0, 0.5], [0.5, 0.0, 0.0], [1.17549435e-38, 1.17549435e-38, 1.17549435e-38], [2.2250738585072014e-308, 0.0, 0.0]],
        "Yxy" => vec![[0.0, 0.0, 0.0], [0.3, 0.0, 0.5], [0.3, -0.0, 0.5], [0.3127, 0.329, 1.0], [0.3, 1e-40, 0.5], [0.3, 1e-310, 0.5], [0.3, 1.17549435e-38, 0.5], [0.3127, 0.329, 0.0], [0.2, 1e-30, 0.1], [0.0, 0.329, 0.5]],
        "Lab" => vec![[0.0, 0.0, 0.0], [-0.0, -0.0, -0.0], [100.0, 0.0, 0.0], [8.0, 0.0, 0.0], [nudge64(8.0, 1), 0.0, 0.0], [nudge32(8.0, -1) as f64, 1.0, -1.0], [50.0, 0.0, 0.0], [50.0, 0.0, 20.0], [50.0, -20.0, 0.0], [50.0, 20.0, -0.0], [1e-40, 1e-40, 0.0], [7.9996, 1.0, -1.0]],
        "Luv" => vec![[0.0, 0.0, 0.0], [-0.0, -0.0, -0.0], [100.0, 0.0, 0.0], [8.0, 0.0, 0.0], [50.0, 0.0, 0.0], [50.0, 0.0, 20.0], [50.0, -20.0, 0.0], [1e-40, 1e-40, 0.0]],
        "Oklab" => vec![[0.0, 0.0, 0.0], [-0.0, -0.0, -0.0], [1.0, 0.0, 0.0], [0.5, 0.0, 0.0], [0.5, 0.0, 0.1], [0.5, -0.1, 0.0], [1e-40, 0.0, 0.0], [1e-310, 1e-310, 0.0]],
        "Lch" | "Lchuv" | "Hsluv" => { let v = vec![[0.0, 0.0, 0.0], [-0.0, -0.0, -0.0], [100.0, 0.0, 0.0], [50.0, 0.0, 0.0], [50.0, 0.0, 180.0], [50.0, 30.0, 0.0], [50.0, 30.0, 360.0], [50.0, 30.0, 90.0], [50.0, 30.0, 180.0], [50.0, 30.0, -180.0], [50.0, 30.0, 270.0], [8.0, 1e-40, 45.0], [50.0, 30.0, 540.0]];
            if sp == "Hsluv" { v.into_iter().map(|c| [c[2], c[1], c[0]]).collect() } else { v } }
        "Oklch" => vec![[0.0, 0.0, 0.0], [-0.0, -0.0, -0.0], [1.0, 0.0, 0.0], [0.5, 0.0, 0.0], [0.5, 0.0, 180.0], [0.5, 0.1, 0.0], [0.5, 0.1, 360.0], [0.5, 0.1, 90.0], [0.5, 0.1, 180.0], [0.5, 0.1, -180.0], [0.5, 1e-40, 45.0]],
        "Cam16Jch" | "Cam16Jmh" | "Cam16Jsh" | "Cam16Qch" | "Cam16Qmh" | "Cam16Qsh" | "Cam16UcsJmh" =>
            vec![[0.0, 0.0, 0.0], [50.0, 0.0, 0.0], [100.0, 0.0, 0.0], [50.0, 0.0, 120.0], [50.0, 20.0, 0.0], [50.0, 20.0, 360.0], [50.0, 20.0, -90.0], [50.0, 20.0, 180.0], [50.0, 20.0, 20.14], [50.0, 20.0, 90.0], [1e-30, 1e-30, 20.0]],
        "Cam16UcsJab" => vec![[0.0, 0.0, 0.0], [50.0, 0.0, 0.0], [100.0, 0.0, 0.0], [50.0, 20.0, 0.0], [50.0, 0.0, -20.0], [50.0, -0.0, 0.0], [1e-30, 1e-30, 0.0]],
        _ => vec![[0.0, 0.0, 0.0]],
    }
}

fn generic_of(pool: &[[f64; 3]], rng: &mut Rng) -> [f64; 3] {
    // a colour without zero / tiny components (falls back to whatever the pool has)
    for _ in 0..40 { let c = pool[rng.below(pool.len() as u64) as usize]; if c.iter().all(|x| x.abs() > 1e-3) { return c; } }
    pool[rng.below(pool.len() as u64) as usize]
}

fn different_class(space: &str, pool: &[[f64; 3]], rng: &mut Rng) -> ([f64; 3], [f64; 3]) {
    let sp = space.strip_prefix("W:").unwrap_or(space);
    let x = pool[rng.below(pool.len() as u64) as usize];
    for _ in 0..40 { let y = pool[rng.below(pool.len() as u64) as usize]; if class_of(sp, &y) != class_of(sp, &x) { return (x, y); } }
    (x, generic_of(pool, rng))
}

/// how many (X, Y) pairs get all 256 assignments on 8 lanes (the others: `patterns(8, false)`)
pub fn full8(thorough: bool) -> usize { if thorough { usize::MAX } else { 3 } }

fn spread<X: Clone>(pairs: &[(X, X)], n: usize, thorough: bool) -> Vec<Vec<X>> {
    let mut g = vec![];
    for (k, (x, y)) in pairs.iter().enumerate() {
        for m in patterns(n, k < full8(thorough)) { g.push((0..n).map(|i| if (m >> i) & 1 == 1 { x.clone() } else { y.clone() }).collect()); }
    }
    g
}

/// (X, Y) pairs of one-colour inputs: every special value of the space against a generic colour, the first two also against each other, and
/// pool colours of different branch classes
pub fn pattern_groups(space: &str, pool: &[[f64; 3]], n_lanes: usize, rng: &mut Rng, thorough: bool, out: &mut Out) -> Vec<Vec<[f64; 3]>> {
    let sp = specials(space);
    let mut pairs: Vec<([f64; 3], [f64; 3])> = vec![];
    for _ in 0..3 { pairs.push(different_class(space, pool, rng)); }
    for s in sp.iter() { pairs.push((*s, generic_of(pool, rng))); }
    if sp.len() > 2 { pairs.push((sp[0], sp[2])); }
    if thorough { for _ in 0..24 { pairs.push(different_class(space, pool, rng)); } }
    let g = spread(&pairs, n_lanes, thorough);
    out.count_n("cls:pattern-groups(every lane assignment of two inputs)", g.len() as u64);
    g
}

/// the same for two-colour operations with a per-lane parameter: special first operand, special second operand, tie, swapped operands,
/// the two ends / zero / sign of the parameter with the colours fixed
pub fn pattern_op_groups(space: &str, pool: &[[f64; 3]], n_lanes: usize, rng: &mut Rng, plo: f64, phi: f64, thorough: bool, out: &mut Out) -> Groups {
    type In = ([f64; 3], [f64; 3], f64);
    let sp = specials(space);
    let mut pairs: Vec<(In, In)> = vec![];
    let gp = |rng: &mut Rng| -> f64 { rng.range(plo, phi) };
    // different classes in both operands
    for _ in 0..2 { let (x, y) = different_class(space, pool, rng); let (u, v) = different_class(space, pool, rng); pairs.push(((x, u, gp(rng)), (y, v, gp(rng)))); }
    // operand order / tie
    { let (x, y) = different_class(space, pool, rng); let p = gp(rng); pairs.push(((x, y, p), (y, x, p))); let q = gp(rng); pairs.push(((x, x, q), (x, y, q))); }
    // parameter only: ends, zero, sign
    { let (x, y) = (generic_of(pool, rng), generic_of(pool, rng)); pairs.push(((x, y, plo), (x, y, phi))); pairs.push(((x, y, 0.0), (x, y, gp(rng)))); pairs.push(((x, y, -0.0), (x, y, phi)));
      if plo < 0.0 { pairs.push(((x, y, rng.range(plo, 0.0)), (x, y, rng.range(0.0, phi)))); } }
    // special value in the first / in the second operand / in both
    let ns = if thorough { sp.len() } else { sp.len().min(9) };
    for (k, s) in sp.iter().take(ns).enumerate() {
        let pe = *rng.pick(&[plo, phi, 0.0, 0.5 * (plo + phi)]);
        pairs.push(((*s, generic_of(pool, rng), pe), (generic_of(pool, rng), generic_of(pool, rng), gp(rng))));
        if k < 4 || thorough { pairs.push(((generic_of(pool, rng), *s, gp(rng)), (generic_of(pool, rng), generic_of(pool, rng), gp(rng)))); }
        if k < 2 { pairs.push(((*s, *s, pe), (generic_of(pool, rng), generic_of(pool, rng), gp(rng)))); }
    }
    let mut g: Groups = vec![];
    for lanes in spread(&pairs, n_lanes, thorough) { g.push((lanes.iter().map(|l| l.0).collect(), lanes.iter().map(|l| l.1).collect(), lanes.iter().map(|l| l.2).collect())); }
    out.count_n("cls:pattern-groups(every lane assignment of two inputs)", g.len() as u64);
    g
}

// ------------------------------------------------------------------------------------------------------------------
// 7. f32 against f64 for the operations
// ------------------------------------------------------------------------------------------------------------------

/// f32 against f64 on the scalar types, for an operation of c17_more.rs.  The rule of `prec_edge` (c17.rs): both are evaluated at the same
/// f32-representable input; tolerance 32 eps32 of the output's scale plus twice the measured conditioning of the f64 function at that
/// input (largest change of the f64 result when one input component moves by 4 f32 ulps, or by 4 eps32 of its natural scale - the rounding
/// of an intermediate of natural magnitude).  Inputs in f32's subnormal range are skipped (no relative precision there).  Masks are compared only where the
/// operation hands over the compared margin with a tolerance (`mask_tol`): an answer may differ when the margin is within that rule of 0.
pub fn prec_op(out: &mut Out, sp: &crate::c17_more::Spec, groups: &Groups,
    f32s: &dyn Fn([f32; 3], [f32; 3], f32) -> (Vec<f32>, Vec<(bool, f32)>), f64s: &dyn Fn([f64; 3], [f64; 3], f64) -> (Vec<f64>, Vec<(bool, f64)>)) {
    let name = sp.name.strip_prefix("pat:").unwrap_or(sp.name);
    let eps = f32::EPSILON as f64;
    // the distinct inputs of the pattern groups (lane 0 and the last lane hold X or Y)
    let mut ins: Vec<([f32; 3], [f32; 3], f32)> = vec![];
    for (ga, gb, gp) in groups { for i in [0, ga.len() - 1] {
        let x = ([ga[i][0] as f32, ga[i][1] as f32, ga[i][2] as f32], [gb[i][0] as f32, gb[i][1] as f32, gb[i][2] as f32], gp[i] as f32);
        if !ins.iter().rev().take(6).any(|y| y.0.iter().zip(x.0.iter()).all(|(p, q)| p.to_bits() == q.to_bits()) && y.1.iter().zip(x.1.iter()).all(|(p, q)| p.to_bits() == q.to_bits()) && y.2.to_bits() == x.2.to_bits()) { ins.push(x); } } }
    ins.sort_by_key(|x| (x.0.map(|v| v.to_bits()), x.1.map(|v| v.to_bits()), x.2.to_bits())); ins.dedup_by_key(|x| (x.0.map(|v| v.to_bits()), x.1.map(|v| v.to_bits()), x.2.to_bits()));
    let w3 = |x: [f32; 3]| -> [f64; 3] { [x[0] as f64, x[1] as f64, x[2] as f64] };
    for (a, b, p) in ins {
        if a.iter().chain(b.iter()).chain([p].iter()).any(|v| *v != 0.0 && v.abs() < 1e-30) { out.count("cls:prec-skipped-f32-subnormal-range"); continue; }
        let (a64, b64, p64) = (w3(a), w3(b), p as f64);
        let r = catch_unwind(AssertUnwindSafe(|| (f32s(a, b, p), f64s(a64, b64, p64))));
        let ((v32, m32), (v64, m64)) = match r { Ok(x) => x, Err(_) => { out.check(false, &format!("no-panic:prec:{}", name), || format!("{:?} {:?} {:?}", a, b, p)); continue; } };
        if v32.len() != v64.len() || m32.len() != m64.len() || v32.len() != sp.tols.len() { out.check(false, &format!("shape:prec:{}", name), || format!("{} / {} outputs", v32.len(), v64.len())); continue; }
        let dist = |x: f64, y: f64, t: &Tol| -> f64 { if t.hue { crate::c17::circ(x, y) } else { (x - y).abs() } };
        let mut sens_v = vec![0.0f64; v64.len()]; let mut sens_m = vec![0.0f64; m64.len()];
        for j in 0..7 { for s in [-4i32, 4, -1, 1] {
            let (mut aa, mut bb, mut pp) = (a64, b64, p64);
            let mv = |x32: f32, sc: f64| -> f64 { if s.abs() == 4 { nudge32(x32, s) as f64 } else { x32 as f64 + s as f64 * 4.0 * eps * sc } };
            if j < 3 { aa[j] = mv(a[j], sp.in_scale[j]); } else if j < 6 { bb[j - 3] = mv(b[j - 3], sp.in_scale[j - 3]); } else { pp = mv(p, 1.0); }
            if let Ok((qv, qm)) = catch_unwind(AssertUnwindSafe(|| f64s(aa, bb, pp))) {
                for o in 0..v64.len() { let d = dist(qv[o], v64[o], &sp.tols[o]); sens_v[o] = if d.is_finite() { sens_v[o].max(d) } else { f64::INFINITY }; }
                for o in 0..m64.len() { let d = (qm[o].1 - m64[o].1).abs(); sens_m[o] = if d.is_finite() { sens_m[o].max(d) } else { f64::INFINITY }; }
            }
        } }
        let mut ok = true; let mut worst = 0.0f64;
        for o in 0..v64.len() {
            let t = &sp.tols[o]; let (x, y) = (v32[o] as f64, v64[o]);
            if x.is_nan() || y.is_nan() { ok &= x.is_nan() && y.is_nan(); continue; }
            if let Some(c) = t.chroma { let tc = &sp.tols[c]; let z = 32.0 * eps * tc.scale + 2.0 * sens_v[c]; if (v32[c] as f64).abs() <= z && v64[c].abs() <= z { continue; } }
            let sc = if t.hue { 360.0 } else { t.scale.max(y.abs()) };
            let d = dist(x, y, t);
            if x == y { continue; }
            if !(d <= 32.0 * eps * sc + 2.0 * sens_v[o]) { ok = false; }
            if sens_v[o] <= eps * sc { worst = worst.max(d / (eps * sc)); }
        }
        out.maxi(&format!("f32-vs-f64-eps32(well-conditioned):op:{}", name), worst);
        out.check(ok, &format!("f32~f64:op:{}", name), || format!("a {:?} b {:?} p {:?}: f32 {:?} f64 {:?} (sensitivity {:?})", a, b, p, v32, v64, sens_v));
        if sp.mask_tol.tol > 0.0 { for o in 0..m64.len() {
            let (w32, w64) = (m32[o].0, m64[o].0); let mg = m64[o].1;
            let allow = 32.0 * eps * sp.mask_tol.scale.max(mg.abs()) + 2.0 * sens_m[o];
            out.check(w32 == w64 || mg.abs() <= allow || !mg.is_finite(), &format!("f32~f64:op-mask:{}", name), || format!("mask {}: a {:?} b {:?} p {:?}: f32 {} f64 {} (margin {:?})", o, a, b, p, w32, w64, mg));
        } }
    }
}

// ------------------------------------------------------------------------------------------------------------------
// 4. packing: PreAlpha arms, the colour types whose macro invocation was not driven
// ------------------------------------------------------------------------------------------------------------------

type RgbS<X> = Rgb<Srgb, X>;
type RgbL<X> = Rgb<Linear<Srgb>, X>;
type HsvS<X> = Hsv<Srgb, X>;
type HsvL<X> = Hsv<Linear<Srgb>, X>;
type HslS<X> = Hsl<Srgb, X>;
type XyzD<X> = Xyz<D65, X>;
type Xyz50<X> = Xyz<D50, X>;
type YxyD<X> = Yxy<D65, X>;
type LabD<X> = Lab<D65, X>;
type Lab50<X> = Lab<D50, X>;
type LchD<X> = Lch<D65, X>;
type LuvD<X> = Luv<D65, X>;
type LumaS<X> = palette::luma::Luma<Srgb, X>;
type LumaL<X> = palette::luma::Luma<Linear<D65>, X>;
type LmsB<X> = palette::lms::Lms<palette::lms::matrix::Bradford, X>;
type LmsV<X> = palette::lms::Lms<palette::lms::matrix::VonKries, X>;

/// distinct recognisable values per lane and component, plus special values that must travel untouched (as `pack_run` of c17.rs)
fn pack_values<T: Fl, const K: usize, const N: usize>(it: usize, rng: &mut Rng) -> ([[T; K]; N], [T; N]) {
    let lanes: [[T; K]; N] = core::array::from_fn(|i| core::array::from_fn(|k| match (it + i + 2 * k) % 11 {
        0 => T::of(-0.0), 1 => T::of(f64::INFINITY), 2 => T::of(f64::NAN), 3 => T::of(1e-40), _ => T::of((i * 10 + k) as f64 + rng.unit()) }));
    let alphas: [T; N] = core::array::from_fn(|i| match (it + 3 * i) % 13 { 0 => T::of(-0.0), 1 => T::of(f64::NAN), _ => T::of(100.0 + i as f64 + rng.unit()) });
    (lanes, alphas)
}
fn bits_eq<T: Fl>(a: T, b: T) -> bool { a.bits64() == b.bits64() }

/// one colour type, one SIMD type.  `$mk`: the colour from its K components (written once for the scalar and the SIMD component type),
/// `$un`: the K components of a colour.  `pre`: the type implements `Premultiply`, so the PreAlpha arms exist.
macro_rules! packx1 { ($out:expr, $rng:expr, $n:expr, $c:ident, $name:expr, $K:expr, $T:ty, $V:ty, $N:expr, $vtag:expr, $proto:expr, |$v:ident| $mk:expr, |$u:ident| $un:expr, $pre:tt) => {{
    let key = format!("{}:{}", $name, $vtag);
    for it in 0..$n {
        let (lanes, alphas): ([[$T; $K]; $N], [$T; $N]) = pack_values::<$T, $K, $N>(it, $rng);
        let cs: [$c<$T>; $N] = core::array::from_fn(|i| { let $v = lanes[i]; $mk });
        let cv: $c<$V> = <$c<$V>>::from(cs);
        let fields: [$V; $K] = { let $u = cv; $un };
        let comp: Vec<[$T; $N]> = fields.iter().map(|f| IntoScalarArray::into_array(*f)).collect();
        let mut ok = true; for i in 0..$N { for k in 0..$K { ok &= bits_eq(comp[k][i], lanes[i][k]); } }
        $out.check(ok, &format!("pack-lane-order:{}", key), || format!("{:?} packed as {:?}", lanes, comp));
        let back: [$c<$T>; $N] = cv.into();
        let un: Vec<[$T; $K]> = back.into_iter().map(|c| { let $u = c; $un }).collect();
        let mut ok2 = true; for i in 0..$N { for k in 0..$K { ok2 &= bits_eq(un[i][k], lanes[i][k]); } }
        $out.check(ok2, &format!("unpack∘pack=id:{}", key), || format!("{:?} came back as {:?}", lanes, un));
        // Alpha-wrapped form
        let acs: [Alpha<$c<$T>, $T>; $N] = core::array::from_fn(|i| Alpha { color: cs[i], alpha: alphas[i] });
        let av: Alpha<$c<$V>, $V> = acs.into();
        let af: [$V; $K] = { let $u = av.color; $un }; let aal: [$T; $N] = IntoScalarArray::into_array(av.alpha);
        let mut ok3 = true; for i in 0..$N { ok3 &= bits_eq(aal[i], alphas[i]); for k in 0..$K { ok3 &= bits_eq(IntoScalarArray::into_array(af[k])[i], lanes[i][k]); } }
        let aback: [Alpha<$c<$T>, $T>; $N] = av.into();
        for (i, a) in aback.into_iter().enumerate() { ok3 &= bits_eq(a.alpha, alphas[i]); let r: [$T; $K] = { let $u = a.color; $un }; for k in 0..$K { ok3 &= bits_eq(r[k], lanes[i][k]); } }
        $out.check(ok3, &format!("alpha-pack-unpack:{}", key), || format!("{:?} alpha {:?}", lanes, alphas));
        packx1!(@pre $pre, $out, key, $c, $K, $T, $V, $N, cs, lanes, alphas, |$u| $un);
        if $proto && $K == 3 {
            let l: Vec<String> = lanes.iter().map(|x| hx_list(x)).collect(); let c: Vec<String> = comp.iter().map(|x| hx_list(x)).collect(); let u: Vec<String> = un.iter().map(|x| hx_list(x)).collect();
            $out.case(&format!("simdpack {} {} | {} 3 {} | {} {}", $name, $vtag, $N, l.join(" "), c.join(" "), u.join(" ")));
        }
    }
}};
    (@pre pre, $out:expr, $key:expr, $c:ident, $K:expr, $T:ty, $V:ty, $N:expr, $cs:expr, $lanes:expr, $alphas:expr, |$u:ident| $un:expr) => {{
        // PreAlpha arms of impl_simd_array_conversion! (own loops: element[index] = color.color.element; alpha[index] = color.alpha)
        let pcs: [PreAlpha<$c<$T>>; $N] = core::array::from_fn(|i| PreAlpha { color: $cs[i], alpha: $alphas[i] });
        let pv: PreAlpha<$c<$V>> = pcs.into();
        let pf: [$V; $K] = { let $u = pv.color; $un }; let pal: [$T; $N] = IntoScalarArray::into_array(pv.alpha);
        let mut ok = true; for i in 0..$N { ok &= bits_eq(pal[i], $alphas[i]); for k in 0..$K { ok &= bits_eq(IntoScalarArray::into_array(pf[k])[i], $lanes[i][k]); } }
        $out.check(ok, &format!("prealpha-pack-lane-order:{}", $key), || format!("{:?} alpha {:?}: packed colour fields {:?} alpha {:?}", $lanes, $alphas, pf.iter().map(|f| IntoScalarArray::into_array(*f)).collect::<Vec<[$T; $N]>>(), pal));
        let pback: [PreAlpha<$c<$T>>; $N] = pv.into();
        let mut ok2 = true; let mut got = vec![];
        for (i, a) in pback.into_iter().enumerate() { ok2 &= bits_eq(a.alpha, $alphas[i]); let r: [$T; $K] = { let $u = a.color; $un }; for k in 0..$K { ok2 &= bits_eq(r[k], $lanes[i][k]); } got.push((r, a.alpha)); }
        $out.check(ok2, &format!("prealpha-unpack∘pack=id:{}", $key), || format!("{:?} alpha {:?} came back as {:?}", $lanes, $alphas, got));
    }};
    (@pre nopre, $out:expr, $key:expr, $c:ident, $K:expr, $T:ty, $V:ty, $N:expr, $cs:expr, $lanes:expr, $alphas:expr, |$u:ident| $un:expr) => {{}};
}
macro_rules! packx { ($out:expr, $rng:expr, $n:expr, $c:ident, $name:expr, $K:expr, $proto:expr, |$v:ident| $mk:expr, |$u:ident| $un:expr, $pre:tt) => {{
    packx1!($out, $rng, $n, $c, $name, $K, f32, f32x4, 4, "f32x4", $proto, |$v| $mk, |$u| $un, $pre);
    packx1!($out, $rng, $n, $c, $name, $K, f32, f32x8, 8, "f32x8", $proto, |$v| $mk, |$u| $un, $pre);
    packx1!($out, $rng, $n, $c, $name, $K, f64, f64x2, 2, "f64x2", $proto, |$v| $mk, |$u| $un, $pre);
    packx1!($out, $rng, $n, $c, $name, $K, f64, f64x4, 4, "f64x4", $proto, |$v| $mk, |$u| $un, $pre);
}} }
/// three-component types through ArrayCast
macro_rules! packa { ($out:expr, $rng:expr, $n:expr, $c:ident, $name:expr, $proto:expr, $pre:tt) => {
    packx!($out, $rng, $n, $c, $name, 3, $proto, |v| cast::from_array(v), |u| cast::into_array(u), $pre)
} }

fn packing(out: &mut Out, rng: &mut Rng, thorough: bool) {
    let n = if thorough { 1_000 } else { 24 };
    // PreAlpha arms (and again the plain / Alpha arms) for every type that implements Premultiply; protocol lines exist already for these (c17.rs)
    packa!(out, rng, n, RgbS, "Rgb", false, pre); packa!(out, rng, n, RgbL, "Rgb<Linear>", false, pre); packa!(out, rng, n, XyzD, "Xyz", false, pre); packa!(out, rng, n, Xyz50, "Xyz<D50>", false, pre);
    packa!(out, rng, n, YxyD, "Yxy", false, pre); packa!(out, rng, n, LabD, "Lab", false, pre); packa!(out, rng, n, Lab50, "Lab<D50>", false, pre); packa!(out, rng, n, LuvD, "Luv", false, pre);
    packa!(out, rng, n, LmsB, "Lms", false, pre); packa!(out, rng, n, LmsV, "Lms<VonKries>", false, pre); packa!(out, rng, n, Oklab, "Oklab", false, pre);
    packa!(out, rng, n, Cam16UcsJab, "Cam16UcsJab", true, pre);
    packx!(out, rng, n, LumaS, "Luma", 1, false, |v| LumaS::new(v[0]), |u| [u.luma], pre);
    packx!(out, rng, n, LumaL, "Luma<Linear>", 1, false, |v| LumaL::new(v[0]), |u| [u.luma], pre);
    // colour types whose invocation of the packing macro was never executed (hue arms: no PreAlpha)
    packa!(out, rng, n, Okhsl, "Okhsl", true, nopre); packa!(out, rng, n, Okhsv, "Okhsv", true, nopre); packa!(out, rng, n, Okhwb, "Okhwb", true, nopre);
    packa!(out, rng, n, Cam16UcsJmh, "Cam16UcsJmh", true, nopre); packa!(out, rng, n, HsvL, "Hsv<Linear>", false, nopre);
    packa!(out, rng, n, Cam16Jch, "Cam16Jch", false, nopre); packa!(out, rng, n, Cam16Jmh, "Cam16Jmh", false, nopre); packa!(out, rng, n, Cam16Jsh, "Cam16Jsh", false, nopre);
    packa!(out, rng, n, Cam16Qch, "Cam16Qch", false, nopre); packa!(out, rng, n, Cam16Qmh, "Cam16Qmh", false, nopre); packa!(out, rng, n, Cam16Qsh, "Cam16Qsh", false, nopre);
    packx!(out, rng, n, Cam16, "Cam16", 6, false,
        |v| Cam16 { lightness: v[0], chroma: v[1], hue: v[2].into(), brightness: v[3], colorfulness: v[4], saturation: v[5] },
        |u| [u.lightness, u.chroma, u.hue.into_inner(), u.brightness, u.colorfulness, u.saturation], nopre);
    out.count("cls:more2-packing-types-driven");
}

// ------------------------------------------------------------------------------------------------------------------
// 2. masks: every one of the 2^N lane patterns
// ------------------------------------------------------------------------------------------------------------------

/// The line format and the operations of `mask_ops` (c17.rs), at concrete types; the mask `a < b` runs over every pattern.
macro_rules! mask_patterns { ($out:expr, $T:ty, $V:ty, $N:expr, $vtag:expr) => {{
    let ones = if <$T as Fl>::TAG == "f32" { 0xffff_ffffu64 } else { u64::MAX };
    let bit = |m: $V| -> Vec<u64> { IntoScalarArray::into_array(m).iter().map(|x| x.bits64()).collect() };
    let t = |v: f64| -> $T { <$T as Fl>::of(v) };
    for m in 0u32..(1u32 << $N) { for pv in 0..5usize {
        let on = |i: usize| (m >> i) & 1 == 1;
        // a < b exactly in the lanes of the pattern, with different kinds of operands
        let a: [$T; $N] = core::array::from_fn(|i| match pv { 0 => t(if on(i) { 0.25 } else { 0.75 }), 1 => t(if on(i) { f64::NEG_INFINITY } else { f64::INFINITY }), 2 => t(if on(i) { 1e-40 } else { f64::NAN }),
            // the smallest normal number (a valid divisor) next to the largest subnormal (not one)
            3 => if on(i) { <$T>::from_bits(<$T>::MIN_POSITIVE.to_bits() - 1) } else { <$T>::MIN_POSITIVE }, _ => t(if on(i) { -2.0 - i as f64 } else { 0.0 }) });
        let b: [$T; $N] = core::array::from_fn(|i| match pv { 0 => t(0.5), 1 => t(0.0), 2 => t(1.0), 3 => <$T>::MIN_POSITIVE, _ => t(if on(i) { -1.0 } else { -0.0 }) });
        let x: [$T; $N] = core::array::from_fn(|i| match (i + m as usize + pv) % 7 { 0 => t(f64::NAN), 1 => t(-0.0), 2 => t(f64::INFINITY), 3 => t(1e-40), _ => t(10.0 + i as f64) });
        let y: [$T; $N] = core::array::from_fn(|i| match (i + 2 * m as usize + pv) % 9 { 0 => t(f64::NAN), 1 => t(0.0), 2 => t(f64::NEG_INFINITY), 3 => t(-1e-310), _ => t(-10.0 - i as f64) });
        let (va, vb, vx, vy): ($V, $V, $V, $V) = (FromScalarArray::from_array(a), FromScalarArray::from_array(b), FromScalarArray::from_array(x), FromScalarArray::from_array(y));
        let cmps: [(&str, $V, fn(&$T, &$T) -> bool); 6] = [("lt", PartialCmp::lt(&va, &vb), |p, q| PartialCmp::lt(p, q)), ("le", va.lt_eq(&vb), |p, q| p.lt_eq(q)), ("eq", PartialCmp::eq(&va, &vb), |p, q| PartialCmp::eq(p, q)),
            ("ne", va.neq(&vb), |p, q| p.neq(q)), ("ge", va.gt_eq(&vb), |p, q| p.gt_eq(q)), ("gt", PartialCmp::gt(&va, &vb), |p, q| PartialCmp::gt(p, q))];
        let mut toks: Vec<String> = vec![];
        for (nm, mk, f) in cmps.iter() { let bits = bit(*mk);
            for i in 0..$N { let want = f(&a[i], &b[i]);
                $out.check((bits[i] == ones) == want && (bits[i] == ones || bits[i] == 0), &format!("mask-compare-lane=scalar(patterns):{}:{}", nm, $vtag), || format!("pattern {:#b}: a {:?} b {:?} lane {}: scalar {} mask bits {:x}", m, a[i], b[i], i, want, bits[i]));
                toks.push(((bits[i] == ones) as u8).to_string()); } }
        let lt = PartialCmp::lt(&va, &vb); let ne = va.neq(&vb); let ltb: Vec<bool> = (0..$N).map(|i| PartialCmp::lt(&a[i], &b[i])).collect(); let neb: Vec<bool> = (0..$N).map(|i| a[i].neq(&b[i])).collect();
        // the construction itself: the mask is the pattern
        $out.check((0..$N).all(|i| ltb[i] == on(i)), &format!("mask-pattern-construction:{}", $vtag), || format!("pattern {:#b} variant {}: {:?}", m, pv, ltb));
        let sel = IntoScalarArray::into_array(Select::select(lt, vx, vy)); let lsel = IntoScalarArray::into_array(LazySelect::lazy_select(lt, || vx, || vy));
        for i in 0..$N { let want = if ltb[i] { x[i] } else { y[i] };
            $out.check(sel[i].bits64() == want.bits64() && lsel[i].bits64() == want.bits64(), &format!("select-lane=scalar(patterns):{}", $vtag), || format!("pattern {:#b} lane {}: mask {} -> select {:?} lazy_select {:?}, scalar if-else {:?} (x {:?} y {:?})", m, i, ltb[i], sel[i], lsel[i], want, x, y)); }
        toks.extend(sel.iter().map(|v| v.hx())); toks.extend(lsel.iter().map(|v| v.hx()));
        let bops: [(&str, $V, fn(bool, bool) -> bool); 4] = [("and", lt & ne, |p, q| p & q), ("or", lt | PartialCmp::eq(&va, &vb), |p, q| p | q), ("xor", lt ^ ne, |p, q| p ^ q), ("not", !lt, |p, _| !p)];
        for (nm, mk, f) in bops.iter() { let bits = bit(*mk);
            for i in 0..$N { let q = if *nm == "or" { PartialCmp::eq(&a[i], &b[i]) } else { neb[i] }; let want = f(ltb[i], q);
                $out.check((bits[i] == ones) == want && (bits[i] == ones || bits[i] == 0), &format!("mask-bitop-lane=scalar(patterns):{}:{}", nm, $vtag), || format!("pattern {:#b}: a {:?} b {:?} lane {}", m, a[i], b[i], i));
                toks.push(((bits[i] == ones) as u8).to_string()); } }
        let vd = bit(va.is_valid_divisor());
        for i in 0..$N { let want = a[i].is_valid_divisor();
            $out.check((vd[i] == ones) == want && (vd[i] == ones || vd[i] == 0), &format!("is_valid_divisor-lane=scalar(patterns):{}", $vtag), || format!("{:?}: scalar {} mask bits {:x}", a[i], want, vd[i]));
            toks.push(((vd[i] == ones) as u8).to_string()); }
        $out.check(lt.is_true() == ltb.iter().all(|v| *v) && lt.is_false() == ltb.iter().all(|v| !*v), &format!("mask-all-none(patterns):{}", $vtag), || format!("pattern {:#b}: {:?} is_true {} is_false {}", m, ltb, lt.is_true(), lt.is_false()));
        toks.push((lt.is_true() as u8).to_string()); toks.push((lt.is_false() as u8).to_string());
        // a select nested in a lazy_select, as `lazy_select! { if p => a, if q => b, else => c }` expands: first true predicate wins, lane by lane
        let q2 = PartialCmp::gt(&vx, &vy);
        let nested = IntoScalarArray::into_array(LazySelect::lazy_select(lt, || vx, || LazySelect::lazy_select(q2, || vy, || va)));
        for i in 0..$N { let want = if ltb[i] { x[i] } else if PartialCmp::gt(&x[i], &y[i]) { y[i] } else { a[i] };
            $out.check(nested[i].bits64() == want.bits64(), &format!("lazy_select-chain-lane=scalar(patterns):{}", $vtag), || format!("pattern {:#b} lane {}: {:?}, scalar if-else chain {:?}", m, i, nested[i], want)); }
        $out.case(&format!("vmask {} | {} {} {} {} {} | {}", $vtag, $N, hx_list(&a), hx_list(&b), hx_list(&x), hx_list(&y), toks.join(" ")));
    } }
    $out.count_n("cls:mask-patterns(all 2^N)", 1u64 << $N);
}} }

// ------------------------------------------------------------------------------------------------------------------
// 3b. from_array / into_array / from_scalar / from_f64 against `wide`'s own array conversion
// ------------------------------------------------------------------------------------------------------------------
macro_rules! scalar_array { ($out:expr, $rng:expr, $T:ty, $V:ty, $N:expr, $vtag:expr) => {{
    for it in 0..64usize {
        let a: [$T; $N] = core::array::from_fn(|i| match (it + i) % 9 { 0 => <$T as Fl>::of(-0.0), 1 => <$T as Fl>::of(f64::NAN), 2 => <$T as Fl>::of(f64::INFINITY), 3 => <$T as Fl>::of(1e-40), _ => <$T as Fl>::of(i as f64 + $rng.unit()) });
        let v: $V = <$V as FromScalarArray<$N>>::from_array(a);
        let w: [$T; $N] = v.to_array();       // wide's own accessor
        $out.check((0..$N).all(|i| bits_eq(w[i], a[i])), &format!("from_array-lane-order:{}", $vtag), || format!("{:?} -> {:?}", a, w));
        let v2 = <$V>::new(a);                // wide's own constructor
        let w2: [$T; $N] = <$V as IntoScalarArray<$N>>::into_array(v2);
        $out.check((0..$N).all(|i| bits_eq(w2[i], a[i])), &format!("into_array-lane-order:{}", $vtag), || format!("{:?} -> {:?}", a, w2));
        let s: [$T; $N] = <$V as FromScalar>::from_scalar(a[0]).to_array();
        $out.check((0..$N).all(|i| bits_eq(s[i], a[0])), &format!("from_scalar=splat:{}", $vtag), || format!("{:?} -> {:?}", a[0], s));
        let c = [0.1, 216.0 / 24389.0, 1.0 / 3.0, 1e-40, 1e300, -0.0][it % 6];
        let f: [$T; $N] = <$V as palette::num::Real>::from_f64(c).to_array(); let want = <$T as palette::num::Real>::from_f64(c);
        $out.check((0..$N).all(|i| bits_eq(f[i], want)), &format!("from_f64=splat:{}", $vtag), || format!("{:?} -> {:?}, scalar {:?}", c, f, want));
    }
}} }

// ------------------------------------------------------------------------------------------------------------------
// 5. slices of SIMD colours
// ------------------------------------------------------------------------------------------------------------------

/// `[C<V>]::is_within_bounds()`: lane i of the mask = `[C<T>]::is_within_bounds()` of the slice of lane i's colours; `[C<V>]::clamp_assign()`:
/// lane i of element k = the scalar `clamp` of lane i's k-th colour.  Element k is out of bounds exactly in the lanes of pattern m_k.
macro_rules! slice_forms { ($out:expr, $rng:expr, $c:ident, $name:expr, $inb:expr, $oob:expr, $T:ty, $V:ty, $N:expr, $vtag:expr, $nrand:expr) => {{
    let ones = if <$T as Fl>::TAG == "f32" { 0xffff_ffffu64 } else { u64::MAX };
    let inb: &[[f64; 3]] = &$inb; let oob: &[[f64; 3]] = &$oob;
    let pats = patterns($N, $N < 8);
    let mut combos: Vec<Vec<u32>> = vec![vec![]];
    for &p in pats.iter() { combos.push(vec![p]); }
    for &p in pats.iter() { for &q in pats.iter() { if $N < 8 || (p + 3 * q) % 5 == 0 { combos.push(vec![p, q]); } } }
    for _ in 0..$nrand { let k = 3 + $rng.below(3) as usize; combos.push((0..k).map(|_| *$rng.pick(&pats)).collect()); }
    for ms in combos.iter() {
        let cols: Vec<[[$T; 3]; $N]> = ms.iter().map(|m| core::array::from_fn(|i| crate::c17::arr_of3::<$T>(if (m >> i) & 1 == 1 { *$rng.pick(oob) } else { *$rng.pick(inb) }))).collect();
        let vs: Vec<$c<$V>> = cols.iter().map(|l| { let cs: [$c<$T>; $N] = core::array::from_fn(|i| cast::from_array(l[i])); <$c<$V>>::from(cs) }).collect();
        let mask: $V = vs.as_slice().is_within_bounds();
        let mb: [$T; $N] = IntoScalarArray::into_array(mask);
        for i in 0..$N {
            let lane_slice: Vec<$c<$T>> = cols.iter().map(|l| cast::from_array(l[i])).collect();
            let want: bool = lane_slice.as_slice().is_within_bounds();
            let bits = mb[i].bits64();
            $out.check((bits == ones || bits == 0) && (bits == ones) == want, &format!("slice-within-lane=scalar:{}:{}", $name, $vtag), || format!("out-of-bounds patterns per element {:x?}, lane {}: colours {:?}: scalar slice {} mask bits {:x}", ms, i, cols.iter().map(|l| l[i]).collect::<Vec<_>>(), want, bits));
        }
        let mut w = vs.clone(); w.as_mut_slice().clamp_assign();
        for (k, c) in w.into_iter().enumerate() {
            let back: [$c<$T>; $N] = c.into();
            for (i, b) in back.into_iter().enumerate() {
                let mut s: Vec<$c<$T>> = vec![cast::from_array(cols[k][i])]; s.as_mut_slice().clamp_assign();
                let (x, y): ([$T; 3], [$T; 3]) = (cast::into_array(b), cast::into_array(s[0]));
                $out.check((0..3).all(|j| lane_cmp(y[j], x[j], &crate::c17::exact(), j).0), &format!("slice-clamp_assign-lane=scalar:{}:{}", $name, $vtag), || format!("element {} lane {}: {:?}: scalar {:?} simd lane {:?}", k, i, cols[k][i], y, x));
            }
        }
    }
}} }
macro_rules! slice4 { ($out:expr, $rng:expr, $pools:expr, $c:ident, $name:expr, $pool:expr, $nrand:expr) => {{
    // in-bounds: the in-gamut pool filtered with the scalar f64 predicate; out of bounds: the same colours pushed out in one component
    let inb: Vec<[f64; 3]> = $pools[$pool].iter().filter(|c| { let x: $c<f64> = cast::from_array(**c); let y: $c<f32> = cast::from_array([c[0] as f32, c[1] as f32, c[2] as f32]); x.is_within_bounds() && y.is_within_bounds() }).cloned().take(400).collect();
    let oob: Vec<[f64; 3]> = inb.iter().flat_map(|c| (0..3).flat_map(move |k| [-1.0, 1.0].into_iter().map(move |s| { let mut d = *c; d[k] += s * (0.75 + d[k].abs()); d })))
        .filter(|c| { let x: $c<f64> = cast::from_array(*c); let y: $c<f32> = cast::from_array([c[0] as f32, c[1] as f32, c[2] as f32]); !x.is_within_bounds() && !y.is_within_bounds() }).take(600).collect();
    if inb.is_empty() || oob.is_empty() { $out.check(false, &format!("slice-forms-pool:{}", $name), || format!("{} in-bounds / {} out-of-bounds colours", inb.len(), oob.len())); } else {
    slice_forms!($out, $rng, $c, $name, inb, oob, f32, f32x4, 4, "f32x4", $nrand); slice_forms!($out, $rng, $c, $name, inb, oob, f32, f32x8, 8, "f32x8", $nrand);
    slice_forms!($out, $rng, $c, $name, inb, oob, f64, f64x2, 2, "f64x2", $nrand); slice_forms!($out, $rng, $c, $name, inb, oob, f64, f64x4, 4, "f64x4", $nrand); }
}} }

pub fn run_more2(out: &mut Out, seed: u64, thorough: bool, pools: &BTreeMap<&'static str, Vec<[f64; 3]>>) {
    let mut rng_ = Rng::new(seed ^ 0x0C17_0002_0C17_0002); let rng = &mut rng_;
    packing(out, rng, thorough);
    mask_patterns!(out, f32, f32x4, 4, "f32x4"); mask_patterns!(out, f32, f32x8, 8, "f32x8"); mask_patterns!(out, f64, f64x2, 2, "f64x2"); mask_patterns!(out, f64, f64x4, 4, "f64x4");
    scalar_array!(out, rng, f32, f32x4, 4, "f32x4"); scalar_array!(out, rng, f32, f32x8, 8, "f32x8"); scalar_array!(out, rng, f64, f64x2, 2, "f64x2"); scalar_array!(out, rng, f64, f64x4, 4, "f64x4");
    let nr = if thorough { 2_000 } else { 40 };
    slice4!(out, rng, pools, RgbS, "Rgb", "Rgb", nr); slice4!(out, rng, pools, LabD, "Lab", "Lab", nr); slice4!(out, rng, pools, HsvS, "Hsv", "Hsv", nr);
    slice4!(out, rng, pools, LchD, "Lch", "Lch", nr); slice4!(out, rng, pools, XyzD, "Xyz", "Xyz", nr); slice4!(out, rng, pools, HslS, "Hsl", "Hsl", nr);
    // the numeric traits with a special operand in one lane, at every lane position
    let nn = if thorough { 40 } else { 3 };
    crate::c17_more::num_ops_at::<f32, f32x4, 4>(out, "f32x4", rng, nn * 4 * crate::c17_more::LANE_SPECIALS.len(), "(special-lane)");
    crate::c17_more::num_ops_at::<f32, f32x8, 8>(out, "f32x8", rng, nn * 8 * crate::c17_more::LANE_SPECIALS.len(), "(special-lane)");
    crate::c17_more::num_ops_at::<f64, f64x2, 2>(out, "f64x2", rng, nn * 2 * crate::c17_more::LANE_SPECIALS.len(), "(special-lane)");
    crate::c17_more::num_ops_at::<f64, f64x4, 4>(out, "f64x4", rng, nn * 4 * crate::c17_more::LANE_SPECIALS.len(), "(special-lane)");
}
