//! C13, second part (coverage audit, see AUDIT_C13.md): the colour types, component types, type parameters, buffer lengths and
//! access forms inside the property's quantifier that `c13.rs` does not drive.
//!
//! The in-place API is one set of blanket impls (`from_into_color_mut.rs`, `from_into_color_unclamped_mut.rs`, the `Vec` / `Box<[T]>`
//! impls of `FromColor(Unclamped)`, `cast::map_vec_in_place` / `map_slice_box_in_place`); what differs from colour type to colour type
//! is the code the blanket impls *call* and the ordinary by-value conversion does not: the type's `Clone` (13 `impl_copy_clone!`
//! invocations, `#[derive(Clone)]` elsewhere), its `ArrayCast` derive, and the instantiation itself (element size / alignment,
//! `K` components).  Added here:
//!
//!  * eight more families through the same `family!` dyn layer, generators, oracle clauses (`values`, `address`, `length`, `capacity`)
//!    and `hist` protocol lines as `c13.rs`: every `ArrayCast` colour type that `c13.rs` leaves out (Okhwb, Lms, Luma (K = 1), Luma with
//!    alpha (K = 2), Cam16UcsJab, Cam16UcsJmh, Cam16Jmh, with and without alpha), the f64 instances of the types only driven at f32,
//!    non-default RGB standards (AdobeRgb, ProPhotoRgb, linear ProPhoto; Hsl / Hwb over AdobeRgb), the white point D50 and the
//!    remaining `Alpha` wrappers;
//!  * long buffers in the quick tier (16 .. 1025 elements, around powers of two; `c13.rs` stops at 9 / 12 outside `thorough`);
//!  * wide component types (`f32x4`, `f32x8`, `f64x2`, `f64x4`: 16 / 32-byte components, over-aligned elements) - oracle only
//!    (`wide-values`, `wide-restored`, `wide-address`, `wide-length`, `wide-capacity`): single colour, slice, `Vec`, `Box<[T]>`,
//!    clamped and unclamped, write through the guard, drop / restore, compared lane by lane and bit for bit with the by-value
//!    conversion of the same wide type;
//!  * mixed forms (`mixed-values`, `mixed-restored`, `mixed-address`): a guard started through the method-call sugar on an array
//!    `[T; N]`, a `Vec<T>` and a `Box<[T]>` (auto-deref / unsizing to the slice impl), a single-colour guard and a sub-slice guard
//!    started *inside* a live slice guard (element `i` / range of the guarded slice);
//!  * `cast::map_vec_in_place` / `map_slice_box_in_place` with closures that are not colour conversions and element types that have no
//!    `FromColor` impl at all (`map-values`, `map-address`, `map-length`, `map-capacity`): integer components (`Srgb<u8>` 3 bytes
//!    align 1, `Srgba<u8>` <-> `Packed<Rgba, [u8; 4]>`, `Srgb<u16>`, `Luma<u8>` 1 byte), `Alpha<LinSrgb<f32>, f32>` <-> `PreAlpha`.
//!
//! Tolerances: none; everything is bit for bit (a NaN matches a NaN, as in `c13.rs`).
use crate::c13::{emit, gen_color, run_family};
use crate::c13::{family, impl_guard, impl_tgt_start};
use crate::c13::{Conv, DynBuf, DynGuard, Fam, Form, Kind, One, Op, SliceBuf, Tgt, View};
use crate::common::*;
use palette::blend::PreAlpha;
use palette::cam16::{Cam16Jmh, Cam16UcsJab, Cam16UcsJmh};
use palette::cast::{self, Packed};
use palette::convert::{
    FromColor, FromColorMut, FromColorMutGuard, FromColorUnclamped, FromColorUnclampedMut, FromColorUnclampedMutGuard, IntoColor, IntoColorMut,
    IntoColorUnclamped, IntoColorUnclampedMut,
};
use palette::encoding::{self, AdobeRgb, Gamma, Linear, ProPhotoRgb};
use palette::lms::matrix::{VonKries, WithLmsMatrix};
use palette::lms::Lms;
use palette::luma::Luma;
use palette::rgb::{channels, Rgb};
use palette::white_point::{D50, D65};
use palette::{Alpha, Hsl, Hsluv, Hsv, Hwb, Lab, Lch, Lchuv, LinSrgb, Luv, Okhsl, Okhsv, Okhwb, Oklab, Oklch, Srgb, Srgba, Xyz, Yxy};
use wide::{f32x4, f32x8, f64x2, f64x4};

type SrgbS = encoding::Srgb;
type LmsD65<T> = Lms<WithLmsMatrix<D65, VonKries>, T>;

// ------------------------------------------------------------------------------------------------
// more families (types disjoint from the families of c13.rs: the dyn layer is implemented once per type)
// ------------------------------------------------------------------------------------------------

// f64 instances of the types c13.rs drives at f32 only, + Okhwb, Lms
family!(g64x3, f64, 3;
    (0, Hwb<SrgbS, f64>, Hsx), (1, Yxy<D65, f64>, Yxy), (2, Oklab<f64>, Oklab), (3, Luv<D65, f64>, Luv), (4, Lchuv<D65, f64>, Lch),
    (5, Hsluv<D65, f64>, Hsluv), (6, Okhsl<f64>, Okhsx), (7, Okhsv<f64>, Okhsx), (8, LmsD65<f64>, Yxy),
);
// non-default RGB standard (AdobeRgb: own transfer function and primaries), Okhwb and Lms at f32
family!(g32x3, f32, 3;
    (0, Rgb<AdobeRgb, f32>, Rgb), (1, Hsl<AdobeRgb, f32>, Hsx), (2, Hwb<AdobeRgb, f32>, Hsx), (3, LmsD65<f32>, Yxy), (4, Hsv<AdobeRgb, f32>, Hsx),
);
// white point D50 (+ the RGB standard that has it)
family!(d50x3, f32, 3;
    (0, Rgb<ProPhotoRgb, f32>, Rgb), (1, Rgb<Linear<ProPhotoRgb>, f32>, Rgb), (2, Lab<D50, f32>, Lab), (3, Lch<D50, f32>, Lch), (4, Xyz<D50, f32>, Xyz),
    (5, Yxy<D50, f32>, Yxy), (6, Luv<D50, f32>, Luv), (7, Hsluv<D50, f32>, Hsluv),
);
// CAM16-UCS and the partial CAM16 type that converts to it (own colour group of the derive)
family!(cam32x3, f32, 3; (0, Cam16UcsJab<f32>, Lab), (1, Cam16UcsJmh<f32>, Lch), (2, Cam16Jmh<f32>, Lch));
family!(cam64x4, f64, 4; (0, Alpha<Cam16UcsJab<f64>, f64>, Lab), (1, Alpha<Cam16UcsJmh<f64>, f64>, Lch), (2, Alpha<Cam16Jmh<f64>, f64>, Lch));
// one component (4-byte / with alpha 16-byte elements)
family!(luma32x1, f32, 1; (0, Luma<SrgbS, f32>, Rgb), (1, Luma<Linear<D65>, f32>, Rgb), (2, Luma<Gamma<D65>, f32>, Rgb));
family!(luma64x2, f64, 2; (0, Alpha<Luma<SrgbS, f64>, f64>, Rgb), (1, Alpha<Luma<Linear<D65>, f64>, f64>, Rgb));
// the remaining Alpha wrappers at f32
family!(g32x4, f32, 4;
    (0, Alpha<Hsv<SrgbS, f32>, f32>, Hsx), (1, Alpha<Lch<D65, f32>, f32>, Lch), (2, Alpha<Xyz<D65, f32>, f32>, Xyz), (3, Alpha<LmsD65<f32>, f32>, Yxy),
    (4, Alpha<Lchuv<D65, f32>, f32>, Lch), (5, Alpha<Okhsl<f32>, f32>, Okhsx),
);

// ------------------------------------------------------------------------------------------------
// helpers for the oracle-only parts
// ------------------------------------------------------------------------------------------------

/// bit for bit; a NaN matches a NaN (payloads are not values)
fn same<F: Fl>(a: &[F], b: &[F]) -> bool { a.len() == b.len() && a.iter().zip(b).all(|(x, y)| x.bits64() == y.bits64() || (x != x && y != y)) }
fn show<F: Fl>(a: &[F]) -> String { let v: Vec<String> = a.iter().map(|x| x.hx()).collect(); v.join(",") }

/// long buffers through the ordinary history interpreter (protocol lines + the four clauses of c13.rs)
fn long_buffers<F: Fl + 'static, const K: usize>(out: &mut Out, rng: &mut Rng, fam: &Fam<F, K>, lens: &[usize]) {
    let nt = fam.names.len();
    for (li, &len) in lens.iter().enumerate() { for (fi, form) in [Form::Slice, Form::Vec, Form::Boxed].into_iter().enumerate() {
        let (u, t, c) = ((li + fi) % nt, (li + 2 * fi + 1) % nt, (2 * li + fi + 2) % nt);
        let init: Vec<[F; K]> = (0..len).map(|_| gen_color(rng, fam.kinds[u])).collect();
        let written = vec![gen_color::<F, K>(rng, fam.kinds[t]), gen_color::<F, K>(rng, fam.kinds[t])];
        let cl = (li + fi) % 2 == 0;
        let end = [Op::Drop, Op::Restore, Op::Forget][(li + fi) % 3];
        emit(out, fam, form, u, li % 4, &init, &written, &[Op::Start { cl, t, via: (li % 2) as u8 }, Op::Write { i: len - 1, k: 0 }, Op::Write { i: len / 2, k: 1 }, Op::Then { cl: !cl, c }, end]);
        if form != Form::Slice { emit(out, fam, form, u, (li + 1) % 4, &init, &[], &[Op::Own { cl, t, via: (li % 3) as u8 }, Op::Own { cl: !cl, t: c, via: ((li + 1) % 3) as u8 }]); }
        out.count("cls:long-buffer");
    } }
}

/// component types of the oracle-only pair clauses: scalars (one lane) and the wide types
trait Lanes: Copy { type S: Fl; fn lanes(self) -> Vec<Self::S>; fn from_lanes(l: &[Self::S]) -> Self; }
impl Lanes for f32 { type S = f32; fn lanes(self) -> Vec<f32> { vec![self] } fn from_lanes(l: &[f32]) -> f32 { l[0] } }
impl Lanes for f64 { type S = f64; fn lanes(self) -> Vec<f64> { vec![self] } fn from_lanes(l: &[f64]) -> f64 { l[0] } }
macro_rules! lanes_wide { ($($W:ty, $S:ty, $L:expr);+) => { $( impl Lanes for $W { type S = $S; fn lanes(self) -> Vec<$S> { self.to_array().to_vec() } fn from_lanes(l: &[$S]) -> $W { let mut a = [0.0 as $S; $L]; a.copy_from_slice(l); <$W>::from(a) } } )+ } }
lanes_wide!(f32x4, f32, 4; f32x8, f32, 8; f64x2, f64, 2; f64x4, f64, 4);

// ---- wide component types -------------------------------------------------------------------------

/// `$A`, `$B`: colour types with three components of the wide type `$W` (`$L` lanes of `$S`)
macro_rules! wide_pair {
    ($out:expr, $rng:expr, $key:expr, $W:ty, $S:ty, $L:expr, $A:ty, $B:ty, $ka:expr, $kb:expr, $rounds:expr) => {{
        let out: &mut Out = $out; let rng: &mut Rng = $rng;
        let lanes = |c: &[$W; 3]| -> Vec<$S> { c.iter().flat_map(|w| Lanes::lanes(*w).into_iter()).collect() };
        let gen = |rng: &mut Rng, kind: Kind| -> [$W; 3] {
            let cs: Vec<[$S; 3]> = (0..$L).map(|_| gen_color::<$S, 3>(rng, kind)).collect();
            let mut a = [<$W as Lanes>::from_lanes(&[0.0 as $S; $L]); 3];
            for j in 0..3 { let mut l = [0.0 as $S; $L]; for i in 0..$L { l[i] = cs[i][j]; } a[j] = <$W as Lanes>::from_lanes(&l); }
            a
        };
        for round in 0..$rounds {
            let n: usize = [1usize, 0, 2, 3, 5, 8][round % 6];
            let cl = round % 2 == 0;
            let init: Vec<[$W; 3]> = (0..n).map(|_| gen(rng, $ka)).collect();
            let w: [$W; 3] = gen(rng, $kb);
            // the ordinary conversions, by value
            let fwd = |a: &[$W; 3]| -> [$W; 3] { let a: $A = cast::from_array(*a); if cl { cast::into_array(<$B as FromColor<$A>>::from_color(a)) } else { cast::into_array(<$B as FromColorUnclamped<$A>>::from_color_unclamped(a)) } };
            let back = |b: &[$W; 3]| -> [$W; 3] { let b: $B = cast::from_array(*b); if cl { cast::into_array(<$A as FromColor<$B>>::from_color(b)) } else { cast::into_array(<$A as FromColorUnclamped<$B>>::from_color_unclamped(b)) } };
            let want_f: Vec<[$W; 3]> = init.iter().map(|a| fwd(a)).collect();
            let mut cur = want_f.clone(); if n > 0 { cur[n - 1] = w; }
            let want_b: Vec<[$W; 3]> = cur.iter().map(|b| back(b)).collect();
            let cfgs = format!("{}:{}", if cl { "clamped" } else { "unclamped" }, $key);
            let vals_ok = |got: &[[$W; 3]], want: &[[$W; 3]]| -> Option<usize> { if got.len() != want.len() { return Some(0); } (0..got.len()).find(|&i| !same(&lanes(&got[i]), &lanes(&want[i]))) };
            macro_rules! report { ($clause:expr, $form:expr, $got:expr, $want:expr) => {{
                let (g, wnt): (&[[$W; 3]], &[[$W; 3]]) = ($got, $want); let bad = vals_ok(g, wnt);
                out.check(bad.is_none(), &format!("{}:{}:{}", $clause, $form, cfgs), || { let i = bad.unwrap(); format!("n={} slot {}: input {} in place {} by value {}", n, i, init.get(i).map(|a| show(&lanes(a))).unwrap_or_default(), g.get(i).map(|a| show(&lanes(a))).unwrap_or_default(), wnt.get(i).map(|a| show(&lanes(a))).unwrap_or_default()) });
            }}; }
            // ---- single colour
            if n > 0 {
                let mut x: $A = cast::from_array(init[0]);
                let p0 = &x as *const $A as usize;
                let (p1, seen): (usize, [$W; 3]);
                if cl {
                    let mut g = <$B as FromColorMut<$A>>::from_color_mut(&mut x);
                    p1 = &*g as *const $B as usize; seen = *cast::into_array_ref(&*g);
                    if n == 1 { *g = cast::from_array(w); }
                    if round % 4 == 0 { let _ = g.restore(); }
                } else {
                    let mut g = IntoColorUnclampedMut::<$B>::into_color_unclamped_mut(&mut x);
                    p1 = &*g as *const $B as usize; seen = *cast::into_array_ref(&*g);
                    if n == 1 { *g = cast::from_array(w); }
                    if round % 4 == 1 { let _ = g.restore(); }
                }
                report!("wide-values", "single", &[seen], &want_f[..1]);
                out.check(p0 == p1, &format!("wide-address:single:{}", cfgs), || format!("{:#x} vs {:#x}", p0, p1));
                let b0 = if n == 1 { want_b[0] } else { back(&want_f[0]) };
                report!("wide-restored", "single", &[*cast::into_array_ref(&x)], &[b0]);
            }
            // ---- slice (a proper sub-slice of a Vec), write through the guard, drop or restore
            {
                let pad: [$W; 3] = [<$W as Lanes>::from_lanes(&[0.25 as $S; $L]); 3];
                let mut store: Vec<$A> = Vec::with_capacity(n + 2);
                store.push(cast::from_array(pad)); store.extend(init.iter().map(|a| cast::from_array::<$A>(*a))); store.push(cast::from_array(pad));
                let p0 = store[1..].as_ptr() as usize;
                let (p1, l1, seen): (usize, usize, Vec<[$W; 3]>);
                if cl {
                    let mut g = IntoColorMut::<[$B]>::into_color_mut(&mut store[1..1 + n]);
                    p1 = g.as_ptr() as usize; l1 = g.len(); seen = cast::into_array_slice(&*g).to_vec();
                    if n > 0 { g[n - 1] = cast::from_array(w); }
                    if round % 3 == 0 { let r = g.restore(); out.check(r.as_ptr() as usize == p0 && r.len() == n, &format!("wide-address:restore:{}", cfgs), || format!("n={}", n)); }
                } else {
                    let mut g = <[$B] as FromColorUnclampedMut<[$A]>>::from_color_unclamped_mut(&mut store[1..1 + n]);
                    p1 = g.as_ptr() as usize; l1 = g.len(); seen = cast::into_array_slice(&*g).to_vec();
                    if n > 0 { g[n - 1] = cast::from_array(w); }
                    if round % 3 == 0 { let r = g.restore(); out.check(r.as_ptr() as usize == p0 && r.len() == n, &format!("wide-address:restore:{}", cfgs), || format!("n={}", n)); }
                }
                report!("wide-values", "slice", &seen, &want_f);
                out.check(p0 == p1, &format!("wide-address:slice:{}", cfgs), || format!("n={} {:#x} vs {:#x}", n, p0, p1));
                out.check(l1 == n, &format!("wide-length:slice:{}", cfgs), || format!("{} vs {}", l1, n));
                report!("wide-restored", "slice", cast::into_array_slice(&store[1..1 + n]), &want_b);
                // the neighbours of the sub-slice are untouched
                report!("wide-values", "slice-neighbours", &[*cast::into_array_ref(&store[0]), *cast::into_array_ref(&store[n + 1])], &[pad, pad]);
            }
            // ---- Vec (spare capacity) and Box<[T]>, by value
            {
                let mut v: Vec<$A> = Vec::with_capacity(n + round % 4);
                v.extend(init.iter().map(|a| cast::from_array::<$A>(*a)));
                let (p0, c0) = (v.as_ptr() as usize, v.capacity());
                let r: Vec<$B> = if cl { if round % 4 < 2 { <Vec<$B> as FromColor<Vec<$A>>>::from_color(v) } else { IntoColor::<Vec<$B>>::into_color(v) } }
                                 else { if round % 4 < 2 { <Vec<$B> as FromColorUnclamped<Vec<$A>>>::from_color_unclamped(v) } else { IntoColorUnclamped::<Vec<$B>>::into_color_unclamped(v) } };
                report!("wide-values", "vec", cast::into_array_slice(&r[..]), &want_f);
                out.check(r.as_ptr() as usize == p0, &format!("wide-address:vec:{}", cfgs), || format!("n={}", n));
                out.check(r.len() == n, &format!("wide-length:vec:{}", cfgs), || format!("{} vs {}", r.len(), n));
                out.check(r.capacity() == c0, &format!("wide-capacity:vec:{}", cfgs), || format!("{} vs {}", r.capacity(), c0));
                let b: Box<[$A]> = init.iter().map(|a| cast::from_array::<$A>(*a)).collect::<Vec<$A>>().into_boxed_slice();
                let p0 = b.as_ptr() as usize;
                let r: Box<[$B]> = if cl { <Box<[$B]> as FromColor<Box<[$A]>>>::from_color(b) } else { IntoColorUnclamped::<Box<[$B]>>::into_color_unclamped(b) };
                report!("wide-values", "box", cast::into_array_slice(&r[..]), &want_f);
                out.check(r.as_ptr() as usize == p0, &format!("wide-address:box:{}", cfgs), || format!("n={}", n));
                out.check(r.len() == n, &format!("wide-length:box:{}", cfgs), || format!("{} vs {}", r.len(), n));
            }
            out.count(&format!("cls:wide:{}", $key));
        }
    }};
}

// ---- mixed forms: method-call sugar on arrays / Vec / Box, guards on parts of a guarded slice -----------

/// `$A` original type, `$B` type of the outer guard, `$C` type of the inner guards; `$F` component type, `$K` components
macro_rules! mixed {
    ($out:expr, $rng:expr, $key:expr, $F:ty, $K:expr, $A:ty, $B:ty, $C:ty, $ka:expr, $rounds:expr) => {{
        let out: &mut Out = $out; let rng: &mut Rng = $rng;
        let ab = |a: [$F; $K]| -> [$F; $K] { cast::into_array(<$B as FromColor<$A>>::from_color(cast::from_array(a))) };
        let ba = |b: [$F; $K]| -> [$F; $K] { cast::into_array(<$A as FromColor<$B>>::from_color(cast::from_array(b))) };
        let bc = |b: [$F; $K]| -> [$F; $K] { cast::into_array(<$C as FromColor<$B>>::from_color(cast::from_array(b))) };
        let cb = |c: [$F; $K]| -> [$F; $K] { cast::into_array(<$B as FromColor<$C>>::from_color(cast::from_array(c))) };
        let bcu = |b: [$F; $K]| -> [$F; $K] { cast::into_array(<$C as FromColorUnclamped<$B>>::from_color_unclamped(cast::from_array(b))) };
        let cbu = |c: [$F; $K]| -> [$F; $K] { cast::into_array(<$B as FromColorUnclamped<$C>>::from_color_unclamped(cast::from_array(c))) };
        macro_rules! cmp { ($clause:expr, $what:expr, $got:expr, $want:expr, $inp:expr) => {{
            let (g, w): (Vec<[$F; $K]>, Vec<[$F; $K]>) = ($got, $want);
            let bad = if g.len() != w.len() { Some(0) } else { (0..g.len()).find(|&i| !same(&g[i], &w[i])) };
            out.check(bad.is_none(), &format!("{}:{}:{}", $clause, $what, $key), || { let i = bad.unwrap(); format!("slot {} of {:?}: in place {} by value {}", i, $inp.iter().map(|a: &[$F; $K]| show(a)).collect::<Vec<_>>(), g.get(i).map(|a| show(a)).unwrap_or_default(), w.get(i).map(|a| show(a)).unwrap_or_default()) });
        }}; }
        for round in 0..$rounds {
            let init: [[$F; $K]; 4] = [gen_color(rng, $ka), gen_color(rng, $ka), gen_color(rng, $ka), gen_color(rng, $ka)];
            // ---- array receiver: `arr.into_color_mut()` (unsizing to `[A]`), then guards on an element and on a range of the guard
            {
                let mut arr: [$A; 4] = [cast::from_array(init[0]), cast::from_array(init[1]), cast::from_array(init[2]), cast::from_array(init[3])];
                let p0 = arr.as_ptr() as usize;
                let mut cur: Vec<[$F; $K]> = init.iter().map(|a| ab(*a)).collect();
                {
                    let mut g: FromColorMutGuard<[$B], [$A]> = arr.into_color_mut();
                    out.check(g.as_ptr() as usize == p0 && g.len() == 4, &format!("mixed-address:array:{}", $key), || format!("{:#x} vs {:#x}, len {}", g.as_ptr() as usize, p0, g.len()));
                    cmp!("mixed-values", "array", cast::into_array_slice(&*g).to_vec(), cur.clone(), init);
                    // a single-colour guard on element i of the guarded slice
                    let i = round % 4;
                    {
                        let e: FromColorMutGuard<$C, $B> = g[i].into_color_mut();
                        out.check(&*e as *const $C as usize == p0 + i * core::mem::size_of::<$A>(), &format!("mixed-address:element-in-slice:{}", $key), || format!("element {}", i));
                        cmp!("mixed-values", "element-in-slice", vec![*cast::into_array_ref(&*e)], vec![bc(cur[i])], init);
                        if round % 3 == 0 { core::mem::forget(e); cur[i] = bc(cur[i]); } else if round % 3 == 1 { let _ = e.restore(); cur[i] = cb(bc(cur[i])); } else { drop(e); cur[i] = cb(bc(cur[i])); }
                    }
                    // (after `forget` the element holds the bits of a `C` under the static type `B`: the converted state is kept)
                    cmp!("mixed-restored", "element-in-slice", cast::into_array_slice(&*g).to_vec(), cur.clone(), init);
                    // an unclamped guard on a range of the guarded slice
                    let (lo, hi) = ([0usize, 1, 2, 0][round % 4], [2usize, 4, 2, 4][round % 4]);
                    {
                        let s: FromColorUnclampedMutGuard<[$C], [$B]> = g[lo..hi].into_color_unclamped_mut();
                        out.check(s.as_ptr() as usize == p0 + lo * core::mem::size_of::<$A>() && s.len() == hi - lo, &format!("mixed-address:range-in-slice:{}", $key), || format!("range {}..{}", lo, hi));
                        let want: Vec<[$F; $K]> = cur[lo..hi].iter().map(|b| bcu(*b)).collect();
                        cmp!("mixed-values", "range-in-slice", cast::into_array_slice(&*s).to_vec(), want, init);
                        for j in lo..hi { cur[j] = cbu(bcu(cur[j])); }
                        if round % 2 == 0 { let _ = s.restore(); }
                    }
                    cmp!("mixed-restored", "range-in-slice", cast::into_array_slice(&*g).to_vec(), cur.clone(), init);
                }
                let want: Vec<[$F; $K]> = cur.iter().map(|b| ba(*b)).collect();
                cmp!("mixed-restored", "array", cast::into_array_slice(&arr[..]).to_vec(), want, init);
                out.check(arr.as_ptr() as usize == p0, &format!("mixed-address:array:{}", $key), || "array moved".into());
            }
            // ---- Vec / Box receivers (auto-deref to the slice impl): the owner keeps address, length and capacity
            {
                let n = round % 5;
                let mut v: Vec<$A> = Vec::with_capacity(n + round % 3);
                v.extend(init.iter().cycle().take(n).map(|a| cast::from_array::<$A>(*a)));
                let inp: Vec<[$F; $K]> = cast::into_array_slice(&v[..]).to_vec();
                let (p0, c0) = (v.as_ptr() as usize, v.capacity());
                {
                    let g: FromColorMutGuard<[$B], [$A]> = v.into_color_mut();
                    out.check(g.as_ptr() as usize == p0 && g.len() == n, &format!("mixed-address:vec-receiver:{}", $key), || format!("n={}", n));
                    cmp!("mixed-values", "vec-receiver", cast::into_array_slice(&*g).to_vec(), inp.iter().map(|a| ab(*a)).collect(), inp);
                }
                out.check(v.as_ptr() as usize == p0 && v.len() == n && v.capacity() == c0, &format!("mixed-address:vec-receiver:{}", $key), || format!("n={} cap {} was {}", n, v.capacity(), c0));
                cmp!("mixed-restored", "vec-receiver", cast::into_array_slice(&v[..]).to_vec(), inp.iter().map(|a| ba(ab(*a))).collect(), inp);
                let mut b: Box<[$A]> = inp.iter().map(|a| cast::from_array::<$A>(*a)).collect::<Vec<$A>>().into_boxed_slice();
                let p0 = b.as_ptr() as usize;
                {
                    let g: FromColorMutGuard<[$B], [$A]> = b.into_color_mut();
                    out.check(g.as_ptr() as usize == p0 && g.len() == n, &format!("mixed-address:box-receiver:{}", $key), || format!("n={}", n));
                    cmp!("mixed-values", "box-receiver", cast::into_array_slice(&*g).to_vec(), inp.iter().map(|a| ab(*a)).collect(), inp);
                    core::mem::forget(g);
                }
                // forgotten: the converted state stays (bits of `B` under the static type `A`)
                out.check(b.as_ptr() as usize == p0 && b.len() == n, &format!("mixed-address:box-receiver:{}", $key), || format!("n={}", n));
                cmp!("mixed-restored", "box-receiver-forgotten", cast::into_array_slice(&b[..]).to_vec(), inp.iter().map(|a| ab(*a)).collect(), inp);
            }
            out.count(&format!("cls:mixed:{}", $key));
        }
    }};
}

// ---- cast::map_vec_in_place / map_slice_box_in_place with arbitrary closures and element types ---------------------

/// `$A -> $B` with the closure `$f`; the reference is `iter().map($f).collect()`; `$E` is the common array type
macro_rules! map_forms {
    ($out:expr, $rng:expr, $key:expr, $A:ty, $B:ty, $E:ty, $gen:expr, $f:expr, $eq:expr, $lens:expr) => {{
        let out: &mut Out = $out; let rng: &mut Rng = $rng;
        for (li, &n) in $lens.iter().enumerate() {
            let init: Vec<$E> = (0..n).map(|_| $gen(rng)).collect();
            let want: Vec<$E> = init.iter().map(|a| cast::into_array::<$B>($f(cast::from_array::<$A>(*a)))).collect();
            let mut v: Vec<$A> = Vec::with_capacity(n + li % 4);
            v.extend(init.iter().map(|a| cast::from_array::<$A>(*a)));
            let (p0, c0) = (v.as_ptr() as usize, v.capacity());
            let mut calls = 0usize;
            let r: Vec<$B> = cast::map_vec_in_place(v, |a: $A| { calls += 1; $f(a) });
            let got: &[$E] = cast::into_array_slice(&r[..]);
            let bad = if got.len() != want.len() { Some(0) } else { (0..n).find(|&i| !$eq(&got[i], &want[i])) };
            out.check(bad.is_none() && calls == n, &format!("map-values:vec:{}", $key), || format!("n={} calls={} slot {:?}: input {:?} in place {:?} by value {:?}", n, calls, bad, bad.map(|i| init[i]), bad.and_then(|i| got.get(i)), bad.map(|i| want[i])));
            out.check(r.as_ptr() as usize == p0, &format!("map-address:vec:{}", $key), || format!("n={}", n));
            out.check(r.len() == n, &format!("map-length:vec:{}", $key), || format!("{} vs {}", r.len(), n));
            out.check(r.capacity() == c0, &format!("map-capacity:vec:{}", $key), || format!("n={}: {} vs {}", n, r.capacity(), c0));
            let b: Box<[$A]> = init.iter().map(|a| cast::from_array::<$A>(*a)).collect::<Vec<$A>>().into_boxed_slice();
            let p0 = b.as_ptr() as usize;
            let r: Box<[$B]> = cast::map_slice_box_in_place(b, $f);
            let got: &[$E] = cast::into_array_slice(&r[..]);
            let bad = if got.len() != want.len() { Some(0) } else { (0..n).find(|&i| !$eq(&got[i], &want[i])) };
            out.check(bad.is_none(), &format!("map-values:box:{}", $key), || format!("n={} slot {:?}: input {:?} in place {:?} by value {:?}", n, bad, bad.map(|i| init[i]), bad.and_then(|i| got.get(i)), bad.map(|i| want[i])));
            out.check(r.as_ptr() as usize == p0, &format!("map-address:box:{}", $key), || format!("n={}", n));
            out.check(r.len() == n, &format!("map-length:box:{}", $key), || format!("{} vs {}", r.len(), n));
            out.count(&format!("cls:map:{}", $key));
        }
    }};
}

pub fn run_more(out: &mut Out, rng: &mut Rng, tier: &str) {
    let thorough = tier == "thorough";
    // ---- more families: structured streams in full, fewer random histories than the five main families
    let (nr, max_len, max_ops, max_chain) = if thorough { (20_000, 12, 14, 6) } else { (1_500, 9, 10, 4) };
    run_family(out, rng, &g64x3::fam(), nr, max_len, max_ops, max_chain, thorough);
    run_family(out, rng, &g32x3::fam(), nr, max_len, max_ops, max_chain, true);
    run_family(out, rng, &d50x3::fam(), nr, max_len, max_ops, max_chain, thorough);
    run_family(out, rng, &cam32x3::fam(), nr, max_len, max_ops, max_chain, true);
    run_family(out, rng, &cam64x4::fam(), nr, max_len, max_ops, max_chain, true);
    run_family(out, rng, &luma32x1::fam(), nr, max_len, max_ops, max_chain, true);
    run_family(out, rng, &luma64x2::fam(), nr, max_len, max_ops, max_chain, true);
    run_family(out, rng, &g32x4::fam(), nr, max_len, max_ops, max_chain, true);
    // ---- long buffers (quick tier too)
    let lens = [16usize, 17, 31, 32, 33, 63, 64, 65, 127, 128, 129, 255, 256, 257, 511, 1000, 1025];
    long_buffers(out, rng, &crate::c13::f32x3::fam(), &lens);
    long_buffers(out, rng, &crate::c13::f64x4::fam(), &lens[..12]);
    long_buffers(out, rng, &luma32x1::fam(), &lens);
    long_buffers(out, rng, &g64x3::fam(), &lens[..9]);
    // ---- wide component types
    let wr = if thorough { 600 } else { 60 };
    wide_pair!(out, rng, "Srgb->Hsv:f32x4", f32x4, f32, 4, Srgb<f32x4>, Hsv<SrgbS, f32x4>, Kind::Rgb, Kind::Hsx, wr);
    wide_pair!(out, rng, "Hsl->Srgb:f32x8", f32x8, f32, 8, Hsl<SrgbS, f32x8>, Srgb<f32x8>, Kind::Hsx, Kind::Rgb, wr);
    wide_pair!(out, rng, "Lab->Lch:f32x8", f32x8, f32, 8, Lab<D65, f32x8>, Lch<D65, f32x8>, Kind::Lab, Kind::Lch, wr);
    wide_pair!(out, rng, "Xyz->Yxy:f64x2", f64x2, f64, 2, Xyz<D65, f64x2>, Yxy<D65, f64x2>, Kind::Xyz, Kind::Yxy, wr);
    wide_pair!(out, rng, "LinSrgb->Xyz:f64x4", f64x4, f64, 4, LinSrgb<f64x4>, Xyz<D65, f64x4>, Kind::Rgb, Kind::Xyz, wr);
    wide_pair!(out, rng, "Oklab->Oklch:f32x4", f32x4, f32, 4, Oklab<f32x4>, Oklch<f32x4>, Kind::Oklab, Kind::Oklch, wr);
    // ---- Okhwb (no identity conversion `Okhwb -> Okhwb`, so it cannot be a member of a `family!`): the same clauses at scalar components
    wide_pair!(out, rng, "Okhwb->Okhsv:f32", f32, f32, 1, Okhwb<f32>, Okhsv<f32>, Kind::Okhsx, Kind::Okhsx, wr);
    wide_pair!(out, rng, "Srgb->Okhwb:f64", f64, f64, 1, Srgb<f64>, Okhwb<f64>, Kind::Rgb, Kind::Okhsx, wr);
    wide_pair!(out, rng, "Okhwb->Oklab:f64", f64, f64, 1, Okhwb<f64>, Oklab<f64>, Kind::Okhsx, Kind::Oklab, wr);
    // ---- mixed forms
    let mr = if thorough { 2_000 } else { 200 };
    mixed!(out, rng, "Srgb/Hsl/Lab:f32", f32, 3, Srgb<f32>, Hsl<SrgbS, f32>, Lab<D65, f32>, Kind::Rgb, mr);
    mixed!(out, rng, "Lch/Xyz/Oklch:f64", f64, 3, Lch<D65, f64>, Xyz<D65, f64>, Oklch<f64>, Kind::Lch, mr);
    mixed!(out, rng, "Srgba/Laba/Yxya:f32", f32, 4, Alpha<Srgb<f32>, f32>, Alpha<Lab<D65, f32>, f32>, Alpha<Yxy<D65, f32>, f32>, Kind::Rgb, mr);
    mixed!(out, rng, "Lms/Xyz/Yxy:f32", f32, 3, LmsD65<f32>, Xyz<D65, f32>, Yxy<D65, f32>, Kind::Yxy, mr);
    mixed!(out, rng, "Luma:f32", f32, 1, Luma<SrgbS, f32>, Luma<Linear<D65>, f32>, Luma<Gamma<D65>, f32>, Kind::Rgb, mr);
    // ---- map_vec_in_place / map_slice_box_in_place, arbitrary closures, integer components, Packed, PreAlpha
    let lens: Vec<usize> = if thorough { (0..70).chain([127, 128, 129, 1000, 4097]).collect() } else { vec![0, 1, 2, 3, 4, 5, 7, 8, 9, 15, 16, 17, 33, 64, 65, 257] };
    map_forms!(out, rng, "Srgb<u8>:swap", Srgb<u8>, Rgb<Linear<SrgbS>, u8>, [u8; 3], |r: &mut Rng| { let x = r.next(); [x as u8, (x >> 8) as u8, (x >> 16) as u8] },
        |c: Srgb<u8>| Rgb::<Linear<SrgbS>, u8>::new(c.blue, c.green.wrapping_add(1), c.red), |a: &[u8; 3], b: &[u8; 3]| a == b, lens);
    map_forms!(out, rng, "Srgba<u8>->Packed", Srgba<u8>, Packed<channels::Argb, [u8; 4]>, [u8; 4], |r: &mut Rng| { let x = r.next(); [x as u8, (x >> 8) as u8, (x >> 16) as u8, (x >> 24) as u8] },
        |c: Srgba<u8>| Packed::<channels::Argb, [u8; 4]>::pack(c), |a: &[u8; 4], b: &[u8; 4]| a == b, lens);
    map_forms!(out, rng, "Packed->Srgba<u8>", Packed<channels::Bgra, [u8; 4]>, Srgba<u8>, [u8; 4], |r: &mut Rng| { let x = r.next(); [x as u8, (x >> 8) as u8, (x >> 16) as u8, (x >> 24) as u8] },
        |p: Packed<channels::Bgra, [u8; 4]>| -> Srgba<u8> { p.unpack() }, |a: &[u8; 4], b: &[u8; 4]| a == b, lens);
    map_forms!(out, rng, "Srgb<u16>:swap", Srgb<u16>, Srgb<u16>, [u16; 3], |r: &mut Rng| { let x = r.next(); [x as u16, (x >> 16) as u16, (x >> 32) as u16] },
        |c: Srgb<u16>| Srgb::<u16>::new(c.green, c.blue, !c.red), |a: &[u16; 3], b: &[u16; 3]| a == b, lens);
    map_forms!(out, rng, "Luma<u8>:invert", Luma<SrgbS, u8>, Luma<Linear<D65>, u8>, [u8; 1], |r: &mut Rng| [r.next() as u8],
        |c: Luma<SrgbS, u8>| Luma::<Linear<D65>, u8>::new(!c.luma), |a: &[u8; 1], b: &[u8; 1]| a == b, lens);
    map_forms!(out, rng, "Alpha->PreAlpha:f32", Alpha<LinSrgb<f32>, f32>, PreAlpha<LinSrgb<f32>>, [f32; 4], |r: &mut Rng| [r.unit() as f32, r.unit() as f32, r.unit() as f32, r.edgy(0.0, 1.0) as f32],
        |c: Alpha<LinSrgb<f32>, f32>| -> PreAlpha<LinSrgb<f32>> { PreAlpha::from(c) }, |a: &[f32; 4], b: &[f32; 4]| same(a, b), lens);
    map_forms!(out, rng, "PreAlpha->Alpha:f64", PreAlpha<LinSrgb<f64>>, Alpha<LinSrgb<f64>, f64>, [f64; 4], |r: &mut Rng| [r.unit(), r.unit(), r.unit(), r.edgy(0.0, 1.0)],
        |c: PreAlpha<LinSrgb<f64>>| -> Alpha<LinSrgb<f64>, f64> { Alpha::from(c) }, |a: &[f64; 4], b: &[f64; 4]| same(a, b), lens);
}
