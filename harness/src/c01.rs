//! C01 — conversions invert and commute; alpha passes through.  All ordered pairs of the XYZ-group types (sRGB / D65).
use crate::common::*;
use crate::conv_common::*;
use crate::pairs::*;

fn read_routes(dir: &str) -> Vec<Vec<Option<Vec<usize>>>> {
    let n = NAMES.len();
    let mut r = vec![vec![None; n]; n];
    if let Ok(txt) = std::fs::read_to_string(format!("{}/routes.txt", dir)) {
        for line in txt.lines() {
            if let Some(rest) = line.strip_prefix("ROUTE ") {
                let mut it = rest.split(':');
                let ab: Vec<usize> = it.next().unwrap_or("").split_whitespace().filter_map(|t| t.parse().ok()).collect();
                let path: Vec<usize> = it.next().unwrap_or("").split_whitespace().filter_map(|t| t.parse().ok()).collect();
                if ab.len() == 2 && path.len() >= 2 { r[ab[0]][ab[1]] = Some(path); }
            }
        }
    }
    r
}

trait Dyn: Fl { fn direct(a: usize, b: usize, x: &[Self]) -> Option<Vec<Self>>; fn direct_alpha(a: usize, b: usize, x: &[Self], al: Self) -> Option<(Vec<Self>, Self)>; }
impl Dyn for f32 { fn direct(a: usize, b: usize, x: &[f32]) -> Option<Vec<f32>> { direct_f32(a, b, x) } fn direct_alpha(a: usize, b: usize, x: &[f32], al: f32) -> Option<(Vec<f32>, f32)> { direct_alpha_f32(a, b, x, al) } }
impl Dyn for f64 { fn direct(a: usize, b: usize, x: &[f64]) -> Option<Vec<f64>> { direct_f64(a, b, x) } fn direct_alpha(a: usize, b: usize, x: &[f64], al: f64) -> Option<(Vec<f64>, f64)> { direct_alpha_f64(a, b, x, al) } }

const XYZ: usize = 0; const RGB: usize = 1; const LUMA: usize = 2; const OKLAB: usize = 12; const OKHSL: usize = 14; const OKHSV: usize = 15; const OKHWB: usize = 16;
fn has_okh(p: &[usize]) -> bool { p.iter().any(|&t| t == OKHSL || t == OKHSV || t == OKHWB) }

/// does a chain of colours use the direct linear-sRGB <-> Oklab matrices (the `TypeId == Srgb` shortcut in oklab.rs / rgb.rs)?
fn uses_shortcut(path: &[usize]) -> bool { path.windows(2).any(|w| (w[0] == RGB && w[1] == OKLAB) || (w[0] == OKLAB && w[1] == RGB)) }
/// Known finding K2: in f32, colours on the blue edge of the sRGB gamut (Okhsl hue 264.05 +- 0.6 deg, saturation >= 0.95) convert to an Okhsl/Okhsv
/// saturation of up to 1.03 and back to something else entirely (Srgb(0,0,0.999) -> Okhsl -> Srgb = (0.23,-2.05,1.35)); f64 is fine.
fn blue_edge_f32<T: Dyn>(okhsl: &[T]) -> bool { T::TAG == "f32" && okhsl.len() == 3 && (okhsl[0].to64().rem_euclid(360.0) - 264.05).abs() <= 0.6 && okhsl[1].to64() >= 0.95 }

fn bits_eq<T: Fl>(a: &[T], b: &[T]) -> bool { a.len() == b.len() && a.iter().zip(b).all(|(x, y)| x.bits64() == y.bits64() || (x.to64().is_nan() && y.to64().is_nan())) }
fn finite<T: Fl>(a: &[T]) -> bool { a.iter().all(|x| x.finite()) }
/// distance of two colours of type `ty`, measured in XYZ (well-conditioned common ground; hue at zero chroma etc. do not matter there)
fn dist_xyz<T: Dyn>(ty: usize, p: &[T], q: &[T]) -> f64 {
    let (a, b) = (T::direct(ty, XYZ, p).unwrap(), T::direct(ty, XYZ, q).unwrap());
    a.iter().zip(&b).map(|(x, y)| (x.to64() - y.to64()).abs()).fold(0.0, f64::max)
}

fn run_t<T: Dyn>(out: &mut Out, rng: &mut Rng, n: usize, routes: &Vec<Vec<Option<Vec<usize>>>>) {
    let nt = NAMES.len();
    // in-gamut sources: sRGB cube samples (lattice incl. black, white, grays, primaries + random) pushed to each source type by the implementation
    let mut cube = vec![];
    for r in [0.0, 1e-9, 0.25, 0.5, 1.0 - 1e-9, 1.0] { for g in [0.0, 0.5, 1.0] { for b in [0.0, 1e-9, 0.5, 1.0] { cube.push([r, g, b]); } } }
    for i in 0..=8 { let g = i as f64 / 8.0; cube.push([g, g, g]); }
    for _ in 0..n { cube.push([rng.unit(), rng.unit(), rng.unit()]); }
    // tolerances in XYZ.  f64: the 7-digit RGB matrices alone give 1.85e-7 per Rgb<->Xyz round trip (DESIGN §3 C01), Oklab's published
    // matrices ~1e-7 more, the sRGB join gap 3e-8: 2e-6 leaves a factor 5.  f32: a route has up to 10 edges, cube/cbrt and hue trigonometry
    // amplify eps by < 50 each: 2e-4 absolute (eps = 1.2e-7).
    // Routes through the gamut-mapped Ok spaces (Okhsl/Okhsv/Okhwb) lose more in f32 near white and black, where the cusp/toe computation is
    // ill-conditioned (observed 2.1e-4 at D65 white): 6e-4 there.
    let tol0 = if T::TAG == "f32" { 2e-4 } else { 2e-6 };
    let tol_okh = if T::TAG == "f32" { 6e-4 } else { 2e-6 };
    for a in 0..nt {
        if !PRESENT[a] { continue; }
        let mut srcs: Vec<Vec<T>> = cube.iter().filter_map(|c| { let x: Vec<T> = c.iter().map(|v| T::of(*v)).collect(); T::direct(RGB, a, &x) }).collect();
        // the same colours with the hue written a whole number of turns away (and as a negative angle): hues are stored as given and every
        // consumer has to normalise them itself, so direct conversions and step-by-step routes must still agree
        let hue_at = match NAMES[a] { "Hsv" | "Hsl" | "Hwb" | "Okhsv" | "Okhsl" | "Okhwb" | "Hsluv" => Some(0), "Lch" | "Lchuv" | "Oklch" => Some(2), _ => None };
        if let Some(hi) = hue_at {
            let base: Vec<Vec<T>> = srcs.iter().step_by(5).cloned().collect();
            for x in base { for k in [-1.0f64, 1.0, 2.0] { let mut y = x.clone(); y[hi] = T::of(y[hi].to64() + 360.0 * k); if y[hi].finite() { srcs.push(y); } } }
        }
        for b in 0..nt {
            if !PRESENT[b] { continue; }
            let key = format!("{}->{}:{}", NAMES[a], NAMES[b], T::TAG);
            let route = routes[a][b].clone();
            for x in &srcs {
                let d = match T::direct(a, b, x) { Some(d) => d, None => { out.count("cls:no-such-impl"); break; } };
                // ---- correspondence of the routing model: the derived impl is literally the composition of hand-written edges along `route`
                if let Some(path) = &route {
                    let mut cur = x.clone();
                    for w in path.windows(2) { cur = T::direct(w[0], w[1], &cur).unwrap_or_default(); }
                    out.case(&format!("routecmp {} {} {} | {} | {} | {}", NAMES[a], NAMES[b], path.iter().map(|i| i.to_string()).collect::<Vec<_>>().join(","), hx_list(x), hx_list(&d), hx_list(&cur)));
                } else { out.case(&format!("routecmp {} {} none | {} | {} | -", NAMES[a], NAMES[b], hx_list(x), hx_list(&d))); }
                if !finite(&d) { out.count("cls:nonfinite-skipped"); continue; }   // C07's business
                // ---- alpha passthrough, bit-exact
                for al in [0.0, 0.37, 1.0] {
                    let al = T::of(al);
                    if let Some((dc, da)) = T::direct_alpha(a, b, x, al) {
                        out.check(bits_eq(&dc, &d) && da.bits64() == al.bits64(), &format!("alpha-passthrough:{}", key), || format!("{:?} alpha {:?}: colour {:?} vs {:?}, alpha out {:?}", x, al, dc, d, da));
                    }
                }
                if b == LUMA || a == b { continue; }
                // ---- round trip a -> b -> a
                if let Some(back) = T::direct(b, a, &d) {
                    if finite(&back) {
                        let tol = if has_okh(&[a, b]) || route.as_ref().map_or(false, |p| has_okh(p)) { tol_okh } else { tol0 };
                        let e = dist_xyz(a, x, &back);
                        out.maxi(&format!("roundtrip-xyz-err:{}", T::TAG), e);
                        let on_blue_edge = T::direct(a, OKHSL, x).map_or(false, |h| blue_edge_f32(&h)) && (has_okh(&[a, b]) || route.as_ref().map_or(false, |p| has_okh(p)));
                        let clause = if on_blue_edge { format!("ok-f32-blue-edge:roundtrip:{}", key) } else { format!("roundtrip:{}", key) };
                        out.check(e <= tol, &clause, || format!("{:?} -> {:?} -> {:?} (XYZ distance {:e})", x, d, back, e));
                    } else { out.count("cls:nonfinite-skipped"); }
                }
                // ---- direct = step by step through any intermediate c
                for c in 0..nt {
                    if !PRESENT[c] || c == LUMA || c == a || c == b { continue; }
                    if let (Some(ac),) = (T::direct(a, c, x),) { if let Some(acb) = T::direct(c, b, &ac) {
                        if finite(&acb) {
                            let e = dist_xyz(b, &d, &acb);
                            // routes that differ in their use of the direct linear-sRGB<->Oklab matrices: those matrices are Ottosson's published ones and are
                            // not the product of the crate's Oklab M1 and its 7-digit sRGB matrix (row-sum distance 1.7e-4 forward, 1.3e-3 inverse, decided in
                            // C01_Route.lean) -- known finding K1.  Within that decided budget it is reported under its own clause; beyond it, as a violation.
                            let via_path: Vec<usize> = match (&routes[a][c], &routes[c][b]) { (Some(p), Some(q)) => p.iter().chain(q.iter().skip(1)).cloned().collect(), _ => vec![] };
                            let mixed = route.as_ref().map_or(false, |p| uses_shortcut(p)) != uses_shortcut(&via_path);
                            let edge = T::direct(a, OKHSL, x).map_or(false, |h| blue_edge_f32(&h)) && (has_okh(&[a, b, c]) || route.as_ref().map_or(false, |p| has_okh(p)) || has_okh(&via_path));
                            let tol = if has_okh(&[a, b, c]) || route.as_ref().map_or(false, |p| has_okh(p)) || has_okh(&via_path) { tol_okh } else { tol0 };
                            if edge { out.check(e <= tol, &format!("ok-f32-blue-edge:commute:{}:via-{}", key, NAMES[c]), || format!("{:?}: direct {:?}, via {} {:?} (XYZ distance {:e})", x, d, NAMES[c], acb, e)); }
                            else if mixed {
                                out.maxi(&format!("commute-shortcut-xyz-err:{}", T::TAG), e);
                                out.check(e <= tol + 2.5e-3, &format!("commute:{}:via-{}", key, NAMES[c]), || format!("{:?}: direct {:?}, via {} {:?} (XYZ distance {:e}, beyond the decided matrix discrepancy)", x, d, NAMES[c], acb, e));
                                out.check(e <= tol, &format!("oklab-shortcut-matrices:commute:{}:via-{}", key, NAMES[c]), || format!("{:?}: direct {:?}, via {} {:?} (XYZ distance {:e})", x, d, NAMES[c], acb, e));
                            } else {
                                out.check(e <= tol, &format!("commute:{}:via-{}", key, NAMES[c]), || format!("{:?}: direct {:?}, via {} {:?} (XYZ distance {:e})", x, d, NAMES[c], acb, e));
                            }
                        } else { out.count("cls:nonfinite-skipped"); }
                    } }
                }
            }
        }
    }
}


/// RGB standards among themselves and into Oklab: the direct conversions carry `TypeId` shortcuts (same standard: reinterpret; same
/// space: transfer functions only; sRGB primaries -> Oklab: direct matrices), which must agree with the step-by-step route through Xyz
/// for EVERY ordered pair of D65 standards, and convert back.
macro_rules! rgb_standards { ($out:expr, $rng:expr, $n:expr, $t:ty) => {{
    type T = $t; let (out, rng, n): (&mut Out, &mut Rng, usize) = ($out, $rng, $n);
    use palette::cast::{from_array, into_array};
    use palette::convert::FromColorUnclamped;
    use palette::encoding::{AdobeRgb, DisplayP3, Linear, Rec2020, Rec709, Srgb};
    use palette::rgb::Rgb; use palette::white_point::D65; use palette::{Oklab, Oklch, Xyz};
    let tol = if T::TAG == "f32" { 2e-5 } else { 1e-6 };
    let mut cols: Vec<[f64; 3]> = vec![[0.9, 0.2, 0.1], [0.1, 0.8, 0.3], [0.2, 0.3, 0.95], [0.5, 0.5, 0.5], [1.0, 1.0, 1.0], [0.0, 0.0, 0.0], [1.0, 0.0, 0.0], [0.0, 1.0, 0.0], [0.0, 0.0, 1.0], [0.02, 0.01, 0.03]];
    for _ in 0..n { cols.push([rng.unit(), rng.unit(), rng.unit()]); }
    macro_rules! pair { ($s1:ty, $s2:ty, $n1:expr, $n2:expr) => {{
        for c in &cols {
            let a: [T; 3] = arr_of(*c);
            let direct: [T; 3] = into_array(<Rgb<$s2, T>>::from_color_unclamped(from_array::<Rgb<$s1, T>>(a)));
            let via: [T; 3] = into_array(<Rgb<$s2, T>>::from_color_unclamped(<Xyz<D65, T>>::from_color_unclamped(from_array::<Rgb<$s1, T>>(a))));
            out.case(&format!("conv Rgb:{} Rgb:{} | {} | {}", $n1, $n2, hx_list(&a), hx_list(&direct)));
            if !(finite(&direct) && finite(&via)) { out.count("cls:nonfinite-skipped"); continue; }
            let e = (0..3).map(|k| (direct[k].to64() - via[k].to64()).abs()).fold(0.0, f64::max);
            out.maxi(&format!("rgb-standards-err:{}", T::TAG), e);
            // pure power laws amplify the matrix mismatch near black (Hölder, DESIGN §3 C01): 4e-3 there, else tol
            let t2 = if $n1 == "AdobeRgb" || $n2 == "AdobeRgb" { 4e-3 } else { 4.0 * tol };
            out.check(e <= t2, &format!("commute-rgb-standards:{}->{}:{}", $n1, $n2, T::TAG), || format!("{:?}: direct {:?}, via Xyz {:?}", a, direct, via));
            let back: [T; 3] = into_array(<Rgb<$s1, T>>::from_color_unclamped(from_array::<Rgb<$s2, T>>(direct)));
            if finite(&back) { let e = (0..3).map(|k| (back[k].to64() - a[k].to64()).abs()).fold(0.0, f64::max);
                let t3 = if $n1 == "AdobeRgb" || $n2 == "AdobeRgb" { 4e-3 } else { 10.0 * tol };
                out.check(e <= t3, &format!("roundtrip-rgb-standards:{}->{}:{}", $n1, $n2, T::TAG), || format!("{:?} -> {:?} -> {:?}", a, direct, back)); }
        }
        out.count("cls:rgb-standard-pair");
    }} }
    macro_rules! ok { ($s:ty, $n1:expr) => {{
        for c in &cols {
            let a: [T; 3] = arr_of(*c);
            let direct: [T; 3] = into_array(Oklab::<T>::from_color_unclamped(from_array::<Rgb<$s, T>>(a)));
            let via: [T; 3] = into_array(Oklab::<T>::from_color_unclamped(<Xyz<D65, T>>::from_color_unclamped(from_array::<Rgb<$s, T>>(a))));
            out.case(&format!("conv Rgb:{} Oklab | {} | {}", $n1, hx_list(&a), hx_list(&direct)));
            if !(finite(&direct) && finite(&via)) { out.count("cls:nonfinite-skipped"); continue; }
            let e = (0..3).map(|k| (direct[k].to64() - via[k].to64()).abs()).fold(0.0, f64::max);
            out.maxi(&format!("rgb-oklab-direct-vs-xyz:{}:{}", $n1, T::TAG), e);
            // standards on sRGB primaries take Ottosson's direct matrices, which differ from M1·(sRGB matrix) by K1 (C01WholeOk.k1_forward_colour:
            // at most 3.9e-4 in Oklab units); every other standard goes through Xyz, so the two are the same computation: 1e-3 covers both
            out.check(e <= 1e-3, &format!("commute-rgb-oklab:{}:{}", $n1, T::TAG), || format!("Rgb<{}> {:?}: direct Oklab {:?}, via Xyz {:?}", $n1, a, direct, via));
            let back: [T; 3] = into_array(<Rgb<$s, T>>::from_color_unclamped(from_array::<Oklab<T>>(direct)));
            let lch: [T; 3] = into_array(<Rgb<$s, T>>::from_color_unclamped(Oklch::<T>::from_color_unclamped(from_array::<Rgb<$s, T>>(a))));
            for (what, b) in [("Oklab", back), ("Oklch", lch)] {
                if finite(&b) { let e = (0..3).map(|k| (b[k].to64() - a[k].to64()).abs()).fold(0.0, f64::max);
                    let t3 = if $n1 == "AdobeRgb" { 4e-3 } else if T::TAG == "f32" { 2e-4 } else { 2e-5 };
                    out.check(e <= t3, &format!("roundtrip-rgb-{}:{}:{}", what, $n1, T::TAG), || format!("Rgb<{}> {:?} -> {} -> {:?}", $n1, a, what, b)); }
            }
        }
        out.count("cls:rgb-standard-oklab");
    }} }
    macro_rules! row { ($s1:ty, $n1:expr) => {
        pair!($s1, Srgb, $n1, "Srgb"); pair!($s1, Linear<Srgb>, $n1, "LinSrgb"); pair!($s1, Rec709, $n1, "Rec709"); pair!($s1, AdobeRgb, $n1, "AdobeRgb");
        pair!($s1, DisplayP3, $n1, "DisplayP3"); pair!($s1, Linear<DisplayP3>, $n1, "LinDisplayP3"); pair!($s1, Rec2020, $n1, "Rec2020"); pair!($s1, Linear<Rec2020>, $n1, "LinRec2020");
        ok!($s1, $n1);
    } }
    row!(Srgb, "Srgb"); row!(Linear<Srgb>, "LinSrgb"); row!(Rec709, "Rec709"); row!(AdobeRgb, "AdobeRgb"); row!(DisplayP3, "DisplayP3"); row!(Linear<DisplayP3>, "LinDisplayP3"); row!(Rec2020, "Rec2020"); row!(Linear<Rec2020>, "LinRec2020");
}} }

/// RGB-family types across RGB standards: the direct conversion `A<S1> -> A<S2>` (TypeId shortcuts: same standard -> reinterpret, same space ->
/// transfer functions only, else via Xyz) must equal the step-by-step route through Rgb (and through Xyz), and convert back.
macro_rules! cross_standard { ($out:expr, $rng:expr, $n:expr, $t:ty) => {{
    type T = $t; let (out, rng, n): (&mut Out, &mut Rng, usize) = ($out, $rng, $n);
    use palette::cast::{from_array, into_array};
    use palette::convert::FromColorUnclamped;
    use palette::encoding::{AdobeRgb, DisplayP3, Linear, Rec2020, Rec709, Srgb};
    use palette::rgb::Rgb; use palette::{Hsl, Hsv, Hwb};
    let tol = if T::TAG == "f32" { 2e-5 } else { 1e-6 };   // compared as encoded RGB of the destination standard; matrices 7-digit (3·1.5e-7·…)
    let mut cols: Vec<[f64; 3]> = vec![];
    for h in [0.0, 15.0, 60.0, 119.5, 180.0, 240.0, 300.0, 359.0] { for s in [0.0, 0.25, 0.7, 1.0] { for v in [0.05, 0.3, 0.5, 0.9, 1.0] { cols.push([h, s, v]); } } }
    for _ in 0..n { cols.push([rng.range(0.0, 360.0), rng.unit(), rng.range(0.02, 1.0)]); }
    macro_rules! pair { ($A:ident, $s1:ty, $s2:ty, $n1:expr, $n2:expr, $hwb:expr) => {{
        for c in &cols {
            let c = if $hwb { let w = c[1] * 0.5; let b = (1.0 - c[2]) * 0.5; [c[0], w, b] } else { *c };
            let a: [T; 3] = arr_of(c);
            let src: $A<$s1, T> = from_array(a);
            let direct: [T; 3] = into_array(<$A<$s2, T>>::from_color_unclamped(src));
            let via_rgb: [T; 3] = into_array(<$A<$s2, T>>::from_color_unclamped(<Rgb<$s2, T>>::from_color_unclamped(<Rgb<$s1, T>>::from_color_unclamped(from_array::<$A<$s1, T>>(a)))));
            // compare as Rgb of the destination standard (hue of a gray etc. do not matter there)
            let r1: [T; 3] = into_array(<Rgb<$s2, T>>::from_color_unclamped(from_array::<$A<$s2, T>>(direct)));
            let r2: [T; 3] = into_array(<Rgb<$s2, T>>::from_color_unclamped(from_array::<$A<$s2, T>>(via_rgb)));
            if !(finite(&r1) && finite(&r2)) { out.count("cls:nonfinite-skipped"); continue; }
            let e = (0..3).map(|k| (r1[k].to64() - r2[k].to64()).abs()).fold(0.0, f64::max);
            out.maxi(&format!("cross-standard-err:{}", T::TAG), e);
            out.check(e <= tol, &format!("commute-standards:{}:{}->{}:{}", stringify!($A), $n1, $n2, T::TAG), || format!("{:?}: direct {:?} (= Rgb {:?}), via Rgb {:?} (= Rgb {:?})", a, direct, r1, via_rgb, r2));
            let back: [T; 3] = into_array(<$A<$s1, T>>::from_color_unclamped(from_array::<$A<$s2, T>>(direct)));
            let rb: [T; 3] = into_array(<Rgb<$s1, T>>::from_color_unclamped(from_array::<$A<$s1, T>>(back)));
            let r0: [T; 3] = into_array(<Rgb<$s1, T>>::from_color_unclamped(from_array::<$A<$s1, T>>(a)));
            // a colour outside the destination standard's gamut is not representable in its hexcone form (negative components are lost): only in-gamut
            let rs2: [T; 3] = into_array(<Rgb<$s2, T>>::from_color_unclamped(<Rgb<$s1, T>>::from_color_unclamped(from_array::<$A<$s1, T>>(a))));
            let in_gamut = rs2.iter().all(|v| v.to64() >= 0.0 && v.to64() <= 1.0);
            if finite(&rb) && in_gamut { let e = (0..3).map(|k| (rb[k].to64() - r0[k].to64()).abs()).fold(0.0, f64::max);
                // pure power laws amplify the matrix mismatch near black (Hölder, DESIGN §3 C01): 4e-3 there, else tol
                let t2 = if $n1 == "AdobeRgb" || $n2 == "AdobeRgb" { 4e-3 } else { 10.0 * tol };
                out.check(e <= t2, &format!("roundtrip-standards:{}:{}->{}:{}", stringify!($A), $n1, $n2, T::TAG), || format!("{:?} -> {:?} -> {:?}", a, direct, back)); }
        }
        out.count("cls:cross-standard-pair");
    }} }
    macro_rules! all { ($A:ident, $hwb:expr) => {
        pair!($A, Srgb, Linear<Srgb>, "Srgb", "LinSrgb", $hwb); pair!($A, Linear<Srgb>, Srgb, "LinSrgb", "Srgb", $hwb); pair!($A, Srgb, Rec709, "Srgb", "Rec709", $hwb); pair!($A, Rec709, Linear<Srgb>, "Rec709", "LinSrgb", $hwb);
        pair!($A, Rec2020, Linear<Rec2020>, "Rec2020", "LinRec2020", $hwb); pair!($A, Srgb, DisplayP3, "Srgb", "DisplayP3", $hwb); pair!($A, DisplayP3, Rec2020, "DisplayP3", "Rec2020", $hwb); pair!($A, Srgb, AdobeRgb, "Srgb", "AdobeRgb", $hwb);
        pair!($A, Srgb, Srgb, "Srgb", "Srgb", $hwb);
    } }
    all!(Hsv, false); all!(Hsl, false); all!(Hwb, true);
}} }

pub fn run(tier: &str, seed: u64, dir: &str) {
    let mut out = Out::new("C01", dir);
    let mut rng = Rng::new(seed);
    let routes = read_routes(dir);
    let n = if tier == "thorough" { 1500 } else { 60 };
    run_t::<f32>(&mut out, &mut rng, n, &routes);
    run_t::<f64>(&mut out, &mut rng, n, &routes);
    cross_standard!(&mut out, &mut rng, n, f32);
    cross_standard!(&mut out, &mut rng, n, f64);
    rgb_standards!(&mut out, &mut rng, n / 4 + 8, f32);
    rgb_standards!(&mut out, &mut rng, n / 4 + 8, f64);
    // coverage audit: forms, entry points, boundary inputs and type parameters the clauses above do not drive (`c01_more.rs`).  Called last, so
    // that the case stream above is unchanged.
    crate::c01_more::run_more(&mut out, &mut rng, tier, &routes);
    out.finish(dir, "");
}
