//! C13 — in-place conversion equals out-of-place conversion and guards restore on drop.
//!
//! Random and structured *histories* of guard operations are executed on real, layout-compatible palette
//! types through the public API (`FromColorMut`, `IntoColorMut`, the two guard types, `FromColor` for `Vec`
//! and `Box<[T]>`, `cast::map_vec_in_place`).  The static Rust types are erased behind `dyn` traits that are
//! implemented, by macro, for every concrete guard / buffer type of a family, so that the target types of a
//! history can be chosen at run time.
//!
//! Independently of the implementation the harness keeps, per slot, the symbolic *term* the property
//! predicts (`s<i>` | `w<k>` | `c<a>.<b>(t)` | `u<a>.<b>(t)`) and evaluates it with the ordinary out-of-place
//! conversions (`FromColor::from_color` / `FromColorUnclamped::from_color_unclamped` by value, compiled
//! separately, `#[inline(never)]`).  After **every** operation the buffer is observed through whatever access
//! path Rust allows at that point (the live guard's `Deref`, the reference returned by `restore`, or the owner)
//! and compared **bit for bit** with the evaluated terms, together with address, length and capacity.
//! The line sent to the Lean driver carries the history and the terms; the driver replays the history through
//! the model (`PaletteModel/InPlace.lean`) and requires the model's terms, tags, guard bookkeeping, length and
//! capacity to be the ones printed here.
use crate::common::*;
use palette::cast::{self};
use palette::convert::{
    FromColor, FromColorMut, FromColorMutGuard, FromColorUnclamped, FromColorUnclampedMut, FromColorUnclampedMutGuard, IntoColor, IntoColorMut,
    IntoColorUnclamped, IntoColorUnclampedMut,
};
use palette::white_point::D65;
use palette::{encoding, Alpha, Hsl, Hsluv, Hsv, Hwb, Lab, Lch, Lchuv, LinSrgb, Luv, Okhsl, Okhsv, Oklab, Oklch, Srgb, Xyz, Yxy};
use std::fmt::Write as _;

// ------------------------------------------------------------------------------------------------
// type-erased access to the real API
// ------------------------------------------------------------------------------------------------

/// what can be seen of a buffer through one access path
pub struct View<F, const K: usize> {
    pub ptr: usize,
    pub len: usize,
    pub cap: Option<usize>,
    /// index (in the family) of the *static* element type of the access path
    pub ty: usize,
    pub vals: Vec<[F; K]>,
}

#[derive(Clone, Copy, PartialEq, Eq, Debug)]
pub enum Form { Single, Slice, Vec, Boxed }
impl Form {
    fn tag(self) -> &'static str { match self { Form::Single => "single", Form::Slice => "slice", Form::Vec => "vec", Form::Boxed => "box" } }
}

/// a live conversion guard of some concrete type `From…MutGuard<'a, T, U>` (T, U both sized or both slices)
pub trait DynGuard<'a, F, const K: usize> {
    fn orig(&self) -> usize;
    fn clamped(&self) -> bool;
    /// `Deref`
    fn view(&self) -> View<F, K>;
    /// `DerefMut`
    fn write(&mut self, i: usize, v: [F; K]);
    /// `then_into_color_mut::<C>()` / `then_into_color_unclamped_mut::<C>()`
    fn then_into(self: Box<Self>, cl: bool, c: usize) -> Box<dyn DynGuard<'a, F, K> + 'a>;
    /// `into_unclamped_guard()` on a clamping guard, `into_clamped_guard()` on an unclamped one
    fn switch(self: Box<Self>) -> Box<dyn DynGuard<'a, F, K> + 'a>;
    /// a further in-place conversion of the guarded colours (`guard.into_color_mut()` through `DerefMut`)
    fn nest<'b>(&'b mut self, cl: bool, c: usize, via: u8) -> Box<dyn DynGuard<'b, F, K> + 'b>;
    /// `restore()`; the view is taken through the returned `&'a mut U`
    fn restore(self: Box<Self>) -> View<F, K>;
    fn drop_(self: Box<Self>);
    fn forget_(self: Box<Self>);
}

/// a `T` or `[T]` that guards can be started on
pub trait Tgt<F, const K: usize> {
    fn view(&self) -> View<F, K>;
    fn put(&mut self, i: usize, v: [F; K]);
    fn start<'b>(&'b mut self, cl: bool, c: usize, via: u8) -> Box<dyn DynGuard<'b, F, K> + 'b>;
}

/// the owner of the memory
pub trait DynBuf<F, const K: usize> {
    fn view(&self) -> View<F, K>;
    fn write(&mut self, i: usize, v: [F; K]);
    fn start<'a>(&'a mut self, cl: bool, t: usize, via: u8) -> Box<dyn DynGuard<'a, F, K> + 'a>;
    /// by-value in-place conversion of `Vec<T>` / `Box<[T]>`
    fn owned(self: Box<Self>, cl: bool, t: usize, via: u8) -> Box<dyn DynBuf<F, K>>;
}

/// the ordinary (out-of-place, by value) conversions: the reference the terms are evaluated with
pub trait Conv<F, const K: usize> {
    fn conv_to(cl: bool, b: usize, x: [F; K]) -> [F; K];
}

pub struct One<T>(pub T);
/// a proper sub-slice `store[off..off+len]` of a larger allocation
pub struct SliceBuf<T> { pub store: Vec<T>, pub off: usize, pub len: usize }

pub struct Fam<F: 'static, const K: usize> {
    pub name: &'static str,
    pub names: &'static [&'static str],
    pub kinds: &'static [Kind],
    pub new_buf: fn(Form, usize, &[[F; K]], usize) -> Box<dyn DynBuf<F, K>>,
    pub conv: fn(bool, usize, usize, [F; K]) -> [F; K],
}

#[derive(Clone, Copy, Debug)]
pub enum Kind { Rgb, Hsx, Lab, Lch, Xyz, Yxy, Oklab, Oklch, Luv, Hsluv, Okhsx }
impl Kind {
    /// nominal component ranges of the colour space (in-range inputs of the property)
    fn ranges(self) -> [(f64, f64); 3] {
        match self {
            Kind::Rgb => [(0.0, 1.0), (0.0, 1.0), (0.0, 1.0)],
            Kind::Hsx => [(-180.0, 360.0), (0.0, 1.0), (0.0, 1.0)],
            Kind::Lab => [(0.0, 100.0), (-128.0, 127.0), (-128.0, 127.0)],
            Kind::Lch => [(0.0, 100.0), (0.0, 128.0), (-180.0, 360.0)],
            Kind::Xyz => [(0.0, 0.95047), (0.0, 1.0), (0.0, 1.08883)],
            Kind::Yxy => [(0.0, 1.0), (0.0, 1.0), (0.0, 1.0)],
            Kind::Oklab => [(0.0, 1.0), (-0.4, 0.4), (-0.4, 0.4)],
            Kind::Oklch => [(0.0, 1.0), (0.0, 0.4), (-180.0, 360.0)],
            Kind::Luv => [(0.0, 100.0), (-84.0, 176.0), (-135.0, 108.0)],
            Kind::Hsluv => [(-180.0, 360.0), (0.0, 100.0), (0.0, 100.0)],
            Kind::Okhsx => [(-180.0, 360.0), (0.0, 1.0), (0.0, 1.0)],
        }
    }
}

/// the guard methods / trait impls `impl_guard!` goes through (cross-checked with the extraction `Gen/InPlace.lean`)
/// number of random histories per family in the `miri` tier (which skips the structured streams: Miri is ~1000x slower)
const MIRI_RANDOM: usize = 250;
const GAPI: [&str; 2] = [
    "gapi clamped | then_into_color_mut then_into_color_unclamped_mut into_unclamped_guard restore | Deref DerefMut Drop",
    "gapi unclamped | then_into_color_mut then_into_color_unclamped_mut into_clamped_guard restore | Deref DerefMut Drop",
];

macro_rules! impl_guard {
    ($F:ty, $K:expr, $G:ident, $cl:expr, $switch:ident, $TT:ty, $UU:ty, $ti:expr, $ui:expr, [$(($ci:expr, $CC:ty)),*]) => {
        impl<'a> DynGuard<'a, $F, $K> for $G<'a, $TT, $UU> {
            fn orig(&self) -> usize { $ui }
            fn clamped(&self) -> bool { $cl }
            fn view(&self) -> View<$F, $K> { let t: &$TT = &**self; let mut v = Tgt::<$F, $K>::view(t); v.ty = $ti; v }
            fn write(&mut self, i: usize, v: [$F; $K]) { let t: &mut $TT = &mut **self; Tgt::<$F, $K>::put(t, i, v) }
            fn then_into(self: Box<Self>, cl: bool, c: usize) -> Box<dyn DynGuard<'a, $F, $K> + 'a> {
                match (cl, c) {
                    $( (true, $ci) => Box::new((*self).then_into_color_mut::<$CC>()),
                       (false, $ci) => Box::new((*self).then_into_color_unclamped_mut::<$CC>()), )*
                    _ => unreachable!(),
                }
            }
            fn switch(self: Box<Self>) -> Box<dyn DynGuard<'a, $F, $K> + 'a> { Box::new((*self).$switch()) }
            fn nest<'b>(&'b mut self, cl: bool, c: usize, via: u8) -> Box<dyn DynGuard<'b, $F, $K> + 'b> {
                let t: &'b mut $TT = &mut **self;
                Tgt::<$F, $K>::start(t, cl, c, via)
            }
            fn restore(self: Box<Self>) -> View<$F, $K> {
                let r: &'a mut $UU = (*self).restore();
                let mut v = Tgt::<$F, $K>::view(&*r); v.ty = $ui; v
            }
            fn drop_(self: Box<Self>) { drop(*self) }
            fn forget_(self: Box<Self>) { core::mem::forget(*self) }
        }
    };
}

macro_rules! impl_tgt_start {
    ($F:ty, $K:expr, $TT:ty, [$(($ci:expr, $CC:ty)),*]) => {
        fn start<'b>(&'b mut self, cl: bool, c: usize, via: u8) -> Box<dyn DynGuard<'b, $F, $K> + 'b> {
            match (cl, c) {
                $( (true, $ci) => if via == 0 { Box::new(<$CC as FromColorMut<$TT>>::from_color_mut(self)) } else { Box::new(IntoColorMut::<$CC>::into_color_mut(self)) },
                   (false, $ci) => if via == 0 { Box::new(<$CC as FromColorUnclampedMut<$TT>>::from_color_unclamped_mut(self)) } else { Box::new(IntoColorUnclampedMut::<$CC>::into_color_unclamped_mut(self)) }, )*
                _ => unreachable!(),
            }
        }
    };
}

macro_rules! family {
    ($modname:ident, $F:ty, $K:expr; $($body:tt)*) => { family!(@main $modname, $F, $K, [$($body)*]; $($body)*); };
    (@main $modname:ident, $F:ty, $K:expr, $all:tt; $(($i:expr, $T:ty, $kind:ident)),* $(,)?) => {
        pub mod $modname {
            use super::*;
            $( family!(@per_t $F, $K, $i, $T, $all, $all); )*
            pub fn new_buf(form: Form, u: usize, init: &[[$F; $K]], cap_extra: usize) -> Box<dyn DynBuf<$F, $K>> {
                match u {
                    $( $i => {
                        let mut v: Vec<$T> = Vec::with_capacity(init.len() + cap_extra);
                        v.extend(init.iter().map(|a| cast::from_array::<$T>(*a)));
                        match form {
                            Form::Single => Box::new(One::<$T>(v[0].clone())),
                            Form::Slice => {
                                let mut store: Vec<$T> = Vec::with_capacity(init.len() + 2);
                                let pad: $T = cast::from_array([0.25 as $F; $K]);
                                store.push(pad.clone()); store.extend(v.into_iter()); store.push(pad);
                                Box::new(SliceBuf::<$T> { store, off: 1, len: init.len() })
                            }
                            Form::Vec => Box::new(v),
                            Form::Boxed => Box::new(v.into_boxed_slice()),
                        }
                    } )*
                    _ => unreachable!(),
                }
            }
            pub fn conv(cl: bool, a: usize, b: usize, x: [$F; $K]) -> [$F; $K] {
                match a { $( $i => <$T as Conv<$F, $K>>::conv_to(cl, b, x), )* _ => unreachable!() }
            }
            pub const NAMES: &[&str] = &[$(stringify!($T)),*];
            pub const KINDS: &[Kind] = &[$(Kind::$kind),*];
            pub fn fam() -> Fam<$F, $K> { Fam { name: stringify!($modname), names: NAMES, kinds: KINDS, new_buf, conv } }
        }
    };
    (@per_t $F:ty, $K:expr, $ti:expr, $T:ty, [$(($ci:expr, $C:ty, $ck:ident)),* $(,)?], $all:tt) => {
        impl Tgt<$F, $K> for $T {
            fn view(&self) -> View<$F, $K> {
                View { ptr: self as *const $T as usize, len: 1, cap: None, ty: $ti, vals: vec![*cast::into_array_ref(self)] }
            }
            fn put(&mut self, i: usize, v: [$F; $K]) { assert!(i == 0); *self = cast::from_array(v); }
            impl_tgt_start!($F, $K, $T, [$(($ci, $C)),*]);
        }
        impl Tgt<$F, $K> for [$T] {
            fn view(&self) -> View<$F, $K> {
                View { ptr: self.as_ptr() as usize, len: self.len(), cap: None, ty: $ti, vals: cast::into_array_slice(self).to_vec() }
            }
            fn put(&mut self, i: usize, v: [$F; $K]) { self[i] = cast::from_array(v); }
            impl_tgt_start!($F, $K, [$T], [$(($ci, [$C])),*]);
        }
        impl Conv<$F, $K> for $T {
            #[inline(never)]
            fn conv_to(cl: bool, b: usize, x: [$F; $K]) -> [$F; $K] {
                let a: $T = cast::from_array(x);
                match (cl, b) {
                    $( (true, $ci) => cast::into_array(<$C as FromColor<$T>>::from_color(a)),
                       (false, $ci) => cast::into_array(<$C as FromColorUnclamped<$T>>::from_color_unclamped(a)), )*
                    _ => unreachable!(),
                }
            }
        }
        impl DynBuf<$F, $K> for One<$T> {
            fn view(&self) -> View<$F, $K> { Tgt::<$F, $K>::view(&self.0) }
            fn write(&mut self, i: usize, v: [$F; $K]) { Tgt::<$F, $K>::put(&mut self.0, i, v) }
            fn start<'a>(&'a mut self, cl: bool, t: usize, via: u8) -> Box<dyn DynGuard<'a, $F, $K> + 'a> { Tgt::<$F, $K>::start(&mut self.0, cl, t, via) }
            fn owned(self: Box<Self>, _cl: bool, _t: usize, _via: u8) -> Box<dyn DynBuf<$F, $K>> { unreachable!() }
        }
        impl DynBuf<$F, $K> for SliceBuf<$T> {
            fn view(&self) -> View<$F, $K> {
                // the elements next to the slice are never touched
                let pad = [0.25 as $F; $K];
                assert!(*cast::into_array_ref(&self.store[0]) == pad && *cast::into_array_ref(&self.store[self.off + self.len]) == pad && self.store.len() == self.len + 2, "out-of-slice write");
                Tgt::<$F, $K>::view(&self.store[self.off..self.off + self.len])
            }
            fn write(&mut self, i: usize, v: [$F; $K]) { let (o, l) = (self.off, self.len); Tgt::<$F, $K>::put(&mut self.store[o..o + l], i, v) }
            fn start<'a>(&'a mut self, cl: bool, t: usize, via: u8) -> Box<dyn DynGuard<'a, $F, $K> + 'a> { let (o, l) = (self.off, self.len); Tgt::<$F, $K>::start(&mut self.store[o..o + l], cl, t, via) }
            fn owned(self: Box<Self>, _cl: bool, _t: usize, _via: u8) -> Box<dyn DynBuf<$F, $K>> { unreachable!() }
        }
        impl DynBuf<$F, $K> for Vec<$T> {
            fn view(&self) -> View<$F, $K> { let mut v = Tgt::<$F, $K>::view(self.as_slice()); v.cap = Some(self.capacity()); v }
            fn write(&mut self, i: usize, v: [$F; $K]) { Tgt::<$F, $K>::put(self.as_mut_slice(), i, v) }
            fn start<'a>(&'a mut self, cl: bool, t: usize, via: u8) -> Box<dyn DynGuard<'a, $F, $K> + 'a> { Tgt::<$F, $K>::start(self.as_mut_slice(), cl, t, via) }
            fn owned(self: Box<Self>, cl: bool, t: usize, via: u8) -> Box<dyn DynBuf<$F, $K>> {
                let v: Vec<$T> = *self;
                match (cl, t) {
                    $( (true, $ci) => Box::new(match via { 0 => <Vec<$C> as FromColor<Vec<$T>>>::from_color(v), 1 => IntoColor::<Vec<$C>>::into_color(v), _ => cast::map_vec_in_place(v, <$C as FromColor<$T>>::from_color) }),
                       (false, $ci) => Box::new(match via { 0 => <Vec<$C> as FromColorUnclamped<Vec<$T>>>::from_color_unclamped(v), 1 => IntoColorUnclamped::<Vec<$C>>::into_color_unclamped(v), _ => cast::map_vec_in_place(v, <$C as FromColorUnclamped<$T>>::from_color_unclamped) }), )*
                    _ => unreachable!(),
                }
            }
        }
        impl DynBuf<$F, $K> for Box<[$T]> {
            fn view(&self) -> View<$F, $K> { Tgt::<$F, $K>::view(&**self) }
            fn write(&mut self, i: usize, v: [$F; $K]) { Tgt::<$F, $K>::put(&mut **self, i, v) }
            fn start<'a>(&'a mut self, cl: bool, t: usize, via: u8) -> Box<dyn DynGuard<'a, $F, $K> + 'a> { Tgt::<$F, $K>::start(&mut **self, cl, t, via) }
            fn owned(self: Box<Self>, cl: bool, t: usize, via: u8) -> Box<dyn DynBuf<$F, $K>> {
                let v: Box<[$T]> = *self;
                match (cl, t) {
                    $( (true, $ci) => Box::new(match via { 0 => <Box<[$C]> as FromColor<Box<[$T]>>>::from_color(v), 1 => IntoColor::<Box<[$C]>>::into_color(v), _ => cast::map_slice_box_in_place(v, <$C as FromColor<$T>>::from_color) }),
                       (false, $ci) => Box::new(match via { 0 => <Box<[$C]> as FromColorUnclamped<Box<[$T]>>>::from_color_unclamped(v), 1 => IntoColorUnclamped::<Box<[$C]>>::into_color_unclamped(v), _ => cast::map_slice_box_in_place(v, <$C as FromColorUnclamped<$T>>::from_color_unclamped) }), )*
                    _ => unreachable!(),
                }
            }
        }
        // the guards whose *current* type is $T, for every original type U (named $C here)
        $( family!(@per_tu $F, $K, $ti, $T, $ci, $C, $all); )*
    };
    (@per_tu $F:ty, $K:expr, $ti:expr, $T:ty, $ui:expr, $U:ty, [$(($ci:expr, $C:ty, $ck:ident)),* $(,)?]) => {
        impl_guard!($F, $K, FromColorMutGuard, true, into_unclamped_guard, $T, $U, $ti, $ui, [$(($ci, $C)),*]);
        impl_guard!($F, $K, FromColorUnclampedMutGuard, false, into_clamped_guard, $T, $U, $ti, $ui, [$(($ci, $C)),*]);
        impl_guard!($F, $K, FromColorMutGuard, true, into_unclamped_guard, [$T], [$U], $ti, $ui, [$(($ci, [$C])),*]);
        impl_guard!($F, $K, FromColorUnclampedMutGuard, false, into_clamped_guard, [$T], [$U], $ti, $ui, [$(($ci, [$C])),*]);
    };
}

// the dyn-dispatch layer is reused for the colour types of `c13_panic.rs` (conversions that panic at a chosen element)
pub(crate) use {family, impl_guard, impl_tgt_start};

type SrgbS = encoding::Srgb;

// (Hsl/Hsv/Hwb<Srgb> convert from and to Rgb<Srgb> only, so linear RGB lives in the families without them)
// f32, three components: the wide family
family!(f32x3, f32, 3;
    (0, Srgb<f32>, Rgb), (1, Hsl<SrgbS, f32>, Hsx), (2, Hsv<SrgbS, f32>, Hsx), (3, Hwb<SrgbS, f32>, Hsx),
    (4, Lab<D65, f32>, Lab), (5, Lch<D65, f32>, Lch), (6, Xyz<D65, f32>, Xyz), (7, Yxy<D65, f32>, Yxy), (8, Oklab<f32>, Oklab), (9, Oklch<f32>, Oklch),
);
// f64, three components
family!(f64x3, f64, 3;
    (0, Srgb<f64>, Rgb), (1, Hsl<SrgbS, f64>, Hsx), (2, Hsv<SrgbS, f64>, Hsx), (3, Lab<D65, f64>, Lab),
    (4, Lch<D65, f64>, Lch), (5, Xyz<D65, f64>, Xyz), (6, Oklch<f64>, Oklch),
);
// f32 with alpha
family!(f32x4, f32, 4;
    (0, Alpha<Srgb<f32>, f32>, Rgb), (1, Alpha<Hsl<SrgbS, f32>, f32>, Hsx), (2, Alpha<Hwb<SrgbS, f32>, f32>, Hsx),
    (3, Alpha<Lab<D65, f32>, f32>, Lab), (4, Alpha<Yxy<D65, f32>, f32>, Yxy), (5, Alpha<Oklab<f32>, f32>, Oklab),
);
// f64 with alpha
family!(f64x4, f64, 4;
    (0, Alpha<LinSrgb<f64>, f64>, Rgb), (1, Alpha<Lch<D65, f64>, f64>, Lch), (2, Alpha<Xyz<D65, f64>, f64>, Xyz),
    (3, Alpha<Oklab<f64>, f64>, Oklab), (4, Alpha<Luv<D65, f64>, f64>, Luv), (5, Alpha<Oklch<f64>, f64>, Oklch),
);
// linear RGB, the Luv family and the Ok* cylinders (f32)
family!(f32x3b, f32, 3;
    (0, LinSrgb<f32>, Rgb), (1, Luv<D65, f32>, Luv), (2, Lchuv<D65, f32>, Lch), (3, Hsluv<D65, f32>, Hsluv), (4, Okhsl<f32>, Okhsx), (5, Okhsv<f32>, Okhsx),
);

// ------------------------------------------------------------------------------------------------
// histories, the property's prediction (terms), the interpreter
// ------------------------------------------------------------------------------------------------

#[derive(Clone, Debug, PartialEq)]
pub enum Term { Src(usize), W(usize), Conv(bool, usize, usize, Box<Term>) }
impl Term {
    fn show(&self, s: &mut String) {
        match self {
            Term::Src(i) => { write!(s, "s{}", i).unwrap(); }
            Term::W(k) => { write!(s, "w{}", k).unwrap(); }
            Term::Conv(cl, a, b, t) => { write!(s, "{}{}.{}(", if *cl { 'c' } else { 'u' }, a, b).unwrap(); t.show(s); s.push(')'); }
        }
    }
    fn depth(&self) -> usize { match self { Term::Conv(_, _, _, t) => 1 + t.depth(), _ => 0 } }
}

#[derive(Clone, Copy, Debug, PartialEq)]
pub enum Op {
    /// `T::from_color_mut(view)` (via 0) / `view.into_color_mut()` (via 1), clamped or unclamped, on the current view
    Start { cl: bool, t: usize, via: u8 },
    Deref,
    Write { i: usize, k: usize },
    Then { cl: bool, c: usize },
    /// `into_unclamped_guard` / `into_clamped_guard`, whichever the live guard offers
    Switch,
    Restore,
    Drop,
    Forget,
    /// by-value conversion of the owner (`Vec`, `Box<[T]>`)
    Own { cl: bool, t: usize, via: u8 },
}
fn clc(cl: bool) -> char { if cl { 'c' } else { 'u' } }

/// what the property predicts: element terms, static element type of the innermost access path, pending guards
struct Tracker<F, const K: usize> {
    tag: usize,
    terms: Vec<Term>,
    vals: Vec<[F; K]>,            // terms evaluated incrementally with the out-of-place conversions
    stack: Vec<(usize, bool)>,    // (original type, clamped) of every live guard, innermost last
}

struct Run<'f, F: Fl + 'static, const K: usize> {
    fam: &'f Fam<F, K>,
    form: Form,
    init: Vec<[F; K]>,
    written: Vec<[F; K]>,
    ops: &'f [Op],
    pc: usize,
    tr: Tracker<F, K>,
    ptr0: usize,
    cap0: usize,
    obs: String,
    optoks: String,
    problems: Vec<(String, String)>,
    max_depth: usize,
    max_stack: usize,
    n_obs: u64,
}

fn same_bits<F: Fl, const K: usize>(a: &[F; K], b: &[F; K]) -> bool {
    // bit for bit; NaN payloads are not values (Rust leaves them unspecified), so NaN matches NaN
    (0..K).all(|j| a[j].bits64() == b[j].bits64() || (a[j] != a[j] && b[j] != b[j]))
}
fn show_arr<F: Fl, const K: usize>(a: &[F; K]) -> String { let v: Vec<String> = a.iter().map(|x| x.hx()).collect(); v.join(",") }

impl<'f, F: Fl + 'static, const K: usize> Run<'f, F, K> {
    fn eval(&self, t: &Term) -> [F; K] {
        match t { Term::Src(i) => self.init[*i], Term::W(k) => self.written[*k], Term::Conv(cl, a, b, t) => (self.fam.conv)(*cl, *a, *b, self.eval(t)) }
    }
    fn map_conv(&mut self, cl: bool, a: usize, b: usize) {
        for j in 0..self.tr.terms.len() {
            let t = std::mem::replace(&mut self.tr.terms[j], Term::Src(0));
            self.tr.terms[j] = Term::Conv(cl, a, b, Box::new(t));
            self.tr.vals[j] = (self.fam.conv)(cl, a, b, self.tr.vals[j]);
        }
    }
    /// the prediction for one operation (independent of the implementation)
    fn predict(&mut self, op: Op) {
        match op {
            Op::Start { cl, t, .. } => { let u = self.tr.tag; self.map_conv(cl, u, t); self.tr.stack.push((u, cl)); self.tr.tag = t; }
            Op::Deref => {}
            Op::Write { i, k } => { self.tr.terms[i] = Term::W(k); self.tr.vals[i] = self.written[k]; }
            Op::Then { cl, c } => { let t = self.tr.tag; self.map_conv(cl, t, c); let top = self.tr.stack.last_mut().unwrap(); top.1 = cl; self.tr.tag = c; }
            Op::Switch => { let top = self.tr.stack.last_mut().unwrap(); top.1 = !top.1; }
            Op::Restore | Op::Drop => { let (u, cl) = self.tr.stack.pop().unwrap(); let t = self.tr.tag; self.map_conv(cl, t, u); self.tr.tag = u; }
            Op::Forget => { let (u, _) = self.tr.stack.pop().unwrap(); self.tr.tag = u; }
            Op::Own { cl, t, .. } => { let u = self.tr.tag; self.map_conv(cl, u, t); self.tr.tag = t; }
        }
        self.max_stack = self.max_stack.max(self.tr.stack.len());
    }
    fn op_token(&mut self, op: Op, clamped_now: Option<bool>) {
        let s = &mut self.optoks;
        if !s.is_empty() { s.push(' '); }
        match op {
            Op::Start { cl, t, via } => write!(s, "fcm:{}:{}:{}", clc(cl), t, via).unwrap(),
            Op::Deref => s.push_str("deref"),
            Op::Write { i, k } => write!(s, "w:{}:{}", i, k).unwrap(),
            Op::Then { cl, c } => write!(s, "then:{}:{}", clc(cl), c).unwrap(),
            Op::Switch => s.push_str(if clamped_now == Some(true) { "toU" } else { "toC" }),
            Op::Restore => s.push_str("restore"),
            Op::Drop => s.push_str("drop"),
            Op::Forget => s.push_str("forget"),
            Op::Own { cl, t, via } => write!(s, "own:{}:{}:{}", clc(cl), t, via).unwrap(),
        }
    }
    /// compare one observation of the implementation with the prediction and append it to the line
    fn observe(&mut self, v: View<F, K>, g: Option<(usize, bool)>, last: bool) {
        self.n_obs += 1;
        let what = format!("{}:{}:{}", self.form.tag(), self.fam.name, self.pc);
        let mut ok_vals = v.vals.len() == self.tr.vals.len();
        if ok_vals { for j in 0..v.vals.len() { if !same_bits(&v.vals[j], &self.tr.vals[j]) { ok_vals = false; } } }
        if last && ok_vals {
            // the incrementally evaluated terms are the terms evaluated from scratch
            for j in 0..v.vals.len() { let e = self.eval(&self.tr.terms[j]); if !same_bits(&e, &v.vals[j]) { ok_vals = false; } }
        }
        if !ok_vals {
            let j = (0..v.vals.len().min(self.tr.vals.len())).find(|&j| !same_bits(&v.vals[j], &self.tr.vals[j])).unwrap_or(0);
            let mut ts = String::new(); if j < self.tr.terms.len() { self.tr.terms[j].show(&mut ts); }
            let got = v.vals.get(j).map(show_arr).unwrap_or_default(); let want = self.tr.vals.get(j).map(show_arr).unwrap_or_default();
            self.problems.push(("values".into(), format!("{} slot {} holds {} but {} = {} (len {} vs {})", what, j, got, ts, want, v.vals.len(), self.tr.vals.len())));
        }
        if v.ptr != self.ptr0 { self.problems.push(("address".into(), format!("{} buffer at {:#x}, was {:#x}", what, v.ptr, self.ptr0))); }
        if v.len != self.init.len() { self.problems.push(("length".into(), format!("{} length {} was {}", what, v.len, self.init.len()))); }
        if let Some(c) = v.cap { if self.form == Form::Vec && c != self.cap0 { self.problems.push(("capacity".into(), format!("{} capacity {} was {}", what, c, self.cap0))); } }
        for t in &self.tr.terms { self.max_depth = self.max_depth.max(t.depth()); }
        let s = &mut self.obs;
        write!(s, " ; {} ", v.ty).unwrap();
        match g { Some((o, cl)) => write!(s, "{} {} ", o, clc(cl)).unwrap(), None => s.push_str("- - ") }
        write!(s, "{} {} {} ", (v.ptr == self.ptr0) as u8, v.len, match v.cap { Some(c) if self.form == Form::Vec => c.to_string(), _ => "-".into() }).unwrap();
        write!(s, "{}", ok_vals as u8).unwrap();
        for t in &self.tr.terms { s.push(' '); t.show(s); }
    }

    /// runs the operations that apply to one live guard; returns when the guard has been consumed
    fn episode<'a>(&mut self, mut g: Box<dyn DynGuard<'a, F, K> + 'a>) {
        loop {
            if self.pc >= self.ops.len() { return; } // (generated histories always close their guards)
            let op = self.ops[self.pc];
            self.op_token(op, Some(g.clamped()));
            self.predict(op);
            self.pc += 1;
            let last = self.pc == self.ops.len();
            match op {
                Op::Start { cl, t, via } => {
                    {
                        let inner = g.nest(cl, t, via);
                        let gi = (inner.orig(), inner.clamped());
                        self.observe(inner.view(), Some(gi), last);
                        self.episode(inner);
                    }
                    // the closing operation of the inner guard is observed here, through the outer guard
                    // (for `restore` the returned reference has already been observed; this is the same memory)
                    if !matches!(self.ops[self.pc - 1], Op::Restore) {
                        let last = self.pc == self.ops.len();
                        let gi = (g.orig(), g.clamped());
                        self.observe(g.view(), Some(gi), last);
                    }
                    continue;
                }
                Op::Deref => {}
                Op::Write { i, k } => g.write(i, self.written[k]),
                Op::Then { cl, c } => g = g.then_into(cl, c),
                Op::Switch => g = g.switch(),
                Op::Restore => { let v = g.restore(); self.observe(v, self.tr.stack.last().copied(), last); return; }
                Op::Drop => { g.drop_(); return; }
                Op::Forget => { g.forget_(); return; }
                Op::Own { .. } => unreachable!(),
            }
            let gi = (g.orig(), g.clamped());
            self.observe(g.view(), Some(gi), last);
        }
    }
}

pub struct Outcome { pub line: String, pub problems: Vec<(String, String)>, pub max_depth: usize, pub max_stack: usize, pub n_obs: u64 }

/// executes one history on the implementation
pub fn run_history<F: Fl + 'static, const K: usize>(fam: &Fam<F, K>, form: Form, u0: usize, cap_extra: usize, init: &[[F; K]], written: &[[F; K]], ops: &[Op]) -> Outcome {
    let mut buf = (fam.new_buf)(form, u0, init, cap_extra);
    let v0 = buf.view();
    let mut r = Run { fam, form, init: init.to_vec(), written: written.to_vec(), ops, pc: 0,
        tr: Tracker { tag: u0, terms: (0..init.len()).map(Term::Src).collect(), vals: init.to_vec(), stack: vec![] },
        ptr0: v0.ptr, cap0: v0.cap.unwrap_or(init.len()), obs: String::new(), optoks: String::new(), problems: vec![], max_depth: 0, max_stack: 0, n_obs: 0 };
    while r.pc < ops.len() {
        let op = ops[r.pc];
        match op {
            Op::Start { cl, t, via } => {
                r.op_token(op, None); r.predict(op); r.pc += 1;
                let last = r.pc == ops.len();
                {
                    let g = buf.start(cl, t, via);
                    let gi = (g.orig(), g.clamped());
                    r.observe(g.view(), Some(gi), last);
                    r.episode(g);
                }
                // after the closing op of the root guard: observe through the owner, unless `restore` already did
                if !matches!(ops[r.pc - 1], Op::Restore) { let last = r.pc == ops.len(); observe_root(&mut r, &*buf, last); }
                continue;
            }
            Op::Write { i, k } => { r.op_token(op, None); r.predict(op); r.pc += 1; buf.write(i, written[k]); }
            Op::Deref => { r.op_token(op, None); r.predict(op); r.pc += 1; }
            Op::Own { cl, t, via } => { r.op_token(op, None); r.predict(op); r.pc += 1; buf = buf.owned(cl, t, via); }
            _ => unreachable!("guard operation without a guard"),
        }
        let last = r.pc == ops.len();
        observe_root(&mut r, &*buf, last);
    }
    let cap_tok = if form == Form::Vec { r.cap0.to_string() } else { init.len().to_string() };
    let mut line = format!("hist {} {} {} {} {} {} | {}", F::TAG, K, form.tag(), u0, init.len(), cap_tok, r.optoks);
    line.push_str(" ;");
    for a in init { for x in a { line.push(' '); line.push_str(&x.hx()); } }
    line.push_str(" ;");
    for a in written { for x in a { line.push(' '); line.push_str(&x.hx()); } }
    line.push_str(" |");
    line.push_str(&r.obs);
    Outcome { line, problems: r.problems, max_depth: r.max_depth, max_stack: r.max_stack, n_obs: r.n_obs }
}

fn observe_root<F: Fl + 'static, const K: usize>(r: &mut Run<F, K>, buf: &dyn DynBuf<F, K>, last: bool) {
    let mut v = buf.view();
    // after `forget` (or a by-value conversion) the owner's static type is what the prediction calls the tag;
    // the owner reports its own static type
    if r.form != Form::Vec { v.cap = None; }
    r.observe(v, None, last);
}

// ------------------------------------------------------------------------------------------------
// generators
// ------------------------------------------------------------------------------------------------

pub(crate) fn gen_color<F: Fl, const K: usize>(rng: &mut Rng, kind: Kind) -> [F; K] {
    let r = kind.ranges();
    let mut a = [F::of(0.0); K];
    for j in 0..K { a[j] = if j < 3 { F::of(rng.edgy(r[j].0, r[j].1)) } else { F::of(rng.edgy(0.0, 1.0)) }; }
    a
}

/// a random history that is valid by construction (every guard is closed; guard operations only on a live guard)
fn gen_history<F: Fl + 'static, const K: usize>(rng: &mut Rng, fam: &Fam<F, K>, form: Form, u0: usize, n: usize, max_ops: usize, max_chain: usize, written: &mut Vec<[F; K]>) -> Vec<Op> {
    let nt = fam.names.len() as u64;
    let mut ops = vec![];
    // shadow of the static typing: stack of (clamped, chain length), current tag
    let mut stack: Vec<(bool, usize)> = vec![];
    let mut tags: Vec<usize> = vec![u0];
    let target = 1 + rng.below(max_ops as u64) as usize;
    let mut forgot_root = false;
    while ops.len() < target && !forgot_root {
        let r = rng.below(100);
        if stack.is_empty() {
            if r < 60 { let t = rng.below(nt) as usize; let cl = rng.chance(0.6); ops.push(Op::Start { cl, t, via: rng.below(2) as u8 }); stack.push((cl, 1)); tags.push(t); }
            else if r < 70 && n > 0 { let k = written.len(); written.push(gen_color(rng, fam.kinds[*tags.last().unwrap()])); ops.push(Op::Write { i: rng.below(n as u64) as usize, k }); }
            else if r < 75 { ops.push(Op::Deref); }
            else if form == Form::Vec || form == Form::Boxed { let t = rng.below(nt) as usize; ops.push(Op::Own { cl: rng.chance(0.5), t, via: rng.below(3) as u8 }); *tags.last_mut().unwrap() = t; }
        } else {
            let (cl, chain) = *stack.last().unwrap();
            if r < 10 { ops.push(Op::Deref); }
            else if r < 30 && n > 0 { let k = written.len(); written.push(gen_color(rng, fam.kinds[*tags.last().unwrap()])); ops.push(Op::Write { i: rng.below(n as u64) as usize, k }); }
            else if r < 55 && chain < max_chain { let c = rng.below(nt) as usize; let ncl = if rng.chance(0.7) { cl } else { !cl }; ops.push(Op::Then { cl: ncl, c }); *stack.last_mut().unwrap() = (ncl, chain + 1); *tags.last_mut().unwrap() = c; }
            else if r < 63 { ops.push(Op::Switch); stack.last_mut().unwrap().0 = !cl; }
            else if r < 72 && stack.len() < 3 { let t = rng.below(nt) as usize; let ncl = rng.chance(0.5); ops.push(Op::Start { cl: ncl, t, via: rng.below(2) as u8 }); stack.push((ncl, 1)); tags.push(t); }
            else if r < 82 { ops.push(Op::Restore); stack.pop(); tags.pop(); }
            else if r < 94 { ops.push(Op::Drop); stack.pop(); tags.pop(); }
            else if r < 100 { ops.push(Op::Forget); stack.pop(); tags.pop(); if stack.is_empty() { forgot_root = true; } }
        }
    }
    while !stack.is_empty() {
        let r = rng.below(10);
        ops.push(if r < 5 { Op::Drop } else if r < 9 { Op::Restore } else { Op::Forget });
        stack.pop();
    }
    ops
}

pub(crate) fn emit<F: Fl + 'static, const K: usize>(out: &mut Out, fam: &Fam<F, K>, form: Form, u0: usize, cap_extra: usize, init: &[[F; K]], written: &[[F; K]], ops: &[Op]) {
    let key = format!("{}:{}", form.tag(), fam.name);
    let res = std::panic::catch_unwind(std::panic::AssertUnwindSafe(|| run_history(fam, form, u0, cap_extra, init, written, ops)));
    match res {
        Ok(o) => {
            out.case(&o.line);
            // the property's clauses on the implementation, one evaluation per observation and clause
            for clause in ["values", "address", "length", "capacity"] {
                let bad = o.problems.iter().find(|p| p.0 == clause);
                out.check(bad.is_none(), &format!("{}:{}", clause, key), || format!("{} :: {}", bad.unwrap().1, if o.line.len() > 1500 { &o.line[..1500] } else { &o.line[..] }));
                out.oracle_evals += o.n_obs.saturating_sub(1); // the clause was evaluated at every observation
            }
            out.maxi("term-depth", o.max_depth as f64);
            out.maxi("guard-nesting", o.max_stack as f64);
            out.count(&format!("cls:form:{}", form.tag()));
            out.count(&format!("cls:family:{}", fam.name));
            out.count(&format!("cls:len:{}", match init.len() { 0 => "0", 1 => "1", 2..=4 => "2-4", 5..=16 => "5-16", _ => "17+" }));
            out.count(&format!("cls:term-depth:{}", o.max_depth.min(8)));
            for op in ops { out.count(match op { Op::Start { cl: true, .. } => "cls:op:from_color_mut", Op::Start { cl: false, .. } => "cls:op:from_color_unclamped_mut", Op::Deref => "cls:op:deref",
                Op::Write { .. } => "cls:op:write", Op::Then { cl: true, .. } => "cls:op:then_into_color_mut", Op::Then { cl: false, .. } => "cls:op:then_into_color_unclamped_mut", Op::Switch => "cls:op:into_(un)clamped_guard",
                Op::Restore => "cls:op:restore", Op::Drop => "cls:op:drop", Op::Forget => "cls:op:forget", Op::Own { .. } => "cls:op:owned_from_color" }); }
        }
        Err(_) => { out.check(false, &format!("no-panic:{}", key), || format!("history panicked: u0={} n={} ops={:?}", u0, init.len(), ops)); }
    }
}

pub(crate) fn run_family<F: Fl + 'static, const K: usize>(out: &mut Out, rng: &mut Rng, fam: &Fam<F, K>, n_random: usize, max_len: usize, max_ops: usize, max_chain: usize, all_triples: bool) {
    let nt = fam.names.len();
    let forms = [Form::Single, Form::Slice,Form::Vec, Form::Boxed];
    if n_random != MIRI_RANDOM {
    // ---- structured: every ordered pair x form x clamped/unclamped x ending, lengths 0,1,3
    for u in 0..nt { for t in 0..nt { for (fi, form) in forms.iter().enumerate() { for cl in [true, false] { for (ei, end) in [Op::Drop, Op::Restore, Op::Forget].iter().enumerate() {
        let n = if *form == Form::Single { 1 } else { [0usize, 1, 3][(u + t + fi + ei) % 3] };
        let init: Vec<[F; K]> = (0..n).map(|_| gen_color(rng, fam.kinds[u])).collect();
        let written = vec![gen_color::<F, K>(rng, fam.kinds[t])];
        let mut ops = vec![Op::Start { cl, t, via: (ei % 2) as u8 }, Op::Deref];
        if n > 0 && ei != 1 { ops.push(Op::Write { i: n - 1, k: 0 }); }
        ops.push(*end);
        emit(out, fam, *form, u, (u + t) % 3, &init, &written, &ops);
    } } } } }
    // ---- structured: by-value conversion of Vec / Box for every ordered pair, then a second hop
    for u in 0..nt { for t in 0..nt { for form in [Form::Vec, Form::Boxed] { for cl in [true, false] { for via in 0..3u8 {
        let n = [0usize, 1, 2, 7][(u + 2 * t + via as usize) % 4];
        let init: Vec<[F; K]> = (0..n).map(|_| gen_color(rng, fam.kinds[u])).collect();
        let ops = vec![Op::Own { cl, t, via }, Op::Own { cl: !cl, t: (t + 1 + u) % nt, via: (via + 1) % 3 }];
        emit(out, fam, form, u, (t + via as usize) % 4, &init, &[], &ops);
    } } } } }
    // ---- structured: chains start -> then -> (then) -> end over triples
    for u in 0..nt { for t in 0..nt { for c in 0..nt {
        if !all_triples && (u + 2 * t + 3 * c) % 4 != 0 { continue; }
        let form = forms[(u + t + c) % 4];
        let n = if form == Form::Single { 1 } else { 1 + (u + c) % 3 };
        let init: Vec<[F; K]> = (0..n).map(|_| gen_color(rng, fam.kinds[u])).collect();
        let written = vec![gen_color::<F, K>(rng, fam.kinds[c])];
        let (cl1, cl2) = ((u + t) % 2 == 0, (t + c) % 3 != 0);
        let mut ops = vec![Op::Start { cl: cl1, t, via: (c % 2) as u8 }, Op::Then { cl: cl2, c }];
        if (u + c) % 2 == 0 { ops.push(Op::Write { i: 0, k: 0 }); }
        if (t + c) % 3 == 1 { ops.push(Op::Then { cl: cl1, c: (c + u + 1) % nt }); ops.push(Op::Then { cl: cl2, c: (t + u + 2) % nt }); }
        if (u + t + c) % 5 == 0 { ops.push(Op::Switch); }
        ops.push([Op::Drop, Op::Restore, Op::Drop, Op::Forget][(u + t + 2 * c) % 4]);
        emit(out, fam, form, u, 0, &init, &written, &ops);
    } } }
    }
    // ---- random histories
    for _ in 0..n_random {
        let form = *rng.pick(&forms);
        let u0 = rng.below(nt as u64) as usize;
        let n = if form == Form::Single { 1 } else { match rng.below(10) { 0 => 0, 1 => 1, 2 => max_len, _ => rng.below(max_len as u64 + 1) as usize } };
        let init: Vec<[F; K]> = (0..n).map(|_| gen_color(rng, fam.kinds[u0])).collect();
        let mut written = vec![];
        let ops = gen_history(rng, fam, form, u0, n, max_ops, max_chain, &mut written);
        if ops.is_empty() { continue; }
        emit(out, fam, form, u0, rng.below(4) as usize, &init, &written, &ops);
    }
}

pub fn run(tier: &str, seed: u64, dir: &str) {
    let mut out = Out::new("C13", dir);
    let mut rng = Rng::new(seed);
    let thorough = tier == "thorough";
    for l in GAPI { out.case(l); }
    if tier == "miri" {
        // support run under `cargo +nightly miri` (tools/miri_c13.sh): random histories only, two families
        run_family(&mut out, &mut rng, &f32x4::fam(), MIRI_RANDOM, 5, 10, 4, true);
        run_family(&mut out, &mut rng, &f64x3::fam(), MIRI_RANDOM, 5, 10, 4, true);
        out.finish(dir, "");
        return;
    }
    let (nr, max_len, max_ops, max_chain) = if thorough { (80_000, 12, 14, 6) } else { (12_000, 9, 10, 4) };
    run_family(&mut out, &mut rng, &f32x3::fam(), nr, max_len, max_ops, max_chain, thorough);
    run_family(&mut out, &mut rng, &f64x3::fam(), nr, max_len, max_ops, max_chain, true);
    run_family(&mut out, &mut rng, &f32x4::fam(), nr, max_len, max_ops, max_chain, true);
    run_family(&mut out, &mut rng, &f64x4::fam(), nr, max_len, max_ops, max_chain, true);
    run_family(&mut out, &mut rng, &f32x3b::fam(), nr, max_len, max_ops, max_chain, true);
    // histories in which a conversion (or the user's code) panics under `catch_unwind`: `c13_panic.rs`, model `InPlacePanic.lean`
    crate::c13_panic::run_panics(&mut out, &mut rng, tier);
    // coverage audit (AUDIT_C13.md): more colour types / parameters / component types, long buffers, wide types, mixed forms, map_*_in_place
    crate::c13_more::run_more(&mut out, &mut rng, tier);
    if thorough {
        // long buffers (the read/write loop of the in-place map over many elements), every form, two families
        let fam = f32x3::fam();
        for len in [63usize, 255, 256, 1000, 4097] { for form in [Form::Slice, Form::Vec, Form::Boxed] {
            let init: Vec<[f32; 3]> = (0..len).map(|_| gen_color(&mut rng, fam.kinds[0])).collect();
            let written = vec![gen_color::<f32, 3>(&mut rng, fam.kinds[2])];
            emit(&mut out, &fam, form, 0, 3, &init, &written, &[Op::Start { cl: true, t: 2, via: 0 }, Op::Write { i: len - 1, k: 0 }, Op::Then { cl: false, c: 4 }, Op::Drop]);
            if form != Form::Slice { emit(&mut out, &fam, form, 0, 5, &init, &[], &[Op::Own { cl: true, t: 5, via: 2 }, Op::Own { cl: false, t: 8, via: 0 }]); }
        } }
        let fam = f64x4::fam();
        for len in [100usize, 2049] { for form in [Form::Slice, Form::Vec, Form::Boxed] {
            let init: Vec<[f64; 4]> = (0..len).map(|_| gen_color(&mut rng, fam.kinds[0])).collect();
            emit(&mut out, &fam, form, 0, 1, &init, &[], &[Op::Start { cl: false, t: 3, via: 1 }, Op::Start { cl: true, t: 1, via: 0 }, Op::Restore, Op::Switch, Op::Restore]);
        } }
    }
    out.finish(dir, "");
}
