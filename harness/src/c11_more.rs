//! C11, second part — the forms, entry points and component types of `palette::hues` / `palette::angle` that `c11.rs` does not drive
//! (coverage audit `AUDIT_C11.md`).  Every clause is the property's own predicate (the same predicates and tolerances as the sibling
//! clauses of `c11.rs`, see its header) evaluated through the form that was not driven, and/or a bit-for-bit comparison of that form with
//! the form `c11.rs` already drives.  Nothing here is generic over palette's traits: every helper is a `macro_rules!` instantiated at the
//! concrete hue type / float type / SIMD type, so a changed trait bound in palette cannot stop the harness from compiling.
//!
//! Surfaces (clause names in brackets):
//!  * entry points of the scalar types: `From<T> for Hue<T>` / `Into` [`*(From<T>)`, `from-t-stores-angle`], the `SignedAngle` /
//!    `UnsignedAngle` / `AngleEq` traits called directly on `f32` / `f64` [`*(trait)`, `angle-eq-trait`], `PartialEq::ne` for both
//!    `PartialEq` impls [`ne-consistent`], `f32 += Hue<f32>`, `f32 -= Hue<f32>` (+ f64) [`equal-after-scalar-assign-turns`,
//!    `scalar-assign-forms-agree`], the `approx` comparisons `AbsDiffEq` / `RelativeEq` / `UlpsEq` (+ their `_ne` forms)
//!    [`approx-equal-whole-turns`, `approx-unequal-different-angle`, `approx-equal-named`];
//!  * 8-bit conversion through every entry point: `Hue::from_format` (both directions), `FromAngle::from_angle`, `IntoAngle::into_angle`,
//!    the identity `FromAngle<T> for T` [`u8-nearest-code(<form>)`, `u8-forms-agree`, `u8-roundtrip(<form>)`, `u8-to-float-exact(<form>)`,
//!    `into-format-identity`, `from-format-f32-f64`], `AngleEq` / `UnsignedAngle` for `u8` [`u8-angle-traits`];
//!  * the SIMD component types `f32x4, f32x8, f64x2, f64x4` x the five hue types: both normal forms through the hue accessors of every hue
//!    type, the radian accessors and `from_radians` (`RealAngle for $wide`), `from_cartesian` / `into_cartesian`, `angle_eq` for whole-turn
//!    shifts up to +-100 turns AND for different angles (mask false), `HalfRotation` / `FullRotation` [`signed-range:..`, `radians-*`,
//!    `from-radians`, `cartesian-direction`, `cartesian-hue-range`, `equal-whole-turns`, `unequal-different-angle`, `rotation-constants`];
//!  * hues behind references and in collections (`Hue<&T>`, `Hue<&mut T>`, `Hue<[T; N]>`, `Hue<&[T]>`, `Hue<&mut [T]>`, `Hue<Vec<T>>`,
//!    `Hue<Box<[T]>>` and their iterators): a hue read through the form compares equal (`==`) to the hue it was built from
//!    [`ref-forms`, `collection-forms`] (the struct-of-arrays laws proper are C18's).
//!
//! Correspondence lines (ops the driver already has): `hnorm` (hue built by `From<T>`; SIMD lanes), `heq` (SIMD lanes), `hfu8` / `hu8`
//! (codes produced by `from_format` / `from_angle`), `hfmt` (`from_format` f32 -> f64).
use crate::c11::{angles, norm_oracle, resid360, tol, FlX, NormStats, LIMIT};
use crate::common::*;
use approx::{AbsDiffEq, RelativeEq, UlpsEq};
use palette::angle::{AngleEq, FromAngle, FullRotation, HalfRotation, IntoAngle, SignedAngle, UnsignedAngle};
use palette::hues::{Cam16Hue, LabHue, LuvHue, OklabHue, RgbHue};

fn b(x: bool) -> u8 { x as u8 }

/// 256·frac(x/360) in [0, 256) (exact reduction first), as in `c11.rs`
fn resid_code(x: f64) -> f64 {
    let k = (x / 360.0).floor();
    let mut r = (-360.0f64).mul_add(k, x);
    if r < 0.0 { r += 360.0; } if r >= 360.0 { r -= 360.0; }
    r * 256.0 / 360.0
}

/// the u8 clause of `c11.rs` (`u8-nearest-code`): `|code − 256·frac(x/360)| ≤ 1/2` on the circle of codes + rounding of the scaled angle
fn code_ok<T: FlX>(x: T, c: u8) -> bool {
    let want = resid_code(x.to64());
    let d = { let d = (c as f64 - want).abs(); d.min(256.0 - d) };
    d <= 0.5 + 256.0 / 360.0 * tol(x) + 4.0 * T::of(256.0).ulp()
}

const DIFFS: [i64; 11] = [1, -1, 2, 90, 180, -180, 359, -359, 361, 179, 7];

// ------------------------------------------------------------------------------------------------------------------ scalar entry points
macro_rules! more_scalar { ($out:expr, $rng:expr, $thorough:expr, $name:ident, $t:ident) => {{
    let out: &mut Out = $out; let rng: &mut Rng = $rng;
    let key = concat!(stringify!($name), ":", stringify!($t));
    let cfg = concat!(stringify!($name), " ", stringify!($t));
    let xs: Vec<$t> = angles::<$t>(rng, if $thorough { 4_000 } else { 250 }, if $thorough { 7 } else { 97 });
    let mut st = NormStats::default();
    for (i, &x) in xs.iter().enumerate() {
        let h = $name::<$t>::new(x);
        // ---- `From<T> for Hue<T>` and `Into`: the stored angle, and the normal-form clauses through this constructor
        let hf = $name::<$t>::from(x); let hi: $name<$t> = x.into();
        out.check(hf.into_inner().to_bits() == x.to_bits() && hi.into_inner().to_bits() == x.to_bits(), &format!("from-t-stores-angle:{}", key), || format!("{} stored as {} / {}", x.hx(), hf.into_inner().hx(), hi.into_inner().hx()));
        let (s, u) = (hf.into_degrees(), hi.into_positive_degrees());
        if let Some(c) = norm_oracle(x, s, u, &mut st) { out.check(false, &format!("{}(From<T>):{}", c, key), || format!("{} ({:e}) -> signed {:e} unsigned {:e}", x.hx(), x.to64(), s.to64(), u.to64())); } else { out.oracle_evals += 4; }
        if i % 8 == 0 { out.case(&format!("hnorm {} | {} | {} {} {} {} {} {}", cfg, x.hx(), s.hx(), u.hx(), hf.into_radians().hx(), hf.into_positive_radians().hx(), hf.into_raw_radians().hx(), <$t>::from(hf).hx())); }
        // ---- the angle traits called directly on the float
        let (ts, tu) = (SignedAngle::normalize_signed_angle(x), UnsignedAngle::normalize_unsigned_angle(x));
        if let Some(c) = norm_oracle(x, ts, tu, &mut st) { out.check(false, &format!("{}(trait):{}", c, key), || format!("{} ({:e}) -> signed {:e} unsigned {:e}", x.hx(), x.to64(), ts.to64(), tu.to64())); } else { out.oracle_evals += 4; }
        out.count(if ts.to_bits() == h.into_degrees().to_bits() && tu.to_bits() == h.into_positive_degrees().to_bits() { "cls:more:trait=accessor" } else { "cls:more:trait!=accessor" });
        // ---- `FromAngle<T> for T` (identity `into_format::<T>` / `from_format`) keeps the stored angle
        let (id1, id2) = (h.into_format::<$t>().into_inner(), $name::<$t>::from_format(h).into_inner());
        let (id3, id4): ($t, $t) = (<$t as FromAngle<$t>>::from_angle(x), IntoAngle::<$t>::into_angle(x));
        out.check([id1, id2, id3, id4].iter().all(|v| v.to_bits() == x.to_bits()), &format!("into-format-identity:{}", key), || format!("{} -> {} {} {} {}", x.hx(), id1.hx(), id2.hx(), id3.hx(), id4.hx()));
        // ---- float -> u8 through every entry point: the nearest-code clause for each, and they are one function
        let c0 = h.into_format::<u8>().into_inner();
        let c1 = $name::<u8>::from_format(h).into_inner();
        let c2 = <u8 as FromAngle<$t>>::from_angle(x);
        let c3: u8 = IntoAngle::<u8>::into_angle(x);
        for (form, c) in [("from_format", c1), ("from_angle", c2), ("into_angle", c3)] {
            out.check(code_ok(x, c), &format!("u8-nearest-code({}):{}", form, key), || format!("{} ({:e}) -> {} (256·frac(x/360) = {:e})", x.hx(), x.to64(), c, resid_code(x.to64())));
        }
        out.check(c1 == c0 && c2 == c0 && c3 == c0, &format!("u8-forms-agree:{}", key), || format!("{} ({:e}): into_format {} from_format {} from_angle {} into_angle {}", x.hx(), x.to64(), c0, c1, c2, c3));
        if i % 8 == 0 { out.case(&format!("hfu8 {} | {} | {}", cfg, x.hx(), [c1, c2, c3][(i / 8) % 3])); }
        // ---- `ne` of both `PartialEq` impls
        let y = *rng.pick(&xs); let hy = $name::<$t>::new(y);
        out.check((h != hy) == !(h == hy) && (h != y) == !(h == y) && !(h != h) && !(h != x), &format!("ne-consistent:{}", key), || format!("{} vs {}: == {} != {}; vs T: == {} != {}", x.hx(), y.hx(), h == hy, h != hy, h == y, h != y));
        // the trait entry point is the comparison `==` uses
        out.check(AngleEq::angle_eq(&x, &y) == (h == hy), &format!("angle-eq-trait:{}", key), || format!("{} vs {}: angle_eq {} == {}", x.hx(), y.hx(), AngleEq::angle_eq(&x, &y), h == hy));
        // exactly congruent / beyond rounding through `!=` and `angle_eq` (the two clauses of `c11.rs`, same thresholds)
        let dist = resid360(x.to64(), y.to64());
        if dist == 0.0 { out.check(!(h != hy) && !(h != y) && AngleEq::angle_eq(&x, &y), &format!("equal-exact-shift(ne,trait):{}", key), || format!("{} vs {}", x.hx(), y.hx())); }
        else if dist > x.ulp() + y.ulp() + <$t as Fl>::of(360.0).ulp() + 360.0 * <$t as FlX>::tiny() { out.check((h != hy) && (h != y) && !AngleEq::angle_eq(&x, &y), &format!("unequal-beyond-rounding(ne,trait):{}", key), || format!("{} vs {} dist {:e}", x.hx(), y.hx(), dist)); }
    }
    // ---- integer angles in ±100000 shifted by up to ±100 whole turns: `!=`, the trait, the approx comparisons, `T += hue` / `T -= hue`
    let (eps, maxrel, maxulps) = (<$name<$t> as AbsDiffEq>::default_epsilon(), <$name<$t> as RelativeEq>::default_max_relative(), <$name<$t> as UlpsEq>::default_max_ulps());
    for j in 0..(if $thorough { 200_000 } else { 6_000 }) {
        let xi = rng.below(200_001) as i64 - 100_000;
        let k = match j % 5 { 0 => 100, 1 => -100, 2 => 1, 3 => -1, _ => rng.below(201) as i64 - 100 };
        let d = *rng.pick(&DIFFS);
        let (x, y, z) = (xi as $t, (xi + 360 * k) as $t, (xi + 360 * k + d) as $t); // integers below 2^24: exact
        let (hx, hy, hz) = ($name::<$t>::new(x), $name::<$t>::new(y), $name::<$t>::new(z));
        out.check(!(hx != hy) && !(hx != y) && !(hy != hx) && AngleEq::angle_eq(&x, &y), &format!("equal-whole-turns(ne,trait):{}", key), || format!("{} vs {} + {} turns", xi, xi, k));
        out.check((hx != hz) && (hx != z) && !AngleEq::angle_eq(&x, &z), &format!("unequal-different-angle(ne,trait):{}", key), || format!("{} vs {}", xi, xi + 360 * k + d));
        // approx: the comparisons look at the signed normal forms, which are exact on integer angles; a different integer angle is at least
        // one degree away on the circle, far beyond every default tolerance (abs 180·eps, relative eps, 4 ulps)
        let eq = [hx.abs_diff_eq(&hy, eps), !hx.abs_diff_ne(&hy, eps), hx.relative_eq(&hy, eps, maxrel), !hx.relative_ne(&hy, eps, maxrel), hx.ulps_eq(&hy, eps, maxulps), !hx.ulps_ne(&hy, eps, maxulps)];
        out.check(eq.iter().all(|e| *e), &format!("approx-equal-whole-turns:{}", key), || format!("{} vs {} + {} turns: abs/abs_ne/rel/rel_ne/ulps/ulps_ne {:?}", xi, xi, k, eq));
        let ne = [!hx.abs_diff_eq(&hz, eps), hx.abs_diff_ne(&hz, eps), !hx.relative_eq(&hz, eps, maxrel), hx.relative_ne(&hz, eps, maxrel), !hx.ulps_eq(&hz, eps, maxulps), hx.ulps_ne(&hz, eps, maxulps)];
        out.check(ne.iter().all(|e| *e), &format!("approx-unequal-different-angle:{}", key), || format!("{} vs {}: abs/abs_ne/rel/rel_ne/ulps/ulps_ne (each must be true) {:?}", xi, xi + 360 * k + d, ne));
        // `T += Hue<T>`, `T -= Hue<T>`: the angle moved by whole turns is the same hue; and the assign forms are the operator forms
        let t = (360 * k) as $t; let ht = $name::<$t>::new(t);
        let mut a = x; a += ht; let mut s = x; s -= ht;
        out.check($name::<$t>::new(a) == hx && $name::<$t>::new(s) == hx, &format!("equal-after-scalar-assign-turns:{}", key), || format!("{} ± {}: += gives {:e}, -= gives {:e}", xi, 360 * k, a, s));
        let (w, hw) = (z, hz); let mut a2 = x; a2 += hw; let mut s2 = x; s2 -= hw;
        out.check(a2.to_bits() == (x + hw).into_inner().to_bits() && s2.to_bits() == (x - hw).into_inner().to_bits() && a2.to_bits() == (hx + hw).into_inner().to_bits() && s2.to_bits() == (hx - hw).into_inner().to_bits(),
            &format!("scalar-assign-forms-agree:{}", key), || format!("{} and {}: += {:e} -= {:e}", x, w, a2, s2));
        out.count("cls:more:integer-angle");
    }
    for (a, c) in [(0.0, 360.0), (0.0, -360.0), (360.0, -360.0), (180.0, -180.0), (0.0, -0.0), (540.0, 180.0), (-540.0, 180.0)] {
        let (ha, hc) = ($name::<$t>::new(a as $t), $name::<$t>::new(c as $t));
        out.check(!(ha != hc) && !(ha != c as $t) && AngleEq::angle_eq(&(a as $t), &(c as $t)), &format!("equal-named(ne,trait):{}", key), || format!("{} vs {}", a, c));
        out.check(ha.abs_diff_eq(&hc, eps) && ha.relative_eq(&hc, eps, maxrel) && ha.ulps_eq(&hc, eps, maxulps) && !ha.abs_diff_ne(&hc, eps) && !ha.relative_ne(&hc, eps, maxrel) && !ha.ulps_ne(&hc, eps, maxulps), &format!("approx-equal-named:{}", key), || format!("{} vs {}", a, c));
    }
    // ---- u8 -> float through every entry point; every 8-bit hue is reproduced through every pair of entry points
    for n in 0..=255u8 {
        let hn = $name::<u8>::new(n);
        let f0 = hn.into_format::<$t>().into_inner();
        let f1 = $name::<$t>::from_format(hn).into_inner();
        let f2 = <$t as FromAngle<u8>>::from_angle(n);
        let f3: $t = IntoAngle::<$t>::into_angle(n);
        for (form, f) in [("from_format", f1), ("from_angle", f2), ("into_angle", f3)] {
            out.check((f as f64 - n as f64 * 360.0 / 256.0).abs() == 0.0 && f.to_bits() == f0.to_bits(), &format!("u8-to-float-exact({}):{}", form, key), || format!("{} -> {:e} (into_format: {:e})", n, f, f0));
            let back = [$name::<u8>::from_format($name::<$t>::new(f)).into_inner(), <u8 as FromAngle<$t>>::from_angle(f), IntoAngle::<u8>::into_angle(f)];
            out.check(back.iter().all(|c| *c == n), &format!("u8-roundtrip({}):{}", form, key), || format!("{} -> {:e} -> {:?}", n, f, back));
            // whole turns away (exactly representable: multiples of 2^-5 below 2^17)
            for k in [-100i64, -1, 1, 100] {
                let y = (f as f64 + 360.0 * k as f64) as $t;
                let c = $name::<u8>::from_format($name::<$t>::new(y)).into_inner();
                out.check(c == n, &format!("u8-wraps-whole-turns(from_format):{}", key), || format!("{} + {} turns ({:e}) -> {}", n, k, y, c));
            }
        }
        out.case(&format!("hu8 {} | {} | {}", cfg, n, [f1, f2, f3][n as usize % 3].hx()));
    }
    // ---- a hue behind a reference / in a collection is the same hue (`==`)
    {
        let src: [$t; 6] = [0.0, 360.0, -180.0, 725.5, 100000.25, -99999.5]; // + 360 is exact in f32 for each
        let want: Vec<$name<$t>> = src.iter().map(|v| $name::<$t>::new(*v)).collect();
        let same = |got: &[$name<$t>], want: &[$name<$t>]| got.len() == want.len() && got.iter().zip(want).all(|(g, w)| g == w && g.into_inner().to_bits() == w.into_inner().to_bits());
        let rev: Vec<$name<$t>> = want.iter().rev().cloned().collect();
        // Hue<&T>, Hue<&mut T>
        let mut cell = src[3];
        let r = $name::<&$t>::new(&src[3]);
        let ok1 = r.copied() == want[3] && r.cloned() == want[3];
        let mut m = $name::<&mut $t>::new(&mut cell);
        let ok2 = m.copied() == want[3] && m.cloned() == want[3] && m.as_ref().copied() == want[3];
        m.set(want[2]);
        let ok3 = m.copied() == want[2] && $name::<$t>::new(cell) == want[2];
        out.check(ok1 && ok2 && ok3, &format!("ref-forms:{}", key), || format!("copied/cloned {} mut copied/cloned/as_ref {} set {}", ok1, ok2, ok3));
        // arrays, slices, Vec, Box<[T]>
        let mut forms: Vec<(&'static str, bool)> = vec![];
        let arr = $name::<[$t; 6]>::new(src);
        forms.push(("[T;N] into_iter", same(&arr.into_iter().collect::<Vec<_>>(), &want)));
        forms.push(("[T;N] into_iter rev", same(&arr.into_iter().rev().collect::<Vec<_>>(), &rev)));
        forms.push(("&[T;N] iter", same(&arr.iter().map(|h| h.copied()).collect::<Vec<_>>(), &want)));
        forms.push(("&[T;N] iter rev", same(&(&arr).into_iter().rev().map(|h| h.cloned()).collect::<Vec<_>>(), &rev)));
        let mut arr2 = arr; forms.push(("&mut [T;N] iter_mut", same(&arr2.iter_mut().map(|h| h.copied()).collect::<Vec<_>>(), &want)));
        for mut h in arr2.iter_mut() { let v = h.copied(); h.set(v + 360.0); }
        forms.push(("&mut [T;N] set", arr2.into_iter().zip(&want).all(|(g, w)| g == *w)));
        let sl = $name::<&[$t]>::new(&src[..]);
        forms.push(("&[T] into_iter", same(&sl.into_iter().map(|h| h.copied()).collect::<Vec<_>>(), &want)));
        forms.push(("&&[T] iter", same(&sl.iter().map(|h| h.copied()).collect::<Vec<_>>(), &want)));
        forms.push(("get(i)", (0..6).all(|i| sl.get(i).map(|h| h.copied()) == Some(want[i])) && sl.get(6usize).is_none()));
        forms.push(("get(range)", sl.get(1..4).map(|h| same(&h.into_iter().map(|e| e.copied()).collect::<Vec<_>>(), &want[1..4])) == Some(true)));
        let mut buf = src;
        { let ms = $name::<&mut [$t]>::new(&mut buf[..]);
          forms.push(("&&mut [T] iter", same(&(&ms).into_iter().map(|h| h.copied()).collect::<Vec<_>>(), &want)));
          forms.push(("&mut [T] into_iter", same(&ms.into_iter().map(|h| h.copied()).collect::<Vec<_>>(), &want))); }
        { let mut ms = $name::<&mut [$t]>::new(&mut buf[..]);
          forms.push(("&mut &mut [T] iter_mut", same(&(&mut ms).into_iter().map(|h| h.copied()).collect::<Vec<_>>(), &want)));
          forms.push(("get_mut(i)", (0..6).all(|i| ms.get_mut(i).map(|h| h.copied()) == Some(want[i])))); }
        let mut v = $name::<Vec<$t>>::with_capacity(6);
        for w in &want { v.push(*w); }
        forms.push(("Vec push/iter", same(&v.iter().map(|h| h.copied()).collect::<Vec<_>>(), &want)));
        forms.push(("Vec iter_mut", same(&v.iter_mut().map(|h| h.copied()).collect::<Vec<_>>(), &want)));
        forms.push(("Vec into_iter", same(&v.clone().into_iter().collect::<Vec<_>>(), &want)));
        forms.push(("Vec into_iter rev", same(&v.clone().into_iter().rev().collect::<Vec<_>>(), &rev)));
        { let mut v2 = v.clone(); forms.push(("Vec drain", same(&v2.drain(1..4).collect::<Vec<_>>(), &want[1..4]) && same(&v2.iter().map(|h| h.copied()).collect::<Vec<_>>(), &[want[0], want[4], want[5]]))); }
        { let mut v2 = v.clone(); forms.push(("Vec pop", v2.pop() == Some(want[5]) && v2.pop() == Some(want[4]))); v2.clear(); forms.push(("Vec clear", v2.pop().is_none())); }
        { let mut v2 = $name::<Vec<$t>>::with_capacity(0); v2.extend(src.iter().cloned()); forms.push(("Vec extend", same(&v2.into_iter().collect::<Vec<_>>(), &want))); }
        let mut bx = $name::<Box<[$t]>>::new(src.to_vec().into_boxed_slice());
        forms.push(("&Box<[T]> iter", same(&(&bx).into_iter().map(|h| h.copied()).collect::<Vec<_>>(), &want)));
        forms.push(("&mut Box<[T]> iter_mut", same(&(&mut bx).into_iter().map(|h| h.copied()).collect::<Vec<_>>(), &want)));
        for (form, ok) in forms { out.check(ok, &format!("collection-forms:{}", key), || format!("{}: the hues read through this form are not the hues stored", form)); }
    }
    // ---- `from_format` between the float types is the cast
    for _ in 0..(if $thorough { 2_000 } else { 100 }) {
        let x = *rng.pick(&xs);
        let w = $name::<f64>::from_format($name::<$t>::new(x)).into_inner();
        let n = $name::<f32>::from_format($name::<$t>::new(x)).into_inner();
        out.check(w.to_bits() == (x as f64).to_bits() && n.to_bits() == (x as f32).to_bits(), &format!("from-format-floats:{}", key), || format!("{} -> f64 {:e} f32 {:e}", x.hx(), w, n));
        if stringify!($t) == "f32" { out.case(&format!("hfmt {} f32 | {} | {}", stringify!($name), x.hx(), h64(w))); } else { out.case(&format!("hfmt {} f64 | {} | {}", stringify!($name), x.hx(), h32(n))); }
    }
}} }

// ------------------------------------------------------------------------------------------------------------------ u8 angle traits
macro_rules! more_u8 { ($out:expr, $($name:ident),*) => {{ $(
    for n in 0..=255u8 {
        let h = $name::<u8>::new(n);
        let others = [n, n.wrapping_add(1), n.wrapping_add(128), 255 - n, n.wrapping_sub(1)];
        let ok = others.iter().all(|m| AngleEq::angle_eq(&n, m) == (n == *m) && (h == $name::<u8>::new(*m)) == (n == *m) && (h != $name::<u8>::new(*m)) == (n != *m) && (h == *m) == (n == *m) && (h != *m) == (n != *m));
        $out.check(ok && UnsignedAngle::normalize_unsigned_angle(n) == n && h.into_format::<u8>().into_inner() == n && $name::<u8>::from_format(h).into_inner() == n && $name::<u8>::from(n).into_inner() == n && <u8 as FromAngle<u8>>::from_angle(n) == n,
            concat!("u8-angle-traits:", stringify!($name)), || n.to_string());
    }
)* }} }

// ------------------------------------------------------------------------------------------------------------------ SIMD component types
/// One SIMD type x one hue type: every accessor of the hue applied to a vector, the property's predicate on every lane.
macro_rules! wide_hue { ($out:expr, $st:expr, $vt:ident, $t:ident, $n:expr, $name:ident, $arr:expr, $v:expr, $emit:expr) => {{
    let key = concat!(stringify!($name), ":", stringify!($vt));
    let h = $name::<$vt>::new($v);
    let (s, u) = (h.into_degrees().to_array(), h.into_positive_degrees().to_array());
    let (r, pr, rr) = (h.into_radians().to_array(), h.into_positive_radians().to_array(), h.into_raw_radians().to_array());
    let raw = (h.into_raw_degrees().to_array(), h.into_inner().to_array(), $name::<$vt>::from_degrees($v).into_inner().to_array(), $name::<$vt>::from($v).into_inner().to_array());
    for i in 0..$n {
        let x: $t = $arr[i];
        if let Some(c) = norm_oracle(x, s[i], u[i], $st) { $out.check(false, &format!("{}:{}", c, key), || format!("lane {} = {:e} -> signed {:e} unsigned {:e}", i, x, s[i], u[i])); } else { $out.oracle_evals += 4; }
        $out.check(raw.0[i].to_bits() == x.to_bits() && raw.1[i].to_bits() == x.to_bits() && raw.2[i].to_bits() == x.to_bits() && raw.3[i].to_bits() == x.to_bits(), &format!("raw-degrees:{}", key), || format!("lane {} = {:e}", i, x));
        for (nm, d, rd) in [("signed", s[i], r[i]), ("positive", u[i], pr[i]), ("raw", x, rr[i])] {
            let want = d as f64 * (std::f64::consts::PI / 180.0);
            $out.check((rd as f64 - want).abs() <= 4.0 * <$t as Fl>::eps() * want.abs() + <$t as FlX>::tiny(), &format!("radians-{}:{}", nm, key), || format!("lane {} = {:e}: degrees {:e} radians {:e} (want {:e})", i, x, d, rd, want));
        }
        if $emit && i == 0 { $out.case(&format!("hnorm {} {} | {} | {} {} {} {} {} {}", stringify!($name), stringify!($t), x.hx(), s[i].hx(), u[i].hx(), r[i].hx(), pr[i].hx(), rr[i].hx(), s[i].hx())); }
    }
}} }

macro_rules! wide_cart { ($out:expr, $vt:ident, $t:ident, $n:expr, $name:ident, $a:expr, $b:expr) => {{
    let key = concat!(stringify!($name), ":", stringify!($vt));
    let (a, bb): ([$t; $n], [$t; $n]) = ($a, $b);
    let h = $name::<$vt>::from_cartesian($vt::from(a), $vt::from(bb));
    let hd = h.into_raw_degrees().to_array();
    let (ca, cb) = h.into_cartesian(); let (ca, cb) = (ca.to_array(), cb.to_array());
    let slack = 2.0 * <$t as FlX>::slack_edge();
    for i in 0..$n {
        let hyp = (a[i] as f64).hypot(bb[i] as f64);
        if hyp > 0.0 && hyp.is_finite() {
            let (wa, wb) = (a[i] as f64 / hyp, bb[i] as f64 / hyp);
            let err = (ca[i] as f64 - wa).abs().max((cb[i] as f64 - wb).abs());
            $out.check(err <= slack, &format!("cartesian-direction:{}", key), || format!("lane {}: ({:e}, {:e}) -> hue {:e} -> ({:e}, {:e}) want ({:e}, {:e})", i, a[i], bb[i], hd[i], ca[i], cb[i], wa, wb));
            $out.maxi(concat!("cartesian-direction-err:", stringify!($vt)), err);
            $out.check(hd[i] as f64 >= 0.0 && hd[i] as f64 <= 360.0 + <$t as Fl>::of(360.0).ulp(), &format!("cartesian-hue-range:{}", key), || format!("lane {}: ({:e}, {:e}) -> hue {:e}", i, a[i], bb[i], hd[i]));
            $out.count("cls:more:wide-cart:direction");
        }
    }
}} }

macro_rules! more_wide { ($out:expr, $rng:expr, $thorough:expr, $vt:ident, $t:ident, $n:expr) => {{
    let out: &mut Out = $out; let rng: &mut Rng = $rng;
    let vt = stringify!($vt);
    let mut st = NormStats::default();
    let xs: Vec<$t> = angles::<$t>(rng, if $thorough { 4_000 } else { 200 }, if $thorough { 11 } else { 131 });
    // ---- normal forms and radian accessors, every hue type
    for (ci, chunk) in xs.chunks_exact($n).enumerate() {
        let arr: [$t; $n] = chunk.try_into().unwrap();
        let v = $vt::from(arr);
        let emit = ci % 4 == 0;
        wide_hue!(out, &mut st, $vt, $t, $n, RgbHue, arr, v, emit); wide_hue!(out, &mut st, $vt, $t, $n, LabHue, arr, v, false); wide_hue!(out, &mut st, $vt, $t, $n, LuvHue, arr, v, false);
        wide_hue!(out, &mut st, $vt, $t, $n, OklabHue, arr, v, false); wide_hue!(out, &mut st, $vt, $t, $n, Cam16Hue, arr, v, false);
    }
    // ---- from_radians and back (same predicate as the scalar `from-radians` / `radians-roundtrip`)
    for _ in 0..(if $thorough { 4_000 } else { 300 }) {
        let rs: [$t; $n] = core::array::from_fn(|_| (match rng.below(4) { 0 => rng.range(-7.0, 7.0), 1 => rng.range(-2e4, 2e4), 2 => std::f64::consts::PI * (rng.below(17) as f64 - 8.0) / 4.0, _ => 10f64.powf(rng.range(-30.0, 4.0)) }) as $t);
        macro_rules! one { ($name:ident) => {{
            let h = $name::<$vt>::from_radians($vt::from(rs));
            let (d, back) = (h.into_raw_degrees().to_array(), h.into_raw_radians().to_array());
            for i in 0..$n {
                let want = rs[i] as f64 * (180.0 / std::f64::consts::PI);
                out.check((d[i] as f64 - want).abs() <= 4.0 * <$t as Fl>::eps() * want.abs() + <$t as FlX>::tiny(), &format!("from-radians:{}:{}", stringify!($name), vt), || format!("lane {}: {:e} -> {:e} want {:e}", i, rs[i], d[i], want));
                out.check((back[i] as f64 - rs[i] as f64).abs() <= 4.0 * <$t as Fl>::eps() * (rs[i] as f64).abs() + <$t as FlX>::tiny(), &format!("radians-roundtrip:{}:{}", stringify!($name), vt), || format!("lane {}: {:e} -> {:e} -> {:e}", i, rs[i], d[i], back[i]));
            }
        }} }
        one!(RgbHue); one!(LabHue); one!(LuvHue); one!(OklabHue); one!(Cam16Hue);
    }
    // ---- cartesian: direction -> hue -> unit vector, lane-wise
    for j in 0..(if $thorough { 20_000 } else { 1_500 }) {
        let mut a = [0.0 as $t; $n]; let mut bb = [0.0 as $t; $n];
        for i in 0..$n {
            let th = match (j + i) % 8 { 0 => (rng.below(16) as f64) * std::f64::consts::PI / 8.0, 1 => (rng.below(16) as f64) * std::f64::consts::PI / 8.0 + rng.range(-1e-6, 1e-6), _ => rng.range(-std::f64::consts::PI, std::f64::consts::PI) };
            let rad = match (j + i) % 5 { 0 => 1.0, 1 => 10f64.powf(rng.range(-6.0, 6.0)), 2 => 10f64.powf(rng.range(-12.0, 12.0)), 3 => 100.0 * rng.unit(), _ => 0.4 };
            a[i] = (rad * th.cos()) as $t; bb[i] = (rad * th.sin()) as $t;
            if (j + i) % 16 == 0 { match rng.below(4) { 0 => a[i] = 0.0, 1 => bb[i] = 0.0, 2 => a[i] = -0.0, _ => bb[i] = -0.0 } }
        }
        match j % 5 { 0 => wide_cart!(out, $vt, $t, $n, RgbHue, a, bb), 1 => wide_cart!(out, $vt, $t, $n, LabHue, a, bb), 2 => wide_cart!(out, $vt, $t, $n, LuvHue, a, bb), 3 => wide_cart!(out, $vt, $t, $n, OklabHue, a, bb), _ => wide_cart!(out, $vt, $t, $n, Cam16Hue, a, bb) }
    }
    // ---- equality lane-wise: integer angles, whole turns -> every lane true; a different angle -> every lane false
    for j in 0..(if $thorough { 50_000 } else { 3_000 }) {
        let xi: [i64; $n] = core::array::from_fn(|_| rng.below(200_001) as i64 - 100_000);
        let ks: [i64; $n] = core::array::from_fn(|i| match (j + i) % 5 { 0 => 100, 1 => -100, 2 => 1, 3 => -1, _ => rng.below(201) as i64 - 100 });
        let ds: [i64; $n] = core::array::from_fn(|_| *rng.pick(&DIFFS));
        let x: [$t; $n] = core::array::from_fn(|i| xi[i] as $t);
        let y: [$t; $n] = core::array::from_fn(|i| (xi[i] + 360 * ks[i]) as $t);
        // lanes alternate between a whole-turn shift and a different angle, so that a mask that is constant over the vector is seen
        let z: [$t; $n] = core::array::from_fn(|i| if (i + j) % 2 == 0 { (xi[i] + 360 * ks[i] + ds[i]) as $t } else { y[i] });
        let (vx, vy, vz) = ($vt::from(x), $vt::from(y), $vt::from(z));
        let (m1, m2, m3) = (vx.angle_eq(&vy).to_array(), vy.angle_eq(&vx).to_array(), vx.angle_eq(&vz).to_array());
        for i in 0..$n {
            out.check(m1[i].to_bits() != 0 && m2[i].to_bits() != 0, concat!("equal-whole-turns:", stringify!($vt)), || format!("lane {}: {} vs {} + {} turns", i, xi[i], xi[i], ks[i]));
            let differ = (i + j) % 2 == 0;
            out.check((m3[i].to_bits() != 0) == !differ, concat!("unequal-different-angle:", stringify!($vt)), || format!("lane {}: {} vs {:e}: mask {:x}", i, xi[i], z[i], m3[i].to_bits()));
            if j % 16 == 0 { out.case(&format!("heq RgbHue {} | {} {} | {} {}", stringify!($t), x[i].hx(), z[i].hx(), b(m3[i].to_bits() != 0), b(m3[i].to_bits() != 0))); }
        }
        // through the operators of the hue wrapper: hue ± (whole turns) is the same angle lane-wise
        let t: [$t; $n] = core::array::from_fn(|i| (360 * ks[i]) as $t);
        let (hp, hm) = ((RgbHue::<$vt>::new(vx) + $vt::from(t)).into_inner(), (LabHue::<$vt>::new(vx) - LuvHue::<$vt>::new($vt::from(t)).into_inner()).into_inner());
        let (mp, mm) = (hp.angle_eq(&vx).to_array(), hm.angle_eq(&vx).to_array());
        for i in 0..$n { out.check(mp[i].to_bits() != 0 && mm[i].to_bits() != 0, concat!("equal-after-add-sub-turns:", stringify!($vt)), || format!("lane {}: {} ± {}", i, xi[i], 360 * ks[i])); }
    }
    // ---- general pairs lane-wise: exact circular distance decides which clause applies (thresholds of `c11.rs`)
    for _ in 0..(if $thorough { 20_000 } else { 1_500 }) {
        let x: [$t; $n] = core::array::from_fn(|_| *rng.pick(&xs));
        let y: [$t; $n] = core::array::from_fn(|i| { let k = rng.below(201) as f64 - 100.0; match rng.below(4) {
            0 => match <$t as FlX>::exact_from_f64(x[i] as f64 + 360.0 * k) { Some(y) if (x[i] as f64 + 360.0 * k) - 360.0 * k == x[i] as f64 && (y as f64).abs() <= LIMIT => y, _ => x[i] },
            1 => *rng.pick(&xs),
            2 => x[i].nudge(rng.below(5) as i64 - 2),
            _ => { let y = (x[i] as f64 + 360.0 * k + rng.range(-200.0, 200.0)) as $t; if (y as f64).abs() <= LIMIT { y } else { x[i] } } } });
        let m = $vt::from(x).angle_eq(&$vt::from(y)).to_array();
        for i in 0..$n {
            let dist = resid360(x[i] as f64, y[i] as f64);
            if dist == 0.0 { out.check(m[i].to_bits() != 0, concat!("equal-exact-shift:", stringify!($vt)), || format!("lane {}: {:e} vs {:e}", i, x[i], y[i])); }
            else if dist > x[i].ulp() + y[i].ulp() + <$t as Fl>::of(360.0).ulp() + 360.0 * <$t as FlX>::tiny() { out.check(m[i].to_bits() == 0, concat!("unequal-beyond-rounding:", stringify!($vt)), || format!("lane {}: {:e} vs {:e} dist {:e}", i, x[i], y[i], dist)); }
            else { out.count("cls:more:wide-eq:within-rounding(no-claim)"); }
        }
    }
    // ---- the rotation constants of the SIMD type are the scalar ones in every lane
    let (hr, fr) = (<$vt as HalfRotation>::half_rotation().to_array(), <$vt as FullRotation>::full_rotation().to_array());
    out.check(hr.iter().all(|v| *v == 180.0) && fr.iter().all(|v| *v == 360.0), concat!("rotation-constants:", stringify!($vt)), || format!("{:?} {:?}", hr, fr));
}} }

pub fn run_more(out: &mut Out, rng: &mut Rng, tier: &str) {
    let thorough = tier == "thorough";
    macro_rules! all { ($($name:ident),*) => { $( more_scalar!(out, rng, thorough, $name, f32); more_scalar!(out, rng, thorough, $name, f64); )* } }
    all!(RgbHue, LabHue, LuvHue, OklabHue, Cam16Hue);
    more_u8!(out, RgbHue, LabHue, LuvHue, OklabHue, Cam16Hue);
    use wide::{f32x4, f32x8, f64x2, f64x4};
    more_wide!(out, rng, thorough, f32x4, f32, 4); more_wide!(out, rng, thorough, f32x8, f32, 8);
    more_wide!(out, rng, thorough, f64x2, f64, 2); more_wide!(out, rng, thorough, f64x4, f64, 4);
}
