//! CIE family edges: Xyz, Yxy, Lab, Lch, Luv, Lchuv, Hsluv, Lms.
//! Correspondence lines for the Lean model + the property's own predicate (published definition, edge-pair round trips)
//! evaluated on the implementation.
use crate::common::*;
use crate::conv_common::*;
use palette::lms::matrix::{Bradford, UnitMatrix, VonKries};
use palette::lms::Lms;
use palette::white_point::{Any, A, D50, D65, E};
use palette::{Hsluv, Lab, Lch, Lchuv, Luv, Xyz, Yxy};

/// Independent f64 references written from the publications (CIE 15:2004 §7.3, §8.2.1 L*a*b*, §8.2.2 L*u*v*, polar forms;
/// HSLuv rev4 reference implementation `hsluv.js`/`hsluv-python`; Bradford / Hunt-Pointer-Estevez cone matrices from
/// Lam 1985 / Hunt 1995 as tabulated by Lindbloom) — not from palette.
pub mod spec {
    use std::f64::consts::PI;
    /// CIE standard illuminant tristimulus values, 2° and 10° observer, Y = 1 (ASTM E308-01 as tabulated by Lindbloom; palette rounds the
    /// 10° values to four digits)
    pub fn white(name: &str) -> [f64; 3] {
        match name {
            "D65" => [0.95047, 1.0, 1.08883],
            "D50" => [0.96422, 1.0, 0.82521],
            "E" => [1.0, 1.0, 1.0],
            "A" => [1.09850, 1.0, 0.35585],
            "B" => [0.99072, 1.0, 0.85223],
            "C" => [0.98074, 1.0, 1.18232],
            "D55" => [0.95682, 1.0, 0.92149],
            "D75" => [0.94972, 1.0, 1.22638],
            "F2" => [0.99186, 1.0, 0.67393],
            "F7" => [0.95041, 1.0, 1.08747],
            "F11" => [1.00962, 1.0, 0.64350],
            // 10° observer (ASTM E308-01, table 5)
            "D50Degree10" => [0.96720, 1.0, 0.81427],
            "D55Degree10" => [0.95799, 1.0, 0.90926],
            "D65Degree10" => [0.94811, 1.0, 1.07304],
            "D75Degree10" => [0.94416, 1.0, 1.20641],
            _ => panic!("white point {} not in the reference", name),
        }
    }
    pub fn xyz_to_yxy(c: [f64; 3]) -> [f64; 3] { let s = c[0] + c[1] + c[2]; if s == 0.0 { [0.0, 0.0, c[1]] } else { [c[0] / s, c[1] / s, c[1]] } }
    pub fn yxy_to_xyz(c: [f64; 3]) -> [f64; 3] { let (x, y, l) = (c[0], c[1], c[2]); if y == 0.0 { [0.0, l, 0.0] } else { [x * l / y, l, (1.0 - x - y) * l / y] } }

    // --- CIE 1976 L*a*b* (CIE 15:2004 eq. 8.3-8.11)
    pub fn lab_f(t: f64) -> f64 { let d: f64 = 6.0 / 29.0; if t > d * d * d { t.cbrt() } else { t / (3.0 * d * d) + 4.0 / 29.0 } }
    pub fn lab_finv(t: f64) -> f64 { let d: f64 = 6.0 / 29.0; if t > d { t * t * t } else { 3.0 * d * d * (t - 4.0 / 29.0) } }
    pub fn xyz_to_lab(w: [f64; 3], c: [f64; 3]) -> [f64; 3] {
        let (fx, fy, fz) = (lab_f(c[0] / w[0]), lab_f(c[1] / w[1]), lab_f(c[2] / w[2]));
        [116.0 * fy - 16.0, 500.0 * (fx - fy), 200.0 * (fy - fz)]
    }
    pub fn lab_to_xyz(w: [f64; 3], c: [f64; 3]) -> [f64; 3] {
        let fy = (c[0] + 16.0) / 116.0; let fx = fy + c[1] / 500.0; let fz = fy - c[2] / 200.0;
        [w[0] * lab_finv(fx), w[1] * lab_finv(fy), w[2] * lab_finv(fz)]
    }
    // --- polar forms: C = sqrt(a^2+b^2), h = atan2(b, a) in degrees in [0, 360)
    pub fn to_polar(c: [f64; 3]) -> [f64; 3] { let h = c[2].atan2(c[1]).to_degrees(); [c[0], c[1].hypot(c[2]), if h < 0.0 { h + 360.0 } else { h }] }
    pub fn from_polar(c: [f64; 3]) -> [f64; 3] { let h = c[2] / 180.0 * PI; [c[0], c[1] * h.cos(), c[1] * h.sin()] }
    // --- CIE 1976 L*u*v* (CIE 15:2004 eq. 8.26-8.30), u' = 4X/(X+15Y+3Z), v' = 9Y/(X+15Y+3Z)
    pub fn upvp(c: [f64; 3]) -> (f64, f64) { let d = c[0] + 15.0 * c[1] + 3.0 * c[2]; (4.0 * c[0] / d, 9.0 * c[1] / d) }
    pub fn xyz_to_luv(w: [f64; 3], c: [f64; 3]) -> [f64; 3] {
        let d = c[0] + 15.0 * c[1] + 3.0 * c[2];
        if d == 0.0 { return [0.0, 0.0, 0.0]; } // black: chromaticity undefined, L* = 0 makes u* = v* = 0
        let yr = c[1] / w[1]; let e: f64 = (6.0f64 / 29.0).powi(3);
        let l = if yr > e { 116.0 * yr.cbrt() - 16.0 } else { (29.0f64 / 3.0).powi(3) * yr };
        let (u, v) = upvp(c); let (un, vn) = upvp(w);
        [l, 13.0 * l * (u - un), 13.0 * l * (v - vn)]
    }
    pub fn luv_to_xyz(w: [f64; 3], c: [f64; 3]) -> [f64; 3] {
        let l = c[0];
        if l == 0.0 { return [0.0, 0.0, 0.0]; }
        let y = w[1] * if l > 8.0 { ((l + 16.0) / 116.0).powi(3) } else { l * (3.0f64 / 29.0).powi(3) };
        let (un, vn) = upvp(w);
        let (u, v) = (c[1] / (13.0 * l) + un, c[2] / (13.0 * l) + vn);
        [y * 9.0 * u / (4.0 * v), y, y * (12.0 - 3.0 * u - 20.0 * v) / (4.0 * v)]
    }
    // --- HSLuv rev4 reference
    const M: [[f64; 3]; 3] = [[3.240969941904521, -1.537383177570093, -0.498610760293], [-0.96924363628087, 1.87596750150772, 0.041555057407175], [0.055630079696993, -0.20397695888897, 1.056971514242878]];
    const KAPPA: f64 = 903.2962962;
    const EPSILON: f64 = 0.0088564516;
    pub fn get_bounds(l: f64) -> Vec<(f64, f64)> {
        let sub1 = (l + 16.0).powi(3) / 1560896.0;
        let sub2 = if sub1 > EPSILON { sub1 } else { l / KAPPA };
        let mut r = vec![];
        for c in 0..3 { let (m1, m2, m3) = (M[c][0], M[c][1], M[c][2]);
            for t in 0..2 { let t = t as f64;
                let top1 = (284517.0 * m1 - 94839.0 * m3) * sub2;
                let top2 = (838422.0 * m3 + 769860.0 * m2 + 731718.0 * m1) * l * sub2 - 769860.0 * t * l;
                let bottom = (632260.0 * m3 - 126452.0 * m2) * sub2 + 126452.0 * t;
                r.push((top1 / bottom, top2 / bottom)); } }
        r
    }
    pub fn max_chroma_for_lh(l: f64, h: f64) -> f64 {
        let hrad = h / 360.0 * PI * 2.0;
        let mut min = f64::MAX;
        for (slope, intercept) in get_bounds(l) { let len = intercept / (hrad.sin() - slope * hrad.cos()); if len >= 0.0 { min = min.min(len); } }
        min
    }
    /// `lchToHsluv`: (l, c, h) -> (h, s, l)
    pub fn lch_to_hsluv(c: [f64; 3]) -> [f64; 3] {
        let (l, ch, h) = (c[0], c[1], c[2]);
        if l > 99.9999999 { return [h, 0.0, 100.0]; }
        if l < 0.00000001 { return [h, 0.0, 0.0]; }
        [h, ch / max_chroma_for_lh(l, h) * 100.0, l]
    }
    /// `hsluvToLch`: (h, s, l) -> (l, c, h)
    pub fn hsluv_to_lch(c: [f64; 3]) -> [f64; 3] {
        let (h, s, l) = (c[0], c[1], c[2]);
        if l > 99.9999999 { return [100.0, 0.0, h]; }
        if l < 0.00000001 { return [0.0, 0.0, h]; }
        [l, max_chroma_for_lh(l, h) / 100.0 * s, h]
    }
    // --- cone response matrices
    pub fn cone(name: &str) -> [[f64; 3]; 3] {
        match name {
            "Bradford" => [[0.8951, 0.2664, -0.1614], [-0.7502, 1.7135, 0.0367], [0.0389, -0.0685, 1.0296]],
            "VonKries" => [[0.40024, 0.7076, -0.08081], [-0.2263, 1.16532, 0.0457], [0.0, 0.0, 0.91822]],
            "UnitMatrix" => [[1.0, 0.0, 0.0], [0.0, 1.0, 0.0], [0.0, 0.0, 1.0]],
            _ => panic!("cone matrix {}", name),
        }
    }
    pub fn mul(m: [[f64; 3]; 3], c: [f64; 3]) -> [f64; 3] { [m[0][0] * c[0] + m[0][1] * c[1] + m[0][2] * c[2], m[1][0] * c[0] + m[1][1] * c[1] + m[1][2] * c[2], m[2][0] * c[0] + m[2][1] * c[1] + m[2][2] * c[2]] }
    /// exact inverse by cofactors (the published inverse tables are 7-digit roundings of this)
    pub fn inv(m: [[f64; 3]; 3]) -> [[f64; 3]; 3] {
        let c = |i: usize, j: usize| { let (a, b, p, q) = ((i + 1) % 3, (i + 2) % 3, (j + 1) % 3, (j + 2) % 3); m[a][p] * m[b][q] - m[a][q] * m[b][p] };
        let det = m[0][0] * c(0, 0) + m[0][1] * c(0, 1) + m[0][2] * c(0, 2);
        let mut r = [[0.0; 3]; 3];
        for i in 0..3 { for j in 0..3 { r[j][i] = c(i, j) / det; } }
        r
    }
}

/// ± {0,1,2,16} ulps in T around `x`
fn ulps_around<T: Fl>(x: f64) -> Vec<f64> { let t = T::of(x); [0i64, 1, -1, 2, -2, 16, -16].iter().map(|k| t.nudge(*k).to64()).collect() }

/// cartesian points that sit on hue sector edges (k·60°, ±180°, 360° ≡ 0°) and exact zero chroma, incl. signed zeros
fn polar_edge_cartesians(l: f64, r: f64) -> Vec<[f64; 3]> {
    let mut v = vec![[l, 0.0, 0.0], [l, -0.0, 0.0], [l, 0.0, -0.0], [l, -0.0, -0.0], [l, r, 0.0], [l, r, -0.0], [l, -r, 0.0], [l, -r, -0.0], [l, 0.0, r], [l, 0.0, -r], [l, -0.0, r], [l, -0.0, -r]];
    for k in 0..12 { let h = (k as f64 * 30.0).to_radians(); v.push([l, r * h.cos(), r * h.sin()]); }
    for s in [1e-30, 1e-9, 1e-4] { v.push([l, r, s]); v.push([l, r, -s]); v.push([l, -r, s]); v.push([l, -r, -s]); }
    v
}
fn hue_edges<T: Fl>() -> Vec<f64> {
    let mut v = vec![];
    for k in -6..=12 { v.extend(ulps_around::<T>(k as f64 * 60.0)); }
    v.extend([90.0, 270.0, -90.0, 720.0, 1e-9, -1e-9, 45.0]);
    v
}


/// C07 on the family's edges: finite in-range input -> finite output (`skip` = inputs already reported under a named finding clause)
fn finite_check<T: Fl>(out: &mut Out, name: &str, r: &[([T; 3], [T; 3])], skip: impl Fn(&[f64; 3]) -> bool) {
    for (a, d) in r {
        let a64 = to64(a);
        if skip(&a64) { continue; }
        out.check(d.iter().all(|x| x.finite()), &format!("finite:{}:{}", name, T::TAG), || format!("{:?} -> {:?}", a, d));
    }
}

macro_rules! fam {
    ($fname:ident, $t:ty) => {
        fn $fname(out: &mut Out, rng: &mut Rng, n: usize) {
            type T = $t;
            let eps = <T as Fl>::eps();
            let tag = <T as Fl>::TAG;
            // rounding of a formula of ~10-20 operations in T: 64 eps of the natural scale of the component
            let tol = 64.0 * eps;

            macro_rules! xyz_yxy { ($wp:ty, $wpn:expr) => {{
                let xs = box_inputs(nominal_box("Xyz"), rng, n, false);
                let r = edge::<Xyz<$wp, T>, Yxy<$wp, T>, T, 3, 3>(out, &format!("Xyz:{}", $wpn), &format!("Yxy:{}", $wpn), &xs);
                finite_check::<T>(out, "Xyz->Yxy", &r, |_| false);
                for (a, d) in &r { let want = spec::xyz_to_yxy(to64(a)); out.check(close3(&to64(d), &want, tol, &[1.0, 1.0, 1.0]), &format!("def:Xyz->Yxy:{}", tag), || format!("{:?} -> {:?}, CIE 15 gives {:?}", a, d, want)); }
                let ys = box_inputs(nominal_box("Yxy"), rng, n, false);
                let r = edge::<Yxy<$wp, T>, Xyz<$wp, T>, T, 3, 3>(out, &format!("Yxy:{}", $wpn), &format!("Xyz:{}", $wpn), &ys);
                finite_check::<T>(out, "Yxy->Xyz", &r, |_| false);
                for (a, d) in &r { let a64 = to64(a); if a64[1] != 0.0 && a64[1].abs() < 1e-6 { out.count("cls:yxy-tiny-y-not-judged"); continue; } // x/y with a tiny y amplifies without bound: outside "small numerical tolerance"
                    let want = spec::yxy_to_xyz(a64); out.check(close3(&to64(d), &want, tol, &[1.0, 1.0, 1.0]), &format!("def:Yxy->Xyz:{}", tag), || format!("{:?} -> {:?}, CIE 15 gives {:?}", a, d, want)); }
            }} }

            // ---------------- Xyz <-> Lab
            macro_rules! xyz_lab { ($wp:ty, $wpn:expr) => {{
                let w = spec::white($wpn);
                let (sn, dn) = (format!("Xyz:{}", $wpn), format!("Lab:{}", $wpn));
                let mut xs = box_inputs(nominal_box("Xyz"), rng, n, false);
                // threshold t = (6/29)^3 of each channel ± ulps, grays k·white, white itself
                let e = (6.0f64 / 29.0).powi(3);
                for i in 0..3 { for x in ulps_around::<T>(e * w[i]) { let mut c = [0.3 * w[0], 0.3 * w[1], 0.3 * w[2]]; c[i] = x; xs.push(c); out.count("cls:lab-threshold"); } }
                for x in ulps_around::<T>(e) { xs.push([x * w[0], x * w[1], x * w[2]]); }
                for k in 0..=32 { let g = k as f64 / 32.0; xs.push([g * w[0], g * w[1], g * w[2]]); out.count("cls:gray"); }
                let r = edge::<Xyz<$wp, T>, Lab<$wp, T>, T, 3, 3>(out, &sn, &dn, &xs);
                finite_check::<T>(out, "Xyz->Lab", &r, |_| false);
                for (a, d) in &r {
                    let want = spec::xyz_to_lab(w, to64(a));
                    // L* = 116 f − 16, a* = 500 (fx − fy), b* = 200 (fy − fz): absolute rounding ∝ 116 / 500 / 200 (f ≤ ~1.03)
                    out.check(close3(&to64(d), &want, tol, &[116.0, 500.0, 200.0]), &format!("def:Xyz->Lab:{}", tag), || format!("{} {:?} -> {:?}, CIE 15 gives {:?}", $wpn, a, d, want));
                    // round trip Xyz -> Lab -> Xyz on the nominal box: cubing multiplies the relative error of f by 3
                    let back: [T; 3] = palette::cast::into_array(Xyz::<$wp, T>::from_color_unclamped(palette::cast::from_array::<Lab<$wp, T>>(*d)));
                    let ok = close3(&to64(&back), &to64(a), 16.0 * tol, &[1.0, 1.0, 1.0]);
                    out.maxi(&format!("rt:Xyz-Lab-Xyz:{}", tag), (0..3).map(|i| (back[i].to64() - a[i].to64()).abs()).fold(0.0, f64::max));
                    out.check(ok, &format!("rt:Xyz->Lab->Xyz:{}", tag), || format!("{} {:?} -> {:?} -> {:?}", $wpn, a, d, back));
                }
                let mut ls = box_inputs(nominal_box("Lab"), rng, n, false);
                // thresholds of the inverse: fy = 6/29 at L = 8; fx = 6/29 resp. fz = 6/29 for given L
                for l in ulps_around::<T>(8.0) { ls.push([l, 0.0, 0.0]); ls.push([l, 20.0, -30.0]); out.count("cls:lab-threshold"); }
                for l0 in [0.0, 8.0, 30.0, 50.0, 100.0] { let fy = (l0 + 16.0) / 116.0;
                    for a_ in ulps_around::<T>((6.0 / 29.0 - fy) * 500.0) { ls.push([l0, a_, 0.0]); }
                    for b_ in ulps_around::<T>((fy - 6.0 / 29.0) * 200.0) { ls.push([l0, 0.0, b_]); } }
                for k in 0..=32 { ls.push([100.0 * k as f64 / 32.0, 0.0, 0.0]); out.count("cls:gray"); }
                let r = edge::<Lab<$wp, T>, Xyz<$wp, T>, T, 3, 3>(out, &dn, &sn, &ls);
                finite_check::<T>(out, "Lab->Xyz", &r, |_| false);
                for (a, d) in &r {
                    let a64 = to64(a); let want = spec::lab_to_xyz(w, a64);
                    // f up to (100+16)/116 + 128/500 = 1.26 -> f^3 up to 2, d(f^3) = 3 f^2 df
                    out.check(close3(&to64(d), &want, 8.0 * tol, &[1.0, 1.0, 1.0]), &format!("def:Lab->Xyz:{}", tag), || format!("{} {:?} -> {:?}, CIE 15 gives {:?}", $wpn, a, d, want));
                    let back: [T; 3] = palette::cast::into_array(Lab::<$wp, T>::from_color_unclamped(palette::cast::from_array::<Xyz<$wp, T>>(*d)));
                    // back through the cube root: relative error of X/Xn is divided by 3 in f, but near f = 0 ... the linear toe keeps it Lipschitz (841/108)
                    let ok = close3(&to64(&back), &a64, 16.0 * tol, &[116.0, 500.0, 200.0]);
                    out.check(ok, &format!("rt:Lab->Xyz->Lab:{}", tag), || format!("{} {:?} -> {:?} -> {:?}", $wpn, a, d, back));
                }
            }} }

            // ---------------- cartesian <-> polar (Lab<->Lch, Luv<->Lchuv)
            macro_rules! polar { ($wp:ty, $wpn:expr, $Cart:ident, $Pol:ident, $cn:expr, $pn:expr) => {{
                let (sn, dn) = (format!("{}:{}", $cn, $wpn), format!("{}:{}", $pn, $wpn));
                let mut cs = box_inputs(nominal_box($cn), rng, n, false);
                for r_ in [1.0, 50.0, 1e-9 * 255.0] { cs.extend(polar_edge_cartesians(50.0, r_)); }
                out.count_n("cls:hue-sector-edge", 3 * 36);
                let r = edge::<$Cart<$wp, T>, $Pol<$wp, T>, T, 3, 3>(out, &sn, &dn, &cs);
                finite_check::<T>(out, concat!(stringify!($Cart), "->", stringify!($Pol)), &r, |_| false);
                for (a, d) in &r {
                    let a64 = to64(a); let d64 = to64(d); let want = spec::to_polar(a64);
                    let chroma = want[1];
                    // hue: atan2 is well conditioned (|dh| <= |d(a,b)|/C), a few eps of a radian = 57 eps degrees, compared on the circle;
                    // palette stores 360 where the definition says 0 (b = -0.0): identified modulo 360 as the property does for hues
                    let ok = close(d64[0], want[0], tol, 1.0) && close(d64[1], want[1], tol, 1.0) && (chroma == 0.0 || hue_close(d64[2], want[2], 360.0 * tol));
                    out.check(ok, &format!("def:{}->{}:{}", $cn, $pn, tag), || format!("{:?} -> {:?}, CIE 15 gives {:?}", a, d, want));
                    out.check(d64[2] >= 0.0 && d64[2] <= 360.0, &format!("hue-range:{}->{}:{}", $cn, $pn, tag), || format!("{:?} -> {:?}", a, d));
                    // round trip cartesian -> polar -> cartesian: always (absolute error ∝ chroma)
                    let back: [T; 3] = palette::cast::into_array($Cart::<$wp, T>::from_color_unclamped(palette::cast::from_array::<$Pol<$wp, T>>(*d)));
                    let ok = close3(&to64(&back), &a64, 8.0 * tol, &[1.0, chroma, chroma]);
                    out.check(ok, &format!("rt:{}->{}->{}:{}", $cn, $pn, $cn, tag), || format!("{:?} -> {:?} -> {:?}", a, d, back));
                }
                let mut ps = box_inputs(nominal_box($pn), rng, n, false);
                for h in hue_edges::<T>() { ps.push([50.0, 40.0, h]); ps.push([50.0, 0.0, h]); out.count("cls:hue-sector-edge"); }
                ps.push([50.0, -1.0, 30.0]); ps.push([50.0, -0.0, 30.0]); // `chroma.max(0)`
                let r = edge::<$Pol<$wp, T>, $Cart<$wp, T>, T, 3, 3>(out, &dn, &sn, &ps);
                finite_check::<T>(out, concat!(stringify!($Pol), "->", stringify!($Cart)), &r, |_| false);
                for (a, d) in &r {
                    let a64 = to64(a); let d64 = to64(d);
                    if a64[1] < 0.0 { out.count("cls:negative-chroma"); out.check(d64[1] == 0.0 && d64[2] == 0.0, &format!("negative-chroma:{}->{}:{}", $pn, $cn, tag), || format!("{:?} -> {:?}", a, d)); continue; }
                    let want = spec::from_polar(a64);
                    // C·cos h with h in degrees: |d| = C·|dh| with dh = |h|·eps radians (h ≤ 720°: 12.6 eps)
                    out.check(close3(&d64, &want, tol, &[1.0, a64[1], a64[1]]), &format!("def:{}->{}:{}", $pn, $cn, tag), || format!("{:?} -> {:?}, CIE 15 gives {:?}", a, d, want));
                    // round trip polar -> cartesian -> polar for chroma > 0, hue modulo 360
                    if a64[1] > 0.0 {
                        let back: [T; 3] = palette::cast::into_array($Pol::<$wp, T>::from_color_unclamped(palette::cast::from_array::<$Cart<$wp, T>>(*d)));
                        let b64 = to64(&back);
                        let ok = close(b64[0], a64[0], tol, 1.0) && close(b64[1], a64[1], 8.0 * tol, 1.0) && hue_close(b64[2], a64[2], 360.0 * 8.0 * tol);
                        out.check(ok, &format!("rt:{}->{}->{}:{}", $pn, $cn, $pn, tag), || format!("{:?} -> {:?} -> {:?}", a, d, back));
                    }
                }
            }} }

            // ---------------- Xyz <-> Luv
            macro_rules! xyz_luv { ($wp:ty, $wpn:expr) => {{
                let w = spec::white($wpn);
                let (un, vn) = spec::upvp(w);
                let (sn, dn) = (format!("Xyz:{}", $wpn), format!("Luv:{}", $wpn));
                let mut xs = box_inputs(nominal_box("Xyz"), rng, n, false);
                let e = (6.0f64 / 29.0).powi(3);
                for y in ulps_around::<T>(e * w[1]) { xs.push([0.3, y, 0.4]); xs.push([y * w[0], y, y * w[2]]); out.count("cls:luv-threshold"); }
                for k in 0..=32 { let g = k as f64 / 32.0; xs.push([g * w[0], g * w[1], g * w[2]]); out.count("cls:gray"); }
                xs.push([0.0, 0.0, 0.0]); xs.push([-0.0, 0.0, 0.0]); xs.push([0.3, 0.0, -0.1]); // zero denominator
                let r = edge::<Xyz<$wp, T>, Luv<$wp, T>, T, 3, 3>(out, &sn, &dn, &xs);
                finite_check::<T>(out, "Xyz->Luv", &r, |_| false);
                for (a, d) in &r {
                    let a64 = to64(a); let want = spec::xyz_to_luv(w, a64);
                    // u* = 13 L (u' − u'n): absolute rounding ∝ 13·L·max(u', u'n) (u' ≤ 4, v' ≤ 0.6 on X,Y,Z ≥ 0)
                    let (up, vp) = if a64[0] + 15.0 * a64[1] + 3.0 * a64[2] != 0.0 { spec::upvp(a64) } else { (0.0, 0.0) };
                    let su = 13.0 * want[0].abs() * up.abs().max(un) ; let sv = 13.0 * want[0].abs() * vp.abs().max(vn);
                    out.check(close3(&to64(d), &want, 4.0 * tol, &[116.0, su, sv]), &format!("def:Xyz->Luv:{}", tag), || format!("{} {:?} -> {:?}, CIE 15 gives {:?}", $wpn, a, d, want));
                    // round trip on the theorem's domain: Y > 0, L ≥ 1e-5 (Y/Yn ≥ 1.2e-8).  u' is recovered as u/(13 L) + u'n: an absolute error
                    // eps·max(u', u'n) in u' (resp. v'); X = 2.25 Y u'/v', Z = Y (3 − 0.75 u' − 5 v')/v' turn it into the relative factors below.
                    if a64[1] / w[1] >= 1.2e-8 && a64[0] >= 0.0 && a64[2] >= 0.0 {
                        let back: [T; 3] = palette::cast::into_array(Xyz::<$wp, T>::from_color_unclamped(palette::cast::from_array::<Luv<$wp, T>>(*d)));
                        let cv = vp.max(vn) / vp; let cu = up.max(un);
                        let sx = a64[1] * 2.25 * (cu + up * cv) / vp; let sz = a64[1] * (3.0 + 0.75 * cu + (3.0 + 0.75 * up) * cv) / vp;
                        let ok = close3(&to64(&back), &a64, 8.0 * tol, &[sx.max(1.0), 1.0, sz.max(1.0)]);
                        out.check(ok, &format!("rt:Xyz->Luv->Xyz:{}", tag), || format!("{} {:?} -> {:?} -> {:?}", $wpn, a, d, back));
                    } else { out.count("cls:luv-rt-outside-domain"); }
                }
                let mut ls = box_inputs(nominal_box("Luv"), rng, n, false);
                for l in ulps_around::<T>(1e-5) { ls.push([l, 0.0, 0.0]); ls.push([l, 1e-6, -1e-6]); out.count("cls:luv-threshold"); }
                for l in ulps_around::<T>(8.0) { ls.push([l, 0.0, 0.0]); ls.push([l, 10.0, -5.0]); out.count("cls:luv-threshold"); }
                for k in 0..=32 { ls.push([100.0 * k as f64 / 32.0, 0.0, 0.0]); out.count("cls:gray"); }
                let r = edge::<Luv<$wp, T>, Xyz<$wp, T>, T, 3, 3>(out, &dn, &sn, &ls);
                finite_check::<T>(out, "Luv->Xyz", &r, |_| false);
                for (a, d) in &r {
                    let a64 = to64(a); let d64 = to64(d);
                    if a64[0] < <T as Fl>::of(1e-5).to64() { // the cutoff constant as T sees it
                        // below palette's cutoff the result is black; CIE 15 gives Y = Yn·L·(3/29)^3 ≤ 1.2e-8: that is the stated deviation
                        out.count("cls:luv-below-cutoff");
                        let y_def = if a64[0] > 0.0 { w[1] * a64[0] * (3.0f64 / 29.0).powi(3) } else { 0.0 };
                        out.check(d64 == [0.0, 0.0, 0.0] && (d64[1] - y_def).abs() <= 1.2e-8, &format!("def:Luv->Xyz-cutoff:{}", tag), || format!("{} {:?} -> {:?}", $wpn, a, d));
                        continue;
                    }
                    let want = spec::luv_to_xyz(w, a64);
                    let (ut, vt) = (a64[1] / (13.0 * a64[0]), a64[2] / (13.0 * a64[0]));
                    let (up, vp) = (ut + un, vt + vn);
                    // v' = v/(13 L) + v'n is a sum: absolute error eps·max(|v/(13L)|, v'n); dividing by v' amplifies by 1/|v'| (v' -> 0 is the
                    // edge of the chromaticity diagram, X and Z -> infinity there)
                    let cv = vt.abs().max(vn) / vp.abs(); let cu = ut.abs().max(un);
                    let y = want[1];
                    let sx = y * 2.25 * (cu + up.abs() * cv) / vp.abs(); let sz = y * (3.0 + 0.75 * cu + 5.0 * vt.abs().max(vn) + (3.0 + 0.75 * up.abs() + 5.0 * vp.abs()) * cv) / vp.abs();
                    out.check(close3(&d64, &want, 4.0 * tol, &[sx.max(1.0), 1.0, sz.max(1.0)]), &format!("def:Luv->Xyz:{}", tag), || format!("{} {:?} -> {:?}, CIE 15 gives {:?}", $wpn, a, d, want));
                    // round trip Luv -> Xyz -> Luv where the XYZ is a physically meaningful one (v' ≥ 0.01: inside the diagram, away from its edge)
                    if vp >= 0.01 && up >= 0.0 && d64.iter().all(|x| x.is_finite()) {
                        let back: [T; 3] = palette::cast::into_array(Luv::<$wp, T>::from_color_unclamped(palette::cast::from_array::<Xyz<$wp, T>>(*d)));
                        let su = 13.0 * a64[0] * up.max(un); let sv = 13.0 * a64[0] * vp.max(vn);
                        let ok = close3(&to64(&back), &a64, 16.0 * tol, &[116.0, su.max(1.0), sv.max(1.0)]);
                        out.check(ok, &format!("rt:Luv->Xyz->Luv:{}", tag), || format!("{} {:?} -> {:?} -> {:?}", $wpn, a, d, back));
                    } else { out.count("cls:luv-rt-outside-domain"); }
                }
            }} }

            // ---------------- Lchuv <-> Hsluv
            macro_rules! hsluv { ($wp:ty, $wpn:expr) => {{
                let (sn, dn) = (format!("Lchuv:{}", $wpn), format!("Hsluv:{}", $wpn));
                let lsub = (1560896.0f64 * 0.0088564516).cbrt() - 16.0; // sub1 = EPSILON
                let mut cs = box_inputs(nominal_box("Lchuv"), rng, n, false);
                for l in ulps_around::<T>(lsub) { cs.push([l, 20.0, 120.0]); out.count("cls:hsluv-threshold"); }
                for l in [0.0, 1e-9, 1e-8, 2e-8, 99.9999999, 99.99999995, 100.0] { for h in [0.0, 12.2, 90.0, 180.0, 265.9, 360.0] { for c_ in [0.0, 1e-6, 10.0] { cs.push([l, c_, h]); } } }
                for h in hue_edges::<T>() { cs.push([60.0, 30.0, h]); }
                let r = edge::<Lchuv<$wp, T>, Hsluv<$wp, T>, T, 3, 3>(out, &sn, &dn, &cs);
                finite_check::<T>(out, "Lchuv->Hsluv", &r, |a| a[0] > 99.9999999 || a[0] < 0.00000001);
                for (a, d) in &r {
                    let a64 = to64(a); let d64 = to64(d); let want = spec::lch_to_hsluv(a64);
                    // the two guards of the reference (S = 0 at the poles): suspected defect D5
                    if a64[0] > 99.9999999 { out.check(d64[1] == 0.0 || (d64[1].abs() <= 1e-6), &format!("hsluv-at-L100:Lchuv->Hsluv:{}", tag), || format!("{:?} -> {:?}, HSLuv reference gives {:?}", a, d, want)); continue; }
                    if a64[0] < 0.00000001 { out.check(d64[1] == 0.0 || (d64[1].abs() <= 1e-6), &format!("hsluv-at-L0:Lchuv->Hsluv:{}", tag), || format!("{:?} -> {:?}, HSLuv reference gives {:?}", a, d, want)); continue; }
                    // S = 100 C / maxChroma.  maxChroma is computed in f64 on both sides; the only T-rounding is the hue in radians (|dθ| ≤ 2·eps·|θ|)
                    // and the final quotient.  d(maxChroma)/maxChroma ≤ |dθ|·(|cos θ| + |slope sin θ|)/|denom| — bounded by ~8 |dθ| on the polygon.
                    let ok = d64[0] == a64[2] && d64[2] == a64[0] && close(d64[1], want[1], 4.0 * tol * (1.0 + a64[2].abs() / 45.0), 100.0);
                    out.maxi(&format!("hsluv-S-dev:{}", tag), (d64[1] - want[1]).abs() / want[1].abs().max(100.0));
                    out.check(ok, &format!("def:Lchuv->Hsluv:{}", tag), || format!("{:?} -> {:?}, HSLuv reference gives {:?}", a, d, want));
                    // round trip on the theorem's domain (0 < maxChroma)
                    let mc = spec::max_chroma_for_lh(a64[0], a64[2]);
                    if mc > 0.0 && mc < 1e300 && d64[1].is_finite() {
                        let back: [T; 3] = palette::cast::into_array(Lchuv::<$wp, T>::from_color_unclamped(palette::cast::from_array::<Hsluv<$wp, T>>(*d)));
                        let ok = back[0].to64() == a64[0] && back[2].to64() == a64[2] && close(back[1].to64(), a64[1], tol, 1.0);
                        out.check(ok, &format!("rt:Lchuv->Hsluv->Lchuv:{}", tag), || format!("{:?} -> {:?} -> {:?}", a, d, back));
                    }
                }
                let mut hs = box_inputs(nominal_box("Hsluv"), rng, n, false);
                for l in ulps_around::<T>(lsub) { hs.push([120.0, 50.0, l]); out.count("cls:hsluv-threshold"); }
                for l in [0.0, 1e-9, 1e-8, 2e-8, 99.9999999, 99.99999995, 100.0] { for h in [0.0, 12.2, 90.0, 180.0, 265.9, 360.0] { for s_ in [0.0, 50.0, 100.0] { hs.push([h, s_, l]); } } }
                for h in hue_edges::<T>() { hs.push([h, 70.0, 60.0]); }
                let r = edge::<Hsluv<$wp, T>, Lchuv<$wp, T>, T, 3, 3>(out, &dn, &sn, &hs);
                finite_check::<T>(out, "Hsluv->Lchuv", &r, |a| a[2] > 99.9999999 || a[2] < 0.00000001);
                for (a, d) in &r {
                    let a64 = to64(a); let d64 = to64(d); let want = spec::hsluv_to_lch(a64);
                    if a64[2] > 99.9999999 { out.check(d64[1].abs() <= 1e-4, &format!("hsluv-at-L100:Hsluv->Lchuv:{}", tag), || format!("{:?} -> {:?}, HSLuv reference gives {:?}", a, d, want)); continue; }
                    if a64[2] < 0.00000001 { out.check(d64[1].abs() <= 1e-4, &format!("hsluv-at-L0:Hsluv->Lchuv:{}", tag), || format!("{:?} -> {:?}, HSLuv reference gives {:?}", a, d, want)); continue; }
                    let ok = d64[2] == a64[0] && d64[0] == a64[2] && close(d64[1], want[1], 4.0 * tol * (1.0 + a64[0].abs() / 45.0), 1.0);
                    out.check(ok, &format!("def:Hsluv->Lchuv:{}", tag), || format!("{:?} -> {:?}, HSLuv reference gives {:?}", a, d, want));
                    if want[1] > 0.0 && d64[1].is_finite() && d64[1] > 0.0 {
                        let back: [T; 3] = palette::cast::into_array(Hsluv::<$wp, T>::from_color_unclamped(palette::cast::from_array::<Lchuv<$wp, T>>(*d)));
                        let ok = back[0].to64() == a64[0] && back[2].to64() == a64[2] && close(back[1].to64(), a64[1], tol, 1.0);
                        out.check(ok, &format!("rt:Hsluv->Lchuv->Hsluv:{}", tag), || format!("{:?} -> {:?} -> {:?}", a, d, back));
                    }
                }
            }} }

            // ---------------- Xyz <-> Lms
            macro_rules! lms { ($m:ty, $mn:expr) => {{
                let (sn, dn) = ("Xyz:Any".to_string(), format!("Lms:{}", $mn));
                let m = spec::cone($mn); let mi = spec::inv(m);
                let xs = box_inputs(nominal_box("Xyz"), rng, n, false);
                let r = edge::<Xyz<Any, T>, Lms<$m, T>, T, 3, 3>(out, &sn, &dn, &xs);
                finite_check::<T>(out, "Xyz->Lms", &r, |_| false);
                for (a, d) in &r {
                    let a64 = to64(a); let want = spec::mul(m, a64);
                    // row sums of |entries| ≤ 2.5: rounding of three products and two sums
                    out.check(close3(&to64(d), &want, tol, &[2.5, 2.5, 2.5]), &format!("def:Xyz->Lms:{}", tag), || format!("{} {:?} -> {:?}, published matrix gives {:?}", $mn, a, d, want));
                    // the inverse table is a 7-digit rounding of the exact inverse: round trip within 3e-7·‖x‖ (+ rounding in T)
                    let back: [T; 3] = palette::cast::into_array(Xyz::<Any, T>::from_color_unclamped(palette::cast::from_array::<Lms<$m, T>>(*d)));
                    let dev = (0..3).map(|i| (back[i].to64() - a64[i]).abs()).fold(0.0, f64::max);
                    out.maxi(&format!("rt:Xyz-Lms-Xyz:{}:{}", $mn, tag), dev);
                    out.check(dev <= 3e-7 * 3.0 + 8.0 * tol, &format!("rt:Xyz->Lms->Xyz:{}", tag), || format!("{} {:?} -> {:?} -> {:?}", $mn, a, d, back));
                }
                let ls = box_inputs(nominal_box("Lms"), rng, n, false);
                let r = edge::<Lms<$m, T>, Xyz<Any, T>, T, 3, 3>(out, &dn, &sn, &ls);
                finite_check::<T>(out, "Lms->Xyz", &r, |_| false);
                for (a, d) in &r {
                    let a64 = to64(a); let want = spec::mul(mi, a64);
                    // 7-digit table vs exact inverse: 0.5e-7 per entry, three entries per row, inputs ≤ 1 -> 1.5e-7 (+ rounding in T, row sums ≤ 3.3)
                    let dev = (0..3).map(|i| (d[i].to64() - want[i]).abs()).fold(0.0, f64::max);
                    out.maxi(&format!("def-dev:Lms->Xyz:{}:{}", $mn, tag), dev);
                    out.check(dev <= 3e-7 + 4.0 * tol, &format!("def:Lms->Xyz:{}", tag), || format!("{} {:?} -> {:?}, exact inverse of the published matrix gives {:?}", $mn, a, d, want));
                    let back: [T; 3] = palette::cast::into_array(Lms::<$m, T>::from_color_unclamped(palette::cast::from_array::<Xyz<Any, T>>(*d)));
                    let dev = (0..3).map(|i| (back[i].to64() - a64[i]).abs()).fold(0.0, f64::max);
                    out.check(dev <= 3e-7 * 3.0 + 8.0 * tol, &format!("rt:Lms->Xyz->Lms:{}", tag), || format!("{} {:?} -> {:?} -> {:?}", $mn, a, d, back));
                }
            }} }

            xyz_yxy!(D65, "D65"); xyz_yxy!(D50, "D50");
            xyz_lab!(D65, "D65"); xyz_lab!(D50, "D50"); xyz_lab!(E, "E"); xyz_lab!(A, "A");
            polar!(D65, "D65", Lab, Lch, "Lab", "Lch"); polar!(D50, "D50", Lab, Lch, "Lab", "Lch");
            xyz_luv!(D65, "D65"); xyz_luv!(D50, "D50"); xyz_luv!(E, "E"); xyz_luv!(A, "A");
            polar!(D65, "D65", Luv, Lchuv, "Luv", "Lchuv"); polar!(D50, "D50", Luv, Lchuv, "Luv", "Lchuv");
            hsluv!(D65, "D65"); hsluv!(D50, "D50");
            lms!(Bradford, "Bradford"); lms!(VonKries, "VonKries"); lms!(UnitMatrix, "UnitMatrix");
        }
    };
}
use palette::convert::FromColorUnclamped;
fam!(run_f32, f32);
fam!(run_f64, f64);

pub fn run_family(out: &mut Out, rng: &mut Rng, tier: &str) {
    // the white point constants themselves are the published tristimulus values (every white point type of the crate)
    {
        use palette::white_point::*;
        macro_rules! wp { ($($w:ident),*) => { $( {
            let got: [f64; 3] = palette::cast::into_array(<$w as WhitePoint<f64>>::get_xyz());
            let want = spec::white(stringify!($w));
            let e = (0..3).map(|k| (got[k] - want[k]).abs()).fold(0.0, f64::max);
            out.maxi("white-point-vs-published", e);
            out.check(e <= 5e-5, &format!("white-point-published:{}", stringify!($w)), || format!("{}::get_xyz() = {:?}, published {:?}", stringify!($w), got, want));
        } )* } }
        wp!(A, B, C, D50, D55, D65, D75, E, F2, F7, F11, D50Degree10, D55Degree10, D65Degree10, D75Degree10);
    }
    let n = if tier == "thorough" { 20_000 } else { 1_500 };
    run_f32(out, rng, n);
    run_f64(out, rng, n);
}
