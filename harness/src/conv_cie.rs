//! CIE family edges: Xyz, Yxy, Lab, Lch, Luv, Lchuv, Hsluv, Lms.
use crate::common::*;
use crate::conv_common::*;
use palette::white_point::{D50, D65};
use palette::{Xyz, Yxy};

/// independent f64 references written from CIE 15 (not from palette)
pub mod spec {
    pub fn xyz_to_yxy(c: [f64; 3]) -> [f64; 3] { let s = c[0] + c[1] + c[2]; if s == 0.0 { [0.0, 0.0, c[1]] } else { [c[0] / s, c[1] / s, c[1]] } }
    pub fn yxy_to_xyz(c: [f64; 3]) -> [f64; 3] { let (x, y, l) = (c[0], c[1], c[2]); if y == 0.0 { [0.0, l, 0.0] } else { [x * l / y, l, (1.0 - x - y) * l / y] } }
}

macro_rules! for_wp { ($m:ident, $t:ty, $($args:tt)*) => { $m!(D65, "D65", $t, $($args)*); $m!(D50, "D50", $t, $($args)*); } }

fn run_t<T: Fl>(out: &mut Out, rng: &mut Rng, n: usize)
where Yxy<D65, T>: palette::convert::FromColorUnclamped<Xyz<D65, T>> + palette::cast::ArrayCast<Array = [T; 3]>, Xyz<D65, T>: palette::convert::FromColorUnclamped<Yxy<D65, T>> + palette::cast::ArrayCast<Array = [T; 3]>,
      Yxy<D50, T>: palette::convert::FromColorUnclamped<Xyz<D50, T>> + palette::cast::ArrayCast<Array = [T; 3]>, Xyz<D50, T>: palette::convert::FromColorUnclamped<Yxy<D50, T>> + palette::cast::ArrayCast<Array = [T; 3]> {
    let tol = 64.0 * T::eps();
    macro_rules! xyz_yxy { ($wp:ty, $wpn:expr, $t:ty) => {{
        let xs = box_inputs(nominal_box("Xyz"), rng, n, false);
        let r = edge::<Xyz<$wp, T>, Yxy<$wp, T>, T, 3, 3>(out, &format!("Xyz:{}", $wpn), &format!("Yxy:{}", $wpn), &xs);
        for (a, d) in &r { let want = spec::xyz_to_yxy(to64(a)); out.check(close3(&to64(d), &want, tol, &[1.0, 1.0, 1.0]), &format!("def:Xyz->Yxy:{}", T::TAG), || format!("{:?} -> {:?}, CIE 15 gives {:?}", a, d, want)); }
        let ys = box_inputs(nominal_box("Yxy"), rng, n, false);
        let r = edge::<Yxy<$wp, T>, Xyz<$wp, T>, T, 3, 3>(out, &format!("Yxy:{}", $wpn), &format!("Xyz:{}", $wpn), &ys);
        for (a, d) in &r { let a64 = to64(a); if a64[1] != 0.0 && a64[1].abs() < 1e-6 { continue; } // x/y with a tiny y amplifies without bound: outside "small numerical tolerance"
            let want = spec::yxy_to_xyz(a64); out.check(close3(&to64(d), &want, tol, &[1.0, 1.0, 1.0]), &format!("def:Yxy->Xyz:{}", T::TAG), || format!("{:?} -> {:?}, CIE 15 gives {:?}", a, d, want)); }
    }} }
    xyz_yxy!(D65, "D65", T); xyz_yxy!(D50, "D50", T);
}

pub fn run_family(out: &mut Out, rng: &mut Rng, tier: &str) {
    let n = if tier == "thorough" { 20_000 } else { 1_500 };
    run_t::<f32>(out, rng, n);
    run_t::<f64>(out, rng, n);
}
