//! Ottosson family edges: Xyz<D65> <-> Oklab, Rgb<S> <-> Oklab, Oklab <-> Oklch, Oklab <-> Okhsl, Oklab <-> Okhsv, Okhsv <-> Okhwb.
use crate::common::*;
use crate::conv_common::*;
use palette::encoding::{self, Linear};
use palette::rgb::Rgb;
use palette::white_point::D65;
use palette::{Okhsl, Okhsv, Okhwb, Oklab, Oklch, Xyz};

/// Independent f64 reference.
///
/// * Oklab from XYZ: Ottosson, "A perceptual color space for image processing" (2020): `lms = M1·xyz`, `lms' = cbrt(lms)`,
///   `Lab = M2·lms'`.  Two published `M1`: Ottosson's original (`M1_OTTOSSON`) and the one recomputed for the exact D65
///   chromaticity in CSS Color 4 / color.js (w3c/csswg-drafts#6642), which palette's source cites; both are typed here from
///   those publications.  The oracle compares with the CSS one and *records* the distance to the original.
/// * linear sRGB <-> Oklab, Okhsl, Okhsv: Ottosson's reference `ok_color.h` ("Okhsv and Okhsl", 2021), re-typed here from that
///   publication in plain f64.  palette's `ok_utils.rs`/`okhsl.rs`/`okhsv.rs` are themselves a port of that C++ code (its
///   comments say so), so agreement is expected at rounding level: ~1e-12 in f64, ~1e-5 in f32.  Known deliberate deviations of
///   the port: `FLT_MAX` -> `10e5`, early returns for zero chroma / black / white (the reference divides by zero there), hue
///   in degrees instead of turns.
/// * Okhwb: Ottosson's colour picker post: `w = (1-s)·v`, `b = 1-v`; `v = 1-b`, `s = 1 - w/v`.
pub mod spec {
    use std::f64::consts::PI;
    pub type V = [f64; 3];
    pub const M1_OTTOSSON: [[f64; 3]; 3] = [[0.8189330101, 0.3618667424, -0.1288597137], [0.0329845436, 0.9293118715, 0.0361456387], [0.0482003018, 0.2643662691, 0.6338517070]];
    pub const M1_CSS: [[f64; 3]; 3] = [[0.8190224432164319, 0.3619062562801221, -0.12887378261216414], [0.0329836671980271, 0.9292868468965546, 0.03614466816999844], [0.048177199566046255, 0.26423952494422764, 0.6335478258136937]];
    pub const M2: [[f64; 3]; 3] = [[0.2104542553, 0.7936177850, -0.0040720468], [1.9779984951, -2.4285922050, 0.4505937099], [0.0259040371, 0.7827717662, -0.8086757660]];
    fn mv(m: &[[f64; 3]; 3], v: V) -> V { [m[0][0] * v[0] + m[0][1] * v[1] + m[0][2] * v[2], m[1][0] * v[0] + m[1][1] * v[1] + m[1][2] * v[2], m[2][0] * v[0] + m[2][1] * v[1] + m[2][2] * v[2]] }
    /// exact (adjugate) inverse in f64 of a published forward matrix: the published definition of the way back is "the inverse"
    pub fn inv(m: &[[f64; 3]; 3]) -> [[f64; 3]; 3] {
        let c = |i: usize, j: usize| m[(i + 1) % 3][(j + 1) % 3] * m[(i + 2) % 3][(j + 2) % 3] - m[(i + 1) % 3][(j + 2) % 3] * m[(i + 2) % 3][(j + 1) % 3];
        let det = m[0][0] * c(0, 0) + m[0][1] * c(0, 1) + m[0][2] * c(0, 2);
        let mut r = [[0.0; 3]; 3];
        for i in 0..3 { for j in 0..3 { r[j][i] = c(i, j) / det; } }
        r
    }
    pub fn xyz_to_oklab_with(m1: &[[f64; 3]; 3], xyz: V) -> V { let l = mv(m1, xyz); mv(&M2, [l[0].cbrt(), l[1].cbrt(), l[2].cbrt()]) }
    pub fn xyz_to_oklab(xyz: V) -> V { xyz_to_oklab_with(&M1_CSS, xyz) }
    pub fn oklab_to_xyz(lab: V) -> V { let l = mv(&inv(&M2), lab); mv(&inv(&M1_CSS), [l[0] * l[0] * l[0], l[1] * l[1] * l[1], l[2] * l[2] * l[2]]) }

    // ---- ok_color.h
    pub fn linear_srgb_to_oklab(c: V) -> V {
        let l = 0.4122214708 * c[0] + 0.5363325363 * c[1] + 0.0514459929 * c[2];
        let m = 0.2119034982 * c[0] + 0.6806995451 * c[1] + 0.1073969566 * c[2];
        let s = 0.0883024619 * c[0] + 0.2817188376 * c[1] + 0.6299787005 * c[2];
        let (l_, m_, s_) = (l.cbrt(), m.cbrt(), s.cbrt());
        [0.2104542553 * l_ + 0.7936177850 * m_ - 0.0040720468 * s_, 1.9779984951 * l_ - 2.4285922050 * m_ + 0.4505937099 * s_, 0.0259040371 * l_ + 0.7827717662 * m_ - 0.8086757660 * s_]
    }
    pub fn oklab_to_linear_srgb(c: V) -> V {
        let l_ = c[0] + 0.3963377774 * c[1] + 0.2158037573 * c[2];
        let m_ = c[0] - 0.1055613458 * c[1] - 0.0638541728 * c[2];
        let s_ = c[0] - 0.0894841775 * c[1] - 1.2914855480 * c[2];
        let (l, m, s) = (l_ * l_ * l_, m_ * m_ * m_, s_ * s_ * s_);
        [4.0767416621 * l - 3.3077115913 * m + 0.2309699292 * s, -1.2684380046 * l + 2.6097574011 * m - 0.3413193965 * s, -0.0041960863 * l - 0.7034186147 * m + 1.7076147010 * s]
    }
    thread_local! { pub static FORCE_CASE: std::cell::Cell<i32> = std::cell::Cell::new(-1); }
    /// how far the two case conditions of `compute_max_saturation` are from flipping
    pub fn case_margin(a: f64, b: f64) -> f64 { (-1.88170328 * a - 0.80936493 * b - 1.0).abs().min((1.81444104 * a - 1.19445276 * b - 1.0).abs()) }
    /// The hue directions just below the blue primary's (264.0520205708686° .. 264.0520206345371°, 1.1e-9 rad wide) for which
    /// *neither* condition of `compute_max_saturation` holds, so that the third coefficient set ("blue reaches zero first") is
    /// used although, next to blue, it is red or green that reaches zero: the cusp found there is wrong (finding `blue-hue-gap`).
    /// `m` widens the test by the rounding of the hue vector in the implementation's component type.
    pub fn blue_gap(a: f64, b: f64, m: f64) -> bool { b < -0.9 && -1.88170328 * a - 0.80936493 * b - 1.0 <= m && 1.81444104 * a - 1.19445276 * b - 1.0 <= m }
    pub fn compute_max_saturation(a: f64, b: f64) -> f64 {
        let (k0, k1, k2, k3, k4, wl, wm, ws);
        let force = FORCE_CASE.with(|c| c.get());
        let case = if force >= 0 { force } else if -1.88170328 * a - 0.80936493 * b > 1.0 { 0 } else if 1.81444104 * a - 1.19445276 * b > 1.0 { 1 } else { 2 };
        if case == 0 { k0 = 1.19086277; k1 = 1.76576728; k2 = 0.59662641; k3 = 0.75515197; k4 = 0.56771245; wl = 4.0767416621; wm = -3.3077115913; ws = 0.2309699292; }
        else if case == 1 { k0 = 0.73956515; k1 = -0.45954404; k2 = 0.08285427; k3 = 0.12541070; k4 = 0.14503204; wl = -1.2684380046; wm = 2.6097574011; ws = -0.3413193965; }
        else { k0 = 1.35733652; k1 = -0.00915799; k2 = -1.15130210; k3 = -0.50559606; k4 = 0.00692167; wl = -0.0041960863; wm = -0.7034186147; ws = 1.7076147010; }
        let mut sat = k0 + k1 * a + k2 * b + k3 * a * a + k4 * a * b;
        let k_l = 0.3963377774 * a + 0.2158037573 * b;
        let k_m = -0.1055613458 * a - 0.0638541728 * b;
        let k_s = -0.0894841775 * a - 1.2914855480 * b;
        {
            let (l_, m_, s_) = (1.0 + sat * k_l, 1.0 + sat * k_m, 1.0 + sat * k_s);
            let (l, m, s) = (l_ * l_ * l_, m_ * m_ * m_, s_ * s_ * s_);
            let (lds, mds, sds) = (3.0 * k_l * l_ * l_, 3.0 * k_m * m_ * m_, 3.0 * k_s * s_ * s_);
            let (lds2, mds2, sds2) = (6.0 * k_l * k_l * l_, 6.0 * k_m * k_m * m_, 6.0 * k_s * k_s * s_);
            let f = wl * l + wm * m + ws * s;
            let f1 = wl * lds + wm * mds + ws * sds;
            let f2 = wl * lds2 + wm * mds2 + ws * sds2;
            sat = sat - f * f1 / (f1 * f1 - 0.5 * f * f2);
        }
        sat
    }
    /// (L_cusp, C_cusp)
    pub fn find_cusp(a: f64, b: f64) -> (f64, f64) {
        let s_cusp = compute_max_saturation(a, b);
        let rgb = oklab_to_linear_srgb([1.0, s_cusp * a, s_cusp * b]);
        let l_cusp = (1.0 / rgb[0].max(rgb[1]).max(rgb[2])).cbrt();
        (l_cusp, l_cusp * s_cusp)
    }
    pub fn find_gamut_intersection(a: f64, b: f64, l1: f64, c1: f64, l0: f64, cusp: (f64, f64)) -> f64 {
        let (cl, cc) = cusp;
        if (l1 - l0) * cc - (cl - l0) * c1 <= 0.0 { return cc * l0 / (c1 * cl + cc * (l0 - l1)); }
        let mut t = cc * (l0 - 1.0) / (c1 * (cl - 1.0) + cc * (l0 - l1));
        let (dl, dc) = (l1 - l0, c1);
        let k_l = 0.3963377774 * a + 0.2158037573 * b;
        let k_m = -0.1055613458 * a - 0.0638541728 * b;
        let k_s = -0.0894841775 * a - 1.2914855480 * b;
        let (l_dt, m_dt, s_dt) = (dl + dc * k_l, dl + dc * k_m, dl + dc * k_s);
        {
            let lum = l0 * (1.0 - t) + t * l1;
            let chr = t * c1;
            let (l_, m_, s_) = (lum + chr * k_l, lum + chr * k_m, lum + chr * k_s);
            let (l, m, s) = (l_ * l_ * l_, m_ * m_ * m_, s_ * s_ * s_);
            let (ldt, mdt, sdt) = (3.0 * l_dt * l_ * l_, 3.0 * m_dt * m_ * m_, 3.0 * s_dt * s_ * s_);
            let (ldt2, mdt2, sdt2) = (6.0 * l_dt * l_dt * l_, 6.0 * m_dt * m_dt * m_, 6.0 * s_dt * s_dt * s_);
            let halley = |w: [f64; 3]| -> f64 {
                let r = w[0] * l + w[1] * m + w[2] * s - 1.0;
                let r1 = w[0] * ldt + w[1] * mdt + w[2] * sdt;
                let r2 = w[0] * ldt2 + w[1] * mdt2 + w[2] * sdt2;
                let u = r1 / (r1 * r1 - 0.5 * r * r2);
                if u >= 0.0 { -r * u } else { f64::MAX } // FLT_MAX in the reference
            };
            let t_r = halley([4.0767416621, -3.3077115913, 0.2309699292]);
            let t_g = halley([-1.2684380046, 2.6097574011, -0.3413193965]);
            let t_b = halley([-0.0041960863, -0.7034186147, 1.7076147010]);
            t += t_r.min(t_g.min(t_b));
        }
        t
    }
    pub const K1: f64 = 0.206;
    pub const K2: f64 = 0.03;
    pub fn toe(x: f64) -> f64 { let k3 = (1.0 + K1) / (1.0 + K2); 0.5 * (k3 * x - K1 + ((k3 * x - K1) * (k3 * x - K1) + 4.0 * K2 * k3 * x).sqrt()) }
    pub fn toe_inv(x: f64) -> f64 { let k3 = (1.0 + K1) / (1.0 + K2); (x * x + K1 * x) / (k3 * (x + K2)) }
    fn to_st(cusp: (f64, f64)) -> (f64, f64) { (cusp.1 / cusp.0, cusp.1 / (1.0 - cusp.0)) }
    fn get_st_mid(a: f64, b: f64) -> (f64, f64) {
        let s = 0.11516993 + 1.0 / (7.44778970 + 4.15901240 * b + a * (-2.19557347 + 1.75198401 * b + a * (-2.13704948 - 10.02301043 * b + a * (-4.24894561 + 5.38770819 * b + 4.69891013 * a))));
        let t = 0.11239642 + 1.0 / (1.61320320 - 0.68124379 * b + a * (0.40370612 + 0.90148123 * b + a * (-0.27087943 + 0.61223990 * b + a * (0.00299215 - 0.45399568 * b - 0.14661872 * a))));
        (s, t)
    }
    /// (C_0, C_mid, C_max)
    pub fn get_cs(l: f64, a: f64, b: f64) -> (f64, f64, f64) {
        let cusp = find_cusp(a, b);
        let c_max = find_gamut_intersection(a, b, l, 1.0, l, cusp);
        let st_max = to_st(cusp);
        let k = c_max / (l * st_max.0).min((1.0 - l) * st_max.1);
        let st_mid = get_st_mid(a, b);
        let (ca, cb) = (l * st_mid.0, (1.0 - l) * st_mid.1);
        let c_mid = 0.9 * k * (1.0 / (1.0 / (ca * ca * ca * ca) + 1.0 / (cb * cb * cb * cb))).sqrt().sqrt();
        let (ca, cb) = (l * 0.4, (1.0 - l) * 0.8);
        let c_0 = (1.0 / (1.0 / (ca * ca) + 1.0 / (cb * cb))).sqrt();
        (c_0, c_mid, c_max)
    }
    /// `okhsl_to_srgb` up to (and excluding) the final Oklab -> sRGB step; hue in degrees
    pub fn okhsl_to_oklab(c: V) -> V {
        let (h, s, l) = (c[0] / 360.0, c[1], c[2]);
        if l == 1.0 { return [1.0, 0.0, 0.0]; } else if l == 0.0 { return [0.0, 0.0, 0.0]; }
        let (a_, b_) = ((2.0 * PI * h).cos(), (2.0 * PI * h).sin());
        let lum = toe_inv(l);
        let (c_0, c_mid, c_max) = get_cs(lum, a_, b_);
        let (mid, mid_inv) = (0.8, 1.25);
        let chroma = if s < mid {
            let t = mid_inv * s; let k_1 = mid * c_0; let k_2 = 1.0 - k_1 / c_mid;
            t * k_1 / (1.0 - k_2 * t)
        } else {
            let t = (s - mid) / (1.0 - mid); let k_0 = c_mid; let k_1 = (1.0 - mid) * c_mid * c_mid * mid_inv * mid_inv / c_0; let k_2 = 1.0 - k_1 / (c_max - c_mid);
            k_0 + t * k_1 / (1.0 - k_2 * t)
        };
        [lum, chroma * a_, chroma * b_]
    }
    /// `srgb_to_okhsl` from the Oklab value on; hue in degrees in [0, 360]
    pub fn oklab_to_okhsl(lab: V) -> V {
        let c = (lab[1] * lab[1] + lab[2] * lab[2]).sqrt();
        let (a_, b_) = (lab[1] / c, lab[2] / c);
        let lum = lab[0];
        let h = 0.5 + 0.5 * (-lab[2]).atan2(-lab[1]) / PI;
        let (c_0, c_mid, c_max) = get_cs(lum, a_, b_);
        let (mid, mid_inv) = (0.8, 1.25);
        let s = if c < c_mid {
            let k_1 = mid * c_0; let k_2 = 1.0 - k_1 / c_mid; let t = c / (k_1 + k_2 * c);
            t * mid
        } else {
            let k_0 = c_mid; let k_1 = (1.0 - mid) * c_mid * c_mid * mid_inv * mid_inv / c_0; let k_2 = 1.0 - k_1 / (c_max - c_mid);
            let t = (c - k_0) / (k_1 + k_2 * (c - k_0));
            mid + (1.0 - mid) * t
        };
        [h * 360.0, s, toe(lum)]
    }
    pub fn okhsv_to_oklab(c: V) -> V {
        let (h, s, v) = (c[0] / 360.0, c[1], c[2]);
        let (a_, b_) = ((2.0 * PI * h).cos(), (2.0 * PI * h).sin());
        let (s_max, t_max) = to_st(find_cusp(a_, b_));
        let s_0 = 0.5;
        let k = 1.0 - s_0 / s_max;
        let l_v = 1.0 - s * s_0 / (s_0 + t_max - t_max * k * s);
        let c_v = s * t_max * s_0 / (s_0 + t_max - t_max * k * s);
        let (mut lum, mut chr) = (v * l_v, v * c_v);
        let l_vt = toe_inv(l_v);
        let c_vt = c_v * l_vt / l_v;
        let l_new = toe_inv(lum);
        chr = chr * l_new / lum;
        lum = l_new;
        let rgb_scale = oklab_to_linear_srgb([l_vt, a_ * c_vt, b_ * c_vt]);
        let scale_l = (1.0 / rgb_scale[0].max(rgb_scale[1]).max(rgb_scale[2].max(0.0))).cbrt();
        lum *= scale_l; chr *= scale_l;
        [lum, chr * a_, chr * b_]
    }
    pub fn oklab_to_okhsv(lab: V) -> V {
        let c = (lab[1] * lab[1] + lab[2] * lab[2]).sqrt();
        let (a_, b_) = (lab[1] / c, lab[2] / c);
        let mut lum = lab[0];
        let h = 0.5 + 0.5 * (-lab[2]).atan2(-lab[1]) / PI;
        let (s_max, t_max) = to_st(find_cusp(a_, b_));
        let s_0 = 0.5;
        let k = 1.0 - s_0 / s_max;
        let t = t_max / (c + lum * t_max);
        let (l_v, c_v) = (t * lum, t * c);
        let l_vt = toe_inv(l_v);
        let c_vt = c_v * l_vt / l_v;
        let rgb_scale = oklab_to_linear_srgb([l_vt, a_ * c_vt, b_ * c_vt]);
        let scale_l = (1.0 / rgb_scale[0].max(rgb_scale[1]).max(rgb_scale[2].max(0.0))).cbrt();
        lum /= scale_l;
        lum = toe(lum);
        let v = lum / l_v;
        let s = (s_0 + t_max) * c_v / ((t_max * s_0) + t_max * k * c_v);
        [h * 360.0, s, v]
    }
    pub fn okhsv_to_okhwb(c: V) -> V { [c[0], (1.0 - c[1]) * c[2], 1.0 - c[2]] }
    pub fn okhwb_to_okhsv(c: V) -> V { let v = 1.0 - c[2]; [c[0], 1.0 - c[1] / v, v] }
    /// polar form: C = sqrt(a² + b²), h = atan2(b, a) in degrees
    pub fn oklab_to_oklch(c: V) -> V { [c[0], (c[1] * c[1] + c[2] * c[2]).sqrt(), c[2].atan2(c[1]).to_degrees()] }
    pub fn oklch_to_oklab(c: V) -> V { let r = c[2] * PI / 180.0; [c[0], c[1] * r.cos(), c[1] * r.sin()] }

    // IEC 61966-2-1 sRGB, ITU-R BT.709 OETF (for the standards on sRGB primaries the direct path serves)
    pub fn srgb_eotf(x: f64) -> f64 { if x <= 0.04045 { x / 12.92 } else { ((x + 0.055) / 1.055).powf(2.4) } }
    pub fn srgb_oetf(x: f64) -> f64 { if x <= 0.0031308 { 12.92 * x } else { 1.055 * x.powf(1.0 / 2.4) - 0.055 } }
}

fn hue_points() -> Vec<f64> {
    let mut v = vec![];
    for k in -6..=12 { v.push(k as f64 * 60.0); v.push(k as f64 * 30.0); }
    for &h in &[180.0, -180.0, 360.0, 0.0, 90.0, 270.0] { for &d in &[0i64, 1, -1, 2, -2, 16, -16] { v.push(nudge64(h, d)); v.push(nudge32(h as f32, d as i32) as f64); } }
    // the hues where `max_saturation` switches its coefficient set (red/green/blue component reaches zero first) are those of the
    // sRGB primaries: 29.2338851923°, 142.4953388878°, 264.0520206381°.  Around blue the two conditions leave a gap
    // [264.0520205708686°, 264.0520206345371°] in which *neither* holds and the third ("blue reaches zero first") set is used.
    for &h in &[29.233885192342633f64, 142.49533888780996, 264.052020638055, 264.0520206, 264.05202060270286] { for &d in &[0i64, 1, -1, 2, -2, 16, -16, 1000, -1000] { v.push(nudge64(h, d)); v.push(nudge32(h as f32, d as i32) as f64); } }
    v
}

/// Reference value(s) an implementation in `T` may legitimately produce.  The reference itself is discontinuous where
/// `compute_max_saturation` switches its coefficient set (the hue directions of the sRGB primaries): a rounding of the hue vector
/// by one ulp of `T` flips the branch.  Within `m` of a switch, the result of every coefficient set is accepted.
fn ref_candidates(f: fn([f64; 3]) -> [f64; 3], x: [f64; 3], a_: f64, b_: f64, m: f64) -> Vec<[f64; 3]> {
    let mut v = vec![f(x)];
    if spec::case_margin(a_, b_) <= m { for c in 0..3 { spec::FORCE_CASE.with(|k| k.set(c)); v.push(f(x)); } spec::FORCE_CASE.with(|k| k.set(-1)); }
    v
}
/// the properties' domain (C07 wording, also used for C02): each of saturation-like/lightness-like components is exactly on a
/// bound of [0,1] or at least one billionth of the range away from both bounds
fn unit_in_domain(x: f64) -> bool { x == 0.0 || x == 1.0 || (x >= 1e-9 && x <= 1.0 - 1e-9) }

/// largest excursion of a triple outside [0,1]
fn excess(v: &[f64; 3]) -> f64 { v.iter().fold(0.0f64, |m, &x| m.max(-x).max(x - 1.0)) }

macro_rules! family { ($fname:ident, $t:ty) => {
fn $fname(out: &mut Out, rng: &mut Rng, n: usize) {
    type T = $t;
    let tag = <T as Fl>::TAG;
    let eps = <T as Fl>::eps();
    // rounding of a ~20-operation formula in T on the unit scale
    let tol_lin = 256.0 * eps;
    // the Okhsl/Okhsv pipelines (≈200 operations, two cube roots, divisions by 1−L_cusp ≥ 0.03 and by C_max−C_mid) amplify rounding:
    // observed ≤ 7e-15 (f64) / 1.2e-5 (f32) on the unit scale; declared 1e-12 (f64, 2^12 eps) and 5e-5 (f32, 2^9 eps) — far below
    // any change of a published coefficient (8-10 digits: ≥ 1e-9 relative is visible in f64; in f32 the check is a rounding-level
    // sanity bound only).
    let tol_ok = if tag == "f64" { 1e-12 } else { 5e-5 };
    let ones = [1.0, 1.0, 1.0];
    // the hue vector (cos h, sin h) or (a/C, b/C) carries a relative rounding error of a few eps(T); the case conditions have
    // coefficients ≤ 1.9
    let case_m = 64.0 * eps;

    // ---------- inputs
    let mut rgbs = rgb_cube(rng, n);
    // ramps of the primaries and secondaries (their hue directions are where `max_saturation` switches coefficient sets)
    for i in 1..=20 { let x = i as f64 / 20.0; for m in 1..7u32 { rgbs.push([if m & 1 != 0 { x } else { 0.0 }, if m & 2 != 0 { x } else { 0.0 }, if m & 4 != 0 { x } else { 0.0 }]); } }
    let mut oklab_in_gamut: Vec<[f64; 3]> = vec![];
    let mut oklab_in_gamut_rgb: Vec<[f64; 3]> = vec![];

    // ---------- Xyz<D65> <-> Oklab
    {
        let mut xs = box_inputs(nominal_box("XyzD65"), rng, n, false);
        for c in &rgbs { let x: Xyz<D65, f64> = palette::convert::FromColorUnclamped::from_color_unclamped(Rgb::<Linear<encoding::Srgb>, f64>::new(c[0], c[1], c[2])); xs.push([x.x, x.y, x.z]); }
        let r = edge::<Xyz<D65, T>, Oklab<T>, T, 3, 3>(out, "Xyz:D65", "Oklab", &xs);
        for (a, d) in &r {
            let a64 = to64(a); let d64 = to64(d);
            let want = spec::xyz_to_oklab(a64);
            // a, b are differences of cube roots with coefficients ≤ 2.43: scale 2.5
            out.check(close3(&d64, &want, tol_lin, &[2.5, 2.5, 2.5]), &format!("def:Xyz->Oklab:{}", tag), || format!("{:?} -> {:?}, published (CSS Color 4 M1, Ottosson M2) gives {:?}", a, d, want));
            let orig = spec::xyz_to_oklab_with(&spec::M1_OTTOSSON, a64);
            for i in 0..3 { out.maxi(&format!("dist-to-Ottosson-original-M1:Xyz->Oklab:{}", tag), (d64[i] - orig[i]).abs()); }
        }
        // round trip Xyz -> Oklab -> Xyz: M1·M1⁻¹, M2·M2⁻¹ are inverse to ≤ 2e-8 (decided in Lean, C01_Ok); behind the cube the
        // relative error triples: 1e-6 of the unit scale, plus rounding
        let labs: Vec<[f64; 3]> = r.iter().map(|(_, d)| to64(d)).collect();
        let back = edge::<Oklab<T>, Xyz<D65, T>, T, 3, 3>(out, "Oklab", "Xyz:D65", &labs);
        for ((a, _), (_, b)) in r.iter().zip(back.iter()) {
            out.check(close3(&to64(b), &to64(a), 1e-6 + tol_lin, &ones), &format!("roundtrip:Xyz->Oklab->Xyz:{}", tag), || format!("{:?} -> .. -> {:?}", a, b));
        }
        let ls = box_inputs(nominal_box("Oklab"), rng, n, false);
        let r = edge::<Oklab<T>, Xyz<D65, T>, T, 3, 3>(out, "Oklab", "Xyz:D65", &ls);
        for (a, d) in &r {
            let a64 = to64(a);
            let want = spec::oklab_to_xyz(a64);
            // published inverse = exact inverse of the forward matrices; palette's tabulated inverses agree to 2e-8 relative, cubed: 1e-7;
            // scale: 4.1·(|l| + |a| + 1.3|b|)³ (differences of cubes)
            let u = a64[0].abs() + a64[1].abs() + 1.3 * a64[2].abs(); let sc = (4.1 * u * u * u).max(1.0);
            out.check(close3(&to64(d), &want, 2e-7 + tol_lin, &[sc, sc, sc]), &format!("def:Oklab->Xyz:{}", tag), || format!("{:?} -> {:?}, inverse of the published matrices gives {:?}", a, d, want));
        }
    }

    // ---------- Rgb<S> <-> Oklab
    macro_rules! rgb_edge { ($std:ty, $name:expr, $direct:expr, $eotf:expr, $oetf:expr) => {{
        let mut ins = rgbs.clone();
        for &th in &[0.04045f64, 0.0031308, 0.081, 0.018] { for &d in &[0i64, 1, -1, 2, -2, 16, -16] { let x = <T as Fl>::of(th).nudge(d).to64(); ins.push([x, 0.5, 0.25]); ins.push([x, x, x]); } }
        let r = edge::<Rgb<$std, T>, Oklab<T>, T, 3, 3>(out, &format!("Rgb:{}", $name), "Oklab", &ins);
        if $direct {
            let eotf: fn(f64) -> f64 = $eotf; let oetf: fn(f64) -> f64 = $oetf;
            for (a, d) in &r {
                let a64 = to64(a);
                let want = spec::linear_srgb_to_oklab([eotf(a64[0]), eotf(a64[1]), eotf(a64[2])]);
                out.check(close3(&to64(d), &want, tol_lin, &[2.5, 2.5, 2.5]), &format!("def:Rgb:{}->Oklab:{}", $name, tag), || format!("{:?} -> {:?}, ok_color.h gives {:?}", a, d, want));
                if $name == "LinSrgb" { oklab_in_gamut.push(to64(d)); oklab_in_gamut_rgb.push(a64); }
                // C01 commutation: the direct path against the tree path Rgb -> Xyz -> Oklab.  Decided in Lean (C01_Ok
                // `direct_vs_xyz_route`): M1·(sRGB→XYZ) differs from the direct sRGB→LMS table by 1.72e-4 (different D65 white),
                // i.e. up to 1.72e-4 absolute in LMS for rgb ≤ 1; the cube root (slope ≤ 1/(3·lms^(2/3)), lms ≥ 0.05 where the
                // difference is that large) and M2 (row sum ≤ 4.86) give ≤ 2e-3 in Lab; observed 5.1e-5.
                let via: Oklab<T> = palette::convert::FromColorUnclamped::from_color_unclamped(<Xyz<D65, T> as palette::convert::FromColorUnclamped<Rgb<$std, T>>>::from_color_unclamped(palette::cast::from_array(*a)));
                let dv = (via.l as f64 - to64(d)[0]).abs().max((via.a as f64 - to64(d)[1]).abs()).max((via.b as f64 - to64(d)[2]).abs());
                out.maxi(&format!("direct-vs-xyz-route:Rgb:{}->Oklab:{}", $name, tag), dv);
                out.check(dv <= 2e-3, &format!("commute:direct-vs-xyz-route:Rgb:{}->Oklab:{}", $name, tag), || format!("{:?}: direct {:?}, via Xyz {:?}", a, d, via));
            }
            // round trip: Ottosson's 10-digit matrix pairs are inverse only to ‖A·B − I‖∞ ≤ 7.6e-8 (M2 side) and 4.8e-10 (M1 side)
            // (decided in Lean, C01_Ok `direct_pair_inverse_bound`): 7.6e-8·|lms'| ≤ 7.6e-8, cubed ≤ 2.3e-7 relative, times the row sum
            // 7.62 of lms→rgb: ≤ 1.8e-6 in linear light, times the slope ≤ 12.92 of the sRGB curve: ≤ 2.3e-5 encoded
            let labs: Vec<[f64; 3]> = r.iter().map(|(_, d)| to64(d)).collect();
            let back = edge::<Oklab<T>, Rgb<$std, T>, T, 3, 3>(out, "Oklab", &format!("Rgb:{}", $name), &labs);
            for ((a, l), (_, b)) in r.iter().zip(back.iter()) {
                out.check(close3(&to64(b), &to64(a), (if $name == "LinSrgb" { 1.8e-6 } else { 2.3e-5 }) + 16.0 * tol_lin, &ones), &format!("roundtrip:Rgb:{}->Oklab->Rgb:{}", $name, tag), || format!("{:?} -> {:?} -> {:?}", a, l, b));
                let l64 = to64(l);
                let lin = spec::oklab_to_linear_srgb(l64);
                let want = [oetf(lin[0]), oetf(lin[1]), oetf(lin[2])];
                // the curve's slope at the toe (12.92) multiplies the rounding of the linear value
                out.check(close3(&to64(b), &want, 16.0 * tol_lin, &ones), &format!("def:Oklab->Rgb:{}:{}", $name, tag), || format!("{:?} -> {:?}, ok_color.h gives {:?}", l, b, want));
            }
        } else {
            // not on sRGB primaries: the edge is Rgb -> Xyz -> Oklab (both edges have their own oracle); here only the round trip
            // through the 7-digit RGB matrices (3e-7·3 relative, cubed/curve: 1e-5)
            let labs: Vec<[f64; 3]> = r.iter().map(|(_, d)| to64(d)).collect();
            let back = edge::<Oklab<T>, Rgb<$std, T>, T, 3, 3>(out, "Oklab", &format!("Rgb:{}", $name), &labs);
            for ((a, l), (_, b)) in r.iter().zip(back.iter()) {
                let a64 = to64(a);
                if a64.iter().any(|&x| x < 1e-3) { continue; } // power-law curves are not Lipschitz at 0 (C01: Hölder bound only; D6 below 0) — the RGB family's clause
                // pure power law (Adobe RGB, γ = 563/256): |Δenc| ≤ |Δlin|^(1/γ) with Δlin ≤ 9e-7 → 1.8e-3 near zero; curves with a linear toe: slope·Δlin ≤ 1e-4
                let rt_tol = if $name == "AdobeRgb" { 2e-3 } else { 1e-4 };
                out.check(close3(&to64(b), &a64, rt_tol + 16.0 * tol_lin, &ones), &format!("roundtrip:Rgb:{}->Oklab->Rgb:{}", $name, tag), || format!("{:?} -> {:?} -> {:?}", a, l, b));
            }
        }
        // out-of-gamut Oklab box (correspondence only)
        let ls = box_inputs(nominal_box("Oklab"), rng, n / 4, false);
        edge::<Oklab<T>, Rgb<$std, T>, T, 3, 3>(out, "Oklab", &format!("Rgb:{}", $name), &ls);
    }} }
    let id: fn(f64) -> f64 = |x| x;
    rgb_edge!(Linear<encoding::Srgb>, "LinSrgb", true, id, id);
    rgb_edge!(encoding::Srgb, "Srgb", true, spec::srgb_eotf, spec::srgb_oetf);
    rgb_edge!(encoding::Rec709, "Rec709", false, id, id);   // direct path in the code; definition of the OETF is the RGB family's clause
    rgb_edge!(encoding::AdobeRgb, "AdobeRgb", false, id, id);
    rgb_edge!(encoding::DisplayP3, "DisplayP3", false, id, id);
    rgb_edge!(encoding::Rec2020, "Rec2020", false, id, id);
    rgb_edge!(Linear<encoding::Rec2020>, "LinRec2020", false, id, id);

    // ---------- Oklab <-> Oklch
    {
        let mut ls = box_inputs(nominal_box("Oklab"), rng, n, false);
        ls.extend(oklab_in_gamut.iter().step_by(7).cloned());
        for &h in &hue_points() { let r = h.to_radians(); for &c in &[0.1, 0.4, 1e-9] { ls.push([0.5, c * r.cos(), c * r.sin()]); } }
        for &a in &[0.0, 0.1, -0.1, 1e-9, -1e-9] { ls.push([0.5, a, 0.0]); ls.push([0.5, 0.0, a]); ls.push([0.5, a, -0.0]); ls.push([0.5, -0.0, a]); }
        let r = edge::<Oklab<T>, Oklch<T>, T, 3, 3>(out, "Oklab", "Oklch", &ls);
        for (a, d) in &r {
            let (a64, d64) = (to64(a), to64(d));
            let want = spec::oklab_to_oklch(a64);
            let ok = close(d64[0], want[0], 0.0, 1.0) && close(d64[1], want[1], 8.0 * eps, 1e-30) && (want[1] == 0.0 || hue_close(d64[2], want[2], 360.0 * 8.0 * eps));
            out.check(ok, &format!("def:Oklab->Oklch:{}", tag), || format!("{:?} -> {:?}, C=√(a²+b²), h=atan2(b,a) gives {:?}", a, d, want));
            out.check(d64[2] >= 0.0 && d64[2] <= 360.0, &format!("hue-normalised:Oklab->Oklch:{}", tag), || format!("{:?} -> hue {:?}", a, d64[2]));
        }
        let lchs: Vec<[f64; 3]> = r.iter().map(|(_, d)| to64(d)).collect();
        let back = edge::<Oklch<T>, Oklab<T>, T, 3, 3>(out, "Oklch", "Oklab", &lchs);
        for ((a, l), (_, b)) in r.iter().zip(back.iter()) {
            let a64 = to64(a); let c = to64(l)[1];
            // cos/sin of a hue known to 360·eps/2 degrees = 4·eps radians, times the chroma
            out.check(close3(&to64(b), &a64, 16.0 * eps, &[1.0, c, c]), &format!("roundtrip:Oklab->Oklch->Oklab:{}", tag), || format!("{:?} -> {:?} -> {:?}", a, l, b));
        }
        let mut cs = box_inputs(nominal_box("Oklch"), rng, n, false);
        for &h in &hue_points() { cs.push([0.5, 0.2, h]); cs.push([0.5, 0.0, h]); }
        for &c in &[-0.1, -1e-9, -0.0] { cs.push([0.5, c, 40.0]); } // `chroma.max(0)`: outside the nominal range, correspondence only
        let r = edge::<Oklch<T>, Oklab<T>, T, 3, 3>(out, "Oklch", "Oklab", &cs);
        for (a, d) in &r {
            let a64 = to64(a); if a64[1] < 0.0 { out.count("cls:Oklch-negative-chroma"); continue; }
            let want = spec::oklch_to_oklab(a64);
            // T's own degrees→radians conversion and range reduction of up to 360°: 360·eps relative in the angle
            out.check(close3(&to64(d), &want, 1024.0 * eps, &[1.0, a64[1], a64[1]]), &format!("def:Oklch->Oklab:{}", tag), || format!("{:?} -> {:?}, (C cos h, C sin h) gives {:?}", a, d, want));
        }
    }

    // ---------- Okhsv <-> Okhwb
    {
        let mut hs = box_inputs(nominal_box("Okhsv"), rng, n, false);
        for &v in &[0.0, 1e-9, 1.0, 0.5] { for &s in &[0.0, 1.0, 0.5] { hs.push([123.0, s, v]); } }
        let r = edge::<Okhsv<T>, Okhwb<T>, T, 3, 3>(out, "Okhsv", "Okhwb", &hs);
        for (a, d) in &r {
            let want = spec::okhsv_to_okhwb(to64(a));
            out.check(close3(&to64(d), &want, 4.0 * eps, &ones), &format!("def:Okhsv->Okhwb:{}", tag), || format!("{:?} -> {:?}, w=(1-s)v, b=1-v gives {:?}", a, d, want));
            let d64 = to64(d);
            out.check(d64[1] >= 0.0 && d64[2] >= 0.0 && d64[1] + d64[2] <= 1.0 + 4.0 * eps, &format!("bounds:Okhsv->Okhwb:{}", tag), || format!("{:?} -> {:?}", a, d));
        }
        let ws: Vec<[f64; 3]> = r.iter().map(|(_, d)| to64(d)).collect();
        let back = edge::<Okhwb<T>, Okhsv<T>, T, 3, 3>(out, "Okhwb", "Okhsv", &ws);
        for ((a, w), (_, b)) in r.iter().zip(back.iter()) {
            let a64 = to64(a);
            if a64[2] == 0.0 { out.check(to64(b)[1] == 0.0 && to64(b)[2] == 0.0, &format!("black:Okhwb->Okhsv:{}", tag), || format!("{:?} -> {:?} -> {:?}", a, w, b)); continue; }
            // s = 1 − w/v: rounding of w and 1−b relative to v
            let sc_s = (1.0 / a64[2]).max(1.0);
            out.check(close3(&to64(b), &a64, 8.0 * eps, &[1.0, sc_s, 1.0]), &format!("roundtrip:Okhsv->Okhwb->Okhsv:{}", tag), || format!("{:?} -> {:?} -> {:?}", a, w, b));
        }
        let mut ws = box_inputs(nominal_box("Okhwb"), rng, n, true);
        for &b in &[1.0, nudge64(1.0, -1), 1.0 - 1e-9] { ws.push([77.0, 0.0, b]); ws.push([77.0, 1.0 - b, b]); }
        let r = edge::<Okhwb<T>, Okhsv<T>, T, 3, 3>(out, "Okhwb", "Okhsv", &ws);
        for (a, d) in &r {
            let a64 = to64(a); let v = 1.0 - a64[2];
            if v == 0.0 { out.check(to64(d)[1] == 0.0, &format!("black:Okhwb->Okhsv:{}", tag), || format!("{:?} -> {:?}", a, d)); continue; }
            if !(v as $t).is_normal() { continue; }
            let want = spec::okhwb_to_okhsv(a64);
            out.check(close3(&to64(d), &want, 8.0 * eps, &[1.0, (a64[1] / v).max(1.0), 1.0]), &format!("def:Okhwb->Okhsv:{}", tag), || format!("{:?} -> {:?}, v=1-b, s=1-w/v gives {:?}", a, d, want));
        }
    }

    // ---------- Oklab <-> Okhsl, Okhsv;  gamut excursions of Okhsl / Okhsv / Okhwb
    {
        let mut hs = box_inputs(nominal_box("Okhsl"), rng, 2 * n, false);
        for &h in &hue_points() { for &(s, l) in &[(0.5, 0.5), (1.0, 0.5), (1.0, 0.9), (0.3, 0.1), (1.0, 1e-9), (1.0, 1.0 - 1e-9)] { hs.push([h, s, l]); } }
        for &d in &[0i64, 1, -1, 2, -2, 16, -16] { let m = <T as Fl>::of(0.8).nudge(d).to64(); hs.push([200.0, m, 0.6]); hs.push([20.0, m, 0.3]);
            hs.push([200.0, 0.5, <T as Fl>::of(1.0).nudge(-d.abs()).to64()]); hs.push([200.0, 0.5, <T as Fl>::of(0.0).nudge(d.abs()).to64()]); }
        // dense hue sweep on the surface (s = 1) and inside
        let hn = if n > 5000 { 3600 } else { 720 };
        for i in 0..hn { let h = 360.0 * i as f64 / hn as f64; hs.push([h, 1.0, rng.unit()]); hs.push([h, rng.unit(), rng.unit()]); }

        // Okhsl -> Oklab
        let r = edge::<Okhsl<T>, Oklab<T>, T, 3, 3>(out, "Okhsl", "Oklab", &hs);
        let mut labs = vec![];
        for (a, d) in &r {
            let (a64, d64) = (to64(a), to64(d));
            if !(unit_in_domain(a64[1]) && unit_in_domain(a64[2])) { out.count("cls:outside-domain(within 1e-9 of a bound)"); labs.push(d64); continue; }
            let hr = a64[0].to_radians();
            let wants = ref_candidates(spec::okhsl_to_oklab, a64, hr.cos(), hr.sin(), case_m);
            if wants.len() > 1 { out.count(&format!("cls:at-coefficient-set-switch:{}", tag)); }
            let want = wants[0];
            if wants.len() == 1 { for i in 0..3 { out.maxi(&format!("dist-to-reference:Okhsl->Oklab:{}", tag), (d64[i] - want[i]).abs()); } }
            out.check(wants.iter().any(|w| close3(&d64, w, tol_ok, &ones)), &format!("def:Okhsl->Oklab:{}", tag), || format!("{:?} -> {:?}, ok_color.h gives {:?}", a, d, want));
            let lin = spec::oklab_to_linear_srgb(d64);
            let ex = excess(&lin);
            { let hr = a64[0].to_radians();
              if spec::blue_gap(hr.cos(), hr.sin(), case_m) {
                out.maxi(&format!("gamut-excess-linear-srgb-in-blue-hue-gap:Okhsl:{}", tag), ex);
                out.check(ex <= 1e-3, &format!("blue-hue-gap:gamut:Okhsl:{}", tag), || format!("{:?} -> Oklab {:?} -> linear sRGB {:?}", a, d, lin));
              } else {
                out.maxi(&format!("gamut-excess-linear-srgb:Okhsl:{}", tag), ex);
                out.check(ex <= 1e-3, &format!("gamut:Okhsl:{}", tag), || format!("{:?} -> Oklab {:?} -> linear sRGB {:?}", a, d, lin));
              } }
            labs.push(d64);
        }
        // round trip Okhsl -> Oklab -> Okhsl, for 0 < s, 0 < l < 1 (the documented degenerate cases lose hue/saturation)
        let back = edge::<Oklab<T>, Okhsl<T>, T, 3, 3>(out, "Oklab", "Okhsl", &labs);
        for ((a, l), (_, b)) in r.iter().zip(back.iter()) {
            let (a64, b64) = (to64(a), to64(b));
            if !(a64[1] > 1e-3 && a64[2] > 1e-3 && a64[2] < 1.0 - 1e-3) { continue; }
            let hr = a64[0].to_radians();
            if spec::case_margin(hr.cos(), hr.sin()) <= case_m || spec::blue_gap(hr.cos(), hr.sin(), case_m) { continue; } // both directions recompute the cusp from a re-rounded hue vector: judged from the RGB side, clauses `primary-hue`, `blue-hue-gap`
            let hn = a64[0].rem_euclid(360.0);
            // chroma ≥ ~1e-6 here; saturation is recovered through C/C_max with C_max small near l → 0, 1: relative to 1/min(l,1−l) ≤ 1e3
            let tol = tol_ok * 10.0 / a64[2].min(1.0 - a64[2]).min(a64[1]);
            out.maxi(&format!("roundtrip-err:Okhsl:{}", tag), (b64[1] - a64[1]).abs().max((b64[2] - a64[2]).abs()));
            out.check(hue_close(b64[0], hn, 360.0 * tol) && close(b64[1], a64[1], tol, 1.0) && close(b64[2], a64[2], tol, 1.0), &format!("roundtrip:Okhsl->Oklab->Okhsl:{}", tag), || format!("{:?} -> {:?} -> {:?}", a, l, b));
        }

        // Okhsv -> Oklab
        let mut vs = hs.clone();
        for &d in &[0i64, 1, 2, 16] { vs.push([200.0, <T as Fl>::of(0.0).nudge(d).to64(), 0.6]); vs.push([200.0, 0.6, <T as Fl>::of(0.0).nudge(d).to64()]); }
        let r = edge::<Okhsv<T>, Oklab<T>, T, 3, 3>(out, "Okhsv", "Oklab", &vs);
        let mut labs = vec![];
        for (a, d) in &r {
            let (a64, d64) = (to64(a), to64(d));
            labs.push(d64);
            let lin = spec::oklab_to_linear_srgb(d64);
            let ex = excess(&lin);
            { let hr = a64[0].to_radians();
              if spec::blue_gap(hr.cos(), hr.sin(), case_m) {
                out.maxi(&format!("gamut-excess-linear-srgb-in-blue-hue-gap:Okhsv:{}", tag), ex);
                out.check(ex <= 1e-3, &format!("blue-hue-gap:gamut:Okhsv:{}", tag), || format!("{:?} -> Oklab {:?} -> linear sRGB {:?}", a, d, lin));
              } else {
                out.maxi(&format!("gamut-excess-linear-srgb:Okhsv:{}", tag), ex);
                out.check(ex <= 1e-3, &format!("gamut:Okhsv:{}", tag), || format!("{:?} -> Oklab {:?} -> linear sRGB {:?}", a, d, lin));
              } }
            if a64[2] == 0.0 || a64[1] == 0.0 { // palette's documented early returns: black, gray axis (the reference divides 0/0 there)
                let want = if a64[2] == 0.0 { [0.0, 0.0, 0.0] } else { [spec::toe_inv(a64[2]), 0.0, 0.0] };
                out.check(close3(&d64, &want, tol_lin, &ones), &format!("def:Okhsv->Oklab:degenerate:{}", tag), || format!("{:?} -> {:?}, expected {:?}", a, d, want));
                continue;
            }
            if !(unit_in_domain(a64[1]) && unit_in_domain(a64[2])) { out.count("cls:outside-domain(within 1e-9 of a bound)"); continue; }
            let hr = a64[0].to_radians();
            let wants = ref_candidates(spec::okhsv_to_oklab, a64, hr.cos(), hr.sin(), case_m);
            if wants.len() > 1 { out.count(&format!("cls:at-coefficient-set-switch:{}", tag)); }
            let want = wants[0];
            if wants.len() == 1 { for i in 0..3 { out.maxi(&format!("dist-to-reference:Okhsv->Oklab:{}", tag), (d64[i] - want[i]).abs()); } }
            out.check(wants.iter().any(|w| close3(&d64, w, tol_ok, &ones)), &format!("def:Okhsv->Oklab:{}", tag), || format!("{:?} -> {:?}, ok_color.h gives {:?}", a, d, want));
        }
        let back = edge::<Oklab<T>, Okhsv<T>, T, 3, 3>(out, "Oklab", "Okhsv", &labs);
        for ((a, l), (_, b)) in r.iter().zip(back.iter()) {
            let (a64, b64) = (to64(a), to64(b));
            if !(a64[1] > 1e-3 && a64[2] > 1e-3) { continue; }
            let hr = a64[0].to_radians();
            if spec::case_margin(hr.cos(), hr.sin()) <= case_m || spec::blue_gap(hr.cos(), hr.sin(), case_m) { continue; }
            let hn = a64[0].rem_euclid(360.0);
            let tol = tol_ok * 10.0 / a64[2].min(a64[1]);
            out.maxi(&format!("roundtrip-err:Okhsv:{}", tag), (b64[1] - a64[1]).abs().max((b64[2] - a64[2]).abs()));
            out.check(hue_close(b64[0], hn, 360.0 * tol) && close(b64[1], a64[1], tol, 1.0) && close(b64[2], a64[2], tol, 1.0), &format!("roundtrip:Okhsv->Oklab->Okhsv:{}", tag), || format!("{:?} -> {:?} -> {:?}", a, l, b));
        }
        // Okhwb in bounds (w + b ≤ 1) -> Okhsv -> Oklab: excursion only (both edges have their own clauses)
        for c in box_inputs(nominal_box("Okhwb"), rng, n, true) {
            let a: [T; 3] = arr_of(c);
            let w: Okhwb<T> = palette::cast::from_array(a);
            let v: Okhsv<T> = palette::convert::FromColorUnclamped::from_color_unclamped(w);
            let l: Oklab<T> = palette::convert::FromColorUnclamped::from_color_unclamped(v);
            let lin = spec::oklab_to_linear_srgb([l.l as f64, l.a as f64, l.b as f64]);
            let ex = excess(&lin);
            out.maxi(&format!("gamut-excess-linear-srgb:Okhwb:{}", tag), ex);
            out.check(ex <= 1e-3, &format!("gamut:Okhwb:{}", tag), || format!("{:?} -> Oklab {:?} -> linear sRGB {:?}", a, l, lin));
        }

        // Oklab (in the sRGB gamut) -> Okhsl / Okhsv
        let mut gs: Vec<[f64; 3]> = oklab_in_gamut.clone();
        for i in 0..=16 { gs.push([i as f64 / 16.0, 0.0, 0.0]); } // gray axis incl. black and white
        for &l in &[1.0, 0.0, 0.5] { for &c in &[1e-9, 0.0, -0.0, 1e-40, 1e-310] { gs.push([l, c, 0.0]); gs.push([l, 0.0, c]); gs.push([l, c, c]); } }
        let r = edge::<Oklab<T>, Okhsl<T>, T, 3, 3>(out, "Oklab", "Okhsl", &gs);
        for (a, d) in &r {
            let (a64, d64) = (to64(a), to64(d));
            let c = a64[1].hypot(a64[2]);
            out.check(d64.iter().all(|x| x.is_finite()), &format!("finite:Oklab->Okhsl:{}", tag), || format!("{:?} -> {:?}", a, d));
            if c < 1e-6 || a64[0] >= 1.0 - 1e-6 || a64[0] <= 1e-6 { // early return / ill-conditioned neighbourhood of the gray axis, black and white
                out.check(close(d64[2], spec::toe(a64[0]), tol_lin, 1.0), &format!("def:Oklab->Okhsl:lightness:{}", tag), || format!("{:?} -> {:?}, toe(L) = {}", a, d, spec::toe(a64[0])));
                continue;
            }
            let wants = ref_candidates(spec::oklab_to_okhsl, a64, a64[1] / c, a64[2] / c, case_m);
            if wants.len() > 1 { out.count(&format!("cls:at-coefficient-set-switch:{}", tag)); }
            let want = wants[0];
            // saturation = f(C / C_max(L, h)): conditioning 1/C_max ~ 1/min(L, 1−L); hue: atan2 of (a, b) known to eps·max → eps/C radians
            let sc = (0.1 / a64[0].min(1.0 - a64[0])).max(1.0);
            if wants.len() == 1 { out.maxi(&format!("dist-to-reference:Oklab->Okhsl:{}", tag), (d64[1] - want[1]).abs().max((d64[2] - want[2]).abs())); }
            out.check(wants.iter().any(|want| hue_close(d64[0], want[0], 360.0 * 64.0 * eps / c.min(1.0)) && close(d64[1], want[1], tol_ok * sc, 1.0) && close(d64[2], want[2], tol_ok, 1.0)), &format!("def:Oklab->Okhsl:{}", tag), || format!("{:?} -> {:?}, ok_color.h gives {:?}", a, d, want));
            // in-gamut colours come out within the documented bounds (C15 converse), tolerance as above plus the 1e-3 of the cusp fit
            out.maxi(&format!("bounds-excess{}:Oklab->Okhsl:{}", if spec::blue_gap(a64[1] / c, a64[2] / c, case_m) { "-in-blue-hue-gap" } else { "" }, tag), excess(&[0.0, d64[1], d64[2]]));
        }
        let r = edge::<Oklab<T>, Okhsv<T>, T, 3, 3>(out, "Oklab", "Okhsv", &gs);
        for (a, d) in &r {
            let (a64, d64) = (to64(a), to64(d));
            let c = a64[1].hypot(a64[2]);
            out.check(d64.iter().all(|x| x.is_finite()), &format!("finite:Oklab->Okhsv:{}", tag), || format!("{:?} -> {:?}", a, d));
            if c < 1e-6 || a64[0] <= 1e-6 {
                if a64[0] > 1e-6 && c == 0.0 { out.check(close(d64[2], spec::toe(a64[0]), tol_lin, 1.0) && d64[1] == 0.0, &format!("def:Oklab->Okhsv:gray:{}", tag), || format!("{:?} -> {:?}, toe(L) = {}", a, d, spec::toe(a64[0]))); }
                continue;
            }
            let wants = ref_candidates(spec::oklab_to_okhsv, a64, a64[1] / c, a64[2] / c, case_m);
            if wants.len() > 1 { out.count(&format!("cls:at-coefficient-set-switch:{}", tag)); }
            let want = wants[0];
            let sc = (0.1 / a64[0]).max(1.0);
            if wants.len() == 1 { out.maxi(&format!("dist-to-reference:Oklab->Okhsv:{}", tag), (d64[1] - want[1]).abs().max((d64[2] - want[2]).abs())); }
            out.check(wants.iter().any(|want| hue_close(d64[0], want[0], 360.0 * 64.0 * eps / c.min(1.0)) && close(d64[1], want[1], tol_ok * sc, 1.0) && close(d64[2], want[2], tol_ok * sc, 1.0)), &format!("def:Oklab->Okhsv:{}", tag), || format!("{:?} -> {:?}, ok_color.h gives {:?}", a, d, want));
            out.maxi(&format!("bounds-excess{}:Oklab->Okhsv:{}", if spec::blue_gap(a64[1] / c, a64[2] / c, case_m) { "-in-blue-hue-gap" } else { "" }, tag), excess(&[0.0, d64[1], d64[2]]));
        }
        // RGB side (C15 converse): in-gamut linear sRGB -> Oklab -> Okhsl/Okhsv -> Oklab -> linear sRGB returns the colour.
        // Both directions recompute the cusp from the hue vector, which is (a/C, b/C) one way and (cos h, sin h) the other;
        // the two agree to a few eps(T), and the cusp is Lipschitz in it *except* where `max_saturation` switches its
        // coefficient set (the hue directions of the primaries): there the two directions may use different, equally valid sets and
        // the clause `primary-hue` allows the accuracy of the cusp fit (1e-3); the gap below blue where an *invalid* set is used
        // is the finding `blue-hue-gap`.
        for &h in &[264.0520206f64, 264.05202060270286] { let r = h.to_radians(); for &(l, c) in &[(0.45, 0.31), (0.3, 0.15), (0.6, 0.1)] { let lab = [l, c * r.cos(), c * r.sin()]; oklab_in_gamut_rgb.push(spec::oklab_to_linear_srgb(lab)); oklab_in_gamut.push(lab); } }
        for (lab, rgb) in oklab_in_gamut.iter().zip(oklab_in_gamut_rgb.iter()) {
            let c = lab[1].hypot(lab[2]);
            if c < 1e-4 || lab[0] < 1e-3 { continue; }
            let at_switch = spec::case_margin(lab[1] / c, lab[2] / c) <= case_m;
            let a: [T; 3] = arr_of(*lab);
            let l: Oklab<T> = palette::cast::from_array(a);
            let via_v: Oklab<T> = palette::convert::FromColorUnclamped::from_color_unclamped(<Okhsv<T> as palette::convert::FromColorUnclamped<Oklab<T>>>::from_color_unclamped(l));
            let via_l: Oklab<T> = palette::convert::FromColorUnclamped::from_color_unclamped(<Okhsl<T> as palette::convert::FromColorUnclamped<Oklab<T>>>::from_color_unclamped(l));
            for (nm, back) in [("Okhsv", via_v), ("Okhsl", via_l)] {
                let lin = spec::oklab_to_linear_srgb([back.l as f64, back.a as f64, back.b as f64]);
                let lin0 = spec::oklab_to_linear_srgb(to64(&a)); // (= rgb up to the 2e-6 of the direct matrix pair, which is not this clause's business)
                let err = (0..3).fold(0.0f64, |m, i| m.max((lin[i] - lin0[i]).abs()));
                if spec::blue_gap(lab[1] / c, lab[2] / c, case_m) {
                    out.maxi(&format!("rgb-roundtrip-err-in-blue-hue-gap:{}:{}", nm, tag), err);
                    out.check(err <= 1e-3, &format!("blue-hue-gap:roundtrip:{}:{}", nm, tag), || format!("linear sRGB {:?} -> Oklab {:?} -> {} -> Oklab {:?} -> linear sRGB {:?}", rgb, a, nm, back, lin));
                } else if at_switch {
                    out.maxi(&format!("rgb-roundtrip-err-at-primary-hue:{}:{}", nm, tag), err);
                    out.check(err <= 1e-3, &format!("primary-hue:{}:{}", nm, tag), || format!("linear sRGB {:?} -> Oklab {:?} -> {} -> Oklab {:?} -> linear sRGB {:?}", rgb, a, nm, back, lin));
                } else {
                    out.maxi(&format!("rgb-roundtrip-err:{}:{}", nm, tag), err);
                    // 2^12 eps(T): the inverse formulas divide by C_max − C_mid and 1 − L_cusp (≥ 0.03); far below the 1e-3 of C15
                    out.check(err <= 4096.0 * eps, &format!("rgb-roundtrip:{}:{}", nm, tag), || format!("linear sRGB {:?} -> Oklab {:?} -> {} -> Oklab {:?} -> linear sRGB {:?}", rgb, a, nm, back, lin));
                }
            }
        }
        // out-of-gamut Oklab box: correspondence only
        let ls = box_inputs(nominal_box("Oklab"), rng, n / 2, false);
        edge::<Oklab<T>, Okhsl<T>, T, 3, 3>(out, "Oklab", "Okhsl", &ls);
        edge::<Oklab<T>, Okhsv<T>, T, 3, 3>(out, "Oklab", "Okhsv", &ls);
    }
}
}}

family!(run_f32, f32);
family!(run_f64, f64);

pub fn run_family(out: &mut Out, rng: &mut Rng, tier: &str) {
    let n = if tier == "thorough" { 20_000 } else { 1_200 };
    run_f32(out, rng, n);
    run_f64(out, rng, n);
}
