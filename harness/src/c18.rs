//! C18 — struct-of-arrays colour collections behave like a plain `Vec<Color>`.
//!
//! Every history (from the empty collection) is run twice in-process: on the real struct-of-arrays type
//! (`Color<Vec<T>>`, `Alpha<Color<Vec<T>>, Vec<T>>` and, for reads/writes, their `&[T]`, `&mut [T]`, `Box<[T]>`,
//! `[T; N]` forms) and on a real `Vec<Color<T>>`.  Oracle = the property's own predicate: the same observation after
//! every operation (items, `None`s, panics, lengths), all component collections of one length equal to the vector's
//! after every operation.  The same history with the struct-of-arrays observations is written as one protocol line;
//! the Lean driver replays it through the column model (and the list reference, and for `Alpha` the nested
//! colour-collection + alpha-vector model) and compares every observation.
//! Iterator scripts also observe `size_hint()` (`h`) and `count()` (`c`, last step only: it consumes the iterator);
//! `forget` is a drain whose iterator is leaked with `mem::forget` (the range and the tail are lost in every column).
use crate::common::*;
use palette::cam16::{Cam16Jch, Cam16Jmh, Cam16Jsh, Cam16Qch, Cam16Qmh, Cam16Qsh, Cam16UcsJab, Cam16UcsJmh};
use palette::encoding::Srgb;
use palette::hues::{Cam16Hue, LabHue, LuvHue, OklabHue, RgbHue};
use palette::lms::Lms;
use palette::luma::Luma;
use palette::rgb::Rgb;
use palette::white_point::D65;
use palette::{Alpha, Hsl, Hsluv, Hsv, Hwb, Lab, Lch, Lchuv, Luv, Okhsl, Okhsv, Okhwb, Oklab, Oklch, Xyz, Yxy};
use std::marker::PhantomData;
use std::panic::{catch_unwind, AssertUnwindSafe};

pub type Row = Vec<u64>;

#[derive(Clone, Copy, Debug, PartialEq)]
pub enum Rg { R(usize, usize), F(usize), T(usize), U, I(usize, usize), TI(usize) }
#[derive(Clone, Debug, PartialEq)]
pub enum St { N, B, L, NW(Row), BW(Row),
    /// `size_hint()`
    H,
    /// `count()`: consumes the iterator, so generated scripts have it last (and never inside a `Forget`)
    C }
#[derive(Clone, Copy, Debug, PartialEq)]
pub enum Form { V, Slice, MutSlice, Boxed, Arr }
#[derive(Clone, Debug, PartialEq)]
pub enum Op {
    Push(Row), Pop, Extend(Vec<Row>), Collect(Vec<Row>), New(usize), Clear,
    Drain(Rg, Vec<St>), Get(usize, Form), GetR(Rg, Vec<St>, Form), GetM(usize, Row, Form), GetMR(Rg, Vec<St>, Form),
    Iter(Vec<St>, Form), IterM(Vec<St>, Form), Rev(Form), Into(Form), Len,
    /// `let mut d = v.drain(range); script; mem::forget(d)` (leak amplification: the range and the tail are lost)
    Forget(Rg, Vec<St>),
}
#[derive(Clone, Debug, PartialEq)]
pub enum SOb { Item(Option<Row>), Len(usize), Hint(usize, Option<usize>), Count(usize) }
#[derive(Clone, Debug, PartialEq)]
pub enum Ob { Unit, Item(Option<Row>), Steps(Vec<SOb>), NoSlice, Panic, Lens(usize, Vec<usize>) }

/// result of one interpreter run: the observation of every operation and the component lengths after it
pub struct Trace { pub obs: Vec<Ob>, pub lens: Vec<Vec<usize>> }

pub trait Comp: Copy + 'static { const TAG: &'static str; fn fb(b: u64) -> Self; fn tb(self) -> u64; }
impl Comp for f32 { const TAG: &'static str = "f32"; fn fb(b: u64) -> Self { f32::from_bits(b as u32) } fn tb(self) -> u64 { self.to_bits() as u64 } }
impl Comp for f64 { const TAG: &'static str = "f64"; fn fb(b: u64) -> Self { f64::from_bits(b) } fn tb(self) -> u64 { self.to_bits() } }
impl Comp for u8 { const TAG: &'static str = "u8"; fn fb(b: u64) -> Self { b as u8 } fn tb(self) -> u64 { self as u64 } }
impl Comp for u16 { const TAG: &'static str = "u16"; fn fb(b: u64) -> Self { b as u16 } fn tb(self) -> u64 { self as u64 } }

macro_rules! with_range {
    ($rg:expr, $r:ident => $e:expr) => { match $rg {
        Rg::R(a, b) => { let $r = a..b; $e } Rg::F(a) => { let $r = a..; $e } Rg::T(b) => { let $r = ..b; $e }
        Rg::U => { let $r = ..; $e } Rg::I(a, b) => { let $r = a..=b; $e } Rg::TI(b) => { let $r = ..=b; $e } } };
}
/// run a script on an iterator whose items are read with `$conv`
macro_rules! read_script {
    ($it:expr, $sc:expr, $conv:expr) => {{ let mut slot = Some($it); let mut out: Vec<SOb> = vec![];
        for s in $sc.iter() {
            if let St::C = s { if let Some(it) = slot.take() { out.push(SOb::Count(it.count())); } break; }
            let it = match slot.as_mut() { Some(it) => it, None => break };
            out.push(match s {
            St::N | St::NW(_) => SOb::Item(it.next().map($conv)),
            St::B | St::BW(_) => SOb::Item(it.next_back().map($conv)),
            St::L => SOb::Len(it.len()),
            St::H => { let (lo, hi) = it.size_hint(); SOb::Hint(lo, hi) }
            St::C => unreachable!() }); }
        out }};
}
/// the same, but the iterator is leaked with `mem::forget` instead of being dropped (a `count()` would consume it: not generated here)
macro_rules! forget_script {
    ($it:expr, $sc:expr, $conv:expr) => {{ let mut it = $it; let mut out: Vec<SOb> = vec![];
        for s in $sc.iter() { out.push(match s {
            St::N | St::NW(_) => SOb::Item(it.next().map($conv)),
            St::B | St::BW(_) => SOb::Item(it.next_back().map($conv)),
            St::L => SOb::Len(it.len()),
            St::H => { let (lo, hi) = it.size_hint(); SOb::Hint(lo, hi) }
            St::C => break }); }
        std::mem::forget(it);
        out }};
}
/// run a script on an iterator of `Color<&mut T>`: read the old value, write the new one
macro_rules! write_script {
    ($it:expr, $sc:expr) => {{ let mut slot = Some($it); let mut out: Vec<SOb> = vec![];
        for s in $sc.iter() {
            if let St::C = s { if let Some(it) = slot.take() { out.push(SOb::Count(it.count())); } break; }
            let it = match slot.as_mut() { Some(it) => it, None => break };
            out.push(match s {
            St::N => SOb::Item(it.next().map(|c| row_of(&c.copied()))),
            St::B => SOb::Item(it.next_back().map(|c| row_of(&c.copied()))),
            St::NW(w) => SOb::Item(it.next().map(|mut c| { let old = row_of(&c.copied()); c.set(mk(w)); old })),
            St::BW(w) => SOb::Item(it.next_back().map(|mut c| { let old = row_of(&c.copied()); c.set(mk(w)); old })),
            St::L => SOb::Len(it.len()),
            St::H => { let (lo, hi) = it.size_hint(); SOb::Hint(lo, hi) }
            St::C => unreachable!() }); }
        out }};
}
macro_rules! until_none {
    ($it:expr, $conv:expr) => {{ let mut it = $it; let mut out: Vec<SOb> = vec![];
        loop { let x = it.next().map($conv); let stop = x.is_none(); out.push(SOb::Item(x)); if stop || out.len() > 100_000 { break; } }
        out }};
}

macro_rules! get_r { ($src:expr, $rg:expr, $sc:expr) => { match with_range!(*$rg, r => $src.get(r)) { Some(sub) => Ob::Steps(read_script!(sub.into_iter(), $sc, |c| row_of(&c.copied()))), None => Ob::NoSlice } }; }
macro_rules! get_m { ($src:expr, $i:expr, $w:expr) => { $src.get_mut(*$i).map(|mut c| { let old = row_of(&c.copied()); c.set(mk($w)); old }) }; }
macro_rules! get_mr { ($src:expr, $rg:expr, $sc:expr) => { match with_range!(*$rg, r => $src.get_mut(r)) { Some(sub) => Ob::Steps(write_script!(sub.into_iter(), $sc)), None => Ob::NoSlice } }; }

/// The interpreter on the struct-of-arrays side.  Expects in scope: types `V` (Vec form), `I` (item);
/// fns `mk(&Row) -> I`, `row_of(&I) -> Row`, `col_lens(&V) -> Vec<usize>`, `to_box/from_box`, `to_arr::<N>/from_arr::<N>`.
macro_rules! interp {
    () => {
        pub fn run_soa(ops: &[Op]) -> Trace {
            let mut v: V = V::with_capacity(0);
            let mut obs: Vec<Ob> = vec![]; let mut lens: Vec<Vec<usize>> = vec![];
            for op in ops {
                let n_now = col_lens(&v)[0];
                let ob = match op {
                    Op::Push(r) => { v.push(mk(r)); Ob::Unit }
                    Op::Pop => Ob::Item(v.pop().map(|c| row_of(&c))),
                    // every other time through an iterator without an exact size hint (`filter`: lower bound 0, `chain` of two halves, ...):
                    // `Extend` / `FromIterator` must take what the iterator yields, whatever it announces
                    Op::Extend(rs) => { match rs.len() % 3 { 0 => v.extend(rs.iter().map(mk)), 1 => v.extend(rs.iter().map(mk).filter(|_| true)), _ => v.extend(rs.iter().map(mk).take_while(|_| true)) } Ob::Unit }
                    Op::Collect(rs) => { v = match rs.len() % 3 { 0 => rs.iter().map(mk).collect(), 1 => rs.iter().map(mk).filter(|_| true).collect(), _ => rs.iter().map(mk).skip_while(|_| false).collect() }; Ob::Unit }
                    Op::New(c) => { v = V::with_capacity(*c); Ob::Unit }
                    Op::Clear => { v.clear(); Ob::Unit }
                    Op::Drain(rg, sc) => {
                        let res = catch_unwind(AssertUnwindSafe(|| { let d = with_range!(*rg, r => v.drain(r)); read_script!(d, sc, |c| row_of(&c)) }));
                        match res { Ok(s) => Ob::Steps(s), Err(_) => Ob::Panic }
                    }
                    Op::Get(i, f) => Ob::Item(match f {
                        Form::Slice => v.get(..).and_then(|s| s.get(*i).map(|c| row_of(&c.copied()))),
                        Form::MutSlice => v.get_mut(..).and_then(|s| s.get(*i).map(|c| row_of(&c.copied()))),
                        Form::Boxed => { let b = to_box(&v); let x = b.get(*i).map(|c| row_of(&c.copied())); x }
                        Form::Arr if n_now == 3 => { let a = to_arr::<3>(&v); let x = a.get(*i).map(|c| row_of(&c.copied())); x }
                        _ => v.get(*i).map(|c| row_of(&c.copied())),
                    }),
                    Op::GetR(rg, sc, f) => {
                        match f {
                            Form::Slice => { let s = v.get(..).unwrap(); let x = get_r!(s, rg, sc); x }
                            Form::Boxed => { let b = to_box(&v); let x = get_r!(b, rg, sc); x }
                            Form::Arr if n_now == 3 => { let a = to_arr::<3>(&v); let x = get_r!(a, rg, sc); x }
                            _ => get_r!(v, rg, sc),
                        }
                    }
                    Op::GetM(i, w, f) => Ob::Item({
                        match f {
                            Form::MutSlice => { let mut s = v.get_mut(..).unwrap(); let x = get_m!(s, i, w); x }
                            Form::Boxed => { let mut b = to_box(&v); let x = get_m!(b, i, w); v = from_box(b); x }
                            Form::Arr if n_now == 3 => { let mut a = to_arr::<3>(&v); let x = get_m!(a, i, w); v = from_arr::<3>(a); x }
                            _ => get_m!(v, i, w),
                        }
                    }),
                    Op::GetMR(rg, sc, f) => {
                        match f {
                            Form::MutSlice => { let mut s = v.get_mut(..).unwrap(); let x = get_mr!(s, rg, sc); x }
                            Form::Boxed => { let mut b = to_box(&v); let x = get_mr!(b, rg, sc); v = from_box(b); x }
                            Form::Arr if n_now == 3 => { let mut a = to_arr::<3>(&v); let x = get_mr!(a, rg, sc); v = from_arr::<3>(a); x }
                            _ => get_mr!(v, rg, sc),
                        }
                    }
                    Op::Iter(sc, f) => Ob::Steps(match f {
                        Form::Slice => { let s = v.get(..).unwrap(); let x = read_script!(s.iter(), sc, |c| row_of(&c.copied())); x }
                        Form::MutSlice => { let s = v.get_mut(..).unwrap(); let x = read_script!(s.iter(), sc, |c| row_of(&c.copied())); x }
                        Form::Boxed => { let b = to_box(&v); let x = read_script!(b.iter(), sc, |c| row_of(&c.copied())); x }
                        Form::Arr if n_now == 3 => { let a = to_arr::<3>(&v); let x = read_script!(a.iter(), sc, |c| row_of(&c.copied())); x }
                        _ => read_script!(v.iter(), sc, |c| row_of(&c.copied())),
                    }),
                    Op::IterM(sc, f) => Ob::Steps(match f {
                        Form::MutSlice => { let mut s = v.get_mut(..).unwrap(); let x = write_script!(s.iter_mut(), sc); x }
                        Form::Boxed => { let mut b = to_box(&v); let x = write_script!(b.iter_mut(), sc); v = from_box(b); x }
                        Form::Arr if n_now == 3 => { let mut a = to_arr::<3>(&v); let x = write_script!(a.iter_mut(), sc); v = from_arr::<3>(a); x }
                        _ => write_script!(v.iter_mut(), sc),
                    }),
                    Op::Rev(f) => Ob::Steps(match f {
                        Form::Slice => { let s = v.get(..).unwrap(); let x = until_none!(s.iter().rev(), |c| row_of(&c.copied())); x }
                        Form::Boxed => { let b = to_box(&v); let x = until_none!(b.iter().rev(), |c| row_of(&c.copied())); x }
                        Form::Arr if n_now == 3 => { let a = to_arr::<3>(&v); let x = until_none!(a.iter().rev(), |c| row_of(&c.copied())); x }
                        _ => until_none!(v.iter().rev(), |c| row_of(&c.copied())),
                    }),
                    Op::Into(f) => Ob::Steps(match f {
                        Form::Slice => { let s = v.get(..).unwrap(); let x = until_none!(s.into_iter(), |c| row_of(&c.copied())); x }
                        Form::MutSlice => { let s = v.get_mut(..).unwrap(); let x = until_none!(s.into_iter(), |c| row_of(&c.copied())); x }
                        Form::Arr if n_now == 3 => { let a = to_arr::<3>(&v); let x = until_none!(a.into_iter(), |c| row_of(&c)); x }
                        _ => until_none!(v.clone().into_iter(), |c| row_of(&c)),
                    }),
                    Op::Len => Ob::Lens(v.iter().len(), col_lens(&v)),
                    Op::Forget(rg, sc) => {
                        let res = catch_unwind(AssertUnwindSafe(|| { let d = with_range!(*rg, r => v.drain(r)); forget_script!(d, sc, |c| row_of(&c)) }));
                        match res { Ok(s) => Ob::Steps(s), Err(_) => Ob::Panic }
                    }
                };
                obs.push(ob); lens.push(col_lens(&v));
            }
            Trace { obs, lens }
        }
        pub fn run_vec(ops: &[Op]) -> Trace { super::super::run_vec::<I>(ops, K, mk, row_of) }
    };
}

/// the same history on a plain vector of colours
pub fn run_vec<I: Copy>(ops: &[Op], k: usize, mk: fn(&Row) -> I, row_of: fn(&I) -> Row) -> Trace {
    let mut v: Vec<I> = Vec::with_capacity(0);
    let mut obs: Vec<Ob> = vec![]; let mut lens: Vec<Vec<usize>> = vec![];
    macro_rules! wscript { ($it:expr, $sc:expr) => {{ let mut slot = Some($it); let mut out: Vec<SOb> = vec![];
        for s in $sc.iter() {
            if let St::C = s { if let Some(it) = slot.take() { out.push(SOb::Count(it.count())); } break; }
            let it = match slot.as_mut() { Some(it) => it, None => break };
            out.push(match s {
            St::N => SOb::Item(it.next().map(|c| row_of(c))), St::B => SOb::Item(it.next_back().map(|c| row_of(c))),
            St::NW(w) => SOb::Item(it.next().map(|c| { let old = row_of(c); *c = mk(w); old })),
            St::BW(w) => SOb::Item(it.next_back().map(|c| { let old = row_of(c); *c = mk(w); old })),
            St::L => SOb::Len(it.len()),
            St::H => { let (lo, hi) = it.size_hint(); SOb::Hint(lo, hi) }
            St::C => unreachable!() }); }
        out }}; }
    for op in ops {
        let ob = match op {
            Op::Push(r) => { v.push(mk(r)); Ob::Unit }
            Op::Pop => Ob::Item(v.pop().map(|c| row_of(&c))),
            Op::Extend(rs) => { v.extend(rs.iter().map(mk)); Ob::Unit }
            Op::Collect(rs) => { v = rs.iter().map(mk).collect(); Ob::Unit }
            Op::New(c) => { v = Vec::with_capacity(*c); Ob::Unit }
            Op::Clear => { v.clear(); Ob::Unit }
            Op::Drain(rg, sc) => {
                let res = catch_unwind(AssertUnwindSafe(|| { let d = with_range!(*rg, r => v.drain(r)); read_script!(d, sc, |c| row_of(&c)) }));
                match res { Ok(s) => Ob::Steps(s), Err(_) => Ob::Panic }
            }
            Op::Get(i, _) => Ob::Item(v.get(*i).map(row_of)),
            Op::GetR(rg, sc, _) => match with_range!(*rg, r => v.get(r)) { Some(sub) => Ob::Steps(read_script!(sub.iter(), sc, row_of)), None => Ob::NoSlice },
            Op::GetM(i, w, _) => Ob::Item(v.get_mut(*i).map(|c| { let old = row_of(c); *c = mk(w); old })),
            Op::GetMR(rg, sc, _) => match with_range!(*rg, r => v.get_mut(r)) { Some(sub) => Ob::Steps(wscript!(sub.iter_mut(), sc)), None => Ob::NoSlice },
            Op::Iter(sc, _) => Ob::Steps(read_script!(v.iter(), sc, row_of)),
            Op::IterM(sc, _) => Ob::Steps(wscript!(v.iter_mut(), sc)),
            Op::Rev(_) => Ob::Steps(until_none!(v.iter().rev(), row_of)),
            Op::Into(_) => Ob::Steps(until_none!(v.clone().into_iter(), |c| row_of(&c))),
            Op::Len => Ob::Lens(v.iter().len(), vec![v.len(); k]),
            Op::Forget(rg, sc) => {
                let res = catch_unwind(AssertUnwindSafe(|| { let d = with_range!(*rg, r => v.drain(r)); forget_script!(d, sc, |c| row_of(&c)) }));
                match res { Ok(s) => Ob::Steps(s), Err(_) => Ob::Panic }
            }
        };
        obs.push(ob); lens.push(vec![v.len(); k]);
    }
    Trace { obs, lens }
}

pub struct Cfg { pub name: &'static str, pub ty: &'static str, pub hue: bool, pub nelem: usize, pub alpha: bool,
                 pub run_soa: fn(&[Op]) -> Trace, pub run_vec: fn(&[Op]) -> Trace }
impl Cfg {
    pub fn k(&self) -> usize { self.hue as usize + self.nelem + self.alpha as usize }
    pub fn tag(&self) -> String { format!("{}{}<{}>", self.name, if self.alpha { "+alpha" } else { "" }, self.ty) }
}

/// One colour type: generates `plain` (the colour) and `alpha` (`Alpha<colour, _>`) interpreters from its field list.
macro_rules! soa_type {
    ($m:ident, $name:literal, $t:ty, $C:ident < $($P:ty),* >, hue [$($H:ident)?], elems [$($e:ident),+], phantom [$($ph:ident)?]) => {
        pub mod $m {
            use super::*;
            type T = $t;
            type CI = $C<$($P,)* T>;
            type CV = $C<$($P,)* Vec<T>>;
            type CB = $C<$($P,)* Box<[T]>>;
            type CA<const N: usize> = $C<$($P,)* [T; N]>;
            const NE: usize = [$(stringify!($e)),+].len();
            const HUE: bool = [$(stringify!($H),)? ""].len() == 2;
            fn mk_c(it: &mut dyn Iterator<Item = u64>) -> CI {
                $C { $(hue: $H::new(T::fb(it.next().unwrap())),)? $($e: T::fb(it.next().unwrap()),)+ $($ph: PhantomData,)? }
            }
            fn row_c(c: &CI, r: &mut Row) { $(r.push($H::into_inner(c.hue).tb());)? $(r.push(c.$e.tb());)+ }
            fn lens_c(v: &CV, r: &mut Vec<usize>) { $(r.push({ let _ = stringify!($H); v.hue.iter().len() });)? $(r.push(v.$e.len());)+ }
            fn box_c(v: &CV) -> CB { $C { $(hue: $H::from(v.hue.clone().into_inner().into_boxed_slice()),)? $($e: v.$e.clone().into_boxed_slice(),)+ $($ph: PhantomData,)? } }
            fn unbox_c(b: CB) -> CV { $C { $(hue: $H::from(b.hue.into_inner().into_vec()),)? $($e: b.$e.into_vec(),)+ $($ph: PhantomData,)? } }
            fn arr_c<const N: usize>(v: &CV) -> CA<N> { $C { $(hue: $H::from(<[T; N]>::try_from(&v.hue.clone().into_inner()[..]).unwrap()),)? $($e: <[T; N]>::try_from(&v.$e[..]).unwrap(),)+ $($ph: PhantomData,)? } }
            fn unarr_c<const N: usize>(a: CA<N>) -> CV { $C { $(hue: $H::from(a.hue.into_inner().to_vec()),)? $($e: a.$e.to_vec(),)+ $($ph: PhantomData,)? } }
            pub mod plain {
                use super::*;
                type V = CV; type I = CI;
                const K: usize = NE + HUE as usize;
                fn mk(r: &Row) -> I { mk_c(&mut r.iter().copied()) }
                fn row_of(c: &I) -> Row { let mut r = vec![]; row_c(c, &mut r); r }
                fn col_lens(v: &V) -> Vec<usize> { let mut r = vec![]; lens_c(v, &mut r); r }
                fn to_box(v: &V) -> CB { box_c(v) }
                fn from_box(b: CB) -> V { unbox_c(b) }
                fn to_arr<const N: usize>(v: &V) -> CA<N> { arr_c::<N>(v) }
                fn from_arr<const N: usize>(a: CA<N>) -> V { unarr_c::<N>(a) }
                interp!();
            }
            pub mod alpha {
                use super::*;
                type V = Alpha<CV, Vec<T>>; type I = Alpha<CI, T>;
                const K: usize = NE + HUE as usize + 1;
                fn mk(r: &Row) -> I { let mut it = r.iter().copied(); let color = mk_c(&mut it); Alpha { color, alpha: T::fb(it.next().unwrap()) } }
                fn row_of(c: &I) -> Row { let mut r = vec![]; row_c(&c.color, &mut r); r.push(c.alpha.tb()); r }
                fn col_lens(v: &V) -> Vec<usize> { let mut r = vec![]; lens_c(&v.color, &mut r); r.push(v.alpha.len()); r }
                fn to_box(v: &V) -> Alpha<CB, Box<[T]>> { Alpha { color: box_c(&v.color), alpha: v.alpha.clone().into_boxed_slice() } }
                fn from_box(b: Alpha<CB, Box<[T]>>) -> V { Alpha { color: unbox_c(b.color), alpha: b.alpha.into_vec() } }
                fn to_arr<const N: usize>(v: &V) -> Alpha<CA<N>, [T; N]> { Alpha { color: arr_c::<N>(&v.color), alpha: <[T; N]>::try_from(&v.alpha[..]).unwrap() } }
                fn from_arr<const N: usize>(a: Alpha<CA<N>, [T; N]>) -> V { Alpha { color: unarr_c::<N>(a.color), alpha: a.alpha.to_vec() } }
                interp!();
            }
            pub fn cfgs() -> Vec<Cfg> { vec![
                Cfg { name: $name, ty: <T as Comp>::TAG, hue: HUE, nelem: NE, alpha: false, run_soa: plain::run_soa, run_vec: plain::run_vec },
                Cfg { name: $name, ty: <T as Comp>::TAG, hue: HUE, nelem: NE, alpha: true, run_soa: alpha::run_soa, run_vec: alpha::run_vec } ] }
        }
    };
}

soa_type!(rgb32, "Rgb", f32, Rgb<Srgb>, hue [], elems [red, green, blue], phantom [standard]);
soa_type!(rgb64, "Rgb", f64, Rgb<Srgb>, hue [], elems [red, green, blue], phantom [standard]);
soa_type!(rgb8, "Rgb", u8, Rgb<Srgb>, hue [], elems [red, green, blue], phantom [standard]);
soa_type!(luma32, "Luma", f32, Luma<Srgb>, hue [], elems [luma], phantom [standard]);
soa_type!(luma16, "Luma", u16, Luma<Srgb>, hue [], elems [luma], phantom [standard]);
soa_type!(hsl32, "Hsl", f32, Hsl<Srgb>, hue [RgbHue], elems [saturation, lightness], phantom [standard]);
soa_type!(hsv32, "Hsv", f32, Hsv<Srgb>, hue [RgbHue], elems [saturation, value], phantom [standard]);
soa_type!(hsv64, "Hsv", f64, Hsv<Srgb>, hue [RgbHue], elems [saturation, value], phantom [standard]);
soa_type!(hwb32, "Hwb", f32, Hwb<Srgb>, hue [RgbHue], elems [whiteness, blackness], phantom [standard]);
soa_type!(lab32, "Lab", f32, Lab<D65>, hue [], elems [l, a, b], phantom [white_point]);
soa_type!(lch32, "Lch", f32, Lch<D65>, hue [LabHue], elems [l, chroma], phantom [white_point]);
soa_type!(lch64, "Lch", f64, Lch<D65>, hue [LabHue], elems [l, chroma], phantom [white_point]);
soa_type!(luv32, "Luv", f32, Luv<D65>, hue [], elems [l, u, v], phantom [white_point]);
soa_type!(lchuv32, "Lchuv", f32, Lchuv<D65>, hue [LuvHue], elems [l, chroma], phantom [white_point]);
soa_type!(hsluv32, "Hsluv", f32, Hsluv<D65>, hue [LuvHue], elems [saturation, l], phantom [white_point]);
soa_type!(xyz32, "Xyz", f32, Xyz<D65>, hue [], elems [x, y, z], phantom [white_point]);
soa_type!(yxy32, "Yxy", f32, Yxy<D65>, hue [], elems [x, y, luma], phantom [white_point]);
soa_type!(lms32, "Lms", f32, Lms<()>, hue [], elems [long, medium, short], phantom [meta]);
soa_type!(oklab32, "Oklab", f32, Oklab<>, hue [], elems [l, a, b], phantom []);
soa_type!(oklch32, "Oklch", f32, Oklch<>, hue [OklabHue], elems [l, chroma], phantom []);
soa_type!(oklch64, "Oklch", f64, Oklch<>, hue [OklabHue], elems [l, chroma], phantom []);
soa_type!(okhsl32, "Okhsl", f32, Okhsl<>, hue [OklabHue], elems [saturation, lightness], phantom []);
soa_type!(okhsv32, "Okhsv", f32, Okhsv<>, hue [OklabHue], elems [saturation, value], phantom []);
soa_type!(okhwb32, "Okhwb", f32, Okhwb<>, hue [OklabHue], elems [whiteness, blackness], phantom []);
soa_type!(jab32, "Cam16UcsJab", f32, Cam16UcsJab<>, hue [], elems [lightness, a, b], phantom []);
soa_type!(jmh32, "Cam16UcsJmh", f32, Cam16UcsJmh<>, hue [Cam16Hue], elems [lightness, colorfulness], phantom []);
soa_type!(cjch32, "Cam16Jch", f32, Cam16Jch<>, hue [Cam16Hue], elems [lightness, chroma], phantom []);
soa_type!(cjmh32, "Cam16Jmh", f32, Cam16Jmh<>, hue [Cam16Hue], elems [lightness, colorfulness], phantom []);
soa_type!(cjsh32, "Cam16Jsh", f32, Cam16Jsh<>, hue [Cam16Hue], elems [lightness, saturation], phantom []);
soa_type!(cqch32, "Cam16Qch", f32, Cam16Qch<>, hue [Cam16Hue], elems [brightness, chroma], phantom []);
soa_type!(cqmh32, "Cam16Qmh", f32, Cam16Qmh<>, hue [Cam16Hue], elems [brightness, colorfulness], phantom []);
soa_type!(cqsh32, "Cam16Qsh", f32, Cam16Qsh<>, hue [Cam16Hue], elems [brightness, saturation], phantom []);

pub fn all_cfgs() -> Vec<Cfg> {
    let mut v = vec![];
    for c in [rgb32::cfgs(), hsv32::cfgs(), lab32::cfgs(), lch32::cfgs(), oklch32::cfgs(), rgb64::cfgs(), rgb8::cfgs(), luma32::cfgs(), luma16::cfgs(),
              hsl32::cfgs(), hsv64::cfgs(), hwb32::cfgs(), lch64::cfgs(), luv32::cfgs(), lchuv32::cfgs(), hsluv32::cfgs(), xyz32::cfgs(), yxy32::cfgs(),
              lms32::cfgs(), oklab32::cfgs(), oklch64::cfgs(), okhsl32::cfgs(), okhsv32::cfgs(), okhwb32::cfgs(), jab32::cfgs(), jmh32::cfgs(),
              cjch32::cfgs(), cjmh32::cfgs(), cjsh32::cfgs(), cqch32::cfgs(), cqmh32::cfgs(), cqsh32::cfgs()] { v.extend(c); }
    v
}

// ------------------------------------------------------------------------------------------------ protocol text
fn val(ty: &str, b: u64) -> String { match ty { "f32" => format!("x{:08x}", b), "f64" => format!("X{:016x}", b), _ => b.to_string() } }
fn row_txt(ty: &str, r: &Row, s: &mut String) { for x in r { s.push(' '); s.push_str(&val(ty, *x)); } }
fn rg_txt(rg: &Rg) -> String { match rg { Rg::R(a, b) => format!("r {} {}", a, b), Rg::F(a) => format!("f {}", a), Rg::T(b) => format!("t {}", b), Rg::U => "u".into(), Rg::I(a, b) => format!("i {} {}", a, b), Rg::TI(b) => format!("ti {}", b) } }
fn script_txt(ty: &str, sc: &[St], s: &mut String) {
    s.push_str(&format!(" {}", sc.len()));
    for st in sc { match st { St::N => s.push_str(" n"), St::B => s.push_str(" b"), St::L => s.push_str(" l"), St::H => s.push_str(" h"), St::C => s.push_str(" c"),
        St::NW(w) => { s.push_str(" N"); row_txt(ty, w, s); } St::BW(w) => { s.push_str(" B"); row_txt(ty, w, s); } } }
}
fn form_txt(f: Form) -> &'static str { match f { Form::V => "@vec", Form::Slice => "@slice", Form::MutSlice => "@mutslice", Form::Boxed => "@box", Form::Arr => "@arr" } }
pub fn op_txt(ty: &str, op: &Op, s: &mut String) {
    if !s.is_empty() { s.push(' '); }
    match op {
        Op::Push(r) => { s.push_str("push"); row_txt(ty, r, s); }
        Op::Pop => s.push_str("pop"),
        Op::Extend(rs) => { s.push_str(&format!("extend {}", rs.len())); for r in rs { row_txt(ty, r, s); } }
        Op::Collect(rs) => { s.push_str(&format!("collect {}", rs.len())); for r in rs { row_txt(ty, r, s); } }
        Op::New(c) => s.push_str(&format!("new {}", c)),
        Op::Clear => s.push_str("clear"),
        Op::Drain(rg, sc) => { s.push_str(&format!("drain {}", rg_txt(rg))); script_txt(ty, sc, s); }
        Op::Get(i, f) => s.push_str(&format!("get{} {}", form_txt(*f), i)),
        Op::GetR(rg, sc, f) => { s.push_str(&format!("getr{} {}", form_txt(*f), rg_txt(rg))); script_txt(ty, sc, s); }
        Op::GetM(i, w, f) => { s.push_str(&format!("getm{} {}", form_txt(*f), i)); row_txt(ty, w, s); }
        Op::GetMR(rg, sc, f) => { s.push_str(&format!("getmr{} {}", form_txt(*f), rg_txt(rg))); script_txt(ty, sc, s); }
        Op::Iter(sc, f) => { s.push_str(&format!("iter{}", form_txt(*f))); script_txt(ty, sc, s); }
        Op::IterM(sc, f) => { s.push_str(&format!("iterm{}", form_txt(*f))); script_txt(ty, sc, s); }
        Op::Rev(f) => s.push_str(&format!("rev{}", form_txt(*f))),
        Op::Into(f) => s.push_str(&format!("into{}", form_txt(*f))),
        Op::Len => s.push_str("len"),
        Op::Forget(rg, sc) => { s.push_str(&format!("forget {}", rg_txt(rg))); script_txt(ty, sc, s); }
    }
}
fn item_txt(ty: &str, o: &Option<Row>, s: &mut String) { match o { None => s.push_str(" Z"), Some(r) => { s.push_str(" S"); row_txt(ty, r, s); } } }
pub fn ob_txt(ty: &str, ob: &Ob, s: &mut String) {
    match ob {
        Ob::Unit => s.push_str(" u"),
        Ob::Item(o) => item_txt(ty, o, s),
        Ob::Steps(l) => { s.push_str(&format!(" T {}", l.len())); for x in l { match x { SOb::Item(o) => item_txt(ty, o, s), SOb::Len(n) => s.push_str(&format!(" # {}", n)),
            SOb::Hint(lo, hi) => s.push_str(&format!(" H {} {}", lo, hi.map_or("-".to_string(), |h| h.to_string()))), SOb::Count(n) => s.push_str(&format!(" C {}", n)) } } }
        Ob::NoSlice => s.push_str(" N"),
        Ob::Panic => s.push_str(" P"),
        Ob::Lens(n, cols) => { s.push_str(&format!(" Ln {}", n)); for c in cols { s.push_str(&format!(" {}", c)); } }
    }
}
pub fn hist_txt(ty: &str, ops: &[Op]) -> String { let mut s = String::new(); for op in ops { op_txt(ty, op, &mut s); } s }

// ------------------------------------------------------------------------------------------------ generators
/// what `slice::get(range)` denotes on a length (used only to steer the generator, never as the oracle)
fn resolve(len: usize, rg: Rg) -> Option<(usize, usize)> {
    let chk = |a: usize, b: usize| if a <= b && b <= len { Some((a, b)) } else { None };
    match rg { Rg::R(a, b) => chk(a, b), Rg::F(a) => chk(a, len), Rg::T(b) => chk(0, b), Rg::U => Some((0, len)),
        Rg::I(a, b) => if b == usize::MAX { None } else { chk(a, b + 1) }, Rg::TI(b) => if b == usize::MAX { None } else { chk(0, b + 1) } }
}

struct Gen { rng: Rng, k: usize, ty: &'static str, next_id: u64 }
impl Gen {
    fn value(&mut self, j: usize) -> u64 {
        // mostly distinct, readable values (so that order and column mix-ups show); sometimes special bit patterns
        let id = self.next_id;
        let special = self.rng.below(12) == 0;
        match self.ty {
            "f32" => if special { *self.rng.pick(&[0x7fc00000u64, 0xffc00001, 0x80000000, 0x7f800000, 0xff800000, 0x00000001, 0x7f7fffff, 0x43b40000, 0xc3b40000, 0x44340000]) } else { ((id * 8 + j as u64) as f32 * 0.5).to_bits() as u64 },
            "f64" => if special { *self.rng.pick(&[0x7ff8000000000000u64, 0xfff8000000000001, 0x8000000000000000, 0x7ff0000000000000, 0x0000000000000001, 0x4076800000000000, 0xc076800000000000]) } else { ((id * 8 + j as u64) as f64 * 0.5).to_bits() },
            "u8" => if special { *self.rng.pick(&[0u64, 255]) } else { (id * 8 + j as u64) % 256 },
            _ => if special { *self.rng.pick(&[0u64, 65535]) } else { (id * 8 + j as u64) % 65536 },
        }
    }
    fn row(&mut self) -> Row { self.next_id += 1; (0..self.k).map(|j| self.value(j)).collect() }
    fn rows(&mut self, max: u64) -> Vec<Row> { let n = match self.rng.below(8) { 0 => 0, 1 => 1, 2 => 3, _ => self.rng.below(max + 1) }; (0..n).map(|_| self.row()).collect() }
    fn index(&mut self, len: usize) -> usize {
        match self.rng.below(10) { 0 => 0, 1 => len, 2 => len.wrapping_sub(1), 3 => len + 1 + self.rng.below(3) as usize, 4 => usize::MAX, _ => self.rng.below(len as u64 + 1) as usize }
    }
    fn bound(&mut self, len: usize) -> usize {
        match self.rng.below(12) { 0 => 0, 1 | 2 => len, 3 => len + 1, 4 => len.saturating_sub(1), 5 => len + 2 + self.rng.below(5) as usize, 6 => if self.rng.below(3) == 0 { usize::MAX } else { len }, _ => self.rng.below(len as u64 + 1) as usize }
    }
    fn range(&mut self, len: usize) -> Rg {
        // two thirds valid windows of the current length; the rest from the edge stream (inverted, out-of-range, usize::MAX ends)
        let (a, b) = if self.rng.below(3) != 0 { let b = self.rng.below(len as u64 + 1) as usize; let a = if self.rng.below(4) == 0 { b } else { self.rng.below(b as u64 + 1) as usize }; (a, b) }
                     else { let (a, b) = (self.bound(len), self.bound(len)); if a > b && self.rng.below(3) != 0 { (b, a) } else { (a, b) } };
        match self.rng.below(9) { 0 | 1 | 2 => Rg::R(a, b), 3 => Rg::F(a), 4 => Rg::T(b), 5 => Rg::U, 6 | 7 => Rg::I(a, if b > 0 && self.rng.below(2) == 0 { b - 1 } else { b }), _ => Rg::TI(b) }
    }
    /// `count`: whether the script may end in a `count()` (which consumes the iterator)
    fn script(&mut self, width: usize, write: bool, count: bool) -> Vec<St> {
        let n = match self.rng.below(8) { 0 => 0, 1 => width + 1, 2 => width + 3, 3 => 1, _ => self.rng.below(width as u64 + 3) as usize };
        let mode = self.rng.below(4); // 0: forward, 1: backward, 2/3: mixed
        let mut sc: Vec<St> = (0..n).map(|_| {
            let back = match mode { 0 => false, 1 => true, _ => self.rng.below(2) == 0 };
            match self.rng.below(14) { 0 | 1 => return St::L, 2 | 3 => return St::H, _ => {} }
            if write && self.rng.below(3) != 0 { let w = self.row(); if back { St::BW(w) } else { St::NW(w) } }
            else if back { St::B } else { St::N }
        }).collect();
        if count && self.rng.below(4) == 0 { sc.push(St::C); }
        sc
    }
    fn form(&mut self, len: usize, allowed: &[Form]) -> Form {
        if len == 3 && allowed.contains(&Form::Arr) && self.rng.below(3) == 0 { return Form::Arr; }
        let f = *self.rng.pick(allowed); if f == Form::Arr && len != 3 { Form::V } else { f }
    }
    /// one operation, given the current length; returns the op and the length after it
    fn op(&mut self, len: usize) -> (Op, usize) {
        use Form::*;
        let c = self.rng.below(100);
        let width = |r: Option<(usize, usize)>| r.map_or(0, |(a, b)| b - a);
        match c {
            0..=19 => (Op::Push(self.row()), len + 1),
            20..=25 => (Op::Pop, len.saturating_sub(1)),
            26..=33 => { let rs = self.rows(6); let n = rs.len(); (Op::Extend(rs), len + n) }
            34..=35 => { let rs = self.rows(8); let n = rs.len(); (Op::Collect(rs), n) }
            36 => if self.rng.below(2) == 0 { (Op::New(self.rng.below(20) as usize), 0) } else { (Op::Clear, 0) },
            37 => (Op::Len, len),
            38..=46 => { let rg = self.range(len); let r = resolve(len, rg); let sc = self.script(width(r), false, true); (Op::Drain(rg, sc), r.map_or(len, |(a, b)| len - (b - a))) }
            47..=49 => { let rg = self.range(len); let r = resolve(len, rg); let sc = self.script(width(r), false, false); (Op::Forget(rg, sc), r.map_or(len, |(a, _)| a)) }
            50..=57 => { let f = self.form(len, &[V, V, Slice, MutSlice, Boxed, Arr]); (Op::Get(self.index(len), f), len) }
            58..=64 => { let rg = self.range(len); let sc = self.script(width(resolve(len, rg)), false, true); let f = self.form(len, &[V, V, Slice, Boxed, Arr]); (Op::GetR(rg, sc, f), len) }
            65..=71 => { let f = self.form(len, &[V, V, MutSlice, Boxed, Arr]); (Op::GetM(self.index(len), self.row(), f), len) }
            72..=77 => { let rg = self.range(len); let sc = self.script(width(resolve(len, rg)), true, true); let f = self.form(len, &[V, V, MutSlice, Boxed, Arr]); (Op::GetMR(rg, sc, f), len) }
            78..=83 => { let sc = self.script(len, false, true); let f = self.form(len, &[V, V, Slice, MutSlice, Boxed, Arr]); (Op::Iter(sc, f), len) }
            84..=89 => { let sc = self.script(len, true, true); let f = self.form(len, &[V, V, MutSlice, Boxed, Arr]); (Op::IterM(sc, f), len) }
            90..=92 => (Op::Rev(self.form(len, &[V, Slice, Boxed, Arr])), len),
            93..=95 => (Op::Into(self.form(len, &[V, Slice, MutSlice, Arr])), len),
            _ => (Op::Len, len),
        }
    }
    fn history(&mut self, n: usize) -> Vec<Op> {
        let mut len = 0usize; let mut ops = vec![];
        for _ in 0..n { let (op, l) = self.op(len); ops.push(op); len = l; }
        ops.push(Op::Len); ops.push(Op::Into(Form::V));
        ops
    }
}

/// the boundary stream: the situations the property names, on every configuration
fn structured(g: &mut Gen) -> Vec<Vec<Op>> {
    use Form::*;
    let mut hs: Vec<Vec<Op>> = vec![];
    let fill = |g: &mut Gen, n: usize| -> Op { Op::Extend((0..n).map(|_| g.row()).collect()) };
    // partially consumed drain followed by push
    for (rg, sc) in [(Rg::R(1, 4), vec![St::N]), (Rg::R(1, 4), vec![]), (Rg::I(0, 2), vec![St::B, St::L]), (Rg::F(2), vec![St::N, St::B, St::N, St::N, St::N]), (Rg::U, vec![St::L, St::N]), (Rg::TI(4), vec![St::B]), (Rg::T(0), vec![St::N])] {
        hs.push(vec![fill(g, 5), Op::Drain(rg, sc), Op::Len, Op::Push(g.row()), Op::Len, Op::Rev(V), Op::Into(V)]);
    }
    // size_hint / len / count after every mixture of next / next_back, on every kind of iterator
    for sc in [vec![St::H, St::L, St::C], vec![St::N, St::H, St::B, St::H, St::L, St::C], vec![St::B, St::B, St::H, St::N, St::N, St::H, St::N, St::H, St::C],
               vec![St::N, St::N, St::N, St::N, St::N, St::H, St::N, St::H, St::B, St::L, St::C], vec![St::H]] {
        let wsc: Vec<St> = sc.iter().map(|s| match s { St::N => St::NW(g.row()), St::B => St::BW(g.row()), x => x.clone() }).collect();
        hs.push(vec![fill(g, 4), Op::Iter(sc.clone(), V), Op::Iter(sc.clone(), Slice), Op::Iter(sc.clone(), Boxed), Op::IterM(wsc.clone(), V), Op::IterM(wsc.clone(), MutSlice),
                     Op::GetR(Rg::R(1, 4), sc.clone(), V), Op::GetMR(Rg::F(1), wsc, V), Op::Into(V), Op::Drain(Rg::R(0, 3), sc.clone()), Op::Len, Op::Into(V)]);
    }
    // a leaked (mem::forget) drain: the range and the tail are lost, every column alike; then the collection is used on
    for (rg, sc) in [(Rg::R(1, 3), vec![St::N]), (Rg::R(1, 3), vec![]), (Rg::U, vec![St::H, St::N, St::B]), (Rg::F(5), vec![St::N]), (Rg::T(0), vec![]), (Rg::I(2, 4), vec![St::B, St::B, St::B, St::B, St::L]),
                     (Rg::R(3, 2), vec![St::N]), (Rg::T(6), vec![]), (Rg::TI(usize::MAX), vec![])] {
        hs.push(vec![fill(g, 5), Op::Forget(rg, sc), Op::Len, Op::Into(V), Op::Push(g.row()), Op::Len, Op::Rev(V), Op::Pop, Op::Into(V)]);
    }
    // every range kind around every edge, for drain, get and get_mut
    for n in [0usize, 1, 3] {
        let mut edges = vec![0usize, 1, n, n + 1, n.saturating_sub(1), usize::MAX, usize::MAX - 1]; edges.sort(); edges.dedup();
        let mut rgs = vec![Rg::U];
        for &a in &edges { rgs.push(Rg::F(a)); rgs.push(Rg::T(a)); rgs.push(Rg::TI(a)); for &b in &edges { rgs.push(Rg::R(a, b)); rgs.push(Rg::I(a, b)); } }
        for chunk in rgs.chunks(6) {
            let mut h = vec![];
            for rg in chunk {
                h.push(Op::Collect((0..n).map(|_| g.row()).collect()));
                h.push(Op::GetR(*rg, vec![St::L, St::N, St::B, St::N, St::N], if n == 3 { Arr } else { Slice }));
                h.push(Op::GetMR(*rg, vec![St::NW(g.row()), St::L, St::BW(g.row()), St::N], if n == 3 { Arr } else { MutSlice }));
                h.push(Op::Into(V));
                h.push(Op::Drain(*rg, vec![St::N, St::L]));
                h.push(Op::Len); h.push(Op::Into(V));
                h.push(Op::Collect((0..n).map(|_| g.row()).collect()));
                h.push(Op::Forget(*rg, vec![St::H, St::B]));
                h.push(Op::Len); h.push(Op::Into(V));
            }
            hs.push(h);
        }
    }
    // indexed reads and writes in and out of range, on every form
    for f in [V, Slice, MutSlice, Boxed, Arr] {
        let mut h = vec![fill(g, 3)];
        for i in [0usize, 1, 2, 3, 4, usize::MAX] { h.push(Op::Get(i, f)); h.push(Op::GetM(i, g.row(), if f == Slice { V } else { f })); }
        h.push(Op::Iter(vec![St::L, St::N, St::B, St::L, St::N, St::N, St::B, St::L], f));
        h.push(Op::IterM(vec![St::NW(g.row()), St::BW(g.row()), St::L, St::NW(g.row()), St::N, St::B], if f == Slice { V } else { f }));
        h.push(Op::Rev(if f == MutSlice { V } else { f })); h.push(Op::Into(if f == Boxed { V } else { f })); h.push(Op::Len);
        hs.push(h);
    }
    // pops and reads on empty collections, clear/new/collect
    hs.push(vec![Op::Pop, Op::Len, Op::Get(0, V), Op::Rev(V), Op::Into(V), Op::Drain(Rg::U, vec![St::N, St::B, St::L]), Op::Push(g.row()), Op::Pop, Op::Pop, Op::Len,
                 Op::Collect(vec![]), Op::Len, fill(g, 2), Op::Clear, Op::Len, Op::Pop, fill(g, 2), Op::New(7), Op::Len, Op::Into(V)]);
    hs
}

/// every history of length <= `depth` over a small alphabet (exhaustive bounded enumeration), each followed by len + contents
fn alphabet(g: &mut Gen) -> Vec<Op> {
    use Form::*;
    vec![Op::Push(g.row()), Op::Push(g.row()), Op::Pop, Op::Extend(vec![g.row(), g.row()]), Op::Clear, Op::Collect(vec![g.row()]),
         Op::Drain(Rg::R(0, 1), vec![]), Op::Drain(Rg::R(1, 2), vec![St::N]), Op::Drain(Rg::F(1), vec![St::B]), Op::Drain(Rg::I(1, 0), vec![St::N]), Op::Drain(Rg::R(2, 1), vec![]), Op::Drain(Rg::TI(1), vec![St::L, St::N, St::C]),
         Op::Get(0, V), Op::Get(1, Slice), Op::GetM(0, g.row(), V), Op::GetM(1, g.row(), MutSlice),
         Op::GetR(Rg::R(0, 2), vec![St::N, St::B], V), Op::GetMR(Rg::F(1), vec![St::BW(g.row())], V),
         Op::Iter(vec![St::B, St::H, St::N, St::L, St::C], V), Op::IterM(vec![St::NW(g.row()), St::BW(g.row()), St::H], V), Op::Rev(V),
         Op::Forget(Rg::R(1, 2), vec![St::N])]
}

// ------------------------------------------------------------------------------------------------ oracle
/// the property's own predicate on one history; returns the violated clause, if any
fn violated(cfg: &Cfg, ops: &[Op]) -> Option<(&'static str, String)> {
    let a = catch_unwind(AssertUnwindSafe(|| (cfg.run_soa)(ops)));
    let b = (cfg.run_vec)(ops);
    let a = match a { Ok(t) => t, Err(_) => return Some(("no-unexpected-panic", "the struct-of-arrays collection panicked outside drain".into())) };
    for i in 0..ops.len() {
        if a.obs[i] != b.obs[i] {
            let (mut x, mut y, mut o) = (String::new(), String::new(), String::new());
            ob_txt(cfg.ty, &a.obs[i], &mut x); ob_txt(cfg.ty, &b.obs[i], &mut y); op_txt(cfg.ty, &ops[i], &mut o);
            return Some(("same-observations", format!("op #{} `{}`: struct-of-arrays gives{} but Vec<Color> gives{}", i, o, x, y)));
        }
        if a.lens[i].iter().any(|&l| l != b.lens[i][0]) {
            let mut o = String::new(); op_txt(cfg.ty, &ops[i], &mut o);
            return Some(("equal-lengths", format!("after op #{} `{}`: component lengths {:?}, Vec<Color> length {}", i, o, a.lens[i], b.lens[i][0])));
        }
    }
    None
}

/// shrink a failing history by deleting operations (and script steps) while it keeps failing
fn shrink(cfg: &Cfg, ops: &[Op]) -> Vec<Op> {
    let mut cur = ops.to_vec();
    loop {
        let mut progressed = false;
        let mut i = 0;
        while i < cur.len() {
            let mut cand = cur.clone(); cand.remove(i);
            if violated(cfg, &cand).is_some() { cur = cand; progressed = true; } else { i += 1; }
        }
        // shorten scripts and row lists
        for i in 0..cur.len() {
            loop {
                let mut cand = cur.clone();
                let shorter = match &mut cand[i] {
                    Op::Drain(_, sc) | Op::Forget(_, sc) | Op::GetR(_, sc, _) | Op::GetMR(_, sc, _) | Op::Iter(sc, _) | Op::IterM(sc, _) => sc.pop().is_some(),
                    Op::Extend(rs) | Op::Collect(rs) => rs.pop().is_some(),
                    _ => false };
                if shorter && violated(cfg, &cand).is_some() { cur = cand; progressed = true; } else { break; }
            }
        }
        if !progressed { break; }
    }
    cur
}

fn classify(out: &mut Out, ops: &[Op], tr: &Trace) {
    for (op, ob) in ops.iter().zip(tr.obs.iter()) {
        let name = match op { Op::Push(_) => "push", Op::Pop => "pop", Op::Extend(_) => "extend", Op::Collect(_) => "collect", Op::New(_) => "with_capacity", Op::Clear => "clear",
            Op::Drain(..) => "drain", Op::Get(..) => "get", Op::GetR(..) => "get-range", Op::GetM(..) => "get_mut", Op::GetMR(..) => "get_mut-range", Op::Iter(..) => "iter",
            Op::IterM(..) => "iter_mut", Op::Rev(_) => "rev", Op::Into(_) => "into_iter", Op::Len => "len", Op::Forget(..) => "forget-drain" };
        let outcome = match ob { Ob::Unit => "", Ob::Item(None) => ":none", Ob::Item(Some(_)) => ":some", Ob::NoSlice => ":none", Ob::Panic => ":panic", Ob::Lens(..) => "",
            Ob::Steps(l) => if l.is_empty() { ":unconsumed" } else if matches!(l.last(), Some(SOb::Item(None))) { ":exhausted" } else { ":partial" } };
        out.count(&format!("cls:{}{}", name, outcome));
        if let Ob::Steps(l) = ob { for x in l { match x { SOb::Hint(..) => out.count("cls:size_hint"), SOb::Count(_) => out.count("cls:count"), SOb::Len(_) => out.count("cls:iter-len"), _ => {} } } }
        match op { Op::Get(_, f) | Op::GetR(_, _, f) | Op::GetM(_, _, f) | Op::GetMR(_, _, f) | Op::Iter(_, f) | Op::IterM(_, f) | Op::Rev(f) | Op::Into(f) => out.count(&format!("cls:form{}", form_txt(*f))), _ => {} }
    }
}

fn run_history(out: &mut Out, cfg: &Cfg, ops: &[Op], dir: &str, n_shrunk: &mut usize) {
    let clause_cfg = cfg.tag();
    let v = violated(cfg, ops);
    out.oracle_evals += ops.len() as u64 * 2 - 1; // one observation + one length comparison per operation (check() below adds the last)
    match &v {
        None => out.check(true, "history", || String::new()),
        Some((clause, _)) => {
            let small = shrink(cfg, ops);
            let (c2, d2) = violated(cfg, &small).unwrap_or((clause, "shrunk history no longer fails".into()));
            let text = hist_txt(cfg.ty, &small);
            if *n_shrunk < 20 { use std::io::Write; if let Ok(mut f) = std::fs::OpenOptions::new().create(true).append(true).open(format!("{}/C18.shrunk", dir)) { let _ = writeln!(f, "soa {} {} {} {} {} | {} |  # {}: {}", cfg.name, cfg.ty, cfg.hue as u8, cfg.nelem, cfg.alpha as u8, text, c2, d2); } *n_shrunk += 1; }
            out.check(false, &format!("{}:{}", c2, clause_cfg), || format!("{} ;; minimal history ({} ops): {}", d2, small.len(), text));
        }
    }
    // the protocol line carries what the struct-of-arrays side did
    if let Ok(tr) = catch_unwind(AssertUnwindSafe(|| (cfg.run_soa)(ops))) {
        classify(out, ops, &tr);
        let mut line = format!("soa {} {} {} {} {} | {} |", cfg.name, cfg.ty, cfg.hue as u8, cfg.nelem, cfg.alpha as u8, hist_txt(cfg.ty, ops));
        for ob in &tr.obs { ob_txt(cfg.ty, ob, &mut line); }
        out.case(&line);
        out.maxi("history-length", ops.len() as f64);
        out.maxi("collection-length", tr.lens.iter().map(|l| l[0]).max().unwrap_or(0) as f64);
    }
}


/// `Alpha<Color<Vec<T>>, Vec<A>>` with an alpha component type DIFFERENT from the colour's (f32 colour, u8 alpha): the collection methods
/// are generic in `A`; random histories against `Vec<Alpha<Color<T>, A>>`.  Items are added with `extend` / `collect` only (the
/// same-type configurations above drive `push` and `with_capacity`), so that this section depends on nothing but the methods it judges.
macro_rules! mixed_alpha { ($out:expr, $rng:expr, $n_hist:expr, $name:expr, $soa:ty, $item:ty, $mk:expr, $lens:expr) => {{
    let mk: fn(f32, u8) -> $item = $mk; let lens: fn(&$soa) -> Vec<usize> = $lens;
    for _ in 0..$n_hist {
        let mut next = 1u32;
        let mut fresh = |n: usize| -> Vec<$item> { (0..n).map(|_| { next += 1; mk(next as f32 * 0.25, (next * 7 % 251) as u8) }).collect() };
        let init = fresh($rng.below(6) as usize);
        let mut v: Vec<$item> = init.clone(); let mut c: $soa = init.into_iter().collect();
        let mut hist = vec![format!("collect {}", v.len())];
        for _ in 0..(3 + $rng.below(12)) {
            let op = $rng.below(6);
            let (ov, oc): (String, String) = match op {
                0 => { let xs = fresh($rng.below(4) as usize); hist.push(format!("extend {}", xs.len())); v.extend(xs.iter().cloned()); c.extend(xs.into_iter()); (String::new(), String::new()) }
                1 => { hist.push("pop".into()); (format!("{:?}", v.pop()), format!("{:?}", c.pop())) }
                2 => { hist.push("clear".into()); v.clear(); c.clear(); (String::new(), String::new()) }
                3 => { let n = v.len(); let a = $rng.below(n as u64 + 2) as usize; let b = a + $rng.below(4) as usize; hist.push(format!("drain {}..{}", a, b));
                       let rv = catch_unwind(AssertUnwindSafe(|| v.drain(a..b).collect::<Vec<_>>())); let rc = catch_unwind(AssertUnwindSafe(|| c.drain(a..b).collect::<Vec<_>>()));
                       (format!("{:?}", rv.ok()), format!("{:?}", rc.ok())) }
                4 => { let i = $rng.below(v.len() as u64 + 2) as usize; hist.push(format!("get {}", i)); (format!("{:?}", v.get(i).cloned()), format!("{:?}", c.get(i).map(|x| x.copied()))) }
                // `iter()` / `into_iter()` are only offered when colour and alpha share the component type (for mixed types `.iter()` resolves
                // through `Deref` to the colour's iterator and yields colours without alpha: an API observation, outside the forms offered);
                // the whole contents are read through `get`, which is generic in the alpha type
                _ => { hist.push("get-all".into()); let n = v.len(); (format!("{:?}", (0..n + 1).map(|i| v.get(i).cloned()).collect::<Vec<_>>()), format!("{:?}", (0..n + 1).map(|i| c.get(i).map(|x| x.copied())).collect::<Vec<_>>())) }
            };
            let l = lens(&c);
            let ok = ov == oc && l.iter().all(|&x| x == v.len());
            $out.check(ok, &format!("same-observations:mixed-alpha:{}", $name), || format!("history [{}]: Vec<Alpha<_, u8>> gives {} (len {}), struct-of-arrays gives {} (component lengths {:?})", hist.join("; "), ov, v.len(), oc, l));
            if !ok { break; }
        }
        $out.count("cls:cfg:mixed-alpha");
    }
}} }

pub fn run(tier: &str, seed: u64, dir: &str) {
    let mut out = Out::new("C18", dir);
    let _ = std::fs::remove_file(format!("{}/C18.shrunk", dir));
    let thorough = tier == "thorough";
    let cfgs = all_cfgs();
    let mut n_shrunk = 0usize;
    // the covered types, for the cross-check with the extracted macro-invocation table
    let mut names: Vec<&str> = cfgs.iter().map(|c| c.name).collect(); names.sort(); names.dedup();
    out.case(&format!("soatypes | {} |", names.join(" ")));
    let mut rng = Rng::new(seed);
    for (ci, cfg) in cfgs.iter().enumerate() {
        out.count(&format!("cls:cfg:{}{}{}", if cfg.hue { "hue" } else { "nohue" }, if cfg.alpha { "+alpha" } else { "" }, format!(":{}", cfg.ty)));
        let mut g = Gen { rng: Rng::new(rng.next()), k: cfg.k(), ty: cfg.ty, next_id: 0 };
        for h in structured(&mut g) { run_history(&mut out, cfg, &h, dir, &mut n_shrunk); }
        // random histories: many short, some long (<= 200 operations)
        let primary = ci < 10; // Rgb, Hsv, Lab, Lch, Oklch with and without alpha get the larger share
        let n_hist = match (thorough, primary) { (false, true) => 120, (false, false) => 40, (true, true) => 2500, (true, false) => 600 };
        for i in 0..n_hist {
            let n = match i % 10 { 0 => 200, 1 | 2 => 60, 3 => 3, _ => 5 + g.rng.below(30) as usize };
            let h = g.history(n);
            run_history(&mut out, cfg, &h, dir, &mut n_shrunk);
        }
    }
    // alpha component type different from the colour's
    {
        let n = if thorough { 20000 } else { 1500 };
        mixed_alpha!(out, rng, n, "Hsl<f32>+u8", Alpha<Hsl<Srgb, Vec<f32>>, Vec<u8>>, Alpha<Hsl<Srgb, f32>, u8>,
            |x, a| Alpha { color: Hsl::new_srgb(x * 10.0, x, x + 0.5), alpha: a }, |c| vec![c.color.hue.iter().len(), c.color.saturation.len(), c.color.lightness.len(), c.alpha.len()]);
        mixed_alpha!(out, rng, n, "Rgb<f32>+u8", Alpha<Rgb<Srgb, Vec<f32>>, Vec<u8>>, Alpha<Rgb<Srgb, f32>, u8>,
            |x, a| Alpha { color: Rgb::new(x, x + 0.25, x + 0.5), alpha: a }, |c| vec![c.color.red.len(), c.color.green.len(), c.color.blue.len(), c.alpha.len()]);
        mixed_alpha!(out, rng, n, "Lch<f64>+f32", Alpha<Lch<D65, Vec<f64>>, Vec<f32>>, Alpha<Lch<D65, f64>, f32>,
            |x, a| Alpha { color: Lch::new(x as f64, x as f64 + 1.0, x as f64 * 3.0), alpha: a as f32 / 255.0 }, |c| vec![c.color.l.len(), c.color.chroma.len(), c.color.hue.iter().len(), c.alpha.len()]);
    }
    // exhaustive bounded enumeration on a colour without and one with hue and alpha
    let depth = if thorough { 4 } else { 3 };
    let mut n_enum = 0u64;
    for cfg in cfgs.iter().filter(|c| (c.name == "Rgb" && c.ty == "f32" && !c.alpha) || (c.name == "Hsv" && c.ty == "f32" && c.alpha)) {
        let mut g = Gen { rng: Rng::new(rng.next()), k: cfg.k(), ty: cfg.ty, next_id: 0 };
        let alpha = alphabet(&mut g);
        let mut idx = vec![0usize; 0];
        // all words of length 1..=depth, odometer order
        for len in 1..=depth {
            idx.clear(); idx.resize(len, 0);
            loop {
                let mut h: Vec<Op> = idx.iter().map(|&i| alpha[i].clone()).collect();
                h.push(Op::Len); h.push(Op::Into(Form::V));
                // every enumerated history goes through the oracle; the protocol lines are thinned in the deepest layer
                if len < 4 || n_enum % 5 == 0 { run_history(&mut out, cfg, &h, dir, &mut n_shrunk); }
                else { let v = violated(cfg, &h); out.oracle_evals += h.len() as u64 * 2 - 1; if v.is_some() { run_history(&mut out, cfg, &h, dir, &mut n_shrunk); } else { out.check(true, "history", || String::new()); } }
                n_enum += 1;
                let mut p = len; let mut done = true;
                while p > 0 { p -= 1; idx[p] += 1; if idx[p] < alpha.len() { done = false; break; } idx[p] = 0; }
                if done { break; }
            }
        }
    }
    // coverage audit: further type parameters / component types, long extends and collects, the `cloned()` / `as_refs()` read paths (`c18_more.rs`).
    // Called last, so that the case stream above is unchanged.
    crate::c18_more::run_more(&mut out, &mut rng, thorough, dir, &mut n_shrunk);
    let extra = format!("\"exhaustive\":{{\"bounded_histories_enumerated\":{},\"alphabet\":22,\"max_length\":{}}}", n_enum, depth);
    out.finish(dir, &extra);
}

// ------------------------------------------------------------------------------------------------ coverage audit (c18_more.rs)
// Path-based names for the interpreter macros, so that `c18_more.rs` can instantiate further configurations with `soa_type!`.
pub(crate) use {forget_script, get_m, get_mr, get_r, interp, read_script, soa_type, until_none, with_range, write_script};
/// oracle + shrinking + protocol line for one history on one configuration (= `run_history`)
pub(crate) fn audit_history(out: &mut Out, cfg: &Cfg, ops: &[Op], dir: &str, n_shrunk: &mut usize) { run_history(out, cfg, ops, dir, n_shrunk) }
/// the boundary stream and `n_hist` random histories of `run` for one configuration, as lists of operations
pub(crate) fn audit_histories(seed: u64, k: usize, ty: &'static str, n_hist: usize) -> Vec<Vec<Op>> {
    let mut g = Gen { rng: Rng::new(seed), k, ty, next_id: 0 };
    let mut hs = structured(&mut g);
    for i in 0..n_hist { let n = match i % 10 { 0 => 200, 1 | 2 => 60, 3 => 3, _ => 5 + g.rng.below(30) as usize }; hs.push(g.history(n)); }
    hs
}
