//! Shared plumbing: one PRNG state, one text form for numbers, case/oracle sinks.
#![allow(dead_code)]
use std::collections::BTreeMap;
use std::fmt::Write as _;
use std::io::Write;

/// SplitMix64 — every random choice of a run derives from `VERIF_SEED` through one of these.
#[derive(Clone)]
pub struct Rng(pub u64);
impl Rng {
    pub fn new(seed: u64) -> Self { Rng(seed ^ 0x9E37_79B9_7F4A_7C15) }
    pub fn next(&mut self) -> u64 {
        self.0 = self.0.wrapping_add(0x9E37_79B9_7F4A_7C15);
        let mut z = self.0;
        z = (z ^ (z >> 30)).wrapping_mul(0xBF58_476D_1CE4_E5B9);
        z = (z ^ (z >> 27)).wrapping_mul(0x94D0_49BB_1331_11EB);
        z ^ (z >> 31)
    }
    pub fn below(&mut self, n: u64) -> u64 { if n == 0 { 0 } else { self.next() % n } }
    /// uniform in [0,1)
    pub fn unit(&mut self) -> f64 { (self.next() >> 11) as f64 / (1u64 << 53) as f64 }
    pub fn range(&mut self, lo: f64, hi: f64) -> f64 { lo + (hi - lo) * self.unit() }
    pub fn pick<'a, T>(&mut self, xs: &'a [T]) -> &'a T { &xs[self.below(xs.len() as u64) as usize] }
    pub fn chance(&mut self, p: f64) -> bool { self.unit() < p }
    /// mostly a value in [lo,hi]; sometimes exactly an end, an end +- a few ulps, zero, or a tiny value
    pub fn edgy(&mut self, lo: f64, hi: f64) -> f64 {
        match self.below(16) {
            0 => lo,
            1 => hi,
            2 => 0.0f64.max(lo).min(hi),
            3 => lo + (hi - lo) * 1e-9,
            4 => hi - (hi - lo) * 1e-9,
            5 => (lo + hi) / 2.0,
            _ => self.range(lo, hi),
        }
    }
}

pub fn nudge32(x: f32, k: i32) -> f32 {
    if x.is_nan() || k == 0 { return x; }   // k = 0 keeps the value bit for bit (in particular the sign of zero)
    let b = x.to_bits() as i32;
    let m = if b < 0 { i32::MIN.wrapping_sub(b) } else { b }; // monotone integer key
    let m2 = m.wrapping_add(k);
    let b2 = if m2 < 0 { i32::MIN.wrapping_sub(m2) } else { m2 };
    f32::from_bits(b2 as u32)
}
pub fn nudge64(x: f64, k: i64) -> f64 {
    if x.is_nan() || k == 0 { return x; }
    let b = x.to_bits() as i64;
    let m = if b < 0 { i64::MIN.wrapping_sub(b) } else { b };
    let m2 = m.wrapping_add(k);
    let b2 = if m2 < 0 { i64::MIN.wrapping_sub(m2) } else { m2 };
    f64::from_bits(b2 as u64)
}

/// one text form everywhere: floats as bit patterns
pub fn h32(x: f32) -> String { format!("x{:08x}", x.to_bits()) }
pub fn h64(x: f64) -> String { format!("X{:016x}", x.to_bits()) }

pub trait Fl: Copy + PartialOrd + std::fmt::Debug + 'static {
    const TAG: &'static str;
    fn hx(self) -> String;
    fn of(x: f64) -> Self;
    fn to64(self) -> f64;
    fn finite(self) -> bool;
    fn eps() -> f64;
    fn nudge(self, k: i64) -> Self;
    fn bits64(self) -> u64;
}
impl Fl for f32 {
    const TAG: &'static str = "f32";
    fn hx(self) -> String { h32(self) }
    fn of(x: f64) -> Self { x as f32 }
    fn to64(self) -> f64 { self as f64 }
    fn finite(self) -> bool { self.is_finite() }
    fn eps() -> f64 { f32::EPSILON as f64 }
    fn nudge(self, k: i64) -> Self { nudge32(self, k as i32) }
    fn bits64(self) -> u64 { self.to_bits() as u64 }
}
impl Fl for f64 {
    const TAG: &'static str = "f64";
    fn hx(self) -> String { h64(self) }
    fn of(x: f64) -> Self { x }
    fn to64(self) -> f64 { self }
    fn finite(self) -> bool { self.is_finite() }
    fn eps() -> f64 { f64::EPSILON }
    fn nudge(self, k: i64) -> Self { nudge64(self, k) }
    fn bits64(self) -> u64 { self.to_bits() }
}

pub fn hx_list<T: Fl>(xs: &[T]) -> String {
    let mut s = String::new();
    for (i, x) in xs.iter().enumerate() { if i > 0 { s.push(' '); } s.push_str(&x.hx()); }
    s
}

/// Sink for the lines the Lean driver replays, the oracle failures and the statistics of a run.
pub struct Out {
    pub prop: String,
    pub cases: std::io::BufWriter<std::fs::File>,
    pub n_cases: u64,
    pub fails: Vec<(String, String)>, // (clause, detail)
    pub n_fail_total: u64,
    pub counters: BTreeMap<String, u64>,
    pub maxima: BTreeMap<String, f64>,
    pub samples: Vec<String>,
    pub oracle_evals: u64,
    /// substrings that mark a failure as belonging to a listed known finding (written by ./check from known_findings.json): such failures
    /// are kept in their own small bucket so that they can never crowd a different failure of the same clause out of the report
    pub known_markers: Vec<String>,
}
impl Out {
    pub fn new(prop: &str, dir: &str) -> Self {
        std::fs::create_dir_all(dir).unwrap();
        let f = std::fs::File::create(format!("{}/{}.cases", dir, prop)).unwrap();
        Out { prop: prop.into(), cases: std::io::BufWriter::with_capacity(1 << 20, f), n_cases: 0, fails: vec![], n_fail_total: 0,
              counters: BTreeMap::new(), maxima: BTreeMap::new(), samples: vec![], oracle_evals: 0,
              known_markers: std::fs::read_to_string(format!("{}/known_markers.txt", dir)).map(|t| t.lines().filter(|l| !l.is_empty()).map(|l| l.to_string()).collect()).unwrap_or_default() }
    }
    /// a line for the model driver: `<op> <config..> | <inputs..> | <impl outputs..>`
    pub fn case(&mut self, line: &str) {
        writeln!(self.cases, "{}", line).unwrap();
        self.n_cases += 1;
        if self.samples.len() < 12 && (self.n_cases % 997 == 1 || self.n_cases < 4) { self.samples.push(line.to_string()); }
        let op = line.split(' ').next().unwrap_or("");
        *self.counters.entry(format!("op:{}", op)).or_insert(0) += 1;
    }
    pub fn count(&mut self, key: &str) { *self.counters.entry(key.to_string()).or_insert(0) += 1; }
    pub fn count_n(&mut self, key: &str, n: u64) { *self.counters.entry(key.to_string()).or_insert(0) += n; }
    pub fn maxi(&mut self, key: &str, v: f64) {
        let e = self.maxima.entry(key.to_string()).or_insert(f64::NEG_INFINITY);
        if v > *e || v.is_nan() { *e = v; }
    }
    /// the property's own predicate evaluated on the implementation
    pub fn check(&mut self, ok: bool, clause: &str, detail: impl FnOnce() -> String) {
        self.oracle_evals += 1;
        if !ok {
            self.n_fail_total += 1;
            let d = detail();
            let text = format!("{} | {}", clause, d);
            let known = self.known_markers.iter().any(|m| text.contains(m.as_str()));
            let per = self.fails.iter().filter(|(c, dd)| c == clause && self.known_markers.iter().any(|m| format!("{} | {}", c, dd).contains(m.as_str())) == known).count();
            if per < (if known { 3 } else { 8 }) { self.fails.push((clause.to_string(), d)); }
        }
    }
    pub fn finish(mut self, dir: &str, extra: &str) {
        self.cases.flush().unwrap();
        let mut s = String::new();
        write!(s, "{{\"prop\":\"{}\",\"cases\":{},\"oracle_evals\":{},\"oracle_fail_total\":{},", self.prop, self.n_cases, self.oracle_evals, self.n_fail_total).unwrap();
        s.push_str("\"counters\":{");
        for (i, (k, v)) in self.counters.iter().enumerate() { if i > 0 { s.push(','); } write!(s, "{:?}:{}", k, v).unwrap(); }
        s.push_str("},\"maxima\":{");
        for (i, (k, v)) in self.maxima.iter().enumerate() { if i > 0 { s.push(','); } write!(s, "{:?}:{}", k, if v.is_finite() { format!("{:e}", v) } else { format!("\"{}\"", v) }).unwrap(); }
        s.push_str("},\"samples\":[");
        for (i, v) in self.samples.iter().enumerate() { if i > 0 { s.push(','); } write!(s, "{:?}", v).unwrap(); }
        s.push_str("],\"fails\":[");
        for (i, (c, d)) in self.fails.iter().enumerate() { if i > 0 { s.push(','); } write!(s, "{{\"clause\":{:?},\"detail\":{:?}}}", c, d).unwrap(); }
        s.push_str("]");
        if !extra.is_empty() { s.push(','); s.push_str(extra); }
        s.push('}');
        std::fs::write(format!("{}/{}.stats.json", dir, self.prop), s).unwrap();
        for (c, d) in &self.fails { println!("ORACLE-FAIL {} {} | {}", self.prop, c, d); }
        println!("HARNESS-DONE {} cases={} oracle_evals={} oracle_fails={}", self.prop, self.n_cases, self.oracle_evals, self.n_fail_total);
    }
}

pub fn quiet_panics() {
    std::panic::set_hook(Box::new(|_| {}));
}
