//! C04 — zero-copy casts (`palette::cast`): lossless, length-exact, layout-sound.
//!
//! Every case calls the real cast function / trait method and records what Rust sees of the buffer before and
//! after: address, length, capacity and the component sequence.  Colour-typed buffers are read back through the
//! *named* fields (never through a cast), component-typed buffers directly, so that field order is observable.
#![allow(clippy::too_many_arguments)]
use crate::common::*;
use std::panic::{catch_unwind, AssertUnwindSafe};

#[path = "c04/types.rs"]
mod types;
#[path = "c04/uints.rs"]
mod uints;
#[path = "c04/more.rs"]
mod more;

/// a component type of the quantifier (u8/u16/u32/f32/f64; u64/u128 only for the uint casts)
pub trait Comp: Copy + std::fmt::Debug + 'static {
    const TAG: &'static str;
    const HEXW: usize;
    /// distinct values for distinct `k` (bijective on the type's bit patterns, so NaN payloads, -0.0 and subnormals occur)
    fn from_seed(k: u64) -> Self;
    fn bits(self) -> u128;
}
macro_rules! comp_uint { ($t:ty, $w:expr, $mul:expr, $add:expr) => {
    impl Comp for $t {
        const TAG: &'static str = stringify!($t);
        const HEXW: usize = $w;
        fn from_seed(k: u64) -> Self { ((k as u128).wrapping_mul($mul).wrapping_add($add)) as $t }
        fn bits(self) -> u128 { self as u128 }
    }
} }
comp_uint!(u8, 2, 167, 13);
comp_uint!(u16, 4, 40503, 7);
comp_uint!(u32, 8, 2654435761, 12345);
comp_uint!(u64, 16, 0x9E37_79B9_7F4A_7C15, 99);
comp_uint!(u128, 32, 0x9E37_79B9_7F4A_7C15_F39C_C060_5CED_C835, 1234567);
impl Comp for f32 {
    const TAG: &'static str = "f32";
    const HEXW: usize = 8;
    fn from_seed(k: u64) -> Self { f32::from_bits(<u32 as Comp>::from_seed(k)) }
    fn bits(self) -> u128 { self.to_bits() as u128 }
}
impl Comp for f64 {
    const TAG: &'static str = "f64";
    const HEXW: usize = 16;
    fn from_seed(k: u64) -> Self { f64::from_bits(<u64 as Comp>::from_seed(k)) }
    fn bits(self) -> u128 { self.to_bits() as u128 }
}

/// what Rust sees of a buffer: address, length, capacity (elements), and the components stored there
#[derive(Clone, PartialEq, Debug)]
pub struct Raw { pub ptr: usize, pub len: usize, pub cap: usize, pub mem: Vec<u128> }

pub fn raw_t<T: Comp>(s: &[T], cap: usize) -> Raw {
    Raw { ptr: s.as_ptr() as usize, len: s.len(), cap, mem: s.iter().map(|x| x.bits()).collect() }
}
pub fn raw_a<T: Comp, const N: usize>(s: &[[T; N]], cap: usize) -> Raw {
    Raw { ptr: s.as_ptr() as usize, len: s.len(), cap, mem: s.iter().flat_map(|a| a.iter().map(|x| x.bits())).collect() }
}
pub fn raw_c<C, T: Comp, const N: usize>(s: &[C], cap: usize, rd: fn(&C) -> [T; N]) -> Raw {
    let mut mem = Vec::with_capacity(s.len() * N);
    for c in s { for x in rd(c) { mem.push(x.bits()); } }
    Raw { ptr: s.as_ptr() as usize, len: s.len(), cap, mem }
}

pub enum Res { Ok(Raw), Err(&'static str, Option<Raw>), Panic }

/// per (type, component type) context: protocol lines + the property's predicate on the implementation
pub struct Ctx<'a> {
    pub out: &'a mut Out,
    pub ty: String,
    pub comp: &'static str,
    pub n: usize,
    pub hexw: usize,
}

impl<'a> Ctx<'a> {
    fn blob(&self, mem: &[u128]) -> String {
        if mem.is_empty() { return "-".into(); }
        let mut s = String::with_capacity(mem.len() * self.hexw);
        for m in mem { use std::fmt::Write; write!(s, "{:0w$x}", m, w = self.hexw).unwrap(); }
        s
    }
    pub fn check(&mut self, ok: bool, clause: &str, detail: impl FnOnce() -> String) {
        let (ty, comp) = (self.ty.clone(), self.comp);
        self.out.check(ok, clause, || format!("{}<{}>: {}", ty, comp, detail()));
    }
    /// one cast: line for the model, and the clauses of the property that speak about it
    pub fn emit(&mut self, op: &str, form: &str, api: &str, b: &Raw, extra: Option<(usize, usize)>, res: Res) { self.emit_opt(true, op, form, api, b, extra, res) }
    /// `proto = false`: the oracle clauses only, no protocol line (types the model's type table does not know, c04/more.rs)
    pub fn emit_opt(&mut self, proto: bool, op: &str, form: &str, api: &str, b: &Raw, extra: Option<(usize, usize)>, res: Res) {
        let by_value = form == "value" || form == "array";
        let id_in = if by_value { 0 } else { 1 };
        let id_out = |r: &Raw| if by_value { 0 } else if r.ptr == b.ptr { 1 } else { 2 };
        let ex = match extra { Some((a, c)) => format!(" {} {}", a, c), None => String::new() };
        // `=`: the observed component sequence is identical to the input's (saves repeating the blob)
        let blob_out = |r: &Raw| if r.mem == b.mem { "=".to_string() } else { self.blob(&r.mem) };
        let outs = match &res {
            Res::Ok(r) => format!("ok {} {} {} {}", id_out(r), r.len, r.cap, blob_out(r)),
            Res::Err(k, Some(r)) => format!("err:{} {} {} {} {}", k, id_out(r), r.len, r.cap, blob_out(r)),
            Res::Err(k, None) => format!("err:{}", k),
            Res::Panic => "panic".into(),
        };
        let line = format!("cast {} {} {} {} {} | {} {} {} {} {}{} | {}", op, form, api, self.ty, self.comp, self.n, id_in, b.len, b.cap, self.blob(&b.mem), ex, outs);
        if proto { self.out.case(&line); }
        self.out.count(&format!("cls:{}/{}", op, form));
        // ---- the property's own predicate
        let n = self.n;
        let cfg = format!("{}/{}/{}", op, form, api);
        let d = |what: &str, r: Option<&Raw>| {
            let what = what.to_string();
            let (bl, bc, bp) = (b.len, b.cap, b.ptr);
            let rr = r.map(|r| (r.len, r.cap, r.ptr));
            move || format!("{}: input len={} cap={} ptr={:#x}, result {:?} (n={})", what, bl, bc, bp, rr, n)
        };
        match op {
            "intoArrays" | "fromArrays" | "intoUints" | "fromUints" | "intoComponents" => {
                let k = if op == "intoComponents" { n } else { 1 };
                match &res {
                    Res::Ok(r) => {
                        if !by_value { self.check(r.ptr == b.ptr, &format!("same-memory:{}", cfg), d("result does not view the input's memory", Some(r))); }
                        self.check(r.len == b.len * k, &format!("len-scales:{}", cfg), d("length is not len*n", Some(r)));
                        self.check(r.cap == b.cap * k, &format!("cap-scales:{}", cfg), d("capacity is not cap*n", Some(r)));
                        self.check(r.mem == b.mem, &format!("data-in-field-order:{}", cfg), d("component sequence differs from the named fields in declared order", Some(r)));
                    }
                    _ => self.check(false, &format!("never-rejects:{}", cfg), d("an infallible cast failed", None)),
                }
            }
            "tryFromComponents" | "fromComponents" => {
                let len_ok = b.len % n == 0;
                let cap_ok = form != "vec" || b.cap % n == 0;
                let accept = len_ok && cap_ok;
                self.out.count(if accept { "cls:from/multiple" } else if !len_ok && !cap_ok { "cls:from/len+cap-mismatch" } else if !len_ok { "cls:from/len-mismatch" } else { "cls:from/cap-mismatch" });
                match &res {
                    Res::Ok(r) => {
                        self.check(accept, &format!("rejects-non-multiple:{}", cfg), d("accepted a buffer whose length/capacity is not a multiple of n", Some(r)));
                        self.check(r.ptr == b.ptr, &format!("same-memory:{}", cfg), d("result does not view the input's memory", Some(r)));
                        self.check(r.len * n == b.len, &format!("len-scales:{}", cfg), d("length is not len/n", Some(r)));
                        let want_cap = if form == "vec" { b.cap } else { b.len };
                        self.check(r.cap * n == want_cap, &format!("cap-scales:{}", cfg), d("capacity is not cap/n", Some(r)));
                        self.check(r.mem == b.mem, &format!("data-in-field-order:{}", cfg), d("named fields in declared order differ from the component sequence", Some(r)));
                    }
                    Res::Err(kind, ret) => {
                        self.check(!accept, &format!("accepts-multiple:{}", cfg), d("rejected a buffer whose length (and capacity) is a multiple of n", None));
                        self.check(op == "tryFromComponents", &format!("error-kind:{}", cfg), d("non-try variant returned an error", None));
                        let want = if form == "vec" { if !len_ok { "length" } else { "capacity" } } else if form == "boxslice" { "boxed" } else { "slice" };
                        let k = kind.to_string();
                        self.check(*kind == want, &format!("error-kind:{}", cfg), { let f = d("wrong error kind", None); move || format!("{} got {} want {}", f(), k, want) });
                        match ret {
                            Some(r) => self.check(r == b, &format!("rejected-unchanged:{}", cfg), d("the rejected buffer was not handed back unchanged", Some(r))),
                            None => self.check(form != "vec" && form != "boxslice", &format!("rejected-unchanged:{}", cfg), d("owned buffer not handed back", None)),
                        }
                    }
                    Res::Panic => self.check(!accept && op == "fromComponents", &format!("accepts-multiple:{}", cfg), d("panicked", None)),
                }
            }
            "intoComponentArray" | "fromComponentArray" => {
                let (big_n, big_m) = extra.unwrap();
                let accept = if op == "intoComponentArray" { big_n * n == big_m } else { big_n % n == 0 && big_n / n == big_m };
                match &res {
                    Res::Ok(r) => {
                        self.check(accept, &format!("rejects-non-multiple:{}", cfg), d("accepted mismatching array lengths", Some(r)));
                        self.check(r.len == big_m && b.len == big_n, &format!("len-scales:{}", cfg), d("array length", Some(r)));
                        self.check(r.mem == b.mem, &format!("data-in-field-order:{}", cfg), d("component sequence differs", Some(r)));
                    }
                    Res::Panic => self.check(!accept, &format!("accepts-multiple:{}", cfg), d("panicked on matching array lengths", None)),
                    Res::Err(..) => self.check(false, &format!("error-kind:{}", cfg), d("unexpected error", None)),
                }
            }
            _ => self.check(false, "harness:unknown-op", || op.to_string()),
        }
    }
    /// a round trip reproduces the original bit for bit, in the same place
    pub fn round_trip(&mut self, what: &str, a: &Raw, b: &Raw) {
        self.check(a == b, &format!("round-trip:{}", what), || format!("before {:?} after {:?}", (a.ptr, a.len, a.cap), (b.ptr, b.len, b.cap)));
    }
}

pub fn quiet<R>(f: impl FnOnce() -> R) -> Option<R> { catch_unwind(AssertUnwindSafe(f)).ok() }

/// lengths (in components) and colour counts explored per tier
pub struct Plan { pub comp_lens: Vec<usize>, pub trait_lens: Vec<usize>, pub thorough: bool }

pub fn plan(tier: &str, n: usize, rng: &mut Rng) -> Plan {
    let thorough = tier == "thorough";
    let mut comp_lens: Vec<usize> = (0..=67).collect();
    let mut trait_lens: Vec<usize> = (0..=(2 * n + 1)).collect();
    trait_lens.extend([66, 67]);
    if thorough {
        comp_lens.extend(68..=130);
        for _ in 0..8 { comp_lens.push(131 + rng.below(870) as usize); }
        for k in [1usize, 7, 64, 341] { comp_lens.push(k * n); comp_lens.push(k * n + 1); }
        trait_lens = (0..=40).collect();
        trait_lens.extend([66, 67]);
    }
    Plan { comp_lens, trait_lens, thorough }
}

/// capacities for a vector of `len` elements: exact, +1, +n, +prime
pub fn caps(len: usize, n: usize, thorough: bool) -> Vec<usize> {
    let mut v = vec![len, len + 1, len + n, len + 7];
    if thorough { v.extend([len + 2 * n, len + 13, len + n * 5 + 1, 2 * len + 3 * n]); }
    v
}

pub fn vec_with<X>(len: usize, cap: usize, mut f: impl FnMut(usize) -> X) -> Vec<X> {
    let mut v = Vec::new();
    v.reserve_exact(cap);
    for i in 0..len { v.push(f(i)); }
    v
}

pub fn run(tier: &str, seed: u64, dir: &str) {
    let mut out = Out::new("C04", dir);
    let mut rng = Rng::new(seed);
    types::run_all(&mut out, &mut rng, tier);
    uints::run_all(&mut out, &mut rng, tier);
    more::run_all(&mut out, &mut rng, tier); // coverage audit (AUDIT_C04.md): after everything else, the earlier case stream is unchanged
    out.finish(dir, "");
}
