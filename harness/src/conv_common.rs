//! Shared plumbing for the conversion families (C01/C02/C07/C14/C15): one protocol line per directly implemented edge.
//!   conv <Src[:cfg]> <Dst[:cfg]> | c0 c1 c2 | d0 d1 d2
//! components in struct-field order (`palette::cast::into_array`), cfg = RGB standard or white point name.
#![allow(dead_code)]
use crate::common::*;
use palette::cast::{self, ArrayCast};
use palette::convert::FromColorUnclamped;

/// nominal box of a colour space by its model name (component order = field order)
pub fn nominal_box(space: &str) -> [(f64, f64); 3] {
    match space {
        "Rgb" | "Xyz" => [(0.0, 1.0), (0.0, 1.0), (0.0, 1.0)],
        "XyzD65" => [(0.0, 0.95047), (0.0, 1.0), (0.0, 1.08883)],
        "Yxy" => [(0.0, 1.0), (0.0, 1.0), (0.0, 1.0)],
        "Lab" => [(0.0, 100.0), (-128.0, 127.0), (-128.0, 127.0)],
        "Lch" => [(0.0, 100.0), (0.0, 128.0), (0.0, 360.0)],
        "Luv" => [(0.0, 100.0), (-84.0, 176.0), (-135.0, 108.0)],
        "Lchuv" => [(0.0, 100.0), (0.0, 180.0), (0.0, 360.0)],
        "Hsluv" => [(0.0, 360.0), (0.0, 100.0), (0.0, 100.0)],
        "Hsl" | "Hsv" | "Hwb" | "Okhsl" | "Okhsv" | "Okhwb" => [(0.0, 360.0), (0.0, 1.0), (0.0, 1.0)],
        "Oklab" => [(0.0, 1.0), (-0.4, 0.4), (-0.4, 0.4)],
        "Oklch" => [(0.0, 1.0), (0.0, 0.4), (0.0, 360.0)],
        "Lms" => [(0.0, 1.0), (0.0, 1.0), (0.0, 1.0)],
        _ => [(0.0, 1.0), (0.0, 1.0), (0.0, 1.0)],
    }
}

/// structured + boundary + random inputs in (and a little around) a box
pub fn box_inputs(bx: [(f64, f64); 3], rng: &mut Rng, n_rand: usize, hwb_like: bool) -> Vec<[f64; 3]> {
    let mut v = vec![];
    let lattice = |lo: f64, hi: f64| vec![lo, hi, if lo <= 0.0 && 0.0 <= hi { 0.0 } else { lo }, lo + (hi - lo) * 1e-9, hi - (hi - lo) * 1e-9, (lo + hi) / 2.0, lo + (hi - lo) * 0.25];
    let (l0, l1, l2) = (lattice(bx[0].0, bx[0].1), lattice(bx[1].0, bx[1].1), lattice(bx[2].0, bx[2].1));
    for &a in &l0 { for &b in &l1 { for &c in &l2 { v.push([a, b, c]); } } }
    for _ in 0..n_rand { v.push([rng.range(bx[0].0, bx[0].1), rng.range(bx[1].0, bx[1].1), rng.range(bx[2].0, bx[2].1)]); }
    for _ in 0..n_rand / 4 { v.push([rng.edgy(bx[0].0, bx[0].1), rng.edgy(bx[1].0, bx[1].1), rng.edgy(bx[2].0, bx[2].1)]); }
    // grays / equal components where that means something
    for i in 0..=16 { let g = i as f64 / 16.0; v.push([bx[0].0 + g * (bx[0].1 - bx[0].0), bx[1].0 + g * (bx[1].1 - bx[1].0), bx[2].0 + g * (bx[2].1 - bx[2].0)]); }
    if hwb_like { v.retain(|c| c[1] + c[2] <= 1.0); }
    v
}

/// in-gamut colours of a destination space obtained by pushing RGB cube samples through the implementation itself
pub fn rgb_cube(rng: &mut Rng, n_rand: usize) -> Vec<[f64; 3]> { box_inputs(nominal_box("Rgb"), rng, n_rand, false) }

pub fn arr_of<T: Fl, const N: usize>(a: [f64; N]) -> [T; N] { let mut o = [T::of(0.0); N]; for i in 0..N { o[i] = T::of(a[i]); } o }

/// run one directly implemented edge on the given inputs: emits correspondence lines, returns (input, output) pairs
pub fn edge<S, D, T: Fl, const N: usize, const M: usize>(out: &mut Out, src: &str, dst: &str, inputs: &[[f64; N]]) -> Vec<([T; N], [T; M])>
where S: ArrayCast<Array = [T; N]>, D: ArrayCast<Array = [T; M]> + FromColorUnclamped<S> {
    let mut res = Vec::with_capacity(inputs.len());
    for i in inputs {
        let a: [T; N] = arr_of(*i);
        let s: S = cast::from_array(a);
        let d: [T; M] = cast::into_array(D::from_color_unclamped(s));
        out.case(&format!("conv {} {} | {} | {}", src, dst, hx_list(&a), hx_list(&d)));
        res.push((a, d));
    }
    res
}

/// |a-b| <= tol * max(scale, |a|, |b|)
pub fn close(a: f64, b: f64, tol: f64, scale: f64) -> bool {
    if a.is_nan() || b.is_nan() { return a.is_nan() && b.is_nan(); }
    if a == b { return true; }
    (a - b).abs() <= tol * scale.max(a.abs()).max(b.abs())
}
pub fn close3(a: &[f64], b: &[f64], tol: f64, scale: &[f64]) -> bool { a.iter().zip(b).zip(scale).all(|((x, y), s)| close(*x, *y, tol, *s)) }
pub fn to64<T: Fl, const N: usize>(a: &[T; N]) -> [f64; N] { let mut o = [0.0; N]; for i in 0..N { o[i] = a[i].to64(); } o }
/// hue difference on the circle
pub fn hue_close(a: f64, b: f64, tol_deg: f64) -> bool { let d = (a - b).rem_euclid(360.0); d.min(360.0 - d) <= tol_deg }
