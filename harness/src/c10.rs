//! C10 — colour operators obey their algebra and all their variants agree.
//!
//! Every operator trait x every implementing colour type x {value, assign, slice, Alpha, PreAlpha} x f32/f64.
//! Variant agreement is compared as exact bits here; the by-value result of every case is also written as a protocol
//! line and replayed through the Lean model (exact comparison as well).
use crate::common::*;
use palette::blend::PreAlpha;
use palette::cast::{self, ArrayCast};
use palette::color_theory::{Analogous, Complementary, SplitComplementary, Tetradic, Triadic};
use palette::{Alpha, Clamp, ClampAssign, Darken, DarkenAssign, Desaturate, DesaturateAssign, Lighten, LightenAssign, Mix, MixAssign, Saturate, SaturateAssign, SetHue, ShiftHue, ShiftHueAssign, WithHue};
use std::ops::{Add, AddAssign, Div, DivAssign, Mul, MulAssign, Neg, Sub, SubAssign};

pub trait F: Fl + Add<Output = Self> + Sub<Output = Self> + Mul<Output = Self> + Div<Output = Self> + Neg<Output = Self> + PartialOrd + Copy {
    /// rounding slack of the oracle: 2^-20 (f32) / 2^-40 (f64) of the component's scale (DESIGN 2.2(c)); the exact-arithmetic
    /// bound of every clause is 0 (the theorems are identities / order statements at R)
    fn slack() -> f64;
}
impl F for f32 { fn slack() -> f64 { 1.0 / (1u64 << 20) as f64 } }
impl F for f64 { fn slack() -> f64 { 1.0 / (1u64 << 40) as f64 } }

/// oracle-only passes of the thorough tier evaluate every clause but write no protocol lines
pub(crate) static QUIET: std::sync::atomic::AtomicBool = std::sync::atomic::AtomicBool::new(false);
pub(crate) fn emit(out: &mut Out, line: impl FnOnce() -> String) { if !QUIET.load(std::sync::atomic::Ordering::Relaxed) { out.case(&format!("c10.{}", line())); } }
/// configuration suffix of the clause names: empty for the default type parameters / in-box colours of `run_floats!`; set by `c10_more.rs`
/// for its extra streams (non-default RGB standard / white point / Lms matrix, colours above the operator's nominal maximum)
pub(crate) static CFG: std::sync::Mutex<&'static str> = std::sync::Mutex::new("");
pub(crate) fn tagof<T: F>(key: &str) -> String { format!("{}{}:{}", key, *CFG.lock().unwrap(), T::TAG) }

pub(crate) fn bits_eq<T: F>(a: &[T], b: &[T]) -> bool {
    a.len() == b.len() && a.iter().zip(b).all(|(x, y)| x.bits64() == y.bits64() || (x.to64().is_nan() && y.to64().is_nan()))
}
pub(crate) fn arr<C: ArrayCast<Array = [T; N]> + Clone, T, const N: usize>(c: &C) -> [T; N] { cast::into_array(c.clone()) }
pub(crate) fn mk<C: ArrayCast<Array = [T; N]>, T, const N: usize>(a: [T; N]) -> C { cast::from_array(a) }
pub(crate) fn clamp01<T: F>(f: T) -> T { if f < T::of(0.0) { T::of(0.0) } else if f > T::of(1.0) { T::of(1.0) } else { f } }
pub(crate) fn dbg<T: F>(a: &[T]) -> String { format!("{:?}", a.iter().map(|x| x.to64()).collect::<Vec<_>>()) }

/// factors: a superset of [-1, 2], grid incl. -0, 0, 1, +-tiny, ends +- 1 ulp, plus random ones
pub(crate) fn factors<T: F>(rng: &mut Rng, nrand: usize) -> Vec<T> {
    let mut v: Vec<T> = [-1.5, -1.0, -0.75, -0.5, -0.25, -1e-30, -0.0, 0.0, 1e-30, 1e-3, 0.125, 0.25, 0.5, 0.75, 1.0, 1.5, 2.0, 3.0].iter().map(|&x| T::of(x)).collect();
    v.push(T::of(1.0).nudge(-1)); v.push(T::of(1.0).nudge(1)); v.push(T::of(-1.0).nudge(1)); v.push(T::of(2.0).nudge(-1));
    for _ in 0..nrand { v.push(T::of(rng.range(-1.5, 2.5))); v.push(T::of(rng.unit())); }
    v
}
/// the factors of `fs` that lie in [0, 1], ascending (for the monotonicity clause)
pub(crate) fn unit_sorted<T: F>(fs: &[T]) -> Vec<T> {
    let mut u: Vec<T> = fs.iter().cloned().filter(|f| *f >= T::of(0.0) && *f <= T::of(1.0)).collect();
    u.sort_by(|a, b| a.partial_cmp(b).unwrap()); u
}

/// in-range colours of a type: the product of per-component boundary classes plus random ones inside the nominal box.
/// Hues (no range) come from all around and beyond the circle.
pub(crate) fn colors<T: F, const N: usize>(bx: &[(f64, f64); N], hue: Option<usize>, rng: &mut Rng, nrand: usize) -> Vec<[T; N]> {
    let per: Vec<Vec<f64>> = (0..N).map(|i| {
        let (lo, hi) = bx[i];
        if Some(i) == hue { vec![0.0, 90.0, 180.0, -180.0, 359.5, -270.25, rng.range(-360.0, 720.0)] }
        else { vec![lo, hi, lo + (hi - lo) * 0.5, lo + (hi - lo) * rng.unit(), lo + (hi - lo) * 1e-7] }
    }).collect();
    let total: usize = per.iter().map(|p| p.len()).product();
    let mut out = vec![];
    for mut k in 0..total { let mut a = [T::of(0.0); N]; for i in 0..N { a[i] = T::of(per[i][k % per[i].len()]); k /= per[i].len(); } out.push(a); }
    for _ in 0..nrand {
        let mut a = [T::of(0.0); N];
        for i in 0..N { let (lo, hi) = bx[i]; a[i] = T::of(if Some(i) == hue { rng.range(-360.0, 720.0) } else { rng.edgy(lo, hi) }); }
        out.push(a);
    }
    out
}
pub(crate) fn scale_of(bx: &(f64, f64)) -> f64 { bx.0.abs().max(bx.1.abs()).max(1e-3) }
pub(crate) fn alphas<T: F>(rng: &mut Rng) -> [T; 3] { [T::of(1.0), T::of(0.0), T::of(rng.unit())] }

// ------------------------------------------------------------------------------------------------ Mix
pub(crate) fn run_mix<C, T: F, const N: usize>(out: &mut Out, rng: &mut Rng, key: &str, bx: &[(f64, f64); N], hue: Option<usize>, nrand: usize)
where C: ArrayCast<Array = [T; N]> + Clone + Mix<Scalar = T> + MixAssign<Scalar = T>, Alpha<C, T>: Mix<Scalar = T> + MixAssign<Scalar = T> + Clone {
    let tag = tagof::<T>(key);
    let cs = colors::<T, N>(bx, hue, rng, nrand);
    let fs = factors::<T>(rng, 4 + nrand / 4);
    let npairs = nrand * 2 + 24;
    for p in 0..npairs {
        let (a, b) = if p < 8 { (cs[p % cs.len()], cs[(p * 7 + 3) % cs.len()]) } else { (*rng.pick(&cs), *rng.pick(&cs)) };
        let (ca, cb): (C, C) = (mk(a), mk(b));
        let [al1, al2, _] = alphas::<T>(rng); let al2 = if p % 2 == 0 { al2 } else { T::of(rng.unit()) };
        for &f in &fs {
            let r = arr(&ca.clone().mix(cb.clone(), f));
            emit(out, || format!("mix {} | {} {} {} {} | {}", key, N, hx_list(&a), hx_list(&b), f.hx(), hx_list(&r)));
            out.count(if f < T::of(0.0) { "cls:mix-f<0" } else if f > T::of(1.0) { "cls:mix-f>1" } else { "cls:mix-f-in-01" });
            // variants, exact bits
            let mut m = ca.clone(); m.mix_assign(cb.clone(), f);
            out.check(bits_eq(&arr(&m), &r), &format!("mix:assign=value:{}", tag), || format!("a {} b {} f {:?}: value {} assign {}", dbg(&a), dbg(&b), f, dbg(&r), dbg(&arr(&m))));
            let (wa, wb) = (Alpha { color: ca.clone(), alpha: al1 }, Alpha { color: cb.clone(), alpha: al2 });
            let fc = clamp01(f);
            let al_doc = al1 + fc * (al2 - al1); // documented alpha: interpolated like a component
            let w = wa.clone().mix(wb.clone(), f);
            out.check(bits_eq(&arr(&w.color), &r) && bits_eq(&[w.alpha], &[al_doc]), &format!("mix:alpha=value:{}", tag), || format!("a {} b {} f {:?}: bare {} wrapped {} alpha {:?} want {:?}", dbg(&a), dbg(&b), f, dbg(&r), dbg(&arr(&w.color)), w.alpha, al_doc));
            let mut w2 = wa.clone(); w2.mix_assign(wb.clone(), f);
            out.check(bits_eq(&arr(&w2.color), &r) && bits_eq(&[w2.alpha], &[al_doc]), &format!("mix:alpha-assign=value:{}", tag), || format!("a {} b {} f {:?}", dbg(&a), dbg(&b), f));
            // factors outside [0,1] behave as the nearest end (exactly: the factor is clamped first)
            let rc = arr(&ca.clone().mix(cb.clone(), fc));
            out.check(bits_eq(&rc, &r), &format!("mix:factor-clamped:{}", tag), || format!("a {} b {} f {:?}: {} vs clamped {}", dbg(&a), dbg(&b), f, dbg(&r), dbg(&rc)));
            // algebra, up to rounding
            for i in 0..N {
                let (x, y, z) = (a[i].to64(), b[i].to64(), r[i].to64());
                if Some(i) == hue {
                    let tol = T::slack() * (360.0 + x.abs() + y.abs());
                    // the hue moves by factor * (signed shortest difference): never more than 180 degrees * factor
                    out.check((z - x).abs() <= 180.0 * fc.to64() + tol, &format!("mix:hue-shorter-way:{}", tag), || format!("hue {} -> {} at f {:?} gives {}", x, y, f, z));
                    if fc == T::of(0.0) { out.check((z - x).abs() <= tol, &format!("mix:at-0-is-first:{}", tag), || format!("hue {} -> {}: {}", x, y, z)); }
                    if fc == T::of(1.0) { let d = (z - y) / 360.0; out.check((d - d.round()).abs() * 360.0 <= tol, &format!("mix:at-1-is-second:{}", tag), || format!("hue {} -> {}: {} (not the same angle)", x, y, z)); }
                    out.maxi("mix-hue-travel/180f", if fc.to64() > 0.0 { (z - x).abs() / (180.0 * fc.to64()) } else { 0.0 });
                } else {
                    let tol = T::slack() * scale_of(&bx[i]);
                    out.check(x.min(y) - tol <= z && z <= x.max(y) + tol, &format!("mix:between:{}", tag), || format!("component {}: {} .. {} at f {:?} gives {}", i, x, y, f, z));
                    if fc == T::of(0.0) { out.check((z - x).abs() <= tol, &format!("mix:at-0-is-first:{}", tag), || format!("component {}: {} .. {} gives {}", i, x, y, z)); }
                    if fc == T::of(1.0) { out.check((z - y).abs() <= tol, &format!("mix:at-1-is-second:{}", tag), || format!("component {}: {} .. {} gives {}", i, x, y, z)); }
                }
            }
        }
    }
}

pub(crate) fn run_mix_pre<C, T: F, const N: usize>(out: &mut Out, rng: &mut Rng, key: &str, bx: &[(f64, f64); N], nrand: usize)
where C: ArrayCast<Array = [T; N]> + Clone + Mix<Scalar = T> + palette::blend::Premultiply<Scalar = T>, PreAlpha<C>: Mix<Scalar = T> + MixAssign<Scalar = T> + Clone {
    let tag = tagof::<T>(key);
    let cs = colors::<T, N>(bx, None, rng, nrand);
    let fs = factors::<T>(rng, 2 + nrand / 8);
    for _ in 0..(nrand + 8) {
        let (a, b) = (*rng.pick(&cs), *rng.pick(&cs));
        let (ca, cb): (C, C) = (mk(a), mk(b));
        let (al1, al2) = (T::of(rng.edgy(0.0, 1.0)), T::of(rng.edgy(0.0, 1.0)));
        for &f in &fs {
            let r = arr(&ca.clone().mix(cb.clone(), f));
            let al_doc = al1 + clamp01(f) * (al2 - al1);
            let (pa, pb) = (PreAlpha { color: ca.clone(), alpha: al1 }, PreAlpha { color: cb.clone(), alpha: al2 });
            let w = pa.clone().mix(pb.clone(), f);
            out.check(bits_eq(&arr(&w.color), &r) && bits_eq(&[w.alpha], &[al_doc]), &format!("mix:prealpha=value:{}", tag), || format!("a {} b {} f {:?}", dbg(&a), dbg(&b), f));
            let mut w2 = pa.clone(); w2.mix_assign(pb.clone(), f);
            out.check(bits_eq(&arr(&w2.color), &r) && bits_eq(&[w2.alpha], &[al_doc]), &format!("mix:prealpha-assign=value:{}", tag), || format!("a {} b {} f {:?}", dbg(&a), dbg(&b), f));
            out.count("cls:prealpha-mix");
        }
    }
}

// ------------------------------------------------------------------------------------------------ Lighten / Saturate
macro_rules! gen_inc { ($fname:ident, $opname:expr, $Tr:ident, $TrA:ident, $m:ident, $mf:ident, $ma:ident, $mfa:ident, $d:ident, $df:ident, $da:ident, $dfa:ident, $dname:expr) => {
pub(crate) fn $fname<C, T: F, const N: usize>(out: &mut Out, rng: &mut Rng, key: &str, bx: &[(f64, f64); N], hue: Option<usize>, lims: &[(usize, T, T)], nrand: usize)
where C: ArrayCast<Array = [T; N]> + Clone + $Tr<Scalar = T> + $TrA<Scalar = T>, [C]: $TrA<Scalar = T>, Alpha<C, T>: $Tr<Scalar = T> + $TrA<Scalar = T> + Clone {
    let tag = tagof::<T>(key);
    let cs = colors::<T, N>(bx, hue, rng, nrand);
    let fs = factors::<T>(rng, 3 + nrand / 4);
    let unit = unit_sorted(&fs);
    let lim_txt: String = lims.iter().map(|(_, lo, hi)| format!("{} {}", lo.hx(), hi.hx())).collect::<Vec<_>>().join(" ");
    let moved = |i: usize| lims.iter().find(|(j, _, _)| *j == i);
    for (_, lo, hi) in lims { out.check(lo <= hi, &format!("{}:limits-ordered:{}", $opname, tag), || format!("{:?} > {:?}", lo, hi)); }
    // per factor: by-value results of all colours (for the slice form)
    for &f in &fs {
        let mut sl: Vec<C> = vec![]; let mut slf: Vec<C> = vec![]; let mut sld: Vec<C> = vec![]; let mut sldf: Vec<C> = vec![];
        let mut want: Vec<[T; N]> = vec![]; let mut wantf: Vec<[T; N]> = vec![]; let mut wantd: Vec<[T; N]> = vec![]; let mut wantdf: Vec<[T; N]> = vec![];
        for c in &cs {
            let cc: C = mk(*c);
            let v = arr(&cc.clone().$m(f)); let vf = arr(&cc.clone().$mf(f));
            emit(out, || format!("{} {} | {} {} {} {} | {}", $opname, key, N, hx_list(c), f.hx(), lim_txt, hx_list(&v)));
            emit(out, || format!("{}fixed {} | {} {} {} {} | {}", $opname, key, N, hx_list(c), f.hx(), lim_txt, hx_list(&vf)));
            out.count(if f < T::of(0.0) { concat!("cls:", $opname, "-f<0") } else if f > T::of(1.0) { concat!("cls:", $opname, "-f>1") } else { concat!("cls:", $opname, "-f-in-01") });
            let mut x = cc.clone(); x.$ma(f);
            out.check(bits_eq(&arr(&x), &v), &format!("{}:assign=value:{}", $opname, tag), || format!("{} f {:?}: value {} assign {}", dbg(c), f, dbg(&v), dbg(&arr(&x))));
            let mut x = cc.clone(); x.$mfa(f);
            out.check(bits_eq(&arr(&x), &vf), &format!("{}-fixed:assign=value:{}", $opname, tag), || format!("{} f {:?}: value {} assign {}", dbg(c), f, dbg(&vf), dbg(&arr(&x))));
            // the opposite operator = this one with the negated amount (all four forms), exact
            let dv = arr(&cc.clone().$d(f)); let dvf = arr(&cc.clone().$df(f));
            let nv = arr(&cc.clone().$m(-f)); let nvf = arr(&cc.clone().$mf(-f));
            out.check(bits_eq(&dv, &nv) && bits_eq(&dvf, &nvf), &format!("{}=negated-{}:{}", $dname, $opname, tag), || format!("{} f {:?}: {} vs {}", dbg(c), f, dbg(&dv), dbg(&nv)));
            let mut x = cc.clone(); x.$da(f); let mut y = cc.clone(); y.$dfa(f);
            out.check(bits_eq(&arr(&x), &dv) && bits_eq(&arr(&y), &dvf), &format!("{}:assign=value:{}", $dname, tag), || format!("{} f {:?}", dbg(c), f));
            // Alpha: same colour, alpha untouched
            let al = T::of(rng.unit());
            let w = Alpha { color: cc.clone(), alpha: al };
            let (r1, r2, r3, r4) = (w.clone().$m(f), w.clone().$mf(f), w.clone().$d(f), w.clone().$df(f));
            out.check(bits_eq(&arr(&r1.color), &v) && bits_eq(&arr(&r2.color), &vf) && bits_eq(&arr(&r3.color), &dv) && bits_eq(&arr(&r4.color), &dvf)
                && bits_eq(&[r1.alpha, r2.alpha, r3.alpha, r4.alpha], &[al; 4]), &format!("{}:alpha=value:{}", $opname, tag), || format!("{} f {:?}", dbg(c), f));
            let (mut a1, mut a2, mut a3, mut a4) = (w.clone(), w.clone(), w.clone(), w.clone());
            a1.$ma(f); a2.$mfa(f); a3.$da(f); a4.$dfa(f);
            out.check(bits_eq(&arr(&a1.color), &v) && bits_eq(&arr(&a2.color), &vf) && bits_eq(&arr(&a3.color), &dv) && bits_eq(&arr(&a4.color), &dvf)
                && bits_eq(&[a1.alpha, a2.alpha, a3.alpha, a4.alpha], &[al; 4]), &format!("{}:alpha-assign=value:{}", $opname, tag), || format!("{} f {:?}", dbg(c), f));
            // range and untouched components: every factor
            for i in 0..N { match moved(i) {
                Some((_, lo, hi)) => { for r in [&v, &vf, &dv, &dvf] { out.check(*lo <= r[i] && r[i] <= *hi, &format!("{}:in-range:{}", $opname, tag), || format!("{} f {:?}: component {} = {:?}", dbg(c), f, i, r[i])); } }
                None => { for r in [&v, &vf, &dv, &dvf] { out.check(r[i].bits64() == c[i].bits64(), &format!("{}:others-untouched:{}", $opname, tag), || format!("{} f {:?}: component {} became {:?}", dbg(c), f, i, r[i])); } }
            } }
            sl.push(cc.clone()); slf.push(cc.clone()); sld.push(cc.clone()); sldf.push(cc.clone());
            want.push(v); wantf.push(vf); wantd.push(dv); wantdf.push(dvf);
        }
        sl.as_mut_slice().$ma(f); slf.as_mut_slice().$mfa(f); sld.as_mut_slice().$da(f); sldf.as_mut_slice().$dfa(f);
        for k in 0..cs.len() {
            out.check(bits_eq(&arr(&sl[k]), &want[k]) && bits_eq(&arr(&slf[k]), &wantf[k]), &format!("{}:slice=map:{}", $opname, tag), || format!("{} f {:?}", dbg(&cs[k]), f));
            out.check(bits_eq(&arr(&sld[k]), &wantd[k]) && bits_eq(&arr(&sldf[k]), &wantdf[k]), &format!("{}:slice=map:{}", $dname, tag), || format!("{} f {:?}", dbg(&cs[k]), f));
        }
    }
    // factor in [0,1]: monotone toward the limit, factor 1 reaches it (both directions, relative and fixed)
    for c in &cs {
        let cc: C = mk(*c);
        let mut prev: Option<([T; N], [T; N], [T; N], [T; N])> = None;
        for &f in &unit {
            let cur = (arr(&cc.clone().$m(f)), arr(&cc.clone().$mf(f)), arr(&cc.clone().$d(f)), arr(&cc.clone().$df(f)));
            for (i, lo, hi) in lims.iter().cloned() {
                let tol = T::slack() * hi.to64().abs().max(lo.to64().abs());
                let (x, up, upf, dn, dnf) = (c[i].to64(), cur.0[i].to64(), cur.1[i].to64(), cur.2[i].to64(), cur.3[i].to64());
                // (a start above the nominal maximum - in range where the bounds contract has no upper bound, e.g. Lch chroma - is moved to the limit: x.min(hi); identical for x <= hi)
                out.check(up >= x.min(hi.to64()) - tol && upf >= x.min(hi.to64()) - tol && dn <= x + tol && dnf <= x + tol, &format!("{}:toward-limit:{}", $opname, tag), || format!("{} f {:?}: component {} {} -> up {} fixed {} down {} fixed {}", dbg(c), f, i, x, up, upf, dn, dnf));
                if let Some(p) = &prev {
                    out.check(p.0[i].to64() <= up + tol && p.1[i].to64() <= upf + tol, &format!("{}:monotone:{}", $opname, tag), || format!("{} component {}: {} then {} (fixed {} then {}) at f {:?}", dbg(c), i, p.0[i].to64(), up, p.1[i].to64(), upf, f));
                    out.check(p.2[i].to64() >= dn - tol && p.3[i].to64() >= dnf - tol, &format!("{}:monotone:{}", $dname, tag), || format!("{} component {}: {} then {} (fixed {} then {}) at f {:?}", dbg(c), i, p.2[i].to64(), dn, p.3[i].to64(), dnf, f));
                }
                if f == T::of(1.0) {
                    out.check((up - hi.to64()).abs() <= tol && (upf - hi.to64()).abs() <= tol, &format!("{}:factor-1-reaches-limit:{}", $opname, tag), || format!("{} component {}: {} / fixed {} (limit {:?})", dbg(c), i, up, upf, hi));
                    // (the fixed forms move by amount x nominal maximum, so amount 1 covers the whole range only from a start within it: from a start ABOVE the
                    // nominal maximum - `:above-max` stream of c10_more.rs, e.g. Lch chroma 256 - `desaturate_fixed(1)` gives x - hi, not lo; the relative form reaches lo from anywhere)
                    out.check((dn - lo.to64()).abs() <= tol && ((dnf - lo.to64()).abs() <= tol || x > hi.to64()), &format!("{}:factor-1-reaches-limit:{}", $dname, tag), || format!("{} component {}: {} / fixed {} (limit {:?})", dbg(c), i, dn, dnf, lo));
                }
            }
            prev = Some(cur);
        }
    }
} } }
gen_inc!(run_lighten, "lighten", Lighten, LightenAssign, lighten, lighten_fixed, lighten_assign, lighten_fixed_assign, darken, darken_fixed, darken_assign, darken_fixed_assign, "darken");
gen_inc!(run_saturate, "saturate", Saturate, SaturateAssign, saturate, saturate_fixed, saturate_assign, saturate_fixed_assign, desaturate, desaturate_fixed, desaturate_assign, desaturate_fixed_assign, "desaturate");

/// HWB family: whiteness and blackness move in opposite directions; in-range means w, b in [0,1] and w + b <= 1
pub(crate) fn run_lighten_hwb<C, T: F>(out: &mut Out, rng: &mut Rng, key: &str, acc: [T; 4], nrand: usize)
where C: ArrayCast<Array = [T; 3]> + Clone + Lighten<Scalar = T> + LightenAssign<Scalar = T>, [C]: LightenAssign<Scalar = T>, Alpha<C, T>: Lighten<Scalar = T> + LightenAssign<Scalar = T> + Clone {
    let tag = tagof::<T>(key);
    let mut cs: Vec<[T; 3]> = vec![];
    let grid = [0.0, 1e-7, 0.25, 0.5, 0.75, 1.0];
    for &w in &grid { for &b in &grid { if w + b <= 1.0 { cs.push([T::of(rng.range(-360.0, 720.0)), T::of(w), T::of(b)]); } } }
    for _ in 0..nrand { let w = rng.edgy(0.0, 1.0); let b = rng.edgy(0.0, 1.0 - w); cs.push([T::of(rng.range(-360.0, 720.0)), T::of(w), T::of(b)]); }
    cs.retain(|c| c[1] + c[2] <= T::of(1.0));
    let fs = factors::<T>(rng, 3 + nrand / 4);
    let unit = unit_sorted(&fs);
    let acc_txt = hx_list(&acc);
    let tol = T::slack();
    for &f in &fs {
        let mut sl: Vec<C> = vec![]; let mut slf: Vec<C> = vec![]; let mut want = vec![]; let mut wantf = vec![];
        for c in &cs {
            let cc: C = mk(*c);
            let v = arr(&cc.clone().lighten(f)); let vf = arr(&cc.clone().lighten_fixed(f));
            emit(out, || format!("lightenhwb {} | 3 {} {} {} | {}", key, hx_list(c), f.hx(), acc_txt, hx_list(&v)));
            emit(out, || format!("lightenhwbfixed {} | 3 {} {} {} | {}", key, hx_list(c), f.hx(), acc_txt, hx_list(&vf)));
            out.count(if f < T::of(0.0) { "cls:lightenhwb-f<0" } else if f > T::of(1.0) { "cls:lightenhwb-f>1" } else { "cls:lightenhwb-f-in-01" });
            let mut x = cc.clone(); x.lighten_assign(f); let mut y = cc.clone(); y.lighten_fixed_assign(f);
            out.check(bits_eq(&arr(&x), &v) && bits_eq(&arr(&y), &vf), &format!("lighten:assign=value:{}", tag), || format!("{} f {:?}: value {} assign {}", dbg(c), f, dbg(&v), dbg(&arr(&x))));
            let dv = arr(&cc.clone().darken(f)); let dvf = arr(&cc.clone().darken_fixed(f));
            out.check(bits_eq(&dv, &arr(&cc.clone().lighten(-f))) && bits_eq(&dvf, &arr(&cc.clone().lighten_fixed(-f))), &format!("darken=negated-lighten:{}", tag), || format!("{} f {:?}", dbg(c), f));
            let mut x = cc.clone(); x.darken_assign(f); let mut y = cc.clone(); y.darken_fixed_assign(f);
            out.check(bits_eq(&arr(&x), &dv) && bits_eq(&arr(&y), &dvf), &format!("darken:assign=value:{}", tag), || format!("{} f {:?}", dbg(c), f));
            let al = T::of(rng.unit());
            let w = Alpha { color: cc.clone(), alpha: al };
            let (r1, r2, r3, r4) = (w.clone().lighten(f), w.clone().lighten_fixed(f), w.clone().darken(f), w.clone().darken_fixed(f));
            out.check(bits_eq(&arr(&r1.color), &v) && bits_eq(&arr(&r2.color), &vf) && bits_eq(&arr(&r3.color), &dv) && bits_eq(&arr(&r4.color), &dvf) && bits_eq(&[r1.alpha, r2.alpha, r3.alpha, r4.alpha], &[al; 4]), &format!("lighten:alpha=value:{}", tag), || format!("{} f {:?}", dbg(c), f));
            let (mut a1, mut a2, mut a3, mut a4) = (w.clone(), w.clone(), w.clone(), w.clone());
            a1.lighten_assign(f); a2.lighten_fixed_assign(f); a3.darken_assign(f); a4.darken_fixed_assign(f);
            out.check(bits_eq(&arr(&a1.color), &v) && bits_eq(&arr(&a2.color), &vf) && bits_eq(&arr(&a3.color), &dv) && bits_eq(&arr(&a4.color), &dvf) && bits_eq(&[a1.alpha, a2.alpha, a3.alpha, a4.alpha], &[al; 4]), &format!("lighten:alpha-assign=value:{}", tag), || format!("{} f {:?}", dbg(c), f));
            for r in [&v, &vf, &dv, &dvf] { out.check(r[0].bits64() == c[0].bits64(), &format!("lighten:others-untouched:{}", tag), || format!("{} f {:?}: hue became {:?}", dbg(c), f, r[0])); }
            sl.push(cc.clone()); slf.push(cc.clone()); want.push(v); wantf.push(vf);
        }
        sl.as_mut_slice().lighten_assign(f); slf.as_mut_slice().lighten_fixed_assign(f);
        for k in 0..cs.len() { out.check(bits_eq(&arr(&sl[k]), &want[k]) && bits_eq(&arr(&slf[k]), &wantf[k]), &format!("lighten:slice=map:{}", tag), || format!("{} f {:?}", dbg(&cs[k]), f)); }
    }
    for c in &cs {
        let cc: C = mk(*c);
        let (w0, b0) = (c[1].to64(), c[2].to64());
        let mut prev: Option<[[T; 3]; 4]> = None;
        for &f in &unit {
            let cur = [arr(&cc.clone().lighten(f)), arr(&cc.clone().lighten_fixed(f)), arr(&cc.clone().darken(f)), arr(&cc.clone().darken_fixed(f))];
            for (k, r) in cur.iter().enumerate() {
                let (w, b) = (r[1].to64(), r[2].to64());
                let up = k < 2;
                // opposite directions
                out.check(if up { w >= w0 - tol && b <= b0 + tol } else { w <= w0 + tol && b >= b0 - tol }, &format!("lighten-hwb:opposite-directions:{}", tag), || format!("{} f {:?} form {}: w {} b {}", dbg(c), f, k, w, b));
                // never leave the range: w, b in [min, max] = [0, 1] (the limits are enforced by a clamp, hence exactly) and w + b <= 1 (up to rounding)
                out.check(w >= 0.0 && b >= 0.0 && w <= 1.0 && b <= 1.0 && w + b <= 1.0 + 2.0 * tol, &format!("lighten-hwb:in-range:{}", tag), || format!("{} f {:?} form {} (0 lighten, 1 lighten_fixed, 2 darken, 3 darken_fixed): w {} b {}", dbg(c), f, k, w, b));
                if let Some(p) = &prev { let (pw, pb) = (p[k][1].to64(), p[k][2].to64());
                    out.check(if up { pw <= w + tol && pb >= b - tol } else { pw >= w - tol && pb <= b + tol }, &format!("lighten-hwb:monotone:{}", tag), || format!("{} form {}: w {} -> {}, b {} -> {} at f {:?}", dbg(c), k, pw, w, pb, b, f)); }
                if f == T::of(1.0) { out.check(if up { (w - 1.0).abs() <= tol && b.abs() <= tol } else { w.abs() <= tol && (b - 1.0).abs() <= tol }, &format!("lighten-hwb:factor-1-reaches-limit:{}", tag), || format!("{} form {}: w {} b {}", dbg(c), k, w, b)); }
            }
            prev = Some(cur);
        }
    }
}

// ------------------------------------------------------------------------------------------------ Clamp (variant agreement only; the bounds contract itself is C03)
pub(crate) fn run_clamp<C, T: F, const N: usize>(out: &mut Out, rng: &mut Rng, key: &str, bx: &[(f64, f64); N], hue: Option<usize>, nrand: usize)
where C: ArrayCast<Array = [T; N]> + Clone + Clamp + ClampAssign, [C]: ClampAssign, Alpha<C, T>: Clamp + ClampAssign + Clone {
    let tag = tagof::<T>(key);
    let mut cs = colors::<T, N>(bx, hue, rng, nrand);
    // and colours outside the box
    let extra: Vec<[T; N]> = cs.iter().take(40 + nrand).map(|c| { let mut d = *c; for i in 0..N { let (lo, hi) = bx[i]; d[i] = T::of(c[i].to64() + (hi - lo) * rng.range(-1.5, 1.5)); } d }).collect();
    cs.extend(extra);
    let mut sl: Vec<C> = vec![]; let mut want = vec![];
    for c in &cs {
        let cc: C = mk(*c);
        let v = arr(&cc.clone().clamp());
        let mut x = cc.clone(); x.clamp_assign();
        out.check(bits_eq(&arr(&x), &v), &format!("clamp:assign=value:{}", tag), || format!("{}: value {} assign {}", dbg(c), dbg(&v), dbg(&arr(&x))));
        for al in [T::of(rng.range(-0.5, 1.5)), T::of(1.0), T::of(0.0)] {
            let w = Alpha { color: cc.clone(), alpha: al };
            let r = w.clone().clamp(); let mut r2 = w.clone(); r2.clamp_assign();
            let al_doc = clamp01(al); // documented alpha: clamped to [0, max_intensity]
            out.check(bits_eq(&arr(&r.color), &v) && bits_eq(&arr(&r2.color), &v) && r.alpha == al_doc && r2.alpha == al_doc, &format!("clamp:alpha=value:{}", tag), || format!("{} alpha {:?}", dbg(c), al));
        }
        out.count("cls:clamp-variants");
        sl.push(cc); want.push(v);
    }
    sl.as_mut_slice().clamp_assign();
    for k in 0..cs.len() { out.check(bits_eq(&arr(&sl[k]), &want[k]), &format!("clamp:slice=map:{}", tag), || dbg(&cs[k])); }
}

// ------------------------------------------------------------------------------------------------ hue operators + colour theory
pub(crate) fn run_hue<C, T: F, const N: usize>(out: &mut Out, rng: &mut Rng, key: &str, bx: &[(f64, f64); N], hue: usize, nrand: usize)
where C: ArrayCast<Array = [T; N]> + Clone + ShiftHue<Scalar = T> + ShiftHueAssign<Scalar = T> + WithHue<T> + SetHue<T> + Complementary + SplitComplementary + Analogous + Triadic + Tetradic,
      [C]: ShiftHueAssign<Scalar = T> + SetHue<T>,
      Alpha<C, T>: ShiftHue<Scalar = T> + ShiftHueAssign<Scalar = T> + WithHue<T> + SetHue<T> + Complementary + SplitComplementary + Analogous + Triadic + Tetradic + Clone {
    let tag = tagof::<T>(key);
    let cs = colors::<T, N>(bx, Some(hue), rng, nrand);
    let mut amounts: Vec<T> = [-360.0, -180.0, -90.0, -1e-30, -0.0, 0.0, 1e-30, 30.0, 180.0, 360.0, 540.5].iter().map(|&x| T::of(x)).collect();
    for _ in 0..4 { amounts.push(T::of(rng.range(-720.0, 720.0))); amounts.push(T::of(rng.range(-1.0, 2.0))); }
    for &x in &amounts {
        let mut sl: Vec<C> = vec![]; let mut sl2: Vec<C> = vec![]; let mut want = vec![]; let mut want2 = vec![];
        for c in &cs {
            let cc: C = mk(*c);
            let v = arr(&cc.clone().shift_hue(x)); let s = arr(&cc.clone().with_hue(x));
            emit(out, || format!("shifthue {} | {} {} {} | {}", key, N, hx_list(c), x.hx(), hx_list(&v)));
            emit(out, || format!("withhue {} | {} {} {} | {}", key, N, hx_list(c), x.hx(), hx_list(&s)));
            let mut a = cc.clone(); a.shift_hue_assign(x); let mut b = cc.clone(); b.set_hue(x);
            out.check(bits_eq(&arr(&a), &v) && bits_eq(&arr(&b), &s), &format!("hue:assign=value:{}", tag), || format!("{} x {:?}", dbg(c), x));
            let al = T::of(rng.unit()); let w = Alpha { color: cc.clone(), alpha: al };
            let (r1, r2) = (w.clone().shift_hue(x), w.clone().with_hue(x)); let (mut r3, mut r4) = (w.clone(), w.clone()); r3.shift_hue_assign(x); r4.set_hue(x);
            out.check(bits_eq(&arr(&r1.color), &v) && bits_eq(&arr(&r2.color), &s) && bits_eq(&arr(&r3.color), &v) && bits_eq(&arr(&r4.color), &s) && bits_eq(&[r1.alpha, r2.alpha, r3.alpha, r4.alpha], &[al; 4]), &format!("hue:alpha=value:{}", tag), || format!("{} x {:?}", dbg(c), x));
            for i in 0..N { if i != hue { out.check(v[i].bits64() == c[i].bits64() && s[i].bits64() == c[i].bits64(), &format!("hue:others-untouched:{}", tag), || format!("{} x {:?}", dbg(c), x)); } }
            out.check(s[hue].bits64() == x.bits64(), &format!("hue:set:{}", tag), || format!("{} x {:?}", dbg(c), x));
            sl.push(cc.clone()); sl2.push(cc.clone()); want.push(v); want2.push(s);
        }
        sl.as_mut_slice().shift_hue_assign(x); sl2.as_mut_slice().set_hue(x);
        for k in 0..cs.len() { out.check(bits_eq(&arr(&sl[k]), &want[k]) && bits_eq(&arr(&sl2[k]), &want2[k]), &format!("hue:slice=map:{}", tag), || format!("{} x {:?}", dbg(&cs[k]), x)); }
    }
    // colour schemes = the documented shifts (exact), with and without alpha
    for c in &cs {
        let cc: C = mk(*c);
        let sh = |d: f64| arr(&cc.clone().shift_hue(T::of(d)));
        let al = T::of(rng.unit()); let w = Alpha { color: cc.clone(), alpha: al };
        let flat = |v: Vec<[T; N]>| v.iter().map(|a| hx_list(a)).collect::<Vec<_>>().join(" ");
        let comp = arr(&cc.clone().complementary());
        emit(out, || format!("scheme complementary {} | {} {} | {}", key, N, hx_list(c), hx_list(&comp)));
        let wc = w.clone().complementary();
        out.check(bits_eq(&comp, &sh(180.0)) && bits_eq(&arr(&wc.color), &comp) && wc.alpha.bits64() == al.bits64(), &format!("scheme:complementary:{}", tag), || dbg(c));
        let (s1, s2) = cc.clone().split_complementary(); let (s1, s2) = (arr(&s1), arr(&s2));
        emit(out, || format!("scheme split_complementary {} | {} {} | {}", key, N, hx_list(c), flat(vec![s1, s2])));
        let (w1, w2) = w.clone().split_complementary();
        out.check(bits_eq(&s1, &sh(150.0)) && bits_eq(&s2, &sh(210.0)) && bits_eq(&arr(&w1.color), &s1) && bits_eq(&arr(&w2.color), &s2) && bits_eq(&[w1.alpha, w2.alpha], &[al; 2]), &format!("scheme:split-complementary:{}", tag), || dbg(c));
        let (s1, s2) = cc.clone().analogous(); let (s1, s2) = (arr(&s1), arr(&s2));
        emit(out, || format!("scheme analogous {} | {} {} | {}", key, N, hx_list(c), flat(vec![s1, s2])));
        let (w1, w2) = w.clone().analogous();
        out.check(bits_eq(&s1, &sh(330.0)) && bits_eq(&s2, &sh(30.0)) && bits_eq(&arr(&w1.color), &s1) && bits_eq(&arr(&w2.color), &s2) && bits_eq(&[w1.alpha, w2.alpha], &[al; 2]), &format!("scheme:analogous:{}", tag), || dbg(c));
        let (s1, s2) = cc.clone().analogous_secondary(); let (s1, s2) = (arr(&s1), arr(&s2));
        emit(out, || format!("scheme analogous_secondary {} | {} {} | {}", key, N, hx_list(c), flat(vec![s1, s2])));
        let (w1, w2) = w.clone().analogous_secondary();
        out.check(bits_eq(&s1, &sh(300.0)) && bits_eq(&s2, &sh(60.0)) && bits_eq(&arr(&w1.color), &s1) && bits_eq(&arr(&w2.color), &s2) && bits_eq(&[w1.alpha, w2.alpha], &[al; 2]), &format!("scheme:analogous-secondary:{}", tag), || dbg(c));
        let (s1, s2) = cc.clone().triadic(); let (s1, s2) = (arr(&s1), arr(&s2));
        emit(out, || format!("scheme triadic {} | {} {} | {}", key, N, hx_list(c), flat(vec![s1, s2])));
        let (w1, w2) = w.clone().triadic();
        out.check(bits_eq(&s1, &sh(120.0)) && bits_eq(&s2, &sh(240.0)) && bits_eq(&arr(&w1.color), &s1) && bits_eq(&arr(&w2.color), &s2) && bits_eq(&[w1.alpha, w2.alpha], &[al; 2]), &format!("scheme:triadic:{}", tag), || dbg(c));
        let (s1, s2, s3) = cc.clone().tetradic(); let (s1, s2, s3) = (arr(&s1), arr(&s2), arr(&s3));
        emit(out, || format!("scheme tetradic {} | {} {} | {}", key, N, hx_list(c), flat(vec![s1, s2, s3])));
        let (w1, w2, w3) = w.clone().tetradic();
        out.check(bits_eq(&s1, &sh(90.0)) && bits_eq(&s2, &sh(180.0)) && bits_eq(&s3, &sh(270.0)) && bits_eq(&arr(&w1.color), &s1) && bits_eq(&arr(&w2.color), &s2) && bits_eq(&arr(&w3.color), &s3) && bits_eq(&[w1.alpha, w2.alpha, w3.alpha], &[al; 3]), &format!("scheme:tetradic:{}", tag), || dbg(c));
        out.count("cls:schemes");
    }
}

/// Lab-like types: complementary = a, b negated; tetradic = quarter turns of (a, b)
pub(crate) fn run_lab<C, T: F, const N: usize>(out: &mut Out, rng: &mut Rng, key: &str, bx: &[(f64, f64); N], ia: usize, ib: usize, nrand: usize)
where C: ArrayCast<Array = [T; N]> + Clone + Complementary + Tetradic, Alpha<C, T>: Complementary + Tetradic + Clone {
    let tag = tagof::<T>(key);
    for c in &colors::<T, N>(bx, None, rng, nrand) {
        let cc: C = mk(*c);
        let comp = arr(&cc.clone().complementary());
        emit(out, || format!("labcompl {} | {} {} | {}", key, N, hx_list(c), hx_list(&comp)));
        let mut want = *c; want[ia] = -c[ia]; want[ib] = -c[ib];
        out.check(bits_eq(&comp, &want), &format!("scheme:lab-complementary:{}", tag), || format!("{} -> {}", dbg(c), dbg(&comp)));
        let (t1, t2, t3) = cc.clone().tetradic(); let (t1, t2, t3) = (arr(&t1), arr(&t2), arr(&t3));
        emit(out, || format!("labtetradic {} | {} {} | {} {} {}", key, N, hx_list(c), hx_list(&t1), hx_list(&t2), hx_list(&t3)));
        let mut q1 = *c; q1[ia] = -c[ib]; q1[ib] = c[ia];
        let mut q3 = *c; q3[ia] = c[ib]; q3[ib] = -c[ia];
        out.check(bits_eq(&t1, &q1) && bits_eq(&t2, &want) && bits_eq(&t3, &q3), &format!("scheme:lab-tetradic:{}", tag), || format!("{} -> {} {} {}", dbg(c), dbg(&t1), dbg(&t2), dbg(&t3)));
        let al = T::of(rng.unit()); let w = Alpha { color: cc.clone(), alpha: al };
        let wc = w.clone().complementary(); let (w1, w2, w3) = w.clone().tetradic();
        out.check(bits_eq(&arr(&wc.color), &comp) && bits_eq(&arr(&w1.color), &t1) && bits_eq(&arr(&w2.color), &t2) && bits_eq(&arr(&w3.color), &t3) && bits_eq(&[wc.alpha, w1.alpha, w2.alpha, w3.alpha], &[al; 4]), &format!("scheme:lab-alpha=value:{}", tag), || dbg(c));
        out.count("cls:lab-schemes");
    }
}

// ------------------------------------------------------------------------------------------------ component arithmetic
macro_rules! gen_arith { ($fname:ident, $($Op:ident $OpA:ident $m:ident $ma:ident $line:expr, $lines:expr);+) => {
pub(crate) fn $fname<C, T: F, const N: usize>(out: &mut Out, rng: &mut Rng, key: &str, bx: &[(f64, f64); N], hue: Option<usize>, nrand: usize)
where C: ArrayCast<Array = [T; N]> + Clone $(+ $Op<C, Output = C> + $Op<T, Output = C> + $OpA<C> + $OpA<T>)+,
      Alpha<C, T>: Clone $(+ $Op<Alpha<C, T>, Output = Alpha<C, T>> + $Op<T, Output = Alpha<C, T>> + $OpA<Alpha<C, T>> + $OpA<T>)+ {
    let tag = tagof::<T>(key);
    let cs = colors::<T, N>(bx, hue, rng, nrand);
    for k in 0..(nrand * 3 + 30) {
        let (a, b) = if k < 10 { (cs[k % cs.len()], cs[(k * 5 + 1) % cs.len()]) } else { (*rng.pick(&cs), *rng.pick(&cs)) };
        let (ca, cb): (C, C) = (mk(a), mk(b));
        let rs_ = rng.range(-1.0, 2.0); let s = T::of(*rng.pick(&[0.0, -0.0, 1.0, 2.0, -1.0, 0.5, 1e-30, rs_]));
        let (al1, al2) = (T::of(rng.unit()), T::of(rng.edgy(0.0, 1.0)));
        let (wa, wb) = (Alpha { color: ca.clone(), alpha: al1 }, Alpha { color: cb.clone(), alpha: al2 });
        $( {
            let r = arr(&$Op::$m(ca.clone(), cb.clone())); let rs = arr(&$Op::$m(ca.clone(), s));
            emit(out, || format!("{} {} | {} {} {} | {}", $line, key, N, hx_list(&a), hx_list(&b), hx_list(&r)));
            emit(out, || format!("{} {} | {} {} {} | {}", $lines, key, N, hx_list(&a), s.hx(), hx_list(&rs)));
            let mut x = ca.clone(); $OpA::$ma(&mut x, cb.clone()); let mut y = ca.clone(); $OpA::$ma(&mut y, s);
            out.check(bits_eq(&arr(&x), &r) && bits_eq(&arr(&y), &rs), &format!("arith:{}:assign=value:{}", $line, tag), || format!("{} {} s {:?}", dbg(&a), dbg(&b), s));
            let w = $Op::$m(wa.clone(), wb.clone()); let ws = $Op::$m(wa.clone(), s);
            let mut wx = wa.clone(); $OpA::$ma(&mut wx, wb.clone()); let mut wy = wa.clone(); $OpA::$ma(&mut wy, s);
            // documented alpha: the same operation applied to the alphas
            let (ad, ads) = ($Op::$m(al1, al2), $Op::$m(al1, s));
            out.check(bits_eq(&arr(&w.color), &r) && bits_eq(&arr(&ws.color), &rs) && bits_eq(&arr(&wx.color), &r) && bits_eq(&arr(&wy.color), &rs) && bits_eq(&[w.alpha, wx.alpha, ws.alpha, wy.alpha], &[ad, ad, ads, ads]),
                &format!("arith:{}:alpha=value:{}", $line, tag), || format!("{} {} s {:?}", dbg(&a), dbg(&b), s));
            out.count(concat!("cls:arith-", $line));
        } )+
    }
} } }
gen_arith!(run_addsub, Add AddAssign add add_assign "add", "adds"; Sub SubAssign sub sub_assign "sub", "subs");
gen_arith!(run_muldiv, Mul MulAssign mul mul_assign "mul", "muls"; Div DivAssign div div_assign "div", "divs");

macro_rules! gen_arith_pre { ($fname:ident, $($Op:ident $OpA:ident $m:ident $ma:ident $line:expr);+) => {
pub(crate) fn $fname<C, T: F, const N: usize>(out: &mut Out, rng: &mut Rng, key: &str, bx: &[(f64, f64); N], nrand: usize)
where C: ArrayCast<Array = [T; N]> + Clone + palette::blend::Premultiply<Scalar = T> $(+ $Op<C, Output = C> + $Op<T, Output = C>)+,
      PreAlpha<C>: Clone $(+ $Op<PreAlpha<C>, Output = PreAlpha<C>> + $Op<T, Output = PreAlpha<C>> + $OpA<PreAlpha<C>> + $OpA<T>)+ {
    let tag = tagof::<T>(key);
    let cs = colors::<T, N>(bx, None, rng, nrand);
    for _ in 0..(nrand + 10) {
        let (a, b) = (*rng.pick(&cs), *rng.pick(&cs));
        let (ca, cb): (C, C) = (mk(a), mk(b));
        let rs_ = rng.range(-1.0, 2.0); let s = T::of(*rng.pick(&[0.0, 1.0, 2.0, -1.0, 0.5, rs_]));
        let (al1, al2) = (T::of(rng.unit()), T::of(rng.edgy(0.0, 1.0)));
        let (wa, wb) = (PreAlpha { color: ca.clone(), alpha: al1 }, PreAlpha { color: cb.clone(), alpha: al2 });
        $( {
            let r = arr(&$Op::$m(ca.clone(), cb.clone())); let rs = arr(&$Op::$m(ca.clone(), s));
            let w = $Op::$m(wa.clone(), wb.clone()); let ws = $Op::$m(wa.clone(), s);
            let mut wx = wa.clone(); $OpA::$ma(&mut wx, wb.clone()); let mut wy = wa.clone(); $OpA::$ma(&mut wy, s);
            let (ad, ads) = ($Op::$m(al1, al2), $Op::$m(al1, s));
            out.check(bits_eq(&arr(&w.color), &r) && bits_eq(&arr(&ws.color), &rs) && bits_eq(&arr(&wx.color), &r) && bits_eq(&arr(&wy.color), &rs) && bits_eq(&[w.alpha, wx.alpha, ws.alpha, wy.alpha], &[ad, ad, ads, ads]),
                &format!("arith:{}:prealpha=value:{}", $line, tag), || format!("{} {} s {:?}", dbg(&a), dbg(&b), s));
            out.count("cls:arith-prealpha");
        } )+
    }
} } }
gen_arith_pre!(run_arith_pre, Add AddAssign add add_assign "add"; Sub SubAssign sub sub_assign "sub"; Mul MulAssign mul mul_assign "mul"; Div DivAssign div div_assign "div");

// ------------------------------------------------------------------------------------------------ per-type dispatch
#[derive(Default)]
struct Cov { mix: Vec<&'static str>, lighten: Vec<&'static str>, saturate: Vec<&'static str>, hue: Vec<&'static str>, addsub: Vec<&'static str>, muldiv: Vec<&'static str>, lab: Vec<&'static str>, pre: Vec<&'static str> }
fn note(v: &mut Vec<&'static str>, k: &'static str) { if !v.contains(&k) { v.push(k); } }

macro_rules! run_floats { ($out:expr, $rng:expr, $n:expr, $cov:expr, $t:ty) => {{
    use palette::encoding::Srgb as S; use palette::white_point::D65; use palette::lms::matrix::Bradford as Br;
    use palette::{Hsl, Hsv, Hwb, Lab, Lch, Luv, Lchuv, Hsluv, Xyz, Yxy, Oklab, Oklch, Okhsl, Okhsv, Okhwb};
    use palette::rgb::Rgb; use palette::luma::Luma; use palette::lms::Lms;
    use palette::cam16::{Cam16UcsJab, Cam16UcsJmh, Cam16Jch, Cam16Jmh, Cam16Jsh, Cam16Qch, Cam16Qmh, Cam16Qsh};
    type T = $t;
    let (out, rng, n, cov): (&mut Out, &mut Rng, usize, &mut Cov) = ($out, $rng, $n, $cov);
    let xyz_hi = (Xyz::<D65, T>::max_x() as f64, Xyz::<D65, T>::max_y() as f64, Xyz::<D65, T>::max_z() as f64);
    // cartesian types with Mix + Premultiply + all four arithmetic operators
    macro_rules! cart { ($ty:ty, $key:expr, $bx:expr) => {{
        let bx = $bx;
        run_mix::<$ty, T, 3>(out, rng, $key, &bx, None, n); note(&mut cov.mix, $key);
        run_mix_pre::<$ty, T, 3>(out, rng, $key, &bx, n); note(&mut cov.pre, $key);
        run_addsub::<$ty, T, 3>(out, rng, $key, &bx, None, n); note(&mut cov.addsub, $key);
        run_muldiv::<$ty, T, 3>(out, rng, $key, &bx, None, n); note(&mut cov.muldiv, $key);
        run_arith_pre::<$ty, T, 3>(out, rng, $key, &bx, n);
        run_clamp::<$ty, T, 3>(out, rng, $key, &bx, None, n);
    }} }
    // cylindrical types with Mix (hue) + hue operators + schemes + add/sub
    macro_rules! cyl { ($ty:ty, $key:expr, $bx:expr, $h:expr) => {{
        let bx = $bx;
        run_mix::<$ty, T, 3>(out, rng, $key, &bx, Some($h), n); note(&mut cov.mix, $key);
        run_hue::<$ty, T, 3>(out, rng, $key, &bx, $h, n); note(&mut cov.hue, $key);
        run_addsub::<$ty, T, 3>(out, rng, $key, &bx, Some($h), n); note(&mut cov.addsub, $key);
        run_clamp::<$ty, T, 3>(out, rng, $key, &bx, Some($h), n);
    }} }
    macro_rules! light { ($ty:ty, $key:expr, $bx:expr, $h:expr, $lims:expr) => {{ run_lighten::<$ty, T, 3>(out, rng, $key, &$bx, $h, &$lims, n); note(&mut cov.lighten, $key); }} }
    macro_rules! sat { ($ty:ty, $key:expr, $bx:expr, $h:expr, $lims:expr) => {{ run_saturate::<$ty, T, 3>(out, rng, $key, &$bx, $h, &$lims, n); note(&mut cov.saturate, $key); }} }

    let unit3 = [(0.0, 1.0); 3];
    cart!(Rgb<S, T>, "Rgb", unit3);
    light!(Rgb<S, T>, "Rgb", unit3, None, [(0, Rgb::<S, T>::min_red(), Rgb::<S, T>::max_red()), (1, Rgb::<S, T>::min_green(), Rgb::<S, T>::max_green()), (2, Rgb::<S, T>::min_blue(), Rgb::<S, T>::max_blue())]);
    {   // Luma: one component
        let bx = [(0.0, 1.0)];
        run_mix::<Luma<S, T>, T, 1>(out, rng, "Luma", &bx, None, n); note(&mut cov.mix, "Luma");
        run_mix_pre::<Luma<S, T>, T, 1>(out, rng, "Luma", &bx, n); note(&mut cov.pre, "Luma");
        run_addsub::<Luma<S, T>, T, 1>(out, rng, "Luma", &bx, None, n); note(&mut cov.addsub, "Luma");
        run_muldiv::<Luma<S, T>, T, 1>(out, rng, "Luma", &bx, None, n); note(&mut cov.muldiv, "Luma");
        run_arith_pre::<Luma<S, T>, T, 1>(out, rng, "Luma", &bx, n);
        run_clamp::<Luma<S, T>, T, 1>(out, rng, "Luma", &bx, None, n * 4);
        run_lighten::<Luma<S, T>, T, 1>(out, rng, "Luma", &bx, None, &[(0, Luma::<S, T>::min_luma(), Luma::<S, T>::max_luma())], n * 4); note(&mut cov.lighten, "Luma");
    }
    let hsx = [(0.0, 360.0), (0.0, 1.0), (0.0, 1.0)];
    cyl!(Hsl<S, T>, "Hsl", hsx, 0);
    light!(Hsl<S, T>, "Hsl", hsx, Some(0), [(2, Hsl::<S, T>::min_lightness(), Hsl::<S, T>::max_lightness())]);
    sat!(Hsl<S, T>, "Hsl", hsx, Some(0), [(1, Hsl::<S, T>::min_saturation(), Hsl::<S, T>::max_saturation())]);
    cyl!(Hsv<S, T>, "Hsv", hsx, 0);
    light!(Hsv<S, T>, "Hsv", hsx, Some(0), [(2, Hsv::<S, T>::min_value(), Hsv::<S, T>::max_value())]);
    sat!(Hsv<S, T>, "Hsv", hsx, Some(0), [(1, Hsv::<S, T>::min_saturation(), Hsv::<S, T>::max_saturation())]);
    cyl!(Hwb<S, T>, "Hwb", [(0.0, 360.0), (0.0, 0.5), (0.0, 0.5)], 0);
    run_lighten_hwb::<Hwb<S, T>, T>(out, rng, "Hwb", [Hwb::<S, T>::min_whiteness(), Hwb::<S, T>::max_whiteness(), Hwb::<S, T>::min_blackness(), Hwb::<S, T>::max_blackness()], n * 4); note(&mut cov.lighten, "Hwb");
    let labx = [(0.0, 100.0), (-128.0, 127.0), (-128.0, 127.0)];
    cart!(Lab<D65, T>, "Lab", labx);
    light!(Lab<D65, T>, "Lab", labx, None, [(0, Lab::<D65, T>::min_l(), Lab::<D65, T>::max_l())]);
    run_lab::<Lab<D65, T>, T, 3>(out, rng, "Lab", &labx, 1, 2, n); note(&mut cov.lab, "Lab");
    let lchx = [(0.0, 100.0), (0.0, 128.0), (0.0, 360.0)];
    cyl!(Lch<D65, T>, "Lch", lchx, 2);
    light!(Lch<D65, T>, "Lch", lchx, Some(2), [(0, Lch::<D65, T>::min_l(), Lch::<D65, T>::max_l())]);
    sat!(Lch<D65, T>, "Lch", lchx, Some(2), [(1, Lch::<D65, T>::min_chroma(), Lch::<D65, T>::max_chroma())]);
    let luvx = [(0.0, 100.0), (-84.0, 176.0), (-135.0, 108.0)];
    cart!(Luv<D65, T>, "Luv", luvx);
    light!(Luv<D65, T>, "Luv", luvx, None, [(0, Luv::<D65, T>::min_l(), Luv::<D65, T>::max_l())]);
    run_lab::<Luv<D65, T>, T, 3>(out, rng, "Luv", &luvx, 1, 2, n); note(&mut cov.lab, "Luv");
    let lchuvx = [(0.0, 100.0), (0.0, 180.0), (0.0, 360.0)];
    cyl!(Lchuv<D65, T>, "Lchuv", lchuvx, 2);
    light!(Lchuv<D65, T>, "Lchuv", lchuvx, Some(2), [(0, Lchuv::<D65, T>::min_l(), Lchuv::<D65, T>::max_l())]);
    sat!(Lchuv<D65, T>, "Lchuv", lchuvx, Some(2), [(1, Lchuv::<D65, T>::min_chroma(), Lchuv::<D65, T>::max_chroma())]);
    let hsluvx = [(0.0, 360.0), (0.0, 100.0), (0.0, 100.0)];
    cyl!(Hsluv<D65, T>, "Hsluv", hsluvx, 0);
    light!(Hsluv<D65, T>, "Hsluv", hsluvx, Some(0), [(2, Hsluv::<D65, T>::min_l(), Hsluv::<D65, T>::max_l())]);
    sat!(Hsluv<D65, T>, "Hsluv", hsluvx, Some(0), [(1, Hsluv::<D65, T>::min_saturation(), Hsluv::<D65, T>::max_saturation())]);
    let xyzx = [(0.0, xyz_hi.0), (0.0, xyz_hi.1), (0.0, xyz_hi.2)];
    cart!(Xyz<D65, T>, "Xyz", xyzx);
    light!(Xyz<D65, T>, "Xyz", xyzx, None, [(0, Xyz::<D65, T>::min_x(), Xyz::<D65, T>::max_x()), (1, Xyz::<D65, T>::min_y(), Xyz::<D65, T>::max_y()), (2, Xyz::<D65, T>::min_z(), Xyz::<D65, T>::max_z())]);
    cart!(Yxy<D65, T>, "Yxy", unit3);
    light!(Yxy<D65, T>, "Yxy", unit3, None, [(2, Yxy::<D65, T>::min_luma(), Yxy::<D65, T>::max_luma())]);
    let oklabx = [(0.0, 1.0), (-0.5, 0.5), (-0.5, 0.5)];
    cart!(Oklab<T>, "Oklab", oklabx);
    light!(Oklab<T>, "Oklab", oklabx, None, [(0, Oklab::<T>::min_l(), Oklab::<T>::max_l())]);
    run_lab::<Oklab<T>, T, 3>(out, rng, "Oklab", &oklabx, 1, 2, n); note(&mut cov.lab, "Oklab");
    let oklchx = [(0.0, 1.0), (0.0, 0.5), (0.0, 360.0)];
    cyl!(Oklch<T>, "Oklch", oklchx, 2);
    light!(Oklch<T>, "Oklch", oklchx, Some(2), [(0, Oklch::<T>::min_l(), Oklch::<T>::max_l())]);
    cyl!(Okhsl<T>, "Okhsl", hsx, 0);
    light!(Okhsl<T>, "Okhsl", hsx, Some(0), [(2, Okhsl::<T>::min_lightness(), Okhsl::<T>::max_lightness())]);
    sat!(Okhsl<T>, "Okhsl", hsx, Some(0), [(1, Okhsl::<T>::min_saturation(), Okhsl::<T>::max_saturation())]);
    cyl!(Okhsv<T>, "Okhsv", hsx, 0);
    light!(Okhsv<T>, "Okhsv", hsx, Some(0), [(2, Okhsv::<T>::min_value(), Okhsv::<T>::max_value())]);
    sat!(Okhsv<T>, "Okhsv", hsx, Some(0), [(1, Okhsv::<T>::min_saturation(), Okhsv::<T>::max_saturation())]);
    cyl!(Okhwb<T>, "Okhwb", [(0.0, 360.0), (0.0, 0.5), (0.0, 0.5)], 0);
    run_lighten_hwb::<Okhwb<T>, T>(out, rng, "Okhwb", [Okhwb::<T>::min_whiteness(), Okhwb::<T>::max_whiteness(), Okhwb::<T>::min_blackness(), Okhwb::<T>::max_blackness()], n * 4); note(&mut cov.lighten, "Okhwb");
    cart!(Lms<Br, T>, "Lms", unit3);
    let jabx = [(0.0, 100.0), (-50.0, 50.0), (-50.0, 50.0)];
    cart!(Cam16UcsJab<T>, "Cam16UcsJab", jabx);
    light!(Cam16UcsJab<T>, "Cam16UcsJab", jabx, None, [(0, Cam16UcsJab::<T>::min_lightness(), Cam16UcsJab::<T>::max_lightness())]);
    run_lab::<Cam16UcsJab<T>, T, 3>(out, rng, "Cam16UcsJab", &jabx, 1, 2, n); note(&mut cov.lab, "Cam16UcsJab");
    let jmhx = [(0.0, 100.0), (0.0, 50.0), (0.0, 360.0)];
    cyl!(Cam16UcsJmh<T>, "Cam16UcsJmh", jmhx, 2);
    light!(Cam16UcsJmh<T>, "Cam16UcsJmh", jmhx, Some(2), [(0, Cam16UcsJmh::<T>::min_lightness(), Cam16UcsJmh::<T>::max_lightness())]);
    sat!(Cam16UcsJmh<T>, "Cam16UcsJmh", jmhx, Some(2), [(1, Cam16UcsJmh::<T>::min_colorfulness(), Cam16UcsJmh::<T>::max_srgb_colorfulness())]);
    // the six partial CAM16 types are one macro body (`$name` in cam16/partial.rs)
    let px = [(0.0, 100.0), (0.0, 100.0), (0.0, 360.0)];
    cyl!(Cam16Jch<T>, "$name", px, 2); cyl!(Cam16Jmh<T>, "$name", px, 2); cyl!(Cam16Jsh<T>, "$name", px, 2);
    cyl!(Cam16Qch<T>, "$name", px, 2); cyl!(Cam16Qmh<T>, "$name", px, 2); cyl!(Cam16Qsh<T>, "$name", px, 2);
}} }

pub fn run(tier: &str, seed: u64, dir: &str) {
    let mut out = Out::new("C10", dir);
    let mut rng = Rng::new(seed);
    let thorough = tier == "thorough";
    let n = if thorough { 120 } else { 6 };
    let mut cov = Cov::default();
    run_floats!(&mut out, &mut rng, n, &mut cov, f32);
    run_floats!(&mut out, &mut rng, n, &mut cov, f64);
    // which types were exercised per macro table: the driver compares with the tables extracted from the sources
    for (t, v) in [("mix", &cov.mix), ("lighten", &cov.lighten), ("saturate", &cov.saturate), ("hue", &cov.hue), ("addsub", &cov.addsub), ("muldiv", &cov.muldiv), ("lab", &cov.lab), ("premultiply", &cov.pre)] {
        out.case(&format!("c10.coverage {} | {} |", t, v.join(" ")));
    }
    if thorough {
        // oracle-only passes: fresh random colours and factors, every clause evaluated, no protocol lines
        QUIET.store(true, std::sync::atomic::Ordering::Relaxed);
        for _ in 0..4 {
            run_floats!(&mut out, &mut rng, 240, &mut cov, f32);
            run_floats!(&mut out, &mut rng, 240, &mut cov, f64);
            out.count("cls:oracle-only-pass");
        }
        QUIET.store(false, std::sync::atomic::Ordering::Relaxed);
    }
    // coverage-audit additions (forms / types / configurations the streams above do not reach): `c10_more.rs`. Called last, so that the case stream above is unchanged.
    crate::c10_more::run_more(&mut out, &mut rng, thorough);
    out.finish(dir, "");
}
