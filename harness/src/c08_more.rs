//! C08 — coverage audit additions (see AUDIT_C08.md): entry points, forms and type parameters inside the property's quantifier
//! ("opaque, Alpha and PreAlpha inputs x color types implementing Premultiply x f32/f64") that `c08.rs` did not drive.
//! Called last from `c08::run`, so the case stream of `c08.rs` is unchanged.
//!
//! 1. `entry_points!` — instantiated per CONCRETE colour type (no palette trait bound is restated here: a changed bound cannot stop
//!    this file from compiling for the other types), for all nine `impl_premultiply!` instantiations (Rgb twice) and four types
//!    with non-default type parameters:
//!    * `C::from(PreAlpha<C>)` / `PreAlpha<C>::into()` — `impl From<PreAlpha<Self>> for $ty`, generated per type by the second half
//!      of `impl_premultiply!` (macros/blend.rs); neither translated (header of Gen/BodiesBlend.lean) nor executed before.
//!      The property's round trip ("premultiplying then unpremultiplying returns the original colour whenever alpha is non-zero
//!      and a zero colour when it is zero") is evaluated through this un-premultiplying entry point, with the sibling clause's
//!      tolerance (4 eps: two roundings of c*a/a plus the subnormal granularity of c*a), it is compared bit for bit with the
//!      covered `Premultiply::unpremultiply` (as `premultiply-entry-points-agree` does for the other entry points), and its
//!      output goes to the model as an `unpremul` line.
//!    * `PreAlpha<C>::from(C)` — `impl From<C> for PreAlpha<C>` (blend/pre_alpha.rs): the opaque premultiplied form of a colour.
//!      Alpha must be 1 (bit for bit, as `roundtrip-alpha`), the round trip back through `C::from` / `unpremultiply()` returns the
//!      colour (4 eps), it agrees bit for bit with the covered `c.premultiply(1)`, and it is replayed as a `premul` line.
//!    * `PreAlpha::new_opaque(C)` called directly (so far only reached through `Compose for C` / `BlendWith for C`): colour bits
//!      unchanged, alpha 1; and the property's identity "an opaque source over anything returns the source" with the opaque
//!      source built by `new_opaque` and by `From<C>` (tolerance of the sibling clause `opaque-source-over-returns-source`),
//!      replayed as `compose .. over pre` lines.
//! 2. Non-default type parameters (RGB standard, luma standard, white point, LMS matrix) through the unchanged `run_blend` /
//!    `run_compose` of `c08.rs` on a small sample: the impls are generic in these parameters (no code of their own), so this is
//!    a guard against a parameter-dependent bound or body appearing, not new arithmetic.
use crate::c08::{gen_cases, pack, run_blend, run_compose, w3c_b, w3c_blend_pre, w3c_over_alpha, Case, Fx, MODES};
use crate::common::*;
use palette::blend::{Blend, Compose, PreAlpha, Premultiply};
use palette::cast;
use palette::Alpha;

fn same<T: Fx>(a: T, b: T) -> bool { a.bits64() == b.bits64() || a == b }
fn same_arr<T: Fx, const N: usize>(a: &[T; N], b: &[T; N]) -> bool { (0..N).all(|k| same(a[k], b[k])) }

/// (colour, alpha) pairs: every alpha class of the property (0, smallest normal, subnormal, next to the branch values, 1) with
/// grid and random colours, plus random pairs
fn ep_cases<T: Fx, const N: usize>(rng: &mut Rng, n_rand: usize) -> Vec<([T; N], T)> {
    let (q, h, one) = (T::of(0.25), T::of(0.5), T::one());
    let cg = [T::zero(), T::tiny(), q.nudge(-1), q, h, h.nudge(1), T::of(0.75), one.nudge(-1), one];
    let ag = [T::zero(), T::tiny(), T::tiny().nudge(1), T::subnormal(), T::of(1e-9), q.nudge(-1), q.nudge(1), T::of(1.0 / 3.0), h, one.nudge(-1), one];
    let mut v = vec![];
    for &a in &ag {
        // constant colours and mixed ones
        for &c in &[T::zero(), h, one] { v.push(([c; N], a)); }
        for _ in 0..3 {
            let mut col = [T::zero(); N];
            for k in 0..N { col[k] = if rng.chance(0.5) { *rng.pick(&cg) } else { T::of(rng.unit()) }; }
            v.push((col, a));
        }
    }
    for _ in 0..n_rand {
        let mut col = [T::zero(); N];
        for k in 0..N { col[k] = if rng.chance(0.2) { *rng.pick(&cg) } else { T::of(rng.unit()) }; }
        let a = if rng.chance(0.3) { *rng.pick(&ag) } else { T::of(rng.unit()) };
        v.push((col, a));
    }
    v
}

macro_rules! entry_points { ($out:expr, $rng:expr, $t:ty, $c:ty, $n:literal, $name:expr, $nr:expr) => {{
    type T = $t; type C = $c; const N: usize = $n;
    let out: &mut Out = $out; let rng: &mut Rng = $rng; let ty: &str = $name;
    let (zero, one) = (<T as Fx>::zero(), <T as Fx>::one());
    let t16 = 16.0 * <T as Fl>::eps(); // `tol` of c08.rs
    let cases = ep_cases::<T, N>(rng, $nr);
    for (ci, &(col, al)) in cases.iter().enumerate() {
        let mk = |a: [T; N]| -> C { cast::from_array(a) };
        // ---------- covered reference forms
        let p_ref: PreAlpha<C> = mk(col).premultiply(al);
        let pc: [T; N] = cast::into_array(p_ref.color);
        let (u_ref, ua_ref) = <C as Premultiply>::unpremultiply(p_ref);
        let u_ref: [T; N] = cast::into_array(u_ref);
        // ---------- C::from(PreAlpha<C>) and its `Into` spelling
        let u_from: [T; N] = cast::into_array(<C as From<PreAlpha<C>>>::from(p_ref));
        let u_into: [T; N] = { let c: C = p_ref.into(); cast::into_array(c) };
        out.case(&format!("unpremul {}/from-prealpha | {} {} {} | {} {}", ty, N, hx_list(&pc), al.hx(), hx_list(&u_from), ua_ref.hx()));
        out.check(same_arr(&u_from, &u_ref) && same_arr(&u_into, &u_ref), &format!("premultiply-entry-points-agree:from-prealpha:{}:{}", ty, <T as Fl>::TAG),
            || format!("{:?}/{:?}: C::from(pre) {:?}, pre.into() {:?}, Premultiply::unpremultiply {:?}", col, al, u_from, u_into, u_ref));
        if al == zero {
            out.count("cls:from-prealpha:alpha=0");
            out.check(u_from.iter().all(|x| *x == zero), &format!("roundtrip-zero-alpha-gives-zero-colour:from-prealpha:{}:{}", ty, <T as Fl>::TAG), || format!("{:?}/{:?} -> {:?}", col, al, u_from));
        } else if al.is_norm() {
            out.count("cls:from-prealpha:alpha-normal");
            for k in 0..N {
                let dev = (u_from[k].to64() - col[k].to64()).abs();
                out.maxi(&format!("roundtrip-dev/eps:from-prealpha:{}", <T as Fl>::TAG), dev / <T as Fl>::eps());
                out.check(dev <= 4.0 * <T as Fl>::eps(), &format!("roundtrip:from-prealpha:{}:{}", ty, <T as Fl>::TAG), || format!("c={:e} alpha={:e} -> {:e}", col[k].to64(), al.to64(), u_from[k].to64()));
            }
        } else {
            out.count("cls:from-prealpha:alpha-subnormal");
            for k in 0..N {
                let ok = u_from[k] == zero || (u_from[k].to64() - col[k].to64()).abs() <= col[k].to64().abs();
                out.check(ok, &format!("roundtrip-subnormal-alpha:from-prealpha:{}:{}", ty, <T as Fl>::TAG), || format!("c={:e} alpha={:e} -> {:e}", col[k].to64(), al.to64(), u_from[k].to64()));
            }
        }
        // ---------- PreAlpha<C>::from(C): the opaque premultiplied form
        let p_o: PreAlpha<C> = <PreAlpha<C> as From<C>>::from(mk(col));
        let p_o2: PreAlpha<C> = mk(col).into();
        let p_1: PreAlpha<C> = mk(col).premultiply(one);
        let (poc, po2c, p1c): ([T; N], [T; N], [T; N]) = (cast::into_array(p_o.color), cast::into_array(p_o2.color), cast::into_array(p_1.color));
        let back: [T; N] = cast::into_array(<C as From<PreAlpha<C>>>::from(p_o));
        let back_a: Alpha<C, T> = p_o.unpremultiply();
        let back2: [T; N] = cast::into_array(back_a.color);
        out.case(&format!("premul {}/from-colour | {} {} {} | {} {} {} {}", ty, N, hx_list(&col), one.hx(), hx_list(&poc), p_o.alpha.hx(), hx_list(&back), back_a.alpha.hx()));
        out.check(same_arr(&poc, &p1c) && same_arr(&po2c, &p1c) && same(p_o.alpha, p_1.alpha) && same(p_o2.alpha, p_1.alpha) && same_arr(&back, &back2),
            &format!("premultiply-entry-points-agree:from-colour:{}:{}", ty, <T as Fl>::TAG), || format!("{:?}: PreAlpha::from(c) {:?}/{:?}, c.premultiply(1) {:?}/{:?}", col, poc, p_o.alpha, p1c, p_1.alpha));
        out.check(same(p_o.alpha, one) && same(back_a.alpha, one), &format!("roundtrip-alpha:from-colour:{}:{}", ty, <T as Fl>::TAG), || format!("{:?} -> alpha {:?}, after unpremultiply {:?}", col, p_o.alpha, back_a.alpha));
        for k in 0..N {
            let dev = (poc[k].to64() - col[k].to64()).abs().max((back[k].to64() - col[k].to64()).abs());
            out.check(dev <= 4.0 * <T as Fl>::eps(), &format!("roundtrip:from-colour:{}:{}", ty, <T as Fl>::TAG), || format!("c={:e} -> premultiplied {:e} -> {:e}", col[k].to64(), poc[k].to64(), back[k].to64()));
        }
        // ---------- PreAlpha::new_opaque(C), directly
        let p_n: PreAlpha<C> = PreAlpha::new_opaque(mk(col));
        let pnc: [T; N] = cast::into_array(p_n.color);
        out.check(same_arr(&pnc, &col) && same(p_n.alpha, one), &format!("new_opaque-is-colour-with-alpha-1:{}:{}", ty, <T as Fl>::TAG), || format!("{:?} -> {:?}/{:?}", col, pnc, p_n.alpha));
        // ---------- an opaque source (built by either constructor) over anything returns the source
        {
            let (dcol, dal) = cases[(ci * 7 + 3) % cases.len()];
            if dal == zero || dal.is_norm() {
                let pd: PreAlpha<C> = PreAlpha::new(mk(dcol), dal);
                let pdc: [T; N] = cast::into_array(pd.color);
                for (who, src) in [("new_opaque", p_n), ("from-colour", p_o)] {
                    let r = src.over(pd);
                    let rc: [T; N] = cast::into_array(r.color);
                    out.case(&format!("compose {}/{} over pre | {} {} {} {} {} | {} {}", ty, who, N, hx_list(&col), one.hx(), hx_list(&pdc), dal.hx(), hx_list(&rc), r.alpha.hx()));
                    let ok = (0..N).all(|k| (rc[k].to64() - col[k].to64()).abs() <= t16) && (r.alpha.to64() - 1.0).abs() <= t16;
                    out.check(ok, &format!("opaque-source-over-returns-source:{}:{}:{}", who, ty, <T as Fl>::TAG), || format!("s={:?}/1 d={:?}/{:?} -> {:?}/{:?}", col, pdc, dal, rc, r.alpha));
                }
            }
        }
    }
}} }

macro_rules! more_floats { ($out:expr, $rng:expr, $t:ty, $thorough:expr) => {{
    use palette::white_point::{D50, D65, E};
    use palette::encoding;
    let (out, rng, th): (&mut Out, &mut Rng, bool) = ($out, $rng, $thorough);
    let nr = if th { 4000 } else { 150 };
    // the nine `impl_premultiply!` instantiations (Rgb with its two usual standards)
    entry_points!(out, rng, $t, palette::LinSrgb<$t>, 3, "LinSrgb", nr);
    entry_points!(out, rng, $t, palette::Srgb<$t>, 3, "Srgb", nr);
    entry_points!(out, rng, $t, palette::Xyz<D65, $t>, 3, "Xyz", nr);
    entry_points!(out, rng, $t, palette::LinLuma<D65, $t>, 1, "LinLuma", nr);
    entry_points!(out, rng, $t, palette::lms::Lms<palette::lms::matrix::Bradford, $t>, 3, "Lms", nr);
    entry_points!(out, rng, $t, palette::Lab<D65, $t>, 3, "Lab", nr);
    entry_points!(out, rng, $t, palette::Luv<D65, $t>, 3, "Luv", nr);
    entry_points!(out, rng, $t, palette::Oklab<$t>, 3, "Oklab", nr);
    entry_points!(out, rng, $t, palette::Yxy<D65, $t>, 3, "Yxy", nr);
    entry_points!(out, rng, $t, palette::cam16::Cam16UcsJab<$t>, 3, "Cam16UcsJab", nr);
    // non-default type parameters
    entry_points!(out, rng, $t, palette::rgb::Rgb<encoding::AdobeRgb, $t>, 3, "AdobeRgb", nr);
    entry_points!(out, rng, $t, palette::SrgbLuma<$t>, 1, "SrgbLuma", nr);
    entry_points!(out, rng, $t, palette::Xyz<D50, $t>, 3, "XyzD50", nr);
    entry_points!(out, rng, $t, palette::Lab<D50, $t>, 3, "LabD50", nr);
    // the whole oracle of c08.rs (W3C formulas, ranges, identities, symmetry, correspondence lines) on a small sample of the grid
    let (frac, nr2) = if th { (0.1, 1500) } else { (0.01, 60) };
    { let cases = gen_cases::<$t, 3>(rng, frac, nr2);
      run_blend::<palette::rgb::Rgb<encoding::AdobeRgb, $t>, $t, 3>(out, "AdobeRgb", &cases);
      run_compose::<palette::rgb::Rgb<encoding::AdobeRgb, $t>, $t, 3, 4>(out, "AdobeRgb", &cases, rng); }
    { let cases = gen_cases::<$t, 1>(rng, frac, nr2);
      run_blend::<palette::SrgbLuma<$t>, $t, 1>(out, "SrgbLuma", &cases);
      run_compose::<palette::SrgbLuma<$t>, $t, 1, 2>(out, "SrgbLuma", &cases, rng); }
    { let cases = gen_cases::<$t, 3>(rng, frac, nr2);
      run_blend::<palette::Xyz<D50, $t>, $t, 3>(out, "XyzD50", &cases);
      run_compose::<palette::Xyz<D50, $t>, $t, 3, 4>(out, "XyzD50", &cases, rng); }
    { let cases = gen_cases::<$t, 3>(rng, frac, nr2);
      run_blend::<palette::lms::Lms<palette::lms::matrix::VonKries, $t>, $t, 3>(out, "LmsVonKries", &cases);
      run_compose::<palette::lms::Lms<palette::lms::matrix::VonKries, $t>, $t, 3, 4>(out, "LmsVonKries", &cases, rng); }
    { let cases = gen_cases::<$t, 3>(rng, frac, nr2);
      run_compose::<palette::Lab<D50, $t>, $t, 3, 4>(out, "LabD50", &cases, rng); }
    { let cases = gen_cases::<$t, 3>(rng, frac, nr2);
      run_compose::<palette::Yxy<E, $t>, $t, 3, 4>(out, "YxyE", &cases, rng); }
}} }

// ------------------------------------------------------------------------------------------------
// 3. "corner components x arbitrary alphas".  The grid of `c08.rs` pairs the corner components {0, 1/4, 1/2, 1} only with the alphas
//    {0, tiny, 1/4 -+ ulp, 1/2 -+ ulp, 1}, and its random stream does not put exact 0/1 components together with arbitrary alphas.
//    The guarded end points of the per-mode functions (burn: cb = 1 / cs = 0, dodge: cb = 0 / cs = 1; thresholds 1/4, 1/2 of
//    hard-light, soft-light, overlay) are reached from a premultiplied input only through the recovered straight colour
//    `c_pre / alpha`, which for these components is EXACT in IEEE arithmetic for every normal alpha (c*a is exact: c is 0 or a power
//    of two; (c*a)/a is the correctly rounded value of the real number c, i.e. c).  So the premultiplied input (c*a, a) denotes the
//    straight colour c exactly, and the W3C value at that point is the property's expected value without any allowance for a
//    rounded argument.
//    * `corner_cases`: all 16 (cs, cb) pairs from {0, 1, 1/4, 1/2} packed into the N components (every pair in every alpha pair),
//      alpha pairs (a,1), (1,a), (a,a), (a,b), (b,a) for ~64 alphas a (decimal ones whose reciprocal is inexact, k/100, random).
//    * the unchanged `run_blend` of `c08.rs` on them: opaque / Alpha / PreAlpha::new forms, W3C clauses, ranges, protocol lines.
//    * `corner_forms!` (per concrete type): the PreAlpha form premultiplied by hand (`PreAlpha { color: c*a, alpha: a }`) and by
//      `PreAlpha::new`, judged by the W3C formula with the sibling tolerance `16 eps * alpha_o` (clause `formula-corner`), and the
//      property's "the input forms agree": PreAlpha result = Alpha result re-premultiplied (clause `forms-agree`).
fn corner_alphas<T: Fx>(rng: &mut Rng) -> Vec<T> {
    let mut v: Vec<T> = vec![];
    for a in [0.21, 0.42, 0.77, 0.85, 0.91, 0.09, 0.41, 0.73, 0.1, 0.2, 0.3, 0.6, 0.7, 0.9, 0.99, 0.01, 1.0 / 3.0, 2.0 / 3.0, 0.75, 0.5, 0.25, 1.0] { v.push(T::of(a)); }
    for k in [3, 7, 11, 13, 17, 19, 23, 29, 31, 37, 43, 47, 53, 59, 61, 67, 71, 79, 83, 89, 93, 97] { v.push(T::of(k as f64 / 100.0)); }
    for _ in 0..20 { v.push(T::of(0.01 + 0.99 * rng.unit())); }
    v
}
fn corner_cases<T: Fx, const N: usize>(rng: &mut Rng) -> Vec<Case<T, N>> {
    let cg = [T::zero(), T::one(), T::of(0.25), T::of(0.5)];
    let mut pairs = vec![]; for &a in &cg { for &b in &cg { pairs.push((a, b)); } }
    let al = corner_alphas::<T>(rng);
    let mut ap = vec![];
    for &a in &al {
        let b = *rng.pick(&al);
        ap.push((a, T::one())); ap.push((T::one(), a)); ap.push((a, a)); ap.push((a, b)); ap.push((b, a));
    }
    let mut out = vec![];
    pack::<T, N>(&pairs, &ap, &mut out);
    out
}

macro_rules! corner_forms { ($out:expr, $t:ty, $c:ty, $n:literal, $name:expr, $cases:expr) => {{
    type T = $t; type C = $c; const N: usize = $n;
    let out: &mut Out = $out; let ty: &str = $name; let cases: &[Case<T, N>] = $cases;
    let t = 16.0 * <T as Fl>::eps(); // `tol` of c08.rs
    let fa: [fn(Alpha<C, T>, Alpha<C, T>) -> Alpha<C, T>; 11] = [Blend::multiply, Blend::screen, Blend::overlay, Blend::darken, Blend::lighten, Blend::dodge, Blend::burn, Blend::hard_light, Blend::soft_light, Blend::difference, Blend::exclusion];
    let fp: [fn(PreAlpha<C>, PreAlpha<C>) -> PreAlpha<C>; 11] = [Blend::multiply, Blend::screen, Blend::overlay, Blend::darken, Blend::lighten, Blend::dodge, Blend::burn, Blend::hard_light, Blend::soft_light, Blend::difference, Blend::exclusion];
    for c in cases {
        let (sa64, da64) = (c.sa.to64(), c.da.to64());
        let ao = w3c_over_alpha(sa64, da64);
        // premultiplied by hand (exact products: components are 0 or powers of two, alphas >= 0.01)
        let mut hs = c.s; let mut hd = c.d;
        for k in 0..N { hs[k] = c.s[k] * c.sa; hd[k] = c.d[k] * c.da; }
        let exact = (0..N).all(|k| hs[k].to64() == c.s[k].to64() * sa64 && hd[k].to64() == c.d[k].to64() * da64);
        if !exact { out.count("cls:corner:inexact-product-skipped"); continue; }
        out.count("cls:corner:cases");
        for (mi, mode) in MODES.iter().enumerate() {
            let ra = fa[mi](Alpha { color: cast::from_array(c.s), alpha: c.sa }, Alpha { color: cast::from_array(c.d), alpha: c.da });
            let (rc, ral): ([T; N], T) = (cast::into_array(ra.color), ra.alpha);
            for form in ["by-hand", "new"] {
                let (ps, pd): (PreAlpha<C>, PreAlpha<C>) = if form == "by-hand" {
                    (PreAlpha { color: cast::from_array(hs), alpha: c.sa }, PreAlpha { color: cast::from_array(hd), alpha: c.da })
                } else {
                    (PreAlpha::new(cast::from_array(c.s), c.sa), PreAlpha::new(cast::from_array(c.d), c.da))
                };
                let rp = fp[mi](ps, pd);
                let (rpc, rpa): ([T; N], T) = (cast::into_array(rp.color), rp.alpha);
                if form == "by-hand" {
                    out.case(&format!("blend {} {} pre | {} {} {} {} {} | {} {}", ty, mode, N, hx_list(&hs), c.sa.hx(), hx_list(&hd), c.da.hx(), hx_list(&rpc), rpa.hx()));
                }
                out.check((rpa.to64() - ao).abs() <= t, &format!("formula-alpha-corner:{}:pre-{}:{}:{}", mode, form, ty, <T as Fl>::TAG),
                    || format!("as={:e} ab={:e}: impl {:e}, W3C {:e}", sa64, da64, rpa.to64(), ao));
                for k in 0..N {
                    let (cs, cb) = (c.s[k].to64(), c.d[k].to64());
                    // W3C co at the straight colours the premultiplied inputs denote exactly; tolerance of `formula:*:pre` without the
                    // argument-rounding allowance (there is no rounded argument here, see the header of this section)
                    let want = w3c_blend_pre(w3c_b(mode, cb, cs), cs, sa64, cb, da64);
                    let dev = (rpc[k].to64() - want).abs();
                    out.maxi(&format!("dev/eps/ao:corner-pre:{}", <T as Fl>::TAG), dev / <T as Fl>::eps() / ao);
                    out.check(dev <= t * ao, &format!("formula-corner:{}:pre-{}:{}:{}", mode, form, ty, <T as Fl>::TAG),
                        || format!("PreAlpha {{ color: cs*as = {:e}, alpha: as = {:e} }}.{}(PreAlpha {{ color: cb*ab = {:e}, alpha: ab = {:e} }}) [cs={:e} cb={:e}]: impl co {:e}, W3C co {:e}", hs[k].to64(), sa64, mode, hd[k].to64(), da64, cs, cb, rpc[k].to64(), want));
                    // the input forms agree: premultiplied result = straight result of the Alpha form times its alpha.  Both are within
                    // the sibling tolerances of the same W3C value (pre: t*ao; alpha form: t on the straight colour, t on the alpha,
                    // colour <= 1 + t), so their difference is within t*ao + t*ral + t*(1+t) <= t*(2*ao + 1) + t*t.
                    let dev2 = (rpc[k].to64() - rc[k].to64() * ral.to64()).abs();
                    out.check(dev2 <= t * (2.0 * ao + 1.0) + t * t && (rpa.to64() - ral.to64()).abs() <= 2.0 * t, &format!("forms-agree:{}:pre-{}-vs-alpha:{}:{}", mode, form, ty, <T as Fl>::TAG),
                        || format!("cs={:e} as={:e} cb={:e} ab={:e}: PreAlpha form {:e}/{:e}, Alpha form {:e}/{:e}", cs, sa64, cb, da64, rpc[k].to64(), rpa.to64(), rc[k].to64(), ral.to64()));
                }
            }
        }
    }
}} }

macro_rules! corner_floats { ($out:expr, $rng:expr, $t:ty) => {{
    use palette::white_point::D65;
    let (out, rng): (&mut Out, &mut Rng) = ($out, $rng);
    { let cases = corner_cases::<$t, 3>(rng);
      run_blend::<palette::LinSrgb<$t>, $t, 3>(out, "LinSrgb", &cases);
      corner_forms!(out, $t, palette::LinSrgb<$t>, 3, "LinSrgb", &cases);
      let sub: Vec<Case<$t, 3>> = cases.iter().step_by(7).cloned().collect();
      corner_forms!(out, $t, palette::Srgb<$t>, 3, "Srgb", &sub);
      corner_forms!(out, $t, palette::Xyz<D65, $t>, 3, "Xyz", &sub);
      corner_forms!(out, $t, palette::lms::Lms<palette::lms::matrix::Bradford, $t>, 3, "Lms", &sub); }
    { let cases = corner_cases::<$t, 1>(rng);
      let sub: Vec<Case<$t, 1>> = cases.iter().step_by(5).cloned().collect();
      corner_forms!(out, $t, palette::LinLuma<D65, $t>, 1, "LinLuma", &sub); }
}} }

pub fn run_more(out: &mut Out, rng: &mut Rng, thorough: bool) {
    more_floats!(out, rng, f32, thorough);
    more_floats!(out, rng, f64, thorough);
    corner_floats!(out, rng, f32);
    corner_floats!(out, rng, f64);
}
